#!/bin/sh
# usage: run.sh <worktree>
# Copies hunt_test.go into <worktree>/compile, runs it, removes it again.
WT="${1:?usage: run.sh <worktree>}"
HERE="$(cd "$(dirname "$0")" && pwd)"
export GOFLAGS=-mod=mod GOPROXY=off GOTOOLCHAIN=local
GO=/root/go/pkg/mod/golang.org/toolchain@v0.0.1-go1.23.11.linux-amd64/bin/go
if [ ! -f "$WT/xpath/grammars/leafref/leafref.go" ]; then
	(cd "$WT/xpath/grammars/leafref" && /tmp/tools/goyacc -o leafref.go -p leafref leafref.y >/dev/null && rm -f y.output)
fi
DST="$WT/compile/hunt2_c11_hunt_test.go"
cp "$HERE/hunt_test.go" "$DST"
(cd "$WT" && "$GO" test ./compile -count=1 -v -run 'TestC11')
RC=$?
rm -f "$DST"
exit $RC
