// Hunt for violations of property C11 ("schema compilation is total and
// deterministic").  Belongs in the directory compile/ of the repository
// (package compile_test).
package compile_test

import (
	"fmt"
	"sort"
	"strings"
	"testing"

	"github.com/sdcio/yang-parser/compile"
	"github.com/sdcio/yang-parser/parse"
	"github.com/sdcio/yang-parser/schema"
)

func c11hMod(name, body string) string {
	return fmt.Sprintf("module %s { namespace \"urn:%s\"; prefix %s; %s }", name, name, name, body)
}

func c11hSub(name, belongs, body string) string {
	return fmt.Sprintf("submodule %s { belongs-to %s { prefix %s; } %s }", name, belongs, belongs, body)
}

// c11hWalk visits every node of the compiled schema through the public
// accessors a canonical dump needs (name, namespace, type, children).
func c11hWalk(sb *strings.Builder, n schema.Node, ind string) {
	kids := n.Children()
	sort.Slice(kids, func(i, j int) bool { return kids[i].Name() < kids[j].Name() })
	for _, k := range kids {
		tn := ""
		if ty := k.Type(); ty != nil {
			tn = ty.Name().Space + ":" + ty.Name().Local
		}
		fmt.Fprintf(sb, "%s%T %s{%s} type=%s cfg=%v status=%v\n", ind, k, k.Name(), k.Namespace(), tn, k.Config(), k.Status())
		c11hWalk(sb, k, ind+"  ")
	}
}

// c11hCompile parses the texts afresh and compiles them with
// CompileParseTrees (skipUnknown=false, no extensions, no filter).  It returns
// "OK\n<dump>", "ERROR: ..." or "PANIC: ...".
func c11hCompile(texts ...string) (verdict string) {
	defer func() {
		if e := recover(); e != nil {
			verdict = fmt.Sprintf("PANIC: %v", e)
		}
	}()
	mods := make(map[string]*parse.Tree)
	for i, txt := range texts {
		tr, err := parse.Parse(fmt.Sprintf("f%d.yang", i), txt, nil)
		if err != nil {
			return "PARSE ERROR: " + err.Error()
		}
		mods[tr.Root.Argument().String()] = tr
	}
	ms, err := compile.CompileParseTrees(nil, mods, nil, false, nil)
	if err != nil {
		return "ERROR: " + err.Error()
	}
	var sb strings.Builder
	c11hWalk(&sb, ms, "")
	return "OK\n" + sb.String()
}

func c11hOutcomes(n int, texts ...string) map[string]int {
	out := map[string]int{}
	for i := 0; i < n; i++ {
		out[c11hCompile(texts...)]++
	}
	return out
}

func c11hCheckStable(t *testing.T, what string, texts ...string) {
	t.Helper()
	res := c11hOutcomes(60, texts...)
	if len(res) > 1 {
		t.Errorf("%s: the same input compiled 60 times gave %d different outcomes:", what, len(res))
		for v, c := range res {
			t.Errorf("   %2d x %s", c, strings.SplitN(v, "\n", 2)[0])
		}
	} else {
		for v := range res {
			t.Logf("%s: stable: %s", what, strings.SplitN(v, "\n", 2)[0])
		}
	}
}

// FINDING 1.
//
// expandModule() (compile/grouping.go) expands the groupings of the
// submodules of a module with "for _, sm := range module.GetSubmodules()",
// a map.  Expanding a grouping replaces the top level 'uses' of the used
// groupings IN PLACE, in the context of whoever gets there first.  So which
// submodule is visited first decides in which context a shared grouping is
// expanded, and the error verdict of the whole compilation flips between OK
// and ERROR from run to run on identical (and valid) input.
func TestC11SubmoduleGroupingExpansionOrderFlipsVerdict(t *testing.T) {
	// (a) grouping scope: 'inner' is defined inside 'outer' (RFC 6020 5.5:
	// a grouping may be defined in a grouping and is visible in that scope).
	// Visiting s1 first expands "uses inner" by way of user -> mid -> outer
	// with the scoped lookup (OK); visiting s2 first expands it with the
	// top-level-only lookup: "Unknown grouping (grouping inner)".
	c11hCheckStable(t, "nested grouping scope",
		c11hMod("a", `include s1; include s2;`),
		c11hSub("s1", "a", `include s2; grouping user { uses mid; }`),
		c11hSub("s2", "a", `grouping outer { grouping inner { leaf x { type string; } } uses inner; }
		                     grouping mid { uses outer; }`))

	// (b) status check: the 'uses outer' of the current grouping 'mid'
	// references a deprecated grouping of the same (sub)module.  Visiting s2
	// first reports it ("Current node cannot reference Deprecated node within
	// same module"); visiting s1 first expands it in place under the status
	// of the deprecated grouping 'user', finds nothing wrong, and leaves
	// nothing to check later: OK.
	c11hCheckStable(t, "status of the first user",
		c11hMod("a", `include s1; include s2;`),
		c11hSub("s1", "a", `include s2; grouping user { status deprecated; uses mid; }`),
		c11hSub("s2", "a", `grouping mid { uses outer; }
		                     grouping outer { status deprecated; leaf x { type string; } }`))
}

// Control: the same definitions in ONE submodule are compiled the same way
// every time (there is only one order).
func TestC11ControlSingleSubmoduleIsStable(t *testing.T) {
	c11hCheckStable(t, "one submodule",
		c11hMod("a", `include s2;`),
		c11hSub("s2", "a", `grouping user { uses mid; }
		                     grouping outer { grouping inner { leaf x { type string; } } uses inner; }
		                     grouping mid { uses outer; } container c { uses user; }`))
}

// Control: cycles of every kind are reported, every time.
func TestC11ControlCyclesAreReported(t *testing.T) {
	for name, texts := range map[string][]string{
		"import":   {c11hMod("a", `import b { prefix b; }`), c11hMod("b", `import a { prefix a; }`)},
		"include":  {c11hMod("a", `include s1;`), c11hSub("s1", "a", `include s2;`), c11hSub("s2", "a", `include s1;`)},
		"grouping": {c11hMod("a", `include s;`), c11hSub("s", "a", `grouping g { container c { uses h; } } grouping h { uses g; }`)},
		"typedef":  {c11hMod("a", `typedef t { type union { type string; type u; } } typedef u { type a:t; }`)},
		"identity": {c11hMod("a", `identity i { base j; } identity j { base a:i; }`)},
		"feature":  {c11hMod("a", `feature f { if-feature g; } feature g { if-feature a:f; }`)},
	} {
		res := c11hOutcomes(10, texts...)
		for v := range res {
			if !strings.HasPrefix(v, "ERROR") {
				t.Errorf("%s cycle: %s", name, v)
			}
		}
		if len(res) != 1 {
			t.Errorf("%s cycle: %d distinct outcomes", name, len(res))
		}
	}
}

// DOUBTFUL (reported separately in findings.json, not as a finding).
//
// A list key that names no child leaf (an ill-formed reference; RFC 6020
// 7.8.2: "Each such leaf identifier MUST refer to a child leaf of the list")
// is not reported.  CompileParseTrees returns a ModelSet that cannot be
// dumped: schema.List.Type() dereferences the missing key leaf (nil pointer
// dereference); schema/validate.go and data/encoding call it on every node.
// The same happens when the key leaf is pruned by an if-feature that is off
// or by 'deviate not-supported'.
func TestC11DoubtfulListKeyThatIsNotAChildLeaf(t *testing.T) {
	for name, texts := range map[string][]string{
		"key names no child": {c11hMod("a", `list l { key zz; leaf x { type string; } }`)},
		"key leaf pruned by if-feature": {c11hMod("a",
			`feature f; list l { key k; leaf k { if-feature f; type string; } leaf v { type string; } }`)},
		"key leaf deviated not-supported": {
			c11hMod("a", `list l { key k; leaf k { type string; } leaf v { type string; } }`),
			c11hMod("b", `import a { prefix a; } deviation /a:l/a:k { deviate not-supported; }`)},
	} {
		v := c11hCompile(texts...)
		if strings.HasPrefix(v, "PANIC") {
			t.Errorf("%s: compiled without error, but the returned schema cannot be walked: %s", name, v)
		} else {
			t.Logf("%s: %s", name, strings.SplitN(v, "\n", 2)[0])
		}
	}
}
