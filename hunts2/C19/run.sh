#!/bin/sh
# usage: run.sh <worktree>
set -u
WT="${1:?usage: run.sh <worktree>}"
HERE="$(cd "$(dirname "$0")" && pwd)"
export GOFLAGS=-mod=mod GOPROXY=off GOTOOLCHAIN=local
GO="${GO:-/root/go/pkg/mod/golang.org/toolchain@v0.0.1-go1.23.11.linux-amd64/bin/go}"
if [ ! -f "$WT/xpath/grammars/leafref/leafref.go" ]; then
	(cd "$WT/xpath/grammars/leafref" && /tmp/tools/goyacc -o leafref.go -p leafref leafref.y >/dev/null && rm -f y.output)
fi
DST="$WT/data/encoding/c19_hunt_test.go"
cp "$HERE/hunt_test.go" "$DST"
(cd "$WT" && "$GO" test ./data/encoding/ -run 'TestC19' -count=1 -v)
rc=$?
rm -f "$DST"
exit $rc
