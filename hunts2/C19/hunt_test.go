package encoding_test

// Hunt for property C19 (encoders / decoders round-trip, decoding is total).
// Belongs in <worktree>/data/encoding/ .

import (
	"fmt"
	"sort"
	"strings"
	"testing"

	"github.com/sdcio/yang-parser/data/datanode"
	"github.com/sdcio/yang-parser/data/encoding"
	"github.com/sdcio/yang-parser/schema"
	"github.com/sdcio/yang-parser/testutils"
)

func c19Mod(name, body string) []byte {
	return []byte(fmt.Sprintf(`module %s { namespace "urn:%s"; prefix %s; %s }`,
		name, name, name, body))
}

func c19Schema(t *testing.T, mods ...[]byte) schema.ModelSet {
	t.Helper()
	ms, err := testutils.GetFullSchema(mods...)
	if err != nil {
		t.Fatalf("test schema does not compile: %v", err)
	}
	return ms
}

// c19Dump renders a data tree; the children of anything but a list node are
// sorted by name (JSON objects are unordered), list entries keep their order.
func c19Dump(sn schema.Node, n datanode.DataNode) string {
	var b strings.Builder
	var rec func(n datanode.DataNode, sn schema.Node, ind string)
	rec = func(n datanode.DataNode, sn schema.Node, ind string) {
		fmt.Fprintf(&b, "%s%q %q\n", ind, n.YangDataName(), n.YangDataValues())
		ch := append([]datanode.DataNode{}, n.YangDataChildren()...)
		if _, isList := sn.(schema.List); !isList {
			sort.SliceStable(ch, func(i, j int) bool {
				return ch[i].YangDataName() < ch[j].YangDataName()
			})
		}
		for _, c := range ch {
			rec(c, sn.Child(c.YangDataName()), ind+"  ")
		}
	}
	rec(n, sn, "")
	return b.String()
}

var c19Enc = map[encoding.EncType]string{
	encoding.JSON: "JSON", encoding.RFC7951: "RFC7951", encoding.XML: "XML"}

func c19Decode(enc encoding.EncType, vt schema.ValidationType, sn schema.Node, in string,
) (dn datanode.DataNode, err error) {
	defer func() {
		if r := recover(); r != nil {
			err = fmt.Errorf("PANIC: %v", r)
		}
	}()
	return encoding.NewUnmarshaller(enc).SetValidation(vt).Unmarshal(sn, []byte(in))
}

// leafValue returns the values of the leaf at the given path of names.
func c19Leaf(n datanode.DataNode, path ...string) []string {
	for _, p := range path {
		var next datanode.DataNode
		for _, c := range n.YangDataChildren() {
			if c.YangDataName() == p {
				next = c
			}
		}
		if next == nil {
			return nil
		}
		n = next
	}
	return n.YangDataValues()
}

// ---------------------------------------------------------------------------
// Finding 1: a list with two keys cannot hold two entries that share the
// value of the first key - every decoder answers "Node exists".
// ---------------------------------------------------------------------------
func TestC19MultiKeyListEntriesSharingFirstKey(t *testing.T) {
	ms := c19Schema(t, c19Mod("mod-a", `
		list mk { key "a b"; leaf a { type string; } leaf b { type string; }
			leaf v { type string; } }`))
	inputs := []struct {
		enc encoding.EncType
		in  string
	}{
		{encoding.JSON, `{"mk":[{"a":"1","b":"1","v":"x"},{"a":"1","b":"2","v":"y"}]}`},
		{encoding.RFC7951, `{"mod-a:mk":[{"a":"1","b":"1","v":"x"},{"a":"1","b":"2","v":"y"}]}`},
		{encoding.XML, `<data><mk xmlns="urn:mod-a"><a>1</a><b>1</b><v>x</v></mk>` +
			`<mk xmlns="urn:mod-a"><a>1</a><b>2</b><v>y</v></mk></data>`},
	}
	for _, c := range inputs {
		dn, err := c19Decode(c.enc, schema.ValidateAll, ms, c.in)
		if err != nil {
			t.Errorf("%s: valid tree with entries (1,1) and (1,2) rejected: %v",
				c19Enc[c.enc], strings.TrimSpace(err.Error()))
			continue
		}
		if n := len(dn.YangDataChildren()[0].YangDataChildren()); n != 2 {
			t.Errorf("%s: %d entries decoded, want 2", c19Enc[c.enc], n)
		}
	}
}

// control: entries that differ in the first key decode everywhere
func TestC19MultiKeyListControl(t *testing.T) {
	ms := c19Schema(t, c19Mod("mod-a", `
		list mk { key "a b"; leaf a { type string; } leaf b { type string; } }`))
	if _, err := c19Decode(encoding.JSON, schema.ValidateAll, ms,
		`{"mk":[{"a":"1","b":"1"},{"a":"2","b":"1"}]}`); err != nil {
		t.Errorf("control rejected: %v", err)
	}
}

const c19IdModA = `
	identity base;
	identity la { base base; }
	identity x { base base; }
	container top {
		leaf id { type identityref { base base; } }
		leaf lr { type leafref { path "../id"; } }
		leaf un { type union { type identityref { base base; } type string; } }
	}`

const c19IdModB = `
	import mod-a { prefix a; }
	identity lb { base a:base; }
	identity x { base a:base; }`

// ---------------------------------------------------------------------------
// Finding 2: "mod-a:mod-b:lb" is no identity, yet it is accepted and turned
// into the identity mod-b:lb (the own-module prefix is stripped from a value
// the type rejected and the rest is validated instead).
// ---------------------------------------------------------------------------
func TestC19IdentityrefDoublePrefixIsNotAnIdentity(t *testing.T) {
	ms := c19Schema(t, c19Mod("mod-a", c19IdModA), c19Mod("mod-b", c19IdModB))
	for _, c := range []struct {
		enc encoding.EncType
		in  string
	}{
		{encoding.RFC7951, `{"mod-a:top":{"id":"mod-a:mod-b:lb"}}`},
		{encoding.JSON, `{"top":{"id":"mod-a:mod-b:lb"}}`},
		{encoding.XML, `<data><top><id>mod-a:mod-b:lb</id></top></data>`},
	} {
		dn, err := c19Decode(c.enc, schema.ValidateAll, ms, c.in)
		if err == nil {
			t.Errorf("%s: %s accepted, id = %q; the type identityref rejects "+
				"\"mod-a:mod-b:lb\"", c19Enc[c.enc], c.in, c19Leaf(dn, "top", "id"))
		}
	}
	// controls: both legal forms
	for _, in := range []string{`{"mod-a:top":{"id":"mod-a:la"}}`,
		`{"mod-a:top":{"id":"la"}}`, `{"mod-a:top":{"id":"mod-b:lb"}}`} {
		if _, err := c19Decode(encoding.RFC7951, schema.ValidateAll, ms, in); err != nil {
			t.Errorf("control %s rejected: %v", in, err)
		}
	}
}

// ---------------------------------------------------------------------------
// Finding 3: XML identityref value: the prefix is resolved once per xmlns
// declaration of the element, each time on the result of the previous
// round.  With xmlns:q="urn:mod-b" xmlns:mod-b="urn:mod-a" the value q:x
// (identity x of mod-b) becomes "mod-b:x" and then, by the second
// declaration, "x" - the identity x of mod-a.
// ---------------------------------------------------------------------------
func TestC19XMLIdentityrefPrefixResolvedTwice(t *testing.T) {
	ms := c19Schema(t, c19Mod("mod-a", c19IdModA), c19Mod("mod-b", c19IdModB))
	want, err := c19Decode(encoding.RFC7951, schema.ValidateAll, ms,
		`{"mod-a:top":{"id":"mod-b:x"}}`)
	if err != nil {
		t.Fatalf("reference tree: %v", err)
	}
	got, err := c19Decode(encoding.XML, schema.ValidateAll, ms,
		`<data><top xmlns="urn:mod-a">`+
			`<id xmlns:q="urn:mod-b" xmlns:mod-b="urn:mod-a">q:x</id></top></data>`)
	if err != nil {
		t.Fatalf("XML rejected: %v", err)
	}
	if c19Dump(ms, got) != c19Dump(ms, want) {
		t.Errorf("XML q:x with q bound to urn:mod-b decoded as %q, want %q (identity x of mod-b)",
			c19Leaf(got, "top", "id"), c19Leaf(want, "top", "id"))
	}
	// control: a single declaration works
	got, err = c19Decode(encoding.XML, schema.ValidateAll, ms,
		`<data><top xmlns="urn:mod-a"><id xmlns:q="urn:mod-b">q:x</id></top></data>`)
	if err != nil || c19Dump(ms, got) != c19Dump(ms, want) {
		t.Errorf("control failed: %v", err)
	}
}

// ---------------------------------------------------------------------------
// Finding 4: a leafref whose target is an identityref leaf: the XML decoder
// leaves the document's prefix in the value ("q:lb") and ToXML writes it
// without any declaration; the JSON decoders do not normalise the
// namespace-qualified own-module form.  The encodings of one tree therefore
// decode to different trees.  (Validation is off here only because, with it
// on, any leafref fails in the already known way.)
// ---------------------------------------------------------------------------
func TestC19LeafrefToIdentityrefSameTreeInAllEncodings(t *testing.T) {
	ms := c19Schema(t, c19Mod("mod-a", c19IdModA), c19Mod("mod-b", c19IdModB))
	fromJSON, err := c19Decode(encoding.RFC7951, schema.DontValidate, ms,
		`{"mod-a:top":{"id":"mod-b:lb","lr":"mod-b:lb"}}`)
	if err != nil {
		t.Fatalf("RFC 7951: %v", err)
	}
	fromXML, err := c19Decode(encoding.XML, schema.DontValidate, ms,
		`<data><top xmlns="urn:mod-a"><id xmlns:q="urn:mod-b">q:lb</id>`+
			`<lr xmlns:q="urn:mod-b">q:lb</lr></top></data>`)
	if err != nil {
		t.Fatalf("XML: %v", err)
	}
	if c19Dump(ms, fromJSON) != c19Dump(ms, fromXML) {
		t.Errorf("same tree, different decodings:\nRFC 7951:\n%sXML:\n%s",
			c19Dump(ms, fromJSON), c19Dump(ms, fromXML))
	}
	if id, lr := c19Leaf(fromXML, "top", "id"), c19Leaf(fromXML, "top", "lr"); fmt.Sprint(id) != fmt.Sprint(lr) {
		t.Errorf("XML: leafref value %q differs from the leaf it refers to %q", lr, id)
	}
	// RFC 7951 6.8: both forms of an own-module identity are permitted
	q, err := c19Decode(encoding.RFC7951, schema.DontValidate, ms,
		`{"mod-a:top":{"id":"mod-a:la","lr":"mod-a:la"}}`)
	if err != nil {
		t.Fatalf("RFC 7951 (qualified): %v", err)
	}
	if id, lr := c19Leaf(q, "top", "id"), c19Leaf(q, "top", "lr"); fmt.Sprint(id) != fmt.Sprint(lr) {
		t.Errorf("RFC 7951: id %q, but leafref to it %q - one identity, two values", id, lr)
	}
}

// ---------------------------------------------------------------------------
// Finding 5: union { identityref; string }: the namespace-qualified form of
// an own-module identity (legal by RFC 7951 6.8) is taken by the string
// member instead of the identityref member that comes first, so the RFC
// 7951 and the XML encoding of the same value decode differently.
// ---------------------------------------------------------------------------
func TestC19UnionIdentityrefQualifiedForm(t *testing.T) {
	ms := c19Schema(t, c19Mod("mod-a", c19IdModA), c19Mod("mod-b", c19IdModB))
	fromJSON, err := c19Decode(encoding.RFC7951, schema.ValidateAll, ms,
		`{"mod-a:top":{"un":"mod-a:la"}}`)
	if err != nil {
		t.Fatalf("RFC 7951: %v", err)
	}
	fromXML, err := c19Decode(encoding.XML, schema.ValidateAll, ms,
		`<data><top xmlns="urn:mod-a"><un xmlns:a="urn:mod-a">a:la</un></top></data>`)
	if err != nil {
		t.Fatalf("XML: %v", err)
	}
	if j, x := c19Leaf(fromJSON, "top", "un"), c19Leaf(fromXML, "top", "un"); fmt.Sprint(j) != fmt.Sprint(x) {
		t.Errorf("identity la of mod-a: RFC 7951 \"mod-a:la\" decodes to %q, XML a:la to %q", j, x)
	}
	// control: on a plain identityref leaf the two agree
	j, _ := c19Decode(encoding.RFC7951, schema.ValidateAll, ms, `{"mod-a:top":{"id":"mod-a:la"}}`)
	x, _ := c19Decode(encoding.XML, schema.ValidateAll, ms,
		`<data><top><id xmlns:a="urn:mod-a">a:la</id></top></data>`)
	if j == nil || x == nil || c19Dump(ms, j) != c19Dump(ms, x) {
		t.Errorf("control: plain identityref leaf decodes differently")
	}
}

// ---------------------------------------------------------------------------
// Control: a tree with the usual corner values survives all nine
// encode/decode combinations.
// ---------------------------------------------------------------------------
func TestC19RoundTripControl(t *testing.T) {
	ms := c19Schema(t, c19Mod("mod-a", c19IdModA+`
		container c { leaf s { type string; } leaf u64 { type uint64; } leaf i64 { type int64; }
			leaf d { type decimal64 { fraction-digits 2; } } leaf e { type empty; }
			leaf-list ll { type string; ordered-by user; }
			list l { key k; ordered-by user; leaf k { type string; } leaf v { type uint8; } } }`),
		c19Mod("mod-b", c19IdModB))
	in := `{"mod-a:top":{"id":"mod-b:lb"},"mod-a:c":{"s":" <&>\"'\\\n\t\r]]> é😀","u64":"18446744073709551615",` +
		`"i64":"-9223372036854775808","d":"-92233720368547758.08","e":[null],"ll":["b","a",""],` +
		`"l":[{"k":"z","v":255},{"k":"a/ b"}]}}`
	dn, err := c19Decode(encoding.RFC7951, schema.ValidateAll, ms, in)
	if err != nil {
		t.Fatalf("decode: %v", err)
	}
	want := c19Dump(ms, dn)
	for enc, out := range map[encoding.EncType]string{
		encoding.JSON:    string(encoding.ToJSON(ms, dn)),
		encoding.RFC7951: string(encoding.ToRFC7951(ms, dn)),
		encoding.XML:     "<data>" + string(encoding.ToXML(ms, dn)) + "</data>",
	} {
		d2, err := c19Decode(enc, schema.ValidateAll, ms, out)
		if err != nil {
			t.Errorf("%s: %v\n%s", c19Enc[enc], err, out)
		} else if got := c19Dump(ms, d2); got != want {
			t.Errorf("%s: tree differs\nwant\n%sgot\n%s", c19Enc[enc], want, got)
		}
	}
}
