#!/bin/sh
# usage: run.sh <worktree>
WT="${1:?worktree path}"
HERE="$(cd "$(dirname "$0")" && pwd)"
export GOFLAGS=-mod=mod GOPROXY=off GOTOOLCHAIN=local
GO=/root/go/pkg/mod/golang.org/toolchain@v0.0.1-go1.23.11.linux-amd64/bin/go
if [ ! -f "$WT/xpath/grammars/leafref/leafref.go" ]; then
	(cd "$WT/xpath/grammars/leafref" && /tmp/tools/goyacc -o leafref.go -p leafref leafref.y && rm -f y.output)
fi
cp "$HERE/hunt_test.go" "$WT/compile/c16_hunt2_test.go"
(cd "$WT" && "$GO" test ./compile -run 'TestC16H2_' -v -count=1)
rc=$?
rm -f "$WT/compile/c16_hunt2_test.go"
exit $rc
