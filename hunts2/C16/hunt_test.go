// Hunt 2 for property C16 (type validation accepts exactly the YANG value
// space).  Belongs in <worktree>/compile (package compile_test).
package compile_test

import (
	"fmt"
	"strings"
	"testing"

	"github.com/sdcio/yang-parser/compile"
	"github.com/sdcio/yang-parser/parse"
	"github.com/sdcio/yang-parser/schema"
)

func c16h2Mod(name, body string) string {
	return fmt.Sprintf("module %s {\n\tnamespace \"urn:%s\";\n\tprefix %s;\n\t%s\n}\n",
		name, name, name, body)
}

func c16h2Parse(t *testing.T, mods ...string) map[string]*parse.Tree {
	trees := make(map[string]*parse.Tree)
	for i, text := range mods {
		tr, err := parse.Parse(fmt.Sprintf("schema%d", i), text,
			func(parse.NodeType) map[parse.NodeType]parse.Cardinality {
				return map[parse.NodeType]parse.Cardinality{}
			})
		if err != nil {
			t.Fatalf("parse: %v", err)
		}
		trees[tr.Root.Argument().String()] = tr
	}
	return trees
}

func c16h2Compile(trees map[string]*parse.Tree) (ms schema.ModelSet, err error) {
	defer func() {
		if r := recover(); r != nil {
			err = fmt.Errorf("PANIC: %v", r)
		}
	}()
	ms, _, err = compile.CompileModulesWithWarnings(nil, trees, "", false,
		compile.Include(compile.IsConfig, compile.IncludeState(false)))
	return ms, err
}

func c16h2Check(t *testing.T, ms schema.ModelSet, leaf, val string, wantOK bool) {
	t.Helper()
	n := ms.Child(leaf)
	if n == nil {
		t.Fatalf("no leaf %s", leaf)
	}
	err := n.Type().Validate(nil, []string{leaf, val}, val)
	if (err == nil) != wantOK {
		t.Errorf("leaf %s value %q: want accepted=%v, got err=%v", leaf, val, wantOK, err)
	}
}

// Finding 1: a string value that is not a sequence of Unicode characters
// (malformed UTF-8, a UTF-8 encoded surrogate, an overlong encoding) is
// accepted, and each stray byte counts as one "character" for length.
func TestC16H2_StringAcceptsMalformedUTF8(t *testing.T) {
	ms, err := c16h2Compile(c16h2Parse(t, c16h2Mod("m",
		`leaf s { type string; } leaf s2 { type string { length "2"; } }`)))
	if err != nil {
		t.Fatal(err)
	}
	// controls: what the library does refuse / accept correctly
	c16h2Check(t, ms, "s", "\x01", false)
	c16h2Check(t, ms, "s", "\uFFFE", false)
	c16h2Check(t, ms, "s", "\uFFFD", true)
	c16h2Check(t, ms, "s2", "\u00e9\u00e9", true)
	// violations
	c16h2Check(t, ms, "s", "\xff", false)         // byte that never occurs in UTF-8
	c16h2Check(t, ms, "s", "a\xc3", false)        // truncated sequence
	c16h2Check(t, ms, "s", "\xed\xa0\x80", false) // surrogate U+D800 (excluded by yang-char)
	c16h2Check(t, ms, "s", "\xc0\x80", false)     // overlong NUL
	c16h2Check(t, ms, "s2", "\xff\xfe", false)    // two stray bytes are not two characters
}

// Finding 2: checkIdentities attaches every derived identity to its base
// identity's parse node and never undoes it, so the parse trees of modules
// that define derived identities can be compiled only once: a second
// compilation reports a false "Identity cyclic reference" (no identityref type
// is produced), and compiling a subset of the modules dereferences nil.
func TestC16H2_IdentityrefSecondCompileOfSameTrees(t *testing.T) {
	ma := c16h2Mod("ma", `identity a; identity a1 { base a; } leaf l { type identityref { base a; } }`)
	mb := c16h2Mod("mb", `import ma { prefix x; } identity b1 { base x:a; }`)

	// control: modules without identities can be compiled again and again
	ctl := c16h2Parse(t, c16h2Mod("mc", `typedef t { type uint8 { range "1..5"; } } grouping g { leaf gl { type t; } } uses g;`))
	for i := 0; i < 3; i++ {
		if _, err := c16h2Compile(ctl); err != nil {
			t.Fatalf("control compile %d: %v", i, err)
		}
	}

	trees := c16h2Parse(t, ma, mb)
	ms, err := c16h2Compile(trees)
	if err != nil {
		t.Fatalf("first compile: %v", err)
	}
	c16h2Check(t, ms, "l", "a1", true)
	c16h2Check(t, ms, "l", "mb:b1", true)
	c16h2Check(t, ms, "l", "a", false)

	ms, err = c16h2Compile(trees)
	if err != nil {
		t.Errorf("second compile of the same trees: %v", strings.TrimSpace(err.Error()))
	} else {
		c16h2Check(t, ms, "l", "a1", true)
		c16h2Check(t, ms, "l", "mb:b1", true)
		c16h2Check(t, ms, "l", "a", false)
	}

	// only module ma: mb:b1 is not an identity of this schema
	trees2 := c16h2Parse(t, ma, mb)
	if _, err = c16h2Compile(trees2); err != nil {
		t.Fatalf("compile: %v", err)
	}
	ms, err = c16h2Compile(map[string]*parse.Tree{"ma": trees2["ma"]})
	if err != nil {
		t.Errorf("compile of module ma alone after a compile of {ma, mb}: %v",
			strings.TrimSpace(err.Error()))
	} else {
		c16h2Check(t, ms, "l", "a1", true)
		c16h2Check(t, ms, "l", "mb:b1", false)
	}
}

// Control: the numeric corners of C16 hold (passes).
func TestC16H2_ControlNumericBounds(t *testing.T) {
	ms, err := c16h2Compile(c16h2Parse(t, c16h2Mod("m", `
		leaf i64 { type int64 { range "min..-9223372036854775807 | -1..1 | 9223372036854775806..max"; } }
		leaf u64 { type uint64 { range "0 | 9223372036854775807..9223372036854775808 | max"; } }
		leaf d2 { type decimal64 { fraction-digits 2; } }
		leaf d18 { type decimal64 { fraction-digits 18; } }
		typedef b { type int16 { range "1..5 | 6..10 | 20..30"; } }
		leaf der { type b { range "3..8 | max"; } }`)))
	if err != nil {
		t.Fatal(err)
	}
	for _, c := range []struct {
		leaf, val string
		ok        bool
	}{
		{"i64", "-9223372036854775808", true}, {"i64", "-9223372036854775806", false}, {"i64", "2", false},
		{"i64", "9223372036854775805", false}, {"i64", "+9223372036854775807", true}, {"i64", "9223372036854775808", false},
		{"u64", "9223372036854775809", false}, {"u64", "18446744073709551615", true}, {"u64", "18446744073709551614", false}, {"u64", "18446744073709551616", false},
		{"d2", "92233720368547758.07", true}, {"d2", "92233720368547758.08", false}, {"d2", "-92233720368547758.08", true}, {"d2", "-92233720368547758.09", false},
		{"d2", "92233720368547759", false}, {"d2", "1.000", false}, {"d2", "1.", false}, {"d2", ".5", false}, {"d2", "1e2", false},
		{"d18", "9.223372036854775807", true}, {"d18", "9.223372036854775808", false}, {"d18", "-9.223372036854775808", true}, {"d18", "-9.223372036854775809", false}, {"d18", "10", false},
		{"der", "2", false}, {"der", "3", true}, {"der", "8", true}, {"der", "9", false}, {"der", "30", true}, {"der", "29", false},
	} {
		c16h2Check(t, ms, c.leaf, c.val, c.ok)
	}
}
