#!/bin/sh
# usage: run.sh <worktree>
# Copies the hunt test into <worktree>/compile, runs it, removes it again.
WT="${1:?usage: run.sh <worktree>}"
HERE="$(cd "$(dirname "$0")" && pwd)"
export GOFLAGS=-mod=mod GOPROXY=off GOTOOLCHAIN=local
GO="${GO:-/root/go/pkg/mod/golang.org/toolchain@v0.0.1-go1.23.11.linux-amd64/bin/go}"
if [ ! -f "$WT/xpath/grammars/leafref/leafref.go" ]; then
	(cd "$WT/xpath/grammars/leafref" && /tmp/tools/goyacc -o leafref.go -p leafref leafref.y && rm -f y.output)
fi
DST="$WT/compile/hunt_c15_test.go"
cp "$HERE/hunt_test.go" "$DST"
trap 'rm -f "$DST"' EXIT INT TERM
cd "$WT" && "$GO" test ./compile -count=1 -run 'TestC15_' -v
