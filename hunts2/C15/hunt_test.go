// Hunt for violations of property C15 (embedded XPath is checked at compile
// time in the right prefix scope).  Belongs in <worktree>/compile .
//
// Each TestC15_Finding_* function fails on the unchanged library because of
// the violation it documents; the TestC15_Control_* functions pass.
package compile_test

import (
	"fmt"
	"testing"

	"github.com/sdcio/yang-parser/compile"
	"github.com/sdcio/yang-parser/parse"
	"github.com/sdcio/yang-parser/testutils"
)

func c15Module(body string) string {
	return fmt.Sprintf(
		`module a { namespace "urn:a"; prefix a; leaf y { type string; } %s }`,
		body)
}

// compile with warnings (path evaluation machines) enabled
func c15Compile(src string) error {
	_, err := testutils.GetFullSchema([]byte(src))
	return err
}

// compile through the plain entry point (no warnings requested)
func c15CompilePlain(src string) error {
	tree, err := parse.Parse("a.yang", src, nil)
	if err != nil {
		return err
	}
	trees := map[string]*parse.Tree{tree.Root.Argument().String(): tree}
	_, err = compile.CompileModules(nil, trees, "", false,
		compile.Include(compile.IsConfig, compile.IsState))
	return err
}

type c15Case struct {
	stmt string // must or when
	expr string
}

func (c c15Case) module() string {
	return c15Module(fmt.Sprintf(
		`leaf x { type string; %s "%s"; }`, c.stmt, c.expr))
}

// XPath 1.0 [15] PrimaryExpr ::= VariableReference | '(' Expr ')' | Literal |
// Number | FunctionCall.  There is no empty parenthesised expression: '()' is
// not an XPath 1.0 expression (it is the XPath 2.0 empty sequence).
func TestC15_Finding_EmptyParenthesesAccepted(t *testing.T) {
	for _, c := range []c15Case{
		{"must", "()"},
		{"must", "y = ()"},
		{"must", "count(())"},
		{"must", "y[()]"},
		{"must", "( )/y"},
	} {
		if err := c15Compile(c.module()); err == nil {
			t.Errorf("%s \"%s\": module compiled, expected a syntax error",
				c.stmt, c.expr)
		}
	}
	// The same holes exist for when; there they are only caught - by
	// accident, in the second (path evaluation) grammar - if the caller
	// asked for warnings.
	for _, c := range []c15Case{
		{"when", "()"},
		{"when", "y = ()"},
		{"must", "()"},
	} {
		if err := c15CompilePlain(c.module()); err == nil {
			t.Errorf("CompileModules: %s \"%s\": module compiled, "+
				"expected a syntax error", c.stmt, c.expr)
		}
	}
}

// XPath 1.0 [30] Number ::= Digits ('.' Digits?)? | '.' Digits.  There is no
// exponent.  '1e3' lexes (longest token first) as Number '1' followed by the
// NameTest 'e3', which no production of Expr allows.
func TestC15_Finding_NumberWithExponentAccepted(t *testing.T) {
	for _, c := range []c15Case{
		{"must", "1e3 > 0"},
		{"must", "y > 1E2"},
		{"must", ".5e1 = 5"},
		{"must", "1.e1"},
		{"must", "y[1e0]"},
		{"when", "y > 1e3"},
	} {
		if err := c15Compile(c.module()); err == nil {
			t.Errorf("%s \"%s\": module compiled, expected a syntax error",
				c.stmt, c.expr)
		}
		if err := c15CompilePlain(c.module()); err == nil {
			t.Errorf("CompileModules: %s \"%s\": module compiled, "+
				"expected a syntax error", c.stmt, c.expr)
		}
	}
}

func TestC15_Control_ValidExpressionsCompile(t *testing.T) {
	for _, c := range []c15Case{
		{"must", "(y)"},
		{"must", "y = (1)"},
		{"must", "count((y))"},
		{"must", "1000 > 0"},
		{"must", "y > 100."},
		{"must", ".5 = 5"},
		{"must", "e3 = 'e3'"},
		{"must", "y = '1e3'"},
		{"when", "(y)"},
		{"when", "y > 1000"},
	} {
		if err := c15Compile(c.module()); err != nil {
			t.Errorf("%s \"%s\": unexpected error: %s", c.stmt, c.expr, err)
		}
		if err := c15CompilePlain(c.module()); err != nil {
			t.Errorf("CompileModules: %s \"%s\": unexpected error: %s",
				c.stmt, c.expr, err)
		}
	}
}

func TestC15_Control_InvalidExpressionsRejected(t *testing.T) {
	for _, c := range []c15Case{
		{"must", "( y"},
		{"must", "y )"},
		{"must", "1 e3"},
		{"must", "1e"},
		{"must", "1e+3"},
		{"must", "q:y"},
		{"when", "( y"},
		{"when", "q:y"},
	} {
		if err := c15Compile(c.module()); err == nil {
			t.Errorf("%s \"%s\": module compiled, expected an error",
				c.stmt, c.expr)
		}
		if err := c15CompilePlain(c.module()); err == nil {
			t.Errorf("CompileModules: %s \"%s\": module compiled, "+
				"expected an error", c.stmt, c.expr)
		}
	}
}
