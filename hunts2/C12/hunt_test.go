package compile

// Hunt (round 2) for violations of property C12: "uses, refine and augment
// expand to the equivalent inline definition".  Belongs in directory compile/.
// Every TestC12H2_* function fails on the unchanged library because of the
// violation it describes; the TestC12H2Control_* functions pass.

import (
	"fmt"
	"strconv"
	"strings"
	"testing"

	"github.com/sdcio/yang-parser/parse"
	"github.com/sdcio/yang-parser/schema"
)

func c12h2Compile(texts ...string) (ms schema.ModelSet, err error) {
	defer func() {
		if r := recover(); r != nil {
			err = fmt.Errorf("PANIC: %v", r)
		}
	}()
	modules := make(map[string]*parse.Tree)
	for i, b := range texts {
		t, perr := parse.Parse("schema"+strconv.Itoa(i), b,
			func(parse.NodeType) map[parse.NodeType]parse.Cardinality {
				return map[parse.NodeType]parse.Cardinality{}
			})
		if perr != nil {
			return nil, fmt.Errorf("parse: %v", perr)
		}
		modules[t.Root.Argument().String()] = t
	}
	st, _, cerr := CompileModulesWithWarnings(nil, modules, "", false,
		Include(IsConfig, IncludeState(true)))
	return st, cerr
}

func c12h2Mod(name, body string) string {
	return fmt.Sprintf("module %s {\n\tnamespace \"urn:%s\";\n\tprefix %s;\n\t%s\n}",
		name, name, name, body)
}

// c12h2Case returns the case node <caseName> of choice <choiceName> that is a
// child of the data node at <path>.
func c12h2Case(t *testing.T, ms schema.ModelSet, path []string, choiceName, caseName string) schema.Node {
	t.Helper()
	var n schema.Node = ms
	for _, p := range path {
		n = n.Child(p)
		if n == nil {
			t.Fatalf("no node %s in path %v", p, path)
		}
	}
	for _, ch := range n.Choices() {
		if ch.Name() != choiceName {
			continue
		}
		// the cases of a choice are kept in Choices() of the choice node
		for _, cs := range ch.Choices() {
			if _, ok := cs.(schema.Case); ok && cs.Name() == caseName {
				return cs
			}
		}
	}
	t.Fatalf("no case %s in choice %s under %v", caseName, choiceName, path)
	return nil
}

func c12h2Node(t *testing.T, ms schema.ModelSet, path ...string) schema.Node {
	t.Helper()
	var n schema.Node = ms
	for _, p := range path {
		n = n.Child(p)
		if n == nil {
			t.Fatalf("no node %s in path %v", p, path)
		}
	}
	return n
}

// ---------------------------------------------------------------------------
// Finding 1a: the implicit case that wraps a short-hand case (leaf, container,
// ...) which an augment adds to a choice gets the namespace / module of the
// module in which the CHOICE was written, not of the augmenting module (top
// level augment) resp. the using module (augment inside a uses).
// ---------------------------------------------------------------------------
func TestC12H2_ImplicitCaseOfAugmentedShorthandHasWrongModule(t *testing.T) {
	a := c12h2Mod("a", `container top { choice ch { leaf x { type string; } } }`)
	short := c12h2Mod("b", `import a { prefix a; } augment /a:top/a:ch { leaf sh { type string; } }`)
	explicit := c12h2Mod("b", `import a { prefix a; } augment /a:top/a:ch { case sh { leaf sh { type string; } } }`)

	msE, err := c12h2Compile(a, explicit)
	if err != nil {
		t.Fatalf("explicit form: %v", err)
	}
	csE := c12h2Case(t, msE, []string{"top"}, "ch", "sh")
	if csE.Namespace() != "urn:b" || csE.Module() != "b" {
		t.Fatalf("control: explicit case is %s/%s", csE.Namespace(), csE.Module())
	}

	msS, err := c12h2Compile(a, short)
	if err != nil {
		t.Fatalf("short-hand form: %v", err)
	}
	csS := c12h2Case(t, msS, []string{"top"}, "ch", "sh")
	if csS.Namespace() != "urn:b" || csS.Module() != "b" {
		t.Errorf("top-level augment: implicit case 'sh' added by module b is ns=%s module=%s, want urn:b / b",
			csS.Namespace(), csS.Module())
	}

	// augment inside a uses of a grouping from another module: the nodes belong
	// to the using module a, the implicit case ends up in module g
	g := c12h2Mod("g", `grouping g { choice ch { leaf x { type string; } } }`)
	a2 := c12h2Mod("a", `import g { prefix g; } container top { uses g:g { augment ch { leaf sh { type string; } } } }`)
	ms2, err := c12h2Compile(g, a2)
	if err != nil {
		t.Fatalf("uses form: %v", err)
	}
	cs2 := c12h2Case(t, ms2, []string{"top"}, "ch", "sh")
	if cs2.Namespace() != "urn:a" || cs2.Module() != "a" {
		t.Errorf("augment in uses: implicit case 'sh' is ns=%s module=%s, want urn:a / a",
			cs2.Namespace(), cs2.Module())
	}
}

// Finding 1b: consequence - the schema node identifier of such a short-hand
// case (/a:top/a:ch/b:sh/b:sh, RFC 6020 7.9.2) cannot be used as an augment
// target, although the same path works when the case is written explicitly.
func TestC12H2_AugmentPathThroughAugmentedShorthandCase(t *testing.T) {
	a := c12h2Mod("a", `container top { choice ch { leaf x { type string; } } }`)
	c := c12h2Mod("c", `import a { prefix a; } import b { prefix b; } augment /a:top/a:ch/b:sh/b:sh { leaf more { type string; } }`)
	explicit := c12h2Mod("b", `import a { prefix a; } augment /a:top/a:ch { case sh { container sh { } } }`)
	short := c12h2Mod("b", `import a { prefix a; } augment /a:top/a:ch { container sh { } }`)

	if _, err := c12h2Compile(a, explicit, c); err != nil {
		t.Fatalf("control (explicit case): %v", err)
	}
	ms, err := c12h2Compile(a, short, c)
	if err != nil {
		t.Fatalf("short-hand case added by augment, then augmented through its case: %v", err)
	}
	if c12h2Node(t, ms, "top", "sh").Child("more") == nil {
		t.Errorf("leaf more missing")
	}
}

// ---------------------------------------------------------------------------
// Finding 2: an rpc or notification defined in a SUBMODULE cannot be augmented
// ('Invalid path'): the rpcs / notifications of submodules are never merged
// into the module (ProcessModuleIncludes only takes data nodes and augments).
// ---------------------------------------------------------------------------
func TestC12H2_AugmentRpcDefinedInSubmodule(t *testing.T) {
	// control: rpc in the module itself
	if _, err := c12h2Compile(
		`module a { namespace "urn:a"; prefix a; rpc r { input { leaf x { type string; } } } }`,
		c12h2Mod("b", `import a { prefix a; } augment /a:r/a:input { leaf y { type string; } }`)); err != nil {
		t.Fatalf("control: %v", err)
	}
	ms, err := c12h2Compile(
		`module a { namespace "urn:a"; prefix a; include s; }`,
		`submodule s { belongs-to a { prefix a; } rpc r { input { leaf x { type string; } } } }`,
		c12h2Mod("b", `import a { prefix a; } augment /a:r/a:input { leaf y { type string; } }`))
	if err != nil {
		t.Fatalf("augment of rpc input defined in submodule: %v", err)
	}
	r, ok := ms.Rpcs()["urn:a"]["r"]
	if !ok {
		t.Fatalf("rpc r of submodule s is not part of the compiled model set")
	}
	if r.Input().Child("x") == nil || r.Input().Child("y") == nil {
		t.Errorf("rpc r input lacks x or the augmented y")
	}
}

func TestC12H2_AugmentNotificationDefinedInSubmodule(t *testing.T) {
	_, err := c12h2Compile(
		`module a { namespace "urn:a"; prefix a; include s; }`,
		`submodule s { belongs-to a { prefix a; } notification n { container c { } } }`,
		c12h2Mod("b", `import a { prefix a; } augment /a:n/a:c { leaf y { type string; } }`))
	if err != nil {
		t.Errorf("augment of notification defined in submodule: %v", err)
	}
}

// ---------------------------------------------------------------------------
// Finding 3: "If the target node is in another module, then nodes added by the
// augmentation MUST NOT be mandatory nodes" (RFC 6020 7.15).  The library
// decides "another module" by the prefix of the FIRST element of the path, not
// by the module of the target node: module b may not add a mandatory leaf to
// its own container /a:top/b:bc.
// ---------------------------------------------------------------------------
func TestC12H2_MandatoryNodeIntoOwnAugmentedContainer(t *testing.T) {
	a := c12h2Mod("a", `container top { }`)
	inl := c12h2Mod("b", `import a { prefix a; } augment /a:top { container bc { presence "x"; leaf m { type string; mandatory true; } } }`)
	aug := c12h2Mod("b", `import a { prefix a; } augment /a:top { container bc { presence "x"; } } augment /a:top/b:bc { leaf m { type string; mandatory true; } }`)
	if _, err := c12h2Compile(a, inl); err != nil {
		t.Fatalf("control (inline): %v", err)
	}
	ms, err := c12h2Compile(a, aug)
	if err != nil {
		t.Fatalf("augment of a node of the augmenting module itself: %v", err)
	}
	if m := c12h2Node(t, ms, "top", "bc", "m"); !m.Mandatory() {
		t.Errorf("m not mandatory")
	}
}

// ---------------------------------------------------------------------------
// Finding 4: the inherited status is dropped (reset to current) when the uses
// statements nested in a cloned grouping body / in the target of an augment
// inside a uses are expanded.  The verdict on a module then depends on the
// ORDER of its statements (grouping written before or after its use), resp. on
// the depth of the augment target.
// ---------------------------------------------------------------------------
func TestC12H2_StatusCheckDependsOnStatementOrder(t *testing.T) {
	top := `container top { status deprecated; uses outer; }`
	outer := `grouping outer { status deprecated; container c { uses depg; } }`
	depg := `grouping depg { status deprecated; leaf x { type string; } }`

	_, errDefFirst := c12h2Compile(c12h2Mod("a", outer+" "+depg+" "+top))
	_, errUseFirst := c12h2Compile(c12h2Mod("a", top+" "+outer+" "+depg))
	if (errDefFirst == nil) != (errUseFirst == nil) {
		t.Errorf("same statements, different order: groupings first -> %v ; container first -> %v",
			errDefFirst, errUseFirst)
	}
}

func TestC12H2_StatusCheckDependsOnAugmentTargetDepth(t *testing.T) {
	pre := `grouping depg { status deprecated; leaf x { type string; } } grouping g { container c { container d { } } } `
	_, errC := c12h2Compile(c12h2Mod("a", pre+`container top { uses g { status deprecated; augment c { uses depg; } } }`))
	_, errD := c12h2Compile(c12h2Mod("a", pre+`container top { uses g { status deprecated; augment c/d { uses depg; } } }`))
	if (errC == nil) != (errD == nil) {
		t.Errorf("uses of a deprecated grouping inside an augment of a deprecated uses: target c -> %v ; target c/d -> %v",
			errC, errD)
	}
}

// ---------------------------------------------------------------------------
// Finding 5: a status written on a uses / augment does not reach a node that
// has a (less severe) status of its own: the node of an obsolete uses stays
// deprecated, the node of a deprecated uses stays current.  Written inline (a
// parent with the status of the uses) the library itself refuses this
// ("Cannot override status of parent").
// ---------------------------------------------------------------------------
func TestC12H2_StatusOfUsesDoesNotReachNodeWithOwnStatus(t *testing.T) {
	check := func(what, text string, path []string, want schema.Status) {
		ms, err := c12h2Compile(text)
		if err != nil {
			// refusing the combination is a consistent answer too
			return
		}
		if got := c12h2Node(t, ms, path...).Status(); got < want {
			t.Errorf("%s: status of %s is %v, the %s says %v", what,
				strings.Join(path, "/"), got, what, want)
		}
	}
	check("uses", c12h2Mod("a", `grouping g { status deprecated; leaf x { type string; status deprecated; } }
		container top { status deprecated; uses g { status obsolete; } }`),
		[]string{"top", "x"}, schema.Obsolete)
	check("uses", c12h2Mod("a", `grouping g { leaf x { type string; status current; } }
		container top { uses g { status deprecated; } }`),
		[]string{"top", "x"}, schema.Deprecated)
	check("augment", c12h2Mod("a", `container top { } augment /top { status obsolete; leaf x { type string; status deprecated; } }`),
		[]string{"top", "x"}, schema.Obsolete)
}

// control: without a status of its own the node gets the status of the uses
func TestC12H2Control_StatusOfUses(t *testing.T) {
	ms, err := c12h2Compile(c12h2Mod("a", `grouping g { leaf x { type string; } }
		container top { uses g { status deprecated; } }`))
	if err != nil {
		t.Fatal(err)
	}
	if got := c12h2Node(t, ms, "top", "x").Status(); got != schema.Deprecated {
		t.Errorf("got %v", got)
	}
}

// ---------------------------------------------------------------------------
// Finding 6: the cardinality of the substatements of refine is never checked
// (the parser skips refine, the compiler does not make up for it): two
// default / mandatory / config / presence / description / min-elements
// statements in one refine are accepted and the last one silently wins.
// ---------------------------------------------------------------------------
func TestC12H2_RefineWithDuplicateSubstatements(t *testing.T) {
	g := `grouping g { leaf x { type uint8; } container c { } leaf-list ll { type string; } } `
	for _, r := range []string{
		`refine x { default 1; default 2; }`,
		`refine x { mandatory true; mandatory false; }`,
		`refine x { config true; config false; }`,
		`refine c { presence "a"; presence "b"; }`,
		`refine c { description "a"; description "b"; }`,
		`refine ll { min-elements 1; min-elements 2; }`,
	} {
		if _, err := c12h2Compile(c12h2Mod("a", g+`container top { uses g { `+r+` } }`)); err == nil {
			t.Errorf("accepted: %s", r)
		}
	}
	// control: the same on the node itself is refused
	if _, err := c12h2Compile(c12h2Mod("a", `container top { leaf x { type uint8; default 1; default 2; } }`)); err == nil {
		t.Fatalf("control: two defaults on a leaf accepted")
	}
}
