#!/bin/sh
# usage: run.sh <worktree>
WT="$1"
[ -d "$WT/compile" ] || { echo "usage: $0 <worktree>"; exit 2; }
export GOFLAGS=-mod=mod GOPROXY=off GOTOOLCHAIN=local
GO=/root/go/pkg/mod/golang.org/toolchain@v0.0.1-go1.23.11.linux-amd64/bin/go
HERE="$(cd "$(dirname "$0")" && pwd)"
if [ ! -f "$WT/xpath/grammars/leafref/leafref.go" ]; then
	(cd "$WT/xpath/grammars/leafref" && /tmp/tools/goyacc -o leafref.go -p leafref leafref.y && rm -f y.output)
fi
cp "$HERE/hunt_test.go" "$WT/compile/c12_hunt2_test.go"
(cd "$WT" && "$GO" test ./compile -run 'TestC12H2' -count=1 -v)
rc=$?
rm -f "$WT/compile/c12_hunt2_test.go"
exit $rc
