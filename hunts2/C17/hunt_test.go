// Hunt C17: schema path validation walks the tree exactly.
// Belongs in <worktree>/compile (package compile_test).
package compile_test

import (
	"fmt"
	"strings"
	"testing"

	"github.com/sdcio/yang-parser/schema"
	"github.com/sdcio/yang-parser/testutils"
)

type c17ctx struct{ incomplete bool }

func (c c17ctx) ErrorHelpText() []string    { return nil }
func (c c17ctx) AllowIncompletePaths() bool { return c.incomplete }

func c17schema(t *testing.T, body string) schema.ModelSet {
	t.Helper()
	mod := "module m {\n\tnamespace \"urn:m\";\n\tprefix m;\n" + body + "\n}\n"
	ms, err := testutils.GetFullSchema([]byte(mod))
	if err != nil {
		t.Fatalf("the (legal) module does not compile: %v", err)
	}
	return ms
}

// c17validate runs ModelSet.Validate and turns a panic into an error string
// so that the test fails with a readable message instead of crashing.
func c17validate(ms schema.ModelSet, path ...string) (err error, panicked string) {
	defer func() {
		if r := recover(); r != nil {
			panicked = fmt.Sprint(r)
		}
	}()
	return ms.Validate(c17ctx{false}, nil, path), ""
}

func c17accept(t *testing.T, ms schema.ModelSet, path ...string) {
	t.Helper()
	err, p := c17validate(ms, path...)
	if p != "" {
		t.Errorf("%q: Validate panicked: %s", path, p)
	} else if err != nil {
		t.Errorf("%q: rejected, want accepted: %v", path, err)
	}
}

func c17reject(t *testing.T, ms schema.ModelSet, wantInErr string, path ...string) {
	t.Helper()
	err, p := c17validate(ms, path...)
	if p != "" {
		t.Errorf("%q: Validate panicked: %s", path, p)
	} else if err == nil {
		t.Errorf("%q: accepted, want rejected", path)
	} else if !strings.Contains(err.Error(), wantInErr) {
		t.Errorf("%q: error %q does not identify %q", path, err.Error(), wantInErr)
	}
}

// FINDING 1.  RFC 6020 / 7950 ABNF: key-arg = node-identifier *(sep
// node-identifier), node-identifier = [prefix ":"] identifier.  A key written
// with the module's own prefix is legal, the module compiles, but the list
// stores the key name "m:k", finds no such child and every path that reaches
// the list's key position dereferences a nil Node.
func TestC17_PrefixedListKey(t *testing.T) {
	ms := c17schema(t, `
	container c {
		list l { key "m:k"; leaf k { type uint8; } leaf v { type string; } }
	}`)
	c17accept(t, ms, "c", "l", "1")
	c17accept(t, ms, "c", "l", "1", "v", "x")
	c17reject(t, ms, "/c/l/x", "c", "l", "x")
	c17reject(t, ms, "/c/l/1/nope", "c", "l", "1", "nope")
}

// Control for finding 1: the same list with an unprefixed key behaves.
func TestC17_Control_UnprefixedListKey(t *testing.T) {
	ms := c17schema(t, `
	container c {
		list l { key "k"; leaf k { type uint8; } leaf v { type string; } }
	}`)
	c17accept(t, ms, "c", "l", "1")
	c17accept(t, ms, "c", "l", "1", "v", "x")
	c17reject(t, ms, "/c/l/x", "c", "l", "x")
	c17reject(t, ms, "/c/l/1/nope", "c", "l", "1", "nope")
}

// FINDING 2.  The explicit range restriction of a decimal64 type is checked
// on a float64 (Drb.Validate), although a decimal64 carries up to 19
// significant digits: values just outside an explicit range bound that
// round to the same float64 as the bound are accepted.  (The exact int64
// check in validateDecimal64String only covers the min / max of the type.)
func TestC17_Decimal64ExplicitRangeComparedInFloat64(t *testing.T) {
	ms := c17schema(t, `
	container c {
		leaf d18 { type decimal64 { fraction-digits 18; range "0..0.100000000000000001"; } }
		leaf d2 { type decimal64 { fraction-digits 2; range "1..90000000000000000.05"; } }
		leaf d2lo { type decimal64 { fraction-digits 2; range "-90000000000000000.05..0"; } }
	}`)
	// on the bounds: fine
	c17accept(t, ms, "c", "d18", "0.100000000000000001")
	c17accept(t, ms, "c", "d2", "90000000000000000.05")
	// one unit in the last place (and more) outside the range
	c17reject(t, ms, "/c/d18/0.100000000000000002", "c", "d18", "0.100000000000000002")
	c17reject(t, ms, "/c/d18/0.100000000000000005", "c", "d18", "0.100000000000000005")
	c17reject(t, ms, "/c/d2/90000000000000000.06", "c", "d2", "90000000000000000.06")
	c17reject(t, ms, "/c/d2/90000000000000007", "c", "d2", "90000000000000007")
	c17reject(t, ms, "/c/d2lo/-90000000000000000.06", "c", "d2lo", "-90000000000000000.06")
}

// Control for finding 2: values far enough outside are rejected, and the
// bounds of the type itself are exact.
func TestC17_Control_Decimal64Range(t *testing.T) {
	ms := c17schema(t, `
	container c {
		leaf d18 { type decimal64 { fraction-digits 18; range "0..0.100000000000000001"; } }
		leaf d2 { type decimal64 { fraction-digits 2; } }
	}`)
	c17reject(t, ms, "/c/d18/0.2", "c", "d18", "0.2")
	c17accept(t, ms, "c", "d2", "92233720368547758.07")
	c17reject(t, ms, "/c/d2/92233720368547758.08", "c", "d2", "92233720368547758.08")
}

// Control: a sample of the walk rules that hold (choice / case transparent,
// incomplete paths, first offending element).
func TestC17_Control_Walk(t *testing.T) {
	ms := c17schema(t, `
	container c {
		container np { leaf x { type string; } }
		container p { presence "p"; }
		leaf-list ll { type uint8; }
		list l { key k; leaf k { type uint8; }
			choice ch { case c1 { leaf a1 { type string; } }
				case c2 { choice in { leaf i1 { type boolean; } } } } }
	}`)
	c17accept(t, ms, "c", "p")
	c17accept(t, ms, "c", "l", "1", "a1", "x")
	c17accept(t, ms, "c", "l", "1", "i1", "true")
	c17reject(t, ms, "/c/l/1/ch", "c", "l", "1", "ch")
	c17reject(t, ms, "/c/l/1/c2", "c", "l", "1", "c2")
	c17reject(t, ms, "/c/np", "c", "np")
	c17reject(t, ms, "/c/l", "c", "l")
	c17reject(t, ms, "/c/ll", "c", "ll")
	c17reject(t, ms, "/c/ll/x", "c", "ll", "x", "2")
	c17reject(t, ms, "/c/ll/1/2", "c", "ll", "1", "2")
	if err := ms.Validate(c17ctx{true}, nil, []string{"c", "np"}); err != nil {
		t.Errorf("incomplete path [c np] rejected although allowed: %v", err)
	}
}
