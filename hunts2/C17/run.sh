#!/bin/sh
# usage: run.sh <worktree>
# Copies hunt_test.go into <worktree>/compile, runs the C17 tests, removes it again.
WT="${1:?usage: run.sh <worktree>}"
HERE="$(cd "$(dirname "$0")" && pwd)"
export GOFLAGS=-mod=mod GOPROXY=off GOTOOLCHAIN=local
GO=/root/go/pkg/mod/golang.org/toolchain@v0.0.1-go1.23.11.linux-amd64/bin/go
if [ ! -f "$WT/xpath/grammars/leafref/leafref.go" ]; then
	(cd "$WT/xpath/grammars/leafref" && /tmp/tools/goyacc -o leafref.go -p leafref leafref.y && rm -f y.output)
fi
DEST="$WT/compile/hunt_c17_test.go"
cp "$HERE/hunt_test.go" "$DEST"
(cd "$WT" && "$GO" test ./compile -run 'TestC17_' -count=1 -v)
RC=$?
rm -f "$DEST"
exit $RC
