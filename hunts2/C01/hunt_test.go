// Hunt for property C01 (XPath scalar evaluation follows XPath 1.0).
// Belongs in: xpath/grammars/expr  (package expr)
//
// Findings (fail on the unchanged library):
//   TestC01_LiteralWithPrivateUseCharF001
// Controls (pass):
//   TestC01_Control_NeighbourPrivateUseChars, TestC01_Control_InvalidUTF8StillRejected
// Doubtful (skipped unless HUNT_DOUBTFUL=1):
//   TestC01_Doubtful_TypedLeafDatums, TestC01_Doubtful_CustomFnShadowsCore,
//   TestC01_Doubtful_StringOfHugeInteger
package expr

import (
	gocontext "context"
	"fmt"
	"os"
	"strings"
	"testing"

	sdcpb "github.com/sdcio/sdc-protos/sdcpb"
	"github.com/sdcio/yang-parser/xpath"
)

func c01Run(expr string) (*xpath.Result, error) {
	m, err := NewExprMachine(expr, nil)
	if err != nil {
		return nil, fmt.Errorf("compile: %s", strings.ReplaceAll(err.Error(), "\n", " | "))
	}
	res := xpath.NewCtxFromMach(m, nil).Run()
	if res.GetError() != nil {
		return nil, fmt.Errorf("run: %s", res.GetError())
	}
	return res, nil
}

// U+F001 is an ordinary character (Private Use Area, legal in XML 1.0 Char,
// in a YANG string (RFC 7950 yang-char %xE000-FFFD) and therefore in an XPath
// Literal).  Its code point happens to be the value of the lexer's in-band
// error sentinel xutils.ERR (0xF000 + iota = 0xF001) that CommonLex.Next()
// returns for invalid UTF-8, so any expression whose string literal contains
// it is refused with "Invalid UTF-8 input".
func TestC01_LiteralWithPrivateUseCharF001(t *testing.T) {
	const c = "\uf001"

	if res, err := c01Run("string-length('" + c + "')"); err != nil {
		t.Errorf("string-length('\\uf001'): want 1, got error: %v", err)
	} else if n, _ := res.GetNumResult(); n != 1 {
		t.Errorf("string-length('\\uf001'): want 1, got %v", n)
	}

	if res, err := c01Run("'a" + c + "b' = \"a" + c + "b\""); err != nil {
		t.Errorf("'a\\uf001b' = \"a\\uf001b\": want true, got error: %v", err)
	} else if b, _ := res.GetBoolResult(); !b {
		t.Errorf("'a\\uf001b' = \"a\\uf001b\": want true, got false")
	}

	if res, err := c01Run("concat('x', '" + c + "')"); err != nil {
		t.Errorf("concat('x', '\\uf001'): want \"x\\uf001\", got error: %v", err)
	} else if s, _ := res.GetLiteralResult(); s != "x"+c {
		t.Errorf("concat('x', '\\uf001'): want %q, got %q", "x"+c, s)
	}
}

// The code points around the sentinel are handled correctly.
func TestC01_Control_NeighbourPrivateUseChars(t *testing.T) {
	for _, c := range []string{"\ue000", "\uf000", "\uf002", "\uf003", "\uf8ff", "\ufffd", "\U0010fffd", "é", "日"} {
		res, err := c01Run("string-length('a" + c + "b')")
		if err != nil {
			t.Errorf("%q: %v", c, err)
			continue
		}
		if n, _ := res.GetNumResult(); n != 3 {
			t.Errorf("%q: want 3 got %v", c, n)
		}
	}
}

// Real invalid UTF-8 must of course still be refused.
func TestC01_Control_InvalidUTF8StillRejected(t *testing.T) {
	if _, err := NewExprMachine("'a\xffb'", nil); err == nil {
		t.Errorf("invalid UTF-8 in a literal was accepted")
	}
}

// ---------------------------------------------------------------------------
// Doubtful items
// ---------------------------------------------------------------------------

func c01Doubtful(t *testing.T) {
	if os.Getenv("HUNT_DOUBTFUL") == "" {
		t.Skip("doubtful item; set HUNT_DOUBTFUL=1 to run")
	}
}

type c01Entry struct {
	tree map[string]xpath.Datum
	path string
}

func (e *c01Entry) GetValue() (xpath.Datum, error) {
	if d, ok := e.tree[e.path]; ok {
		return d, nil
	}
	return xpath.NewNodesetDatum(nil), nil
}
func (e *c01Entry) Navigate(p *sdcpb.Path) (xpath.Entry, error) {
	var parts []string
	if !p.IsRootBased && e.path != "" {
		parts = strings.Split(e.path, "/")
	}
	for _, pe := range p.GetElem() {
		if pe.GetName() == ".." {
			if len(parts) > 0 {
				parts = parts[:len(parts)-1]
			}
			continue
		}
		parts = append(parts, pe.GetName())
	}
	return &c01Entry{tree: e.tree, path: strings.Join(parts, "/")}, nil
}
func (e *c01Entry) Copy() xpath.Entry                   { return &c01Entry{tree: e.tree, path: e.path} }
func (e *c01Entry) FollowLeafRef() (xpath.Entry, error) { return nil, fmt.Errorf("no leafref") }
func (e *c01Entry) GetSdcpbPath() *sdcpb.Path           { return &sdcpb.Path{} }
func (e *c01Entry) BreadthSearch(gocontext.Context, *sdcpb.Path) ([]xpath.Entry, error) {
	return nil, nil
}

// An Entry may hand a leaf to the machine as any Datum.  When a boolean leaf
// is handed over as NewBoolDatum (as the sdcio data-server does) the leaf is
// no longer treated as a node: comparisons with a string convert the string
// with boolean() instead of comparing with the node's string-value, and
// boolean(leaf)/not(leaf) test the value instead of the existence.
func TestC01_Doubtful_TypedLeafDatums(t *testing.T) {
	c01Doubtful(t)
	tree := map[string]xpath.Datum{
		"c/enabled": xpath.NewBoolDatum(false),
		"c/mtu":     xpath.NewNumDatum(1500),
		"c/nl": xpath.NewDatumSliceDatum([]xpath.Datum{
			xpath.NewNumDatum(2), xpath.NewNumDatum(3)}),
	}
	for _, c := range []struct {
		expr string
		want bool
	}{
		{"../enabled = 'false'", true},  // string-value of the node is 'false'
		{"../enabled != 'false'", false},
		{"boolean(../enabled)", true},   // the node exists
		{"not(../enabled)", false},
		{"../mtu = '01500'", false},     // node-set = string compares strings
		{"true() = ../nl", true},        // boolean(non-empty node-set) = true
	} {
		m, err := NewExprMachine(c.expr, nil)
		if err != nil {
			t.Errorf("%s: %v", c.expr, err)
			continue
		}
		res := xpath.NewCtxFromCurrent(gocontext.Background(), m,
			&c01Entry{tree: tree, path: "c/x"}).Run()
		got, err := res.GetBoolResult()
		if err != nil {
			t.Errorf("%s: %v", c.expr, err)
		} else if got != c.want {
			t.Errorf("%s: want %v got %v", c.expr, c.want, got)
		}
	}
}

// RegisterCustomFunctions accepts the name of a core function; the core
// function is then replaced in the global table: NewExprMachine no longer
// knows it at all and NewExprMachineWithCustomFunctions runs the replacement.
// (Run last: it changes process-global state; the original symbol cannot be
// restored through the public API.)
func TestC01_Doubtful_CustomFnShadowsCore(t *testing.T) {
	c01Doubtful(t)
	xpath.RegisterCustomFunctions([]xpath.CustomFunctionInfo{{
		Name:          "ceiling",
		FnPtr:         func([]xpath.Datum) xpath.Datum { return xpath.NewNumDatum(42) },
		Args:          []xpath.DatumTypeChecker{xpath.TypeIsNumber},
		RetType:       xpath.TypeIsNumber,
		DefaultRetVal: xpath.NewNumDatum(0),
	}})
	res, err := c01Run("ceiling(1.5)")
	if err != nil {
		t.Fatalf("ceiling(1.5) after registering a custom 'ceiling': %v", err)
	}
	if n, _ := res.GetNumResult(); n != 2 {
		t.Errorf("ceiling(1.5): want 2 got %v", n)
	}
}

// XPath 1.0 4.2: an integer "is represented in decimal form as a Number with
// no decimal point and no leading zeros"; the shortest-round-trip rule is
// only stated for non-integers.  The double nearest to 10^23 is
// 99999999999999991611392; the library prints 100000000000000000000000.
func TestC01_Doubtful_StringOfHugeInteger(t *testing.T) {
	c01Doubtful(t)
	res, err := c01Run("string(100000000000000000000000)")
	if err != nil {
		t.Fatal(err)
	}
	if s, _ := res.GetLiteralResult(); s != "99999999999999991611392" {
		t.Errorf("want 99999999999999991611392 got %s", s)
	}
}
