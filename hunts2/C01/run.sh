#!/bin/sh
# usage: run.sh <worktree>   (HUNT_DOUBTFUL=1 also runs the doubtful items)
set -u
WT="${1:?worktree path}"
HERE="$(cd "$(dirname "$0")" && pwd)"
export GOFLAGS=-mod=mod GOPROXY=off GOTOOLCHAIN=local
GO="${GO:-/root/go/pkg/mod/golang.org/toolchain@v0.0.1-go1.23.11.linux-amd64/bin/go}"
DST="$WT/xpath/grammars/expr/hunt_test.go"
cp "$HERE/hunt_test.go" "$DST"
(cd "$WT" && "$GO" test -count=1 ./xpath/grammars/expr/ -run 'TestC01_' -v 2>&1 | grep -v '^time=')
rc=$?
rm -f "$DST"
exit $rc
