#!/bin/sh
# usage: run.sh <worktree>   (test belongs in <worktree>/parse, package parse)
WT="${1:?worktree path}"
HERE="$(cd "$(dirname "$0")" && pwd)"
export GOFLAGS=-mod=mod GOPROXY=off GOTOOLCHAIN=local
GO=/root/go/pkg/mod/golang.org/toolchain@v0.0.1-go1.23.11.linux-amd64/bin/go
if [ ! -f "$WT/xpath/grammars/leafref/leafref.go" ]; then
  (cd "$WT/xpath/grammars/leafref" && /tmp/tools/goyacc -o leafref.go -p leafref leafref.y >/dev/null && rm -f y.output)
fi
cp "$HERE/hunt_test.go" "$WT/parse/c09_hunt2_test.go"
echo "== controls (expected to pass)"
(cd "$WT" && $GO test ./parse/ -count=1 -run 'TestC09Control' -v 2>&1 | grep -E '^(---|===|ok|FAIL|PASS|\s+c09_)' )
echo "== doubtful (expected to fail on the unchanged library; no genuine findings were made)"
(cd "$WT" && $GO test ./parse/ -count=1 -run 'TestC09Doubtful' -v 2>&1 | grep -v '^=== ')
rc=$?
rm -f "$WT/parse/c09_hunt2_test.go"
exit $rc
