package parse

import (
	"fmt"
	"sort"
	"strings"
	"testing"
)

type c09hc struct{ min, max int } // max -1 = n

var c09hN = c09hc{0, -1}
var c09h01 = c09hc{0, 1}
var c09h1 = c09hc{1, 1}

func c09hset(c c09hc, kws ...string) map[string]c09hc {
	m := map[string]c09hc{}
	for _, k := range kws {
		m[k] = c
	}
	return m
}
func c09hmerge(ms ...map[string]c09hc) map[string]c09hc {
	o := map[string]c09hc{}
	for _, m := range ms {
		for k, v := range m {
			o[k] = v
		}
	}
	return o
}

var c09hBody = []string{"anyxml", "augment", "choice", "container", "deviation", "extension", "feature", "grouping", "identity", "leaf", "leaf-list", "list", "notification", "rpc", "typedef", "uses"}

var c09hTable = map[string]map[string]c09hc{
	"module":       c09hmerge(c09hset(c09hN, c09hBody...), c09hset(c09hN, "import", "include", "revision"), c09hset(c09h01, "contact", "description", "organization", "reference", "yang-version"), c09hset(c09h1, "namespace", "prefix")),
	"submodule":    c09hmerge(c09hset(c09hN, c09hBody...), c09hset(c09hN, "import", "include", "revision"), c09hset(c09h01, "contact", "description", "organization", "reference", "yang-version"), c09hset(c09h1, "belongs-to")),
	"import":       c09hmerge(c09hset(c09h1, "prefix"), c09hset(c09h01, "revision-date")),
	"include":      c09hset(c09h01, "revision-date"),
	"revision":     c09hset(c09h01, "description", "reference"),
	"belongs-to":   c09hset(c09h1, "prefix"),
	"typedef":      c09hmerge(c09hset(c09h01, "default", "description", "reference", "status", "units"), c09hset(c09h1, "type")),
	"type":         c09hmerge(c09hset(c09hN, "bit", "enum", "pattern", "type"), c09hset(c09h01, "length", "path", "range", "require-instance", "base", "fraction-digits")),
	"container":    c09hmerge(c09hset(c09hN, "anyxml", "choice", "container", "grouping", "if-feature", "leaf", "leaf-list", "list", "must", "typedef", "uses"), c09hset(c09h01, "config", "description", "presence", "reference", "status", "when")),
	"must":         c09hset(c09h01, "description", "error-app-tag", "error-message", "reference"),
	"leaf":         c09hmerge(c09hset(c09hN, "if-feature", "must"), c09hset(c09h01, "config", "default", "description", "mandatory", "reference", "status", "units", "when"), c09hset(c09h1, "type")),
	"leaf-list":    c09hmerge(c09hset(c09hN, "if-feature", "must"), c09hset(c09h01, "config", "description", "max-elements", "min-elements", "ordered-by", "reference", "status", "units", "when"), c09hset(c09h1, "type")),
	"list":         c09hmerge(c09hset(c09hN, "anyxml", "choice", "container", "grouping", "if-feature", "leaf", "leaf-list", "list", "must", "typedef", "unique", "uses"), c09hset(c09h01, "config", "description", "max-elements", "min-elements", "ordered-by", "reference", "status", "when"), c09hset(c09h1, "key")),
	"choice":       c09hmerge(c09hset(c09hN, "anyxml", "case", "container", "if-feature", "leaf", "leaf-list", "list"), c09hset(c09h01, "config", "default", "description", "mandatory", "reference", "status", "when")),
	"case":         c09hmerge(c09hset(c09hN, "anyxml", "choice", "container", "if-feature", "leaf", "leaf-list", "list", "uses"), c09hset(c09h01, "description", "reference", "status", "when")),
	"anyxml":       c09hmerge(c09hset(c09hN, "if-feature", "must"), c09hset(c09h01, "config", "description", "mandatory", "reference", "status", "when")),
	"grouping":     c09hmerge(c09hset(c09hN, "anyxml", "choice", "container", "grouping", "leaf", "leaf-list", "list", "typedef", "uses"), c09hset(c09h01, "description", "reference", "status")),
	"uses":         c09hmerge(c09hset(c09hN, "augment", "if-feature", "refine"), c09hset(c09h01, "description", "reference", "status", "when")),
	"rpc":          c09hmerge(c09hset(c09hN, "grouping", "if-feature", "typedef"), c09hset(c09h01, "description", "input", "output", "reference", "status")),
	"input":        c09hset(c09hN, "anyxml", "choice", "container", "grouping", "leaf", "leaf-list", "list", "typedef", "uses"),
	"output":       c09hset(c09hN, "anyxml", "choice", "container", "grouping", "leaf", "leaf-list", "list", "typedef", "uses"),
	"notification": c09hmerge(c09hset(c09hN, "anyxml", "choice", "container", "grouping", "if-feature", "leaf", "leaf-list", "list", "typedef", "uses"), c09hset(c09h01, "description", "reference", "status")),
	"augment":      c09hmerge(c09hset(c09hN, "anyxml", "case", "choice", "container", "if-feature", "leaf", "leaf-list", "list", "uses"), c09hset(c09h01, "description", "reference", "status", "when")),
	"identity":     c09hset(c09h01, "base", "description", "reference", "status"),
	"extension":    c09hset(c09h01, "argument", "description", "reference", "status"),
	"argument":     c09hset(c09h01, "yin-element"),
	"feature":      c09hmerge(c09hset(c09hN, "if-feature"), c09hset(c09h01, "description", "reference", "status")),
	"deviation":    c09hmerge(c09hset(c09hc{1, -1}, "deviate"), c09hset(c09h01, "description", "reference")),
	"range":        c09hset(c09h01, "description", "error-app-tag", "error-message", "reference"),
	"length":       c09hset(c09h01, "description", "error-app-tag", "error-message", "reference"),
	"pattern":      c09hset(c09h01, "description", "error-app-tag", "error-message", "reference"),
	"enum":         c09hset(c09h01, "description", "reference", "status", "value"),
	"bit":          c09hset(c09h01, "description", "reference", "status", "position"),
	"when":         c09hset(c09h01, "description", "reference"),
}

var c09hAllKw = []string{"anyxml", "argument", "augment", "base", "belongs-to", "bit", "case", "choice", "config", "contact", "container", "default", "description", "enum", "error-app-tag", "error-message", "extension", "deviation", "deviate", "feature", "fraction-digits", "grouping", "identity", "if-feature", "import", "include", "input", "key", "leaf", "leaf-list", "length", "list", "mandatory", "max-elements", "min-elements", "module", "must", "namespace", "notification", "ordered-by", "organization", "output", "path", "pattern", "position", "prefix", "presence", "range", "reference", "refine", "require-instance", "revision", "revision-date", "rpc", "status", "submodule", "type", "typedef", "unique", "units", "uses", "value", "when", "yang-version", "yin-element"}

var c09hCnt int
var c09hRev int

func c09hArg(kw string) string {
	c09hCnt++
	id := fmt.Sprintf("n%d", c09hCnt)
	switch kw {
	case "augment":
		return `"/a/b"`
	case "deviation":
		return `"/a/b"`
	case "refine":
		return "a/b"
	case "base", "if-feature", "uses", "type":
		return "p:" + id
	case "config", "mandatory", "require-instance", "yin-element":
		return "true"
	case "contact", "description", "organization", "reference", "default", "error-app-tag", "error-message", "presence", "units", "enum":
		return `"s ` + id + `"`
	case "must", "when":
		return `"a = 1"`
	case "path":
		return `"../a"`
	case "deviate":
		return "not-supported"
	case "fraction-digits":
		return "2"
	case "input", "output":
		return ""
	case "key":
		return `"k"`
	case "unique":
		return `"a b/c"`
	case "length":
		return `"1..2"`
	case "range":
		return `"1..2"`
	case "pattern":
		return `"[a-z]+"`
	case "max-elements":
		return "unbounded"
	case "min-elements", "position":
		return "1"
	case "value":
		return "-1"
	case "namespace":
		return `"urn:x"`
	case "ordered-by":
		return "user"
	case "status":
		return "current"
	case "yang-version":
		return "1"
	case "revision":
		c09hRev++
		y := 9000 - c09hRev/300
		d := 300 - c09hRev%300
		return fmt.Sprintf("%04d-%02d-%02d", y, 1+d/28, 1+d%28)
	case "revision-date":
		return "2001-01-01"
	}
	return id
}

func c09hRequired(kw string) []string {
	switch kw {
	case "module":
		return []string{"namespace", "prefix"}
	case "submodule":
		return []string{"belongs-to"}
	case "import", "belongs-to":
		return []string{"prefix"}
	case "typedef", "leaf", "leaf-list":
		return []string{"type"}
	case "list":
		return []string{"key", "leaf"}
	case "deviation":
		return []string{"deviate"}
	}
	return nil
}

func c09hSection(kw string) int {
	switch kw {
	case "yang-version", "namespace", "prefix", "belongs-to":
		return 0
	case "import", "include":
		return 1
	case "organization", "contact", "description", "reference":
		return 2
	case "revision":
		return 3
	}
	return 4
}

// minimal valid statement of the keyword
func c09hStmt(kw string) string {
	return c09hStmtWith(kw, "", 0)
}

func c09hStmtWith(kw, child string, mult int) string {
	kids := []string{}
	for _, r := range c09hRequired(kw) {
		if r != child {
			kids = append(kids, r)
		}
	}
	for i := 0; i < mult; i++ {
		kids = append(kids, child)
	}
	if kw == "module" || kw == "submodule" {
		sort.SliceStable(kids, func(i, j int) bool { return c09hSection(kids[i]) < c09hSection(kids[j]) })
	}
	var b strings.Builder
	b.WriteString(kw)
	if a := c09hArg(kw); a != "" {
		b.WriteString(" " + a)
	}
	if len(kids) == 0 {
		b.WriteString(";")
		return b.String()
	}
	b.WriteString(" {\n")
	for _, k := range kids {
		b.WriteString("  " + strings.Replace(c09hStmt(k), "\n", "\n  ", -1) + "\n")
	}
	b.WriteString("}")
	return b.String()
}

func TestC09Control_AllTriples(t *testing.T) {
	bad := 0
	for _, parent := range c09hAllKw {
		if parent == "refine" || parent == "deviate" {
			continue
		}
		for _, child := range c09hAllKw {
			for mult := 0; mult <= 3; mult++ {
				card, ok := c09hTable[parent][child]
				var want bool
				if !ok {
					want = mult == 0
				} else {
					want = mult >= card.min && (card.max < 0 || mult <= card.max)
				}
				if parent == "list" && mult == 0 && child == "leaf" {
					want = false
				}
				text := c09hStmtWith(parent, child, mult)
				_, err := Parse("hunt", text, nil)
				if (err == nil) != want {
					bad++
					t.Errorf("parent %s child %s x%d: want accept=%v got err=%v\n%s", parent, child, mult, want, err, text)
				}
				if err != nil && mult > 0 {
					msg := err.Error()
					if !strings.Contains(msg, "hunt:") {
						t.Errorf("no location: %s", msg)
					}
				}
			}
		}
	}
	t.Logf("bad=%d", bad)
}

// Control: a prefixed extension statement is accepted as first and as last
// substatement of every RFC 6020 statement.
func TestC09Control_ExtensionAnywhere(t *testing.T) {
	for _, kw := range c09hAllKw {
		for _, ext := range []string{"x:y;", "x:y arg;", "x:y \"a b\" { x:z; description d; }"} {
			s := c09hStmt(kw)
			var text string
			if strings.HasSuffix(s, ";") {
				text = s[:len(s)-1] + " { " + ext + " }"
			} else {
				i := strings.Index(s, "{")
				text = s[:i+1] + " " + ext + " " + s[i+1:]
				text2 := s[:len(s)-1] + " " + ext + " }"
				if _, err := Parse("hunt", text2, nil); err != nil {
					t.Errorf("%s: %v", text2, err)
				}
			}
			if _, err := Parse("hunt", text, nil); err != nil {
				t.Errorf("%s: %v", text, err)
			}
		}
	}
}

// Control: section order of a module, pairwise.
func TestC09Control_SectionOrder(t *testing.T) {
	reps := map[int][]string{
		1: {`import i { prefix i; }`, `include s;`},
		2: {`organization o;`, `contact c;`, `description d;`, `reference r;`},
		3: {`revision 2020-01-01;`},
		4: {`container c;`, `extension e;`, `feature f;`, `identity i;`, `typedef t { type string; }`, `grouping g;`, `rpc r;`, `notification n;`, `augment /a;`, `deviation /a { deviate not-supported; }`, `uses g;`},
	}
	for i := 1; i <= 4; i++ {
		for j := 1; j <= 4; j++ {
			for _, x := range reps[i] {
				for _, y := range reps[j] {
					if x == y {
						continue
					}
					text := "module m { namespace \"urn:x\"; prefix p; " + x + " x:y; " + y + " }"
					_, err := Parse("hunt", text, nil)
					if (err == nil) != (i <= j) {
						t.Errorf("%s: want accept=%v got %v", text, i <= j, err)
					}
				}
			}
		}
		for _, x := range reps[i] {
			text := "module m { namespace \"urn:x\"; " + x + " prefix p; }"
			if _, err := Parse("hunt", text, nil); err == nil {
				t.Errorf("%s: accepted", text)
			}
		}
	}
	for text, want := range map[string]bool{
		`module m { namespace "urn:x"; prefix p; revision 2020-01-02; revision 2020-01-01; }`: true,
		`module m { namespace "urn:x"; prefix p; revision 2020-01-01; revision 2020-01-01; }`: false,
		`module m { namespace "urn:x"; prefix p; revision 2020-01-01; x:y; revision 2020-01-02; }`: false,
		`submodule s { belongs-to m { prefix p; } revision 2020-01-01; revision 2020-01-02; }`: false,
	} {
		_, err := Parse("hunt", text, nil)
		if (err == nil) != want {
			t.Errorf("%s: want accept=%v got %v", text, want, err)
		}
	}
}

// DOUBTFUL: a Tree obtained from New() that is used for a second Parse after a
// failed first one keeps the lookahead (peekCount / token[]) of the failed
// run: the valid second text is rejected, with an error about a token that
// is not in it.  (parse.Parse always makes a new Tree, so only users of
// New + (*Tree).Parse are affected.)
func TestC09Doubtful_TreeReuseAfterError(t *testing.T) {
	tr := New("hunt", nil)
	if _, err := tr.Parse("a +;"); err == nil {
		t.Fatal("control: 'a +;' should be rejected")
	}
	if _, err := tr.Parse("leaf x { type string; }"); err != nil {
		t.Errorf("valid statement rejected on the reused Tree: %v", err)
	}
}

// DOUBTFUL: a statement whose argument is a string is accepted without any
// argument (ABNF: keyword sep string stmtend); absent argument and "" are
// not distinguished.  Includes pattern, which is in the property's list.
func TestC09Doubtful_MissingStringArgument(t *testing.T) {
	for _, s := range []string{"pattern;", "description;", "presence;", "default;", "units;", "enum;", "must;", "when;", "path;", "error-message;", "module m { namespace; prefix p; }"} {
		if _, err := Parse("hunt", s, nil); err == nil {
			t.Errorf("%q accepted although the mandatory argument is missing", s)
		}
	}
	// control: typed arguments may not be missing
	for _, s := range []string{"key;", "range;", "length;", "status;", "config;", "value;", "augment;", "unique;", "revision;", "leaf { type string; }"} {
		if _, err := Parse("hunt", s, nil); err == nil {
			t.Errorf("control: %q accepted", s)
		}
	}
}
