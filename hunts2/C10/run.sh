#!/bin/sh
# usage: run.sh <worktree>
# copies the hunt test into <worktree>/parse, runs it, removes it again
set -u
WT="${1:?usage: run.sh <worktree>}"
HERE="$(cd "$(dirname "$0")" && pwd)"
export GOFLAGS=-mod=mod GOPROXY=off GOTOOLCHAIN=local
GO="${GO:-/root/go/pkg/mod/golang.org/toolchain@v0.0.1-go1.23.11.linux-amd64/bin/go}"
DST="$WT/parse/c10_hunt2_test.go"
cp "$HERE/hunt_test.go" "$DST"
(cd "$WT" && "$GO" test -count=1 -v -run 'TestC10' ./parse)
rc=$?
rm -f "$DST"
exit $rc
