// Hunt 2 for property C10 (the parse tree mirrors the source and ignores
// trivia).  Belongs in the directory parse/ (package parse).
//
//   TestC10_*          findings: fail on the unchanged library
//   TestC10Doubtful_*  doubtful items: fail as well, see findings.json
//   TestC10Control_*   controls: pass
package parse

import (
	"fmt"
	"math/rand"
	"strings"
	"testing"
)

type hStmt struct {
	kw   string
	arg  *string
	kids []*hStmt
}

func hs(kw string, arg string, kids ...*hStmt) *hStmt {
	a := arg
	return &hStmt{kw: kw, arg: &a, kids: kids}
}
func hn(kw string, kids ...*hStmt) *hStmt {
	return &hStmt{kw: kw, kids: kids}
}

func hDumpModel(s *hStmt, depth int, sb *strings.Builder) {
	a := ""
	if s.arg != nil {
		a = *s.arg
	}
	fmt.Fprintf(sb, "%d|%s|%q\n", depth, s.kw, a)
	for _, k := range s.kids {
		hDumpModel(k, depth+1, sb)
	}
}

func hDumpNode(n Node, depth int, sb *strings.Builder, withPos bool) {
	if withPos {
		loc, _ := n.ErrorContext()
		fmt.Fprintf(sb, "%d|%s|%q|%s\n", depth, n.Statement(), n.Argument().String(), loc)
	} else {
		fmt.Fprintf(sb, "%d|%s|%q\n", depth, n.Statement(), n.Argument().String())
	}
	for _, k := range n.Children() {
		hDumpNode(k, depth+1, sb, withPos)
	}
}

type hRender struct {
	r   *rand.Rand
	sb  strings.Builder
	pos []string // expected line:col per statement in preorder
	unq bool
}

func (h *hRender) col() int {
	s := h.sb.String()
	i := strings.LastIndex(s, "\n")
	return len(s) - (i + 1)
}
func (h *hRender) line() int {
	return 1 + strings.Count(h.sb.String(), "\n")
}

var hTrivia = []string{" ", "  ", "\t", "\n", "\r\n", " \n ", "/* c */", "/* \" ' ; { } */", "// x\n", "// \" ' {\n", "/**/", "/* // */", "//\n", "/*\n*/", " /* é */ "}

// optional trivia (may be empty)
func (h *hRender) opt() {
	n := h.r.Intn(3)
	for i := 0; i < n; i++ {
		h.sb.WriteString(hTrivia[h.r.Intn(len(hTrivia))])
	}
}

// mandatory separator; afterUnquoted => must begin with whitespace
func (h *hRender) sep() {
	ws := []string{" ", "\t", "\n", "\r\n"}
	h.sb.WriteString(ws[h.r.Intn(len(ws))])
	h.opt()
	// must end so that following token is delimited: comments delimit fine
}

func canUnquoted(v string) bool {
	if v == "" {
		return false
	}
	if strings.ContainsAny(v, " \t\r\n;{}\"'") {
		return false
	}
	if strings.Contains(v, "//") || strings.Contains(v, "/*") || strings.Contains(v, "*/") {
		return false
	}
	if v[0] == '+' {
		return false
	}
	return true
}

// render one double-quoted piece of value v (v must be representable)
func (h *hRender) dq(v string) {
	h.sb.WriteString("\"")
	qc := h.colCells() // cells up to and including the quote
	for i := 0; i < len(v); i++ {
		c := v[i]
		switch c {
		case '"':
			h.sb.WriteString("\\\"")
		case '\\':
			h.sb.WriteString("\\\\")
		case '\n':
			h.sb.WriteString("\n")
			// indentation
			next := byte(0)
			if i+1 < len(v) {
				next = v[i+1]
			}
			if next == ' ' || next == '\t' {
				// exact indentation to quote column
				h.indent(qc)
			} else if next == '\n' || next == 0 {
				// blank line / last: any ws <= arbitrary for blank line; for last line (next==0) ws up to qc
				if next == 0 {
					h.indent(h.r.Intn(qc + 1))
				} else {
					h.indent(h.r.Intn(qc + 5))
					if h.r.Intn(3) == 0 {
						h.sb.WriteString("\r")
						// CRLF blank line would introduce \r\n in value: avoid
						s := h.sb.String()
						h.sb.Reset()
						h.sb.WriteString(s[:len(s)-1])
					}
				}
			} else {
				h.indent(h.r.Intn(qc + 1))
			}
		default:
			h.sb.WriteByte(c)
			// trailing ws before newline that gets stripped: add if next is newline and c is not ws
			if i+1 < len(v) && v[i+1] == '\n' && c != ' ' && c != '\t' && h.r.Intn(3) == 0 {
				h.sb.WriteString(" \t "[:h.r.Intn(4)])
			}
		}
	}
	h.sb.WriteString("\"")
}

// number of cells on the current line (tab = 8, runes = 1)
func (h *hRender) colCells() int {
	s := h.sb.String()
	i := strings.LastIndex(s, "\n")
	n := 0
	for _, c := range s[i+1:] {
		if c == '\t' {
			n += 8
		} else {
			n++
		}
	}
	return n
}

func (h *hRender) indent(n int) {
	// use tabs sometimes
	for n >= 8 && h.r.Intn(2) == 0 {
		h.sb.WriteString("\t")
		n -= 8
	}
	h.sb.WriteString(strings.Repeat(" ", n))
}

func dqOK(v string) bool {
	// no trailing ws before newline; no \r
	if strings.Contains(v, " \n") || strings.Contains(v, "\t\n") || strings.Contains(v, "\r") {
		return false
	}
	return true
}

func (h *hRender) piece(v string) {
	// choose single or double
	if !strings.Contains(v, "'") && (h.r.Intn(2) == 0 || !dqOK(v)) {
		h.sb.WriteString("'" + v + "'")
		return
	}
	if !dqOK(v) {
		panic("unrepresentable " + v)
	}
	h.dq(v)
}

func (h *hRender) arg(v string) {
	if canUnquoted(v) && h.r.Intn(3) == 0 {
		h.sb.WriteString(v)
		h.unq = true
		return
	}
	h.unq = false
	// split into pieces
	np := 1 + h.r.Intn(3)
	rest := v
	for p := 0; p < np; p++ {
		var cur string
		if p == np-1 {
			cur = rest
		} else {
			k := h.r.Intn(len(rest) + 1)
			cur, rest = rest[:k], rest[k:]
		}
		// a piece with ' and needing single quoting can't be; split at quotes
		for strings.Contains(cur, "'") && !dqOK(cur) {
			// split into before-quote (single) and the rest
			i := strings.Index(cur, "'")
			if i > 0 {
				h.piece(cur[:i])
				h.opt()
				h.sb.WriteString("+")
				h.opt()
			}
			// quote itself in dq
			h.sb.WriteString("\"'\"")
			cur = cur[i+1:]
			h.opt()
			h.sb.WriteString("+")
			h.opt()
		}
		h.piece(cur)
		if p != np-1 {
			h.opt()
			h.sb.WriteString("+")
			h.opt()
		}
	}
}

func (h *hRender) stmt(s *hStmt) {
	h.pos = append(h.pos, fmt.Sprintf("%d:%d", h.line(), h.col()))
	h.sb.WriteString(s.kw)
	if s.arg != nil {
		h.sep()
		h.arg(*s.arg)
		if h.unq {
			// need ws before a comment after unquoted token; opt() may begin with comment
			if h.r.Intn(2) == 0 {
				h.sb.WriteString(" ")
				h.opt()
			}
		} else {
			h.opt()
		}
	} else {
		if h.r.Intn(2) == 0 {
			h.sb.WriteString(" ")
			h.opt()
		}
	}
	if len(s.kids) == 0 && h.r.Intn(4) != 0 {
		h.sb.WriteString(";")
	} else {
		h.sb.WriteString("{")
		h.opt()
		for _, k := range s.kids {
			h.stmt(k)
			h.opt()
		}
		h.sb.WriteString("}")
	}
}

func hModel(r *rand.Rand) *hStmt {
	vals := []string{
		"a", "abc def", "x\ny", "line1\n  indented\n\n    more\nend", "it's", "say \"hi\"", "back\\slash",
		"a;b{c}d", "// not a comment", "/* nor this */", "+5", "+", "a+b", "tab\there", " lead", "trail ",
		"\nstart", "end\n", "\n", "é ü", "'", "\"", "\\", "\\n", "\\\\", "a\\\"b", "x\n\ty", "x\n y\n  z\n   w",
		"'+'", "a'b\"c", "${var}", "http://x/y", "a/*b", "*/", "x \ny", "x\t\ny", "", "x\n\n\ny", "\n\n",
	}
	v := func() string { return vals[r.Intn(len(vals))] }
	desc := func() *hStmt { return hs("description", v()) }
	var kids []*hStmt
	kids = append(kids, hs("namespace", "urn:x"), hs("prefix", "p"))
	kids = append(kids, hs("organization", v()), hs("contact", v()), desc(), hs("reference", v()))
	n := 1 + r.Intn(4)
	for i := 0; i < n; i++ {
		switch r.Intn(6) {
		case 0:
			kids = append(kids, hs("leaf", fmt.Sprintf("l%d", i), hs("type", "string", hs("pattern", "[a-z]+", hs("error-message", v()))), hs("default", v()), desc()))
		case 1:
			kids = append(kids, hs("container", fmt.Sprintf("c%d", i), hs("presence", v()), hs("must", "1", hs("error-message", v())), hs("leaf", "q", hs("type", "int8"), hs("units", v()))))
		case 2:
			kids = append(kids, hs("p:ext", v()), hs("p:ext2", v(), hs("p:ext3", v())))
		case 3:
			kids = append(kids, hs("rpc", fmt.Sprintf("r%d", i), hn("input", hs("leaf", "a", hs("type", "string"))), hn("output")))
		case 4:
			kids = append(kids, hs("list", fmt.Sprintf("li%d", i), hs("key", "a b"), hs("leaf", "a", hs("type", "string")), hs("leaf", "b", hs("type", "enumeration", hs("enum", "e 1", desc()), hs("enum", "it's"))), hs("unique", "a b")))
		case 5:
			kids = append(kids, hs("typedef", fmt.Sprintf("t%d", i), hs("type", "string", hs("length", "1 .. 4 | 7")), hs("default", v())))
		}
	}
	return hs("module", "m", kids...)
}

func TestC10Control_RandomTriviaAndQuoting(t *testing.T) {
	fails := 0
	for seed := int64(0); seed < 3000 && fails < 8; seed++ {
		r := rand.New(rand.NewSource(seed))
		m := hModel(r)
		var want strings.Builder
		hDumpModel(m, 0, &want)
		h := &hRender{r: r}
		h.opt()
		h.stmt(m)
		h.opt()
		text := h.sb.String()
		tree, err := Parse("f", text, nil)
		if err != nil {
			t.Errorf("seed %d: rejected: %v\n---\n%s\n---", seed, err, text)
			fails++
			continue
		}
		var got strings.Builder
		hDumpNode(tree.Root, 0, &got, false)
		if got.String() != want.String() {
			t.Errorf("seed %d: tree differs\nwant:\n%s\ngot:\n%s\ntext:\n%q", seed, want.String(), got.String(), text)
			fails++
			continue
		}
		// positions
		var gp []string
		var walk func(n Node)
		walk = func(n Node) {
			loc, _ := n.ErrorContext()
			gp = append(gp, loc)
			for _, k := range n.Children() {
				walk(k)
			}
		}
		walk(tree.Root)
		for i := range gp {
			if !strings.HasPrefix(gp[i], "f:"+h.pos[i]+":") {
				t.Errorf("seed %d: pos %d differs: want %s got %s\ntext:\n%q", seed, i, h.pos[i], gp[i], text)
				fails++
				break
			}
		}
	}
}


func c10Dump(n Node, depth int, sb *strings.Builder) {
	fmt.Fprintf(sb, "%d|%s|%q\n", depth, n.Statement(), n.Argument().String())
	for _, k := range n.Children() {
		c10Dump(k, depth+1, sb)
	}
}

// c10SameTree parses both texts; the first one is the reference (it has to
// be accepted), the second one has to be accepted with the same tree.
func c10SameTree(t *testing.T, ref, other string) {
	t.Helper()
	rt, err := Parse("ref", ref, nil)
	if err != nil {
		t.Fatalf("reference text rejected (test is broken): %v\n%s", err, ref)
	}
	ot, err := Parse("other", other, nil)
	if err != nil {
		t.Errorf("equivalent text rejected: %v\nreference (accepted): %s\nother: %s", err, ref, other)
		return
	}
	var a, b strings.Builder
	c10Dump(rt.Root, 0, &a)
	c10Dump(ot.Root, 0, &b)
	if a.String() != b.String() {
		t.Errorf("trees differ\nreference %s\n%s\nother %s\n%s", ref, a.String(), other, b.String())
	}
}

const c10Pre = "module m { namespace urn:x; prefix p; "

// Finding 1: a double quote inside an unquoted argument.  RFC 6020 6.1.3 (the
// library is a YANG 1 parser: yang-version 1.1 is rejected): an unquoted
// string is any sequence of characters without blank, tab, CR, LF, ';', '{',
// '}' and comment sequences - quote characters are allowed in it.  The lexer
// keeps a single quote inside an unquoted token but ends the token at a
// double quote, so the unquoted form is rejected while both quoted forms of
// the same value are accepted.
func TestC10_UnquotedArgumentContainingDoubleQuote(t *testing.T) {
	ref := c10Pre + `leaf a { type string; default 'a"b'; } }`
	c10SameTree(t, ref, c10Pre+`leaf a { type string; default "a\"b"; } }`) // control, passes
	c10SameTree(t, ref, c10Pre+`leaf a { type string; default a"b; } }`)
	// the same with the quote at the end of the token
	c10SameTree(t, c10Pre+`leaf a { type string; default 'ab"'; } }`,
		c10Pre+`leaf a { type string; default ab"; } }`)
}

// control: the single quote inside an unquoted token is kept (RFC 6020)
func TestC10Control_UnquotedArgumentContainingSingleQuote(t *testing.T) {
	c10SameTree(t, c10Pre+`leaf a { type string; default "a'b"; } }`,
		c10Pre+`leaf a { type string; default a'b; } }`)
}

// Finding 2 (residual of the known '+' item after its repair): an unquoted
// argument that consists of '+' only is still taken for the concatenation
// operator.  "enum -;" is accepted, "enum +;" is not, "enum "+";" is.
func TestC10_UnquotedArgumentLonePlus(t *testing.T) {
	ref := c10Pre + `leaf a { type enumeration { enum "+"; enum "-"; } } }`
	c10SameTree(t, ref, c10Pre+`leaf a { type enumeration { enum '+'; enum -; } } }`) // control, passes
	c10SameTree(t, ref, c10Pre+`leaf a { type enumeration { enum +; enum -; } } }`)
	c10SameTree(t, ref, c10Pre+`leaf a { type enumeration { enum + ; enum -; } } }`)
	c10SameTree(t, ref, c10Pre+`leaf a { type enumeration { enum +{} enum -; } } }`)
}

// control: longer unquoted arguments that start with '+' are fine (repaired)
func TestC10Control_UnquotedArgumentStartingWithPlus(t *testing.T) {
	c10SameTree(t, c10Pre+`leaf a { type string; default "+5"; } }`,
		c10Pre+`leaf a { type string; default +5; } }`)
	c10SameTree(t, c10Pre+`leaf a { type string; default "++"; } }`,
		c10Pre+`leaf a { type string; default ++; } }`)
}

// Doubtful: a read accessor changes the tree.  ChildrenByType(NodeInput) /
// ChildByType(NodeOutput) on an rpc node without input / output appends a
// synthetic "input" / "output" statement (position of the rpc keyword) to
// Children(); a walk after the call shows a statement that is not in the
// source.  Same kind as the known "case" wrapper, other code path; not
// reached by Parse() itself.
func TestC10Doubtful_RpcAccessorAddsSyntheticInput(t *testing.T) {
	tree, err := Parse("f", c10Pre+"rpc r; }", nil)
	if err != nil {
		t.Fatal(err)
	}
	var before, after strings.Builder
	c10Dump(tree.Root, 0, &before)
	for _, c := range tree.Root.Children() {
		if c.Statement() == "rpc" {
			_ = c.ChildByType(NodeInput)
			_ = c.ChildByType(NodeOutput)
		}
	}
	c10Dump(tree.Root, 0, &after)
	if before.String() != after.String() {
		t.Errorf("reading the tree changed it\nbefore:\n%safter:\n%s", before.String(), after.String())
	}
}
