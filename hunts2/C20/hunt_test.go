// Hunt for violations of property C20 (schema filters prune top-down and change
// nothing else).  No genuine violation was found; the tests here are CONTROL
// tests (they pass on the unchanged library) plus one env-guarded test that
// shows the "doubtful" observation (run with C20_DOUBTFUL=1).
// Belongs in directory compile/ (package compile_test).
package compile_test

import (
	"os"
	"math/rand"
	"fmt"
	"sort"
	"strings"
	"testing"

	"github.com/sdcio/yang-parser/compile"
	"github.com/sdcio/yang-parser/parse"
	"github.com/sdcio/yang-parser/schema"
)

type hFilter struct {
	name string
	f    compile.SchemaFilter
}

func hFilters() []hFilter {
	return []hFilter{
		{"IsConfig", compile.IsConfig},
		{"IsState", compile.IsState},
		{"IsOpd", compile.IsOpd},
		{"IsConfigOrState", compile.IsConfigOrState()},
		{"Include(Config,Opd)", compile.Include(compile.IsConfig, compile.IsOpd)},
		{"Include(State,Opd)", compile.Include(compile.IsState, compile.IsOpd)},
		{"Exclude(State)", compile.Exclude(compile.IsState)},
		{"Exclude(Config)", compile.Exclude(compile.IsConfig)},
		{"Exclude(Opd)", compile.Exclude(compile.IsOpd)},
		{"Exclude(Config,Opd)", compile.Exclude(compile.IsConfig, compile.IsOpd)},
		{"IncludeState(true)", compile.IncludeState(true)},
		{"IncludeState(false)", compile.IncludeState(false)},
		{"Include()", compile.Include()},
		{"Exclude()", compile.Exclude()},
		{"Include(nil,IsConfig)", compile.Include(nil, compile.IsConfig)},
	}
}

func hCompile(filter compile.SchemaFilter, feats compile.FeaturesChecker, texts ...string) (schema.ModelSet, error) {
	trees := make(map[string]*parse.Tree)
	for i, txt := range texts {
		tr, err := parse.Parse(fmt.Sprintf("mod%d", i), txt, nil)
		if err != nil {
			return nil, fmt.Errorf("parse: %v", err)
		}
		trees[tr.Root.Argument().String()] = tr
	}
	if hWarn {
		ms, _, err := compile.CompileModulesWithWarnings(nil, trees, "", false, filter)
		return ms, err
	}
	return compile.CompileParseTrees(nil, trees, feats, false, filter)
}

var hWarn = os.Getenv("HWARN") != ""

func hTypeStr(t schema.Type) string {
	if t == nil {
		return "<nil>"
	}
	d, hd := t.Default()
	s := fmt.Sprintf("%T name=%v def=%q/%v", t, t.Name(), d, hd)
	switch v := t.(type) {
	case schema.Leafref:
		s += fmt.Sprintf(" path=%v", v.Mach().GetExpr())
	case schema.Union:
		for _, st := range v.Typs() {
			s += " [" + hTypeStr(st) + "]"
		}
	case schema.Enumeration:
		for _, e := range v.Enums() {
			s += fmt.Sprintf(" e:%s=%d", e.Val, e.Value)
		}
	case schema.Identityref:
		for _, e := range v.Identities() {
			s += fmt.Sprintf(" i:%s:%s", e.Module, e.Val)
		}
	case schema.Integer:
		s += fmt.Sprintf(" r=%v", v.Rbs())
	case schema.Uinteger:
		s += fmt.Sprintf(" r=%v", v.Rbs())
	case schema.String:
		s += fmt.Sprintf(" len=%v pat=%v", v.Len(), v.Pats())
	}
	return s
}

// dump a node; keep(n) decides whether a node is visible (used to prune the
// unfiltered schema); nil = keep everything.
func hDumpNode(sb *strings.Builder, ind string, n schema.Node, keep func(schema.Node) bool) {
	kind := fmt.Sprintf("%T", n)
	fmt.Fprintf(sb, "%s%s %s ns=%s mod=%s sub=%s cfg=%v st=%v pres=%v mand=%v ordby=%s desc=%q",
		ind, kind, n.Name(), n.Namespace(), n.Module(), n.Submodule(), n.Config(), n.Status(),
		n.HasPresence(), n.Mandatory(), n.OrdBy(), n.Description())
	switch n.(type) {
	case schema.Leaf, schema.LeafList, schema.Choice, schema.OpdOption, schema.OpdArgument:
		fmt.Fprintf(sb, " hasdef=%v", n.HasDefault())
	}
	switch v := n.(type) {
	case schema.List:
		fmt.Fprintf(sb, " keys=%v uniq=%v lim=%v", v.Keys(), v.Uniques(), v.Limit())
	case schema.LeafList:
		fmt.Fprintf(sb, " lim=%v type={%s}", v.Limit(), hTypeStr(v.Type()))
	case schema.Leaf:
		d, hd := v.Default()
		fmt.Fprintf(sb, " def=%q/%v type={%s}", d, hd, hTypeStr(v.Type()))
	case schema.Choice:
		fmt.Fprintf(sb, " defcase=%q", v.DefaultCase())
	case schema.OpdCommand:
		fmt.Fprintf(sb, " onenter=%q priv=%v local=%v secret=%v rep=%v pass=%v args=%v", v.OnEnter(), v.Privileged(), v.Local(), v.Secret(), v.Repeatable(), v.PassOpcArgs(), v.Arguments())
	case schema.OpdOption:
		fmt.Fprintf(sb, " onenter=%q priv=%v local=%v secret=%v rep=%v pass=%v type={%s}", v.OnEnter(), v.Privileged(), v.Local(), v.Secret(), v.Repeatable(), v.PassOpcArgs(), hTypeStr(v.Type()))
	case schema.OpdArgument:
		fmt.Fprintf(sb, " onenter=%q priv=%v local=%v secret=%v rep=%v pass=%v type={%s}", v.OnEnter(), v.Privileged(), v.Local(), v.Secret(), v.Repeatable(), v.PassOpcArgs(), hTypeStr(v.Type()))
	}
	for _, w := range n.Whens() {
		fmt.Fprintf(sb, " when=%q/%v", w.Mach.GetExpr(), w.RunAsParent)
	}
	for _, m := range n.Musts() {
		fmt.Fprintf(sb, " must=%q/%q/%q", m.Mach.GetExpr(), m.ErrMsg, m.AppTag)
	}
	sb.WriteString("\n")
	hDumpKids(sb, ind+"  ", n, keep)
}

func hHide(n schema.Node, keep func(schema.Node) bool, hidden map[schema.Node]bool, parentHidden bool) {
	for _, ch := range n.Choices() {
		h := parentHidden || (keep != nil && !keep(ch))
		if h {
			if _, isChoiceOrCase := ch.(schema.Choice); isChoiceOrCase {
				for _, c := range ch.Children() {
					hidden[c] = true
				}
			} else if _, isCase := ch.(schema.Case); isCase {
				for _, c := range ch.Children() {
					hidden[c] = true
				}
			}
		}
		switch ch.(type) {
		case schema.Choice, schema.Case:
			hHide(ch, keep, hidden, h)
		}
	}
}

func hDumpKids(sb *strings.Builder, ind string, n schema.Node, keep func(schema.Node) bool) {
	hidden := map[schema.Node]bool{}
	switch n.(type) {
	case schema.Leaf, schema.LeafList:
		return
	}
	hHide(n, keep, hidden, false)
	kids := n.Children()
	sort.Slice(kids, func(i, j int) bool { return kids[i].Name() < kids[j].Name() })
	for _, k := range kids {
		if hidden[k] {
			continue
		}
		if keep != nil && !keep(k) {
			continue
		}
		hDumpNode(sb, ind, k, keep)
	}
	chs := append([]schema.Node{}, n.Choices()...)
	if _, isMS := n.(schema.ModelSet); isMS {
		sort.SliceStable(chs, func(i, j int) bool { return chs[i].Name() < chs[j].Name() })
	}
	// order of Choices is an attribute too, keep it
	for _, c := range chs {
		if keep != nil && !keep(c) {
			continue
		}
		switch c.(type) {
		case schema.Choice, schema.Case:
			fmt.Fprintf(sb, "%s@choices:\n", ind)
			hDumpNode(sb, ind+"  ", c, keep)
		default:
			fmt.Fprintf(sb, "%s@choices-shorthand: %s\n", ind, c.Name())
		}
	}
}

func hDumpTree(sb *strings.Builder, ind string, t schema.Tree, keep func(schema.Node) bool) {
	if t == nil {
		fmt.Fprintf(sb, "%s<nil tree>\n", ind)
		return
	}
	hDumpKids(sb, ind, t, keep)
}

func hDumpMS(ms schema.ModelSet, keep func(schema.Node) bool) string {
	var sb strings.Builder
	sb.WriteString("ROOT\n")
	hDumpTree(&sb, "  ", ms, keep)
	mods := []string{}
	for k := range ms.Modules() {
		mods = append(mods, k)
	}
	sort.Strings(mods)
	for _, mn := range mods {
		m := ms.Modules()[mn]
		fmt.Fprintf(&sb, "MODULE %s ns=%s ver=%s feats=%v devs=%v\n", mn, m.Namespace(), m.Version(), m.Features(), m.Deviations())
		hDumpTree(&sb, "  ", m, keep)
		rn := []string{}
		for k := range m.Rpcs() {
			rn = append(rn, k)
		}
		sort.Strings(rn)
		for _, r := range rn {
			fmt.Fprintf(&sb, " RPC %s input\n", r)
			hDumpTree(&sb, "    ", m.Rpcs()[r].Input(), keep)
			fmt.Fprintf(&sb, " RPC %s output\n", r)
			hDumpTree(&sb, "    ", m.Rpcs()[r].Output(), keep)
		}
		nn := []string{}
		for k := range m.Notifications() {
			nn = append(nn, k)
		}
		sort.Strings(nn)
		for _, r := range nn {
			fmt.Fprintf(&sb, " NOTIF %s\n", r)
			hDumpTree(&sb, "    ", m.Notifications()[r].Schema(), keep)
		}
	}
	return sb.String()
}

func hDiff(a, b string) string {
	al := strings.Split(a, "\n")
	bl := strings.Split(b, "\n")
	var sb strings.Builder
	am := map[string]int{}
	for _, l := range al {
		am[l]++
	}
	bm := map[string]int{}
	for _, l := range bl {
		bm[l]++
	}
	for _, l := range al {
		if bm[l] == 0 {
			sb.WriteString("- (pruned-unfiltered only) " + l + "\n")
		}
	}
	for _, l := range bl {
		if am[l] == 0 {
			sb.WriteString("+ (filtered only)          " + l + "\n")
		}
	}
	return sb.String()
}

// returns number of problems
func hCheck(t *testing.T, label string, feats compile.FeaturesChecker, texts ...string) int {
	t.Helper()
	bad := 0
	full, err := hCompile(nil, feats, texts...)
	if err != nil {
		t.Logf("[%s] unfiltered compile fails (not in quantifier): %v", label, err)
		return 0
	}
	for _, f := range hFilters() {
		flt, err := hCompile(f.f, feats, texts...)
		if err != nil {
			t.Errorf("[%s] filter %s: compile error although unfiltered compiles: %v", label, f.name, err)
			bad++
			continue
		}
		want := hDumpMS(full, f.f)
		got := hDumpMS(flt, nil)
		if want != got {
			t.Errorf("[%s] filter %s: differs\n%s", label, f.name, hDiff(want, got))
			bad++
		}
	}
	return bad
}

const hHdr = `module m1 { namespace "urn:m1"; prefix m1; `

func TestC20ControlBasic(t *testing.T) {
	hCheck(t, "basic", nil, hHdr+`
	container c { leaf a { type string; default x; } leaf s { config false; type string; default y; }
	  container st { config false; leaf x { type int8; } }
	  list l { key k; leaf k { type string; } leaf v { config false; type string; } unique "u"; leaf u { type string; } }
	}
	opd:command show { opd:help "h"; opd:option o { type string; opd:command sub { opd:help "x"; } } opd:argument a { type string; } }
	rpc r { input { leaf i { type string; } } output { leaf o { type string; } } }
	notification n { leaf x { type string; } }
	}`)
}

func TestC20ControlProbes1(t *testing.T) {
	cases := map[string]string{
		"choice-default-shorthand-state": `container c { choice ch { default a; leaf a { config false; type string; } leaf b { type string; } } }`,
		"choice-default-shorthand-state-cont": `container c { choice ch { default a; container a { config false; leaf x { type string; } } leaf b { type string; } } }`,
		"choice-state": `container c { choice ch { config false; default a; leaf a { type string; } leaf b { type string; } } leaf z { type string; } }`,
		"choice-state-top": `choice ch { config false; default a; leaf a { type string; } leaf b { type string; } } leaf z { type string; }`,
		"choice-top-mixed": `choice ch { default a; case a { leaf a1 { config false; type string; } leaf a2 { type string; } } leaf b { config false; type string; } }`,
		"choice-mandatory-state-cases": `container c { choice ch { mandatory true; leaf a { config false; type string; } leaf b { config false; type string; } } }`,
		"choice-nested": `container c { choice o { default x; case x { choice i { default y; leaf y { config false; type string; default q; } leaf z { type string; } } } case w { leaf w1 { type string; } } } }`,
		"container-default-state-only": `container c { leaf s { config false; type string; default y; } leaf a { type string; } }`,
		"list-unique-state": `container c { list l { key k; unique "u"; leaf k { type string; } leaf u { config false; type string; } } }`,
		"list-unique-nested-state": `container c { list l { key k; unique "d/u"; leaf k { type string; } container d { config false; leaf u { type string; } } } }`,
		"list-state-keyless": `container c { list l { config false; leaf u { type string; } } leaf a { type string; } }`,
		"list-key-state": `container c { list l { key k; leaf k { config false; type string; } leaf a { type string; } } }`,
		"leafref-to-state": `container c { leaf r { config false; type leafref { path "../t"; } } leaf t { type string; } leaf r2 { type leafref { path "../s"; require-instance false; } } leaf s { config false; type string; } }`,
		"must-when-state": `container c { must "s = 'x'"; leaf s { config false; type string; } leaf a { when "../s"; type string; } container st { config false; must "../a"; leaf q { type string; } } }`,
		"opd-nested": `opd:command show { opd:help "h"; opd:command a { opd:help "h"; opd:option o { opd:help "h"; type string; opd:argument arg { opd:help "h"; type string; } } } } container c { leaf a { type string; } }`,
		"opd-option-top": `opd:option o { opd:help "h"; type string; } container c { config false; leaf a { type string; } }`,
		"rpc-mixed": `rpc r { input { container c { leaf a { type string; } choice ch { default d; leaf d { type string; } } } } output { leaf o { type string; } } } notification n { container c { leaf x { type string; } } }`,
		"presence-state": `container p { presence "x"; config false; leaf a { type string; } } container q { presence "y"; leaf s { config false; type string; } }`,
		"leaflist-state": `container c { leaf-list ll { config false; type string; min-elements 1; } leaf-list l2 { type string; max-elements 3; ordered-by user; } }`,
		"status": `container c { status deprecated; leaf a { type string; status obsolete; } leaf s { config false; type string; } }`,
		"typedef-union": `typedef t { type union { type int8; type string { length 1..3; } } default 1; } container c { leaf a { type t; } leaf s { config false; type t; } }`,
	}
	names := []string{}
	for k := range cases {
		names = append(names, k)
	}
	sort.Strings(names)
	for _, n := range names {
		hCheck(t, n, nil, hHdr+cases[n]+"}")
	}
}

func hMod(name, body string) string {
	return fmt.Sprintf(`module %s { namespace "urn:%s"; prefix %s; %s }`, name, name, name, body)
}

func TestC20ControlProbes2(t *testing.T) {
	type tc struct {
		name  string
		texts []string
	}
	cases := []tc{
		{"augment-state-into-config", []string{
			hMod("a", `container c { leaf x { type string; } container s { config false; leaf y { type string; } } choice ch { default d; leaf d { type string; } } }`),
			hMod("b", `import a { prefix a; } augment /a:c { leaf bs { config false; type string; default 1; } leaf bc { type string; } } augment /a:c/a:s { leaf z { type string; } } augment /a:c/a:ch { leaf e { config false; type string; } case f { leaf f1 { type string; } } }`),
		}},
		{"augment-when", []string{
			hMod("a", `container c { leaf x { type string; } }`),
			hMod("b", `import a { prefix a; } augment /a:c { when "a:x = 'q'"; leaf bs { config false; type string; } container bc { leaf q { type string; } } }`),
		}},
		{"augment-choice-default-other-module", []string{
			hMod("a", `container c { choice ch { default d; leaf d { type string; } } }`),
			hMod("b", `import a { prefix a; } augment /a:c/a:ch { case e { leaf e1 { config false; type string; } } }`),
		}},
		{"grouping-refine-config", []string{
			hMod("a", `grouping g { leaf x { type string; } container k { leaf y { type string; default 3; } } choice ch { default p; leaf p { type string; } leaf q { type string; } } }
			container c { uses g { refine x { config false; } refine k { config false; } } }
			container d { uses g { refine ch { config false; } } }
			container e { uses g { refine ch/p/p { config false; } } }`),
		}},
		{"deviation-config", []string{
			hMod("a", `container c { leaf x { config true; type string; } leaf y { type string; } choice ch { default p; leaf p { config true; type string; } leaf q { type string; } } }`),
			hMod("b", `import a { prefix a; } deviation /a:c/a:x { deviate replace { config false; } } deviation /a:c/a:ch/a:p/a:p { deviate replace { config false; } }`),
		}},
		{"deviation-config-add", []string{
			hMod("a", `container c { leaf x { type string; } leaf y { type string; } }`),
			hMod("b", `import a { prefix a; } deviation /a:c/a:x { deviate add { config false; } }`),
		}},
		{"deviation-not-supported", []string{
			hMod("a", `container c { leaf x { type string; } leaf y { config false; type string; } }`),
			hMod("b", `import a { prefix a; } deviation /a:c/a:y { deviate not-supported; }`),
		}},
		{"submodule", []string{
			`module a { namespace "urn:a"; prefix a; include as; container c { leaf x { type string; } uses g; } }`,
			`submodule as { belongs-to a { prefix a; } grouping g { leaf gs { config false; type string; } } container sc { config false; leaf y { type string; } } augment /a:c { leaf z { config false; type string; } } }`,
		}},
		{"opd-augment", []string{
			hMod("a", `opd:command show { opd:help "x"; opd:command ip { opd:help "y"; } }`),
			hMod("b", `import a { prefix a; } opd:augment /a:show/a:ip { opd:option route { opd:help "z"; type string; } opd:command bgp { opd:help "q"; } }`),
		}},
		{"same-name-top-two-modules", []string{
			hMod("a", `container c { leaf x { type string; } }`),
			hMod("b", `container d { config false; leaf x { type string; } }`),
		}},
		{"top-choices-two-modules", []string{
			hMod("a", `choice ca { default x; leaf x { type string; } leaf y { config false; type string; } }`),
			hMod("b", `choice cb { config false; default p; leaf p { type string; } }`),
		}},
		{"rpc-with-state", []string{
			hMod("a", `rpc r { input { leaf i { config false; type string; } leaf j { type string; } } } notification n { leaf x { config false; type string; } leaf y { type string; } }`),
		}},
		{"uses-in-choice", []string{
			hMod("a", `grouping g { leaf ga { type string; } leaf gb { config false; type string; } } container c { choice ch { default k; case k { uses g; } case m { container mm { config false; uses g; } } } }`),
		}},
		{"identityref-leafref", []string{
			hMod("a", `identity base; identity d1 { base base; } container c { leaf id { type identityref { base base; } default d1; } leaf sid { config false; type identityref { base base; } } leaf lr { config false; type leafref { path "/c/id"; } } leaf lr2 { type leafref { path "../id"; } } list l { key k; leaf k { type leafref { path "/c/id"; } } leaf v { config false; type instance-identifier; } } }`),
		}},
	}
	for _, c := range cases {
		hCheck(t, c.name, nil, c.texts...)
	}
}

func TestC20ControlReuseTrees(t *testing.T) {
	txt := hMod("a", `feature f; container c { leaf x { type string; default 1; } leaf s { config false; type string; } choice ch { default d; leaf d { type string; } leaf e { config false; type string; } } list l { key k; leaf k { type string; } uses g; } } grouping g { leaf gs { config false; type string; } leaf gc { type string; } } augment /c { leaf au { config false; type string; } }`)
	mk := func() map[string]*parse.Tree {
		tr, err := parse.Parse("a", txt, nil)
		if err != nil {
			t.Fatal(err)
		}
		return map[string]*parse.Tree{"a": tr}
	}
	fresh, err := compile.CompileParseTrees(nil, mk(), nil, false, compile.IsConfig)
	if err != nil {
		t.Fatal(err)
	}
	trees := mk()
	_, err = compile.CompileParseTrees(nil, trees, nil, false, nil)
	if err != nil {
		t.Fatal(err)
	}
	second, err := compile.CompileParseTrees(nil, trees, nil, false, compile.IsConfig)
	if err != nil {
		t.Logf("second compile of same trees (filtered) fails: %v", err)
		_, err2 := compile.CompileParseTrees(nil, trees, nil, false, nil)
		t.Logf("third compile of same trees (unfiltered): %v", err2)
		return
	}
	if a, b := hDumpMS(fresh, nil), hDumpMS(second, nil); a != b {
		t.Errorf("reuse differs:\n%s", hDiff(a, b))
	}
}

func TestC20ControlProbes3(t *testing.T) {
	type tc struct {
		name  string
		texts []string
	}
	cases := []tc{
		{"opd-in-container-via-grouping", []string{
			hMod("a", `grouping g { opd:command x { opd:help "h"; } leaf y { type string; } } container c { uses g; } container s { config false; uses g; } opd:command top { opd:help "h"; uses g; }`),
		}},
		{"case-with-when-if-feature", []string{
			hMod("a", `feature f; container c { choice ch { default d; case d { if-feature f; leaf d1 { type string; } } leaf e { config false; type string; } } }`),
		}},
		{"list-in-choice", []string{
			hMod("a", `container c { choice ch { default l; list l { config false; key k; leaf k { type string; } } container o { presence p; config false; } leaf-list ll { config false; type string; } } }`),
		}},
		{"anyxml", []string{
			hMod("a", `container c { anyxml ax { config false; } anyxml ay; choice ch { default az; anyxml az { config false; } leaf q { type string; } } }`),
		}},
	}
	for _, c := range cases {
		hCheck(t, c.name, nil, c.texts...)
	}
}

type hGen struct {
	r   *rand.Rand
	n   int
	aug []string // augmentable absolute paths in module a (prefix a:)
}

func (g *hGen) name(p string) string { g.n++; return fmt.Sprintf("%s%d", p, g.n) }

func (g *hGen) cfg(parentCfg bool) (string, bool) {
	if !parentCfg {
		if g.r.Intn(4) == 0 {
			return "config false; ", false
		}
		return "", false
	}
	switch g.r.Intn(5) {
	case 0, 1:
		return "config false; ", false
	case 2:
		return "config true; ", true
	}
	return "", true
}

func (g *hGen) leafBody() string {
	switch g.r.Intn(6) {
	case 0:
		return "type string; default dd; "
	case 1:
		return "type int8 { range 1..5; } default 3; "
	case 2:
		return "type string; mandatory true; "
	case 3:
		return "type enumeration { enum a; enum b; } "
	case 4:
		return "type union { type int8; type string; } "
	}
	return "type string; "
}

func (g *hGen) node(depth int, parentCfg bool, path string, inChoice bool, pfx string) string {
	k := g.r.Intn(9)
	if depth <= 0 && k > 2 {
		k = g.r.Intn(2)
	}
	switch k {
	case 0, 1, 7:
		n := g.name("lf")
		c, _ := g.cfg(parentCfg)
		return fmt.Sprintf("leaf %s { %s%s} ", n, c, g.leafBody())
	case 2:
		n := g.name("ll")
		c, _ := g.cfg(parentCfg)
		return fmt.Sprintf("leaf-list %s { %stype string; } ", n, c)
	case 3, 4:
		n := g.name("co")
		c, cf := g.cfg(parentCfg)
		pr := ""
		if g.r.Intn(3) == 0 {
			pr = "presence p; "
		}
		p := path + "/" + pfx + n
		if path != "" {
			g.aug = append(g.aug, p)
		}
		return fmt.Sprintf("container %s { %s%s%s} ", n, c, pr, g.kids(depth-1, cf, p, pfx))
	case 5:
		n := g.name("li")
		c, cf := g.cfg(parentCfg)
		p := path + "/" + pfx + n
		if path != "" {
			g.aug = append(g.aug, p)
		}
		return fmt.Sprintf("list %s { %skey k; leaf k { type string; } %s} ", n, c, g.kids(depth-1, cf, p, pfx))
	case 6, 8:
		if inChoice {
			n := g.name("lf")
			return fmt.Sprintf("leaf %s { type string; } ", n)
		}
		n := g.name("ch")
		c, cf := g.cfg(parentCfg)
		p := path + "/" + pfx + n
		var names []string
		body := ""
		nc := 1 + g.r.Intn(3)
		for i := 0; i < nc; i++ {
			if g.r.Intn(2) == 0 {
				cn := g.name("ca")
				names = append(names, cn)
				if path != "" {
					g.aug = append(g.aug, p+"/"+pfx+cn)
				}
				body += fmt.Sprintf("case %s { %s} ", cn, g.kids(depth-1, cf, p+"/"+pfx+cn, pfx))
			} else {
				s := g.node(depth-1, cf, p, true, pfx)
				// name of the shorthand
				f := strings.Fields(s)
				names = append(names, f[1])
				body += s
			}
		}
		def := ""
		switch g.r.Intn(3) {
		case 0:
			def = "default " + names[g.r.Intn(len(names))] + "; "
		case 1:
			def = "mandatory true; "
		}
		if path != "" {
			g.aug = append(g.aug, p)
		}
		return fmt.Sprintf("choice %s { %s%s%s} ", n, c, def, body)
	}
	return ""
}

func (g *hGen) kids(depth int, cfg bool, path string, pfx string) string {
	s := ""
	for i, n := 0, 1+g.r.Intn(3); i < n; i++ {
		s += g.node(depth, cfg, path, false, pfx)
	}
	if g.r.Intn(5) == 0 {
		s += "uses g1; "
	}
	return s
}

func TestC20ControlFuzz(t *testing.T) {
	bad := 0
	for seed := int64(1); seed <= 150 && bad < 3; seed++ {
		g := &hGen{r: rand.New(rand.NewSource(seed))}
		body := ""
		for i := 0; i < 3; i++ {
			body += g.node(3, true, "/", false, "a:")
		}
		// fix paths (leading "//")
		grp := "grouping g1 { leaf " + g.name("gl") + " { type string; } leaf " + g.name("gs") + " { config false; type string; default z; } } "
		_ = grp
		a := hMod("a", "grouping g1 { leaf gl { type string; } } "+strings.ReplaceAll(body, "uses g1; ", "")+
			`opd:command show { opd:help "h"; opd:option o { opd:help "h"; type string; } } rpc r { input { leaf i { type string; } } } notification nn { leaf x { config false; type string; } }`)
		b := "import a { prefix a; } "
		augs := g.aug
		for i := 0; i < 3 && len(augs) > 0; i++ {
			p := strings.Replace(augs[g.r.Intn(len(augs))], "//", "/", 1)
			cf := []string{"", "config false; "}[g.r.Intn(2)]
			last := p[strings.LastIndex(p, "/")+1:]
			if strings.HasPrefix(last, "a:ch") {
				b += fmt.Sprintf("augment %s { leaf %s { %stype string; } case %s { leaf %s { %stype string; } } } ", p, g.name("bl"), cf, g.name("bc"), g.name("bl"), cf)
			} else {
				b += fmt.Sprintf("augment %s { leaf %s { %stype string; default q; } container %s { %sleaf z { type string; } } } ", p, g.name("bl"), cf, g.name("bco"), cf)
			}
		}
		bad += hCheck(t, fmt.Sprintf("fuzz-%d", seed), nil, a, hMod("b", b))
		if t.Failed() && bad > 0 {
			t.Logf("module a: %s\nmodule b: %s", a, b)
		}
	}
}

func TestC20ControlProbes4(t *testing.T) {
	type tc struct {
		name  string
		texts []string
	}
	cases := []tc{
		{"deviate-add-config-case", []string{
			hMod("a", `container c { choice ch { default p; case p { leaf p1 { type string; } } leaf q { type string; } } }`),
			hMod("b", `import a { prefix a; } deviation /a:c/a:ch/a:p { deviate add { config false; } }`),
		}},
		{"deviate-add-config-shorthand", []string{
			hMod("a", `container c { choice ch { default p; leaf p { type string; } leaf q { type string; } } }`),
			hMod("b", `import a { prefix a; } deviation /a:c/a:ch/a:p { deviate add { config false; } }`),
		}},
		{"deviate-add-config-choice", []string{
			hMod("a", `container c { choice ch { default p; leaf p { type string; } leaf q { type string; } } leaf z { type string; } }`),
			hMod("b", `import a { prefix a; } deviation /a:c/a:ch { deviate add { config false; } }`),
		}},
		{"deviate-delete-default-etc", []string{
			hMod("a", `container c { choice ch { default p; leaf p { config false; type string; default x; } leaf q { type string; } } leaf z { type string; } }`),
			hMod("b", `import a { prefix a; } deviation /a:c/a:ch/a:p/a:p { deviate delete { default x; } } deviation /a:c/a:z { deviate add { config false; default 1; } }`),
		}},
	}
	for _, c := range cases {
		hCheck(t, c.name, nil, c.texts...)
	}
}

func TestC20ControlReuseTrees2(t *testing.T) {
	txt := hMod("a", `feature f; container c { leaf x { type string; default 1; } leaf s { config false; type string; } choice ch { default d; leaf d { type string; } leaf e { config false; type string; } } list l { key k; leaf k { type string; } uses g; } } grouping g { leaf gs { config false; type string; } leaf gc { type string; } } augment /c { leaf au { config false; type string; } } rpc r { input { leaf q { type string; } } }`)
	mk := func() map[string]*parse.Tree {
		tr, err := parse.Parse("a", txt, nil)
		if err != nil {
			t.Fatal(err)
		}
		return map[string]*parse.Tree{"a": tr}
	}
	fresh, err := compile.CompileParseTrees(nil, mk(), nil, false, nil)
	if err != nil {
		t.Fatal(err)
	}
	trees := mk()
	for _, f := range hFilters() {
		_, err = compile.CompileParseTrees(nil, trees, nil, false, f.f)
		if err != nil {
			t.Fatal(f.name, err)
		}
	}
	second, err := compile.CompileParseTrees(nil, trees, nil, false, nil)
	if err != nil {
		t.Fatal(err)
	}
	if a, b := hDumpMS(fresh, nil), hDumpMS(second, nil); a != b {
		t.Errorf("reuse differs:\n%s", hDiff(a, b))
	}
}


// Doubtful (derived attribute): HasDefault()/DefaultChildNames() of a surviving
// non-presence container are computed from the children that were kept, so
// they differ from what the same node reports in the unfiltered compile.
func TestC20DoubtfulContainerHasDefault(t *testing.T) {
	if os.Getenv("C20_DOUBTFUL") == "" {
		t.Skip("doubtful observation; set C20_DOUBTFUL=1 to run")
	}
	txt := hMod("a", `container c { leaf s { config false; type string; default y; } leaf a { type string; } }`)
	full, err := hCompile(nil, nil, txt)
	if err != nil {
		t.Fatal(err)
	}
	cfg, err := hCompile(compile.IsConfig, nil, txt)
	if err != nil {
		t.Fatal(err)
	}
	if a, b := full.Child("c").HasDefault(), cfg.Child("c").HasDefault(); a != b {
		t.Errorf("container c: HasDefault unfiltered=%v, IsConfig-filtered=%v", a, b)
	}
}
