package compile_test

// Hunt 2 for property C14 (config, status, if-feature and deviations shape
// the tree as specified).  Belongs in <worktree>/compile .
//
// Findings (each test FAILS on the unchanged library):
//   TestC14Hunt2_SubmoduleFeatureNeverEnabled
//   TestC14Hunt2_SubmoduleFeatureReferenceRejected
//   TestC14Hunt2_SubmoduleFeatureDefinitionsUnchecked
//   TestC14Hunt2_DeviationOfSubmoduleNodeNotListed
// Controls (pass): TestC14Hunt2_Control*

import (
	"fmt"
	"sort"
	"strings"
	"testing"

	"github.com/sdcio/yang-parser/compile"
	"github.com/sdcio/yang-parser/parse"
	"github.com/sdcio/yang-parser/schema"
)

func c14h2NoExt(parse.NodeType) map[parse.NodeType]parse.Cardinality {
	return map[parse.NodeType]parse.Cardinality{}
}

// c14h2Compile parses the texts and compiles them with exactly the named
// features ("module:feature") enabled; panics are turned into errors.
func c14h2Compile(feats []string, texts ...string) (ms schema.ModelSet, err error) {
	defer func() {
		if r := recover(); r != nil {
			err = fmt.Errorf("PANIC: %v", r)
		}
	}()
	mods := make(map[string]*parse.Tree)
	for i, tx := range texts {
		t, perr := parse.Parse(fmt.Sprintf("t%d", i), tx, c14h2NoExt)
		if perr != nil {
			return nil, fmt.Errorf("parse: %v", perr)
		}
		mods[t.Root.Argument().String()] = t
	}
	return compile.CompileParseTrees(nil, mods,
		compile.FeaturesFromNames(true, feats...), false,
		compile.Include(compile.IsConfig, compile.IncludeState(true)))
}

func c14h2Mod(name, body string) string {
	return fmt.Sprintf("module %s { namespace \"urn:%s\"; prefix %s; %s }", name, name, name, body)
}

func c14h2Sub(name, belongs, body string) string {
	return fmt.Sprintf("submodule %s { belongs-to %s { prefix %s; } %s }", name, belongs, belongs, body)
}

// names of the top level data nodes of a module, sorted
func c14h2Top(ms schema.ModelSet, mod string) string {
	var names []string
	for _, n := range ms.Modules()[mod].Children() {
		names = append(names, n.Name())
	}
	sort.Strings(names)
	return strings.Join(names, ",")
}

// ---------------------------------------------------------------------
// Finding 1: a feature that is defined in a submodule can never be
// enabled.  The nodes that depend on it are absent for every feature set,
// and Model.Features() never lists it.
// ---------------------------------------------------------------------
func TestC14Hunt2_SubmoduleFeatureNeverEnabled(t *testing.T) {
	m := c14h2Mod("m", `include s; leaf keep { type string; }`)
	s := c14h2Sub("s", "m", `feature f; leaf b { if-feature f; type string; }`)

	// "m:f" is the name of the feature (features of a module and of its
	// submodules share one namespace, RFC 6020 6.2.1); "s:f" is added in
	// case the implementation keys it by the submodule name.
	ms, err := c14h2Compile([]string{"m:f", "s:f"}, m, s)
	if err != nil {
		t.Fatalf("valid module rejected: %v", err)
	}
	if got := c14h2Top(ms, "m"); got != "b,keep" {
		t.Errorf("feature m:f enabled: top level nodes of m = %q, want \"b,keep\" "+
			"(leaf b has if-feature f, f is enabled)", got)
	}
	if got := fmt.Sprint(ms.Modules()["m"].Features()); got != "[f]" {
		t.Errorf("Features() of m = %s, want [f]", got)
	}

	// and it is absent when the feature is off (this half holds)
	ms, err = c14h2Compile(nil, m, s)
	if err != nil {
		t.Fatalf("valid module rejected: %v", err)
	}
	if got := c14h2Top(ms, "m"); got != "keep" {
		t.Errorf("feature disabled: top level nodes of m = %q, want \"keep\"", got)
	}
}

// Control: the same with the feature written in the module itself.
func TestC14Hunt2_ControlModuleFeature(t *testing.T) {
	m := c14h2Mod("m", `include s; feature f; leaf b { if-feature f; type string; } leaf keep { type string; }`)
	s := c14h2Sub("s", "m", `leaf other { type string; }`)
	ms, err := c14h2Compile([]string{"m:f"}, m, s)
	if err != nil {
		t.Fatalf("valid module rejected: %v", err)
	}
	if got := c14h2Top(ms, "m"); got != "b,keep,other" {
		t.Errorf("top level nodes of m = %q", got)
	}
	if got := fmt.Sprint(ms.Modules()["m"].Features()); got != "[f]" {
		t.Errorf("Features() of m = %s, want [f]", got)
	}
}

// ---------------------------------------------------------------------
// Finding 2: a feature defined in a submodule cannot be referenced from
// where RFC 6020 makes it visible: the module that includes the submodule,
// another submodule that includes it, a module that imports the module.
// All three are rejected with 'feature not valid'.
// ---------------------------------------------------------------------
func TestC14Hunt2_SubmoduleFeatureReferenceRejected(t *testing.T) {
	cases := []struct {
		name  string
		texts []string
		want  map[string]string // module -> top level nodes with m:f on
	}{
		{
			name: "from the including module",
			texts: []string{
				c14h2Mod("m", `include s; leaf a { if-feature f; type string; }`),
				c14h2Sub("s", "m", `feature f;`),
			},
			want: map[string]string{"m": "a"},
		},
		{
			name: "from another submodule that includes it",
			texts: []string{
				c14h2Mod("m", `include s; include s2;`),
				c14h2Sub("s", "m", `feature f;`),
				c14h2Sub("s2", "m", `include s; leaf a { if-feature f; type string; }`),
			},
			want: map[string]string{"m": "a"},
		},
		{
			name: "from an importing module",
			texts: []string{
				c14h2Mod("m", `include s;`),
				c14h2Sub("s", "m", `feature f;`),
				c14h2Mod("u", `import m { prefix m; } leaf a { if-feature m:f; type string; }`),
			},
			want: map[string]string{"u": "a"},
		},
	}
	for _, tc := range cases {
		t.Run(tc.name, func(t *testing.T) {
			ms, err := c14h2Compile([]string{"m:f"}, tc.texts...)
			if err != nil {
				t.Fatalf("valid modules rejected: %v", err)
			}
			for mod, want := range tc.want {
				if got := c14h2Top(ms, mod); got != want {
					t.Errorf("m:f enabled: top level nodes of %s = %q, want %q", mod, got, want)
				}
			}
			// feature off: node absent
			ms, err = c14h2Compile(nil, tc.texts...)
			if err != nil {
				t.Fatalf("valid modules rejected (feature off): %v", err)
			}
			for mod := range tc.want {
				if got := c14h2Top(ms, mod); got != "" {
					t.Errorf("m:f disabled: top level nodes of %s = %q, want none", mod, got)
				}
			}
		})
	}
}

// Control: typedefs of a submodule are visible in all three places, so the
// library does implement the visibility rule - just not for features.
func TestC14Hunt2_ControlSubmoduleTypedefVisible(t *testing.T) {
	_, err := c14h2Compile(nil,
		c14h2Mod("m", `include s; include s2; leaf a { type t; }`),
		c14h2Sub("s", "m", `typedef t { type string; }`),
		c14h2Sub("s2", "m", `include s; leaf b { type t; }`),
		c14h2Mod("u", `import m { prefix m; } leaf c { type m:t; }`))
	if err != nil {
		t.Fatalf("unexpected: %v", err)
	}
}

// ---------------------------------------------------------------------
// Finding 3 (same root cause as 1 and 2): feature statements written in a
// submodule are not checked at all.  A cyclic if-feature chain, a reference
// to a feature that does not exist, and a second definition of a feature
// name of the module are all accepted; each is rejected when written in
// the module.
// ---------------------------------------------------------------------
func TestC14Hunt2_SubmoduleFeatureDefinitionsUnchecked(t *testing.T) {
	cases := []struct{ name, mod, sub string }{
		{"cycle", `include s;`, `feature f { if-feature g; } feature g { if-feature f; }`},
		{"unknown reference", `include s;`, `feature f { if-feature nope; }`},
		{"duplicate of a feature of the module", `include s; feature f;`, `feature f;`},
	}
	for _, tc := range cases {
		t.Run(tc.name, func(t *testing.T) {
			_, err := c14h2Compile(nil, c14h2Mod("m", tc.mod), c14h2Sub("s", "m", tc.sub))
			if err == nil {
				t.Errorf("invalid feature definitions in a submodule were accepted")
			}
		})
	}
	// controls: the same in the module itself is rejected
	for _, body := range []string{
		`feature f { if-feature g; } feature g { if-feature f; }`,
		`feature f { if-feature nope; }`,
		`feature f; feature f;`,
	} {
		if _, err := c14h2Compile(nil, c14h2Mod("m", body)); err == nil {
			t.Errorf("control: %q accepted in a module", body)
		}
	}
}

// ---------------------------------------------------------------------
// Finding 4: a deviation whose target node is written in a submodule of m
// (or is instantiated there from a grouping, or is added by an augment
// written there) is applied, but Model.Deviations() of m does not name the
// deviating module: the entry is filed under the submodule's name.
// ---------------------------------------------------------------------
func TestC14Hunt2_DeviationOfSubmoduleNodeNotListed(t *testing.T) {
	d := c14h2Mod("d", `import m { prefix m; } deviation /m:c/m:x { deviate replace { type uint8; } }`)
	cases := []struct {
		name  string
		texts []string
	}{
		{"node written in the submodule", []string{
			c14h2Mod("m", `include s;`),
			c14h2Sub("s", "m", `container c { leaf x { type string; } }`), d}},
		{"node added by an augment written in the submodule", []string{
			c14h2Mod("m", `include s; container c { }`),
			c14h2Sub("s", "m", `augment /m:c { leaf x { type string; } }`), d}},
	}
	for _, tc := range cases {
		t.Run(tc.name, func(t *testing.T) {
			ms, err := c14h2Compile(nil, tc.texts...)
			if err != nil {
				t.Fatalf("valid modules rejected: %v", err)
			}
			x := ms.Modules()["m"].Child("c").Child("x")
			if x == nil {
				t.Fatalf("no /c/x")
			}
			if got := x.Type().Name().Local; got != "uint8" {
				t.Errorf("deviation not applied: type of x = %s", got)
			}
			if got := fmt.Sprint(ms.Modules()["m"].Deviations()); got != "[d]" {
				t.Errorf("Deviations() of m = %s, want [d] (the deviation of d was applied to a node of m)", got)
			}
		})
	}
}

// Control: target written in the module itself.
func TestC14Hunt2_ControlDeviationListed(t *testing.T) {
	ms, err := c14h2Compile(nil,
		c14h2Mod("m", `include s; container c { leaf x { type string; } }`),
		c14h2Sub("s", "m", `leaf other { type string; }`),
		c14h2Mod("d", `import m { prefix m; } deviation /m:c/m:x { deviate replace { type uint8; } }`))
	if err != nil {
		t.Fatalf("unexpected: %v", err)
	}
	if got := fmt.Sprint(ms.Modules()["m"].Deviations()); got != "[d]" {
		t.Errorf("Deviations() of m = %s, want [d]", got)
	}
}
