#!/bin/bash
# usage: run.sh <worktree>
# Copies hunt_test.go into <worktree>/compile, runs the hunt tests, removes it again.
WT="${1:?worktree path}"
HERE="$(cd "$(dirname "$0")" && pwd)"
export GOFLAGS=-mod=mod GOPROXY=off GOTOOLCHAIN=local
GO=/root/go/pkg/mod/golang.org/toolchain@v0.0.1-go1.23.11.linux-amd64/bin/go
if [ ! -f "$WT/xpath/grammars/leafref/leafref.go" ]; then
  (cd "$WT/xpath/grammars/leafref" && /tmp/tools/goyacc -o leafref.go -p leafref leafref.y && rm -f y.output)
fi
DST="$WT/compile/c14_hunt2_test.go"
cp "$HERE/hunt_test.go" "$DST"
trap 'rm -f "$DST"' EXIT
cd "$WT" && $GO test ./compile -run 'TestC14Hunt2_' -count=1 -v
