// Hunt for existing violations of property C13 (derived types narrow their
// base and inherit its default).  Belongs in the directory compile/ of the
// worktree (package compile_test).
package compile_test

import (
	"fmt"
	"strings"
	"testing"

	"github.com/sdcio/yang-parser/schema"
	"github.com/sdcio/yang-parser/testutils"
)

func h2c13Module(body string) []byte {
	return []byte("module m { namespace \"urn:m\"; prefix m;\n" + body + "\n}")
}

// h2c13Compile compiles module m (plus further complete modules) and returns
// the type of the top level leaf "l" of module m.
func h2c13Compile(body string, extra ...string) (typ schema.Type, err error) {
	bufs := [][]byte{h2c13Module(body)}
	for _, e := range extra {
		bufs = append(bufs, []byte(e))
	}
	defer func() {
		if r := recover(); r != nil {
			err = fmt.Errorf("PANIC: %v", r)
		}
	}()
	ms, err := testutils.GetFullSchema(bufs...)
	if err != nil {
		return nil, err
	}
	n := ms.Child("l")
	if n == nil {
		return nil, fmt.Errorf("no leaf l")
	}
	return n.Type(), nil
}

func h2c13Line(e error) string {
	if e == nil {
		return "<nil>"
	}
	return strings.Join(strings.Fields(e.Error()), " ")
}

func h2c13MustCompile(t *testing.T, body string, extra ...string) schema.Type {
	t.Helper()
	ty, err := h2c13Compile(body, extra...)
	if err != nil {
		t.Fatalf("valid model refused: %s\n   model: %s", h2c13Line(err), body)
	}
	return ty
}

func h2c13MustRefuse(t *testing.T, body string, extra ...string) {
	t.Helper()
	if _, err := h2c13Compile(body, extra...); err == nil {
		t.Errorf("invalid model accepted: %s", body)
	}
}

func h2c13Values(t *testing.T, ty schema.Type, acc, rej []string) {
	t.Helper()
	for _, v := range acc {
		if e := ty.Validate(nil, []string{}, v); e != nil {
			t.Errorf("value %q rejected, want accepted: %s", v, h2c13Line(e))
		}
	}
	for _, v := range rej {
		if e := ty.Validate(nil, []string{}, v); e == nil {
			t.Errorf("value %q accepted, want rejected", v)
		}
	}
}

// ---------------------------------------------------------------- findings

// F1: 'base' (the identityref restriction kind) is silently ignored when it
// is written in a type statement whose base type is not identityref.
func TestHunt2C13_BaseStatementOnNonIdentityrefType(t *testing.T) {
	h2c13MustRefuse(t, `identity i; leaf l { type string { base i; } }`)
	h2c13MustRefuse(t, `identity i; leaf l { type int8 { base i; } }`)
	h2c13MustRefuse(t, `identity i; leaf l { type boolean { base i; } }`)
	h2c13MustRefuse(t, `identity i; typedef s { type string { length 1..3; } } leaf l { type s { base i; } }`)
	// not even the identity has to exist
	h2c13MustRefuse(t, `leaf l { type string { base nosuch; } }`)
}

// control for F1: every other misplaced restriction kind is refused
func TestHunt2C13_Control_OtherMisplacedRestrictionsRefused(t *testing.T) {
	h2c13MustRefuse(t, `leaf x { type string; } leaf l { type string { path "../x"; } }`)
	h2c13MustRefuse(t, `leaf l { type string { require-instance true; } }`)
	h2c13MustRefuse(t, `leaf l { type string { range 1..2; } }`)
	h2c13MustRefuse(t, `leaf l { type int8 { length 1..2; } }`)
	h2c13MustRefuse(t, `identity i; typedef r { type identityref { base i; } } leaf l { type r { base i; } }`)
}

// F2: \p{IsBasicLatin} is replaced textually by a bracket expression, so
// inside a character class it yields '[[\x{0000}-\x{007F}]]', which Go reads
// as the class '[[\x00-\x7f]' followed by a literal ']'.
func TestHunt2C13_IsBasicLatinInsideCharClass(t *testing.T) {
	ty := h2c13MustCompile(t, `leaf l { type string { pattern '[\p{IsBasicLatin}]+'; } }`)
	h2c13Values(t, ty, []string{"a", "abc"}, []string{"a]", "é", ""})

	ty = h2c13MustCompile(t, `typedef b { type string { pattern '[^\p{IsBasicLatin}]+'; } } leaf l { type b { length 1..3; } }`)
	h2c13Values(t, ty, []string{"é", "日本"}, []string{"a", "é]", "éééé"})
}

// control for F2: outside a character class the escape works
func TestHunt2C13_Control_IsBasicLatinOutsideClass(t *testing.T) {
	ty := h2c13MustCompile(t, `leaf l { type string { pattern '\p{IsBasicLatin}+'; } }`)
	h2c13Values(t, ty, []string{"a", "abc"}, []string{"é", ""})
}

// F3: typedefs are entered into the scope their parent statement lives in,
// not the scope the parent statement opens: two sibling statements cannot
// both define a typedef of the same name (RFC 6020 5.5 scopes a typedef to
// the descendants of its parent node only).
func TestHunt2C13_SiblingScopedTypedefsOfTheSameName(t *testing.T) {
	t.Run("containers", func(t *testing.T) {
		h2c13MustCompile(t, `
	    container c { typedef a { type int8 { range "1..100"; } default 7; } leaf x { type a { range "5..9"; } } }
	    container d { typedef a { type string { length "1..3"; } } leaf y { type a; } }
	    leaf l { type int8; }`)
	})
	t.Run("groupings", func(t *testing.T) {
		ty := h2c13MustCompile(t, `
	    grouping g { typedef a { type int8 { range "1..100"; } default 7; } leaf l { type a { range "5..9"; } } }
	    grouping h { typedef a { type string { length "1..3"; } } leaf y { type a; } }
	    uses g; uses h;`)
		h2c13Values(t, ty, []string{"5", "9"}, []string{"4", "10", "abc"})
		if d, has := ty.Default(); !has || d != "7" {
			t.Errorf("default %q/%v, want 7", d, has)
		}
	})
	t.Run("rpc-input-output", func(t *testing.T) {
		h2c13MustCompile(t, `
	    rpc r { input { typedef a { type int8; } leaf x { type a; } }
	            output { typedef a { type string; } leaf y { type a; } } }
	    leaf l { type int8; }`)
	})
}

// control for F3: with different names the same model compiles
func TestHunt2C13_Control_SiblingScopedTypedefsDifferentNames(t *testing.T) {
	ty := h2c13MustCompile(t, `
	    grouping g { typedef a { type int8 { range "1..100"; } default 7; } leaf l { type a { range "5..9"; } } }
	    grouping h { typedef b { type string { length "1..3"; } } leaf y { type b; } }
	    uses g; uses h;`)
	h2c13Values(t, ty, []string{"5", "9"}, []string{"4", "10", "abc"})
}

// F4 (same root cause as F3): a typedef defined inside a statement is
// visible to the siblings of that statement.
func TestHunt2C13_TypedefUsedOutsideItsScope(t *testing.T) {
	h2c13MustRefuse(t, `container c { typedef a { type int8 { range 1..2; } } } leaf l { type a; }`)
	h2c13MustRefuse(t, `container c { typedef a { type int8 { range 1..2; } } } container d { leaf x { type a; } } leaf l { type int8; }`)
}

// F5: the default of a leafref is not held against the value space of the
// leaf it refers to (RFC 6020 9.9: "the value space of the referring node is
// the value space of the referred node").
func TestHunt2C13_LeafrefDefaultOutsideTargetValueSpace(t *testing.T) {
	h2c13MustRefuse(t, `leaf x { type int8 { range 1..10; } } leaf l { type leafref { path "../x"; } default abc; }`)
	h2c13MustRefuse(t, `leaf x { type int8 { range 1..10; } } typedef r { type leafref { path "/m:x"; } default 50; } leaf l { type r; }`)
}

// control for F5
func TestHunt2C13_Control_LeafrefDefaultInsideTargetValueSpace(t *testing.T) {
	ty := h2c13MustCompile(t, `leaf x { type int8 { range 1..10; } } typedef r { type leafref { path "/m:x"; } default 5; } leaf l { type r; }`)
	if d, has := ty.Default(); !has || d != "5" {
		t.Errorf("default %q/%v, want 5", d, has)
	}
}

// F6: the default of an instance-identifier is not checked at all.
func TestHunt2C13_InstanceIdentifierDefaultNotAPath(t *testing.T) {
	h2c13MustRefuse(t, `leaf l { type instance-identifier; default "not a path"; }`)
	h2c13MustRefuse(t, `typedef ii { type instance-identifier { require-instance false; } default "]["; } leaf l { type ii; }`)
}

// ---------------------------------------------------------------- doubtful

// D1: a builtin type name with a prefix is accepted ("x:string" where module
// o defines no such typedef, and cannot).
func TestHunt2C13_Doubtful_PrefixedBuiltinTypeName(t *testing.T) {
	o := `module o { namespace "urn:o"; prefix o; }`
	h2c13MustRefuse(t, `import o { prefix x; } leaf l { type x:string { length 1..2; } }`, o)
	h2c13MustRefuse(t, `leaf l { type m:int8; }`)
}

// D2: XSD '.' is [^\n\r]; Go's '.' only excludes \n.
func TestHunt2C13_Doubtful_DotMatchesCarriageReturn(t *testing.T) {
	ty := h2c13MustCompile(t, `leaf l { type string { pattern 'a.b'; } }`)
	h2c13Values(t, ty, []string{"axb"}, []string{"a\nb", "a\rb"})
}

// D3: regular expression syntax that only Go knows is accepted in a pattern.
func TestHunt2C13_Doubtful_GoOnlyRegexpSyntaxAccepted(t *testing.T) {
	h2c13MustRefuse(t, `leaf l { type string { pattern '(?i)abc'; } }`)
	h2c13MustRefuse(t, `leaf l { type string { pattern 'a*?'; } }`)
	h2c13MustRefuse(t, `leaf l { type string { pattern '\babc'; } }`)
	h2c13MustRefuse(t, `leaf l { type string { pattern 'a)(b'; } }`)
}

// D4: a YANG 1.0 leaf-list cannot give a default, yet it is refused when the
// (unused) default of its typedef falls outside the leaf-list's restriction.
func TestHunt2C13_Doubtful_LeafListRestrictionVersusTypedefDefault(t *testing.T) {
	h2c13MustCompile(t, `typedef a { type int8 { range 1..10; } default 5; } leaf-list ll { type a { range 1..3; } } leaf l { type int8; }`)
}
