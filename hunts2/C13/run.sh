#!/bin/sh
# usage: run.sh <worktree>
set -u
WT=${1:?usage: run.sh <worktree>}
HERE=$(cd "$(dirname "$0")" && pwd)
export GOFLAGS=-mod=mod GOPROXY=off GOTOOLCHAIN=local
GO=${GO:-/root/go/pkg/mod/golang.org/toolchain@v0.0.1-go1.23.11.linux-amd64/bin/go}
if [ ! -f "$WT/xpath/grammars/leafref/leafref.go" ]; then
  (cd "$WT/xpath/grammars/leafref" && /tmp/tools/goyacc -o leafref.go -p leafref leafref.y && rm -f y.output)
fi
cp "$HERE/hunt_test.go" "$WT/compile/hunt2_c13_test.go"
(cd "$WT" && "$GO" test ./compile/ -count=1 -v -run 'TestHunt2C13_')
rc=$?
rm -f "$WT/compile/hunt2_c13_test.go"
exit $rc
