#!/bin/sh
# usage: run.sh <worktree>
WT="${1:?worktree path}"
HERE="$(cd "$(dirname "$0")" && pwd)"
export GOFLAGS=-mod=mod GOPROXY=off GOTOOLCHAIN=local
GO="${GO:-/root/go/pkg/mod/golang.org/toolchain@v0.0.1-go1.23.11.linux-amd64/bin/go}"
DST="$WT/xpath/grammars/expr/hunt2_c02_test.go"
cp "$HERE/hunt_test.go" "$DST"
(cd "$WT" && "$GO" test ./xpath/grammars/expr/ -run 'TestC02_' -count=1 -v)
RC=$?
rm -f "$DST"
exit $RC
