package expr

// Hunt for property C02 (location paths resolve to exactly the designated
// data node).  Belongs in xpath/grammars/expr.

import (
	gocontext "context"
	"fmt"
	"hash/crc32"
	"sort"
	"strings"
	"testing"

	sdcpb "github.com/sdcio/sdc-protos/sdcpb"
	"github.com/sdcio/yang-parser/xpath"
)

// ------------------------------------------------------------ recording tree

type c02Elem struct {
	name string
	keys map[string]string
}

func (e c02Elem) String() string {
	ks := make([]string, 0, len(e.keys))
	for k := range e.keys {
		ks = append(ks, k)
	}
	sort.Strings(ks)
	s := e.name
	for _, k := range ks {
		s += "[" + k + "=" + e.keys[k] + "]"
	}
	return s
}

// canonical absolute position of a node
type c02Node []c02Elem

func (n c02Node) String() string {
	parts := make([]string, len(n))
	for i, e := range n {
		parts[i] = e.String()
	}
	return "/" + strings.Join(parts, "/")
}

type c02Tree struct {
	nav []string // raw arguments of Navigate
	ref []string // nodes FollowLeafRef was called on
	val []string // nodes GetValue was called on
}

type c02Entry struct {
	t   *c02Tree
	pos c02Node
}

func c02Raw(p *sdcpb.Path) string {
	s := "REL:"
	if p.IsRootBased {
		s = "ROOT:"
	}
	parts := []string{}
	for _, pe := range p.GetElem() {
		parts = append(parts, c02Elem{pe.GetName(), pe.GetKey()}.String())
	}
	return s + strings.Join(parts, "/")
}

func (e *c02Entry) Navigate(p *sdcpb.Path) (xpath.Entry, error) {
	e.t.nav = append(e.t.nav, c02Raw(p))
	cur := c02Node{}
	if !p.IsRootBased {
		cur = append(cur, e.pos...)
	}
	for _, pe := range p.GetElem() {
		if pe.GetName() == ".." {
			if len(cur) == 0 {
				return nil, fmt.Errorf("no parent")
			}
			cur = cur[:len(cur)-1]
			continue
		}
		cur = append(cur, c02Elem{pe.GetName(), pe.GetKey()})
	}
	return &c02Entry{t: e.t, pos: cur}, nil
}

// every node has its own value, derived from its position
func c02Value(node string) string {
	return fmt.Sprintf("v%04x", crc32.ChecksumIEEE([]byte(node))&0xffff)
}

func (e *c02Entry) GetValue() (xpath.Datum, error) {
	e.t.val = append(e.t.val, e.pos.String())
	return xpath.NewLiteralDatum(c02Value(e.pos.String())), nil
}

func (e *c02Entry) Copy() xpath.Entry { return &c02Entry{t: e.t, pos: e.pos} }

func (e *c02Entry) FollowLeafRef() (xpath.Entry, error) {
	e.t.ref = append(e.t.ref, e.pos.String())
	return &c02Entry{t: e.t, pos: c02Node{
		{"t", nil}, {"u", map[string]string{"id": c02Value("lr" + e.pos.String())}}, {"leaf", nil}}}, nil
}

func (e *c02Entry) GetSdcpbPath() *sdcpb.Path {
	p := &sdcpb.Path{IsRootBased: true}
	for _, el := range e.pos {
		var k map[string]string
		if el.keys != nil {
			k = map[string]string{}
			for a, b := range el.keys {
				k[a] = b
			}
		}
		p.Elem = append(p.Elem, sdcpb.NewPathElem(el.name, k))
	}
	return p
}

func (e *c02Entry) BreadthSearch(ctx gocontext.Context, path *sdcpb.Path) ([]xpath.Entry, error) {
	return nil, nil
}

// c02Check runs expr with the context node /ctx/l[n=1]/leaf and compares the
// nodes GetValue was asked for (in order) and the result with the expectation.
func c02Check(t *testing.T, expr string, wantVals []string) {
	t.Helper()
	mach, err := NewExprMachine(expr, nil)
	if err != nil {
		t.Fatalf("%s: does not compile: %v", expr, err)
	}
	tree := &c02Tree{}
	cur := &c02Entry{t: tree, pos: c02Node{
		{"ctx", nil}, {"l", map[string]string{"n": "1"}}, {"leaf", nil}}}
	res := xpath.NewCtxFromCurrent(gocontext.Background(), mach, cur).Run()
	if res.GetError() != nil {
		t.Errorf("%s: run error: %v\n  Navigate args: %v", expr, res.GetError(), tree.nav)
		return
	}
	if strings.Join(tree.val, " ; ") != strings.Join(wantVals, " ; ") {
		t.Errorf("%s:\n  GetValue asked for: %v\n  XPath designates:   %v\n  Navigate args:      %v",
			expr, tree.val, wantVals, tree.nav)
		return
	}
	lit, _ := res.GetLiteralResult()
	if want := c02Value(wantVals[len(wantVals)-1]); lit != want {
		t.Errorf("%s: result %q, want %q (value of %s)", expr, lit, want, wantVals[len(wantVals)-1])
	}
}

// ------------------------------------------------------------------ finding

// The operand of a key predicate is a function result; the argument of the
// function is an absolute path that itself has a [key = literal] predicate
// (on its own a fully supported path, see the control test).  The flat
// per-context counters predicateCount / predicateEvalPath do not nest: the
// key name of the inner predicate is appended as a path STEP, that bogus path
// is evaluated, and the step after the inner predicate is taken as a literal.
func TestC02_PredicateInsideFunctionArgumentOfKeyOperand(t *testing.T) {
	inner := "/m[o=1]/x"
	// minimal: one outer predicate, function result operand
	c02Check(t, "/l[n=string(/m[o='1']/x)]/y",
		[]string{inner, "/l[n=" + c02Value(inner) + "]/y"})
	// the state stays corrupted for the rest of the outer path as well
	c02Check(t, "/a/b[k=concat(/m[o='1']/x, 'z')][j='2']/c",
		[]string{inner, "/a/b[j=2][k=" + c02Value(inner) + "z]/c"})
}

// ----------------------------------------------------------------- controls

// The same expressions without the inner predicate, and the inner path on its
// own / as top-level function argument: all resolved correctly.
func TestC02_Control(t *testing.T) {
	c02Check(t, "/l[n=string(/m/x)]/y",
		[]string{"/m/x", "/l[n=" + c02Value("/m/x") + "]/y"})
	c02Check(t, "/m[o='1']/x", []string{"/m[o=1]/x"})
	c02Check(t, "string(/m[o='1']/x)", []string{"/m[o=1]/x"})
	c02Check(t, "/a/b[k=concat(/m/x, 'z')][j='2']/c",
		[]string{"/m/x", "/a/b[j=2][k=" + c02Value("/m/x") + "z]/c"})
	c02Check(t, "deref(../r)/../b[k=current()/../y][j=concat(../p, /q)]/c",
		[]string{"/ctx/l[n=1]/y",
			"/t/u[id=" + c02Value("lr/ctx/l[n=1]/r") + "]/p",
			"/q",
			"/t/u[id=" + c02Value("lr/ctx/l[n=1]/r") + "]/b[j=" +
				c02Value("/t/u[id="+c02Value("lr/ctx/l[n=1]/r")+"]/p") + c02Value("/q") +
				"][k=" + c02Value("/ctx/l[n=1]/y") + "]/c"})
}
