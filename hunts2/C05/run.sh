#!/bin/sh
# usage: run.sh <worktree>
set -u
WT="${1:?worktree path}"
HERE="$(cd "$(dirname "$0")" && pwd)"
export GOFLAGS=-mod=mod GOPROXY=off GOTOOLCHAIN=local
GO="${GO:-/root/go/pkg/mod/golang.org/toolchain@v0.0.1-go1.23.11.linux-amd64/bin/go}"
DST="$WT/xpath/grammars/expr/hunt_c05_test.go"
if [ ! -f "$WT/xpath/grammars/leafref/leafref.go" ]; then
  (cd "$WT/xpath/grammars/leafref" && /tmp/tools/goyacc -o leafref.go -p leafref leafref.y && rm -f y.output)
fi
cp "$HERE/hunt_test.go" "$DST"
OUT="$(mktemp)"
(cd "$WT" && "$GO" test -count=1 -run 'TestC05' ./xpath/grammars/expr >"$OUT" 2>&1)
RC=$?
grep -v '^time=' "$OUT"
rm -f "$OUT"
rm -f "$DST"
exit $RC
