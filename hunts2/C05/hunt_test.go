// Hunt for violations of property C05 (XPath compilation and execution are
// total and report failures faithfully).  No violation was found: all tests in
// this file are CONTROL tests and pass on the unchanged library.
// Belongs in xpath/grammars/expr (external test package expr_test).
package expr_test

import (
	gocontext "context"
	"errors"
	"fmt"
	"math/rand"
	"strings"
	"testing"
	"time"

	sdcpb "github.com/sdcio/sdc-protos/sdcpb"
	"github.com/sdcio/yang-parser/xpath"
	"github.com/sdcio/yang-parser/xpath/grammars/expr"
	"github.com/sdcio/yang-parser/xpath/grammars/leafref"
	"github.com/sdcio/yang-parser/xpath/grammars/path_eval"
	"github.com/sdcio/yang-parser/xpath/xpathtest"
	"github.com/sdcio/yang-parser/xpath/xutils"
)

var _ = xutils.EOF

// ---- fault injecting mock tree

type mockTree struct {
	calls   int
	failAt  int
	failErr error
	fired   bool
	log     []string
}

func (t *mockTree) tick(what string) error {
	t.calls++
	t.log = append(t.log, what)
	if t.failAt != 0 && t.calls == t.failAt {
		t.fired = true
		return t.failErr
	}
	return nil
}

type mockEntry struct {
	t    *mockTree
	path *sdcpb.Path
}

func (e *mockEntry) GetValue() (xpath.Datum, error) {
	if err := e.t.tick("GetValue " + e.path.ToXPath(false)); err != nil {
		return nil, err
	}
	name := ""
	if len(e.path.GetElem()) > 0 {
		name = e.path.GetElem()[len(e.path.GetElem())-1].GetName()
	}
	switch name {
	case "n":
		return xpath.NewNumDatum(42), nil
	case "t":
		return xpath.NewBoolDatum(true), nil
	case "ll":
		return xpath.NewDatumSliceDatum([]xpath.Datum{
			xpath.NewLiteralDatum("x"), xpath.NewLiteralDatum("y")}), nil
	case "e":
		return xpath.NewDatumSliceDatum([]xpath.Datum{}), nil
	case "m":
		return xpath.NewNodesetDatum([]xutils.XpathNode{}), nil
	case "a":
		return xpath.NewLiteralDatum("abc"), nil
	case "k":
		return xpath.NewNodesetDatum([]xutils.XpathNode{
			xpathtest.NewTLeaf(nil, xutils.PathType{"r"}, "mod", "l1", "5"), xpathtest.NewTLeaf(nil, xutils.PathType{"r"}, "mod", "l2", "x")}), nil
	case "b":
		return xpath.NewLiteralDatum("7"), nil
	}
	return xpath.NewLiteralDatum(name), nil
}

func (e *mockEntry) Navigate(p *sdcpb.Path) (xpath.Entry, error) {
	if err := e.t.tick("Navigate " + p.ToXPath(false)); err != nil {
		return nil, err
	}
	return &mockEntry{t: e.t, path: p}, nil
}

func (e *mockEntry) Copy() xpath.Entry { return &mockEntry{t: e.t, path: e.path} }

func (e *mockEntry) FollowLeafRef() (xpath.Entry, error) {
	if err := e.t.tick("FollowLeafRef"); err != nil {
		return nil, err
	}
	p := &sdcpb.Path{IsRootBased: true}
	p.AddPathElem(sdcpb.NewPathElem("tgt", nil))
	p.AddPathElem(sdcpb.NewPathElem("a", nil))
	return &mockEntry{t: e.t, path: p}, nil
}

func (e *mockEntry) GetSdcpbPath() *sdcpb.Path { return e.path }

func (e *mockEntry) BreadthSearch(ctx gocontext.Context, p *sdcpb.Path) ([]xpath.Entry, error) {
	if err := e.t.tick("BreadthSearch"); err != nil {
		return nil, err
	}
	return []xpath.Entry{e}, nil
}

// ---- helpers

type buildFn func(s string) (*xpath.Machine, error)

var grammars = map[string]buildFn{
	"expr": func(s string) (*xpath.Machine, error) { return expr.NewExprMachine(s, nil) },
	"exprC": func(s string) (*xpath.Machine, error) {
		return expr.NewExprMachineWithCustomFunctions(s, nil)
	},
	"leafref":  func(s string) (*xpath.Machine, error) { return leafref.NewLeafrefMachine(s, nil) },
	"patheval": func(s string) (*xpath.Machine, error) { return path_eval.NewPathEvalMachine(s, nil, "loc") },
	"exprMap": func(s string) (*xpath.Machine, error) {
		return expr.NewExprMachine(s, func(p string) (string, error) {
			if p == "bad" {
				return "", fmt.Errorf("unknown prefix bad")
			}
			return "ns-" + p, nil
		})
	},
}

// build with a watchdog and panic guard
func build(t *testing.T, g string, s string) (m *xpath.Machine, err error, bad string) {
	type out struct {
		m   *xpath.Machine
		err error
		p   interface{}
	}
	ch := make(chan out, 1)
	go func() {
		var o out
		defer func() {
			if r := recover(); r != nil {
				o.p = r
			}
			ch <- o
		}()
		o.m, o.err = grammars[g](s)
	}()
	select {
	case o := <-ch:
		if o.p != nil {
			return nil, nil, fmt.Sprintf("PANIC %v", o.p)
		}
		if (o.m == nil) == (o.err == nil) {
			return o.m, o.err, fmt.Sprintf("machine=%v err=%v", o.m, o.err)
		}
		return o.m, o.err, ""
	case <-time.After(5 * time.Second):
		return nil, nil, "HANG"
	}
}

// checks the error text quotes the expression and marks a position inside it
func checkErrText(s string, err error) string {
	msg := err.Error()
	if !strings.Contains(msg, "'"+s+"'") {
		return "expression not quoted"
	}
	// find "Got to approx [X] in '" ... "'"
	const pfx = "Got to approx [X] in '"
	i := strings.Index(msg, pfx)
	if i < 0 {
		return "no position marker"
	}
	rest := msg[i+len(pfx):]
	// must be  P + " [X] " + S + "'\n" with P+S == s
	for k := 0; k <= len(s); k++ {
		if strings.HasPrefix(rest, s[:k]+" [X] "+s[k:]+"'") {
			return ""
		}
	}
	return "marker does not split the expression: " + rest
}

var soupTokens = []string{
	"a", "b", "n", "t", "ll", "e", "m", "x:a", "bad:a", "x:*", "*", "/", "//", "..", ".", "[", "]",
	"=", "!=", "<", "<=", ">", ">=", " and ", " or ", "+", "-", " - ", " div ", " mod ", "|",
	"(", ")", ",", "'s'", "\"q\"", "''", "1", "0", "2.5", ".5", "1e3", "current()", "deref(", "text()",
	"count(", "string(", "not(", "true()", "false()", "position()", "last()", "sum(", "number(",
	"concat(", "substring(", "contains(", "re-match(", "boolean(", "local-name(", "translate(",
	"normalize-space(", "string-length(", "floor(", "round(", "starts-with(", "substring-after(",
	"node()", "comment()", "child::", "parent::", "self::", "@", "::", ":", "!", " ", "\t", "\n",
	"and", "or", "div", "mod", "\xff", "\x00", "é", "", "�", "$", "#", "{", "'", "\"",
	"processing-instruction('x')", "foo(", "-", "--", "xml", "XMLa", "a.b", "a-b", "_", "9a", "1.2.3", "1e", "e1",
}

func soup(r *rand.Rand, n int) string {
	var b strings.Builder
	for i := 0; i < n; i++ {
		b.WriteString(soupTokens[r.Intn(len(soupTokens))])
	}
	return b.String()
}

func TestC05ControlCompileSoup(t *testing.T) {
	r := rand.New(rand.NewSource(1))
	seen := map[string]bool{}
	for i := 0; i < 60000; i++ {
		s := soup(r, 1+r.Intn(8))
		if i%7 == 0 {
			// raw bytes
			bs := make([]byte, 1+r.Intn(6))
			for j := range bs {
				bs[j] = byte(r.Intn(256))
			}
			s = string(bs)
		}
		if s == "" {
			continue
		}
		for g := range grammars {
			_, err, bad := build(t, g, s)
			if bad != "" {
				key := g + bad
				if !seen[key] {
					seen[key] = true
					t.Errorf("%s %q: %s", g, s, bad)
				}
				continue
			}
			if err != nil {
				if p := checkErrText(s, err); p != "" {
					key := g + p[:10] + err.Error()[len(err.Error())/2:]
					_ = key
					k2 := g + p[:10]
					if !seen[k2] || len(s) < 4 && !seen[g+s] {
						seen[k2] = true
						seen[g+s] = true
						t.Errorf("%s %q: %s\n%s", g, s, p, err)
					}
				}
			}
		}
	}
}

// ---- run

var huntDebug, huntValidate bool

type runOut struct {
	res *xpath.Result
	p   interface{}
}

func runEntry(m *xpath.Machine, tree *mockTree, debug, validate bool) (o runOut, hang bool) {
	ch := make(chan runOut, 1)
	go func() {
		var o runOut
		defer func() {
			if r := recover(); r != nil {
				o.p = r
			}
			ch <- o
		}()
		cur := &mockEntry{t: tree, path: func() *sdcpb.Path {
			p := &sdcpb.Path{IsRootBased: true}
			p.AddPathElem(sdcpb.NewPathElem("top", nil))
			p.AddPathElem(sdcpb.NewPathElem("a", nil))
			return p
		}()}
		ctx := xpath.NewCtxFromCurrent(gocontext.Background(), m, cur)
		ctx.SetDebug(debug).SetValidation(validate)
		o.res = ctx.Run()
	}()
	select {
	case o = <-ch:
		return o, false
	case <-time.After(5 * time.Second):
		return runOut{}, true
	}
}

// returns problem description or ""
func checkRun(m *xpath.Machine, failAt int) (string, int) {
	sentinel := errors.New("DATA-TREE-FAULT-77")
	tree := &mockTree{failAt: failAt, failErr: sentinel}
	o, hang := runEntry(m, tree, huntDebug, huntValidate)
	if hang {
		return "HANG", tree.calls
	}
	if o.p != nil {
		return fmt.Sprintf("PANIC escaped: %v", o.p), tree.calls
	}
	res := o.res
	if res == nil {
		return "nil result", tree.calls
	}
	// never neither
	var prob string
	func() {
		defer func() {
			if r := recover(); r != nil {
				prob = fmt.Sprintf("PANIC in getters: %v", r)
			}
		}()
		_, eb := res.GetBoolResult()
		_, en := res.GetNumResult()
		_, el := res.GetLiteralResult()
		_, _ = res.GetNodeSetResult()
		_ = res.PrintResult()
		if res.GetError() == nil {
			if eb != nil || en != nil || el != nil {
				prob = fmt.Sprintf("neither: no error but getters fail: %v", eb)
			}
		} else {
			if eb == nil || en == nil || el == nil {
				prob = "both error and value"
			}
		}
	}()
	if prob != "" {
		return prob, tree.calls
	}
	if tree.fired {
		if res.GetError() == nil {
			b, _ := res.GetLiteralResult()
			return fmt.Sprintf("fault at call %d (%s) swallowed: value %q", failAt, tree.log[failAt-1], b), tree.calls
		}
		if !strings.Contains(res.GetError().Error(), sentinel.Error()) {
			return fmt.Sprintf("fault at call %d (%s) replaced by: %v", failAt, tree.log[failAt-1], res.GetError()), tree.calls
		}
		if !errors.Is(res.GetError(), sentinel) {
			return fmt.Sprintf("fault at call %d (%s) lost identity: %v", failAt, tree.log[failAt-1], res.GetError()), tree.calls
		}
	}
	return "", tree.calls
}

func TestC05ControlRunSoupFaults(t *testing.T) {
	r := rand.New(rand.NewSource(2))
	seen := map[string]bool{}
	nMach := 0
	for i := 0; i < 100000; i++ {
		s := soup(r, 1+r.Intn(9))
		if s == "" {
			continue
		}
		for _, g := range []string{"expr", "leafref", "patheval"} {
			m, _, bad := build(t, g, s)
			if bad != "" || m == nil {
				continue
			}
			nMach++
			p, calls := checkRun(m, 0)
			if p != "" {
				k := g + p
				if len(k) > 40 {
					k = k[:40]
				}
				if !seen[k] {
					seen[k] = true
					t.Errorf("%s %q: %s", g, s, p)
				}
			}
			for f := 1; f <= calls; f++ {
				p, _ := checkRun(m, f)
				if p != "" {
					k := g + p
					if len(k) > 40 {
						k = k[:40]
					}
					if !seen[k] {
						seen[k] = true
						t.Errorf("%s %q: %s", g, s, p)
					}
				}
			}
		}
	}
	t.Logf("machines run: %d", nMach)
}

// ---- structured generator

var huntIters = 60000

type gen struct{ r *rand.Rand }

func (g *gen) pick(xs ...string) string { return xs[g.r.Intn(len(xs))] }

func (g *gen) name() string { return g.pick("a", "b", "n", "t", "ll", "e", "m", "k", "x:a") }

func (g *gen) step(d int) string {
	switch g.r.Intn(8) {
	case 0:
		return ".."
	case 1:
		return "."
	}
	s := g.name()
	np := 0
	if d > 0 {
		switch g.r.Intn(5) {
		case 0:
			np = 1
		case 1:
			np = 2
		}
	}
	for i := 0; i < np; i++ {
		s += "[" + g.pred(d-1) + "]"
	}
	return s
}

func (g *gen) pred(d int) string {
	switch g.r.Intn(8) {
	case 0:
		return g.expr(d)
	case 1:
		return "text()=" + g.expr(d)
	case 2:
		return g.pick("1", "position()=1", "last()", ". = 'x'", ".='x'")
	case 3:
		return g.name() + "!=" + g.expr(d)
	case 4:
		return g.expr(d) + "=" + g.name()
	}
	return g.name() + "=" + g.expr(d)
}

func (g *gen) relpath(d int) string {
	n := 1 + g.r.Intn(3)
	s := g.step(d)
	for i := 1; i < n; i++ {
		s += "/" + g.step(d)
	}
	return s
}

func (g *gen) path(d int) string {
	switch g.r.Intn(8) {
	case 0:
		return "/" + g.relpath(d)
	case 1:
		return "current()/" + g.relpath(d)
	case 2:
		return "deref(" + g.path(d-1) + ")/" + g.relpath(d)
	case 3:
		return "deref(" + g.path(d-1) + ")"
	case 4:
		return "current()"
	case 5:
		return "/"
	}
	return g.relpath(d)
}

func (g *gen) expr(d int) string {
	if d <= 0 {
		return g.pick("1", "'s'", "a", "../b", "current()/../k", "true()", "ll", "n")
	}
	switch g.r.Intn(16) {
	case 0:
		return g.expr(d-1) + g.pick(" = ", " != ", " < ", " >= ", " and ", " or ", " + ", " - ", " * ", " div ", " mod ", " | ") + g.expr(d-1)
	case 1:
		return "(" + g.expr(d-1) + ")"
	case 2:
		return "-" + g.expr(d-1)
	case 3:
		return g.pick("string", "number", "boolean", "not", "count", "sum", "local-name", "string-length", "normalize-space", "floor", "round", "ceiling") + "(" + g.expr(d-1) + ")"
	case 4:
		return g.pick("concat", "contains", "starts-with", "re-match", "substring-after", "substring-before") + "(" + g.expr(d-1) + "," + g.expr(d-1) + ")"
	case 5:
		return g.pick("substring", "translate") + "(" + g.expr(d-1) + "," + g.expr(d-1) + "," + g.expr(d-1) + ")"
	case 6:
		return g.path(d) + "/text()"
	case 7:
		return "(" + g.expr(d-1) + ")[" + g.pred(d-1) + "]"
	case 8:
		return "(" + g.expr(d-1) + ")/" + g.relpath(d-1)
	case 9:
		return g.pick("1", "'s'", "\"\"", "0", "1 div 0", "position()", "last()", "text()")
	}
	return g.path(d)
}

func TestC05ControlRunStructuredFaults(t *testing.T) {
	r := rand.New(rand.NewSource(3))
	g := &gen{r}
	seen := map[string]bool{}
	nMach, nFault := 0, 0
	for i := 0; i < huntIters; i++ {
		s := g.expr(1 + r.Intn(3))
		for _, gr := range []string{"expr", "exprMap", "patheval"} {
			m, err, bad := build(t, gr, s)
			if bad != "" {
				t.Errorf("%s %q: %s", gr, s, bad)
				continue
			}
			if err != nil {
				if p := checkErrText(s, err); p != "" && !seen["ct"+gr+p[:8]] {
					seen["ct"+gr+p[:8]] = true
					t.Errorf("%s %q: %s\n%v", gr, s, p, err)
				}
				continue
			}
			nMach++
			p, calls := checkRun(m, 0)
			if p != "" {
				k := gr + p
				if len(k) > 40 {
					k = k[:40]
				}
				if !seen[k] {
					seen[k] = true
					t.Errorf("%s %q: %s", gr, s, p)
				}
			}
			for f := 1; f <= calls; f++ {
				nFault++
				p, _ := checkRun(m, f)
				if p != "" {
					k := gr + p
					if len(k) > 40 {
						k = k[:40]
					}
					if !seen[k] {
						seen[k] = true
						t.Errorf("%s %q: %s", gr, s, p)
					}
				}
			}
		}
	}
	t.Logf("machines run: %d faults: %d", nMach, nFault)
}

func runEntry2(m *xpath.Machine, tree *mockTree) (runOut, bool) {
	cur := &mockEntry{t: tree, path: &sdcpb.Path{IsRootBased: true}}
	return runOut{res: xpath.NewCtxFromCurrent(gocontext.Background(), m, cur).Run()}, false
}

func TestC05ControlSpecialRunes(t *testing.T) {
	r := rand.New(rand.NewSource(11))
	special := []rune{0xF000, 0xF002, 0xF003, 0xF010, 0xF01F, 0xE000, 0xE002, 0xE003, 0xE010, 0xFFFD, 0xFFFE, 0xFFFF, 0x10FFFF, 0x10000, 0xEFFFF, 0xF0000, 0xB7, 0x300, 0x2028, 0x85, 0xA0, 0x7F, 0x1, 0x1F, 0xD7FF, 0x37E, 0xD7, 0xF7}
	pieces := []string{"a", "'", "\"", "/", "[", "]", "=", "(", ")", ":", " ", ".", "1", "-", "*", "not(", "\xed\xa0\x80", "\xc0\x80", "\xf4\x90\x80\x80", "\xe2\x82", "\xef\xbf"}
	for i := 0; i < 60000; i++ {
		n := 1 + r.Intn(6)
		s := ""
		for j := 0; j < n; j++ {
			if r.Intn(2) == 0 {
				s += string(special[r.Intn(len(special))])
			} else {
				s += pieces[r.Intn(len(pieces))]
			}
		}
		for g := range grammars {
			m, err, bad := build(t, g, s)
			if bad != "" {
				t.Fatalf("%s %q: %s", g, s, bad)
			}
			if err != nil {
				if p := checkErrText(s, err); p != "" {
					t.Fatalf("%s %q: %s\n%v", g, s, p, err)
				}
			} else if g != "exprC" && g != "exprMap" {
				if p, _ := checkRun(m, 0); p != "" {
					t.Fatalf("%s %q: run %s", g, s, p)
				}
				if p, _ := checkRun(m, 1); p != "" {
					t.Fatalf("%s %q: run %s", g, s, p)
				}
			}
		}
	}
}
