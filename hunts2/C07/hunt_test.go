package parse

// Hunt for property C07 (YANG parsing is total and leaves nothing running).
// Belongs in directory parse/ of the worktree.

import (
	"fmt"
	"os"
	"os/exec"
	"runtime"
	"strings"
	"testing"
	"time"
)

const c07ChildEnv = "C07_HUNT_PLUS_CHILD"

// Child half of TestC07PlusChainStackOverflow: parses the text in a process
// of its own, because a Go stack overflow cannot be recovered.
func c07PlusChild(n int) {
	txt := "a ''" + strings.Repeat("+''", n) + ";"
	tr, err := Parse("plus.yang", txt, nil)
	switch {
	case err == nil && tr != nil && tr.Root != nil:
		fmt.Println("C07-CHILD-OK parsed")
	case err != nil && strings.Contains(err.Error(), "plus.yang:"):
		fmt.Println("C07-CHILD-OK refused: " + err.Error()[:min(len(err.Error()), 120)])
	default:
		fmt.Printf("C07-CHILD-BAD tree=%v err=%v\n", tr != nil, err)
	}
}

func TestMain(m *testing.M) {
	if v := os.Getenv(c07ChildEnv); v != "" {
		var n int
		fmt.Sscan(v, &n)
		c07PlusChild(n)
		os.Exit(0)
	}
	os.Exit(m.Run())
}

// FINDING.  The argument parser recurses once per '+' of a string
// concatenation (argumentQuoted -> argumentConcatenate -> argumentQuoted ...)
// without any bound.  A 9 MB text  a ''+''+''+ ... ;  (3,000,000 pieces;
// 2,000,000 = 6 MB already suffice) exhausts Go's 1 GB goroutine stack limit:
// "fatal error: stack overflow", which no recover() catches - the process
// that called parse.Parse dies.  (The sibling recursion per '{' has been
// bounded by maxBlockDepth; this one has not.)
func TestC07PlusChainStackOverflow(t *testing.T) {
	if testing.Short() {
		t.Skip("needs about 1 GB of memory in a child process")
	}
	cmd := exec.Command(os.Args[0], "-test.run=^$")
	cmd.Env = append(os.Environ(), c07ChildEnv+"=3000000")
	out, err := cmd.CombinedOutput()
	s := string(out)
	if err != nil || !strings.Contains(s, "C07-CHILD-OK") {
		if len(s) > 400 {
			s = s[:400]
		}
		t.Fatalf("parse.Parse on  a ''+''+...;  (3,000,000 pieces, 9 MB) did not return: %v\n%s", err, s)
	}
}

// Control: a moderate chain is fine and concatenates in order.
func TestC07PlusChainControl(t *testing.T) {
	txt := "a 'x0'" + strings.Repeat(" + \"y\" +\n'z'", 1000) + " { b; }"
	tr, err := Parse("plusok.yang", txt, nil)
	if err != nil {
		t.Fatal(err)
	}
	want := "x0" + strings.Repeat("yz", 1000)
	if tr.Root == nil || tr.Root.Argument().String() != want {
		t.Fatalf("wrong argument")
	}
	if g := c07LexGoroutines(); g != 0 {
		t.Fatalf("%d lexer goroutines left", g)
	}
}

func c07LexGoroutines() int {
	c := 0
	for i := 0; i < 50; i++ {
		buf := make([]byte, 1<<20)
		n := runtime.Stack(buf, true)
		c = strings.Count(string(buf[:n]), "parse.(*lexer).run")
		if c == 0 {
			return 0
		}
		time.Sleep(2 * time.Millisecond)
	}
	return c
}

// Control: every truncation of a small module returns nil / a positioned
// error naming the input, without panic, in time, with no goroutine left.
func TestC07TruncationsControl(t *testing.T) {
	const text = "module m {\n namespace \"urn:m\"; prefix m;\n description \"a\n   b\\n\" + 'c'; /* x */ // y\n" +
		" container c { choice ch { leaf l { type string { length \"1..2\"; } } } }\n}\n"
	for i := 0; i <= len(text); i++ {
		done := make(chan string, 1)
		go func() {
			defer func() {
				if p := recover(); p != nil {
					done <- fmt.Sprint("panic: ", p)
				}
			}()
			tr, err := Parse("100%.yang", text[:i], nil)
			switch {
			case err == nil && (tr == nil || tr.Root == nil):
				done <- "nil error without root"
			case err != nil && !strings.Contains(err.Error(), "100%.yang:"):
				done <- "error does not name the input: " + err.Error()
			default:
				done <- ""
			}
		}()
		select {
		case v := <-done:
			if v != "" {
				t.Fatalf("cut at %d: %s", i, v)
			}
		case <-time.After(10 * time.Second):
			t.Fatalf("cut at %d: no return", i)
		}
	}
	if g := c07LexGoroutines(); g != 0 {
		t.Fatalf("%d lexer goroutines left", g)
	}
}

// DOUBTFUL (run with C07_HUNT_DOUBTFUL=1): quadratic running time, same class
// as the already recorded quadratic string building but at other code sites.
func TestC07DoubtfulQuadraticChoice(t *testing.T) {
	if os.Getenv("C07_HUNT_DOUBTFUL") == "" {
		t.Skip("doubtful; set C07_HUNT_DOUBTFUL=1")
	}
	var b strings.Builder
	b.WriteString("choice c {")
	for i := 0; i < 16000; i++ {
		fmt.Fprintf(&b, " leaf l%d { type string; }", i)
	}
	b.WriteString(" }")
	st := time.Now()
	_, err := Parse("choice.yang", b.String(), nil)
	if d := time.Since(st); err != nil || d > 2*time.Second {
		t.Fatalf("%d bytes, 16000 shorthand cases: %v (err %v); 8000 cases take a quarter of that", b.Len(), d, err)
	}
}

func TestC07DoubtfulQuadraticOneLine(t *testing.T) {
	if os.Getenv("C07_HUNT_DOUBTFUL") == "" {
		t.Skip("doubtful; set C07_HUNT_DOUBTFUL=1")
	}
	txt := "a {" + strings.Repeat(` b "x\ny";`, 40000) + " }"
	st := time.Now()
	_, err := Parse("oneline.yang", txt, nil)
	if d := time.Since(st); err != nil || d > 2*time.Second {
		t.Fatalf("%d bytes on one line, 40000 strings with \\n: %v (err %v); 20000 take a quarter of that", len(txt), d, err)
	}
}
