#!/bin/sh
# usage: run.sh <worktree>   (set C07_HUNT_DOUBTFUL=1 to run the doubtful timing tests too)
set -u
WT="${1:?worktree path}"
HERE="$(cd "$(dirname "$0")" && pwd)"
export GOFLAGS=-mod=mod GOPROXY=off GOTOOLCHAIN=local
GO="${GO:-/root/go/pkg/mod/golang.org/toolchain@v0.0.1-go1.23.11.linux-amd64/bin/go}"
if [ ! -f "$WT/xpath/grammars/leafref/leafref.go" ]; then
  (cd "$WT/xpath/grammars/leafref" && /tmp/tools/goyacc -o leafref.go -p leafref leafref.y && rm -f y.output)
fi
cp "$HERE/hunt_test.go" "$WT/parse/c07_hunt2_test.go"
(cd "$WT" && "$GO" test ./parse -run 'TestC07' -count=1 -v)
rc=$?
rm -f "$WT/parse/c07_hunt2_test.go"
exit $rc
