#!/bin/sh
# usage: run.sh <worktree>
WT="${1:?worktree path}"
HERE="$(cd "$(dirname "$0")" && pwd)"
export GOFLAGS=-mod=mod GOPROXY=off GOTOOLCHAIN=local
GO=/root/go/pkg/mod/golang.org/toolchain@v0.0.1-go1.23.11.linux-amd64/bin/go
DST="$WT/xpath/grammars/expr/hunt_c03_test.go"
if [ ! -f "$WT/xpath/grammars/leafref/leafref.go" ]; then
  (cd "$WT/xpath/grammars/leafref" && /tmp/tools/goyacc -o leafref.go -p leafref leafref.y >/dev/null && rm -f y.output)
fi
cp "$HERE/hunt_test.go" "$DST"
(cd "$WT" && "$GO" test ./xpath/grammars/expr/ -run 'TestHuntC03' -count=1 -v)
rc=$?
rm -f "$DST"
exit $rc
