// Hunt for violations of property C03 (operator precedence, associativity,
// whitespace).  Belongs in xpath/grammars/expr (package expr).
package expr

import (
	gocontext "context"
	"fmt"
	"os"
	"sort"
	"strconv"
	"strings"
	"testing"

	sdcpb "github.com/sdcio/sdc-protos/sdcpb"
	"github.com/sdcio/yang-parser/xpath"
)

func h2c03Map(p string) (string, error) { return "ns-" + p, nil }

func h2c03Compile(s string) (string, error) {
	m, err := NewExprMachine(s, h2c03Map)
	if err != nil {
		return "", err
	}
	return m.PrintMachine(), nil
}

// h2c03Same: both variants must compile, and to the same program.
func h2c03Same(t *testing.T, plain, variant string) {
	t.Helper()
	p0, e0 := h2c03Compile(plain)
	if e0 != nil {
		t.Fatalf("reference expression %q does not compile: %v", plain, e0)
	}
	p1, e1 := h2c03Compile(variant)
	if e1 != nil {
		t.Errorf("%q compiles but the equivalent %q does not: %v", plain, variant, e1)
		return
	}
	if p0 != p1 {
		t.Errorf("%q and %q compile to different programs:\n%s\n%s", plain, variant, p0, p1)
	}
}

// ---------------------------------------------------------------------
// FINDING: redundant parentheses around the argument of deref() are a
// syntax error (the grammar only takes a bare LocationPath there), although
// XPath 1.0 [16]/[17] FunctionCall/Argument ::= Expr and [15] PrimaryExpr ::=
// '(' Expr ')' make deref((../a)) the same expression as deref(../a).
func TestHuntC03DerefArgumentInParentheses(t *testing.T) {
	h2c03Same(t, "deref(../a)/../b = 1", "deref((../a))/../b = 1")
	h2c03Same(t, "deref(a)", "deref((a))")
	h2c03Same(t, "deref(current())/../b", "deref( ( current() ) )/../b")
}

// Control: for every other function the same insertion is fine.
func TestHuntC03ControlFunctionArgumentInParentheses(t *testing.T) {
	h2c03Same(t, "count(../a) = 1", "count((../a)) = 1")
	h2c03Same(t, "not(a = 1 or b = 2 and c)", "not(((a = 1) or ((b = 2) and c)))")
	h2c03Same(t, "deref(../a)/../b = 1", "deref ( .. / a ) / .. / b\n=\t1")
}

// Control: the precedence chain itself, and whitespace at token boundaries.
func TestHuntC03ControlPrecedenceChain(t *testing.T) {
	h2c03Same(t,
		"a or b and c = d != e < f <= g > h >= i + j - k * l div m mod -n | o",
		"a or (b and ((c = d) != ((((e < f) <= g) > h) >= ((i + j) - (((k * l) div m) mod (-(n | o)))))))")
	h2c03Same(t, "a or b and c=d", "a\tor\nb\r\nand  c =d ")
	h2c03Same(t, "div div div div div", "((div)div(div))div(div)")
	h2c03Same(t, "*[* * *]", "*[(*)*(*)]")
	h2c03Same(t, "1 - - 1", "1--1")
}

// ---------------------------------------------------------------------
// DOUBTFUL items: only run with HUNT_DOUBTFUL=1.

type h2c03Ent struct {
	path string
	vals map[string]string
}

func h2c03Path(base string, p *sdcpb.Path) string {
	segs := []string{}
	if !p.GetIsRootBased() && base != "" {
		segs = strings.Split(base, "/")
	}
	for _, e := range p.GetElem() {
		if e.GetName() == ".." {
			if len(segs) > 0 {
				segs = segs[:len(segs)-1]
			}
			continue
		}
		s := e.GetName()
		ks := []string{}
		for k, v := range e.GetKey() {
			ks = append(ks, k+"="+v)
		}
		sort.Strings(ks)
		for _, k := range ks {
			s += "[" + k + "]"
		}
		segs = append(segs, s)
	}
	return strings.Join(segs, "/")
}

func (f *h2c03Ent) GetValue() (xpath.Datum, error) {
	v, ok := f.vals[f.path]
	if !ok {
		return xpath.NewNodesetDatum(nil), nil
	}
	if n, err := strconv.ParseFloat(v, 64); err == nil {
		return xpath.NewNumDatum(n), nil
	}
	return xpath.NewLiteralDatum(v), nil
}
func (f *h2c03Ent) Navigate(p *sdcpb.Path) (xpath.Entry, error) {
	return &h2c03Ent{path: h2c03Path(f.path, p), vals: f.vals}, nil
}
func (f *h2c03Ent) Copy() xpath.Entry                    { return f }
func (f *h2c03Ent) FollowLeafRef() (xpath.Entry, error) { return nil, fmt.Errorf("no leafref") }
func (f *h2c03Ent) GetSdcpbPath() *sdcpb.Path           { return &sdcpb.Path{} }
func (f *h2c03Ent) BreadthSearch(gocontext.Context, *sdcpb.Path) ([]xpath.Entry, error) {
	return nil, nil
}

func h2c03Run(t *testing.T, s string) string {
	t.Helper()
	m, err := NewExprMachine(s, h2c03Map)
	if err != nil {
		return "compile error: " + err.Error()
	}
	vals := map[string]string{"c/a": "3", "c/a/b": "5", "a": "7", "c/l[k=x]/v": "11"}
	res := xpath.NewCtxFromCurrent(gocontext.Background(), m, &h2c03Ent{path: "c", vals: vals}).Run()
	return strings.TrimSpace(res.PrintResult())
}

func h2c03SameResult(t *testing.T, plain, variant string) {
	t.Helper()
	r0, r1 := h2c03Run(t, plain), h2c03Run(t, variant)
	if r0 != r1 {
		t.Errorf("%q => %s\n%q => %s", plain, r0, variant, r1)
	}
}

// Doubtful: '/' is not in the precedence list of the property.  (a)/b is
// PathExpr ::= FilterExpr '/' RelativeLocationPath and selects the same
// nodes as a/b, but the library evaluates the parenthesised prefix to a
// value at once and the run ends with "Storing result when stack is not
// empty".
func TestHuntC03DoubtfulParenthesisedPathPrefix(t *testing.T) {
	if os.Getenv("HUNT_DOUBTFUL") == "" {
		t.Skip("doubtful; set HUNT_DOUBTFUL=1")
	}
	h2c03SameResult(t, "a/b", "(a)/b")
	h2c03SameResult(t, "current()/a", "(current())/a")
	h2c03SameResult(t, "../a", "(..)/a")
	h2c03SameResult(t, "l[k='x']/v", "(l[k='x'])/v")
	h2c03SameResult(t, "l[k='x']/v", "(l)[k='x']/v")
}

// Doubtful: "()" is accepted as a primary expression that pushes nothing;
// "1+()" compiles (and fails when run with a stack underflow).  XPath 1.0
// [15] PrimaryExpr has no empty parentheses.
func TestHuntC03DoubtfulEmptyParentheses(t *testing.T) {
	if os.Getenv("HUNT_DOUBTFUL") == "" {
		t.Skip("doubtful; set HUNT_DOUBTFUL=1")
	}
	for _, s := range []string{"()", "1+()", "a[()]"} {
		if _, err := h2c03Compile(s); err == nil {
			t.Errorf("%q compiles", s)
		}
	}
}
