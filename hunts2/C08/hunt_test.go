package parse

import (
	"math/rand"
	"strings"
	"testing"
)

// ---- reference decoder (RFC 6020 6.1.3) ----

func c08RefCol(lead string) int {
	c := 0
	for _, r := range lead {
		if r == '\t' {
			c += 8
		} else {
			c++
		}
	}
	return c
}

// raw: text between the double quotes, col: number of columns before the
// first character after the opening quote.
func c08RefDouble(raw string, col int) string {
	lines := strings.Split(raw, "\n")
	for i := range lines {
		ln := lines[i]
		if i > 0 {
			w := 0
			j := 0
			for j < len(ln) && w < col {
				if ln[j] == ' ' {
					w++
				} else if ln[j] == '\t' {
					w += 8
				} else {
					break
				}
				j++
			}
			ln = ln[j:]
			if w > col {
				ln = strings.Repeat(" ", w-col) + ln
			}
		}
		if i < len(lines)-1 {
			cr := ""
			if strings.HasSuffix(ln, "\r") {
				cr = "\r"
				ln = ln[:len(ln)-1]
			}
			ln = strings.TrimRight(ln, " \t") + cr
		}
		lines[i] = ln
	}
	s := strings.Join(lines, "\n")
	// escapes
	var b strings.Builder
	for i := 0; i < len(s); i++ {
		if s[i] == '\\' && i+1 < len(s) {
			switch s[i+1] {
			case 'n':
				b.WriteByte('\n')
				i++
				continue
			case 't':
				b.WriteByte('\t')
				i++
				continue
			case '"':
				b.WriteByte('"')
				i++
				continue
			case '\\':
				b.WriteByte('\\')
				i++
				continue
			}
		}
		b.WriteByte(s[i])
	}
	return b.String()
}

func c08ParseArg(src string) (string, error) {
	tr, err := Parse("x", src, nil)
	if err != nil {
		return "", err
	}
	return tr.Root.Argument().String(), nil
}


// ---- doubtful: residual of known item 2 (unquoted argument beginning with '+') ----

// A '+' that is the WHOLE unquoted argument is still lexed as the
// concatenation sign: "x:y +;" fails to parse, although RFC 6020 6.1.3 allows
// "+" as an unquoted string (no blank, quote, ';', '{', '}' or comment
// sequence in it) and the property wants unquoted text reported verbatim.
func TestC08_Doubtful_LonePlusUnquotedArgument(t *testing.T) {
	for _, src := range []string{
		"x:y +;",
		"x:y + ;",
		"x:y +{}",
		"x:y\n+\n;",
		"x:y + /* c */ ;",
		"module m { namespace \"urn:m\"; prefix m; leaf l { type string; default +; } }",
	} {
		tr, err := Parse("x", src, nil)
		if err != nil {
			t.Errorf("%q: parse error %v, want argument \"+\"", src, err)
			continue
		}
		n := tr.Root
		if n.Statement() == "module" {
			n = n.ChildrenByType(NodeLeaf)[0].ChildrenByType(NodeDefault)[0]
		}
		if got := n.Argument().String(); got != "+" {
			t.Errorf("%q: argument %q, want \"+\"", src, got)
		}
	}
}

// ---- controls (pass on the unchanged library) ----

func TestC08_Control_Vectors(t *testing.T) {
	for _, c := range []struct{ src, want string }{
		{"x:y +5;", "+5"},
		{"x:y ++;", "++"},
		{"x:y a+;", "a+"},
		{"x:y \"a\"+'b';", "ab"},
		{"x:y 'a\\';", "a\\"},
		{"x:y \"a\" // c\n + /* d */ \"b\";", "ab"},
		{"x:y \"a\";//", "a"},
		{"x:y\t\"a\n\t  b\";", "a\nb"},
		{"x:y \"a\n \t b\";", "a\n     b"},
		{"x:y \"a \t \r\n b\";", "a\r\nb"},
		{"x:y \"a\n  \n  \n b\";", "a\n\n\nb"},
		{"x:y \"a\n          \";", "a\n     "},
		{"x:y\r\n \"a\r\n   b\";", "a\r\n b"},
		{"x:y \"ab\n                    q\" + \"ab\n          d\";", "ab\n               qab\nd"},
		{"x:y \"\\\\\\n\\x\\\"\";", "\\\n\\x\""},
		{"x:y \"/*c*/ //d\n  e\";", "/*c*/ //d\ne"},
	} {
		got, err := c08ParseArg(c.src)
		if err != nil || got != c.want {
			t.Errorf("%q: got %q err %v, want %q", c.src, got, err, c.want)
		}
	}
}

var c08Alphabet = []string{" ", " ", " ", "\t", "\n", "\n", "\r\n", "a", "b", `\"`, `\\`, `\x`, "/", "*", "+", "'", ";", "{", "}", "é", "//", "/*", "*/", "\\\n", `\ `}
var c08Leads = []string{"", " ", "  ", "\t", " \t", "\t ", "    ", "/*é*/ "}
var c08Seps = []string{"", " ", "\n", "\r\n", "\t", "  \n  ", " /* c */ ", " // c\n ", "/*+*/", "//\"\n"}

// Differential test against an independent RFC 6020 6.1.3 decoder over random
// quoting forms and layouts.  The escapes \n and \t are left out (known item:
// escapes are substituted before the layout is trimmed).
func TestC08_Control_RandomLayouts(t *testing.T) {
	r := rand.New(rand.NewSource(1))
	fails := 0
	for iter := 0; iter < 100000 && fails < 10; iter++ {
		var src strings.Builder
		src.WriteString(c08Leads[r.Intn(len(c08Leads))])
		src.WriteString("x:y ")
		src.WriteString(c08Seps[r.Intn(len(c08Seps))])
		np := 1 + r.Intn(3)
		want := ""
		for p := 0; p < np; p++ {
			if p > 0 {
				src.WriteString(c08Seps[r.Intn(len(c08Seps))])
				src.WriteString("+")
				src.WriteString(c08Seps[r.Intn(len(c08Seps))])
			}
			dq := r.Intn(3) > 0
			raw := ""
			for i, n := 0, r.Intn(10); i < n; i++ {
				a := c08Alphabet[r.Intn(len(c08Alphabet))]
				if !dq && a == "'" {
					a = "\""
				}
				raw += a
			}
			if dq {
				cur := src.String()
				lb := strings.LastIndex(cur, "\n") + 1
				col := c08RefCol(cur[lb:]) + 1
				src.WriteString(`"` + raw + `"`)
				want += c08RefDouble(raw, col)
			} else {
				src.WriteString("'" + raw + "'")
				want += raw
			}
		}
		src.WriteString(c08Seps[r.Intn(len(c08Seps))])
		if r.Intn(2) == 0 {
			src.WriteString(";")
		} else {
			src.WriteString("{}")
		}
		got, err := c08ParseArg(src.String())
		if err != nil || got != want {
			fails++
			t.Errorf("src=%q\n got=%q\nwant=%q\n err=%v", src.String(), got, want, err)
		}
	}
}
