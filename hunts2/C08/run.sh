#!/bin/sh
# usage: run.sh <worktree>
WT="${1:?worktree path}"
export GOFLAGS=-mod=mod GOPROXY=off GOTOOLCHAIN=local
GO=/root/go/pkg/mod/golang.org/toolchain@v0.0.1-go1.23.11.linux-amd64/bin/go
HERE="$(cd "$(dirname "$0")" && pwd)"
cp "$HERE/hunt_test.go" "$WT/parse/c08_hunt2_test.go"
(cd "$WT" && "$GO" test ./parse -run 'TestC08_' -count=1 -v)
rc=$?
rm -f "$WT/parse/c08_hunt2_test.go"
exit $rc
