// Hunt C18: structural data validation and default decoration.
// Belongs in <worktree>/schema (package schema_test).
package schema_test

import (
	"fmt"
	"sort"
	"strings"
	"testing"

	"github.com/sdcio/yang-parser/data/datanode"
	"github.com/sdcio/yang-parser/data/encoding"
	"github.com/sdcio/yang-parser/schema"
	"github.com/sdcio/yang-parser/testutils"
)

func c18Schema(t *testing.T, body string) schema.ModelSet {
	t.Helper()
	mod := fmt.Sprintf("module h {\n namespace \"urn:h\";\n prefix h;\n%s\n}\n", body)
	sn, err := testutils.GetFullSchema([]byte(mod))
	if err != nil {
		t.Fatalf("schema does not compile: %v", err)
	}
	return sn
}

func c18Data(t *testing.T, sn schema.Node, js string) datanode.DataNode {
	t.Helper()
	dn, err := encoding.UnmarshalJSONWithoutValidation(sn, encoding.Config, []byte(js))
	if err != nil {
		t.Fatalf("data does not decode: %v", err)
	}
	return dn
}

// c18Errs runs schema.ValidateSchema; a panic is turned into a test failure.
func c18Errs(t *testing.T, sn schema.Node, dn datanode.DataNode) (out []string) {
	t.Helper()
	defer func() {
		if r := recover(); r != nil {
			t.Fatalf("ValidateSchema panicked: %v", r)
		}
	}()
	_, errs, _ := schema.ValidateSchema(sn, dn, false)
	for _, e := range errs {
		out = append(out, strings.Replace(e.Error(), "\n", " ", -1))
	}
	return out
}

func c18Canon(dn datanode.DataNode) string {
	var parts []string
	for _, c := range dn.YangDataChildren() {
		parts = append(parts, c18Canon(c))
	}
	sort.Strings(parts)
	s := dn.YangDataName()
	v := dn.YangDataValues()
	if len(v) > 0 {
		s += "=" + strings.Join(v, ",")
	}
	if len(parts) > 0 || len(v) == 0 {
		s += "{" + strings.Join(parts, " ") + "}"
	}
	return s
}

func c18Check(t *testing.T, body, js string, wantErrs int) {
	t.Helper()
	sn := c18Schema(t, body)
	dn := c18Data(t, sn, js)
	errs := c18Errs(t, sn, dn)
	if len(errs) != wantErrs {
		t.Errorf("data %s: want %d validation error(s), got %d: %v", js, wantErrs, len(errs), errs)
	}
}

// ---------------------------------------------------------------- findings

// F1: a unique path that runs through a case is not enforced when the list
// entry has a data node (here: the key) with the name of that case.
func TestC18UniqueCaseNamedLikeSiblingDataNode(t *testing.T) {
	s := `list l { key ca; unique "ch/ca/x"; leaf ca { type string; }
	        choice ch { case ca { leaf x { type string; } } case cb { leaf y { type string; } } } }`
	c18Check(t, s, `{"l":[{"ca":"1","x":"v"},{"ca":"2","x":"v"}]}`, 1)
}

// F1 (variant): the colliding data node is an ordinary, optional leaf.
func TestC18UniqueCaseNamedLikeSiblingLeaf(t *testing.T) {
	s := `list l { key k; unique "ch/ca/x"; leaf k { type string; } leaf ca { type string; }
	        choice ch { case ca { leaf x { type string; } } } }`
	// control: without the leaf 'ca' in the entries the collision is seen
	c18Check(t, s, `{"l":[{"k":"1","x":"v"},{"k":"2","x":"v"}]}`, 1)
	c18Check(t, s, `{"l":[{"k":"1","x":"v","ca":"p"},{"k":"2","x":"v","ca":"q"}]}`, 1)
}

// F2: a unique path through a shorthand case that is a container
// (choice/case/container/leaf, case and container having the same name)
// is never enforced.
func TestC18UniqueThroughShorthandCaseContainer(t *testing.T) {
	s := `list l { key k; unique "ch/c/c/x"; leaf k { type string; }
	        choice ch { container c { leaf x { type string; } } leaf other { type string; } } }`
	c18Check(t, s, `{"l":[{"k":"1","c":{"x":"v"}},{"k":"2","c":{"x":"v"}}]}`, 1)
}

// F3: when the container on a unique path (inside an explicit case) is absent
// from an entry, the leaf is looked up among the entry's own children: a
// sibling leaf of the same name is taken for it -> false unique error.
func TestC18UniqueAbsentContainerInCaseTakesSiblingLeaf(t *testing.T) {
	s := `list l { key k; unique "ch/ca/b/a"; leaf k { type string; }
	        choice ch { case ca { container b { leaf a { type string; } } leaf a { type string; } } } }`
	// b/a exists in no entry: the unique set does not apply (RFC 7950 7.8.3)
	c18Check(t, s, `{"l":[{"k":"1","a":"v"},{"k":"2","a":"v"}]}`, 0)
	// control
	c18Check(t, s, `{"l":[{"k":"1","b":{"a":"v"}},{"k":"2","b":{"a":"v"}}]}`, 1)
}

// F3 (variant): the sibling of that name is a container -> ValidateSchema panics.
func TestC18UniqueAbsentContainerInCasePanics(t *testing.T) {
	s := `list l { key k; unique "ch/ca/b/a"; leaf k { type string; }
	        choice ch { case ca { container b { leaf a { type string; } } container a { leaf z { type string; } } } } }`
	c18Check(t, s, `{"l":[{"k":"1","a":{"z":"v"}}]}`, 0)
}

// F4: the default of a leaf of type bits is not part of the decorated view.
func TestC18BitsDefaultNotDecorated(t *testing.T) {
	s := `typedef tb { type bits { bit x; bit y; } default "y"; }
	      leaf b1 { type bits { bit x; bit y; } default "x y"; }
	      leaf b2 { type tb; }
	      leaf i { type int8; default 3; }`
	sn := c18Schema(t, s)
	dn := c18Data(t, sn, `{}`)
	got := c18Canon(schema.AddDefaults(sn, dn))
	want := "{b1=x y b2=y i=3}"
	if got != want {
		t.Errorf("decorated view of {}: want %s got %s", want, got)
	}
}

// ---------------------------------------------------------------- controls (pass)

func TestC18ControlUniqueInCases(t *testing.T) {
	s := `list l { key k; unique "ch/ca/x"; unique "ch/s/s"; unique "c/ch2/d/y"; leaf k { type string; }
	        choice ch { case ca { leaf x { type string; } } leaf s { type string; } }
	        container c { choice ch2 { case d { leaf y { type string; } } } } }`
	c18Check(t, s, `{"l":[{"k":"1","x":"v"},{"k":"2","x":"v"}]}`, 1)
	c18Check(t, s, `{"l":[{"k":"1","s":"v"},{"k":"2","s":"v"}]}`, 1)
	c18Check(t, s, `{"l":[{"k":"1","c":{"y":"v"}},{"k":"2","c":{"y":"v"}}]}`, 1)
	c18Check(t, s, `{"l":[{"k":"1","c":{"y":"v"}},{"k":"2","c":{"y":"w"}},{"k":"3"}]}`, 0)
}
