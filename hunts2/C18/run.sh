#!/bin/sh
# usage: run.sh <worktree>
WT=${1:?worktree path}
HERE=$(cd "$(dirname "$0")" && pwd)
export GOFLAGS=-mod=mod GOPROXY=off GOTOOLCHAIN=local
GO=${GO:-/root/go/pkg/mod/golang.org/toolchain@v0.0.1-go1.23.11.linux-amd64/bin/go}
if [ ! -f "$WT/xpath/grammars/leafref/leafref.go" ]; then
  (cd "$WT/xpath/grammars/leafref" && /tmp/tools/goyacc -o leafref.go -p leafref leafref.y && rm -f y.output)
fi
cp "$HERE/hunt_test.go" "$WT/schema/zz_hunt2_c18_test.go"
(cd "$WT" && $GO test ./schema -run 'TestC18' -count=1 -v)
rc=$?
rm -f "$WT/schema/zz_hunt2_c18_test.go"
exit $rc
