#!/bin/sh
# usage: run.sh <worktree>
WT="$1"
export GOFLAGS=-mod=mod GOPROXY=off GOTOOLCHAIN=local
GO=/root/go/pkg/mod/golang.org/toolchain@v0.0.1-go1.23.11.linux-amd64/bin/go
if [ ! -f "$WT/xpath/grammars/leafref/leafref.go" ]; then
  (cd "$WT/xpath/grammars/leafref" && /tmp/tools/goyacc -o leafref.go -p leafref leafref.y && rm -f y.output)
fi
DIR="$WT/xpath/grammars/expr"
cp "$(dirname "$0")/hunt_test.go" "$DIR/hunt_c04_test.go"
(cd "$WT" && $GO test ./xpath/grammars/expr -run 'TestHuntC04' -v)
rc=$?
rm -f "$DIR/hunt_c04_test.go"
exit $rc
