package expr

// Hunt C04 (second round): no new violation found.  This file only holds
// control tests (they PASS on the unchanged library); they pin the corners
// that were probed most intensively.

import (
	"fmt"
	"testing"
)

func huntC04Map(p string) (string, error) {
	if p == "" || p == "p" {
		return "urn:" + p, nil
	}
	return "", fmt.Errorf("unknown prefix %q", p)
}

func huntC04Accept(s string) bool {
	_, err := NewExprMachine(s, huntC04Map)
	return err == nil
}

func TestHuntC04ControlDisambiguation(t *testing.T) {
	for _, c := range []struct {
		in   string
		want bool
	}{
		{"* * *", true}, {"div div div", true}, {"and and and or or", true}, {"p:* * p:*", true}, {"a[* * 2]", true},
		{"/ = 1", true}, {"/ * 2", false}, {"/ or a", false}, {"/ and /", false}, {"a and(b)", true}, {"and (a)", false},
		{"a div div (2)", false}, {"1div 2", true}, {"1 div.5", false}, {"a -b", true}, {"a-b", true}, {"a- -b", true},
		{"* *", false}, {"a * * b", false}, {"div div", false}, {"text | node | comment | child | self", true},
		{"text()", false}, {"node()", false}, {"child::a", false}, {"child : : a", false}, {"@a", false}, {"a//b", false}, {"$a", false},
		{"x:a", false}, {"x:*", false}, {"p:count(a)", false}, {".[1]", false}, {"..[1]", false}, {"a/(b)", false}, {"a/current()", false},
		{"1.", true}, {".5", true}, {"1.2.3", false}, {"1..2", false}, {". 5", false}, {"...", false},
		{"'a", false}, {"'a''b'", false}, {"a\x00", false}, {"'\xff'", false}, {"a\xe2\x82", false}, {"a b", false}, {"a\fb", false},
		{"", false}, {" ", false}, {"a!b", false}, {"a ! = b", false}, {"a< =b", false}, {"+1", false}, {"--1", true},
	} {
		if got := huntC04Accept(c.in); got != c.want {
			t.Errorf("%q: accepted=%v, want %v", c.in, got, c.want)
		}
	}
}

func TestHuntC04ControlArity(t *testing.T) {
	arity := map[string]int{
		"boolean": 1, "ceiling": 1, "concat": 2, "contains": 2, "re-match": 2, "count": 1, "false": 0, "floor": 1, "last": 0,
		"local-name": 1, "normalize-space": 1, "not": 1, "number": 1, "round": 1, "position": 0, "starts-with": 2, "string": 1,
		"string-length": 1, "substring": 3, "substring-after": 2, "substring-before": 2, "sum": 1, "translate": 3, "true": 0,
	}
	for name, n := range arity {
		for k := 0; k <= 5; k++ {
			s := name + "("
			for i := 0; i < k; i++ {
				if i > 0 {
					s += ","
				}
				s += "a"
			}
			s += ")"
			if got := huntC04Accept(s); got != (k == n) {
				t.Errorf("%q: accepted=%v, want %v", s, got, k == n)
			}
		}
	}
}
