#!/bin/sh
# usage: run.sh <worktree>
# Copies hunt_test.go into <worktree>/xpath/grammars/expr, runs it under the race detector, removes it again.
WT=${1:?usage: run.sh <worktree>}
HERE=$(cd "$(dirname "$0")" && pwd)
export GOFLAGS=-mod=mod GOPROXY=off GOTOOLCHAIN=local
GO=/root/go/pkg/mod/golang.org/toolchain@v0.0.1-go1.23.11.linux-amd64/bin/go
[ -f "$WT/xpath/grammars/leafref/leafref.go" ] || (cd "$WT/xpath/grammars/leafref" && /tmp/tools/goyacc -o leafref.go -p leafref leafref.y >/dev/null && rm -f y.output)
DST="$WT/xpath/grammars/expr/hunt_test.go"
cp "$HERE/hunt_test.go" "$DST"
trap 'rm -f "$DST"' EXIT INT TERM
cd "$WT" || exit 2
# (the debug control test makes the library print its debug dump to stdout: keep only the verdict lines and the race reports)
$GO test -race -vet=off -count=1 -run 'TestControl_|TestDoubtful_' -v ./xpath/grammars/expr/ 2>&1 |
  awk '/^WARNING: DATA RACE/{r=1} r&&/^==================/{r=0;print;next} r{print;next} /^(=== RUN|--- |PASS|FAIL|ok )|race detected|hunt_test.go:/{print}'
