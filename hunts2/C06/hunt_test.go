package expr

import (
	gocontext "context"
	"fmt"
	"io"
	"log"
	"strings"
	"sync"
	"testing"

	sdcpb "github.com/sdcio/sdc-protos/sdcpb"
	"github.com/sdcio/yang-parser/xpath"
	"github.com/sdcio/yang-parser/xpath/grammars/leafref"
	"github.com/sdcio/yang-parser/xpath/grammars/path_eval"
)

// ---- immutable mock data tree ----

type hNode struct {
	name     string
	keys     map[string]string
	parent   *hNode
	children []*hNode
	val      xpath.Datum
	lref     *hNode
}

func (n *hNode) add(name string, keys map[string]string, val xpath.Datum) *hNode {
	c := &hNode{name: name, keys: keys, parent: n, val: val}
	n.children = append(n.children, c)
	return c
}

func (n *hNode) root() *hNode {
	for n.parent != nil {
		n = n.parent
	}
	return n
}

func (n *hNode) GetValue() (xpath.Datum, error) {
	if n.val == nil {
		return xpath.NewBoolDatum(true), nil
	}
	return n.val, nil
}

func (n *hNode) Navigate(p *sdcpb.Path) (xpath.Entry, error) {
	cur := n
	if p.IsRootBased {
		cur = n.root()
	}
	for _, pe := range p.Elem {
		if pe.Name == ".." {
			if cur.parent == nil {
				return nil, fmt.Errorf("no parent of root")
			}
			cur = cur.parent
			continue
		}
		var found *hNode
	outer:
		for _, c := range cur.children {
			if c.name != pe.Name {
				continue
			}
			for k, v := range pe.Key {
				if c.keys[k] != v {
					continue outer
				}
			}
			found = c
			break
		}
		if found == nil {
			return nil, fmt.Errorf("not found: %s in %s", pe.Name, p.ToXPath(false))
		}
		cur = found
	}
	return cur, nil
}

func (n *hNode) Copy() xpath.Entry { return n }
func (n *hNode) FollowLeafRef() (xpath.Entry, error) {
	if n.lref == nil {
		return nil, fmt.Errorf("not a leafref")
	}
	return n.lref, nil
}
func (n *hNode) GetSdcpbPath() *sdcpb.Path {
	p := &sdcpb.Path{IsRootBased: true}
	var chain []*hNode
	for c := n; c.parent != nil; c = c.parent {
		chain = append([]*hNode{c}, chain...)
	}
	for _, c := range chain {
		var k map[string]string
		if c.keys != nil {
			k = map[string]string{}
			for a, b := range c.keys {
				k[a] = b
			}
		}
		p.Elem = append(p.Elem, sdcpb.NewPathElem(c.name, k))
	}
	return p
}
func (n *hNode) BreadthSearch(ctx gocontext.Context, p *sdcpb.Path) ([]xpath.Entry, error) {
	e, err := n.Navigate(p)
	if err != nil {
		return nil, nil
	}
	return []xpath.Entry{e}, nil
}

func buildTree() (root, cur *hNode) {
	root = &hNode{name: ""}
	ifs := root.add("interfaces", nil, nil)
	for i, nm := range []string{"eth0", "eth1", "lo"} {
		it := ifs.add("interface", map[string]string{"name": nm}, nil)
		it.add("name", nil, xpath.NewLiteralDatum(nm))
		it.add("mtu", nil, xpath.NewNumDatum(float64(1500+i)))
		it.add("enabled", nil, xpath.NewBoolDatum(i%2 == 0))
		it.add("tags", nil, xpath.NewDatumSliceDatum([]xpath.Datum{
			xpath.NewLiteralDatum("a" + nm), xpath.NewLiteralDatum("b")}))
		for _, sub := range []string{"0", "1"} {
			s := it.add("sub", map[string]string{"id": sub, "vlan": "v" + sub}, nil)
			s.add("id", nil, xpath.NewLiteralDatum(sub))
			s.add("descr", nil, xpath.NewLiteralDatum(nm+"."+sub))
		}
	}
	sys := root.add("system", nil, nil)
	sys.add("hostname", nil, xpath.NewLiteralDatum("  ho  st "))
	ref := sys.add("mgmt-if", nil, xpath.NewLiteralDatum("eth1"))
	ref.lref = ifs.children[1].children[0] // /interfaces/interface[name=eth1]/name
	sys.add("n", nil, xpath.NewLiteralDatum("1"))
	return root, ref
}

var huntExprs = []string{
	"1 + 2 * 3",
	"'a' = 'a'",
	"../hostname",
	"normalize-space(../hostname)",
	"string-length(../hostname) > 3",
	"/interfaces/interface[name='eth0']/mtu",
	"/interfaces/interface[name='eth0']/mtu + 1",
	"/interfaces/interface[name=current()]/mtu",
	"/interfaces/interface[name=current()/../mgmt-if]/mtu = 1501",
	"/interfaces/interface[name='lo']/sub[id='1'][vlan='v1']/descr",
	"/interfaces/interface[name='lo']/sub[vlan='v1'][id='1']/descr",
	"/interfaces/interface[name=current()]/sub[id=../../../../system/n]/descr",
	"deref(current())/../mtu",
	"deref(.)/../mtu = 1501",
	"deref(../mgmt-if)/../sub[id='0']/descr",
	"count(/interfaces/interface[name='eth0']/tags)",
	"/interfaces/interface[name='eth0']/tags = 'b'",
	"/interfaces/interface[name='eth0']/tags[text()='b']",
	"/interfaces/interface[name='eth0']/tags/text()",
	"concat(../hostname, current())",
	"substring(current(), 2, 2)",
	"translate(current(), 'eth', 'ETH')",
	"re-match(current(), 'eth[0-9]')",
	"re-match(current(), '(')",
	"not(/interfaces/interface[name='eth1']/enabled)",
	"/interfaces/interface[name='eth1']/enabled or /interfaces/interface[name='eth0']/enabled",
	"/nonexistent/x",
	"../nonexistent = 'a'",
	"boolean(../n) and number(../n) = 1",
	"-(../n) div 0",
	"round(2.5) + floor(-0.5) + ceiling(0.2)",
	"starts-with(current(), 'eth') and contains(current(), '1')",
	"substring-before(current(), 'h') != substring-after(current(), 't')",
	"position() + last()",
	"true() != false()",
	"string(1 div 0)",
	"sum(../n)",
	"local-name(..)",
	"(1 | 2)",
	"current()/../../system/hostname | ../n",
	"current()",
	".",
	"..",
	"/",
}

func runOne(m *xpath.Machine, cur xpath.Entry, debug bool) string {
	res := xpath.NewCtxFromCurrent(gocontext.Background(), m, cur).SetDebug(debug).Run()
	out := res.PrintResult()
	if debug {
		out += "\n" + res.GetDebugOutput()
	}
	return out
}

func TestControl_ConcurrentRunsAndCompiles(t *testing.T) {
	_, cur := buildTree()
	type cm struct {
		expr   string
		m      *xpath.Machine
		oracle string
	}
	var ms []cm
	for _, e := range huntExprs {
		m, err := NewExprMachine(e, nil)
		if err != nil {
			continue
		}
		o := runOne(m, cur, false)
		ms = append(ms, cm{e, m, o})
	}

	stop := make(chan struct{})
	var bg sync.WaitGroup
	for i := 0; i < 4; i++ {
		bg.Add(1)
		go func(i int) {
			defer bg.Done()
			for {
				select {
				case <-stop:
					return
				default:
				}
				for _, e := range huntExprs {
					NewExprMachine(e, nil)
					NewExprMachineWithCustomFunctions(e, nil)
					path_eval.NewPathEvalMachine(e, nil, "loc")
					leafref.NewLeafrefMachine("../a/b[c = current()/../d]/e", nil)
				}
			}
		}(i)
	}

	var wg sync.WaitGroup
	var mu sync.Mutex
	bad := map[string]string{}
	for g := 0; g < 8; g++ {
		wg.Add(1)
		go func(g int) {
			defer wg.Done()
			_, mycur := buildTree()
			for it := 0; it < 200; it++ {
				for _, c := range ms {
					use := cur
					if g%2 == 0 {
						use = mycur
					}
					got := runOne(c.m, use, false)
					if got != c.oracle {
						mu.Lock()
						bad[c.expr] = got
						mu.Unlock()
					}
				}
			}
		}(g)
	}
	wg.Wait()
	close(stop)
	bg.Wait()
	for e, g := range bad {
		t.Errorf("%q: concurrent result %q differs", e, g)
	}
}

func TestControl_DebugAndCustomFunctions(t *testing.T) {
	xpath.RegisterCustomFunctions([]xpath.CustomFunctionInfo{
		{Name: "my-up", FnPtr: func(a []xpath.Datum) xpath.Datum {
			return xpath.NewLiteralDatum(strings.ToUpper(a[0].Literal("")))
		}, Args: []xpath.DatumTypeChecker{xpath.TypeIsLiteral}, RetType: xpath.TypeIsLiteral,
			DefaultRetVal: xpath.NewLiteralDatum("def")},
		{Name: "my-panic", FnPtr: func(a []xpath.Datum) xpath.Datum {
			panic("boom")
		}, Args: []xpath.DatumTypeChecker{xpath.TypeIsLiteral}, RetType: xpath.TypeIsLiteral,
			DefaultRetVal: xpath.NewLiteralDatum("def")},
	})
	_, cur := buildTree()
	exprs := append([]string{"my-up(current())", "my-panic(current()) = 'def'", "concat(my-up(../hostname), my-panic('x'))"}, huntExprs...)
	type cm struct {
		expr   string
		m      *xpath.Machine
		oracle string
	}
	var ms []cm
	for _, e := range exprs {
		m, err := NewExprMachineWithCustomFunctions(e, nil)
		if err != nil {
			continue
		}
		o := runOne(m, cur, true)
		ms = append(ms, cm{e, m, o})
	}
	var wg sync.WaitGroup
	var mu sync.Mutex
	bad := map[string]string{}
	for g := 0; g < 8; g++ {
		wg.Add(1)
		go func(g int) {
			defer wg.Done()
			for it := 0; it < 4; it++ {
				for _, c := range ms {
					m := c.m
					if g%2 == 1 {
						m, _ = NewExprMachineWithCustomFunctions(c.expr, nil)
					}
					got := runOne(m, cur, true)
					if got != c.oracle {
						mu.Lock()
						bad[c.expr] = got
						mu.Unlock()
					}
				}
			}
		}(g)
	}
	wg.Wait()
	for e, g := range bad {
		t.Errorf("%q: concurrent result %q differs", e, g)
	}
}

// DOUBTFUL (sibling of the recorded RegisterCustomFunctions item, other
// variable, other entry point): compile.NewCompiler() - the first step of
// every schema compilation, which compiles the must/when/leafref expressions -
// calls xpath.SetDebugLogger() whenever a syslog daemon is reachable.
// SetDebugLogger writes the package variable 'dlog' of xpath/plugin_symbols.go
// without any lock, so two schema compilations started concurrently race on it
// (write/write; and write/read against RegisterCustomFunctions, which the
// first LookupXpathFunction of the process runs).  No syslog socket exists in
// the sandbox, so the test does what NewCompiler does: it calls
// SetDebugLogger from two goroutines that compile expressions.
// Fails only under -race.
func TestDoubtful_DebugLoggerRaceBetweenCompilers(t *testing.T) {
	var wg sync.WaitGroup
	for g := 0; g < 2; g++ {
		wg.Add(1)
		go func() {
			defer wg.Done()
			for i := 0; i < 100; i++ {
				// compile.NewCompiler(...)
				xpath.SetDebugLogger(log.New(io.Discard, "", 0))
				// ... compileMust / compileWhen
				if _, err := NewExprMachine("not(../a = 'x')", nil); err != nil {
					t.Error(err)
				}
			}
		}()
	}
	wg.Wait()
}
