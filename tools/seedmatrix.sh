#!/bin/sh
# usage: tools/seedmatrix.sh [name...]      (default: every directory under seeded/)
# Regression test of the machinery itself: every seeded change must make the check of its own property
# report a violation (quick tier).  Each change is applied to a scratch worktree of /repo (created and
# removed here); /repo itself and the committed evidence are not touched.
VR=${VERIF_ROOT:-/verif}; REPO=${VERIF_REPO_MAIN:-/repo}
WT=$(mktemp -d /tmp/seedmatrix-wt.XXXXXX); rmdir "$WT"
git -C "$REPO" worktree add --detach "$WT" HEAD >/dev/null 2>&1 || { echo "cannot create worktree"; exit 2; }
trap 'git -C "$REPO" worktree remove --force "$WT" >/dev/null 2>&1; rm -rf "$SCR"' EXIT
SCR=$(mktemp -d /tmp/seedmatrix.XXXXXX)
[ $# -gt 0 ] || set -- $(ls "$VR/seeded")
missed=0
for n in "$@"; do
  id=$(echo "$n" | cut -c1-3)
  # a change kept under the property it was written against may be one that another property's check decides
  cb=$(python3 -c "import json,sys; print(json.load(open(sys.argv[1])).get('caught_by',''))" "$VR/seeded/$n/meta.json" 2>/dev/null)
  [ -n "$cb" ] && id=$cb
  git -C "$WT" apply "$VR/seeded/$n/patch.diff" || { echo "$n: patch does not apply"; missed=$((missed+1)); continue; }
  VERIF_REPO="$WT" VERIF_OUT="$SCR/out" "$VR/bin/vcheck" run "$id" quick > "$SCR/$n.txt" 2>&1; rc=$?
  git -C "$WT" checkout -- .
  v=$(grep -c '^VIOLATION' "$SCR/$n.txt")
  if [ "$rc" = 1 ] && [ "$v" -gt 0 ]; then echo "$n: caught by $id ($v classes)"; else echo "$n: MISSED by $id (exit $rc)"; missed=$((missed+1)); fi
done
echo "missed=$missed"
[ "$missed" = 0 ]
