module verifgoyacc

go 1.23.9

toolchain go1.23.11

require golang.org/x/tools v0.29.0
