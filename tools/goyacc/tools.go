//go:build tools

package tools

import _ "golang.org/x/tools/cmd/goyacc"
