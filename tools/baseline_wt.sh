#!/bin/sh
# usage: baseline.sh <worktree>   — runs the repository's pinned test suite in <worktree> and reports how many of the 133 baseline tests pass
WT=${1:-.}
export GOFLAGS=-mod=mod GOPROXY=off GOTOOLCHAIN=local
GO=/root/go/pkg/mod/golang.org/toolchain@v0.0.1-go1.23.11.linux-amd64/bin/go
cd "$WT" || exit 2
[ -f xpath/grammars/leafref/leafref.go ] || (cd xpath/grammars/leafref && ${VERIF_ROOT:-/verif}/bin/goyacc -o leafref.go -p leafref leafref.y >/dev/null && rm -f y.output)
$GO build ./... || { echo "BUILD FAILED"; exit 1; }
$GO test -json -vet=off -count=1 -timeout 25m ./xpath/... 2>/dev/null | python3 -c "
import sys,json
ok=set()
for l in sys.stdin:
    try: e=json.loads(l)
    except: continue
    if e.get('Test') and '/' not in e['Test'] and e['Action']=='pass': ok.add(e['Package']+'::'+e['Test'])
bl=json.load(open('/root/.vp/BASELINE.json'))['stable_pass']
missing=[t for t in bl if t not in ok]
print('baseline tests passing: %d of %d'%(len(bl)-len(missing),len(bl)))
for t in missing: print('MISSING',t)
sys.exit(1 if missing else 0)
"
