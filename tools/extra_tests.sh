#!/bin/sh
# Hygiene (not a registered check): the repo's tests that are NOT in the pinned baseline
# (parse, schema, compile, data need the generated leafref parser) must not change state
# between the pin and HEAD.  Uses the overlay from /verif/.gen.
cd /repo
export GOFLAGS=-mod=mod GOPROXY=off GOTOOLCHAIN=local
GO=/root/go/pkg/mod/golang.org/toolchain@v0.0.1-go1.23.11.linux-amd64/bin/go
$GO test -overlay /verif/.gen/overlay.json -vet=off -count=1 -json ./parse/... ./schema/... ./compile/... ./data/... 2>&1 | python3 -c "
import sys,json
res={}
for l in sys.stdin:
    try: e=json.loads(l)
    except: continue
    if e.get('Test') and e['Action'] in('pass','fail') and '/' not in e['Test']:
        res[e['Package'].split('yang-parser/')[1]+'::'+e['Test']]=e['Action']
pin=json.load(open('/verif/tools/extra_tests_pin.json'))
bad=[k for k,v in pin.items() if res.get(k)!=v]
print('non-baseline tests: %d, changed vs pin: %d'%(len(res),len(bad)))
for k in bad: print('CHANGED',k,pin[k],'->',res.get(k))
"
