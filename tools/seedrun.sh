#!/bin/sh
# usage: tools/seedrun.sh <seeded-name> <check-id> [tier]
# Runs one check against a seeded change the way the brief prescribes: the patch is applied to
# /repo's working tree, the check runs (evidence and replays redirected to a scratch directory so that
# the committed evidence keeps describing the unchanged tree), and the patch is undone straight afterwards.
N=$1; ID=$2; TIER=${3:-quick}; VR=${VERIF_ROOT:-/verif}; REPO=${VERIF_REPO:-/repo}
[ -z "$(git -C "$REPO" status --porcelain)" ] || { echo "$REPO has local changes; refusing"; exit 2; }
git -C "$REPO" apply "$VR/seeded/$N/patch.diff" || exit 2
SCR=$(mktemp -d /tmp/seedrun.XXXXXX)
VERIF_OUT="$SCR" "$VR/bin/vcheck" run "$ID" "$TIER" > "$SCR/out.txt" 2>&1; rc=$?
git -C "$REPO" checkout -- .
echo "seeded=$N check=$ID tier=$TIER exit=$rc violation_lines=$(grep -c '^VIOLATION' "$SCR/out.txt")"
grep '^VIOLATION\|^INCONCLUSIVE' "$SCR/out.txt" | sed "s#$SCR/##" | cut -c1-200 | head -5
rm -rf "$SCR"
