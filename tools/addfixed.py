#!/usr/bin/env python3
# usage: addfixed.py <property> <commit> <what failed>   — appends a "fixed:" entry to known_findings.json
import json, sys
p = '/verif/known_findings.json'
d = json.load(open(p))
d['fixed'].append("fixed: property=%s %s %s" % (sys.argv[1], sys.argv[2], sys.argv[3]))
json.dump(d, open(p, 'w'), indent=1, ensure_ascii=False)
open(p, 'a').write("\n")
print(len(d['fixed']), "fixed entries")
