#!/usr/bin/env python3
"""Regenerates /verif/MANIFEST.json from tools/manifest_src.json (per-property texts)."""
import json, os, subprocess
root = os.path.dirname(os.path.dirname(os.path.abspath(__file__)))
src = json.load(open(os.path.join(root, "tools", "manifest_src.json")))
props = [json.loads(l) for l in open(os.path.join(root, "properties.jsonl"))]
checks, na = [], []
for p in props:
    pid = p["id"]
    c = src["checks"].get(pid)
    if not c:
        na.append({"property_id": pid, "reason": src["not_applicable"].get(pid, "check not implemented yet in this framework (runtime monitoring applies; see DESIGN.md section 5)")})
        continue
    checks.append({
        "property_id": pid,
        "quick_cmd": f"bin/vcheck run {pid} quick",
        "thorough_cmd": f"bin/vcheck run {pid} thorough",
        "evidence_file": f"/verif/evidence/{pid}.json",
        "replay_cmd_template": f"bin/vcheck replay {pid} {{path}}",
        "engine": "vcheck",
        "level_claimed": {"category": c.get("level", "exploration"), "text": c["text"], "design_ref": f"DESIGN.md section 5, {pid}"},
        "level_note": c["note"],
        "technique": c["technique"],
    })
hooks = src["hooks"]
m = {
    "version": 1,
    "setup_cmd": "sh tools/setup.sh",
    "hooks": hooks,
    "engines": [{"name": "vcheck", "path": "harness/cmd/vcheck", "serves_properties": [c["property_id"] for c in checks],
                 "kind_free_text": "runtime-monitoring driver: rebuilds a worker from /repo (tag verif, generated leafref parser through -overlay), shards seeded/enumerated workloads over worker processes, attributes process deaths to cases, applies known_findings.json, writes evidence"}],
    "checks": checks,
    "notes": src["notes"],
    "not_applicable": na,
}
json.dump(m, open(os.path.join(root, "MANIFEST.json"), "w"), indent=1)
print("checks:", len(checks), "not_applicable:", len(na))
