#!/bin/sh
# usage: fixcommit.sh <message-file>  — commits /repo's working tree iff the pinned suite still passes with the guard off
set -e
cd /repo
export GOFLAGS=-mod=mod GOPROXY=off GOTOOLCHAIN=local
GO=/root/go/pkg/mod/golang.org/toolchain@v0.0.1-go1.23.11.linux-amd64/bin/go
$GO build ./xpath/... ./parse/... ./schema/... ./data/... 2>&1 | grep -v leafref || true
OV=/verif/.gen/overlay.json
[ -f /verif/.gen/leafref.go ] || (mkdir -p /verif/.gen && cd /verif/.gen && /verif/bin/goyacc -o leafref.go -p leafref /repo/xpath/grammars/leafref/leafref.y >/dev/null && rm -f y.output && echo '{"Replace":{"/repo/xpath/grammars/leafref/leafref.go":"/verif/.gen/leafref.go"}}' > overlay.json)
$GO build -overlay $OV ./... || { echo "BUILD FAILED"; exit 1; }
$GO build -tags verif -overlay $OV ./... || { echo "BUILD (verif tag) FAILED"; exit 1; }
out=$(/verif/bin/vcheck baseline-off | tail -3)
echo "$out"
echo "$out" | grep -q "133 of 133" || { echo "BASELINE BROKEN - not committing"; exit 1; }
git add -A
git commit -q -F "$1"
git log --oneline | head -1
