#!/bin/sh
# usage: tools/seedcheck.sh <seed-dir> <worktree> <out.json> <check-id> [<check-id>...]
# Confirms a seeded change and runs the named checks against it, without touching /repo
# and without overwriting the committed evidence:
#   1. <worktree> must be a clean checkout of the repository; the demonstration must pass on it
#   2. with <seed-dir>/patch.diff applied: the tree builds, the pinned suite is 133/133, the demonstration fails
#   3. bin/vcheck run <check-id> quick with VERIF_REPO=<worktree>, VERIF_OUT=<scratch>
#   4. the patch is reverted
# Result is written to <out.json>.
SD=$1; WT=$2; OUT=$3; shift 3
VR=${VERIF_ROOT:-/verif}
export GOFLAGS=-mod=mod GOPROXY=off GOTOOLCHAIN=local
[ -z "$(git -C "$WT" status --porcelain)" ] || { echo "worktree $WT is not clean"; exit 2; }
SCR=$(mktemp -d /tmp/seedcheck.XXXXXX)
LR="$WT/xpath/grammars/leafref/leafref.go"   # git-ignored goyacc output: regenerate it from the grammar at hand
regen() { (cd "$WT/xpath/grammars/leafref" && "$VR/bin/goyacc" -o leafref.go -p leafref leafref.y >/dev/null 2>&1; rm -f y.output); }
regen; sh "$SD/demo.sh" "$WT" >"$SCR/demo_clean.txt" 2>&1; rc_clean=$?
git -C "$WT" apply "$SD/patch.diff" || { echo "patch does not apply"; exit 2; }
regen; sh "$VR/tools/baseline_wt.sh" "$WT" >"$SCR/baseline.txt" 2>&1; rc_base=$?
sh "$SD/demo.sh" "$WT" >"$SCR/demo_patched.txt" 2>&1; rc_patched=$?
echo "demo on clean tree: rc=$rc_clean ; baseline with change: $(grep 'baseline tests' "$SCR/baseline.txt") rc=$rc_base ; demo with change: rc=$rc_patched"
res=""
for id in "$@"; do
  VERIF_REPO="$WT" VERIF_OUT="$SCR/out" VERIF_DUMP_FAILS="$SCR/fails-$id.json" "$VR/bin/vcheck" run "$id" quick >"$SCR/run-$id.txt" 2>&1; rc=$?
  v=$(grep -c '^VIOLATION' "$SCR/run-$id.txt")
  echo "check $id quick: exit=$rc violation_lines=$v"
  grep '^VIOLATION\|^INCONCLUSIVE' "$SCR/run-$id.txt" | cut -c1-220 | head -8
  res="$res{\"check\":\"$id\",\"tier\":\"quick\",\"exit\":$rc,\"violation_lines\":$v,\"classes\":$(grep '^VIOLATION' "$SCR/run-$id.txt" | sed 's/.*replay=.*seed[0-9]*-//; s/\.json.*//' | python3 -c 'import sys,json; print(json.dumps([l.strip() for l in sys.stdin][:12]))')},"
done
git -C "$WT" checkout -- . ; rm -f "$LR"; git -C "$WT" clean -fdq
python3 - "$OUT" "$rc_clean" "$rc_base" "$rc_patched" "$(grep 'baseline tests' "$SCR/baseline.txt")" "[${res%,}]" <<'EOF'
import sys,json
out,rc_clean,rc_base,rc_patched,base,res=sys.argv[1:7]
json.dump({"demo_exit_on_unchanged_tree":int(rc_clean),"baseline_with_change":base,"baseline_exit":int(rc_base),
           "demo_exit_with_change":int(rc_patched),"checks":json.loads(res)},open(out,"w"),indent=1)
EOF
echo "scratch: $SCR"
