#!/bin/sh
# usage: tools/seedinstall.sh <seed-dir> <name>   — files a confirmed seeded change under /verif/seeded/<name>/
SD=$1; N=$2; VR=${VERIF_ROOT:-/verif}
mkdir -p "$VR/seeded/$N"
cp "$SD/patch.diff" "$VR/seeded/$N/patch.diff"
for f in "$SD"/*; do case "$f" in */patch.diff|*/meta.json|*/confirm.json) ;; *) sed 's#/tmp/tools/goyacc#${VERIF_ROOT:-/verif}/bin/goyacc#g' "$f" > "$VR/seeded/$N/$(basename "$f")";; esac; done
python3 - "$SD" "$VR/seeded/$N/meta.json" <<'PY'
import sys,json
sd,out=sys.argv[1:3]
m=json.load(open(sd+"/meta.json"))
m["confirmed_by_tools_seedcheck"]=json.load(open(sd+"/confirm.json"))
json.dump(m,open(out,"w"),indent=1)
PY
ls "$VR/seeded/$N"
