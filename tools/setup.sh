#!/bin/sh
# Builds the framework's own tools from files on disk (module cache only).
set -e
cd "$(dirname "$0")/.."
ROOT=$(pwd)
GO=/root/go/pkg/mod/golang.org/toolchain@v0.0.1-go1.23.11.linux-amd64/bin/go
[ -x "$GO" ] || GO=go1.26
export GOFLAGS=-mod=mod GOPROXY=off GOTOOLCHAIN=local GOSUMDB=off
mkdir -p "$ROOT/bin" "$ROOT/evidence"
(cd "$ROOT/tools/goyacc" && "$GO" build -o "$ROOT/bin/goyacc" golang.org/x/tools/cmd/goyacc)
(cd "$ROOT/harness" && "$GO" build -o "$ROOT/bin/vcheck" ./cmd/vcheck)
echo "setup ok: $ROOT/bin/goyacc $ROOT/bin/vcheck"
