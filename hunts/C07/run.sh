#!/bin/sh
# usage: run.sh <worktree>      (HUNT_DOUBTFUL=1 also runs the doubtful tests)
# Copies hunt_test.go into <worktree>/parse, runs the C07 tests, removes it again.
WT=${1:?usage: run.sh <worktree>}
HERE=$(cd "$(dirname "$0")" && pwd)
export GOFLAGS=-mod=mod GOPROXY=off GOTOOLCHAIN=local
GO=${GO:-/root/go/pkg/mod/golang.org/toolchain@v0.0.1-go1.23.11.linux-amd64/bin/go}
DST="$WT/parse/c07_hunt_test.go"
cp "$HERE/hunt_test.go" "$DST" || exit 2
trap 'rm -f "$DST"' EXIT INT TERM
cd "$WT" && "$GO" test ./parse/ -count=1 -run '^TestC07' -v -timeout 30m
