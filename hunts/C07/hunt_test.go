package parse

// Hunt for violations of property C07 ("YANG parsing is total and leaves
// nothing running").  Belongs in the directory parse/ of the worktree.
//
// Findings (fail on the unchanged library):
//   TestC07PercentInInputNameGarblesError
//   TestC07DeepNestingKillsProcess
// Controls (pass):
//   TestC07ControlTruncations, TestC07ControlPercentNameOnCheckPath,
//   TestC07ControlModerateNesting
// Doubtful (skipped unless HUNT_DOUBTFUL=1):
//   TestC07DoubtfulReusedTreeStaleLookahead
//   TestC07DoubtfulLineCommentAtEOF
//   TestC07DoubtfulQuadraticString

import (
	"fmt"
	"os"
	"os/exec"
	"regexp"
	"runtime"
	"strings"
	"testing"
	"time"
)

type c07Res struct {
	tree     *Tree
	err      error
	panicked interface{}
	timeout  bool
}

func c07Parse(name, text string, d time.Duration) c07Res {
	ch := make(chan c07Res, 1)
	go func() {
		var r c07Res
		defer func() {
			if p := recover(); p != nil {
				r.panicked = p
			}
			ch <- r
		}()
		r.tree, r.err = Parse(name, text, nil)
	}()
	select {
	case r := <-ch:
		return r
	case <-time.After(d):
		return c07Res{timeout: true}
	}
}

func c07LexerGoroutines() int {
	var n int
	for i := 0; i < 200; i++ {
		buf := make([]byte, 1<<20)
		buf = buf[:runtime.Stack(buf, true)]
		n = strings.Count(string(buf), "parse.(*lexer).run")
		if n == 0 {
			return 0
		}
		time.Sleep(time.Millisecond)
	}
	return n
}

var c07PosRe = regexp.MustCompile(`^:(\d+):(\d+)`)

// c07Check applies the property to one (name, text) and returns a description
// of the violation, or "".
func c07Check(name, text string) string {
	r := c07Parse(name, text, 10*time.Second)
	switch {
	case r.timeout:
		return "did not return within 10s"
	case r.panicked != nil:
		return fmt.Sprintf("panicked: %v", r.panicked)
	}
	if n := c07LexerGoroutines(); n != 0 {
		return fmt.Sprintf("%d lexer goroutine(s) remain", n)
	}
	if r.err == nil {
		if r.tree == nil || r.tree.Root == nil {
			return "nil error but no root statement"
		}
		return ""
	}
	msg := r.err.Error()
	idx := strings.Index(msg, name+":")
	if idx < 0 {
		return fmt.Sprintf("error does not name the input %q: %s", name, msg)
	}
	m := c07PosRe.FindStringSubmatch(msg[idx+len(name):])
	if m == nil {
		return "error has no line:column after the input name: " + msg
	}
	var line, col int
	fmt.Sscanf(m[1], "%d", &line)
	fmt.Sscanf(m[2], "%d", &col)
	lines := strings.Split(text, "\n")
	if line < 1 || line > len(lines) {
		return fmt.Sprintf("line %d is outside the input (1..%d): %s", line, len(lines), msg)
	}
	if col < 0 || col > len(lines[line-1]) {
		return fmt.Sprintf("column %d is outside line %d (0..%d): %s", col, line, len(lines[line-1]), msg)
	}
	return ""
}

const c07Module = `module m {
	namespace "urn:m";
	prefix m;
	organization 'org' + "x";
	contact "a
	         b\n\t\"c\\";
	revision 2020-01-02 { description "r"; }
	/* block comment */
	// line comment
	typedef t { type string { length "1..max"; pattern '[a-z]+'; } }
	container c {
		list l { key "a"; leaf a { type t; } }
	}
}
`

// ---------------------------------------------------------------- findings

// FINDING 1.  Tree.errorf splices the input name into the *format string*
// of fmt.Errorf, so every lexer/parser level error (unexpected token,
// unterminated string/comment/block, ...) for an input whose name contains
// '%' does not name the input any more (and also loses the token / context
// it wanted to report).  Errors coming from the node checks (ErrorContext)
// print the very same name correctly.
func TestC07PercentInInputNameGarblesError(t *testing.T) {
	names := []string{"my%20mod.yang", "100%.yang", "a%d.yang", "%s"}
	texts := []string{
		"",                        // EOF at once
		"module",                  // ends inside a statement
		"module m { prefix \"",    // ends inside a string
		"module m { /* ",          // ends inside a comment
		"module m { leaf a { } ",  // ends inside a block
	}
	for _, name := range names {
		for _, text := range texts {
			if v := c07Check(name, text); v != "" {
				t.Errorf("Parse(%q, %q): %s", name, text, v)
			}
		}
	}
}

// FINDING 2.  The parser recurses once per '{' (stmt -> stmtBody -> stmtStar
// -> stmt, 600 bytes of stack per level) with no depth limit.  A 2 MB text
// that merely opens 1,000,000 blocks ("a{a{a{...", i.e. a text that ends
// inside a block) exhausts the 1 GB goroutine stack limit: the Go runtime
// aborts the whole process with "fatal error: stack overflow", which no
// caller can recover from.  The parse is run in a child process.
func TestC07DeepNestingKillsProcess(t *testing.T) {
	out, err := c07RunChild(t, "1000000")
	if err != nil {
		first := out
		if i := strings.Index(first, "\n\n"); i > 0 {
			first = first[:i]
		}
		t.Fatalf("process running Parse on 1,000,000 unclosed blocks died (%v):\n%.400s", err, first)
	}
	if !strings.Contains(out, "C07CHILD returned") {
		t.Fatalf("child did not report a return of Parse:\n%.400s", out)
	}
}

func c07RunChild(t *testing.T, depth string) (string, error) {
	cmd := exec.Command(os.Args[0], "-test.run=^TestC07DeepNestingChild$", "-test.v")
	cmd.Env = append(os.Environ(), "C07_CHILD_DEPTH="+depth)
	b, err := cmd.CombinedOutput()
	return string(b), err
}

// Helper run in the child process only.
func TestC07DeepNestingChild(t *testing.T) {
	d := os.Getenv("C07_CHILD_DEPTH")
	if d == "" {
		t.Skip("helper for TestC07DeepNestingKillsProcess")
	}
	var n int
	fmt.Sscanf(d, "%d", &n)
	text := strings.Repeat("a{", n)
	tree, err := Parse("deep.yang", text, nil)
	fmt.Printf("C07CHILD returned tree=%v err=%.120v\n", tree != nil, err)
	if err == nil {
		t.Errorf("unterminated blocks accepted")
	}
}

// ---------------------------------------------------------------- controls

// Every prefix of a module (every way the text can end inside a token,
// string, comment or block), every suffix, and every single-byte deletion.
func TestC07ControlTruncations(t *testing.T) {
	for i := 0; i <= len(c07Module); i++ {
		if v := c07Check("trunc.yang", c07Module[:i]); v != "" {
			t.Errorf("prefix of length %d: %s", i, v)
		}
		if v := c07Check("suffix.yang", c07Module[i:]); v != "" {
			t.Errorf("suffix from %d: %s", i, v)
		}
		if i < len(c07Module) {
			if v := c07Check("del.yang", c07Module[:i]+c07Module[i+1:]); v != "" {
				t.Errorf("deletion of byte %d: %s", i, v)
			}
		}
	}
	if v := c07Check("whole.yang", c07Module); v != "" {
		t.Errorf("whole: %s", v)
	}
}

// The same names are reported correctly by the other error path.
func TestC07ControlPercentNameOnCheckPath(t *testing.T) {
	for _, name := range []string{"my%20mod.yang", "100%.yang", "a%d.yang", "%s"} {
		for _, text := range []string{"module m { leaf xml; }", "module m { }", "module m { prefix m; prefix m; }"} {
			if v := c07Check(name, text); v != "" {
				t.Errorf("Parse(%q, %q): %s", name, text, v)
			}
		}
	}
}

// 10,000 levels are fine (error: unterminated statement block).
func TestC07ControlModerateNesting(t *testing.T) {
	out, err := c07RunChild(t, "10000")
	if err != nil || !strings.Contains(out, "C07CHILD returned") {
		t.Fatalf("%v\n%.400s", err, out)
	}
}

// ---------------------------------------------------------------- doubtful

func c07Doubtful(t *testing.T) {
	if os.Getenv("HUNT_DOUBTFUL") == "" {
		t.Skip("doubtful; set HUNT_DOUBTFUL=1 to run")
	}
}

// A Tree that is used for a second Tree.Parse after a failed one keeps the
// stale one-token lookahead (peekCount is never reset), so a valid text is
// rejected with "unexpected EOF in file" at 1:0.  parse.Parse always makes a
// fresh Tree, so the property as observed through parse.Parse is not touched.
func TestC07DoubtfulReusedTreeStaleLookahead(t *testing.T) {
	c07Doubtful(t)
	tr := New("reuse.yang", nil)
	if _, err := tr.Parse("module"); err == nil {
		t.Fatal("expected an error for the truncated text")
	}
	if _, err := tr.Parse(c07Module); err != nil {
		t.Errorf("second Tree.Parse on the same Tree rejects a valid module: %v", err)
	}
}

// A "//" comment that ends at the end of the text (no final line break) is
// an "unclosed comment" error, although RFC 7950 6.1.1 only says that such a
// comment "ends at the end of the line".  An error with a position is still
// within what C07 allows.
func TestC07DoubtfulLineCommentAtEOF(t *testing.T) {
	c07Doubtful(t)
	text := "module m { namespace urn:m; prefix m; } // end"
	if _, err := Parse("eof.yang", text, nil); err != nil {
		t.Errorf("line comment ending at EOF: %v", err)
	}
	if _, err := Parse("eof.yang", text+"\n", nil); err != nil {
		t.Errorf("control with line break: %v", err)
	}
}

// trimWhitespace / escapeSequenceSubstitution build their result with
// s += piece, quadratic in the number of lines / backslashes of one
// double-quoted string: 0.8 MB take 6-10 s, 8 MB would take ~15 min.  It
// does terminate.
func TestC07DoubtfulQuadraticString(t *testing.T) {
	c07Doubtful(t)
	var took [2]time.Duration
	for i, n := range []int{20000, 80000} {
		text := "module m { namespace urn:m; prefix m; description \"" + strings.Repeat("abcdefghi\n", n) + "\"; }"
		start := time.Now()
		if r := c07Parse("q.yang", text, 10*time.Minute); r.err != nil || r.timeout {
			t.Fatalf("%v %v", r.err, r.timeout)
		}
		took[i] = time.Since(start)
	}
	t.Logf("20000 lines: %v, 80000 lines: %v", took[0], took[1])
	if took[1] > 8*took[0] {
		t.Errorf("4x the input took %.1fx the time", float64(took[1])/float64(took[0]))
	}
}
