// Hunt for violations of property C06 ("Compiled machines are immutable and
// safe under concurrency").  Belongs in xpath/grammars/expr (external test
// package, public API only).  Run with -race: the *Race tests look for race
// detector reports (or runtime "concurrent map" crashes) of a child process.
package expr_test

import (
	gocontext "context"
	"fmt"
	"os"
	"os/exec"
	"strings"
	"sync"
	"testing"

	sdcpb "github.com/sdcio/sdc-protos/sdcpb"
	"github.com/sdcio/yang-parser/xpath"
	"github.com/sdcio/yang-parser/xpath/grammars/expr"
)

// ---------------------------------------------------------------------------
// helpers
// ---------------------------------------------------------------------------

const huntChildEnv = "HUNT_C06_CHILD"

// huntRunChild re-executes the test binary so that only the named test runs,
// in "child" mode.  A data race report or a runtime "concurrent map" crash of
// the child is returned as text instead of killing the whole test binary.
func huntRunChild(t *testing.T, testName string) (out string, failed bool) {
	t.Helper()
	cmd := exec.Command(os.Args[0], "-test.run=^"+testName+"$", "-test.count=1")
	cmd.Env = append(os.Environ(), huntChildEnv+"=1", "GORACE=halt_on_error=0")
	b, err := cmd.CombinedOutput()
	return string(b), err != nil
}

// huntRaceExcerpt returns the first race report (or fatal error) of a child.
func huntRaceExcerpt(out string) string {
	for _, marker := range []string{"WARNING: DATA RACE", "fatal error: concurrent map"} {
		if i := strings.Index(out, marker); i >= 0 {
			ex := out[i:]
			if len(ex) > 1800 {
				ex = ex[:1800] + "\n..."
			}
			return ex
		}
	}
	return ""
}

func huntMustCompile(t *testing.T, e string) *xpath.Machine {
	t.Helper()
	m, err := expr.NewExprMachine(e, nil)
	if err != nil {
		t.Fatalf("cannot compile %q: %v", e, err)
	}
	return m
}

// ---------------------------------------------------------------------------
// A minimal data tree implementing xpath.Entry
// ---------------------------------------------------------------------------

type hnode struct {
	name     string
	keys     map[string]string
	parent   *hnode
	children []*hnode
	value    xpath.Datum
	lref     *hnode      // target if this leaf is a leafref
	path     *sdcpb.Path // the node's own absolute path, built once
	copyPath bool        // GetSdcpbPath hands out a private copy
}

func (n *hnode) add(name string, keys map[string]string, val xpath.Datum) *hnode {
	c := &hnode{name: name, keys: keys, parent: n, value: val, copyPath: n.copyPath}
	n.children = append(n.children, c)
	return c
}

func (n *hnode) buildPaths() {
	p := &sdcpb.Path{IsRootBased: true}
	var chain []*hnode
	for x := n; x != nil && x.parent != nil; x = x.parent {
		chain = append([]*hnode{x}, chain...)
	}
	for _, x := range chain {
		var k map[string]string
		if x.keys != nil {
			k = map[string]string{}
			for a, b := range x.keys {
				k[a] = b
			}
		}
		p.Elem = append(p.Elem, sdcpb.NewPathElem(x.name, k))
	}
	n.path = p
	for _, c := range n.children {
		c.buildPaths()
	}
}

func (n *hnode) root() *hnode {
	x := n
	for x.parent != nil {
		x = x.parent
	}
	return x
}

func (n *hnode) GetValue() (xpath.Datum, error) {
	if n.value == nil {
		return xpath.NewBoolDatum(true), nil
	}
	return n.value, nil
}

func (n *hnode) Navigate(path *sdcpb.Path) (xpath.Entry, error) {
	cur := n
	if path.IsRootBased {
		cur = n.root()
	}
	for _, pe := range path.GetElem() {
		if pe.GetName() == ".." {
			if cur.parent == nil {
				return nil, fmt.Errorf("%s: no parent of root", path.ToXPath(false))
			}
			cur = cur.parent
			continue
		}
		var found *hnode
	outer:
		for _, c := range cur.children {
			if c.name != pe.GetName() {
				continue
			}
			for k, v := range pe.GetKey() {
				if c.keys[k] != v {
					continue outer
				}
			}
			found = c
			break
		}
		if found == nil {
			return nil, fmt.Errorf("%s: no node %q", path.ToXPath(false), pe.GetName())
		}
		cur = found
	}
	return cur, nil
}

func (n *hnode) Copy() xpath.Entry { return n }

func (n *hnode) FollowLeafRef() (xpath.Entry, error) {
	if n.lref == nil {
		return nil, fmt.Errorf("%s is not a leafref", n.name)
	}
	return n.lref, nil
}

func (n *hnode) GetSdcpbPath() *sdcpb.Path {
	if n.copyPath {
		return n.path.DeepCopy()
	}
	return n.path
}

func (n *hnode) BreadthSearch(gocontext.Context, *sdcpb.Path) ([]xpath.Entry, error) {
	return nil, fmt.Errorf("not supported")
}

// huntTree builds
//
//	/top/default-mtu                       1400
//	/top/interface[name=eth0]/name         "eth0"
//	/top/interface[name=eth0]/mtu          1500
//	/top/interface[name=eth0]/peer         "eth1"  (leafref -> .../interface[name=eth1]/name)
//	/top/interface[name=eth1]/name         "eth1"
//	/top/interface[name=eth1]/mtu          9000
//	/top/interface[name=eth1]/peer         "eth0"  (leafref -> .../interface[name=eth0]/name)
//
// and returns the root, the context node /top/interface[name=eth0]/peer and
// the leafref target /top/interface[name=eth1]/name.
func huntTree(copyPath bool) (root, ctxNode, target *hnode) {
	root = &hnode{copyPath: copyPath}
	top := root.add("top", nil, nil)
	top.add("default-mtu", nil, xpath.NewNumDatum(1400))
	var names, peers []*hnode
	for i, mtu := range []float64{1500, 9000} {
		nm := fmt.Sprintf("eth%d", i)
		ifc := top.add("interface", map[string]string{"name": nm}, nil)
		names = append(names, ifc.add("name", nil, xpath.NewLiteralDatum(nm)))
		ifc.add("mtu", nil, xpath.NewNumDatum(mtu))
		peers = append(peers,
			ifc.add("peer", nil, xpath.NewLiteralDatum(fmt.Sprintf("eth%d", 1-i))))
	}
	peers[0].lref = names[1]
	peers[1].lref = names[0]
	root.buildPaths()
	return root, peers[0], names[1]
}

func huntRun(mach *xpath.Machine, start xpath.Entry) string {
	res := xpath.NewCtxFromCurrent(gocontext.Background(), mach, start).Run()
	return strings.TrimSpace(res.PrintResult())
}

// ---------------------------------------------------------------------------
// FINDING 1: runs with EnableValidation() write an unprotected global map
// ---------------------------------------------------------------------------

var huntValidationExprs = []string{
	"contains('abc', 'b')",
	"floor(1.5) + ceiling(1.5)",
	"string-length(concat('ab', 'cd'))",
	"not(starts-with('abc', 'x'))",
	"translate(normalize-space(' a b '), 'ab', 'AB')",
	"round(2.5) = 3 and boolean(1)",
}

func huntValidationWorkload(t *testing.T, validate bool) {
	type cm struct {
		e    string
		m    *xpath.Machine
		want string
	}
	var ms []cm
	for _, e := range huntValidationExprs {
		m := huntMustCompile(t, e)
		// sequential oracle, without the option under test
		want := strings.TrimSpace(xpath.NewCtxFromMach(m, nil).Run().PrintResult())
		ms = append(ms, cm{e, m, want})
	}
	var wg sync.WaitGroup
	for g := 0; g < 8; g++ {
		wg.Add(1)
		go func(g int) {
			defer wg.Done()
			for i := 0; i < 300; i++ {
				c := ms[(i+g)%len(ms)]
				// every run has its own, independent context
				res := xpath.NewCtxFromMach(c.m, nil).SetValidation(validate).Run()
				if got := strings.TrimSpace(res.PrintResult()); got != c.want {
					t.Errorf("%s: concurrent run gave %q, in isolation %q",
						c.e, got, c.want)
				}
			}
		}(g)
	}
	wg.Wait()
}

// Concurrent runs of compiled machines, each on its own context, with the
// public run option EnableValidation()/SetValidation(true), must be free of
// data races.  They are not: every built-in function called records itself
// in the package-level map testedFunctionTable without any lock.
func TestC06_ConcurrentValidatedRunsRace(t *testing.T) {
	if os.Getenv(huntChildEnv) != "" {
		huntValidationWorkload(t, true)
		return
	}
	out, failed := huntRunChild(t, "TestC06_ConcurrentValidatedRunsRace")
	if ex := huntRaceExcerpt(out); ex != "" {
		t.Fatalf("concurrent runs on independent contexts (validation enabled) race:\n%s", ex)
	}
	if failed {
		t.Fatalf("child failed:\n%s", out)
	}
}

// Control: the same workload without the validation option is race free.
func TestC06_Control_ConcurrentRunsNoValidation(t *testing.T) {
	if os.Getenv(huntChildEnv) != "" {
		huntValidationWorkload(t, false)
		return
	}
	out, failed := huntRunChild(t, "TestC06_Control_ConcurrentRunsNoValidation")
	if ex := huntRaceExcerpt(out); ex != "" || failed {
		t.Fatalf("control failed:\n%s\n%s", ex, out)
	}
}

// ---------------------------------------------------------------------------
// FINDING 2: deref(...)/step appends the steps to the path object it got from
// Entry.GetSdcpbPath(), i.e. a run modifies the data tree it is evaluated on
// ---------------------------------------------------------------------------

// The same machine is run three times on the same, unchanged data tree, each
// time on a fresh context.  Every run must return what the first one (and a
// run on a freshly built tree) returns.
func TestC06_DerefRunChangesLaterRuns(t *testing.T) {
	const e = "deref(.)/../../default-mtu"
	mach := huntMustCompile(t, e)

	_, freshCtx, _ := huntTree(false)
	want := huntRun(mach, freshCtx) // result in isolation
	if want != "NUMBER:\t1400" {
		t.Fatalf("unexpected result in isolation: %q", want)
	}

	_, ctxNode, target := huntTree(false)
	before := target.path.ToXPath(false)
	for run := 1; run <= 3; run++ {
		if got := huntRun(mach, ctxNode); got != want {
			t.Errorf("run %d of %q on the unchanged tree: got %q, in isolation %q",
				run, e, got, want)
		}
	}
	if after := target.path.ToXPath(false); after != before {
		t.Errorf("running the machine modified the path object of the leafref "+
			"target in the data tree:\n  before: %s\n  after:  %s", before, after)
	}
}

// A run of one machine changes what a later run of ANOTHER machine returns.
func TestC06_DerefRunChangesOtherMachine(t *testing.T) {
	m1 := huntMustCompile(t, "deref(.)/../mtu")
	m2 := huntMustCompile(t, "deref(.)")

	_, ctxNode, _ := huntTree(false)
	want := huntRun(m2, ctxNode)
	if want != "LITERAL:\teth1" {
		t.Fatalf("unexpected result in isolation: %q", want)
	}
	if got := huntRun(m1, ctxNode); got != "NUMBER:\t9000" {
		t.Fatalf("deref(.)/../mtu: got %q", got)
	}
	if got := huntRun(m2, ctxNode); got != want {
		t.Errorf("deref(.) after a run of deref(.)/../mtu on the same tree: "+
			"got %q, in isolation %q", got, want)
	}
}

func huntDerefConcurrentWorkload(t *testing.T, copyPath bool) {
	mach := huntMustCompile(t, "deref(.)/../mtu")
	_, ctxNode, _ := huntTree(copyPath)
	var wg sync.WaitGroup
	for g := 0; g < 4; g++ {
		wg.Add(1)
		go func() {
			defer wg.Done()
			for i := 0; i < 50; i++ {
				if got := huntRun(mach, ctxNode); got != "NUMBER:\t9000" {
					t.Errorf("got %q", got)
				}
			}
		}()
	}
	wg.Wait()
}

// Concurrent runs (own context each) over one read-only data tree race with
// each other because each of them appends to the tree's path object.
func TestC06_DerefConcurrentRunsRace(t *testing.T) {
	if os.Getenv(huntChildEnv) != "" {
		huntDerefConcurrentWorkload(t, false)
		return
	}
	out, failed := huntRunChild(t, "TestC06_DerefConcurrentRunsRace")
	if ex := huntRaceExcerpt(out); ex != "" {
		t.Fatalf("concurrent deref runs over a shared read-only tree race:\n%s", ex)
	}
	if failed {
		t.Fatalf("child failed:\n%s", out)
	}
}

// Control: if the Entry hands out private copies of its path, everything is
// repeatable and race free (so the tree implementation used here is sound).
func TestC06_Control_DerefWithCopiedPaths(t *testing.T) {
	if os.Getenv(huntChildEnv) != "" {
		huntDerefConcurrentWorkload(t, true)
		return
	}
	mach := huntMustCompile(t, "deref(.)/../../default-mtu")
	_, ctxNode, _ := huntTree(true)
	for run := 1; run <= 3; run++ {
		if got := huntRun(mach, ctxNode); got != "NUMBER:\t1400" {
			t.Errorf("run %d: got %q", run, got)
		}
	}
	out, failed := huntRunChild(t, "TestC06_Control_DerefWithCopiedPaths")
	if ex := huntRaceExcerpt(out); ex != "" || failed {
		t.Fatalf("control failed:\n%s\n%s", ex, out)
	}
}

// ---------------------------------------------------------------------------
// DOUBTFUL: RegisterCustomFunctions() is not synchronised with compilations
// ---------------------------------------------------------------------------

func huntRegisterWorkload(t *testing.T) {
	info := []xpath.CustomFunctionInfo{{
		Name: "hunt-twice",
		FnPtr: func(a []xpath.Datum) xpath.Datum {
			return xpath.NewNumDatum(2 * a[0].Number("hunt-twice"))
		},
		Args:          []xpath.DatumTypeChecker{xpath.TypeIsNumber},
		RetType:       xpath.TypeIsNumber,
		DefaultRetVal: xpath.NewNumDatum(0),
	}}
	var wg sync.WaitGroup
	wg.Add(2)
	go func() {
		defer wg.Done()
		for i := 0; i < 200; i++ {
			xpath.RegisterCustomFunctions(info)
		}
	}()
	go func() {
		defer wg.Done()
		for i := 0; i < 200; i++ {
			if _, err := expr.NewExprMachine("floor(1.5) + 1", nil); err != nil {
				t.Errorf("compile: %v", err)
			}
		}
	}()
	wg.Wait()
}

func TestC06_Doubtful_RegisterCustomFunctionsVsCompile(t *testing.T) {
	if os.Getenv(huntChildEnv) != "" {
		huntRegisterWorkload(t)
		return
	}
	out, failed := huntRunChild(t, "TestC06_Doubtful_RegisterCustomFunctionsVsCompile")
	if ex := huntRaceExcerpt(out); ex != "" {
		t.Fatalf("RegisterCustomFunctions races with a concurrent compilation:\n%s", ex)
	}
	if failed {
		t.Fatalf("child failed:\n%s", out)
	}
}
