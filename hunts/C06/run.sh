#!/bin/sh
# usage: run.sh <worktree>
# Copies hunt_test.go into <worktree>/xpath/grammars/expr, runs it with the
# race detector, removes it again.
WT="${1:?usage: run.sh <worktree>}"
HERE="$(cd "$(dirname "$0")" && pwd)"
PKG="$WT/xpath/grammars/expr"
DST="$PKG/hunt_c06_test.go"

export GOFLAGS=-mod=mod GOPROXY=off GOTOOLCHAIN=local
GO="${GO:-/root/go/pkg/mod/golang.org/toolchain@v0.0.1-go1.23.11.linux-amd64/bin/go}"

# generated, git-ignored parser needed to build xpath/...
if [ ! -f "$WT/xpath/grammars/leafref/leafref.go" ]; then
	(cd "$WT/xpath/grammars/leafref" &&
		${VERIF_ROOT:-/verif}/bin/goyacc -o leafref.go -p leafref leafref.y && rm -f y.output)
fi

cp "$HERE/hunt_test.go" "$DST"
trap 'rm -f "$DST"' EXIT INT TERM

cd "$WT" && "$GO" test -race -count=1 -v -run '^TestC06_' ./xpath/grammars/expr/
rc=$?
exit $rc
