// Hunt for violations of property C19 (encoders and decoders round-trip,
// decoding is total).  Belongs in data/encoding (external test package).
package encoding_test

import (
	"encoding/json"
	"fmt"
	"os"
	"os/exec"
	"sort"
	"strings"
	"testing"

	"github.com/sdcio/yang-parser/data/datanode"
	"github.com/sdcio/yang-parser/data/encoding"
	"github.com/sdcio/yang-parser/schema"
	"github.com/sdcio/yang-parser/testutils"
)

// ---------------------------------------------------------------- helpers

func c19Schema(t *testing.T, mods ...string) schema.ModelSet {
	t.Helper()
	bufs := [][]byte{}
	for _, m := range mods {
		bufs = append(bufs, []byte(m))
	}
	ms, err := testutils.GetFullSchema(bufs...)
	if err != nil {
		t.Fatalf("schema does not compile: %v", err)
	}
	return ms
}

func c19Mod(name, body string) string {
	return fmt.Sprintf("module %s { namespace \"urn:%s\"; prefix %s; %s }",
		name, name, name, body)
}

// canonical text of a tree: children sorted by name except under a list
// node (entry order is significant for user-ordered lists), values in order
func c19Dump(sn schema.Node, n datanode.DataNode, ind string) string {
	s := fmt.Sprintf("%s%s %q\n", ind, n.YangDataName(), n.YangDataValues())
	kids := []string{}
	for _, c := range n.YangDataChildren() {
		var csn schema.Node
		if sn != nil {
			csn = sn.Child(c.YangDataName())
		}
		kids = append(kids, c19Dump(csn, c, ind+"  "))
	}
	if _, isList := sn.(schema.List); !isList {
		sort.Strings(kids)
	}
	return s + strings.Join(kids, "")
}

func c19Dec(sn schema.Node, enc encoding.EncType, in string) (n datanode.DataNode, err error) {
	defer func() {
		if p := recover(); p != nil {
			err = fmt.Errorf("PANIC: %v", p)
		}
	}()
	return encoding.NewUnmarshaller(enc).SetValidation(schema.ValidateAll).
		Unmarshal(sn, []byte(in))
}

func c19MustDec(t *testing.T, sn schema.Node, enc encoding.EncType, in string) datanode.DataNode {
	t.Helper()
	n, err := c19Dec(sn, enc, in)
	if err != nil {
		t.Fatalf("decoding %s failed: %v", in, err)
	}
	return n
}

// The tree rooted at a ModelSet has the name "" and ToXML then emits the
// top-level elements without a root; wrap them as a NETCONF peer would.
func c19WrapXML(x []byte) string { return "<data>" + string(x) + "</data>" }

// all three encodings of n must decode to n again
func c19RoundTrip(t *testing.T, sn schema.Node, n datanode.DataNode) {
	t.Helper()
	want := c19Dump(sn, n, "")
	for _, e := range []struct {
		name string
		enc  encoding.EncType
		text string
	}{
		{"JSON", encoding.JSON, string(encoding.ToJSON(sn, n))},
		{"RFC7951", encoding.RFC7951, string(encoding.ToRFC7951(sn, n))},
		{"XML", encoding.XML, c19WrapXML(encoding.ToXML(sn, n))},
	} {
		n2, err := c19Dec(sn, e.enc, e.text)
		if err != nil {
			t.Errorf("%s encoding %s of the tree\n%sdoes not decode: %v",
				e.name, e.text, want, err)
			continue
		}
		if got := c19Dump(sn, n2, ""); got != want {
			t.Errorf("%s encoding %s decodes to a different tree\nwant:\n%sgot:\n%s",
				e.name, e.text, want, got)
		}
	}
}

func c19ExpectError(t *testing.T, sn schema.Node, enc encoding.EncType, in, why string) {
	t.Helper()
	n, err := c19Dec(sn, enc, in)
	if err == nil {
		t.Errorf("%s: decoding %s returned no error but the tree\n%s",
			why, in, c19Dump(sn, n, "  "))
	} else if strings.Contains(err.Error(), "PANIC") {
		t.Errorf("%s: decoding %s panicked: %v", why, in, err)
	}
}

const c19Basic = `
	leaf u8 { type uint8; }
	leaf i8 { type int8; }
	leaf s { type string; }
	leaf-list ll { type string; }
	leaf-list lu { type uint8; }
	list l { key k; leaf k { type string; } leaf v { type string; } }
	list ln { key k; leaf k { type uint8; } }
	container c { choice ch { case c1 { leaf a { type string; } } case c2 { leaf b { type string; } } } }
	leaf fl { type bits { bit b0; bit b1; } }
`

const c19ModA = `module mod-a { namespace "urn:a"; prefix a;
	identity base-id;
	identity local-id { base base-id; }
	container top {
	  leaf id { type identityref { base base-id; } }
	  list il { key id; leaf id { type identityref { base base-id; } } }
	  leaf u { type uint8; }
	}
}`
const c19ModB = `module mod-b { namespace "urn:b"; prefix bb;
	import mod-a { prefix aa; }
	identity remote-id { base aa:base-id; }
}`

// ------------------------------------------------------------ control tests

func TestC19_Control_RoundTrip(t *testing.T) {
	sn := c19Schema(t, c19Mod("m", c19Basic+`
	  leaf u64 { type uint64; } leaf i64 { type int64; }
	  leaf d { type decimal64 { fraction-digits 2; } }
	  leaf e { type empty; }
	  leaf-list ul { type string; ordered-by user; }`))
	n := c19MustDec(t, sn, encoding.RFC7951, `{"m:u8":5,"m:i8":-128,
	  "m:u64":"18446744073709551615","m:i64":"-9223372036854775808",
	  "m:d":"-0.05","m:e":[null],"m:s":"a<b>&\"\\\n\t\r' é",
	  "m:ul":["b","a","","c"],"m:l":[{"k":"b","v":"1"},{"k":"a"}]}`)
	c19RoundTrip(t, sn, n)
}

func TestC19_Control_Identityref(t *testing.T) {
	sn := c19Schema(t, c19ModA, c19ModB)
	n := c19MustDec(t, sn, encoding.RFC7951,
		`{"mod-a:top":{"id":"mod-b:remote-id","il":[{"id":"mod-b:remote-id"},{"id":"local-id"}]}}`)
	c19RoundTrip(t, sn, n)
	// qualified form of a local identity on a plain leaf, and a prefix
	// declared on the leaf element itself: both accepted
	c19MustDec(t, sn, encoding.RFC7951, `{"mod-a:top":{"id":"mod-a:local-id"}}`)
	c19MustDec(t, sn, encoding.XML,
		`<data><top xmlns="urn:a"><id xmlns:q="urn:b">q:remote-id</id></top></data>`)
}

// ----------------------------------------------------------------- findings

// F1: "+5" and "007" are legal lexical forms of an integer (RFC 7950 9.2.1)
// and are accepted by every decoder, but the value is kept as written and
// the JSON encoders write it out raw: {"u8":+5} is not JSON.
func TestC19_IntegerLexicalFormBreaksJSONEncoders(t *testing.T) {
	sn := c19Schema(t, c19Mod("m", c19Basic))
	for _, in := range []string{
		`<data><u8>+5</u8></data>`,
		`<data><u8>007</u8></data>`,
		`<data><i8>+5</i8></data>`,
	} {
		n := c19MustDec(t, sn, encoding.XML, in)
		for _, out := range [][]byte{encoding.ToJSON(sn, n), encoding.ToRFC7951(sn, n)} {
			if !json.Valid(out) {
				t.Errorf("tree decoded from %s is encoded as %s, which is not JSON", in, out)
			}
		}
		c19RoundTrip(t, sn, n)
	}
	// same value, three list entries: the key is compared as written
	n, err := c19Dec(sn, encoding.JSON, `{"ln":[{"k":1},{"k":"+1"},{"k":"01"}]}`)
	if err == nil {
		if cnt := len(n.YangDataChildren()[0].YangDataChildren()); cnt != 1 {
			t.Errorf("list ln holds %d entries whose key is the uint8 value 1", cnt)
		}
	}
}

// F2: a leaf has exactly one value.  An array with two members (JSON) or two
// child elements (XML) gives a leaf node with two values that passes
// ValidateAll; ToJSON then drops "b", ToXML writes two <s> elements that the
// XML decoder rejects.  An empty array gives a string leaf without a value,
// encoded as null and decoded again as "".
func TestC19_LeafCardinalityNotChecked(t *testing.T) {
	sn := c19Schema(t, c19Mod("m", c19Basic))
	c19ExpectError(t, sn, encoding.JSON, `{"s":["a","b"]}`, "leaf with two values")
	c19ExpectError(t, sn, encoding.RFC7951, `{"m:s":["a","b"]}`, "leaf with two values")
	c19ExpectError(t, sn, encoding.XML, `<data><s><x>a</x><x>b</x></s></data>`, "leaf with two values")
	c19ExpectError(t, sn, encoding.JSON, `{"s":[]}`, "string leaf without a value")
}

// F3: {"ll":[]} is accepted and gives a leaf-list node without entries.  Its
// JSON encodings are {"ll":null}, which decode to ONE entry "" (for lu, of
// type uint8, they do not decode at all); the XML encoding drops the node.
func TestC19_EmptyLeafListRoundTrip(t *testing.T) {
	sn := c19Schema(t, c19Mod("m", c19Basic))
	for _, in := range []string{`{"ll":[]}`, `{"lu":[]}`} {
		n, err := c19Dec(sn, encoding.JSON, in)
		if err != nil {
			continue // rejecting the input would be fine
		}
		for _, e := range []struct {
			enc  encoding.EncType
			text string
		}{
			{encoding.JSON, string(encoding.ToJSON(sn, n))},
			{encoding.RFC7951, string(encoding.ToRFC7951(sn, n))},
		} {
			n2, err := c19Dec(sn, e.enc, e.text)
			if err != nil {
				t.Errorf("%s -> %s does not decode: %v", in, e.text, err)
				continue
			}
			for _, c := range n2.YangDataChildren() {
				if len(c.YangDataValues()) != 0 {
					t.Errorf("%s -> %s -> leaf-list %s now has the entries %q",
						in, e.text, c.YangDataName(), c.YangDataValues())
				}
			}
		}
	}
}

// F4: member names are stripped of any "xxx:" prefix without looking at it,
// and members that name the same schema node are not detected: the tree gets
// two leaves u (1 and 2) resp. two containers top, the encoders then write
// objects with a duplicate member.
func TestC19_SameNodeTwiceViaQualifiedAndPlainName(t *testing.T) {
	sn := c19Schema(t, c19ModA, c19ModB)
	c19ExpectError(t, sn, encoding.RFC7951,
		`{"mod-a:top":{"u":1,"mod-a:u":2}}`, "leaf u given twice")
	c19ExpectError(t, sn, encoding.RFC7951,
		`{"mod-a:top":{"u":1},"top":{"u":2}}`, "container top given twice")
	c19ExpectError(t, sn, encoding.JSON,
		`{"top":{"u":1,"x:u":2}}`, "leaf u given twice")
}

// F5: two list entries with the same key, and a (config) leaf-list with the
// same value twice, pass ValidateAll (RFC 7950 7.8.2, 7.7).
func TestC19_DuplicateKeysAccepted(t *testing.T) {
	sn := c19Schema(t, c19Mod("m", c19Basic))
	c19ExpectError(t, sn, encoding.JSON,
		`{"l":[{"k":"a","v":"1"},{"k":"a","v":"2"}]}`, "two entries with key a")
	c19ExpectError(t, sn, encoding.XML,
		`<data><l><k>a</k></l><l><k>a</k></l></data>`, "two entries with key a")
	c19ExpectError(t, sn, encoding.JSON, `{"lu":[1,1]}`, "leaf-list value 1 twice")
}

// F6: nodes of two cases of one choice in the same container pass
// ValidateAll (RFC 7950 7.9).
func TestC19_TwoCasesOfAChoiceAccepted(t *testing.T) {
	sn := c19Schema(t, c19Mod("m", c19Basic))
	c19ExpectError(t, sn, encoding.JSON, `{"c":{"a":"1","b":"2"}}`, "cases c1 and c2 together")
}

// F7: every tree that holds a node with a leafref, must or when whose
// expression has a path cannot be decoded with validation: the evaluation
// context made by xpath.NewCtxFromMach has no actualPathStack, the nil
// dereference is recovered and comes back as the decoder's error.
func TestC19_ValidTreeWithXPathConstraintRejected(t *testing.T) {
	sn := c19Schema(t, c19Mod("m", `
	  container top {
	    leaf a { type string; }
	    leaf lr { type leafref { path "../a"; } }
	    leaf mu { type string; must "../a = 'x'"; }
	    leaf wh { type string; when "../a = 'x'"; }
	    leaf dot { type string; must ". = 'q'"; }
	  }`))
	for _, in := range []string{
		`{"top":{"a":"x","lr":"x"}}`,
		`{"top":{"a":"x","mu":"1"}}`,
		`{"top":{"a":"x","wh":"1"}}`,
		`{"top":{"a":"x","dot":"q"}}`,
	} {
		n, err := c19Dec(sn, encoding.JSON, in)
		if err != nil {
			t.Errorf("valid tree %s is rejected: %v", in, err)
			continue
		}
		c19RoundTrip(t, sn, n)
	}
	// and the constraints have to bite
	c19ExpectError(t, sn, encoding.JSON, `{"top":{"a":"x","lr":"y"}}`, "dangling leafref")
}

// F8: RFC 7951 6.8: the namespace-qualified form of an identity is always
// allowed.  It is accepted on a leaf (see the control test) but the same
// value as a list key is rejected: getChildName validates the key as
// written, before isIdentityrefSimpleFormValid gets a chance.
func TestC19_QualifiedIdentityrefAsListKeyRejected(t *testing.T) {
	sn := c19Schema(t, c19ModA, c19ModB)
	n, err := c19Dec(sn, encoding.RFC7951, `{"mod-a:top":{"il":[{"id":"mod-a:local-id"}]}}`)
	if err != nil {
		t.Fatalf("key \"mod-a:local-id\" rejected: %v", err)
	}
	want := c19Dump(sn, c19MustDec(t, sn, encoding.RFC7951,
		`{"mod-a:top":{"il":[{"id":"local-id"}]}}`), "")
	if got := c19Dump(sn, n, ""); got != want {
		t.Errorf("want\n%sgot\n%s", want, got)
	}
}

// F9: in XML the prefix of an identityref value may be declared on any
// ancestor element (RFC 7950 9.10.3, XML namespaces); only declarations on
// the leaf element itself are looked at.
func TestC19_XMLIdentityrefPrefixDeclaredOnAncestor(t *testing.T) {
	sn := c19Schema(t, c19ModA, c19ModB)
	want := c19Dump(sn, c19MustDec(t, sn, encoding.XML,
		`<data><top xmlns="urn:a"><id xmlns:q="urn:b">q:remote-id</id></top></data>`), "")
	n, err := c19Dec(sn, encoding.XML,
		`<data xmlns:q="urn:b"><top xmlns="urn:a"><id>q:remote-id</id></top></data>`)
	if err != nil {
		t.Fatalf("prefix declared on the root element: %v", err)
	}
	if got := c19Dump(sn, n, ""); got != want {
		t.Errorf("want\n%sgot\n%s", want, got)
	}
}

// F10: bits (and instance-identifier) values are not validated at all.
func TestC19_BitsValueNotValidated(t *testing.T) {
	sn := c19Schema(t, c19Mod("m", c19Basic))
	c19MustDec(t, sn, encoding.JSON, `{"fl":"b0 b1"}`)
	c19ExpectError(t, sn, encoding.JSON, `{"fl":"nosuchbit"}`, "bit that is not defined")
	c19ExpectError(t, sn, encoding.XML, `<data><fl>b2</fl></data>`, "bit that is not defined")
}

// F11: decimal64 ranges are checked on a float64: values outside the range
// that round to a boundary are accepted.
func TestC19_Decimal64RangeCheckedInFloat(t *testing.T) {
	sn := c19Schema(t, c19Mod("m", `
	  leaf d1 { type decimal64 { fraction-digits 1; range "0 .. 900719925474099.2"; } }
	  leaf d18 { type decimal64 { fraction-digits 18; range "1.000000000000000001 .. 2"; } }`))
	c19MustDec(t, sn, encoding.JSON, `{"d1":"900719925474099.2","d18":"1.000000000000000001"}`)
	c19ExpectError(t, sn, encoding.JSON, `{"d1":"900719925474099.3"}`, "above the range")
	c19ExpectError(t, sn, encoding.JSON, `{"d18":"1.000000000000000000"}`, "below the range")
	c19ExpectError(t, sn, encoding.JSON, `{"d18":"0.999999999999999999"}`, "below the range")
}

// F12: deeply nested arrays crash the process ("fatal error: stack
// overflow", not recoverable) in the RFC 7951 decoder; encoding/json and
// encoding/xml, used for the other two encodings, report "exceeded max
// depth".  Run in a child process.
func TestC19_RFC7951DeepNestingKillsProcess(t *testing.T) {
	if os.Getenv("C19_DEEP_CHILD") == "1" {
		sn := c19Schema(t, c19Mod("m", `leaf s { type string; }`))
		const depth = 5000000
		in := `{"m:s":` + strings.Repeat("[", depth) + strings.Repeat("]", depth) + `}`
		_, err := c19Dec(sn, encoding.RFC7951, in)
		if err == nil {
			t.Errorf("no error")
		}
		return
	}
	cmd := exec.Command(os.Args[0], "-test.run=^TestC19_RFC7951DeepNestingKillsProcess$")
	cmd.Env = append(os.Environ(), "C19_DEEP_CHILD=1")
	out, err := cmd.CombinedOutput()
	if err != nil {
		msg := string(out)
		if i := strings.Index(msg, "\n\n"); i > 0 {
			msg = msg[:i]
		}
		t.Errorf("decoding 5,000,000 nested arrays: child process died: %v\n%s", err, msg)
	}
}

// F13: RFC 7951 section 4: a member name is qualified with the name of the
// MODULE; nodes defined in a submodule are written with the submodule's
// name ("sub:sc", and a needless "sub:sa" inside "mm:c").
func TestC19_RFC7951UsesSubmoduleName(t *testing.T) {
	m := `module mm { namespace "urn:mm"; prefix mm; include sub; container c { leaf x { type string; } } }`
	s := `submodule sub { belongs-to mm { prefix mm; } container sc { leaf x { type string; } } augment /mm:c { leaf sa { type string; } } }`
	sn := c19Schema(t, m, s)
	n := c19MustDec(t, sn, encoding.RFC7951, `{"mm:sc":{"x":"1"},"mm:c":{"x":"2","sa":"3"}}`)
	out := string(encoding.ToRFC7951(sn, n))
	if strings.Contains(out, `"sub:`) || !strings.Contains(out, `"mm:sc"`) {
		t.Errorf("ToRFC7951 = %s", out)
	}
}

// F14: the string type accepts characters that are not YANG characters
// (RFC 7950 9.4 / RFC 6020 9.4: no C0 controls but tab, LF, CR; no
// noncharacters).  ToXML turns them into U+FFFD, so the XML encoding of the
// accepted tree decodes to a different value.
func TestC19_NonYangCharacterAlteredByXML(t *testing.T) {
	sn := c19Schema(t, c19Mod("m", c19Basic))
	for _, in := range []string{`{"s":"a\u0001b"}`, `{"s":"a\ufffeb"}`} {
		n, err := c19Dec(sn, encoding.JSON, in)
		if err != nil {
			continue // rejecting is what RFC 7950 9.4 asks for
		}
		c19RoundTrip(t, sn, n)
	}
}
