// Hunt for violations of property C10 ("the parse tree mirrors the source and
// ignores trivia").  This file belongs in the directory parse/ of the
// worktree (package parse_test).
package parse_test

import (
	"fmt"
	"os"
	"strings"
	"testing"

	"github.com/sdcio/yang-parser/parse"
)

const c10Head = "module m {\n namespace \"urn:m\";\n prefix m;\n"
const c10Tail = "\n}\n"

// c10Dump renders the tree: nesting, keyword, decoded argument and
// (optionally) the line:column of the keyword taken from ErrorContext().
func c10Dump(n parse.Node, depth int, withPos bool, sb *strings.Builder) {
	pos := ""
	if withPos {
		loc, _ := n.ErrorContext()
		parts := strings.SplitN(loc, ":", 4)
		if len(parts) >= 3 {
			pos = " @" + parts[1] + ":" + parts[2]
		}
	}
	fmt.Fprintf(sb, "%s%s %q%s\n", strings.Repeat("  ", depth),
		n.Statement(), n.Argument().String(), pos)
	for _, c := range n.Children() {
		c10Dump(c, depth+1, withPos, sb)
	}
}

func c10Parse(text string, withPos bool) (string, error) {
	tr, err := parse.Parse("c10", text, nil)
	if err != nil {
		return "", err
	}
	var sb strings.Builder
	c10Dump(tr.Root, 0, withPos, &sb)
	return sb.String(), nil
}

// c10Desc parses a module whose only body statement is
// "description <argText>;" and returns the decoded argument.
func c10Desc(t *testing.T, argText string) (string, bool) {
	t.Helper()
	tr, err := parse.Parse("c10", c10Head+" description "+argText+";"+c10Tail, nil)
	if err != nil {
		t.Errorf("description %s; is rejected: %v", argText, err)
		return "", false
	}
	d := tr.Root.ChildByType(parse.NodeDescription)
	if d == nil {
		t.Errorf("description %s; no description node in the tree", argText)
		return "", false
	}
	return d.Argument().String(), true
}

// ---------------------------------------------------------------------------
// Finding 1: escape sequences of a double-quoted string are substituted
// BEFORE the indentation / trailing-blank stripping of RFC 7950 6.1.3, so a
// "\n" escape is taken for a line break of the YANG file and a "\t" escape
// for layout whitespace.  The double-quoted form then decodes to another
// value than the equivalent single-quoted form.
// ---------------------------------------------------------------------------
func TestC10EscapeSequencesAreNotLayoutWhitespace(t *testing.T) {
	cases := []struct{ dq, sq, want string }{
		// blanks after an escaped newline (all on ONE source line)
		{`"a\n   b"`, "'a\n   b'", "a\n   b"},
		// blanks before an escaped newline (all on ONE source line)
		{`"a  \nb"`, "'a  \nb'", "a  \nb"},
		// escaped tab before an escaped newline (all on ONE source line)
		{`"a\t\nb"`, "'a\t\nb'", "a\t\nb"},
		// escaped tab at the start of a continuation line
		{"\"a\n\\tb\"", "'a\n\tb'", "a\n\tb"},
		// escaped tab in front of a real line break
		{"\"a\\t\nb\"", "", "a\t\nb"},
	}
	for _, c := range cases {
		got, ok := c10Desc(t, c.dq)
		if ok && got != c.want {
			t.Errorf("description %s; decodes to %q, want %q", c.dq, got, c.want)
		}
		if c.sq != "" {
			// control: the single-quoted form of the same value
			gotSq, ok := c10Desc(t, c.sq)
			if ok && gotSq != c.want {
				t.Errorf("control: description %s; decodes to %q, want %q", c.sq, gotSq, c.want)
			}
		}
	}
}

// ---------------------------------------------------------------------------
// Finding 2: a "//" comment that ends at the end of the input (no final line
// feed) turns an accepted text into a rejected one ("unclosed comment").
// ---------------------------------------------------------------------------
func TestC10LineCommentAtEndOfInput(t *testing.T) {
	base := c10Head + " leaf l { type string; }\n}"
	want, err := c10Parse(base, true)
	if err != nil {
		t.Fatalf("base text rejected: %v", err)
	}
	for _, trivia := range []string{" // the end", "\n// the end", "//"} {
		got, err := c10Parse(base+trivia, true)
		if err != nil {
			t.Errorf("appending the comment %q after the last token: %v", trivia, err)
			continue
		}
		if got != want {
			t.Errorf("appending %q changes the tree:\nwant:\n%s\ngot:\n%s", trivia, want, got)
		}
	}
	// control: the same comment followed by a line feed is fine
	if got, err := c10Parse(base+" // the end\n", true); err != nil || got != want {
		t.Errorf("control failed: %v\n%s", err, got)
	}
}

// ---------------------------------------------------------------------------
// Finding 3: a comment that directly follows an unquoted token (no blank in
// between) is not recognised; the comment text becomes part of the token
// (argument or even keyword).  RFC 6020 6.1.3 / RFC 7950 6.1.3: an unquoted
// string does not contain the comment sequences "//", "/*", "*/".
// ---------------------------------------------------------------------------
func TestC10CommentDirectlyAfterUnquotedToken(t *testing.T) {
	base := c10Head + " leaf l { type string; units u; }" + c10Tail
	want, err := c10Parse(base, false)
	if err != nil {
		t.Fatalf("base text rejected: %v", err)
	}
	variants := map[string]string{
		"block comment between argument and ';'": c10Head + " leaf l { type string; units u/*c*/; }" + c10Tail,
		"block comment between argument and '{'": c10Head + " leaf l/*c*/{ type string; units u; }" + c10Tail,
		"block comment between keyword and argument": c10Head + " leaf/*c*/l { type string; units u; }" + c10Tail,
		"line comment between argument and ';'": c10Head + " leaf l { type string; units u// c\n; }" + c10Tail,
		"line comment between argument and '{'": c10Head + " leaf l// c\n{ type string; units u; }" + c10Tail,
	}
	for name, text := range variants {
		got, err := c10Parse(text, false)
		if err != nil {
			t.Errorf("%s: text rejected: %v", name, err)
			continue
		}
		if got != want {
			t.Errorf("%s: tree changed\nwant:\n%s\ngot:\n%s", name, want, got)
		}
	}
	// controls: the same comments separated by a blank, or after ';' / a quote
	controls := []string{
		c10Head + " leaf l { type string; units u /*c*/; }" + c10Tail,
		c10Head + " leaf l /*c*/{ type string;/*c*/ units 'u'/*c*/; }// c\n}\n",
		c10Head + " leaf /*c*/l { type string;// c\n units \"u\"// c\n; }" + c10Tail,
	}
	for _, text := range controls {
		if got, err := c10Parse(text, false); err != nil || got != want {
			t.Errorf("control failed: %v\n%s", err, got)
		}
	}
}

// ---------------------------------------------------------------------------
// Finding 4: an unquoted argument that starts with "+" is rejected, although
// its quoted forms are accepted ("+" is only the concatenation operator
// between quoted strings; RFC 7950 6.1.3 does not exclude it from unquoted
// strings, and "+5" is a legal integer default).
// ---------------------------------------------------------------------------
func TestC10UnquotedArgumentStartingWithPlus(t *testing.T) {
	quoted := c10Head + " leaf l { type int8; default \"+5\"; }" + c10Tail
	squoted := c10Head + " leaf l { type int8; default '+5'; }" + c10Tail
	unquoted := c10Head + " leaf l { type int8; default +5; }" + c10Tail
	want, err := c10Parse(quoted, true)
	if err != nil {
		t.Fatalf("double-quoted form rejected: %v", err)
	}
	if got, err := c10Parse(squoted, true); err != nil || got != want {
		t.Errorf("control (single-quoted form) failed: %v\n%s", err, got)
	}
	got, err := c10Parse(unquoted, true)
	if err != nil {
		t.Fatalf("unquoted form of the same value rejected: %v", err)
	}
	// the unquoted form is two bytes shorter; nothing follows on that line
	// except tokens whose position is not recorded, so the dumps are equal
	if got != want {
		t.Errorf("unquoted form changes the tree:\nwant:\n%s\ngot:\n%s", want, got)
	}
}

// ---------------------------------------------------------------------------
// Doubtful observations; only run with HUNT_DOUBTFUL=1.
// ---------------------------------------------------------------------------
func TestC10DoubtfulChoiceShorthandGetsSyntheticCase(t *testing.T) {
	if os.Getenv("HUNT_DOUBTFUL") == "" {
		t.Skip("doubtful; set HUNT_DOUBTFUL=1")
	}
	text := c10Head + " choice c { leaf a { type string; } anyxml x; }" + c10Tail
	got, err := c10Parse(text, false)
	if err != nil {
		t.Fatal(err)
	}
	want := "module \"m\"\n  namespace \"urn:m\"\n  prefix \"m\"\n  choice \"c\"\n    leaf \"a\"\n      type \"string\"\n    anyxml \"x\"\n"
	if got != want {
		t.Errorf("tree contains statements that are not in the source:\nwant:\n%s\ngot:\n%s", want, got)
	}
}

func TestC10DoubtfulBackslashR(t *testing.T) {
	if os.Getenv("HUNT_DOUBTFUL") == "" {
		t.Skip("doubtful; set HUNT_DOUBTFUL=1")
	}
	// RFC 6020/7950 6.1.3 define exactly four escapes: \n \t \" \\ .
	if got, ok := c10Desc(t, `"a\rb"`); ok && got != `a\rb` {
		t.Errorf(`"a\rb" decodes to %q, want %q (as for any other undefined escape)`, got, `a\rb`)
	}
}

// ---------------------------------------------------------------------------
// Control: trivia and quoting variations that the library handles correctly.
// ---------------------------------------------------------------------------
func TestC10ControlTriviaAndQuoting(t *testing.T) {
	a := c10Head + " container c { presence \"has blanks\"; leaf x { type string; default \"it's\"; } }" + c10Tail
	b := "/* lead */module /**/ 'm'// c\n{namespace\t\"urn:\"+'m';prefix\r\n\"m\"/**/;" +
		"container\n/* ; { } + ' \" */c{presence 'has '\n+ // x\n \"blanks\";leaf \"x\"{type 'str' + \"ing\"{}default \"it\" + \"'s\";}}}/* tail */\n"
	wa, err := c10Parse(a, false)
	if err != nil {
		t.Fatal(err)
	}
	wb, err := c10Parse(b, false)
	if err != nil {
		t.Fatal(err)
	}
	if wa != wb {
		t.Errorf("control failed:\n%s\n%s", wa, wb)
	}
}
