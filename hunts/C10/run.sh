#!/bin/sh
# usage: run.sh <worktree>   (extra args are passed to go test)
set -u
WT="${1:?worktree path}"; shift
HERE="$(cd "$(dirname "$0")" && pwd)"
export GOFLAGS=-mod=mod GOPROXY=off GOTOOLCHAIN=local
GO="${GO:-/root/go/pkg/mod/golang.org/toolchain@v0.0.1-go1.23.11.linux-amd64/bin/go}"
DST="$WT/parse/zz_hunt_c10_test.go"
cp "$HERE/hunt_test.go" "$DST"
trap 'rm -f "$DST"' EXIT INT TERM
cd "$WT" && "$GO" test ./parse/ -count=1 -run 'TestC10' -v "$@"
