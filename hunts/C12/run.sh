#!/bin/sh
# usage: run.sh <worktree>
# Copies the hunt test into <worktree>/compile, runs it, removes it again.
set -u
WT="${1:?usage: run.sh <worktree path>}"
HERE="$(cd "$(dirname "$0")" && pwd)"
export GOFLAGS=-mod=mod GOPROXY=off GOTOOLCHAIN=local
GO="${GO:-/root/go/pkg/mod/golang.org/toolchain@v0.0.1-go1.23.11.linux-amd64/bin/go}"
[ -x "$GO" ] || GO=go

# the generated (git-ignored) leafref parser is needed to build
if [ ! -f "$WT/xpath/grammars/leafref/leafref.go" ]; then
	(cd "$WT/xpath/grammars/leafref" && ${VERIF_ROOT:-/verif}/bin/goyacc -o leafref.go -p leafref leafref.y && rm -f y.output)
fi

DST="$WT/compile/c12_hunt_test.go"
cp "$HERE/hunt_test.go" "$DST"
(cd "$WT" && "$GO" test ./compile/ -count=1 -run 'TestC12Hunt' -v)
RC=$?
rm -f "$DST"
exit $RC
