// Bug hunt for property C12: "uses, refine and augment expand to the
// equivalent inline definition".
//
// This file belongs in the directory compile/ of the repository (package
// compile_test).  Every TestC12Hunt_* function demonstrates one violation and
// FAILS on the unchanged library; the TestC12HuntControl_* functions pass.

package compile_test

import (
	"fmt"
	"sort"
	"strings"
	"testing"

	"github.com/sdcio/yang-parser/compile"
	"github.com/sdcio/yang-parser/parse"
	"github.com/sdcio/yang-parser/schema"
)

// ---------------------------------------------------------------- helpers

type c12Feat map[string]bool

func (f c12Feat) Status(feature string) compile.FeatureStatus {
	if en, ok := f[feature]; ok && !en {
		return compile.DISABLED
	}
	return compile.ENABLED
}

func c12Mod(name, body string) string {
	return fmt.Sprintf("module %s {\n namespace \"urn:%s\";\n prefix %s;\n%s\n}\n",
		name, name, name, body)
}

func c12Sub(name, belongs, body string) string {
	return fmt.Sprintf("submodule %s {\n belongs-to %s { prefix %s; }\n%s\n}\n",
		name, belongs, belongs, body)
}

func c12Compile(texts ...string) (ms schema.ModelSet, err error) {
	defer func() {
		if r := recover(); r != nil {
			err = fmt.Errorf("PANIC: %v", r)
		}
	}()
	mods := make(map[string]*parse.Tree)
	for i, txt := range texts {
		t, perr := parse.Parse(fmt.Sprintf("schema%d", i), txt, nil)
		if perr != nil {
			return nil, perr
		}
		mods[t.Root.Argument().String()] = t
	}
	return compile.CompileParseTrees(nil, mods, c12Feat(nil), false,
		compile.Include(compile.IsConfig, compile.IncludeState(true)))
}

func c12Indent(s, ind string) string {
	var sb strings.Builder
	for _, l := range strings.Split(strings.TrimRight(s, "\n"), "\n") {
		sb.WriteString(ind + l + "\n")
	}
	return sb.String()
}

func c12Type(t schema.Type) string {
	if t == nil {
		return "<nil>"
	}
	d, ok := t.Default()
	s := fmt.Sprintf("%T(%s:%s def=%q/%v)", t, t.Name().Space, t.Name().Local, d, ok)
	switch v := t.(type) {
	case schema.Leafref:
		s += "\n" + v.Mach().PrintMachine()
	case schema.Identityref:
		ids := []string{}
		for _, i := range v.Identities() {
			ids = append(ids, fmt.Sprintf("%s|%s|%s", i.Module, i.Namespace, i.Val))
		}
		sort.Strings(ids)
		s += fmt.Sprintf(" ids=%v", ids)
	case schema.Union:
		for _, m := range v.Typs() {
			s += " [" + c12Type(m) + "]"
		}
	}
	return s
}

func c12CollectChoiceKids(n schema.Node, set map[string]bool) {
	switch n.(type) {
	case schema.Choice, schema.Case:
		for _, ch := range n.Choices() {
			c12CollectChoiceKids(ch, set)
		}
		for _, k := range n.Children() {
			set[k.Name()] = true
		}
	}
}

func c12DumpKids(sb *strings.Builder, ind string, n schema.Node) {
	inChoice := map[string]bool{}
	for _, ch := range n.Choices() {
		c12DumpNode(sb, ind, ch)
		c12CollectChoiceKids(ch, inChoice)
	}
	kids := n.Children()
	sort.Slice(kids, func(i, j int) bool { return kids[i].Name() < kids[j].Name() })
	for _, k := range kids {
		if inChoice[k.Name()] {
			continue
		}
		c12DumpNode(sb, ind, k)
	}
}

func c12DumpNode(sb *strings.Builder, ind string, n schema.Node) {
	fmt.Fprintf(sb, "%s%T %s ns=%s mod=%s sub=%s config=%v status=%v mand=%v desc=%q",
		ind, n, n.Name(), n.Namespace(), n.Module(), n.Submodule(), n.Config(),
		n.Status(), n.Mandatory(), n.Description())
	switch v := n.(type) {
	case schema.Container:
		fmt.Fprintf(sb, " presence=%v", v.Presence())
	case schema.List:
		fmt.Fprintf(sb, " keys=%v limit=%v ordby=%s uniques=%v", v.Keys(), v.Limit(), v.OrdBy(), v.Uniques())
	case schema.LeafList:
		fmt.Fprintf(sb, " limit=%v ordby=%s type=%v", v.Limit(), v.OrdBy(), c12Type(v.Type()))
	case schema.Leaf:
		d, ok := v.Default()
		fmt.Fprintf(sb, " default=%q/%v type=%v", d, ok, c12Type(v.Type()))
	case schema.Choice:
		fmt.Fprintf(sb, " defcase=%q", v.DefaultCase())
	}
	sb.WriteString("\n")
	for _, w := range n.Whens() {
		fmt.Fprintf(sb, "%s  when asParent=%v ns=%s\n%s", ind, w.RunAsParent, w.Namespace,
			c12Indent(w.Mach.PrintMachine(), ind+"      | "))
	}
	for _, m := range n.Musts() {
		fmt.Fprintf(sb, "%s  must ns=%s tag=%q\n%s", ind, m.Namespace, m.AppTag,
			c12Indent(m.Mach.PrintMachine(), ind+"      | "))
	}
	c12DumpKids(sb, ind+"  ", n)
}

// c12Dump is a canonical dump of the compiled ModelSet (data tree, rpcs and
// notifications).
func c12Dump(ms schema.ModelSet) string {
	var sb strings.Builder
	sb.WriteString("== data\n")
	c12DumpKids(&sb, "  ", ms)
	names := []string{}
	for ns := range ms.Rpcs() {
		names = append(names, ns)
	}
	sort.Strings(names)
	for _, ns := range names {
		rn := []string{}
		for r := range ms.Rpcs()[ns] {
			rn = append(rn, r)
		}
		sort.Strings(rn)
		for _, r := range rn {
			rpc := ms.Rpcs()[ns][r]
			fmt.Fprintf(&sb, "== rpc %s %s input\n", ns, r)
			c12DumpKids(&sb, "  ", rpc.Input())
			fmt.Fprintf(&sb, "== rpc %s %s output\n", ns, r)
			c12DumpKids(&sb, "  ", rpc.Output())
		}
	}
	names = names[:0]
	for ns := range ms.Notifications() {
		names = append(names, ns)
	}
	sort.Strings(names)
	for _, ns := range names {
		rn := []string{}
		for r := range ms.Notifications()[ns] {
			rn = append(rn, r)
		}
		sort.Strings(rn)
		for _, r := range rn {
			fmt.Fprintf(&sb, "== notif %s %s\n", ns, r)
			c12DumpKids(&sb, "  ", ms.Notifications()[ns][r].Schema())
		}
	}
	return sb.String()
}

// c12Same compiles the module set that uses groupings / augments and the
// module set in which these are written in place and requires the same
// canonical dump.
func c12Same(t *testing.T, orig, inl []string) {
	t.Helper()
	msI, errI := c12Compile(inl...)
	if errI != nil {
		t.Fatalf("the inlined form does not compile (bug in the test): %v", errI)
	}
	msO, errO := c12Compile(orig...)
	if errO != nil {
		t.Fatalf("the inlined form compiles, but the form with uses/augment is rejected: %v", errO)
	}
	if dO, dI := c12Dump(msO), c12Dump(msI); dO != dI {
		t.Fatalf("dumps differ\n--- with uses/augment\n%s\n--- inlined\n%s", dO, dI)
	}
}

func c12Child(t *testing.T, n schema.Node, path ...string) schema.Node {
	t.Helper()
	for _, p := range path {
		n = n.Child(p)
		if n == nil {
			t.Fatalf("no schema node %v (missing %s)", path, p)
		}
	}
	return n
}

// ---------------------------------------------------------------- findings

// RFC 6020 7.15: the target node of an augment may be a notification (or a
// node inside one).  The library cannot resolve such a path at all.
func TestC12Hunt_AugmentNotification(t *testing.T) {
	t.Run("notification itself", func(t *testing.T) {
		c12Same(t,
			[]string{c12Mod("a", `
notification n { leaf nl { type string; } }
augment /n { leaf added { type string; } }`)},
			[]string{c12Mod("a", `
notification n { leaf nl { type string; } leaf added { type string; } }`)})
	})
	t.Run("container inside a notification", func(t *testing.T) {
		c12Same(t,
			[]string{c12Mod("a", `
notification n { container c { leaf x { type string; } } }
augment /n/c { leaf added { type string; } }`)},
			[]string{c12Mod("a", `
notification n { container c { leaf x { type string; } leaf added { type string; } } }`)})
	})
}

// The 'when' of an augment is evaluated with the augment's target node as
// context (RunAsParent).  When the augment sits inside a uses and also
// contains a uses, the flag is lost on ALL nodes the augment introduces: the
// 'when' statement node is shared and the inner uses expansion resets it.
func TestC12Hunt_UsesAugmentWhenWithNestedUses(t *testing.T) {
	ms, err := c12Compile(c12Mod("a", `
grouping g2 { leaf z { type string; } }
grouping g { container c { leaf sel { type string; } } }
container top { uses g { augment c { when "sel = 'a'"; leaf y { type string; } uses g2; } } }`))
	if err != nil {
		t.Fatal(err)
	}
	for _, name := range []string{"y", "z"} {
		whens := c12Child(t, ms, "top", "c", name).Whens()
		if len(whens) != 1 {
			t.Fatalf("%s: expected 1 when, got %d", name, len(whens))
		}
		if !whens[0].RunAsParent {
			t.Errorf("leaf %s introduced by 'augment c { when ...}': the when is run with the leaf "+
				"itself as context node (RunAsParent=false), not with the target node c", name)
		}
	}
	// ... and the same thing compared with the equivalent module level augment
	c12Same(t,
		[]string{c12Mod("a", `
grouping g2 { leaf z { type string; } }
grouping g { container c { leaf sel { type string; } } }
container top { uses g { augment c { when "sel = 'a'"; leaf y { type string; } uses g2; } } }`)},
		[]string{c12Mod("a", `
container top { container c { leaf sel { type string; } } }
augment /top/c { when "sel = 'a'"; leaf y { type string; } leaf z { type string; } }`)})
}

// RFC 6020 7.19.5 / RFC 7950 7.21.5: the context node of a 'when' that is a
// child of a 'uses' is the closest ancestor data node of the uses, ie the
// parent of the nodes the uses introduces - exactly as for an augment.  The
// library stores the when on every introduced node (fine) but marks it to be
// run with that node itself as the context node.
func TestC12Hunt_UsesWhenContextNode(t *testing.T) {
	ms, err := c12Compile(c12Mod("a", `
grouping g { container inner { leaf x { type string; } } leaf lf { type string; } }
container top { leaf sel { type string; } uses g { when "sel = 'a'"; } }`))
	if err != nil {
		t.Fatal(err)
	}
	for _, name := range []string{"inner", "lf"} {
		whens := c12Child(t, ms, "top", name).Whens()
		if len(whens) != 1 {
			t.Fatalf("%s: expected 1 when, got %d", name, len(whens))
		}
		if !whens[0].RunAsParent {
			t.Errorf("%s introduced by 'uses g { when \"sel = 'a'\"; }' in container top: "+
				"RunAsParent=false, so 'sel' is looked up below %s instead of below top", name, name)
		}
	}
}

// A grouping of module a has a leaf of type identityref with a default that
// names an identity of module a without prefix (the only spelling the library
// accepts inside module a).  Module a can use the grouping, module b cannot.
func TestC12Hunt_IdentityrefDefaultInImportedGrouping(t *testing.T) {
	modA := c12Mod("a", `
identity base;
identity der { base base; }
grouping g { leaf id { type identityref { base base; } default der; } }
container atop { uses g; }`)
	c12Same(t,
		[]string{modA, c12Mod("b", `import a { prefix a; } container btop { uses a:g; }`)},
		[]string{modA, c12Mod("b", `import a { prefix a; }
container btop { leaf id { type identityref { base a:base; } default a:der; } }`)})
}

// In a submodule a 'uses' can only see the groupings at the top level of the
// submodule; groupings defined in an enclosing container or grouping are not
// found (in a module they are).
func TestC12Hunt_SubmoduleScopedGrouping(t *testing.T) {
	mainA := "module a { namespace \"urn:a\"; prefix a; include s1; }"
	t.Run("grouping scoped to a container", func(t *testing.T) {
		c12Same(t,
			[]string{mainA, c12Sub("s1", "a", `
container top { grouping lg { leaf il { type string; } } container c { uses lg; } }`)},
			[]string{mainA, c12Sub("s1", "a", `
container top { container c { leaf il { type string; } } }`)})
	})
	t.Run("grouping scoped to a grouping", func(t *testing.T) {
		c12Same(t,
			[]string{mainA, c12Sub("s1", "a", `
grouping sg { grouping inner { leaf il { type string; } } container c { uses inner; } }
container top { uses sg; }`)},
			[]string{mainA, c12Sub("s1", "a", `
container top { container c { leaf il { type string; } } }`)})
	})
}

// RFC 6020 6.2.1: a grouping is scoped to the statement it is defined in and
// to its descendants.  The library registers it one level too high (in the
// scope the parent statement is written in), so that two sibling statements
// cannot both have a local grouping of the same name, and a grouping is
// visible to the siblings of the statement that defines it.
func TestC12Hunt_GroupingScope(t *testing.T) {
	t.Run("same name in sibling containers", func(t *testing.T) {
		c12Same(t,
			[]string{c12Mod("a", `
container c1 { grouping x { leaf l1 { type string; } } uses x; }
container c2 { grouping x { leaf l2 { type string; } } uses x; }`)},
			[]string{c12Mod("a", `
container c1 { leaf l1 { type string; } }
container c2 { leaf l2 { type string; } }`)})
	})
	t.Run("same name in input and output", func(t *testing.T) {
		c12Same(t,
			[]string{c12Mod("a", `
rpc r {
  input { grouping x { leaf l1 { type string; } } uses x; }
  output { grouping x { leaf l2 { type string; } } uses x; }
}`)},
			[]string{c12Mod("a", `
rpc r { input { leaf l1 { type string; } } output { leaf l2 { type string; } } }`)})
	})
	t.Run("not visible to a sibling", func(t *testing.T) {
		_, err := c12Compile(c12Mod("a", `
container c1 { grouping x { leaf l1 { type string; } } }
container c2 { uses x; }`))
		if err == nil {
			t.Errorf("'uses x' in container c2 resolved to the grouping scoped to container c1")
		}
	})
}

// Two different groupings that have the same name in unrelated scopes: the
// cycle check identifies groupings by name and reports a cycle.
func TestC12Hunt_GroupingCycleFalsePositive(t *testing.T) {
	c12Same(t,
		[]string{c12Mod("a", `
container a { container a1 { grouping x { uses y; } uses x; } }
grouping y { container inner { grouping x { leaf l { type string; } } uses x; } }`)},
		[]string{c12Mod("a", `
container a { container a1 { container inner { leaf l { type string; } } } }`)})
}

// RFC 6020 6.2.1: choices share the identifier namespace of their sibling
// leafs, containers, ... "defined directly or through a uses statement".  A
// uses that brings in a choice x next to a leaf x is accepted.
func TestC12Hunt_ChoiceNameClashThroughUses(t *testing.T) {
	_, err := c12Compile(c12Mod("a", `
grouping g { choice x { leaf y { type string; } } }
container top { uses g; leaf x { type string; } }`))
	if err == nil {
		t.Errorf("container top has a choice x (from 'uses g') and a leaf x: accepted")
	}
}

// ---------------------------------------------------------------- controls

func TestC12HuntControl_AugmentRpcAndPlainUses(t *testing.T) {
	c12Same(t,
		[]string{c12Mod("a", `
grouping g2 { leaf z { type string; } }
grouping g { container c { leaf x { type string; } uses g2; } }
container top { uses g { refine c/x { default "d"; } augment c { leaf y { type string; } } } }
rpc r { input { leaf i { type string; } } }
augment /r/input { uses g2; }
augment /r/output { uses g2; }`)},
		[]string{c12Mod("a", `
container top { container c { leaf x { type string; default "d"; } leaf z { type string; } leaf y { type string; } } }
rpc r { input { leaf i { type string; } leaf z { type string; } } output { leaf z { type string; } } }`)})
}

func TestC12HuntControl_WhenOfAugment(t *testing.T) {
	// without the nested uses the flag survives; a module level augment with a
	// uses is fine too
	ms, err := c12Compile(c12Mod("a", `
grouping g2 { leaf z { type string; } }
grouping g { container c { leaf sel { type string; } } }
container top { uses g { augment c { when "sel = 'a'"; leaf y { type string; } } } }
container top2 { container c { leaf sel { type string; } } }
augment /top2/c { when "sel = 'a'"; leaf y { type string; } uses g2; }`))
	if err != nil {
		t.Fatal(err)
	}
	for _, p := range [][]string{{"top", "c", "y"}, {"top2", "c", "y"}, {"top2", "c", "z"}} {
		whens := c12Child(t, ms, p...).Whens()
		if len(whens) != 1 || !whens[0].RunAsParent {
			t.Errorf("%v: expected one when with RunAsParent", p)
		}
	}
}

func TestC12HuntControl_ScopedGroupingInModule(t *testing.T) {
	// what fails in a submodule works in a module
	c12Same(t,
		[]string{c12Mod("a", `
grouping sg { grouping inner { leaf il { type string; } } container c { uses inner; } }
container top { grouping lg { leaf l2 { type string; } } container d { uses lg; } uses sg; }`)},
		[]string{c12Mod("a", `
container top { container d { leaf l2 { type string; } } container c { leaf il { type string; } } }`)})
}

func TestC12HuntControl_IdentityrefDefaultLocalUse(t *testing.T) {
	_, err := c12Compile(c12Mod("a", `
identity base;
identity der { base base; }
grouping g { leaf id { type identityref { base base; } default der; } }
container atop { uses g; }`))
	if err != nil {
		t.Fatal(err)
	}
}

func TestC12HuntControl_RealCycleAndRealClash(t *testing.T) {
	if _, err := c12Compile(c12Mod("a", `
grouping x { container c { uses y; } } grouping y { uses x; } container top { uses x; }`)); err == nil {
		t.Errorf("a real grouping cycle is accepted")
	}
	if _, err := c12Compile(c12Mod("a", `
grouping g { leaf x { type string; } } container top { uses g; leaf x { type string; } }`)); err == nil {
		t.Errorf("a real name clash is accepted")
	}
}
