#!/bin/sh
# usage: run.sh <worktree>
# copies hunt_test.go into <worktree>/parse, runs the C09 hunt tests, removes it again
set -u
WT="${1:?usage: run.sh <worktree path>}"
HERE="$(cd "$(dirname "$0")" && pwd)"
export GOFLAGS=-mod=mod GOPROXY=off GOTOOLCHAIN=local
GO="${GO:-/root/go/pkg/mod/golang.org/toolchain@v0.0.1-go1.23.11.linux-amd64/bin/go}"
# generated, git-ignored parser needed to build the module's packages
if [ ! -f "$WT/xpath/grammars/leafref/leafref.go" ]; then
  (cd "$WT/xpath/grammars/leafref" && ${VERIF_ROOT:-/verif}/bin/goyacc -o leafref.go -p leafref leafref.y && rm -f y.output)
fi
DST="$WT/parse/c09_hunt_test.go"
cp "$HERE/hunt_test.go" "$DST"
trap 'rm -f "$DST"' EXIT INT TERM
cd "$WT" && "$GO" test ./parse -run 'TestC09Hunt' -count=1 -v
