package parse

// Hunt for property C09 (statement grammar: cardinality, ordering and
// argument syntax are enforced).  Belongs in the directory parse/ of the
// worktree (package parse).  Every TestC09Hunt_* function fails on the
// unchanged library; TestC09HuntControl_* pass.

import (
	"strings"
	"testing"
)

func c09Parse(text string) error {
	_, err := Parse("hunt", text, nil)
	return err
}

func c09Mod(body string) string {
	return "module m {\n namespace \"urn:m\";\n prefix m;\n" + body + "\n}"
}

type c09Case struct {
	name string
	text string
}

// every text must be rejected, and the error must mention `mention`
func c09MustReject(t *testing.T, mention string, cases []c09Case) {
	t.Helper()
	for _, c := range cases {
		err := c09Parse(c.text)
		if err == nil {
			t.Errorf("%s: accepted, want an error naming %q\n%s", c.name, mention, c.text)
			continue
		}
		if mention != "" && !strings.Contains(err.Error(), mention) {
			t.Errorf("%s: error %q does not name %q", c.name, err, mention)
		}
	}
}

func c09MustAccept(t *testing.T, cases []c09Case) {
	t.Helper()
	for _, c := range cases {
		if err := c09Parse(c.text); err != nil {
			t.Errorf("%s: rejected (%v), want accepted\n%s", c.name, err, c.text)
		}
	}
}

// ---------------------------------------------------------------------------
// 1. refine: substatements are not checked at all by parse.Parse
//    (checkCardinality returns early for NodeRefine, and there is no table)
//    RFC 6020 7.12.2 / ABNF refine-stmt: must, presence, default, config,
//    description, reference, mandatory, min-elements, max-elements; all but
//    must at most once.
// ---------------------------------------------------------------------------
func TestC09Hunt_RefineSubstatementsUnchecked(t *testing.T) {
	// control: everything refine may carry
	c09MustAccept(t, []c09Case{
		{"refine-all-legal", c09Mod(`uses g { refine x { must a; must b; presence p; default d; config true; description d; reference r; mandatory true; min-elements 1; max-elements 2; } }`)},
	})
	c09MustReject(t, "refine", []c09Case{
		// keyword never permitted under refine
		{"refine-type", c09Mod(`uses g { refine x { type string; } }`)},
		{"refine-leaf", c09Mod(`uses g { refine x { leaf y { type string; } } }`)},
		{"refine-key", c09Mod(`uses g { refine x { key a; } }`)},
		{"refine-status", c09Mod(`uses g { refine x { status current; } }`)},
		// cardinality 0..1 exceeded (these even survive the compiler: the
		// second statement silently replaces the first)
		{"refine-2description", c09Mod(`uses g { refine x { description a; description b; } }`)},
		{"refine-2config", c09Mod(`uses g { refine x { config true; config false; } }`)},
		{"refine-2default", c09Mod(`uses g { refine x { default a; default b; } }`)},
		{"refine-2mandatory", c09Mod(`uses g { refine x { mandatory true; mandatory false; } }`)},
	})
}

// ---------------------------------------------------------------------------
// 2. deviate: substatements are not checked although cardinality.go has the
//    tables (NodeDeviateNotSupported/Add/Delete/Replace); checkCardinality
//    returns early for IsDeviateNode().  RFC 6020 7.18.3.2.
// ---------------------------------------------------------------------------
func TestC09Hunt_DeviateSubstatementsUnchecked(t *testing.T) {
	c09MustAccept(t, []c09Case{
		{"deviate-legal", c09Mod(`deviation /m:c/m:l {
  deviate add { units u; must m; must n; unique a; unique b; default d; config true; mandatory true; min-elements 1; max-elements 2; }
  deviate delete { units u; must m; unique a; default d; }
  deviate replace { type string; units u; default d; config true; mandatory true; min-elements 1; max-elements 2; }
}
deviation /m:c { deviate not-supported; }`)},
	})
	c09MustReject(t, "deviate", []c09Case{
		// keyword not permitted under this kind of deviate
		{"not-supported-units", c09Mod(`deviation /a { deviate not-supported { units x; } }`)},
		{"add-type", c09Mod(`deviation /a { deviate add { type string; } }`)},
		{"add-leaf", c09Mod(`deviation /a { deviate add { leaf x { type string; } } }`)},
		{"add-description", c09Mod(`deviation /a { deviate add { description x; } }`)},
		{"delete-config", c09Mod(`deviation /a { deviate delete { config true; } }`)},
		{"replace-must", c09Mod(`deviation /a { deviate replace { must "x"; } }`)},
		// cardinality 0..1 exceeded (the replace cases also survive the compiler)
		{"add-2units", c09Mod(`deviation /a { deviate add { units x; units y; } }`)},
		{"replace-2units", c09Mod(`deviation /a { deviate replace { units x; units y; } }`)},
		{"replace-2type", c09Mod(`deviation /a { deviate replace { type int8; type int16; } }`)},
	})
}

// ---------------------------------------------------------------------------
// 3. The internal node-type names "deviate-add", "deviate-delete",
//    "deviate-replace", "deviate-not-supported" are in nodeNames and therefore
//    in nodeTypeMap, so they work as statement keywords: they are not YANG
//    statements, yet they are parsed as genuine deviate statements (not as
//    extensions), satisfy "deviate 1..n" and are applied by the compiler.
// ---------------------------------------------------------------------------
func TestC09Hunt_InternalDeviateNamesAreKeywords(t *testing.T) {
	for _, kw := range []string{"deviate-add add", "deviate-delete delete", "deviate-replace replace", "deviate-not-supported not-supported"} {
		text := c09Mod(`deviation /m:c { ` + kw + `; }`)
		tree, err := Parse("hunt", text, nil)
		if err != nil {
			// rejected: fine (e.g. "missing required 'deviate' statement")
			continue
		}
		// Accepted: then it must at least not have become a deviate statement
		dev := tree.Root.ChildByType(NodeDeviation)
		for _, ch := range dev.Children() {
			if ch.Type().IsDeviateNode() {
				t.Errorf("keyword %q (not a YANG statement) was accepted and parsed as node type %s", kw, ch.Type())
			}
		}
	}
}

// ---------------------------------------------------------------------------
// 4. pattern: the argument is compiled with Go's regexp (RE2) instead of being
//    checked as an XSD regular expression (RFC 6020 9.4.6).
//    4a. valid XSD patterns are rejected
// ---------------------------------------------------------------------------
func c09Pattern(p string) string {
	return c09Mod(`leaf l { type string { pattern '` + p + `'; } }`)
}

func TestC09Hunt_PatternValidXSDRejected(t *testing.T) {
	c09MustAccept(t, []c09Case{
		// XSD multi-character escapes \i \c \I \C (name characters)
		{`\i\c*`, c09Pattern(`\i\c*`)},
		{`[\i-[:]][\c-[:]]*`, c09Pattern(`[\i-[:]][\c-[:]]*`)}, // NCName, the textbook XSD pattern
		{`\C+`, c09Pattern(`\C+`)},
		// XSD block escapes \p{IsXxx}: only IsBasicLatin is translated
		{`\p{IsGreek}`, c09Pattern(`\p{IsGreek}`)},
		{`\p{IsCyrillic}+`, c09Pattern(`\p{IsCyrillic}+`)},
		{`\P{IsBasicLatin}`, c09Pattern(`\P{IsBasicLatin}`)},
		// XSD quantifiers have no upper bound of 1000
		{`a{1001}`, c09Pattern(`a{1001}`)},
		// controls
		{`\p{IsBasicLatin}+`, c09Pattern(`\p{IsBasicLatin}+`)},
		{`[a-z]+\d{2,3}`, c09Pattern(`[a-z]+\d{2,3}`)},
	})
}

//    4b. strings that are not XSD regular expressions are accepted
func TestC09Hunt_PatternInvalidXSDAccepted(t *testing.T) {
	c09MustReject(t, "pattern", []c09Case{
		// unbalanced parentheses: only balanced after the library wraps the
		// argument in "^(" ... ")$"
		{`a)(b`, c09Pattern(`a)(b`)},
		{`)(`, c09Pattern(`)(`)},
		// Perl / RE2 syntax that XSD does not have
		{`(?i)a`, c09Pattern(`(?i)a`)},
		{`(?P<n>a)`, c09Pattern(`(?P<n>a)`)},
		{`a*?`, c09Pattern(`a*?`)},
		{`\bfoo`, c09Pattern(`\bfoo`)},
		{`\Afoo\z`, c09Pattern(`\Afoo\z`)},
		{`\Qa.b\E`, c09Pattern(`\Qa.b\E`)},
		{`\x41`, c09Pattern(`\x41`)},
		// control: really unbalanced is rejected today
		{`(a`, c09Pattern(`(a`)},
	})
}

// ---------------------------------------------------------------------------
// 5. augment argument: the form is not tied to the context.  RFC 6020 ABNF:
//    augment-arg = absolute-schema-nodeid (module / submodule level),
//    uses-augment-arg = descendant-schema-nodeid (under uses).
//    getArgByType tries absolute and silently falls back to descendant.
// ---------------------------------------------------------------------------
func TestC09Hunt_AugmentArgumentFormByContext(t *testing.T) {
	c09MustAccept(t, []c09Case{
		{"top-absolute", c09Mod(`augment "/m:a/m:b" { leaf x { type string; } }`)},
		{"uses-descendant", c09Mod(`uses g { augment "a/m:b" { leaf x { type string; } } }`)},
	})
	c09MustReject(t, "augment", []c09Case{
		{"top-descendant", c09Mod(`augment "a/b" { leaf x { type string; } }`)},
		{"uses-absolute", c09Mod(`uses g { augment "/a/b" { leaf x { type string; } } }`)},
		{"submodule-top-descendant", "submodule s { belongs-to m { prefix m; } augment \"a\" { leaf x { type string; } } }"},
	})
}

// ---------------------------------------------------------------------------
// 6. length argument with a CRLF line break: RFC 6020 ABNF
//    length-arg = length-part *(optsep "|" optsep length-part),
//    optsep = *(WSP / line-break), line-break = CRLF / LF.
//    LengthArg.Parse strips " ", "\t", "\n" but not "\r".
// ---------------------------------------------------------------------------
func TestC09Hunt_LengthArgumentCRLF(t *testing.T) {
	c09MustAccept(t, []c09Case{
		{"lf (control)", c09Mod("leaf l { type string { length \"1 |\n 2\"; } }")},
		{"crlf around |", c09Mod("leaf l { type string { length \"1 |\r\n 2\"; } }")},
		{"crlf around ..", c09Mod("leaf l { type string { length \"1 ..\r\n 2\"; } }")},
		// the other blank separated arguments do take CRLF
		{"key crlf (control)", c09Mod("list l { key \"a\r\n b\"; leaf a { type string; } leaf b { type string; } }")},
		{"unique crlf (control)", c09Mod("list l { key a; unique \"a\r\n b\"; leaf a { type string; } leaf b { type string; } }")},
	})
}

// ---------------------------------------------------------------------------
// 7. malformed prefixed keywords.  RFC 6020 ABNF:
//    unknown-statement = prefix ":" identifier [sep string] ...
//    Any token that is not a YANG keyword becomes NodeUnknown, also tokens
//    with a colon that are not prefix ":" identifier.  (The tolerated vendor
//    habit of UNPREFIXED extension keywords is a known item and not meant
//    here.)
// ---------------------------------------------------------------------------
func TestC09Hunt_MalformedPrefixedKeyword(t *testing.T) {
	c09MustAccept(t, []c09Case{
		{"well-formed", c09Mod(`leaf l { type string; ex:foo "x"; ex:a.b-c_d; }`)},
	})
	for _, kw := range []string{"a:b:c", ":c", "c:", "1:2", "a:-b", "a::b"} {
		c09MustReject(t, kw, []c09Case{
			{kw, c09Mod(`leaf l { type string; ` + kw + ` "x"; }`)},
		})
	}
}

// ---------------------------------------------------------------------------
// Controls (pass on the unchanged library): the neighbourhood of the findings
// is handled correctly.
// ---------------------------------------------------------------------------
func TestC09HuntControl_Neighbourhood(t *testing.T) {
	c09MustReject(t, "", []c09Case{
		{"deviation without deviate", c09Mod(`deviation /a { description x; }`)},
		{"deviate bad kind", c09Mod(`deviation /a { deviate foo; }`)},
		{"deviate outside deviation", c09Mod(`leaf l { type string; deviate add; }`)},
		{"refine outside uses", c09Mod(`container c { refine x; }`)},
		{"refine absolute", c09Mod(`uses g { refine /a { config true; } }`)},
		{"augment empty", c09Mod(`augment "" { leaf x { type string; } }`)},
		{"augment trailing slash", c09Mod(`augment "/a/" { leaf x { type string; } }`)},
		{"length 3 dots", c09Mod(`leaf l { type string { length "1...2"; } }`)},
		{"pattern unbalanced", c09Pattern(`(a`)},
		{"uses with 2 when", c09Mod(`uses g { when a; when b; }`)},
	})
}
