// C20 hunt: schema filters prune top-down and change nothing else.
//
// Belongs in the directory compile/ of the worktree (package compile_test).
//
//   - TestC20Doubtful_ModelSetChoicesSameNameAcrossModules FAILS on the
//     unchanged library (reported as "doubtful", see findings.json).
//   - the TestHunt* functions are control tests of the differential harness
//     (filtered compile == unfiltered compile pruned top-down, for 19 filter
//     combinations); they PASS on the unchanged library.
package compile_test

import (
	"fmt"
	"math/rand"
	"sort"
	"strings"
	"testing"

	"github.com/sdcio/yang-parser/compile"
	"github.com/sdcio/yang-parser/parse"
	"github.com/sdcio/yang-parser/schema"
)

func huntNilCard(parse.NodeType) map[parse.NodeType]parse.Cardinality {
	return map[parse.NodeType]parse.Cardinality{}
}

type huntFeat map[string]bool

func huntCompile(filter compile.SchemaFilter, feats []string, texts ...string) (schema.ModelSet, error) {
	mods := make(map[string]*parse.Tree)
	for i, txt := range texts {
		tr, err := parse.Parse(fmt.Sprintf("m%d", i), txt, huntNilCard)
		if err != nil {
			return nil, fmt.Errorf("PARSE: %s", err)
		}
		mods[tr.Root.Argument().String()] = tr
	}
	var fc compile.FeaturesChecker
	if feats != nil {
		fc = compile.FeaturesFromNames(true, feats...)
	}
	return compile.CompileParseTrees(nil, mods, fc, false, filter)
}

type huntOpts struct {
	derived bool
}

func huntAttrs(n schema.Node, o huntOpts) string {
	var b strings.Builder
	fmt.Fprintf(&b, "%T name=%q ns=%q mod=%q sub=%q cfg=%v status=%v desc=%q ordby=%q",
		n, n.Name(), n.Namespace(), n.Module(), n.Submodule(), n.Config(), n.Status(),
		n.Description(), n.OrdBy())
	for _, w := range n.Whens() {
		fmt.Fprintf(&b, " when{%q %q %q %v}", w.Mach.GetExpr(), w.ErrMsg, w.Namespace, w.RunAsParent)
	}
	for _, m := range n.Musts() {
		fmt.Fprintf(&b, " must{%q %q %q %q}", m.Mach.GetExpr(), m.ErrMsg, m.AppTag, m.Namespace)
	}
	switch v := n.(type) {
	case schema.Container:
		fmt.Fprintf(&b, " presence=%v", v.Presence())
	case schema.List:
		fmt.Fprintf(&b, " keys=%v uniques=%v limit=%v", v.Keys(), v.Uniques(), v.Limit())
	case schema.Leaf:
		d, ok := v.Default()
		fmt.Fprintf(&b, " default=%q/%v mand=%v type=%T/%v", d, ok, v.Mandatory(), v.Type(), v.Type().Name())
	case schema.LeafList:
		fmt.Fprintf(&b, " limit=%v type=%T/%v defs=%v", v.Limit(), v.Type(), v.Type().Name(), v.DefaultChildNames())
	case schema.Choice:
		fmt.Fprintf(&b, " defcase=%q mand=%v", v.DefaultCase(), v.Mandatory())
	case schema.OpdCommand:
		fmt.Fprintf(&b, " onenter=%q priv=%v local=%v secret=%v pass=%v rep=%v", v.OnEnter(), v.Privileged(), v.Local(), v.Secret(), v.PassOpcArgs(), v.Repeatable())
	case schema.OpdOption:
		fmt.Fprintf(&b, " onenter=%q priv=%v local=%v secret=%v pass=%v rep=%v mand=%v", v.OnEnter(), v.Privileged(), v.Local(), v.Secret(), v.PassOpcArgs(), v.Repeatable(), v.Mandatory())
	case schema.OpdArgument:
		fmt.Fprintf(&b, " onenter=%q priv=%v local=%v secret=%v pass=%v rep=%v mand=%v", v.OnEnter(), v.Privileged(), v.Local(), v.Secret(), v.PassOpcArgs(), v.Repeatable(), v.Mandatory())
	}
	if o.derived {
		dn := append([]string{}, n.DefaultChildNames()...)
		sort.Strings(dn)
		fmt.Fprintf(&b, " hasdef=%v defnames=%v haspres=%v mandatory=%v args=%v",
			n.HasDefault(), dn, n.HasPresence(), n.Mandatory(), n.Arguments())
	}
	return b.String()
}

func huntSorted(ns []schema.Node) []schema.Node {
	out := append([]schema.Node{}, ns...)
	sort.SliceStable(out, func(i, j int) bool {
		if out[i].Name() != out[j].Name() {
			return out[i].Name() < out[j].Name()
		}
		return out[i].Namespace() < out[j].Namespace()
	})
	return out
}

// dump node: attrs, data-view children (flattened), choice-view children.
// prune != nil: skip nodes failing it (reference dump).
func huntDumpNode(b *strings.Builder, ind string, n schema.Node, prune compile.SchemaFilter, o huntOpts, keepOrder bool) {
	fmt.Fprintf(b, "%s%s\n", ind, huntAttrs(n, o))
	if _, isLeaf := n.(schema.Leaf); isLeaf {
		return
	}
	if _, isLL := n.(schema.LeafList); isLL {
		return
	}
	for _, ch := range huntSorted(huntRefChildren(n, prune)) {
		huntDumpNode(b, ind+"  ", ch, prune, o, keepOrder)
	}
	chs := n.Choices()
	if !keepOrder {
		chs = huntSorted(chs)
	}
	for _, ch := range chs {
		if prune != nil && !prune(ch) {
			continue
		}
		fmt.Fprintf(b, "%s  [choice-view]\n", ind)
		huntDumpNode(b, ind+"    ", ch, prune, o, keepOrder)
	}
}

func huntDumpTree(b *strings.Builder, ind string, t schema.Node, prune compile.SchemaFilter, o huntOpts) {
	for _, ch := range huntSorted(huntRefChildren(t, prune)) {
		huntDumpNode(b, ind, ch, prune, o, true)
	}
	for _, ch := range huntSorted(t.Choices()) {
		if prune != nil && !prune(ch) {
			continue
		}
		fmt.Fprintf(b, "%s[choice-view]\n", ind)
		huntDumpNode(b, ind+"  ", ch, prune, o, true)
	}
}

func huntDump(ms schema.ModelSet, prune compile.SchemaFilter, o huntOpts) string {
	var b strings.Builder
	b.WriteString("MODELSET\n")
	huntDumpTree(&b, "  ", ms, prune, o)
	var names []string
	for k := range ms.Modules() {
		names = append(names, k)
	}
	sort.Strings(names)
	for _, k := range names {
		m := ms.Modules()[k]
		f := append([]string{}, m.Features()...)
		sort.Strings(f)
		d := append([]string{}, m.Deviations()...)
		sort.Strings(d)
		fmt.Fprintf(&b, "MODULE %s ver=%q features=%v deviations=%v\n", m.Identifier(), m.Version(), f, d)
		huntDumpTree(&b, "  ", m, prune, o)
		var rn []string
		for r := range m.Rpcs() {
			rn = append(rn, r)
		}
		sort.Strings(rn)
		for _, r := range rn {
			fmt.Fprintf(&b, " RPC %s input\n", r)
			huntDumpTree(&b, "   ", m.Rpcs()[r].Input(), prune, o)
			fmt.Fprintf(&b, " RPC %s output\n", r)
			huntDumpTree(&b, "   ", m.Rpcs()[r].Output(), prune, o)
		}
		var nn []string
		for r := range m.Notifications() {
			nn = append(nn, r)
		}
		sort.Strings(nn)
		for _, r := range nn {
			fmt.Fprintf(&b, " NOTIF %s\n", r)
			huntDumpTree(&b, "   ", m.Notifications()[r].Schema(), prune, o)
		}
	}
	var sn []string
	for k := range ms.Submodules() {
		sn = append(sn, k)
	}
	sort.Strings(sn)
	fmt.Fprintf(&b, "SUBMODULES %v\n", sn)
	return b.String()
}

type huntFilter struct {
	name string
	f    compile.SchemaFilter
}

func huntFilters() []huntFilter {
	return []huntFilter{
		{"IsConfig", compile.IsConfig},
		{"IsState", compile.IsState},
		{"IsOpd", compile.IsOpd},
		{"IsConfigOrState", compile.IsConfigOrState()},
		{"IncludeState(true)", compile.IncludeState(true)},
		{"IncludeState(false)", compile.IncludeState(false)},
		{"Include(IsConfig,IsOpd)", compile.Include(compile.IsConfig, compile.IsOpd)},
		{"Include(IsState,IsOpd)", compile.Include(compile.IsState, compile.IsOpd)},
		{"Exclude(IsConfig)", compile.Exclude(compile.IsConfig)},
		{"Exclude(IsOpd)", compile.Exclude(compile.IsOpd)},
		{"Exclude(IsConfig,IsOpd)", compile.Exclude(compile.IsConfig, compile.IsOpd)},
		{"Exclude(IsState,IsOpd)", compile.Exclude(compile.IsState, compile.IsOpd)},
		{"Include()", compile.Include()},
		{"Exclude()", compile.Exclude()},
		{"Include(nil,IsConfig)", compile.Include(nil, compile.IsConfig)},
		{"Include(IsConfig,IncludeState(false))", compile.Include(compile.IsConfig, compile.IncludeState(false))},
		{"Include(IsConfig,IncludeState(true))", compile.Include(compile.IsConfig, compile.IncludeState(true))},
		{"Exclude(Exclude(IsConfig))", compile.Exclude(compile.Exclude(compile.IsConfig))},
		{"Include(Exclude(IsState),Exclude(IsConfig))", compile.Include(compile.Exclude(compile.IsState), compile.Exclude(compile.IsConfig))},
	}
}

func huntDiff(a, b string) string {
	al := strings.Split(a, "\n")
	bl := strings.Split(b, "\n")
	var out []string
	i := 0
	for i < len(al) && i < len(bl) && al[i] == bl[i] {
		i++
	}
	lo := i - 2
	if lo < 0 {
		lo = 0
	}
	for j := lo; j < i+6; j++ {
		if j < len(al) {
			out = append(out, "REF  "+al[j])
		}
	}
	for j := lo; j < i+6; j++ {
		if j < len(bl) {
			out = append(out, "FILT "+bl[j])
		}
	}
	return strings.Join(out, "\n")
}

// returns number of violations
func huntCheck(t *testing.T, label string, feats []string, o huntOpts, texts ...string) int {
	t.Helper()
	return huntCheckQ(t, label, feats, o, true, texts...)
}

func huntCheckQ(t *testing.T, label string, feats []string, o huntOpts, strict bool, texts ...string) int {
	t.Helper()
	full, err := huntCompile(nil, feats, texts...)
	if err != nil {
		if !strict {
			return -1
		}
		t.Errorf("%s: UNFILTERED compile fails (not in quantifier): %v", label, err)
		return -1
	}
	bad := 0
	for _, hf := range huntFilters() {
		ref := huntDump(full, hf.f, o)
		got, err := huntCompile(hf.f, feats, texts...)
		if err != nil {
			t.Errorf("%s [%s]: filtered compile error: %v", label, hf.name, err)
			bad++
			continue
		}
		gd := huntDump(got, nil, o)
		if gd != ref {
			t.Errorf("%s [%s]: dump differs:\n%s", label, hf.name, huntDiff(ref, gd))
			bad++
		}
		// also: filtered dump must be stable under its own pruning (no failing node survives)
		gd2 := huntDump(got, hf.f, o)
		if gd2 != gd {
			t.Errorf("%s [%s]: failing node survives:\n%s", label, hf.name, huntDiff(gd2, gd))
			bad++
		}
	}
	return bad
}


func huntMod(name, body string) string {
	return fmt.Sprintf("module %s { namespace \"urn:%s\"; prefix %s;\n%s\n}", name, name, name, body)
}

// huntRefChildren: the (flattened) data children of n that survive a top-down
// pruning with filter prune, honouring choice and case nodes in between.
func huntRefChildren(n schema.Node, prune compile.SchemaFilter) []schema.Node {
	if prune == nil {
		return n.Children()
	}
	pass := func(x schema.Node) bool { return prune(x) }
	var out []schema.Node
	switch n.(type) {
	case schema.Choice:
		for _, cs := range n.Choices() {
			if !pass(cs) {
				continue
			}
			if _, ok := cs.(schema.Case); ok {
				out = append(out, huntRefChildren(cs, prune)...)
			} else {
				out = append(out, cs)
			}
		}
		return out
	case schema.Case:
		for _, c := range n.Choices() {
			if !pass(c) {
				continue
			}
			if _, ok := c.(schema.Choice); ok {
				out = append(out, huntRefChildren(c, prune)...)
			} else {
				out = append(out, c)
			}
		}
		return out
	}
	flat := map[string]bool{}
	for _, ch := range n.Choices() {
		for _, c := range ch.Children() {
			flat[c.Name()] = true
		}
	}
	for _, c := range n.Children() {
		if flat[c.Name()] {
			continue
		}
		if pass(c) {
			out = append(out, c)
		}
	}
	for _, ch := range n.Choices() {
		if pass(ch) {
			out = append(out, huntRefChildren(ch, prune)...)
		}
	}
	return out
}

// Two modules may each define a top-level choice of the same name (different
// namespaces).  NewModelSet merges the modules' choices with addChoice and
// ignores its "redefinition of name" error, so only the choice of the module
// that the map iteration visits first is kept.  With a filter that removes
// one of the two choices the other one is always kept, so the filtered
// model set is not the pruned unfiltered model set whenever the unfiltered
// compile happened to keep the choice that the filter removes.
func TestC20Doubtful_ModelSetChoicesSameNameAcrossModules(t *testing.T) {
	a := huntMod("a", `choice c { leaf ax { type string; } }`)
	b := huntMod("b", `choice c { config false; leaf bx { type string; } }`)
	names := func(ms schema.ModelSet, prune compile.SchemaFilter) []string {
		var out []string
		for _, ch := range ms.Choices() {
			if prune != nil && !prune(ch) {
				continue
			}
			out = append(out, ch.Namespace()+":"+ch.Name())
		}
		sort.Strings(out)
		return out
	}
	for i := 0; i < 64; i++ {
		full, err := huntCompile(nil, nil, a, b)
		if err != nil {
			t.Fatalf("unfiltered compile: %v", err)
		}
		if all := names(full, nil); len(all) != 2 {
			t.Logf("note: unfiltered ModelSet.Choices() = %v (two choices were defined)", all)
		}
		filt, err := huntCompile(compile.IsState, nil, a, b)
		if err != nil {
			t.Fatalf("filtered compile: %v", err)
		}
		want, got := names(full, compile.IsState), names(filt, nil)
		if fmt.Sprint(want) != fmt.Sprint(got) {
			t.Fatalf("run %d: ModelSet.Choices() under IsState: unfiltered compile pruned = %v, filtered compile = %v",
				i, want, got)
		}
	}
}

func TestHuntBasic(t *testing.T) {
	m := huntMod("a", `
	feature f1;
	container top {
		leaf cl { type string; default "x"; }
		leaf sl { config false; type uint8; default 3; }
		container st { config false; leaf x { type string; default d; } container deep { leaf y { type string; } } }
		container np { container np2 { leaf only-state { config false; type string; default q; } } }
		list l { key "k"; unique "u1"; leaf k { type string; } leaf u1 { type string; } leaf s { config false; type string; }
			choice lc { default b; case a { leaf la { type string; } } case b { leaf lb { type string; default z; } leaf lbs { config false; type string; } } }
		}
		list sl3 { config false; key x; leaf x { type string; } unique "y"; leaf y { type string; } }
		list ul { key x; leaf x { type string; } unique "y z/w"; leaf y { config false; type string; } container z { config false; leaf w { type string; } } }
		leaf-list ll { type string; min-elements 1; max-elements 4; ordered-by user; }
		leaf-list sll { config false; type string; }
		choice ch { default c2;
			case c1 { leaf c1l { type string; } }
			case c2 { leaf c2l { type string; default foo; } container c2c { config false; leaf z { type string; } } }
			leaf short { type string; }
			container shortc { config false; leaf q { type string; } }
		}
		choice sch { config false; default x; leaf x { type string; } leaf y { type string; } }
		choice mch { mandatory true; leaf m1 { type string; } leaf m2 { config false; type string; } }
		choice dsc { default ds; leaf ds { config false; type string; } leaf dc { type string; } }
	}
	rpc r { input { leaf a { type string; } leaf b { config false; type string; } } output { leaf o { type string; } } }
	rpc r2;
	notification n { leaf nl { type string; } container nc { config false; leaf x { type string; } } }
	`)
	huntCheck(t, "basic", nil, huntOpts{}, m)
}

func TestHuntOpd(t *testing.T) {
	m := huntMod("a", `
	grouping g { opd:command gc { opd:option go { type string; } } leaf gl { type string; } container gcc { config false; leaf x { type string; } } }
	opd:command show { opd:on-enter "x"; opd:inherit { opd:privileged true; opd:on-enter "inh"; }
		opd:command sub { opd:repeatable true; opd:argument arg { type string; opd:command deeper; } }
		opd:option opt { type uint8; opd:command under-opt; }
		uses g;
	}
	opd:option topopt { type string; }
	container cfg { leaf x { type string; } uses g; }
	container st { config false; uses g; }
	opd:augment /show/sub { opd:command augd { opd:local true; } }
	augment /cfg { leaf al { type string; } }
	`)
	huntCheck(t, "opd", nil, huntOpts{}, m)
}

func TestHuntMulti(t *testing.T) {
	a := huntMod("a", `
	include asub;
	feature fa; feature fb { if-feature fa; }
	container top { leaf x { type string; }
		choice tc { default one; case one { leaf o1 { type string; } } }
		container st { config false; leaf s { type string; } choice stc { leaf q { type string; } } }
		list l { key k; leaf k { type string; } }
	}
	choice topch { default t2; leaf t1 { type string; } leaf t2 { config false; type string; } }
	rpc ra { input { leaf i { type string; } } }
	notification na { leaf n { type string; } }
	`)
	asub := `submodule asub { belongs-to a { prefix a; }
		container subc { leaf x { type string; } leaf y { config false; type string; } }
		augment /top { leaf from-sub { config false; type string; } }
		choice subch { config false; leaf sc1 { type string; } }
	}`
	b := huntMod("b", `
	import a { prefix a; }
	augment /a:top { when "a:x = 'y'"; leaf bx { type string; } container bst { config false; leaf q { type string; default z; } } }
	augment /a:top/a:tc { case two { leaf t2 { type string; } leaf t2s { config false; type string; } } leaf sh { config false; type string; } }
	augment /a:top/a:tc/a:one { leaf o2 { if-feature a:fb; type string; } }
	augment /a:top/a:st { leaf bs { type string; } }
	augment /a:top/a:st/a:stc { leaf bq { type string; } }
	augment /a:top/a:l { leaf bl { config false; type string; } }
	augment /a:ra/a:input { leaf bi { type string; } container bic { config false; leaf z { type string; } } }
	augment /a:ra/a:output { leaf bo { type string; } }
	augment /a:subc { leaf bsc { type string; } }
	choice topch2 { leaf b1 { type string; } }
	`)
	d := huntMod("d", `
	import a { prefix a; }
	deviation /a:top/a:x { deviate add { default dd; } }
	deviation /a:top/a:l { deviate add { config false; } }
	deviation /a:subc/a:y { deviate not-supported; }
	`)
	huntCheck(t, "multi", []string{"a:fa", "a:fb"}, huntOpts{}, a, asub, b)
	huntCheck(t, "multi-nofeat", nil, huntOpts{}, a, asub, b)
	huntCheck(t, "multi-dev", []string{"a:fa", "a:fb"}, huntOpts{}, a, asub, b, d)
}


func TestHuntSameTrees(t *testing.T) {
	txt := huntMod("a", `
	grouping g { leaf gl { type string; } leaf gs { config false; type string; } }
	container top { uses g; choice c { default x; leaf x { type string; } leaf y { config false; type string; } } }
	augment /top { leaf al { config false; type string; } }
	`)
	tr, err := parse.Parse("m", txt, huntNilCard)
	if err != nil { t.Fatal(err) }
	mods := map[string]*parse.Tree{"a": tr}
	ms1, err := compile.CompileParseTrees(nil, mods, nil, false, nil)
	if err != nil { t.Fatal(err) }
	for _, hf := range huntFilters() {
		ms2, err := compile.CompileParseTrees(nil, mods, nil, false, hf.f)
		if err != nil { t.Errorf("%s: second compile: %v", hf.name, err); continue }
		if a, b := huntDump(ms1, hf.f, huntOpts{}), huntDump(ms2, nil, huntOpts{}); a != b {
			t.Errorf("%s: differs\n%s", hf.name, huntDiff(a, b))
		}
	}
}

type htarget struct {
	path []string
	cfg  bool
	kind string
}

type hgen struct {
	r     *rand.Rand
	n     int
	pfx   string
	grps  []string
	stack []string
	track bool
	noMand bool
	tgts  []htarget
}

func (g *hgen) push(n string, cfg bool, kind string) {
	g.stack = append(g.stack, n)
	if g.track {
		g.tgts = append(g.tgts, htarget{append([]string{}, g.stack...), cfg, kind})
	}
}
func (g *hgen) pop() { g.stack = g.stack[:len(g.stack)-1] }


func (g *hgen) name(p string) string { g.n++; return fmt.Sprintf("%s%d", p, g.n) }
func (g *hgen) p(x float64) bool     { return g.r.Float64() < x }

func (g *hgen) cfg(parentCfg bool) (string, bool) {
	if !parentCfg {
		if g.p(0.1) {
			return "config false; ", false
		}
		return "", false
	}
	if g.p(0.3) {
		return "config false; ", false
	}
	if g.p(0.1) {
		return "config true; ", true
	}
	return "", true
}

func (g *hgen) extras() string {
	s := ""
	if g.p(0.1) {
		s += "if-feature " + []string{"f1", "f2"}[g.r.Intn(2)] + "; "
	}
	if g.p(0.1) {
		s += "status " + []string{"current", "deprecated"}[g.r.Intn(2)] + "; "
	}
	if g.p(0.1) {
		s += `when "1 = 1"; `
	}
	if g.p(0.1) {
		s += `description "d` + fmt.Sprint(g.n) + `"; `
	}
	return s
}

func (g *hgen) leaf(cfg bool, inCase bool) string {
	n := g.name("lf")
	c, _ := g.cfg(cfg)
	s := fmt.Sprintf("leaf %s { %s%s type %s; ", n, c, g.extras(), []string{"string", "uint8", "boolean", "empty"}[g.r.Intn(3)])
	if g.p(0.3) {
		s += `default "1"; `
		s = strings.Replace(s, "type boolean;", "type uint8;", 1)
	} else if g.p(0.15) && !inCase && !g.noMand {
		s += "mandatory true; "
	}
	if g.p(0.1) {
		s += `must "1"; `
	}
	return s + "}\n"
}

func (g *hgen) leaflist(cfg bool) string {
	c, _ := g.cfg(cfg)
	s := fmt.Sprintf("leaf-list %s { %s%s type string; ", g.name("ll"), c, g.extras())
	if g.p(0.3) && !g.noMand {
		s += "min-elements 1; "
	}
	if g.p(0.3) {
		s += "ordered-by user; "
	}
	return s + "}\n"
}

func (g *hgen) body(cfg bool, depth int, inCase bool) string {
	s := ""
	k := 1 + g.r.Intn(4)
	for i := 0; i < k; i++ {
		s += g.node(cfg, depth, inCase)
	}
	return s
}

func (g *hgen) node(cfg bool, depth int, inCase bool) string {
	x := g.r.Intn(10)
	if depth <= 0 && x > 1 {
		x = g.r.Intn(2)
	}
	switch x {
	case 0:
		return g.leaf(cfg, inCase)
	case 1:
		return g.leaflist(cfg)
	case 2, 3:
		c, nc := g.cfg(cfg)
		pr := ""
		if g.p(0.3) {
			pr = `presence "p"; `
		}
		cn := g.name("c")
		g.push(cn, nc, "container")
		b := g.body(nc, depth-1, false)
		g.pop()
		return fmt.Sprintf("container %s { %s%s%s\n%s}\n", cn, c, pr, g.extras(), b)
	case 4, 5:
		c, nc := g.cfg(cfg)
		kn := g.name("k")
		un := g.name("u")
		ln := g.name("l")
		g.push(ln, nc, "list")
		defer g.pop()
		s := fmt.Sprintf("list %s { %skey %s; %s", ln, c, kn, g.extras())
		if g.p(0.4) {
			s += fmt.Sprintf("unique %s; ", un)
		}
		if g.p(0.3) && !g.noMand {
			s += "min-elements 1; max-elements 3; "
		}
		uc := ""
		if g.p(0.3) && nc {
			uc = "config false; "
		}
		s += fmt.Sprintf("leaf %s { type string; }\nleaf %s { %stype string; }\n", kn, un, uc)
		return s + g.body(nc, depth-1, false) + "}\n"
	case 6, 7:
		c, nc := g.cfg(cfg)
		chn := g.name("ch")
		g.push(chn, nc, "choice")
		defer g.pop()
		s := fmt.Sprintf("choice %s { %s%s", chn, c, g.extras())
		nk := 1 + g.r.Intn(3)
		var cases []string
		bodyS := ""
		for i := 0; i < nk; i++ {
			if g.p(0.5) {
				cn := g.name("cs")
				cases = append(cases, cn)
				ex := ""
				if g.p(0.1) {
					ex = `when "1"; `
				}
				g.push(cn, nc, "case")
				cb := g.body(nc, depth-1, true)
				g.pop()
				bodyS += fmt.Sprintf("case %s { %s\n%s}\n", cn, ex, cb)
			} else {
				// shorthand
				sn := g.name("sh")
				cases = append(cases, sn)
				c2, nc2 := g.cfg(nc)
				if g.p(0.5) {
					bodyS += fmt.Sprintf("leaf %s { %stype string; }\n", sn, c2)
				} else {
					g.push(sn, nc, "case")
					g.push(sn, nc2, "container")
					cb := g.body(nc2, depth-1, false)
					g.pop()
					g.pop()
					bodyS += fmt.Sprintf("container %s { %s\n%s}\n", sn, c2, cb)
				}
			}
		}
		if g.p(0.5) {
			s += "default " + cases[g.r.Intn(len(cases))] + "; "
		} else if g.p(0.3) && !g.noMand {
			s += "mandatory true; "
		}
		return s + "\n" + bodyS + "}\n"
	case 8:
		if len(g.grps) > 0 {
			gn := g.grps[g.r.Intn(len(g.grps))]
			return fmt.Sprintf("uses %s;\n", gn)
		}
		return g.leaf(cfg, inCase)
	default:
		return g.leaf(cfg, inCase)
	}
}

func (g *hgen) module(name string, imports []string) string {
	s := ""
	for _, i := range imports {
		s += fmt.Sprintf("import %s { prefix %s; }\n", i, i)
	}
	s += "feature f1; feature f2;\n"
	ng := g.r.Intn(3)
	for i := 0; i < ng; i++ {
		gn := g.name("g")
		// grouping bodies: generate as if config true, no explicit config true
		b := g.body(true, 2, false)
		s += fmt.Sprintf("grouping %s {\n%s}\n", gn, b)
		g.grps = append(g.grps, gn)
	}
	g.track = true
	s += g.body(true, 3, false)
	g.track = false
	if g.p(0.5) {
		s += fmt.Sprintf("rpc %s { input {\n%s} output {\n%s} }\n", g.name("rpc"), g.body(true, 2, false), g.body(true, 1, false))
	}
	if g.p(0.5) {
		s += fmt.Sprintf("notification %s {\n%s}\n", g.name("nt"), g.body(true, 2, false))
	}
	return huntMod(name, s)
}

func TestHuntRandom(t *testing.T) {
	ok, skipped, bad := 0, 0, 0
	for seed := int64(1); seed <= 150 && bad < 5; seed++ {
		g := &hgen{r: rand.New(rand.NewSource(seed))}
		m := g.module("a", nil)
		var feats []string
		if seed%2 == 0 {
			feats = []string{"a:f1"}
		}
		switch huntCheckQ(t, fmt.Sprintf("seed %d", seed), feats, huntOpts{}, false, m) {
		case -1:
			skipped++
		case 0:
			ok++
		default:
			bad++
			t.Logf("module:\n%s", m)
		}
	}
	t.Logf("ok=%d skipped=%d bad=%d", ok, skipped, bad)
}

func (g *hgen) augmenter(name, target string) string {
	s := fmt.Sprintf("import %s { prefix %s; }\nfeature f1; feature f2;\n", target, target)
	tg := g.tgts
	g.grps = nil
	g.noMand = true
	for i := 0; i < 4 && len(tg) > 0; i++ {
		t := tg[g.r.Intn(len(tg))]
		path := ""
		for _, seg := range t.path {
			path += "/" + target + ":" + seg
		}
		switch {
		case g.p(0.2) && t.kind != "case":
			s += fmt.Sprintf("deviation %s { deviate not-supported; }\n", path)
		case g.p(0.15) && t.cfg && t.kind != "case":
			s += fmt.Sprintf("deviation %s { deviate add { config false; } }\n", path)
		case t.kind == "choice":
			cn := g.name("acs")
			s += fmt.Sprintf("augment %s { %scase %s {\n%s}\n%s}\n", path, g.augExtras(), cn, g.body(t.cfg, 1, true), g.leaf(t.cfg, true))
		default:
			s += fmt.Sprintf("augment %s { %s\n%s}\n", path, g.augExtras(), g.body(t.cfg, 2, t.kind == "case"))
		}
	}
	return huntMod(name, s)
}

func (g *hgen) augExtras() string {
	s := ""
	if g.p(0.3) {
		s += `when "1"; `
	}
	if g.p(0.2) {
		s += "if-feature f1; "
	}
	return s
}

func TestHuntRandomMulti(t *testing.T) {
	ok, skipped, bad := 0, 0, 0
	for seed := int64(1); seed <= 150 && bad < 5; seed++ {
		g := &hgen{r: rand.New(rand.NewSource(seed + 100000))}
		a := g.module("a", nil)
		b := g.augmenter("b", "a")
		feats := []string{"a:f1", "b:f1"}
		switch huntCheckQ(t, fmt.Sprintf("seed %d", seed), feats, huntOpts{}, false, a, b) {
		case -1:
			skipped++
		case 0:
			ok++
		default:
			bad++
			t.Logf("modules:\n%s\n%s", a, b)
		}
	}
	t.Logf("ok=%d skipped=%d bad=%d", ok, skipped, bad)
}

