#!/bin/sh
# usage: run.sh <worktree>
# copies hunt_test.go into <worktree>/compile, runs it, removes it again
WT="${1:?worktree path}"
HERE="$(cd "$(dirname "$0")" && pwd)"
export GOFLAGS=-mod=mod GOPROXY=off GOTOOLCHAIN=local
GO="${GO:-/root/go/pkg/mod/golang.org/toolchain@v0.0.1-go1.23.11.linux-amd64/bin/go}"
if [ ! -f "$WT/xpath/grammars/leafref/leafref.go" ]; then
	(cd "$WT/xpath/grammars/leafref" && ${VERIF_ROOT:-/verif}/bin/goyacc -o leafref.go -p leafref leafref.y && rm -f y.output)
fi
cp "$HERE/hunt_test.go" "$WT/compile/c20_hunt_test.go"
(cd "$WT" && "$GO" test ./compile/ -run 'TestC20|TestHunt' -count=1 -v 2>&1 | cut -c1-400)
rc=$?
rm -f "$WT/compile/c20_hunt_test.go"
exit $rc
