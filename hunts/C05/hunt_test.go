// Hunt for violations of property C05 (XPath compilation and execution are
// total and report failures faithfully).
//
// This file belongs in <worktree>/xpath/grammars/expr (package expr).
//
//   TestC05_*      findings: fail on the unchanged library
//   TestControl_*  controls: pass on the unchanged library
//   TestDoubtful_* only run with HUNT_DOUBTFUL=1 (reported as "doubtful")
package expr

import (
	gocontext "context"
	"errors"
	"fmt"
	"os"
	"os/exec"
	"strings"
	"sync"
	"testing"

	sdcpb "github.com/sdcio/sdc-protos/sdcpb"
	"github.com/sdcio/yang-parser/xpath"
	"github.com/sdcio/yang-parser/xpath/grammars/leafref"
	"github.com/sdcio/yang-parser/xpath/grammars/path_eval"
)

// ---------------------------------------------------------------------------
// helpers

func huntSafe(f func()) (p interface{}) {
	defer func() { p = recover() }()
	f()
	return nil
}

var errHuntInjected = errors.New("INJECTED-TREE-ERROR")

// huntTree is a fault-injecting data tree: the failAt-th callback (1-based)
// returns errHuntInjected.
type huntTree struct {
	calls  int
	failAt int
}

type huntEntry struct {
	t    *huntTree
	path string
}

func (e *huntEntry) tick() error {
	e.t.calls++
	if e.t.calls == e.t.failAt {
		return errHuntInjected
	}
	return nil
}

func (e *huntEntry) GetValue() (xpath.Datum, error) {
	if err := e.tick(); err != nil {
		return nil, err
	}
	return xpath.NewLiteralDatum("x"), nil
}

func (e *huntEntry) Navigate(p *sdcpb.Path) (xpath.Entry, error) {
	if err := e.tick(); err != nil {
		return nil, err
	}
	return &huntEntry{t: e.t, path: p.ToXPath(false)}, nil
}

func (e *huntEntry) Copy() xpath.Entry { return e }

func (e *huntEntry) FollowLeafRef() (xpath.Entry, error) {
	if err := e.tick(); err != nil {
		return nil, err
	}
	return &huntEntry{t: e.t, path: "/target/leaf"}, nil
}

func (e *huntEntry) GetSdcpbPath() *sdcpb.Path {
	return &sdcpb.Path{IsRootBased: true, Elem: []*sdcpb.PathElem{
		sdcpb.NewPathElem("target", nil), sdcpb.NewPathElem("leaf", nil)}}
}

func (e *huntEntry) BreadthSearch(
	ctx gocontext.Context, p *sdcpb.Path,
) ([]xpath.Entry, error) {
	if err := e.tick(); err != nil {
		return nil, err
	}
	return []xpath.Entry{e}, nil
}

func huntRun(m *xpath.Machine, failAt int) (*xpath.Result, *huntTree) {
	tree := &huntTree{failAt: failAt}
	res := xpath.NewCtxFromCurrent(gocontext.Background(), m,
		&huntEntry{t: tree, path: "/ctx"}).Run()
	return res, tree
}

// ---------------------------------------------------------------------------
// FINDING 1: Result.GetNodeSetResult() panics (instead of returning its
// error) whenever the machine ran fine but its value is not a node-set.

func TestC05_GetNodeSetResultPanicsOnNonNodesetValue(t *testing.T) {
	for _, expr := range []string{"1", "'x'", "true()", "1 + 1", "a", "a = 'x'"} {
		m, err := NewExprMachine(expr, nil)
		if err != nil {
			t.Fatalf("%q does not compile: %v", expr, err)
		}
		res, _ := huntRun(m, 0)
		if res.GetError() != nil {
			t.Fatalf("%q: unexpected run error %v", expr, res.GetError())
		}
		// The other three getters convert or return an error; none panics.
		if p := huntSafe(func() {
			_, _ = res.GetBoolResult()
			_, _ = res.GetNumResult()
			_, _ = res.GetLiteralResult()
		}); p != nil {
			t.Fatalf("%q: scalar getter panicked: %v", expr, p)
		}
		var ns interface{}
		var nsErr error
		if p := huntSafe(func() {
			ns, nsErr = res.GetNodeSetResult()
		}); p != nil {
			t.Errorf("%q: GetNodeSetResult() panicked instead of returning "+
				"(value, error): %v", expr, p)
			continue
		}
		// XPath 1.0 has no conversion to node-set, so the only faithful
		// outcome is an error.
		if nsErr == nil {
			t.Errorf("%q: GetNodeSetResult() = %v without error for a "+
				"non-node-set value", expr, ns)
		}
	}
}

// Same root cause seen through the Machine API: Machine.AllowedValues runs the
// machine itself and lets the panic of GetNodeSetResult escape to the caller.
func TestC05_AllowedValuesPanics(t *testing.T) {
	type mk struct {
		name string
		fn   func(string) (*xpath.Machine, error)
	}
	for _, k := range []mk{
		{"expr", func(s string) (*xpath.Machine, error) {
			return NewExprMachine(s, nil)
		}},
		{"pathEval", func(s string) (*xpath.Machine, error) {
			return path_eval.NewPathEvalMachine(s, nil, "mod:1")
		}},
	} {
		for _, expr := range []string{"1", "'x'", "true()"} {
			m, err := k.fn(expr)
			if err != nil {
				t.Fatalf("[%s] %q does not compile: %v", k.name, expr, err)
			}
			var vals []string
			var avErr error
			if p := huntSafe(func() {
				vals, avErr = m.AllowedValues(nil, false)
			}); p != nil {
				t.Errorf("[%s] %q: Machine.AllowedValues panicked: %v",
					k.name, expr, p)
				continue
			}
			if avErr == nil {
				t.Errorf("[%s] %q: AllowedValues = %v without error",
					k.name, expr, vals)
			}
		}
	}
}

// ---------------------------------------------------------------------------
// FINDING 2 (borderline for C05, clear against XPath 1.0): the valid
// character U+F001 has the numeric value of the lexer's internal ERR marker
// (xutils.ERR = 0xF001), so a literal containing it is refused and the
// failure is reported as "Invalid UTF-8 input" although the input is valid
// UTF-8 and a legal XPath literal.

func TestC05_LiteralWithCharU_F001IsReportedAsInvalidUTF8(t *testing.T) {
	for _, expr := range []string{"'\uf001'", "\"a\uf001b\"", "1 = '\uf001'"} {
		m, err := NewExprMachine(expr, nil)
		if err != nil {
			t.Errorf("%q (valid UTF-8, legal Literal) is refused: %v",
				expr, strings.ReplaceAll(err.Error(), "\n", " | "))
			continue
		}
		res, _ := huntRun(m, 0)
		if res.GetError() != nil {
			t.Errorf("%q: run error %v", expr, res.GetError())
		}
	}
	// its neighbours are accepted
	for _, expr := range []string{"'\uf000'", "'\uf002'", "'\ue000'"} {
		if _, err := NewExprMachine(expr, nil); err != nil {
			t.Errorf("control %q refused: %v", expr, err)
		}
	}
}

// ---------------------------------------------------------------------------
// CONTROLS

// The three grammars return machine xor error, and an error quotes the
// expression and marks a position in it.
func TestControl_CompileErrorsQuoteAndMark(t *testing.T) {
	builders := map[string]func(string) (*xpath.Machine, error){
		"expr": func(s string) (*xpath.Machine, error) {
			return NewExprMachine(s, nil)
		},
		"pathEval": func(s string) (*xpath.Machine, error) {
			return path_eval.NewPathEvalMachine(s, nil, "mod:1")
		},
		"leafref": func(s string) (*xpath.Machine, error) {
			return leafref.NewLeafrefMachine(s, nil)
		},
	}
	for name, fn := range builders {
		for _, s := range []string{"a b", "1 +", "a[", "'x", "a\xffb", "a\x00b",
			"'\xff'", "a:", "child::a", "//a", "not(1,2)", " ", "a !b", "..5",
			"/a[k=current()/../c]/b", "../a", "1"} {
			var m *xpath.Machine
			var err error
			if p := huntSafe(func() { m, err = fn(s) }); p != nil {
				t.Errorf("[%s] %q: panic %v", name, s, p)
				continue
			}
			if (m == nil) == (err == nil) {
				t.Errorf("[%s] %q: machine %v, error %v", name, s, m, err)
			}
			if err == nil {
				continue
			}
			txt := err.Error()
			if !strings.Contains(txt, "'"+s+"'") {
				t.Errorf("[%s] %q: not quoted in %q", name, s, txt)
			}
			ok := false
			for k := 0; k <= len(s); k++ {
				if strings.Contains(txt, "'"+s[:k]+" [X] "+s[k:]+"'") {
					ok = true
				}
			}
			if !ok {
				t.Errorf("[%s] %q: no position marked in %q", name, s, txt)
			}
		}
	}
}

// A data-tree error at any callback position is the error of the result.
func TestControl_TreeErrorIsCarried(t *testing.T) {
	for _, expr := range []string{
		"a", "a = b", "a[k=current()/../c]/b", "deref(a)/../b = c",
		"a[k1=b][k2=/r/c]/d", "concat(a, b)", "not(a) or b",
	} {
		m, err := NewExprMachine(expr, nil)
		if err != nil {
			t.Fatalf("%q: %v", expr, err)
		}
		clean, tree := huntRun(m, 0)
		if clean.GetError() != nil {
			t.Fatalf("%q: clean run fails: %v", expr, clean.GetError())
		}
		for k := 1; k <= tree.calls; k++ {
			res, tk := huntRun(m, k)
			if !errors.Is(res.GetError(), errHuntInjected) {
				t.Errorf("%q fail@%d: GetError() = %v", expr, k, res.GetError())
			}
			if _, e := res.GetBoolResult(); !errors.Is(e, errHuntInjected) {
				t.Errorf("%q fail@%d: GetBoolResult err = %v", expr, k, e)
			}
			if tk.calls != k {
				t.Errorf("%q fail@%d: run continued after the failure",
					expr, k)
			}
		}
	}
}

// ---------------------------------------------------------------------------
// DOUBTFUL (only with HUNT_DOUBTFUL=1)

func huntDoubtful(t *testing.T) {
	if os.Getenv("HUNT_DOUBTFUL") == "" {
		t.Skip("doubtful observation; set HUNT_DOUBTFUL=1 to run")
	}
}

// Concurrent runs with EnableValidation() write the unguarded global map
// testedFunctionTable: the process dies with "fatal error: concurrent map
// writes", which no recover() can catch.  (EnableValidation is documented as
// a unit-test aid, hence doubtful.)
func TestDoubtful_ConcurrentValidatedRunsCrashProcess(t *testing.T) {
	huntDoubtful(t)
	if os.Getenv("HUNT_CHILD") == "1" {
		m, err := NewExprMachine(
			"not(true()) or string-length('a') = 1 or floor(1.5) = 1", nil)
		if err != nil {
			t.Fatal(err)
		}
		var wg sync.WaitGroup
		for i := 0; i < 8; i++ {
			wg.Add(1)
			go func() {
				defer wg.Done()
				for j := 0; j < 50000; j++ {
					xpath.NewCtxFromMach(m, nil).EnableValidation().Run()
				}
			}()
		}
		wg.Wait()
		return
	}
	cmd := exec.Command(os.Args[0],
		"-test.run=TestDoubtful_ConcurrentValidatedRunsCrashProcess")
	cmd.Env = append(os.Environ(), "HUNT_CHILD=1")
	out, err := cmd.CombinedOutput()
	if err != nil {
		first := strings.SplitN(string(out), "\n", 2)[0]
		t.Errorf("concurrent validated runs killed the process: %v: %s",
			err, first)
	}
}

// re-match() with a pattern that is not a regular expression yields true
// (and a log line) instead of an error.
func TestDoubtful_ReMatchInvalidPatternYieldsTrue(t *testing.T) {
	huntDoubtful(t)
	m, err := NewExprMachine("re-match('abc', '(')", nil)
	if err != nil {
		t.Fatal(err)
	}
	res, _ := huntRun(m, 0)
	if res.GetError() == nil {
		b, _ := res.GetBoolResult()
		t.Errorf("re-match('abc','(') = %v without error", b)
	}
}

// Constructs that are refused as unsupported are always marked at the very
// end of the expression, however early they occur.
func TestDoubtful_UnsupportedConstructMarkedAtEnd(t *testing.T) {
	huntDoubtful(t)
	expr := "child::a/b/c/d/e/f = 'x'"
	_, err := NewExprMachine(expr, nil)
	if err == nil {
		t.Fatal("compiled")
	}
	if strings.Contains(err.Error(), fmt.Sprintf("'%s [X] '", expr)) {
		t.Errorf("position of 'child::' reported at the end: %q", err.Error())
	}
}
