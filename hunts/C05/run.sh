#!/bin/sh
# usage: run.sh <worktree> [extra go test args]
# Copies hunt_test.go into <worktree>/xpath/grammars/expr, runs it, removes it.
set -u
WT="${1:?usage: run.sh <worktree>}"
shift
HERE="$(cd "$(dirname "$0")" && pwd)"
export GOFLAGS=-mod=mod GOPROXY=off GOTOOLCHAIN=local
GO="${GO:-/root/go/pkg/mod/golang.org/toolchain@v0.0.1-go1.23.11.linux-amd64/bin/go}"
DEST="$WT/xpath/grammars/expr/zz_hunt_c05_test.go"

# the leafref parser is generated and git-ignored
if [ ! -f "$WT/xpath/grammars/leafref/leafref.go" ]; then
	(cd "$WT/xpath/grammars/leafref" && ${VERIF_ROOT:-/verif}/bin/goyacc -o leafref.go -p leafref leafref.y && rm -f y.output)
fi

cp "$HERE/hunt_test.go" "$DEST"
trap 'rm -f "$DEST"' EXIT INT TERM
cd "$WT" && "$GO" test ./xpath/grammars/expr -count=1 -v \
	-run 'TestC05_|TestControl_|TestDoubtful_' "$@"
rc=$?
exit $rc
