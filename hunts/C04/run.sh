#!/bin/sh
# usage: run.sh <worktree>
# Copies hunt_test.go into xpath/grammars/expr, runs the TestC04Hunt_* tests, removes it again.
WT="${1:?usage: run.sh <worktree path>}"
HERE="$(cd "$(dirname "$0")" && pwd)"
export GOFLAGS=-mod=mod GOPROXY=off GOTOOLCHAIN=local
GO="${GO:-/root/go/pkg/mod/golang.org/toolchain@v0.0.1-go1.23.11.linux-amd64/bin/go}"
DEST="$WT/xpath/grammars/expr/c04_hunt_test.go"
if [ ! -f "$WT/xpath/grammars/leafref/leafref.go" ]; then
	(cd "$WT/xpath/grammars/leafref" && ${VERIF_ROOT:-/verif}/bin/goyacc -o leafref.go -p leafref leafref.y && rm -f y.output)
fi
cp "$HERE/hunt_test.go" "$DEST"
trap 'rm -f "$DEST"' EXIT INT TERM
cd "$WT" && "$GO" test ./xpath/grammars/expr/ -count=1 -run 'TestC04Hunt_' -v
