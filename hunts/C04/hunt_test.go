// Hunt for violations of property C04 ("exactly the supported XPath and
// leafref path syntax is accepted").  Belongs in xpath/grammars/expr .
//
// Every TestC04Hunt_* function without the suffix _Control fails on the
// unchanged library because of a genuine violation; the *_Control tests pass.
package expr

import (
	"fmt"
	"strings"
	"testing"

	"github.com/sdcio/yang-parser/xpath"
)

func c04HuntMap(prefix string) (string, error) {
	switch prefix {
	case "", "p":
		return "ns-" + prefix, nil
	}
	return "", fmt.Errorf("unknown prefix %q", prefix)
}

func c04HuntCompile(s string, custom bool) (err error) {
	defer func() {
		if r := recover(); r != nil {
			err = fmt.Errorf("PANIC: %v", r)
		}
	}()
	if custom {
		_, err = NewExprMachineWithCustomFunctions(s, c04HuntMap)
	} else {
		_, err = NewExprMachine(s, c04HuntMap)
	}
	return err
}

func c04HuntShort(err error) string {
	s := strings.ReplaceAll(err.Error(), "\n", " | ")
	if len(s) > 200 {
		s = s[:200] + "..."
	}
	return s
}

func c04HuntMustAccept(t *testing.T, custom bool, exprs ...string) {
	t.Helper()
	for _, s := range exprs {
		if err := c04HuntCompile(s, custom); err != nil {
			d := s
			if len(d) > 60 {
				d = d[:60] + "..."
			}
			t.Errorf("valid expression %q (len %d) is rejected: %s", d, len(s), c04HuntShort(err))
		}
	}
}

func c04HuntMustReject(t *testing.T, custom bool, exprs ...string) {
	t.Helper()
	for _, s := range exprs {
		if err := c04HuntCompile(s, custom); err == nil {
			t.Errorf("invalid expression %q is accepted", s)
		}
	}
}

// Finding 1: the character U+F001 (a private-use character, a legal XML Char
// and therefore legal inside an XPath Literal) has the same numeric value as
// the lexer's internal sentinel xutils.ERR (0xF001).  CommonLex.Next()
// returns the decoded rune, and LexCommon / ConstructToken compare that rune
// with xutils.ERR, so the well-formed 3-byte sequence EF 80 81 is reported as
// "Invalid UTF-8 input" and the whole expression is rejected.
func TestC04Hunt_PrivateUseCharF001InLiteral(t *testing.T) {
	c04HuntMustAccept(t, false,
		"'\uf001'",
		"\"\uf001\"",
		"a = '\uf001'",
		"contains(a, 'x\uf001y')",
	)
}

func TestC04Hunt_PrivateUseCharF001InLiteral_Control(t *testing.T) {
	// the neighbours of U+F001 and other private-use / non-BMP characters are fine
	c04HuntMustAccept(t, false, "'\uf000'", "'\uf002'", "'\ue000'", "'\uf8ff'", "a = '\U0010fffd'", "'\ufffd'")
	// real invalid UTF-8 must stay rejected
	c04HuntMustReject(t, false, "'\xef\x80'", "'\xff'", "a = '\xc3'", "'\xed\xa0\x80'")
	// outside a literal U+F001 is no name character: rejected
	c04HuntMustReject(t, false, "a\uf001", "\uf001")
}

// Finding 2: the argument of deref() must be a bare location path.  XPath 1.0
// FunctionCall takes Argument ::= Expr, and RFC 7950 10.3.1 declares
// "node-set deref(node-set nodes)", so any node-set valued expression - a
// parenthesised path, a union - is a legal argument.  The grammar has
// DerefFunc: DEREFFUNC '(' LocationPath ')' instead.
func TestC04Hunt_DerefArgumentIsAnyExpr(t *testing.T) {
	c04HuntMustAccept(t, false,
		"deref((a))",
		"deref(a | b)",
		"deref((a)[1])",
		"deref((current())/../a)/../b",
	)
}

func TestC04Hunt_DerefArgumentIsAnyExpr_Control(t *testing.T) {
	c04HuntMustAccept(t, false, "deref(a)", "deref(a)/b", "deref(current()/../a)/../b", "deref(a[1])",
		"count((a))", "count(a | b)", "count((a)[1])", "(deref(a))/b")
	c04HuntMustReject(t, false, "deref()", "deref(a,b)", "deref(a", "deref a)")
}

// Finding 3: a Number with so many digits that its value exceeds the largest
// double is rejected ("bad number"): LexNum treats strconv.ParseFloat's
// ErrRange as a syntax error.  XPath 1.0 Number ::= Digits ('.' Digits?)? has
// no length limit; such a literal is well-formed (its value is +Infinity by
// IEEE 754 round-to-nearest), not a "malformed number".
func TestC04Hunt_LongNumberLiteral(t *testing.T) {
	c04HuntMustAccept(t, false,
		"1"+strings.Repeat("0", 309),
		"a < 1"+strings.Repeat("0", 309)+".0",
		strings.Repeat("9", 400),
	)
}

func TestC04Hunt_LongNumberLiteral_Control(t *testing.T) {
	c04HuntMustAccept(t, false,
		"1"+strings.Repeat("0", 308),
		strings.Repeat("0", 400)+"1",
		"0."+strings.Repeat("0", 400)+"1",
		"1."+strings.Repeat("0", 400),
	)
	c04HuntMustReject(t, false, "1.2.3", "1..2", "1_0", "0x10")
}

// Finding 4: a registered (custom) function that declares more than three
// arguments can never be called: the grammar only has FUNC '(' ... ')'
// productions for 0, 1, 2 and 3 arguments, so the call with exactly the
// declared number of arguments is a syntax error.  XPath 1.0 FunctionCall
// allows any number of arguments.
func TestC04Hunt_RegisteredFunctionWithFourArgs(t *testing.T) {
	c04HuntRegister()
	c04HuntMustAccept(t, true, "c04-four-args(a, b, 'c', 4)")
}

func TestC04Hunt_RegisteredFunctionWithFourArgs_Control(t *testing.T) {
	c04HuntRegister()
	c04HuntMustAccept(t, true, "c04-three-args(a, b, 'c')")
	c04HuntMustReject(t, true, "c04-three-args(a, b)", "c04-three-args(a, b, c, d)",
		"c04-four-args(a, b, c)", "c04-four-args(a, b, c, d, e)")
	// custom functions are not visible to the plain must/when compiler
	c04HuntMustReject(t, false, "c04-three-args(a, b, 'c')")
}

func c04HuntRegister() {
	lit := xpath.TypeIsLiteral
	fn := func(a []xpath.Datum) xpath.Datum { return xpath.NewBoolDatum(true) }
	xpath.RegisterCustomFunctions([]xpath.CustomFunctionInfo{
		{Name: "c04-four-args", FnPtr: fn,
			Args:    []xpath.DatumTypeChecker{lit, lit, lit, lit},
			RetType: xpath.TypeIsBool, DefaultRetVal: xpath.NewBoolDatum(false)},
		{Name: "c04-three-args", FnPtr: fn,
			Args:    []xpath.DatumTypeChecker{lit, lit, lit},
			RetType: xpath.TypeIsBool, DefaultRetVal: xpath.NewBoolDatum(false)},
	})
}
