package parse_test

// Hunt for violations of property C08 (YANG string arguments are decoded as
// RFC 6020 section 6.1.3 prescribes).  Belongs in the directory parse/ .
//
// Findings (fail on the unchanged library):
//   TestC08EscapesAreNotLayout
//   TestC08UnquotedLeadingPlus
//   TestC08LineCommentAtEOF
// Controls (pass): TestC08Control*
// Doubtful observations only run with HUNT_DOUBTFUL=1: TestC08Doubtful*

import (
	"fmt"
	"os"
	"testing"

	"github.com/sdcio/yang-parser/parse"
)

func c08Module(stmt string) string {
	return "module m {\n  namespace \"urn:m\";\n  prefix m;\n" + stmt + "\n}\n"
}

func c08Description(src string) (string, error) {
	tree, err := parse.Parse("c08", src, nil)
	if err != nil {
		return "", err
	}
	n := tree.Root.ChildByType(parse.NodeDescription)
	if n == nil {
		return "", fmt.Errorf("no description statement in the tree")
	}
	return n.Argument().String(), nil
}

type c08Case struct{ name, src, want string }

func c08Run(t *testing.T, cases []c08Case) {
	t.Helper()
	for _, c := range cases {
		got, err := c08Description(c.src)
		if err != nil {
			t.Errorf("%s: parse error: %v\nsource:\n%s", c.name, err, c.src)
			continue
		}
		if got != c.want {
			t.Errorf("%s: argument = %q, want %q\nsource:\n%s", c.name, got, c.want, c.src)
		}
	}
}

// Finding 1: escape substitution is done BEFORE the layout whitespace is
// trimmed, so characters produced by the escapes \n and \t are treated as if
// they were line breaks / indentation / trailing blanks of the YANG file.
func TestC08EscapesAreNotLayout(t *testing.T) {
	c08Run(t, []c08Case{
		// one source line, no line break in the file at all: nothing may be trimmed
		{"escaped newline with blanks around it",
			c08Module(`  description "a \n  b";`), "a \n  b"},
		// real line break preceded by an escaped tab: the tab is text, not a trailing blank
		{"escaped tab before a line break",
			c08Module("  description \"x\\t\n               y\";"), "x\t\ny"},
		// real line break followed (after the indentation) by an escaped tab: the tab is text
		{"escaped tab at the start of a continuation line",
			c08Module("  description \"x\n          \\ty\";"), "x\n\ty"},
		// escaped tab directly in column 0 of the continuation line
		{"escaped tab in column 0 of a continuation line",
			c08Module("  description \"x\n\\ty\";"), "x\n\ty"},
	})
}

// Finding 2: an unquoted argument that starts with '+' is not accepted (the
// lexer turns every '+' at the start of a token into a concatenation sign).
func TestC08UnquotedLeadingPlus(t *testing.T) {
	c08Run(t, []c08Case{
		{"unquoted +1", c08Module("  description +1;"), "+1"},
		{"unquoted +", c08Module("  description +;"), "+"},
		{"unquoted +a+b", c08Module("  description +a+b { }"), "+a+b"},
	})
	// the same through a statement where it matters in practice
	src := c08Module("  leaf l { type int8; default +5; }")
	tree, err := parse.Parse("c08", src, nil)
	if err != nil {
		t.Errorf("default +5: parse error: %v", err)
		return
	}
	d := tree.Root.ChildByType(parse.NodeLeaf).ChildByType(parse.NodeDefault)
	if d == nil || d.Argument().String() != "+5" {
		t.Errorf("default +5: wrong argument")
	}
}

// Finding 3: a '//' comment on the last line of the input, not followed by a
// line break, is not skipped: the whole parse fails with "unclosed comment".
func TestC08LineCommentAtEOF(t *testing.T) {
	c08Run(t, []c08Case{
		{"comment after the closing brace, no final newline",
			"module m {\n  namespace \"urn:m\";\n  prefix m;\n  description foo;\n} // end of module m", "foo"},
		{"bare // as the last two bytes",
			"module m {\n  namespace \"urn:m\";\n  prefix m;\n  description foo;\n}\n//", "foo"},
	})
}

// Controls: the neighbouring cases work.
func TestC08ControlLayout(t *testing.T) {
	c08Run(t, []c08Case{
		{"real line breaks are trimmed",
			c08Module("  description \"a  \t\n               b\n\t\t c\n\n                 d  \";"), "a\nb\n  c\n\n  d  "},
		{"crlf",
			c08Module("  description \"a  \r\n               b\r\n\r\n                c\";"), "a\r\nb\r\n\r\n c"},
		{"escapes without blanks next to them",
			c08Module(`  description "a\nb\tc\"d\\e\xf";`), "a\nb\tc\"d\\e\\xf"},
		{"single quoted is verbatim",
			c08Module("  description 'a \\n \\t\n   b // c /* d */ \"';"), "a \\n \\t\n   b // c /* d */ \""},
		{"concatenation with comments in between",
			c08Module("  description \"a\" /* x */ + // y\n /* z */ 'b'+\"c\n     d\";"), "abc\nd"},
		{"plus inside and at the end of an unquoted string", c08Module("  description a+b+;"), "a+b+"},
		{"comments inside a quoted string are text", c08Module(`  description "a /* b */ // c";`), "a /* b */ // c"},
	})
}

func TestC08ControlCommentsAtEOF(t *testing.T) {
	c08Run(t, []c08Case{
		{"line comment with final newline",
			"module m {\n  namespace \"urn:m\";\n  prefix m;\n  description foo;\n} // end\n", "foo"},
		{"block comment without final newline",
			"module m {\n  namespace \"urn:m\";\n  prefix m;\n  description foo;\n} /* end */", "foo"},
		{"no final newline at all",
			"module m {\n  namespace \"urn:m\";\n  prefix m;\n  description foo;\n}", "foo"},
	})
}

func c08Doubtful(t *testing.T) {
	if os.Getenv("HUNT_DOUBTFUL") == "" {
		t.Skip("doubtful observation; set HUNT_DOUBTFUL=1 to run")
	}
}

// Doubtful 1: \r is substituted by CR although RFC 6020 (and the property)
// list only \n \t \" \\ ; RFC 6020 leaves other escapes undefined, the
// library itself keeps every other unknown escape verbatim.
func TestC08DoubtfulEscapeR(t *testing.T) {
	c08Doubtful(t)
	c08Run(t, []c08Case{
		{"backslash r", c08Module(`  description "a\rb";`), `a\rb`},
	})
}

// Doubtful 2: a comment that starts right after an unquoted token (no
// separator) is taken as part of the token.
func TestC08DoubtfulCommentGluedToUnquoted(t *testing.T) {
	c08Doubtful(t)
	c08Run(t, []c08Case{
		{"keyword//comment", c08Module("  description// x\n   foo;"), "foo"},
		{"argument/*comment*/", c08Module("  description foo/* x */;"), "foo"},
	})
}
