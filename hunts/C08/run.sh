#!/bin/sh
# usage: run.sh <worktree>   (set HUNT_DOUBTFUL=1 to also run the doubtful observations)
WT="${1:?usage: run.sh <worktree path>}"
HERE="$(cd "$(dirname "$0")" && pwd)"
export GOFLAGS=-mod=mod GOPROXY=off GOTOOLCHAIN=local
GO="${GO:-/root/go/pkg/mod/golang.org/toolchain@v0.0.1-go1.23.11.linux-amd64/bin/go}"
DST="$WT/parse/zz_hunt_c08_test.go"
cp "$HERE/hunt_test.go" "$DST" || exit 2
(cd "$WT" && "$GO" test ./parse -count=1 -run 'TestC08' -v)
rc=$?
rm -f "$DST"
exit $rc
