// Hunt for violations of property C13:
// "Derived types narrow their base and inherit its default".
//
// Belongs in <worktree>/compile (package compile_test).
// Every TestC13Finding_* function fails on the unchanged library; the
// TestC13Control_* functions pass.

package compile_test

import (
	"fmt"
	"strings"
	"testing"

	"github.com/sdcio/yang-parser/schema"
	"github.com/sdcio/yang-parser/testutils"
)

func c13Mod(body string) string {
	return "module m { namespace \"urn:m\"; prefix m;\n" + body + "\n}"
}

// c13Type compiles the modules and returns the type of the top level
// leaf (or leaf-list) "l".
func c13Type(mods ...string) (typ schema.Type, err error) {
	defer func() {
		if r := recover(); r != nil {
			err = fmt.Errorf("PANIC: %v", r)
		}
	}()
	bufs := make([][]byte, 0, len(mods))
	for _, m := range mods {
		bufs = append(bufs, []byte(m))
	}
	ms, err := testutils.GetConfigSchema(bufs...)
	if err != nil {
		return nil, err
	}
	n := ms.Child("l")
	if n == nil {
		return nil, fmt.Errorf("no node l in compiled schema")
	}
	return n.Type(), nil
}

func c13Accepts(typ schema.Type, v string) bool {
	return typ.Validate(nil, []string{"l"}, v) == nil
}

func c13MustCompile(t *testing.T, mods ...string) schema.Type {
	t.Helper()
	typ, err := c13Type(mods...)
	if err != nil {
		t.Fatalf("valid model refused at compile time: %s",
			strings.TrimSpace(err.Error()))
	}
	return typ
}

func c13MustRefuse(t *testing.T, why string, mods ...string) {
	t.Helper()
	typ, err := c13Type(mods...)
	if err == nil {
		d, has := typ.Default()
		t.Fatalf("invalid model accepted (%s); compiled type has default=(%q,%v)",
			why, d, has)
	}
}

func c13CheckValues(t *testing.T, typ schema.Type, accept, reject []string) {
	t.Helper()
	for _, v := range accept {
		if !c13Accepts(typ, v) {
			t.Errorf("value %q rejected, must be accepted", v)
		}
	}
	for _, v := range reject {
		if c13Accepts(typ, v) {
			t.Errorf("value %q accepted, must be rejected", v)
		}
	}
}

func c13CheckDefault(t *testing.T, typ schema.Type, want string, wantHas bool) {
	t.Helper()
	d, has := typ.Default()
	if has != wantHas || (has && d != want) {
		t.Errorf("Default() = (%q,%v), want (%q,%v)", d, has, want, wantHas)
	}
}

// ---------------------------------------------------------------------
// Controls (pass on the unchanged library)
// ---------------------------------------------------------------------

func TestC13Control_ChainNarrowsAndInherits(t *testing.T) {
	typ := c13MustCompile(t, c13Mod(`
		typedef a { type int32 { range "1..100"; } default 25; }
		typedef b { type a { range "10..50"; } }
		typedef c { type b { range "20..30 | 40..max"; } }
		leaf l { type c; }`))
	c13CheckValues(t, typ,
		[]string{"20", "25", "30", "40", "50"},
		[]string{"19", "31", "39", "51", "1", "100"})
	c13CheckDefault(t, typ, "25", true)

	c13MustRefuse(t, "derived range wider than base", c13Mod(`
		typedef a { type int32 { range "1..5 | 10..20"; } }
		leaf l { type a { range "3..12"; } }`))
	c13MustRefuse(t, "inherited default violates narrowed range", c13Mod(`
		typedef a { type int8; default 100; }
		leaf l { type a { range "1..10"; } }`))
}

// ---------------------------------------------------------------------
// Findings (fail on the unchanged library)
// ---------------------------------------------------------------------

// RFC 6020 sec. 12: range-part = range-boundary [".." range-boundary] and
// range-boundary = min-keyword / max-keyword / integer-value / decimal-value,
// so "min" and "max" may stand alone as a range part.
func TestC13Finding_RangeMinMaxAsSinglePart(t *testing.T) {
	t.Run("1..5|max", func(t *testing.T) {
		typ := c13MustCompile(t, c13Mod(
			`leaf l { type int8 { range "1..5 | max"; } }`))
		c13CheckValues(t, typ,
			[]string{"1", "5", "127"}, []string{"0", "6", "126"})
	})
	t.Run("min-in-chain", func(t *testing.T) {
		typ := c13MustCompile(t, c13Mod(`
			typedef a { type int8 { range "10..20"; } }
			leaf l { type a { range "min | 15..max"; } }`))
		c13CheckValues(t, typ,
			[]string{"10", "15", "20"}, []string{"9", "11", "14", "21"})
	})
}

// Same grammar for length (length-boundary = min / max / non-negative
// integer).  A lone "max" is compiled as "0..max", a lone "min" as "min..0".
func TestC13Finding_LengthMinMaxAsSinglePart(t *testing.T) {
	t.Run("max-in-chain", func(t *testing.T) {
		typ := c13MustCompile(t, c13Mod(`
			typedef a { type string { length "2..4"; } }
			leaf l { type a { length "max"; } }`))
		c13CheckValues(t, typ,
			[]string{"abcd"}, []string{"", "ab", "abc", "abcde"})
	})
	t.Run("min-in-chain", func(t *testing.T) {
		typ := c13MustCompile(t, c13Mod(`
			typedef a { type string { length "2..4"; } }
			leaf l { type a { length "min"; } }`))
		c13CheckValues(t, typ,
			[]string{"ab"}, []string{"", "a", "abc", "abcd"})
	})
	t.Run("max-on-builtin", func(t *testing.T) {
		// length "max" on the builtin string means exactly the maximum
		// length; the empty string and "a" do not have it.
		typ := c13MustCompile(t, c13Mod(
			`leaf l { type string { length "max"; } }`))
		c13CheckValues(t, typ, nil, []string{"", "a"})
	})
}

// Range boundaries are handed to strconv.Parse{Int,Uint} with base 0 and
// to strconv.ParseFloat without any check against the YANG ABNF
// (integer-value / decimal-value: decimal digits only).  "010" is read as
// octal 8, "0x10" as 16, "1e1" as 10, and "NaN" produces a range without
// lower bound.  Whatever reading one prefers (refuse the malformed
// boundary, or read 010 as ten), the library's behaviour is wrong.
func TestC13Finding_RangeBoundaryGoLiteralSyntax(t *testing.T) {
	t.Run("octal", func(t *testing.T) {
		typ, err := c13Type(c13Mod(
			`leaf l { type int32 { range "010..020"; } }`))
		if err != nil {
			return // refusing the malformed boundary is fine
		}
		// If accepted, the only defensible meaning is decimal 10..20.
		c13CheckValues(t, typ,
			[]string{"10", "20"}, []string{"8", "9", "21"})
	})
	t.Run("hex", func(t *testing.T) {
		typ, err := c13Type(c13Mod(
			`leaf l { type int32 { range "0x10..0x20"; } }`))
		if err == nil {
			t.Errorf("range \"0x10..0x20\" accepted; 16 accepted=%v 32 accepted=%v",
				c13Accepts(typ, "16"), c13Accepts(typ, "32"))
		}
	})
	t.Run("decimal64-NaN", func(t *testing.T) {
		typ, err := c13Type(c13Mod(`
			typedef d { type decimal64 { fraction-digits 2; range "0..10"; } }
			leaf l { type d { range "NaN..5"; } }`))
		if err == nil {
			t.Errorf("range \"NaN..5\" accepted; value -100 (outside the base 0..10) accepted=%v",
				c13Accepts(typ, "-100"))
		}
	})
	t.Run("decimal64-exponent", func(t *testing.T) {
		c13MustRefuse(t, "range boundary 1e1 is not a decimal-value", c13Mod(
			`leaf l { type decimal64 { fraction-digits 2; range "1e1..2e1"; } }`))
	})
}

// decimal64 ranges are stored and compared as float64, which has 53 bits
// of mantissa while decimal64 has 64.  Values outside a range are accepted
// and a derived range that widens its base is accepted.
func TestC13Finding_Decimal64RangeComparedAsFloat64(t *testing.T) {
	t.Run("validate", func(t *testing.T) {
		typ := c13MustCompile(t, c13Mod(
			`leaf l { type decimal64 { fraction-digits 18; range "1..2"; } }`))
		c13CheckValues(t, typ,
			[]string{"1", "2", "1.000000000000000001"},
			[]string{"2.000000000000000001", "0.999999999999999999", "2.1"})
	})
	t.Run("validate-fd1", func(t *testing.T) {
		typ := c13MustCompile(t, c13Mod(
			`leaf l { type decimal64 { fraction-digits 1; range "0..900000000000000000.1"; } }`))
		c13CheckValues(t, typ,
			[]string{"900000000000000000.1"},
			[]string{"900000000000000000.2", "900000000000000001"})
	})
	t.Run("derived-wider-than-base", func(t *testing.T) {
		c13MustRefuse(t, "derived range 1..2 is wider than base 1.000000000000000001..2",
			c13Mod(`
			typedef a { type decimal64 { fraction-digits 18; range "1.000000000000000001..2"; } }
			leaf l { type a { range "1..2"; } }`))
	})
	t.Run("range-outside-builtin", func(t *testing.T) {
		// largest decimal64 with one fraction digit is 922337203685477580.7
		c13MustRefuse(t, "range upper bound above the decimal64 maximum",
			c13Mod(`leaf l { type decimal64 { fraction-digits 1; range "0..922337203685477600"; } }`))
	})
}

// fraction-digits only applies to the builtin decimal64 (RFC 6020 9.3.4);
// a type derived from decimal64 can only be restricted with range (9.3.3).
// The library accepts it on a derived type and silently ignores it.
func TestC13Finding_FractionDigitsOnDerivedType(t *testing.T) {
	c13MustRefuse(t, "fraction-digits on a type derived from decimal64", c13Mod(`
		typedef d { type decimal64 { fraction-digits 2; } }
		leaf l { type d { fraction-digits 4; } }`))
}

// The builtin string has no 32 bit length limit; RFC 6020 9.4.4 speaks of
// length values up to 18446744073709551615.
func TestC13Finding_LengthAbove32Bit(t *testing.T) {
	t.Run("4294967296", func(t *testing.T) {
		typ := c13MustCompile(t, c13Mod(
			`leaf l { type string { length "1..4294967296"; } }`))
		c13CheckValues(t, typ, []string{"a"}, []string{""})
	})
	t.Run("uint64-max", func(t *testing.T) {
		typ := c13MustCompile(t, c13Mod(
			`leaf l { type string { length "1..18446744073709551615"; } }`))
		c13CheckValues(t, typ, []string{"a"}, []string{""})
	})
}

// A typedef whose base type is bits cannot be used at all:
// refineType() has no case for schema.Bits.
func TestC13Finding_TypedefOverBitsRefused(t *testing.T) {
	typ := c13MustCompile(t, c13Mod(`
		typedef flags { type bits { bit a; bit b; } default "a"; }
		leaf l { type flags; }`))
	c13CheckDefault(t, typ, "a", true)
}

// The default of a leaf of type bits is dropped (makeBits ignores it) and
// is not validated either.
func TestC13Finding_BitsDefaultLost(t *testing.T) {
	t.Run("default-lost", func(t *testing.T) {
		typ := c13MustCompile(t, c13Mod(
			`leaf l { type bits { bit a; bit b; } default "a"; }`))
		c13CheckDefault(t, typ, "a", true)
	})
	t.Run("bad-default-accepted", func(t *testing.T) {
		c13MustRefuse(t, "default names a bit that does not exist", c13Mod(
			`leaf l { type bits { bit a; bit b; } default "zz"; }`))
	})
}

// RFC 6020 9.11: "An empty type cannot have a default value."
func TestC13Finding_EmptyTypeDefaultAccepted(t *testing.T) {
	t.Run("leaf", func(t *testing.T) {
		c13MustRefuse(t, "default on a leaf of type empty", c13Mod(
			`leaf l { type empty; default ""; }`))
	})
	t.Run("typedef", func(t *testing.T) {
		c13MustRefuse(t, "default on a typedef of type empty", c13Mod(`
			typedef e { type empty; default ""; }
			leaf l { type e; }`))
	})
}

// RFC 6020 9.2.1: in a YANG module the default of an integer may be given
// in hexadecimal ("0x" prefix) or octal (leading "0") notation; "if a
// default value in a YANG module has a leading zero, it is interpreted as
// an octal number".
func TestC13Finding_IntegerDefaultHexOctal(t *testing.T) {
	t.Run("hex-refused", func(t *testing.T) {
		typ := c13MustCompile(t, c13Mod(`
			typedef a { type int32 { range "0..1000"; } default "0xFF"; }
			leaf l { type a { range "200..300"; } }`))
		if _, has := typ.Default(); !has {
			t.Errorf("default lost")
		}
	})
	t.Run("octal-in-range-refused", func(t *testing.T) {
		// 010 is 8, which is inside 1..8
		c13MustCompile(t, c13Mod(
			`leaf l { type int8 { range "1..8"; } default "010"; }`))
	})
	t.Run("octal-out-of-range-accepted", func(t *testing.T) {
		// 010 is 8, which is outside 10..20
		c13MustRefuse(t, "default 010 (= 8) is outside range 10..20", c13Mod(
			`leaf l { type int8 { range "10..20"; } default "010"; }`))
	})
	t.Run("invalid-octal-accepted", func(t *testing.T) {
		c13MustRefuse(t, "default 08 is not an octal number", c13Mod(
			`leaf l { type int8; default "08"; }`))
	})
}

// RFC 6020 sec. 12: optsep = *(WSP / line-break), line-break = CRLF / LF.
// RangeArg.Parse / LengthArg.Parse strip " ", "\t" and "\n" but not "\r",
// so a multi-part restriction broken over lines in a file with CRLF line
// ends is refused.
func TestC13Finding_MultiLineRestrictionWithCRLF(t *testing.T) {
	t.Run("range", func(t *testing.T) {
		typ := c13MustCompile(t, c13Mod(
			"leaf l { type int8 { range \"1..3\r\n | 5\"; } }"))
		c13CheckValues(t, typ, []string{"1", "3", "5"}, []string{"4", "6"})
	})
	t.Run("length", func(t *testing.T) {
		typ := c13MustCompile(t, c13Mod(
			"leaf l { type string { length \"1..3\r\n | 5\"; } }"))
		c13CheckValues(t, typ, []string{"a", "abcde"}, []string{"", "abcd"})
	})
}

// RFC 6020 9.10.3: in a default statement the identity is written with the
// prefix of the import (or of the local module).  The library only accepts
// "<module-name>:<identity>" for imported identities and only the bare name
// for local ones, so valid defaults are refused.
func TestC13Finding_IdentityrefDefaultWithPrefixRefused(t *testing.T) {
	other := `module other-mod { namespace "urn:o"; prefix o;
		identity base; identity foo { base base; } }`
	t.Run("import-prefix", func(t *testing.T) {
		typ := c13MustCompile(t, `module m { namespace "urn:m"; prefix m;
			import other-mod { prefix o; }
			typedef i { type identityref { base o:base; } default "o:foo"; }
			leaf l { type i; } }`, other)
		if _, has := typ.Default(); !has {
			t.Errorf("default lost")
		}
	})
	t.Run("local-prefix", func(t *testing.T) {
		typ := c13MustCompile(t, `module mod { namespace "urn:m"; prefix p;
			identity base; identity foo { base base; }
			typedef i { type identityref { base base; } default "p:foo"; }
			leaf l { type i; } }`)
		if _, has := typ.Default(); !has {
			t.Errorf("default lost")
		}
	})
}

// XSD character class subtraction ([a-z-[aeiou]], XSD Part 2 App. F) is
// handed unchanged to Go's regexp, which reads it as the class
// "[a-z-[aeiou]" followed by a literal "]".
func TestC13Finding_PatternClassSubtraction(t *testing.T) {
	typ, err := c13Type(c13Mod(`
		typedef cons { type string { pattern "[a-z-[aeiou]]+"; } }
		leaf l { type cons { length "1..3"; } }`))
	if err != nil {
		t.Fatalf("valid pattern refused: %s", err)
	}
	c13CheckValues(t, typ,
		[]string{"bcd", "x"}, []string{"abc", "e", "b]", "[]", "bcdf"})
}

// The XSD multi-character escapes \i and \c (initial / subsequent name
// characters) and Unicode block escapes other than IsBasicLatin are
// refused at compile time although they are valid in a YANG pattern.
func TestC13Finding_PatternXsdEscapesRefused(t *testing.T) {
	t.Run("i-c", func(t *testing.T) {
		typ := c13MustCompile(t, c13Mod(
			`leaf l { type string { pattern "\i\c*"; } }`))
		c13CheckValues(t, typ, []string{"ab", "_a1"}, []string{"1a", ""})
	})
	t.Run("block", func(t *testing.T) {
		typ := c13MustCompile(t, c13Mod(
			`leaf l { type string { pattern "\p{IsGreek}+"; } }`))
		c13CheckValues(t, typ, []string{"αβ"}, []string{"a"})
	})
}
