#!/bin/sh
# usage: run.sh <worktree> [extra go test args]
# Copies hunt_test.go into <worktree>/compile, runs it, removes it again.
set -u
WT="${1:?usage: run.sh <worktree>}"
shift
HERE="$(cd "$(dirname "$0")" && pwd)"
export GOFLAGS=-mod=mod GOPROXY=off GOTOOLCHAIN=local
GO="${GO:-/root/go/pkg/mod/golang.org/toolchain@v0.0.1-go1.23.11.linux-amd64/bin/go}"
LR="$WT/xpath/grammars/leafref"
if [ ! -f "$LR/leafref.go" ]; then
  (cd "$LR" && ${VERIF_ROOT:-/verif}/bin/goyacc -o leafref.go -p leafref leafref.y && rm -f y.output)
fi
DEST="$WT/compile/c11_hunt_test.go"
cp "$HERE/hunt_test.go" "$DEST"
trap 'rm -f "$DEST"' EXIT INT TERM
cd "$WT" && "$GO" test ./compile -run 'TestC11' -count=1 -v "$@"
rc=$?
rm -f "$DEST"
exit $rc
