package compile_test

// Property C11: schema compilation is total and deterministic.
// Belongs in <worktree>/compile/ . Every TestC11_* function fails on the
// unchanged library because of one violation; TestC11Control_* pass.

import (
	"fmt"
	"sort"
	"strings"
	"testing"

	"github.com/sdcio/yang-parser/compile"
	"github.com/sdcio/yang-parser/parse"
	"github.com/sdcio/yang-parser/schema"
)

// ---------------------------------------------------------------- helpers

func c11Mod(name, body string) string {
	return fmt.Sprintf("module %s {\n namespace \"urn:%s\";\n prefix %s;\n %s\n}\n", name, name, name, body)
}

func c11Sub(name, belongs, body string) string {
	return fmt.Sprintf("submodule %s {\n belongs-to %s { prefix %s; }\n %s\n}\n", name, belongs, belongs, body)
}

type c11Result struct {
	ms       schema.ModelSet
	err      error
	panicked interface{}
}

func (r c11Result) verdict() string {
	switch {
	case r.panicked != nil:
		return fmt.Sprintf("PANIC: %v", r.panicked)
	case r.err != nil:
		return "ERROR"
	}
	return "OK"
}

// c11Compile parses the texts afresh (they must all be parseable) and
// compiles them with compile.CompileParseTrees.
func c11Compile(t *testing.T, skipUnknown bool, feats compile.FeaturesChecker, texts ...string) (res c11Result) {
	t.Helper()
	mods := make(map[string]*parse.Tree)
	for _, txt := range texts {
		name := strings.Fields(txt)[1]
		tr, err := parse.Parse(name+".yang", txt, nil)
		if err != nil {
			t.Fatalf("test input is not parseable (%s): %v", name, err)
		}
		mods[name] = tr
	}
	defer func() {
		if p := recover(); p != nil {
			res.panicked = p
		}
	}()
	res.ms, res.err = compile.CompileParseTrees(nil, mods, feats, skipUnknown, nil)
	return res
}

// c11Distinct compiles the same texts n times and returns the distinct values
// of observe() with the number of times each was seen.  It stops early once
// two distinct values have been seen.
func c11Distinct(t *testing.T, n int, skipUnknown bool, feats compile.FeaturesChecker,
	observe func(c11Result) string, texts ...string) map[string]int {
	t.Helper()
	seen := map[string]int{}
	for i := 0; i < n; i++ {
		seen[observe(c11Compile(t, skipUnknown, feats, texts...))]++
		if len(seen) > 1 && i > 20 {
			break
		}
	}
	return seen
}

func c11ReportDistinct(t *testing.T, what string, seen map[string]int) {
	t.Helper()
	if len(seen) <= 1 {
		for k := range seen {
			t.Logf("%s: always %q", what, k)
		}
		return
	}
	keys := []string{}
	for k := range seen {
		keys = append(keys, k)
	}
	sort.Strings(keys)
	for _, k := range keys {
		t.Logf("%s: %dx %q", what, seen[k], k)
	}
	t.Errorf("%s differs from run to run on identical input: %d distinct outcomes", what, len(seen))
}

// ------------------------------------------------- findings: panics

// A submodule that defines an identity and a leaf whose identityref is based
// on it makes the compiler dereference nil.
func TestC11_IdentityrefOnSubmoduleIdentityPanics(t *testing.T) {
	r := c11Compile(t, false, nil,
		c11Mod("a", `include s; container c { leaf x { type string; } }`),
		c11Sub("s", "a", `identity i1; container d { leaf y { type identityref { base i1; } } }`))
	if r.panicked != nil {
		t.Fatalf("CompileParseTrees panicked instead of returning a schema or an error: %v", r.panicked)
	}
	t.Logf("verdict: %s %v", r.verdict(), r.err)
}

// ------------------------------------------------- findings: cycles that are not reported

// A submodule that includes itself is the shortest include cycle.
func TestC11_SelfIncludeIsNotReported(t *testing.T) {
	r := c11Compile(t, false, nil,
		c11Mod("a", `include s; container c { leaf x { type string; } }`),
		c11Sub("s", "a", `include s; container d { leaf y { type string; } }`))
	if r.panicked != nil {
		t.Fatalf("panic: %v", r.panicked)
	}
	if r.err == nil {
		t.Fatalf("submodule s includes itself, but compilation succeeded without an error")
	}
	t.Logf("reported: %v", r.err)
}

// Features f1 <-> f2 defined in a submodule form an if-feature cycle.
func TestC11_FeatureCycleInSubmoduleIsNotReported(t *testing.T) {
	r := c11Compile(t, false, nil,
		c11Mod("a", `include s; container c { leaf x { type string; } }`),
		c11Sub("s", "a", `feature f1 { if-feature f2; } feature f2 { if-feature f1; }
		   container d { if-feature f1; leaf y { type string; } }`))
	if r.panicked != nil {
		t.Fatalf("panic: %v", r.panicked)
	}
	if r.err == nil {
		t.Fatalf("feature cycle f1 -> f2 -> f1 in submodule s was not reported, compilation succeeded")
	}
	t.Logf("reported: %v", r.err)
}

// Identities i1 <-> i2 defined in a submodule form a base cycle.
func TestC11_IdentityCycleInSubmoduleIsNotReported(t *testing.T) {
	r := c11Compile(t, false, nil,
		c11Mod("a", `include s; container c { leaf x { type string; } }`),
		c11Sub("s", "a", `identity i1 { base i2; } identity i2 { base i1; }`))
	if r.panicked != nil {
		t.Fatalf("panic: %v", r.panicked)
	}
	if r.err == nil {
		t.Fatalf("identity cycle i1 -> i2 -> i1 in submodule s was not reported, compilation succeeded")
	}
	t.Logf("reported: %v", r.err)
}

// ------------------------------------------------- findings: verdict depends on map order

// s1 includes s2, s2 includes s3, s3 imports b.  Whether s1 can use the
// prefix b (which it does not import) depends on whether the compiler happens
// to process s2 before s1 (iteration over the map of submodules).
func TestC11_IncludeChainVerdictDependsOnMapOrder(t *testing.T) {
	seen := c11Distinct(t, 300, false, nil,
		func(r c11Result) string {
			if r.err != nil {
				return "ERROR: " + r.err.Error()
			}
			return r.verdict()
		},
		c11Mod("m", `include s1; include s2; include s3; container c { leaf q { type string; } }`),
		c11Sub("s1", "m", `include s2; container c1 { leaf x { type b:t; } }`),
		c11Sub("s2", "m", `include s3;`),
		c11Sub("s3", "m", `import b { prefix b; }`),
		c11Mod("b", `typedef t { type string; }`))
	c11ReportDistinct(t, "verdict", seen)
}

// Same root cause, other symptom: whether the import cycle m -> (s1 -> s2 ->
// s3 ->) b -> m is detected depends on the map order.
func TestC11_IncludeChainImportCycleDetectionDependsOnMapOrder(t *testing.T) {
	seen := c11Distinct(t, 300, false, nil,
		func(r c11Result) string {
			if r.err != nil {
				return "ERROR: " + r.err.Error()
			}
			return r.verdict()
		},
		c11Mod("m", `include s1; container c { leaf q { type string; } }`),
		c11Sub("s1", "m", `include s2;`),
		c11Sub("s2", "m", `include s3;`),
		c11Sub("s3", "m", `import b { prefix b; }`),
		c11Mod("b", `import m { prefix m; } typedef t { type string; }`))
	c11ReportDistinct(t, "verdict", seen)
}

// ------------------------------------------------- findings: compiled schema differs from run to run

func c11FindLeafType(ms schema.ModelSet, path ...string) schema.Type {
	var n schema.Node = ms
	for _, p := range path {
		n = n.Child(p)
		if n == nil {
			return nil
		}
	}
	return n.Type()
}

// The identities an identityref accepts are delivered as a slice; its order
// follows the iteration order of a map.
func TestC11_IdentityrefIdentitiesOrderIsRandom(t *testing.T) {
	seen := c11Distinct(t, 300, false, nil,
		func(r c11Result) string {
			if r.ms == nil {
				return r.verdict()
			}
			ty, ok := c11FindLeafType(r.ms, "c", "x").(schema.Identityref)
			if !ok {
				return "no identityref"
			}
			var names []string
			for _, id := range ty.Identities() {
				names = append(names, id.Val)
			}
			return strings.Join(names, " ")
		},
		c11Mod("a", `identity base; identity d1 { base base; } identity d2 { base base; }
		   identity d3 { base base; } identity d4 { base base; } identity d5 { base base; }
		   container c { leaf x { type identityref { base base; } } }`))
	c11ReportDistinct(t, "Identityref.Identities()", seen)
}

func TestC11_ModelFeaturesOrderIsRandom(t *testing.T) {
	seen := c11Distinct(t, 300, false,
		compile.FeaturesFromNames(true, "a:f1", "a:f2", "a:f3", "a:f4", "a:f5"),
		func(r c11Result) string {
			if r.ms == nil {
				return r.verdict()
			}
			return strings.Join(r.ms.Modules()["a"].Features(), " ")
		},
		c11Mod("a", `feature f1; feature f2; feature f3; feature f4; feature f5;
		   container c { leaf x { type string; } }`))
	c11ReportDistinct(t, "Model.Features()", seen)
}

func TestC11_ModelDeviationsOrderIsRandom(t *testing.T) {
	dev := func(name, leaf string) string {
		return c11Mod(name, `import a { prefix a; } deviation /a:c/a:`+leaf+` { deviate add { units "u"; } }`)
	}
	seen := c11Distinct(t, 300, false, nil,
		func(r c11Result) string {
			if r.ms == nil {
				return r.verdict()
			}
			return strings.Join(r.ms.Modules()["a"].Deviations(), " ")
		},
		c11Mod("a", `container c { leaf x { type string; } leaf y { type string; } leaf z { type string; } leaf w { type string; } }`),
		dev("d1", "x"), dev("d2", "y"), dev("d3", "z"), dev("d4", "w"))
	c11ReportDistinct(t, "Model.Deviations()", seen)
}

// Two modules each define a top level choice named ch.  The model set keeps
// only one of them in Choices(), and which one is decided by map order.
func TestC11_ModelSetChoicesContentIsRandom(t *testing.T) {
	seen := c11Distinct(t, 300, false, nil,
		func(r c11Result) string {
			if r.ms == nil {
				return r.verdict()
			}
			var s []string
			for _, ch := range r.ms.Choices() {
				s = append(s, ch.Namespace()+":"+ch.Name())
			}
			return strings.Join(s, " ")
		},
		c11Mod("a", `choice ch { leaf a1 { type string; } }`),
		c11Mod("b", `choice ch { leaf b1 { type string; } }`))
	c11ReportDistinct(t, "ModelSet.Choices()", seen)
}

// ------------------------------------------------- findings: skipUnknown = true

// With skipUnknown a prefix that no import statement declares yields a nil
// module, which nearly every caller dereferences.
func TestC11_SkipUnknownUndeclaredPrefixPanics(t *testing.T) {
	inputs := map[string]string{
		"type":       `container c { leaf x { type zz:foo; } }`,
		"uses":       `container c { uses zz:foo; }`,
		"if-feature": `container c { if-feature zz:foo; leaf x { type string; } }`,
		"augment":    `augment /zz:foo { leaf x { type string; } }`,
		"base":       `identity i { base zz:foo; }`,
		"extension":  `container c { zz:ext "x"; }`,
		"deviation":  `deviation /zz:foo { deviate not-supported; }`,
	}
	names := []string{}
	for k := range inputs {
		names = append(names, k)
	}
	sort.Strings(names)
	for _, k := range names {
		r := c11Compile(t, true, nil, c11Mod("a", inputs[k]))
		if r.panicked != nil {
			t.Errorf("%s with undeclared prefix zz: panic: %v", k, r.panicked)
		} else {
			t.Logf("%s: %s %v", k, r.verdict(), r.err)
		}
	}
}

// With skipUnknown an identityref whose base identity is unknown (here: it
// lives in an imported module that is not part of the set - the very case
// skipUnknown exists for) dereferences nil.
func TestC11_SkipUnknownIdentityrefUnknownBasePanics(t *testing.T) {
	r := c11Compile(t, true, nil,
		c11Mod("c", `import a { prefix a; } leaf y { type identityref { base a:i; } }`))
	if r.panicked != nil {
		t.Errorf("base in missing module: panic: %v", r.panicked)
	}
	r = c11Compile(t, true, nil,
		c11Mod("c", `leaf y { type identityref { base nosuch; } }`))
	if r.panicked != nil {
		t.Errorf("undefined local base: panic: %v", r.panicked)
	}
}

// With skipUnknown the stand-in for the missing module a is inserted into the
// map of modules while checkFeatures ranges over that map.  Whether a:f ends up
// among the verified features, and with it whether container x exists in the
// compiled schema, is random.
func TestC11_SkipUnknownFeatureOfMissingModuleIsRandom(t *testing.T) {
	seen := c11Distinct(t, 400, true, compile.FeaturesFromNames(true, "a:f", "c:fc"),
		func(r c11Result) string {
			if r.ms == nil {
				return r.verdict()
			}
			s := "container x absent"
			if r.ms.Child("x") != nil {
				s = "container x present"
			}
			if m, ok := r.ms.Modules()["a"]; ok {
				s += fmt.Sprintf("; features of a: %v", m.Features())
			}
			return s
		},
		c11Mod("c", `import a { prefix a; } feature fc { if-feature a:f; }
		   container x { if-feature a:f; leaf y { type string; } }`))
	c11ReportDistinct(t, "compiled schema", seen)
}

// ------------------------------------------------- controls (pass)

func TestC11Control_CyclesThatAreReported(t *testing.T) {
	cases := map[string][]string{
		"import cycle": {c11Mod("a", `import b { prefix b; }`), c11Mod("b", `import a { prefix a; }`)},
		"self import":  {c11Mod("a", `import a { prefix x; }`)},
		"include cycle": {c11Mod("a", `include s1;`), c11Sub("s1", "a", `include s2;`),
			c11Sub("s2", "a", `include s1;`)},
		"grouping cycle":              {c11Mod("a", `grouping g1 { uses g2; } grouping g2 { container k { uses g1; } }`)},
		"grouping cycle in submodule": {c11Mod("a", `include s;`), c11Sub("s", "a", `grouping g1 { uses g2; } grouping g2 { uses g1; }`)},
		"typedef cycle":               {c11Mod("a", `typedef t1 { type t2; } typedef t2 { type union { type string; type t1; } }`)},
		"typedef cycle in submodule":  {c11Mod("a", `include s;`), c11Sub("s", "a", `typedef t1 { type t2; } typedef t2 { type a:t1; }`)},
		"identity cycle":              {c11Mod("a", `identity i1 { base i2; } identity i2 { base i1; }`)},
		"feature cycle":               {c11Mod("a", `feature f1 { if-feature f2; } feature f2 { if-feature f1; }`)},
	}
	for name, texts := range cases {
		r := c11Compile(t, false, nil, texts...)
		if r.panicked != nil || r.err == nil {
			t.Errorf("%s: expected an error, got %s", name, r.verdict())
		}
	}
}

func TestC11Control_TwoLevelIncludeIsDeterministic(t *testing.T) {
	seen := c11Distinct(t, 100, false, nil, func(r c11Result) string { return r.verdict() },
		c11Mod("m", `include s1; include s2; container c { leaf q { type string; } }`),
		c11Sub("s1", "m", `include s2; container c1 { leaf x { type b:t; } }`),
		c11Sub("s2", "m", `import b { prefix b; }`),
		c11Mod("b", `typedef t { type string; }`))
	c11ReportDistinct(t, "verdict", seen)
}

func TestC11Control_IdentityrefInModule(t *testing.T) {
	r := c11Compile(t, false, nil,
		c11Mod("a", `identity i1; identity i2 { base i1; } container d { leaf y { type identityref { base i1; } } }`))
	if r.panicked != nil || r.err != nil {
		t.Fatalf("expected success, got %s %v", r.verdict(), r.err)
	}
}
