// Hunt for property C17 (schema path validation walks the tree exactly).
// Belongs in <worktree>/schema (external test package schema_test).
package schema_test

import (
	"fmt"
	"strings"
	"testing"

	"github.com/sdcio/yang-parser/compile"
	"github.com/sdcio/yang-parser/parse"
	"github.com/sdcio/yang-parser/schema"
)

type c17Ctx struct{ incomplete bool }

func (c c17Ctx) ErrorHelpText() []string    { return nil }
func (c c17Ctx) AllowIncompletePaths() bool { return c.incomplete }

func c17NoExt(parse.NodeType) map[parse.NodeType]parse.Cardinality {
	return map[parse.NodeType]parse.Cardinality{}
}

func c17Compile(t *testing.T, texts ...string) schema.ModelSet {
	t.Helper()
	mods := map[string]*parse.Tree{}
	for i, tx := range texts {
		tr, err := parse.Parse(fmt.Sprintf("c17hunt%d", i), tx, c17NoExt)
		if err != nil {
			t.Fatalf("parse: %v", err)
		}
		mods[tr.Root.Argument().String()] = tr
	}
	ms, _, err := compile.CompileModulesWithWarnings(nil, mods, "", false,
		compile.Include(compile.IsConfig, compile.IncludeState(true)))
	if err != nil {
		t.Fatalf("compile: %v", err)
	}
	return ms
}

const c17Schema = `module m {
	namespace "urn:hunt:m";
	prefix m;
	container c {
		leaf u { type uint8; }
		leaf e { type empty; }
		leaf-list ll { type uint8 { range "0..100"; } }
		leaf b { type bits { bit one; bit two; } }
		leaf iid { type instance-identifier; }
		leaf d1 { type decimal64 { fraction-digits 1; } }
		list l { key k; leaf k { type uint8; } leaf v { type uint8; } }
	}
}`

func c17Validate(ms schema.ModelSet, path ...string) error {
	return ms.Validate(c17Ctx{false}, nil, path)
}

func c17Accept(t *testing.T, ms schema.ModelSet, path ...string) {
	t.Helper()
	if err := c17Validate(ms, path...); err != nil {
		t.Errorf("path %q: expected to be accepted, got %v", path, err)
	}
}

func c17Reject(t *testing.T, ms schema.ModelSet, path ...string) {
	t.Helper()
	if err := c17Validate(ms, path...); err == nil {
		t.Errorf("path %q: expected to be rejected, was accepted", path)
	}
}

// Controls: the basic walk behaves as the property says (these pass).
func TestC17HuntControls(t *testing.T) {
	ms := c17Compile(t, c17Schema)
	c17Accept(t, ms, "c", "u", "5")
	c17Reject(t, ms, "c", "u", "abc")
	c17Reject(t, ms, "c", "u", "5", "6")
	c17Accept(t, ms, "c", "e")
	c17Reject(t, ms, "c", "e", "x")
	c17Accept(t, ms, "c", "ll", "100")
	c17Reject(t, ms, "c", "ll", "101")
	c17Accept(t, ms, "c", "l", "1", "v", "2")
	c17Reject(t, ms, "c", "l", "x", "v", "2")
	c17Accept(t, ms, "c", "b", "one")
	c17Accept(t, ms, "c", "b", "one two")
	c17Accept(t, ms, "c", "iid", "/m:c/m:u")
	c17Accept(t, ms, "c", "d1", "922337203685477580.7")
	c17Accept(t, ms, "c", "d1", "922337203685477580")
	c17Reject(t, ms, "c", "d1", "922337203685477580.8")

	// an over-long path whose value IS valid: the extra token is the first
	// offending element, and that is what the error names.
	err := c17Validate(ms, "c", "u", "5", "6")
	if err == nil || !strings.Contains(err.Error(), "/c/u/5/6") {
		t.Errorf("expected the error to identify /c/u/5/6, got %v", err)
	}
	// an invalid list key followed by a bad child name: the key is named.
	err = c17Validate(ms, "c", "l", "x", "zz")
	if err == nil || !strings.Contains(err.Error(), "/c/l/x") ||
		strings.Contains(err.Error(), "zz") {
		t.Errorf("expected the error to identify /c/l/x, got %v", err)
	}
}

// Finding 1: with an invalid leaf / leaf-list value followed by a surplus
// token, the error names the surplus token, not the (earlier) invalid value.
func TestC17FirstOffendingElementIsTheInvalidLeafValue(t *testing.T) {
	ms := c17Compile(t, c17Schema)
	for _, tc := range []struct {
		path     []string
		offender string // path up to and including the first offending element
		later    string // path including the later, surplus token
	}{
		{[]string{"c", "u", "abc", "6"}, "/c/u/abc", "/c/u/abc/6"},
		{[]string{"c", "ll", "500", "6"}, "/c/ll/500", "/c/ll/500/6"},
		{[]string{"c", "e", "x", "y"}, "/c/e/x", "/c/e/x/y"},
		{[]string{"c", "l", "1", "v", "abc", "6"}, "/c/l/1/v/abc", "/c/l/1/v/abc/6"},
	} {
		err := c17Validate(ms, tc.path...)
		if err == nil {
			t.Errorf("path %q: expected to be rejected", tc.path)
			continue
		}
		short := c17Validate(ms, tc.path[:len(tc.path)-1]...)
		if short == nil {
			t.Fatalf("path %q: the value alone should already be rejected",
				tc.path[:len(tc.path)-1])
		}
		if strings.Contains(err.Error(), tc.later) {
			t.Errorf("path %q: error identifies the surplus token (%v); "+
				"the first offending element is %s (error for the path cut "+
				"after the value: %v)", tc.path, err, tc.offender, short)
		}
	}
}

// Finding 2: a bits leaf accepts tokens that are not bit names of the type.
func TestC17BitsValueIsValidatedAgainstItsType(t *testing.T) {
	ms := c17Compile(t, c17Schema)
	c17Accept(t, ms, "c", "b", "two")
	c17Reject(t, ms, "c", "b", "three")
	c17Reject(t, ms, "c", "b", "one three")
	c17Reject(t, ms, "c", "b", "one,two")
}

// Finding 3: an instance-identifier leaf accepts any token at all.
func TestC17InstanceIdentifierValueIsValidatedAgainstItsType(t *testing.T) {
	ms := c17Compile(t, c17Schema)
	c17Accept(t, ms, "c", "iid", "/m:c/m:l[m:k='1']/m:v")
	c17Reject(t, ms, "c", "iid", "!!!")
	c17Reject(t, ms, "c", "iid", "not a path")
	c17Reject(t, ms, "c", "iid", "")
}

// Finding 4: a decimal64 value written without a fraction part is only
// range-checked in float64, so values above the decimal64 maximum of the
// type (fraction-digits 1: 922337203685477580.7) are accepted.
func TestC17Decimal64IntegerFormAboveMaximumIsRejected(t *testing.T) {
	ms := c17Compile(t, c17Schema)
	c17Reject(t, ms, "c", "d1", "922337203685477580.8") // control, with '.'
	c17Reject(t, ms, "c", "d1", "922337203685477581")
	c17Reject(t, ms, "c", "d1", "-922337203685477581")
}
