#!/bin/sh
# usage: run.sh <worktree>
# Copies hunt_test.go into <worktree>/schema, runs it, removes it again.
set -u
WT="${1:?usage: run.sh <worktree>}"
HERE="$(cd "$(dirname "$0")" && pwd)"
export GOFLAGS=-mod=mod GOPROXY=off GOTOOLCHAIN=local
GO="${GO:-/root/go/pkg/mod/golang.org/toolchain@v0.0.1-go1.23.11.linux-amd64/bin/go}"
if [ ! -f "$WT/xpath/grammars/leafref/leafref.go" ]; then
	(cd "$WT/xpath/grammars/leafref" && ${VERIF_ROOT:-/verif}/bin/goyacc -o leafref.go -p leafref leafref.y >/dev/null && rm -f y.output)
fi
DST="$WT/schema/c17_hunt_test.go"
cp "$HERE/hunt_test.go" "$DST"
(cd "$WT" && "$GO" test ./schema -count=1 -run 'TestC17' -v)
rc=$?
rm -f "$DST"
exit $rc
