package compile_test

// Hunt for violations of property C14 (config, status, if-feature and
// deviations shape the tree as specified).  Belongs in <worktree>/compile.
//
// Every TestC14Hunt_* function fails on the unchanged library because of one
// violation; the TestC14Control_* functions pass and pin the behaviour the
// findings are compared with.

import (
	"fmt"
	"sort"
	"strings"
	"testing"

	"github.com/sdcio/yang-parser/compile"
	"github.com/sdcio/yang-parser/parse"
	"github.com/sdcio/yang-parser/schema"
)

// ---------------------------------------------------------------- helpers

func c14hNoExt(parse.NodeType) map[parse.NodeType]parse.Cardinality {
	return map[parse.NodeType]parse.Cardinality{}
}

// c14hCompile compiles the module texts with exactly the named features
// ("module:feature") enabled.
func c14hCompile(features []string, mods ...string) (ms schema.ModelSet, err error) {
	defer func() {
		if r := recover(); r != nil {
			err = fmt.Errorf("PANIC: %v", r)
		}
	}()
	trees := make(map[string]*parse.Tree)
	for i, m := range mods {
		t, perr := parse.Parse(fmt.Sprintf("mod%d", i), m, c14hNoExt)
		if perr != nil {
			return nil, fmt.Errorf("parse: %v", perr)
		}
		trees[t.Root.Argument().String()] = t
	}
	return compile.CompileParseTrees(nil, trees,
		compile.FeaturesFromNames(true, features...), false, nil)
}

func c14hMod(name, body string) string {
	return fmt.Sprintf("module %s {\n namespace \"urn:%s\";\n prefix %s;\n%s\n}\n",
		name, name, name, body)
}

func c14hDevMod(body string) string {
	return "module d {\n namespace \"urn:d\";\n prefix d;\n import m { prefix m; }\n" + body + "\n}\n"
}

func c14hDumpNode(sb *strings.Builder, n schema.Node, ind string) {
	kind := fmt.Sprintf("%T", n)
	kind = kind[strings.LastIndex(kind, ".")+1:]
	extra := ""
	if _, isList := n.(schema.List); !isList && n.Type() != nil {
		extra = " type=" + n.Type().Name().Local
	}
	fmt.Fprintf(sb, "%s%s %s cfg=%v st=%v%s\n", ind, kind, n.Name(), n.Config(), n.Status(), extra)
	chs := append([]schema.Node{}, n.Children()...)
	sort.Slice(chs, func(i, j int) bool { return chs[i].Name() < chs[j].Name() })
	for _, c := range chs {
		c14hDumpNode(sb, c, ind+"  ")
	}
}

func c14hDumpTree(sb *strings.Builder, t schema.Tree, ind string) {
	chs := append([]schema.Node{}, t.Children()...)
	sort.Slice(chs, func(i, j int) bool { return chs[i].Name() < chs[j].Name() })
	for _, c := range chs {
		c14hDumpNode(sb, c, ind)
	}
}

// c14hDump is a small canonical dump: data tree, then the rpcs and
// notifications of module "m".
func c14hDump(ms schema.ModelSet) string {
	var sb strings.Builder
	c14hDumpTree(&sb, ms, "")
	m, ok := ms.Modules()["m"]
	if !ok {
		return sb.String()
	}
	var names []string
	for r := range m.Rpcs() {
		names = append(names, r)
	}
	sort.Strings(names)
	for _, r := range names {
		fmt.Fprintf(&sb, "rpc %s\n input\n", r)
		c14hDumpTree(&sb, m.Rpcs()[r].Input(), "  ")
		fmt.Fprintf(&sb, " output\n")
		c14hDumpTree(&sb, m.Rpcs()[r].Output(), "  ")
	}
	names = nil
	for r := range m.Notifications() {
		names = append(names, r)
	}
	sort.Strings(names)
	for _, r := range names {
		fmt.Fprintf(&sb, "notification %s\n", r)
		c14hDumpTree(&sb, m.Notifications()[r].Schema(), "  ")
	}
	return sb.String()
}

func c14hMustCompile(t *testing.T, what string, features []string, mods ...string) schema.ModelSet {
	t.Helper()
	ms, err := c14hCompile(features, mods...)
	if err != nil {
		t.Fatalf("%s: unexpected compile error: %v", what, err)
	}
	return ms
}

func c14hRpcNames(ms schema.ModelSet) []string {
	var names []string
	for r := range ms.Modules()["m"].Rpcs() {
		names = append(names, r)
	}
	sort.Strings(names)
	return names
}

func c14hNotifNames(ms schema.ModelSet) []string {
	var names []string
	for r := range ms.Modules()["m"].Notifications() {
		names = append(names, r)
	}
	sort.Strings(names)
	return names
}

// ------------------------------------------------------------- finding 1

const c14hRpcFeatureMod = `
 feature f;
 rpc r  { if-feature f; input { leaf x { type string; } } }
 rpc r0 { input { leaf x { type string; } } }
 notification n  { if-feature f; leaf y { type string; } }
 notification n0 { leaf y { type string; } }
 container c { leaf z { if-feature f; type string; } }`

// An rpc whose if-feature is disabled must not be part of the schema.
func TestC14Hunt_RpcWithDisabledIfFeatureIsPresent(t *testing.T) {
	ms := c14hMustCompile(t, "f disabled", nil, c14hMod("m", c14hRpcFeatureMod))
	if got := c14hRpcNames(ms); len(got) != 1 || got[0] != "r0" {
		t.Errorf("feature m:f disabled: rpcs = %v, want [r0] (rpc r has 'if-feature f')\n%s",
			got, c14hDump(ms))
	}
}

// A notification whose if-feature is disabled must not be part of the schema.
func TestC14Hunt_NotificationWithDisabledIfFeatureIsPresent(t *testing.T) {
	ms := c14hMustCompile(t, "f disabled", nil, c14hMod("m", c14hRpcFeatureMod))
	if got := c14hNotifNames(ms); len(got) != 1 || got[0] != "n0" {
		t.Errorf("feature m:f disabled: notifications = %v, want [n0] (notification n has 'if-feature f')\n%s",
			got, c14hDump(ms))
	}
}

func TestC14Control_IfFeatureOnDataNodeAndEnabledRpc(t *testing.T) {
	off := c14hMustCompile(t, "f disabled", nil, c14hMod("m", c14hRpcFeatureMod))
	if off.Child("c").Child("z") != nil {
		t.Errorf("leaf z present although m:f is disabled")
	}
	on := c14hMustCompile(t, "f enabled", []string{"m:f"}, c14hMod("m", c14hRpcFeatureMod))
	if on.Child("c").Child("z") == nil {
		t.Errorf("leaf z absent although m:f is enabled")
	}
	if got := c14hRpcNames(on); len(got) != 2 {
		t.Errorf("f enabled: rpcs = %v, want [r r0]", got)
	}
	if got := c14hNotifNames(on); len(got) != 2 {
		t.Errorf("f enabled: notifications = %v, want [n n0]", got)
	}
}

// ------------------------------------------------------------- finding 2

const c14hRpcDevMod = `
 rpc r  { input { leaf x { type string; } leaf x2 { type string; } } }
 rpc r0 { input { leaf x { type string; } } }
 notification n { leaf y { type string; } leaf y2 { type string; } }
 notification n0 { leaf y { type string; } }`

// deviate not-supported on an rpc is accepted but has no effect.
func TestC14Hunt_RpcDeviatedNotSupportedIsPresent(t *testing.T) {
	ms := c14hMustCompile(t, "deviation of rpc", nil, c14hMod("m", c14hRpcDevMod),
		c14hDevMod(`deviation /m:r { deviate not-supported; }`))
	if got := c14hRpcNames(ms); len(got) != 1 || got[0] != "r0" {
		t.Errorf("rpcs = %v, want [r0]: /m:r is deviated not-supported\n%s", got, c14hDump(ms))
	}
}

func TestC14Control_RpcInputLeafNotSupported(t *testing.T) {
	ms := c14hMustCompile(t, "deviation of rpc input leaf", nil, c14hMod("m", c14hRpcDevMod),
		c14hDevMod(`deviation /m:r/m:input/m:x { deviate not-supported; }`))
	in := ms.Modules()["m"].Rpcs()["r"].Input()
	if in.Child("x") != nil || in.Child("x2") == nil {
		t.Errorf("want x absent and x2 present in the input of r\n%s", c14hDump(ms))
	}
}

// ------------------------------------------------------------- finding 3

// A deviation whose target is (in) a notification is rejected as an invalid
// path, whatever the deviate.
func TestC14Hunt_DeviationInsideNotificationRejected(t *testing.T) {
	// not-supported on a leaf of the notification
	ms, err := c14hCompile(nil, c14hMod("m", c14hRpcDevMod),
		c14hDevMod(`deviation /m:n/m:y { deviate not-supported; }`))
	if err != nil {
		t.Errorf("deviation /m:n/m:y { deviate not-supported; } rejected: %v", err)
	} else {
		sch := ms.Modules()["m"].Notifications()["n"].Schema()
		if sch.Child("y") != nil || sch.Child("y2") == nil {
			t.Errorf("want y absent and y2 present in notification n\n%s", c14hDump(ms))
		}
	}

	// replace: same schema as editing the source
	ms, err = c14hCompile(nil, c14hMod("m", c14hRpcDevMod),
		c14hDevMod(`deviation /m:n/m:y { deviate replace { type uint8; } }`))
	edited := c14hMustCompile(t, "edited source", nil, c14hMod("m",
		strings.Replace(c14hRpcDevMod, "notification n { leaf y { type string; }",
			"notification n { leaf y { type uint8; }", 1)))
	if err != nil {
		t.Errorf("deviation /m:n/m:y { deviate replace { type uint8; } } rejected: %v", err)
	} else if a, b := c14hDump(ms), c14hDump(edited); a != b {
		t.Errorf("deviated and edited schema differ\n--- deviated\n%s--- edited\n%s", a, b)
	}

	// the notification itself
	ms, err = c14hCompile(nil, c14hMod("m", c14hRpcDevMod),
		c14hDevMod(`deviation /m:n { deviate not-supported; }`))
	if err != nil {
		t.Errorf("deviation /m:n { deviate not-supported; } rejected: %v", err)
	} else if got := c14hNotifNames(ms); len(got) != 1 || got[0] != "n0" {
		t.Errorf("notifications = %v, want [n0]", got)
	}
}

// ------------------------------------------------------------- finding 4

// A deviation statement written in a submodule is silently ignored.
func TestC14Hunt_DeviationInSubmoduleIgnored(t *testing.T) {
	m := `module m { namespace "urn:m"; prefix m; include s;
 container c { leaf z { type string; } leaf w { type string; } }
}`
	s := `submodule s { belongs-to m { prefix m; }
 deviation /m:c/m:z { deviate not-supported; }
}`
	ms := c14hMustCompile(t, "deviation in submodule", nil, m, s)
	if ms.Child("c").Child("z") != nil {
		t.Errorf("leaf z still present although submodule s deviates it not-supported\n%s", c14hDump(ms))
	}
	if d := ms.Modules()["m"].Deviations(); len(d) == 0 {
		t.Errorf("module m reports no deviations")
	}

	// the same for a target in another module, and with deviate replace
	m2 := `module m { namespace "urn:m"; prefix m; import o { prefix o; } include s; }`
	o := c14hMod("o", `container oc { leaf z { type string; } }`)
	s2 := `submodule s { belongs-to m { prefix m; } import o { prefix o; }
 deviation /o:oc/o:z { deviate replace { type uint8; } }
}`
	ms = c14hMustCompile(t, "deviation in submodule, other module", nil, m2, s2, o)
	if got := ms.Child("oc").Child("z").Type().Name().Local; got != "uint8" {
		t.Errorf("type of /o:oc/o:z = %s, want uint8 (deviate replace in submodule s)", got)
	}
}

func TestC14Control_DeviationInModuleApplied(t *testing.T) {
	m := `module m { namespace "urn:m"; prefix m;
 container c { leaf z { type string; } leaf w { type string; } }
 deviation /m:c/m:z { deviate not-supported; }
}`
	ms := c14hMustCompile(t, "deviation in module", nil, m)
	if ms.Child("c").Child("z") != nil || ms.Child("c").Child("w") == nil {
		t.Errorf("want z absent, w present\n%s", c14hDump(ms))
	}
}

// ------------------------------------------------------------- finding 5

// The status of an rpc / notification is not handed down to its children:
// a more current child is accepted, and a child may not use what its
// deprecated parent is entitled to use.
func TestC14Hunt_StatusOfRpcAndNotificationNotInherited(t *testing.T) {
	for _, body := range []string{
		`rpc r { status obsolete; input { leaf x { status current; type string; } } }`,
		`rpc r { status deprecated; output { container k { leaf x { status current; type string; } } } }`,
		`notification n { status deprecated; leaf y { status current; type string; } }`,
	} {
		if ms, err := c14hCompile(nil, c14hMod("m", body)); err == nil {
			t.Errorf("accepted, want rejection (child more current than parent): %s\n%s", body, c14hDump(ms))
		}
	}
	for _, body := range []string{
		`typedef t { status deprecated; type string; } rpc r { status deprecated; input { leaf a { type t; } } }`,
		`typedef t { status deprecated; type string; } notification n { status deprecated; leaf a { type t; } }`,
	} {
		if _, err := c14hCompile(nil, c14hMod("m", body)); err != nil {
			t.Errorf("rejected, want acceptance (deprecated parent, deprecated typedef): %s\n   %v", body, err)
		}
	}
}

func TestC14Control_StatusOfContainerInherited(t *testing.T) {
	if _, err := c14hCompile(nil, c14hMod("m",
		`container c { status obsolete; leaf x { status current; type string; } }`)); err == nil {
		t.Errorf("current leaf under obsolete container accepted")
	}
	ms, err := c14hCompile(nil, c14hMod("m",
		`typedef t { status deprecated; type string; } container c { status deprecated; leaf a { type t; } }`))
	if err != nil {
		t.Fatalf("leaf of deprecated container using deprecated typedef rejected: %v", err)
	}
	if st := ms.Child("c").Child("a").Status(); st != schema.Deprecated {
		t.Errorf("status of c/a = %v, want Deprecated", st)
	}
	// and inside an rpc the rule is applied between data nodes
	if _, err := c14hCompile(nil, c14hMod("m",
		`rpc r { input { container k { status obsolete; leaf x { status current; type string; } } } }`)); err == nil {
		t.Errorf("current leaf under obsolete container in rpc input accepted")
	}
}

// ------------------------------------------------------------- finding 6

// "Within its own module" stops at the submodule boundary.
func TestC14Hunt_StatusReferenceAcrossSubmoduleNotChecked(t *testing.T) {
	m := `module m { namespace "urn:m"; prefix m; include s;
 container c { leaf z { type t; } }
}`
	s := `submodule s { belongs-to m { prefix m; }
 typedef t { status obsolete; type string; }
}`
	if ms, err := c14hCompile(nil, m, s); err == nil {
		t.Errorf("current leaf z uses obsolete typedef t of its own module (defined in submodule s): accepted\n%s",
			c14hDump(ms))
	}
	m2 := `module m { namespace "urn:m"; prefix m; include s;
 container c { uses g; }
}`
	s2 := `submodule s { belongs-to m { prefix m; }
 grouping g { status deprecated; leaf a { type string; } }
}`
	if ms, err := c14hCompile(nil, m2, s2); err == nil {
		t.Errorf("current uses of deprecated grouping g of its own module (defined in submodule s): accepted\n%s",
			c14hDump(ms))
	}
}

func TestC14Control_StatusReferenceSameFile(t *testing.T) {
	if _, err := c14hCompile(nil, c14hMod("m",
		`typedef t { status obsolete; type string; } container c { leaf z { type t; } }`)); err == nil {
		t.Errorf("current leaf using obsolete typedef accepted")
	}
	if _, err := c14hCompile(nil, c14hMod("m",
		`grouping g { status deprecated; leaf a { type string; } } container c { uses g; }`)); err == nil {
		t.Errorf("current uses of deprecated grouping accepted")
	}
}

// ------------------------------------------------------------- finding 7

// Whether a 'uses' written inside a grouping passes the status reference
// check depends on the order of the statements in the module.

// current grouping g uses deprecated grouping h: must be rejected.
func TestC14Hunt_StatusOfUsesInGroupingOrderDependentAccept(t *testing.T) {
	h := `grouping h { status deprecated; leaf a { type string; } }`
	g := `grouping g { uses h; }`
	c := `container c { status deprecated; uses g; }`
	for _, order := range [][]string{{h, g, c}, {g, h, c}, {c, h, g}, {c, g, h}, {g, c, h}} {
		body := strings.Join(order, "\n ")
		if ms, err := c14hCompile(nil, c14hMod("m", body)); err == nil {
			t.Errorf("accepted, want rejection (current grouping g uses deprecated grouping h):\n %s\n%s",
				body, c14hDump(ms))
		}
	}
}

// deprecated grouping g uses deprecated grouping h: fine, in any order.
func TestC14Hunt_StatusOfUsesInGroupingOrderDependentReject(t *testing.T) {
	h := `grouping h { status deprecated; leaf a { type string; } }`
	for _, v := range []struct{ g, c string }{
		{`grouping g { status deprecated; uses h; }`, `container c { uses g { status deprecated; } }`},
		{`grouping g { status deprecated; container k { uses h; } }`, `container c { status deprecated; uses g; }`},
	} {
		var verdicts []string
		for _, order := range [][]string{{h, v.g, v.c}, {v.c, h, v.g}, {v.c, v.g, h}} {
			_, err := c14hCompile(nil, c14hMod("m", strings.Join(order, "\n ")))
			verdicts = append(verdicts, fmt.Sprint(err))
		}
		for i, vd := range verdicts {
			if vd != "<nil>" {
				t.Errorf("%s + %s: order %d rejected: %s (order 0: %s)", v.g, v.c, i, vd, verdicts[0])
			}
		}
	}
}

// ------------------------------------------------------------- finding 8

// Definitions that are never instantiated are not checked at all.
func TestC14Hunt_StatusOfUnusedDefinitionsNotChecked(t *testing.T) {
	for _, body := range []string{
		// a current typedef derived from a deprecated one
		`typedef t { status deprecated; type string; } typedef u { type t; }`,
		// ... the same pair is rejected as soon as u is used (even by a deprecated leaf)
		// a current leaf of a grouping nobody uses
		`typedef t { status obsolete; type string; } grouping g { leaf a { type t; } }`,
		`feature f { status obsolete; } grouping g { leaf a { if-feature f; type string; } }`,
	} {
		if ms, err := c14hCompile(nil, c14hMod("m", body)); err == nil {
			t.Errorf("accepted, want rejection (current definition references a more obsolete one): %s\n%s",
				body, c14hDump(ms))
		}
	}
}

func TestC14Control_StatusOfUsedTypedefChecked(t *testing.T) {
	_, err := c14hCompile(nil, c14hMod("m",
		`typedef t { status deprecated; type string; } typedef u { type t; } leaf a { status deprecated; type u; }`))
	if err == nil {
		t.Errorf("current typedef u derived from deprecated typedef t accepted although used")
	}
}

// ------------------------------------------------------------- finding 9

// config true below config false (and the status rules) are only enforced
// for nodes that survive if-feature pruning, so the verdict for one and the
// same module depends on the enabled-feature set.
func TestC14Hunt_VerdictDependsOnEnabledFeatures(t *testing.T) {
	for _, body := range []string{
		`feature f; container c { config false; leaf a { if-feature f; config true; type string; } }`,
		`feature f; container c { if-feature f; config false; leaf a { config true; type string; } }`,
		`feature f; container c { if-feature f; status deprecated; leaf a { status current; type string; } }`,
		`feature f; typedef t { status obsolete; type string; } leaf a { if-feature f; type t; }`,
	} {
		_, on := c14hCompile([]string{"m:f"}, c14hMod("m", body))
		_, off := c14hCompile(nil, c14hMod("m", body))
		if on == nil {
			t.Errorf("control failed, accepted with m:f enabled: %s", body)
		}
		if off == nil {
			t.Errorf("accepted with m:f disabled, rejected with m:f enabled (%v): %s", on, body)
		}
	}
}

// ------------------------------------------------------------ finding 10

// The grammar allows each property at most once in a deviate replace
// (RFC 6020 7.18.3.2 table / ABNF deviate-replace-stmt).
func TestC14Hunt_DeviateReplaceWithDuplicateProperty(t *testing.T) {
	base := c14hMod("m", `container c { leaf a { type string; default q; } }`)
	for _, dev := range []string{
		`deviation /m:c/m:a { deviate replace { type uint8; type string; } }`,
		`deviation /m:c/m:a { deviate replace { default x; default y; } }`,
	} {
		if ms, err := c14hCompile(nil, base, c14hDevMod(dev)); err == nil {
			t.Errorf("accepted, want rejection: %s\n%s", dev, c14hDump(ms))
		}
	}
}

func TestC14Control_DeviateAddWithDuplicateProperty(t *testing.T) {
	base := c14hMod("m", `container c { leaf a { type string; } }`)
	if _, err := c14hCompile(nil, base,
		c14hDevMod(`deviation /m:c/m:a { deviate add { default x; default y; } }`)); err == nil {
		t.Errorf("deviate add with two defaults accepted")
	}
}
