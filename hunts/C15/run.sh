#!/bin/sh
# usage: run.sh <worktree> [extra go test args]
# Copies hunt_test.go into <worktree>/compile, runs the C15 tests, removes it.
# Set HUNT_DOUBTFUL=1 to run the doubtful observations as well.
set -u
WT=${1:?usage: run.sh <worktree>}
shift
HERE=$(cd "$(dirname "$0")" && pwd)
export GOFLAGS=-mod=mod GOPROXY=off GOTOOLCHAIN=local
GO=${GO:-/root/go/pkg/mod/golang.org/toolchain@v0.0.1-go1.23.11.linux-amd64/bin/go}

if [ ! -f "$WT/xpath/grammars/leafref/leafref.go" ]; then
	(cd "$WT/xpath/grammars/leafref" &&
		${VERIF_ROOT:-/verif}/bin/goyacc -o leafref.go -p leafref leafref.y && rm -f y.output)
fi

DST="$WT/compile/zz_hunt_c15_test.go"
cp "$HERE/hunt_test.go" "$DST"
trap 'rm -f "$DST"' EXIT INT TERM
cd "$WT" && "$GO" test ./compile -count=1 -run 'TestC15_' -v "$@"
