// Hunt for violations of property C15 ("Embedded XPath is checked at compile
// time in the right prefix scope").  Belongs in <worktree>/compile .
//
// Every TestC15_Finding_* function FAILS on the unchanged library because of
// the violation it demonstrates.  TestC15_Control_* functions pass.
// TestC15_Doubtful_* functions are skipped unless HUNT_DOUBTFUL=1 is set.
package compile_test

import (
	"fmt"
	"os"
	"strings"
	"testing"

	"github.com/sdcio/yang-parser/schema"
	"github.com/sdcio/yang-parser/testutils"
)

// c15Mod builds a module <name> (namespace urn:<name>, prefix <name>).
// imports is a blank separated list of module=prefix, includes a blank
// separated list of submodule names.
func c15Mod(name, imports, includes, body string) string {
	hdr := ""
	for _, i := range strings.Fields(imports) {
		p := strings.Split(i, "=")
		hdr += fmt.Sprintf("  import %s { prefix %s; }\n", p[0], p[1])
	}
	for _, i := range strings.Fields(includes) {
		hdr += fmt.Sprintf("  include %s;\n", i)
	}
	return fmt.Sprintf("module %s {\n  namespace \"urn:%s\";\n  prefix %s;\n%s"+
		"  revision 2020-01-01 { description \"r\"; }\n%s\n}\n",
		name, name, name, hdr, body)
}

func c15Sub(name, belongsTo, belongsPfx, imports, includes, body string) string {
	hdr := ""
	for _, i := range strings.Fields(imports) {
		p := strings.Split(i, "=")
		hdr += fmt.Sprintf("  import %s { prefix %s; }\n", p[0], p[1])
	}
	for _, i := range strings.Fields(includes) {
		hdr += fmt.Sprintf("  include %s;\n", i)
	}
	return fmt.Sprintf("submodule %s {\n  belongs-to %s { prefix %s; }\n%s%s\n}\n",
		name, belongsTo, belongsPfx, hdr, body)
}

// The n-th text is parsed under the file name "schema<n>".
func c15Compile(mods ...string) (ms schema.ModelSet, err error) {
	defer func() {
		if r := recover(); r != nil {
			err = fmt.Errorf("PANIC: %v", r)
		}
	}()
	bufs := [][]byte{}
	for _, m := range mods {
		bufs = append(bufs, []byte(m))
	}
	return testutils.GetFullSchema(bufs...)
}

func c15Node(ms schema.ModelSet, path ...string) schema.Node {
	var n schema.Node = ms
	for _, p := range path {
		if n = n.Child(p); n == nil {
			return nil
		}
	}
	return n
}

const c15ModC = `module c {
  namespace "urn:c";
  prefix c;
  container cc { leaf y { type string; } }
}
`
const c15ModD = `module d {
  namespace "urn:d";
  prefix d;
  container dd { leaf y { type string; } }
}
`

// ---------------------------------------------------------------------------
// Finding 1: a prefix that only a SUBMODULE imports is accepted in the module
// that includes it (and in a submodule that includes that submodule).
// ---------------------------------------------------------------------------
func TestC15_Finding_PrefixImportedOnlyByIncludedSubmodule(t *testing.T) {
	sub := c15Sub("s", "a", "a", "c=c", "", `  leaf sx { type string; }`)

	cases := []struct{ name, body string }{
		{"must", `  leaf x { type string; must "/c:cc"; }`},
		{"when", `  leaf x { type string; when "/c:cc"; }`},
		{"path", `  leaf x { type leafref { path "/c:cc/c:y"; } }`},
	}
	for _, tc := range cases {
		// module a has NO import at all; prefix 'c' is unknown in it.
		_, err := c15Compile(c15Mod("a", "", "s", tc.body), sub, c15ModC)
		if err == nil {
			t.Errorf("%s: module a uses prefix 'c' which only its "+
				"submodule s imports: expected an unknown-prefix error, "+
				"but the module compiled", tc.name)
		}
	}

	// Same leak from an included submodule into the including submodule.
	_, err := c15Compile(
		c15Mod("a", "", "s s2", `  leaf x { type string; }`),
		c15Sub("s", "a", "a", "", "s2",
			`  leaf sx { type string; must "/c:cc"; }`),
		c15Sub("s2", "a", "a", "c=c", "", `  leaf sx2 { type string; }`),
		c15ModC)
	if err == nil {
		t.Errorf("submodule s uses prefix 'c' which only the included " +
			"submodule s2 imports: expected an unknown-prefix error, " +
			"but the module compiled")
	}
}

// Control: the reverse direction is (correctly) an error - per-file import
// scope is what the library itself implements elsewhere.
func TestC15_Control_SubmoduleCannotUseModuleImport(t *testing.T) {
	_, err := c15Compile(
		c15Mod("a", "c=c", "s", `  leaf x { type string; }`),
		c15Sub("s", "a", "a", "", "",
			`  leaf sx { type string; must "/c:cc"; }`),
		c15ModC)
	if err == nil || !strings.Contains(err.Error(), "unknown import c") {
		t.Fatalf("expected 'unknown import c', got %v", err)
	}
}

// ---------------------------------------------------------------------------
// Finding 2: must / when: white space INSIDE a QName / NCName:* name test is
// accepted ("/c : cc"), although that is not a valid XPath 1.0 expression.
// ---------------------------------------------------------------------------
func TestC15_Finding_WhitespaceInsideQNameInMustWhen(t *testing.T) {
	for _, e := range []string{"/c : cc", "/c :cc", "/c: cc", "/c: *", "/c\t:\ncc"} {
		for _, stmt := range []string{"must", "when"} {
			body := fmt.Sprintf("  leaf x { type string; %s %q; }", stmt, e)
			_, err := c15Compile(c15Mod("a", "c=c", "", body), c15ModC)
			if err == nil {
				t.Errorf("%s %q is not a valid XPath 1.0 expression "+
					"(white space inside a QName) but the module compiled",
					stmt, e)
			}
		}
	}
}

// Control: without the blanks the expressions are fine, and blanks BETWEEN
// tokens are fine.
func TestC15_Control_QNameWithoutWhitespace(t *testing.T) {
	for _, e := range []string{"/c:cc", "/c:*", " / c:cc / c:y "} {
		body := fmt.Sprintf("  leaf x { type string; must %q; }", e)
		if _, err := c15Compile(c15Mod("a", "c=c", "", body), c15ModC); err != nil {
			t.Errorf("must %q: unexpected error %v", e, err)
		}
	}
}

// ---------------------------------------------------------------------------
// Finding 3: leafref path: white space inside a node-identifier is accepted.
// ---------------------------------------------------------------------------
func TestC15_Finding_WhitespaceInsideNodeIdentifierInLeafrefPath(t *testing.T) {
	for _, e := range []string{"/c : cc/c:y", "/c :cc/c:y", "/c: cc/c:y", "/c:cc/c : y"} {
		body := fmt.Sprintf("  leaf r { type leafref { path %q; } }", e)
		_, err := c15Compile(c15Mod("a", "c=c", "", body), c15ModC)
		if err == nil {
			t.Errorf("path %q is not a valid path-arg (white space inside "+
				"a node-identifier) but the module compiled", e)
		}
	}
}

// ---------------------------------------------------------------------------
// Finding 4: when the expression is attached to a node that was copied from /
// lives in ANOTHER module (refine must, when under uses, deviate add must),
// the error names a statement of that other module - a file and statement
// that does not contain the expression - instead of the carrying statement.
// ---------------------------------------------------------------------------
func TestC15_Finding_ErrorNamesStatementOfOtherModule(t *testing.T) {
	grp := c15Mod("b", "", "", `  grouping g { leaf x { type string; } }`)
	cases := []struct {
		name string
		mods []string
	}{
		{"refine must",
			[]string{c15Mod("a", "b=b", "",
				`  container top { uses b:g { refine x { must "/zz:dd"; } } }`), grp}},
		{"when under uses",
			[]string{c15Mod("a", "b=b", "",
				`  container top { uses b:g { when "/zz:dd"; } }`), grp}},
		{"deviate add must",
			[]string{c15Mod("a", "c=c", "",
				`  deviation /c:cc/c:y { deviate add { must "/zz:dd"; } }`), c15ModC}},
	}
	for _, tc := range cases {
		_, err := c15Compile(tc.mods...)
		if err == nil {
			t.Errorf("%s: expected an error", tc.name)
			continue
		}
		// The expression is written in module a == file "schema0"; the other
		// module is file "schema1" and contains no XPath at all.
		loc := strings.SplitN(err.Error(), ":", 2)[0]
		if loc != "schema0" {
			t.Errorf("%s: the expression '/zz:dd' is written in schema0 "+
				"(module a) but the error names a statement in %s:\n%s",
				tc.name, loc, strings.SplitN(err.Error(), "\n", 2)[0])
		}
	}
}

// ---------------------------------------------------------------------------
// Controls: prefix scope after copying by uses / augment / typedef.
// Module a imports d under the prefix 'p'; module b imports c under 'p'.
// ---------------------------------------------------------------------------
func TestC15_Control_PrefixScopeFollowsTextualModule(t *testing.T) {
	ms, err := c15Compile(
		c15Mod("a", "b=b d=p", "", `
  container top {
    uses b:g { when "/p:dd"; refine x { must "/p:dd/p:y"; } }
    leaf t { type b:t; }
  }
  augment /b:btop { leaf ax { type string; must "/p:dd"; } }`),
		c15Mod("b", "c=p", "", `
  typedef t { type leafref { path "/p:cc/p:y"; } }
  grouping g {
    leaf x { type string; must "/p:cc"; }
    leaf r { type leafref { path "/p:cc/p:y"; } }
  }
  container btop { leaf o { type string; must "/p:cc"; } }`),
		c15ModC, c15ModD)
	if err != nil {
		t.Fatal(err)
	}
	wantNs := func(what, mach, ns string) {
		if !strings.Contains(mach, "{"+ns+" ") ||
			strings.Count(mach, "{urn:") != strings.Count(mach, "{"+ns+" ") {
			t.Errorf("%s: expected only namespace %s in\n%s", what, ns, mach)
		}
	}
	x := c15Node(ms, "top", "x")
	for _, m := range x.Musts() {
		if m.Mach.GetExpr() == "/p:cc" {
			wantNs("grouping must", m.Mach.PrintMachine(), "urn:c")
		} else {
			wantNs("refine must", m.Mach.PrintMachine(), "urn:d")
		}
	}
	if len(x.Musts()) != 2 || len(x.Whens()) != 1 {
		t.Fatalf("expected 2 musts, 1 when on top/x")
	}
	wantNs("uses when", x.Whens()[0].Mach.PrintMachine(), "urn:d")
	wantNs("grouping path",
		c15Node(ms, "top", "r").Type().(schema.Leafref).Mach().PrintMachine(), "urn:c")
	wantNs("typedef path",
		c15Node(ms, "top", "t").Type().(schema.Leafref).Mach().PrintMachine(), "urn:c")
	wantNs("augment must",
		c15Node(ms, "btop", "ax").Musts()[0].Mach.PrintMachine(), "urn:d")
	wantNs("augmented module's own must",
		c15Node(ms, "btop", "o").Musts()[0].Mach.PrintMachine(), "urn:c")
}

// ---------------------------------------------------------------------------
// Doubtful observations (not decided clearly by the property / the RFCs).
// ---------------------------------------------------------------------------
func c15Doubtful(t *testing.T) {
	if os.Getenv("HUNT_DOUBTFUL") == "" {
		t.Skip("doubtful observation; set HUNT_DOUBTFUL=1 to run")
	}
}

// Expressions in definitions / nodes that never reach the schema tree are
// never looked at: unused typedef, unused grouping, node behind a disabled
// feature, anyxml.
func TestC15_Doubtful_ExpressionsNeverChecked(t *testing.T) {
	c15Doubtful(t)
	for name, body := range map[string]string{
		"unused typedef":   `  typedef t { type leafref { path "/zz:cc["; } }`,
		"unused grouping":  `  grouping g { leaf x { type string; must "/zz:cc["; } }`,
		"disabled feature": `  feature f; leaf x { if-feature f; type string; must "/zz:cc["; }`,
		"anyxml":           `  anyxml x { must "/zz:cc["; when "/zz:cc["; }`,
		"uses of empty grouping with when": `  grouping g { description "e"; } ` +
			`container k { uses g { when "/zz:cc["; } }`,
	} {
		if _, err := c15Compile(c15Mod("a", "", "", body)); err == nil {
			t.Errorf("%s: invalid expression '/zz:cc[' not reported", name)
		}
	}
}

// Two imports with the same prefix (or an import re-using the module's own
// prefix) are accepted; the prefix in the expression then silently means the
// first one.
func TestC15_Doubtful_AmbiguousPrefixAccepted(t *testing.T) {
	c15Doubtful(t)
	_, err := c15Compile(c15Mod("a", "c=p d=p", "",
		`  leaf x { type string; must "/p:dd"; }`), c15ModC, c15ModD)
	if err == nil {
		t.Errorf("prefix p is bound to both c and d; must \"/p:dd\" compiled " +
			"(p:dd became {urn:c dd})")
	}
	_, err = c15Compile(c15Mod("a", "c=a", "",
		`  leaf x { type string; must "/a:cc"; }`), c15ModC)
	if err == nil {
		t.Errorf("import re-uses the module's own prefix; must \"/a:cc\" " +
			"compiled (a:cc became {urn:a cc})")
	}
}

// UNPREFIXED names (not covered by the wording of C15, which speaks about
// prefixes): in a leafref typedef referenced from another module, and in a
// must / path added by a deviation, unprefixed names get the namespace of the
// module where the text is written, not that of the current node
// (RFC 7950 6.4.1: "Inside a typedef, that namespace is affected by where the
// typedef is referenced").
func TestC15_Doubtful_UnprefixedNamesInTypedefAndDeviation(t *testing.T) {
	c15Doubtful(t)
	ms, err := c15Compile(
		c15Mod("a", "b=b", "", `  container top { leaf y { type string; } leaf r { type b:t; } }`),
		c15Mod("b", "", "", `  typedef t { type leafref { path "../y"; } }`))
	if err != nil {
		t.Fatal(err)
	}
	m := c15Node(ms, "top", "r").Type().(schema.Leafref).Mach().PrintMachine()
	if !strings.Contains(m, "{urn:a y}") {
		t.Errorf("typedef path '../y' used by a leaf of module a:\n%s", m)
	}
	ms, err = c15Compile(
		c15Mod("dv", "b=b", "", `  deviation /b:top/b:o { deviate add { must "../q"; } }`),
		c15Mod("b", "", "", `  container top { leaf o { type string; } leaf q { type string; } }`))
	if err != nil {
		t.Fatal(err)
	}
	m = c15Node(ms, "top", "o").Musts()[0].Mach.PrintMachine()
	if !strings.Contains(m, "{urn:b q}") {
		t.Errorf("deviate add must '../q' on a node of module b:\n%s", m)
	}
}
