// Hunt for violations of property C18 (structural data validation and default
// decoration are exact).  Belongs in <worktree>/schema (package schema_test).
package schema_test

import (
	"fmt"
	"sort"
	"strings"
	"testing"

	"github.com/sdcio/yang-parser/data/datanode"
	"github.com/sdcio/yang-parser/data/encoding"
	"github.com/sdcio/yang-parser/schema"
	"github.com/sdcio/yang-parser/testutils"
)

func c18Schema(t *testing.T, body string) schema.Node {
	t.Helper()
	mod := fmt.Sprintf(`module hunt {
	namespace "urn:hunt";
	prefix h;
	revision 2020-01-01 { description "x"; }
	%s
}`, body)
	sn, err := testutils.GetFullSchema([]byte(mod))
	if err != nil {
		t.Fatalf("schema does not compile: %v", err)
	}
	return sn
}

func c18C(name string, kids ...datanode.DataNode) datanode.DataNode {
	return datanode.CreateDataNode(name, kids, nil)
}
func c18L(name string, vals ...string) datanode.DataNode {
	return datanode.CreateDataNode(name, nil, vals)
}
func c18Root(kids ...datanode.DataNode) datanode.DataNode {
	return datanode.CreateDataNode("root", kids, nil)
}

func c18Errs(sn schema.Node, d datanode.DataNode) []string {
	_, errs, _ := schema.ValidateSchema(sn, d, false)
	out := []string{}
	for _, e := range errs {
		out = append(out, strings.ReplaceAll(fmt.Sprintf("%v", e), "\n", " "))
	}
	sort.Strings(out)
	return out
}

func c18JSON(t *testing.T, sn schema.Node, js string) datanode.DataNode {
	t.Helper()
	dn, err := encoding.NewUnmarshaller(encoding.JSON).
		SetValidation(schema.DontValidate).Unmarshal(sn, []byte(js))
	if err != nil {
		t.Fatalf("json %s: %v", js, err)
	}
	return dn
}

// ---------------------------------------------------------------------------
// FINDING 1: a unique set that names a leaf inside a choice is never enforced.
//
// The only spelling of the unique argument the compiler accepts for a leaf in
// a choice is the descendant schema node identifier with the choice and case
// names in it ("ch/a/x", RFC 7950 6.5 / 7.8.3); "x" is rejected with "unknown
// descendant".  Validation then walks that path over the DATA children, where
// choice and case nodes do not exist, so the leaf is never found and no two
// entries ever collide.
// ---------------------------------------------------------------------------
func TestHuntC18_UniqueLeafInChoiceNotEnforced(t *testing.T) {
	sn := c18Schema(t, `
list l {
  key k;
  unique "ch/a/x";
  leaf k { type string; }
  choice ch { case a { leaf x { type string; } } case b { leaf z { type string; } } }
}`)
	data := c18Root(c18C("l",
		c18C("1", c18L("k", "1"), c18L("x", "same")),
		c18C("2", c18L("k", "2"), c18L("x", "same"))))
	errs := c18Errs(sn, data)
	if len(errs) != 1 {
		t.Errorf("two entries of list l agree on the only leaf of unique \"ch/a/x\": "+
			"want 1 error, got %d: %q", len(errs), errs)
	}
}

// Same defect, the choice sitting below a container of the unique path, and
// the shorthand case (implicit case node named after the leaf).
func TestHuntC18_UniqueLeafInChoiceBelowContainerNotEnforced(t *testing.T) {
	sn := c18Schema(t, `
list l {
  key k;
  unique "c/ch/a/y";
  leaf k { type string; }
  container c { choice ch { case a { leaf y { type string; } } } }
}
list m {
  key k;
  unique "ch/y/y";
  leaf k { type string; }
  choice ch { leaf y { type string; } leaf w { type string; } }
}`)
	d1 := c18Root(c18C("l",
		c18C("1", c18L("k", "1"), c18C("c", c18L("y", "s"))),
		c18C("2", c18L("k", "2"), c18C("c", c18L("y", "s")))))
	if errs := c18Errs(sn, d1); len(errs) != 1 {
		t.Errorf("unique \"c/ch/a/y\": want 1 error, got %d: %q", len(errs), errs)
	}
	d2 := c18Root(c18C("m",
		c18C("1", c18L("k", "1"), c18L("y", "s")),
		c18C("2", c18L("k", "2"), c18L("y", "s"))))
	if errs := c18Errs(sn, d2); len(errs) != 1 {
		t.Errorf("unique \"ch/y/y\" (shorthand case): want 1 error, got %d: %q", len(errs), errs)
	}
}

// Control: the same unique set over a leaf that is not in a choice works.
func TestHuntC18_Control_UniquePlainLeaf(t *testing.T) {
	sn := c18Schema(t, `
list l {
  key k;
  unique "c/y";
  leaf k { type string; }
  container c { leaf y { type string; } }
}`)
	dup := c18Root(c18C("l",
		c18C("1", c18L("k", "1"), c18C("c", c18L("y", "s"))),
		c18C("2", c18L("k", "2"), c18C("c", c18L("y", "s")))))
	if errs := c18Errs(sn, dup); len(errs) != 1 {
		t.Errorf("want 1 error, got %q", errs)
	}
	ok := c18Root(c18C("l",
		c18C("1", c18L("k", "1"), c18C("c", c18L("y", "s"))),
		c18C("2", c18L("k", "2"), c18C("c", c18L("y", "t")))))
	if errs := c18Errs(sn, ok); len(errs) != 0 {
		t.Errorf("want no error, got %q", errs)
	}
}

// ---------------------------------------------------------------------------
// FINDING 2: a non-presence container without any child node counts as data of
// its case.
//
// RFC 7950 7.5.1: "the presence of the container node with no child nodes is
// semantically equivalent to the absence of the container node".  The tree
// {"top":{"np":{}}} therefore has to validate like {"top":{}}.  The library
// lets the empty np satisfy a mandatory choice (missed error) and lets it
// activate its case, so that a mandatory sibling of the case is demanded
// (false error).
// ---------------------------------------------------------------------------
func TestHuntC18_EmptyNPContainerSatisfiesMandatoryChoice(t *testing.T) {
	sn := c18Schema(t, `
container top {
  presence "p";
  choice c {
    mandatory true;
    case a { container np { leaf x { type string; } } }
    case b { leaf y { type string; } }
  }
}`)
	// reference point: without np the mandatory choice is reported
	if errs := c18Errs(sn, c18JSON(t, sn, `{"top":{}}`)); len(errs) != 1 {
		t.Fatalf("control {\"top\":{}}: want 1 error, got %q", errs)
	}
	errs := c18Errs(sn, c18JSON(t, sn, `{"top":{"np":{}}}`))
	if len(errs) != 1 {
		t.Errorf("{\"top\":{\"np\":{}}} is equivalent to {\"top\":{}} (RFC 7950 7.5.1): "+
			"mandatory choice c is missing, want 1 error, got %d: %q", len(errs), errs)
	}
}

func TestHuntC18_EmptyNPContainerActivatesCase(t *testing.T) {
	sn := c18Schema(t, `
container top {
  presence "p";
  choice c {
    case a { container np { leaf x { type string; } } leaf am { type string; mandatory true; } }
    case b { leaf y { type string; } }
  }
}`)
	if errs := c18Errs(sn, c18JSON(t, sn, `{"top":{}}`)); len(errs) != 0 {
		t.Fatalf("control {\"top\":{}}: want no error, got %q", errs)
	}
	errs := c18Errs(sn, c18JSON(t, sn, `{"top":{"np":{}}}`))
	if len(errs) != 0 {
		t.Errorf("{\"top\":{\"np\":{}}} is equivalent to {\"top\":{}} (RFC 7950 7.5.1): "+
			"no node of case a exists, so am is not required; want no error, got %q", errs)
	}
}

// Control: an np container that does hold a node activates its case.
func TestHuntC18_Control_NonEmptyNPContainerActivatesCase(t *testing.T) {
	sn := c18Schema(t, `
container top {
  presence "p";
  choice c {
    mandatory true;
    case a { container np { leaf x { type string; } } leaf am { type string; mandatory true; } }
    case b { leaf y { type string; } }
  }
}`)
	if errs := c18Errs(sn, c18JSON(t, sn, `{"top":{"np":{"x":"1"}}}`)); len(errs) != 1 {
		t.Errorf("want 1 error (am), got %q", errs)
	}
	if errs := c18Errs(sn, c18JSON(t, sn, `{"top":{"np":{"x":"1"},"am":"1"}}`)); len(errs) != 0 {
		t.Errorf("want no error, got %q", errs)
	}
}
