#!/bin/sh
# usage: run.sh <worktree>   - copies the hunt test into place, runs it, removes it again
WT="${1:?usage: run.sh <worktree path>}"
HERE="$(cd "$(dirname "$0")" && pwd)"
export GOFLAGS=-mod=mod GOPROXY=off GOTOOLCHAIN=local
GO="${GO:-/root/go/pkg/mod/golang.org/toolchain@v0.0.1-go1.23.11.linux-amd64/bin/go}"
DST="$WT/xpath/grammars/expr/hunt_c01_test.go"
cp "$HERE/hunt_test.go" "$DST" || exit 2
trap 'rm -f "$DST"' EXIT INT TERM
cd "$WT/xpath/grammars/expr" || exit 2
"$GO" test -count=1 -run 'TestC01_' -v . 2>&1 | grep -v '^time='
