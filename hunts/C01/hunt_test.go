// Hunt results for property C01 (XPath scalar evaluation follows XPath 1.0).
//
// Belongs in <worktree>/xpath/grammars/expr/ (external test package
// expr_test).  Tests named TestC01_Finding_* fail on the unchanged library
// because of a violation; tests named TestC01_Control_* pass.
package expr_test

import (
	"context"
	"fmt"
	"math"
	"strings"
	"testing"

	sdcpb "github.com/sdcio/sdc-protos/sdcpb"
	"github.com/sdcio/yang-parser/xpath"
	"github.com/sdcio/yang-parser/xpath/grammars/expr"
	"github.com/sdcio/yang-parser/xpath/xutils"
)

// ---------------------------------------------------------------------
// A minimal data tree implementing xpath.Entry.  A leaf hands a literal
// datum to the machine, a leaf-list a datum slice of literal datums, an
// absent node an empty node-set (this is the modelling the property and
// the list of known violations describe).
// ---------------------------------------------------------------------

type c01Node struct {
	name     string
	parent   *c01Node
	children []*c01Node
	val      xpath.Datum // nil for containers
	absent   bool
}

func c01Leaf(name, v string) *c01Node {
	return &c01Node{name: name, val: xpath.NewLiteralDatum(v)}
}

func c01LeafList(name string, vs ...string) *c01Node {
	ds := []xpath.Datum{}
	for _, v := range vs {
		ds = append(ds, xpath.NewLiteralDatum(v))
	}
	return &c01Node{name: name, val: xpath.NewDatumSliceDatum(ds)}
}

func c01Cont(name string, ch ...*c01Node) *c01Node {
	n := &c01Node{name: name}
	for _, c := range ch {
		c.parent = n
		n.children = append(n.children, c)
	}
	return n
}

func (n *c01Node) GetValue() (xpath.Datum, error) {
	switch {
	case n.absent:
		return xpath.NewNodesetDatum([]xutils.XpathNode{}), nil
	case n.val == nil:
		return xpath.NewBoolDatum(true), nil
	}
	return n.val, nil
}

func (n *c01Node) Navigate(p *sdcpb.Path) (xpath.Entry, error) {
	cur := n
	if p.GetIsRootBased() {
		for cur.parent != nil {
			cur = cur.parent
		}
	}
	for _, e := range p.GetElem() {
		if cur.absent {
			return cur, nil
		}
		if e.GetName() == ".." {
			if cur.parent == nil {
				return &c01Node{absent: true}, nil
			}
			cur = cur.parent
			continue
		}
		var found *c01Node
		for _, c := range cur.children {
			if c.name == e.GetName() {
				found = c
				break
			}
		}
		if found == nil {
			return &c01Node{absent: true, parent: cur}, nil
		}
		cur = found
	}
	return cur, nil
}

func (n *c01Node) Copy() xpath.Entry { return n }
func (n *c01Node) FollowLeafRef() (xpath.Entry, error) {
	return nil, fmt.Errorf("not a leafref")
}
func (n *c01Node) GetSdcpbPath() *sdcpb.Path {
	p := &sdcpb.Path{IsRootBased: true}
	var up []*c01Node
	for c := n; c.parent != nil; c = c.parent {
		up = append([]*c01Node{c}, up...)
	}
	for _, c := range up {
		p.Elem = append(p.Elem, sdcpb.NewPathElem(c.name, nil))
	}
	return p
}
func (n *c01Node) BreadthSearch(_ context.Context, p *sdcpb.Path) ([]xpath.Entry, error) {
	e, _ := n.Navigate(p)
	if e.(*c01Node).absent {
		return nil, nil
	}
	return []xpath.Entry{e}, nil
}

// /c with: a=5, b='abc', ll=[1 2 3], l1=[2], l0=[] ; 'x' is absent.
func c01Tree() *c01Node {
	c := c01Cont("c",
		c01Leaf("a", "5"),
		c01Leaf("b", "abc"),
		c01LeafList("ll", "1", "2", "3"),
		c01LeafList("l1", "2"),
		c01LeafList("l0"),
	)
	c01Cont("", c)
	return c
}

// ---------------------------------------------------------------------
// helpers
// ---------------------------------------------------------------------

func c01Run(t *testing.T, e string, cur *c01Node) *xpath.Result {
	t.Helper()
	m, err := expr.NewExprMachine(e, nil)
	if err != nil {
		msg := err.Error()
		if len(msg) > 300 {
			msg = msg[:300] + "..."
		}
		t.Errorf("%s: does not compile: %s", c01Short(e), msg)
		return nil
	}
	var res *xpath.Result
	if cur == nil {
		res = xpath.NewCtxFromMach(m, nil).Run()
	} else {
		res = xpath.NewCtxFromCurrent(context.Background(), m, cur).Run()
	}
	if err := res.GetError(); err != nil {
		t.Errorf("%s: run error: %s", c01Short(e), strings.TrimSpace(err.Error()))
		return nil
	}
	return res
}

func c01Short(e string) string {
	if len(e) > 80 {
		return e[:40] + "...(" + fmt.Sprint(len(e)) + " chars)..." + e[len(e)-20:]
	}
	return e
}

func c01Num(t *testing.T, e string, cur *c01Node, want float64) {
	t.Helper()
	res := c01Run(t, e, cur)
	if res == nil {
		return
	}
	if !res.IsNumber() {
		t.Errorf("%s: result is not a number (%s)", c01Short(e), strings.TrimSpace(res.PrintResult()))
		return
	}
	got, _ := res.GetNumResult()
	if got != want && !(math.IsNaN(got) && math.IsNaN(want)) {
		t.Errorf("%s: got %v, XPath 1.0 gives %v", c01Short(e), got, want)
	}
}

func c01Bool(t *testing.T, e string, cur *c01Node, want bool) {
	t.Helper()
	res := c01Run(t, e, cur)
	if res == nil {
		return
	}
	got, _ := res.GetBoolResult()
	if got != want {
		t.Errorf("%s: got %v, the standard gives %v", c01Short(e), got, want)
	}
}

func c01Zeros(n int) string { return strings.Repeat("0", n) }

// ---------------------------------------------------------------------
// Finding 1: number() of a string whose value is beyond the range of a
// double is NaN instead of +/-Infinity.
//
// XPath 1.0 4.4: a string matching  ws? '-'? Number ws?  "is converted to
// the IEEE 754 number that is nearest (according to the IEEE 754
// round-to-nearest rule) to the mathematical value represented by the
// string; any other string is converted to NaN".  Round-to-nearest turns a
// magnitude >= 2^1024 - 2^970 into an infinity, never into NaN.
// ---------------------------------------------------------------------
func TestC01_Finding_NumberOfOutOfRangeStringIsInfinity(t *testing.T) {
	big := "1" + c01Zeros(400) // 1e400 written without exponent: a valid Number
	c01Num(t, "number('"+big+"')", nil, math.Inf(1))
	c01Num(t, "number('-"+big+"')", nil, math.Inf(-1))
	c01Bool(t, "'"+big+"' > 1", nil, true)
	c01Bool(t, "'"+big+"' = 1 div 0", nil, true)
	// the same through a leaf value of the data tree
	c := c01Cont("c", c01Leaf("big", big))
	c01Cont("", c)
	c01Bool(t, "big > 1", c, true)
	c01Num(t, "big * 1", c, math.Inf(1))
}

// Control: values near the top of the range and underflow are fine.
func TestC01_Control_NumberOfLongStringsInRange(t *testing.T) {
	c01Num(t, "number('1"+c01Zeros(308)+"')", nil, 1e308)
	c01Num(t, "number('0."+c01Zeros(400)+"1')", nil, 0)
	c01Num(t, "number('12345678901234567890')", nil, 12345678901234567890)
}

// ---------------------------------------------------------------------
// Finding 2: a Number token (Digits ('.' Digits?)?) whose value is beyond
// the range of a double is a compile error ("bad number") instead of
// evaluating to Infinity.  XPath 1.0 3.5/3.7: every such token is a
// Number, and a number "can have any double-precision 64-bit format IEEE
// 754 value", including the infinities.
// ---------------------------------------------------------------------
func TestC01_Finding_OutOfRangeNumberLiteralCompiles(t *testing.T) {
	big := "1" + c01Zeros(400)
	c01Num(t, big, nil, math.Inf(1))
	c01Num(t, "-"+big, nil, math.Inf(-1))
	c01Bool(t, big+" > 1", nil, true)
	c01Num(t, "1 div "+big, nil, 0)
}

func TestC01_Control_LongNumberLiterals(t *testing.T) {
	c01Num(t, "1"+c01Zeros(308), nil, 1e308)
	c01Num(t, "0."+c01Zeros(400)+"1", nil, 0)
	c01Num(t, "123456789012345678", nil, 123456789012345678)
}

// ---------------------------------------------------------------------
// Finding 3 and 4: count() and sum() of a (multi-valued) leaf-list fail at
// run time with "Fn 'count' takes NODESET, not DATUMSLICE as arg 0".
// XPath 1.0 4.1: count(node-set) "returns the number of nodes in the
// argument node-set"; 4.4: sum(node-set) "returns the sum, for each node in
// the argument node-set, of the result of converting the string-values of
// the node to a number".  A leaf-list with the entries 1, 2, 3 is a
// node-set of three nodes.
// ---------------------------------------------------------------------
func TestC01_Finding_CountOfLeafList(t *testing.T) {
	c := c01Tree()
	c01Num(t, "count(ll)", c, 3)
	c01Num(t, "count(l1)", c, 1)
	c01Num(t, "count(l0)", c, 0)
	c01Bool(t, "count(ll) = 3", c, true)
	c01Bool(t, "count(ll) > count(l1)", c, true)
}

func TestC01_Finding_SumOfLeafList(t *testing.T) {
	c := c01Tree()
	c01Num(t, "sum(ll)", c, 6)
	c01Num(t, "sum(l1)", c, 2)
	c01Num(t, "sum(l0)", c, 0)
	c01Bool(t, "sum(ll) div count(ll) = 2", c, true)
}

// Control: an absent node is an empty node-set for both functions.
func TestC01_Control_CountAndSumOfAbsentNode(t *testing.T) {
	c := c01Tree()
	c01Num(t, "count(x)", c, 0)
	c01Num(t, "sum(x)", c, 0)
}

// ---------------------------------------------------------------------
// Finding 5: <, <=, >, >= between a leaf and a boolean convert the leaf to
// a number instead of to a boolean.
//
// XPath 1.0 3.4 (the rules for node-sets come first and hold for all six
// comparison operators): "If one object to be compared is a node-set and
// the other is a boolean, then the comparison will be true if and only if
// the result of performing the comparison on the boolean and on the result
// of converting the node-set to a boolean using the boolean function is
// true."  Only "when neither object to be compared is a node-set" are both
// operands of <, <=, >, >= converted to numbers.
//
// The library does follow that rule for '=' and '!=' and, for all six
// operators, when the operand is a leaf-list (see the control test); for a
// single-valued leaf it compares number(string-value) with number(boolean).
// ---------------------------------------------------------------------
func TestC01_Finding_LeafVsBooleanRelational(t *testing.T) {
	c := c01Tree()
	// a = '5': boolean(a) is true, so a > true() is 1 > 1.
	c01Bool(t, "a > true()", c, false)
	c01Bool(t, "a <= true()", c, true)
	c01Bool(t, "true() < a", c, false)
	// b = 'abc': boolean(b) is true, so b >= true() is 1 >= 1 and
	// b > false() is 1 > 0 (the library compares NaN).
	c01Bool(t, "b >= true()", c, true)
	c01Bool(t, "b > false()", c, true)
	c01Bool(t, "false() < b", c, true)
	c01Bool(t, "not(b < true())", c, true)
}

func TestC01_Control_LeafListVsBooleanRelational(t *testing.T) {
	c := c01Tree()
	c01Bool(t, "l1 > true()", c, false) // l1 = [2]
	c01Bool(t, "l1 >= true()", c, true)
	c01Bool(t, "ll > false()", c, true)
	c01Bool(t, "a = true()", c, true)
	c01Bool(t, "b != true()", c, false)
	// neither operand is a node-set: numbers
	c01Bool(t, "'abc' > false()", nil, false)
	c01Bool(t, "5 > true()", nil, true)
}

// ---------------------------------------------------------------------
// Finding 6: re-match() (registered as a built-in of the function table)
// is not anchored.  RFC 7950 10.2.1: "The regular expressions used are the
// XML Schema regular expressions [XSD-TYPES].  Note that this includes
// implicit anchoring of the regular expression at the head and tail."
// So re-match('abc', 'b') is false; the library returns true because it
// uses regexp.MatchString (substring search).
// ---------------------------------------------------------------------
func TestC01_Finding_ReMatchIsAnchored(t *testing.T) {
	c01Bool(t, `re-match('abc', 'b')`, nil, false)
	c01Bool(t, `re-match('abc', 'a|c')`, nil, false)
	c01Bool(t, `re-match('x1.22.333y', '\d{1,3}\.\d{1,3}\.\d{1,3}')`, nil, false)
	c01Bool(t, `not(re-match('eth0/1', 'eth\d'))`, nil, true)
}

func TestC01_Control_ReMatchWholeString(t *testing.T) {
	// first line: the example of RFC 7950 10.2.1
	c01Bool(t, `re-match('1.22.333', '\d{1,3}\.\d{1,3}\.\d{1,3}')`, nil, true)
	c01Bool(t, `re-match('abc', 'abc')`, nil, true)
	c01Bool(t, `re-match('abc', 'abd')`, nil, false)
}
