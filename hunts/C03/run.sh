#!/bin/sh
# usage: run.sh <worktree>
# Copies hunt_test.go into xpath/grammars/expr, runs the TestHunt* tests, removes it again.
set -u
WT="${1:?worktree path}"
HERE="$(cd "$(dirname "$0")" && pwd)"
export GOFLAGS=-mod=mod GOPROXY=off GOTOOLCHAIN=local
GO="${GO:-/root/go/pkg/mod/golang.org/toolchain@v0.0.1-go1.23.11.linux-amd64/bin/go}"
if [ ! -f "$WT/xpath/grammars/leafref/leafref.go" ]; then
  (cd "$WT/xpath/grammars/leafref" && ${VERIF_ROOT:-/verif}/bin/goyacc -o leafref.go -p leafref leafref.y && rm -f y.output)
fi
DST="$WT/xpath/grammars/expr/hunt_c03_test.go"
cp "$HERE/hunt_test.go" "$DST"
(cd "$WT" && "$GO" test ./xpath/grammars/expr/ -run 'TestHunt' -count=1 -v)
rc=$?
rm -f "$DST"
exit $rc
