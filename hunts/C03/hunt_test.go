// C03 hunt: operator precedence, associativity and whitespace.
// Belongs in xpath/grammars/expr (package expr).
//
// No genuine violation was found; every test in this file is a CONTROL that
// passes on the unchanged library.  TestHuntC03Doubtful only logs the
// behaviour of the doubtful cases listed in findings.json.
package expr

import (
	gocontext "context"
	"fmt"
	"math/rand"
	"sort"
	"strings"
	"testing"

	sdcpb "github.com/sdcio/sdc-protos/sdcpb"
	"github.com/sdcio/yang-parser/xpath"
	"github.com/sdcio/yang-parser/xpath/grammars/path_eval"
)

// ---------- fake data tree ----------

type hEntry struct {
	vals map[string]string
	cur  []string
}

func (e *hEntry) key() string { return "/" + strings.Join(e.cur, "/") }

func (e *hEntry) GetValue() (xpath.Datum, error) {
	if v, ok := e.vals[e.key()]; ok {
		return xpath.NewLiteralDatum(v), nil
	}
	return xpath.NewLiteralDatum(""), nil
}

func (e *hEntry) Navigate(p *sdcpb.Path) (xpath.Entry, error) {
	var cur []string
	if !p.GetIsRootBased() {
		cur = append(cur, e.cur...)
	}
	for _, pe := range p.GetElem() {
		if pe.GetName() == ".." {
			if len(cur) == 0 {
				return nil, fmt.Errorf("above root")
			}
			cur = cur[:len(cur)-1]
			continue
		}
		s := pe.GetName()
		ks := []string{}
		for k := range pe.GetKey() {
			ks = append(ks, k)
		}
		sort.Strings(ks)
		for _, k := range ks {
			s += "[" + k + "=" + pe.GetKey()[k] + "]"
		}
		cur = append(cur, s)
	}
	return &hEntry{vals: e.vals, cur: cur}, nil
}
func (e *hEntry) Copy() xpath.Entry { return &hEntry{vals: e.vals, cur: append([]string{}, e.cur...)} }
func (e *hEntry) FollowLeafRef() (xpath.Entry, error) {
	return nil, fmt.Errorf("no leafref")
}
func (e *hEntry) GetSdcpbPath() *sdcpb.Path {
	p := &sdcpb.Path{IsRootBased: true}
	for _, s := range e.cur {
		p.Elem = append(p.Elem, sdcpb.NewPathElem(s, nil))
	}
	return p
}
func (e *hEntry) BreadthSearch(ctx gocontext.Context, p *sdcpb.Path) ([]xpath.Entry, error) {
	n, err := e.Navigate(p)
	if err != nil {
		return nil, err
	}
	if _, ok := e.vals[n.(*hEntry).key()]; ok {
		return []xpath.Entry{n}, nil
	}
	return nil, nil
}

func hTree() *hEntry {
	return &hEntry{
		vals: map[string]string{
			"/top/a":        "3",
			"/top/b":        "4",
			"/top/c":        "x",
			"/top/div":      "6",
			"/top/mod":      "4",
			"/top/and":      "1",
			"/top/or":       "0",
			"/top/e1":       "7",
			"/top/l[k=x]/v": "9",
			"/top/l[k=3]/v": "11",
			"/z":            "5",
		},
		cur: []string{"top", "a"},
	}
}

func hMap(pfx string) (string, error) {
	return "urn:" + pfx, nil
}

type hOut struct {
	cerr string
	mach string
	res  string
}

func hRun(expr string) (o hOut) {
	defer func() {
		if r := recover(); r != nil {
			o.cerr = fmt.Sprintf("PANIC %v", r)
		}
	}()
	m, err := NewExprMachine(expr, hMap)
	if err != nil {
		o.cerr = "compile error"
		return
	}
	o.mach = m.PrintMachine()
	res := xpath.NewCtxFromCurrent(gocontext.Background(), m, hTree()).Run()
	if res.GetError() != nil {
		o.res = "ERR " + res.GetError().Error()
	} else {
		o.res = res.PrintResult()
	}
	return
}

// ---------- token-level generator ----------

type tk struct {
	s    string
	kind int // 0 other punct, 1 name-like, 2 number, 3 dot/dotdot, 4 literal
}

var binOps = []string{"or", "and", "=", "!=", "<", "<=", ">", ">=", "+", "-", "*", "div", "mod", "|"}

func prec(op string) int {
	switch op {
	case "or":
		return 1
	case "and":
		return 2
	case "=", "!=":
		return 3
	case "<", "<=", ">", ">=":
		return 4
	case "+", "-":
		return 5
	case "*", "div", "mod":
		return 6
	case "|":
		return 8
	}
	return -1
}

func opTok(op string) tk {
	if op == "or" || op == "and" || op == "div" || op == "mod" {
		return tk{op, 1}
	}
	return tk{op, 0}
}

// an expression as a flat list of items: operand(token list) / operator
type item struct {
	toks  []tk
	op    string // binary op or "neg"
	isOp  bool
	isNeg bool
}

type gen struct {
	r       *rand.Rand
	n       int
	minPrec int
	twinF   map[string][]tk
	twinP   map[string][]tk
}

func (g *gen) pick(ss ...string) string { return ss[g.r.Intn(len(ss))] }

func nameTok(s string) tk { return tk{s, 1} }

// path operand: nodeset-valued
func (g *gen) path(depth int) []tk {
	var out []tk
	switch g.r.Intn(16) {
	case 12:
		return []tk{nameTok(g.name())}
	case 13:
		return []tk{{"..", 3}, {"/", 0}, nameTok("p:*")}
	case 14:
		return []tk{{"..", 3}, {"/", 0}, nameTok("l"), {"[", 0}, nameTok("k"), {"=", 0}, {"'x'", 4}, {"]", 0}, {"[", 0}, nameTok("j"), {"=", 0}, {"2", 2}, {"]", 0}}
	case 15:
		return []tk{{"..", 3}}
	case 0:
		return []tk{{".", 3}}
	case 1:
		return []tk{{"..", 3}, {"/", 0}, nameTok(g.name())}
	case 2:
		return []tk{{"/", 0}, nameTok("z")}
	case 3:
		return []tk{{"/", 0}, nameTok("top"), {"/", 0}, nameTok(g.name())}
	case 4:
		return []tk{nameTok("current"), {"(", 0}, {")", 0}, {"/", 0}, {"..", 3}, {"/", 0}, nameTok(g.name())}
	case 5:
		if depth > 0 {
			out = []tk{{"..", 3}, {"/", 0}, nameTok("l"), {"[", 0}, nameTok("k"), {"=", 0}}
			save := g.minPrec
			g.minPrec = 4
			its := g.items(depth-1, 2)
			g.minPrec = save
			out = append(out, g.reg(its)...)
			out = append(out, tk{"]", 0}, tk{"/", 0}, nameTok("v"))
			return out
		}
		return []tk{{"..", 3}, {"/", 0}, nameTok("l"), {"[", 0}, nameTok("k"), {"=", 0}, {"'x'", 4}, {"]", 0}, {"/", 0}, nameTok("v")}
	case 6:
		return []tk{{"..", 3}, {"/", 0}, nameTok("p:" + g.name())}
	case 7:
		return []tk{{"..", 3}, {"/", 0}, {"*", 0}}
	case 8:
		return []tk{{"*", 0}}
	case 9:
		return []tk{nameTok("current"), {"(", 0}, {")", 0}}
	default:
		return []tk{{"..", 3}, {"/", 0}, nameTok(g.name())}
	}
}

func (g *gen) name() string {
	return g.pick("a", "b", "c", "div", "mod", "and", "or", "e1", "a-b", "a.b", "_x", "nope")
}

func (g *gen) operand(depth int, nodesetOnly bool) []tk {
	if nodesetOnly {
		return g.path(depth)
	}
	switch g.r.Intn(14) {
	case 0, 1:
		return []tk{{g.pick("1", "2", "0", "2.5", ".5", "3.", "10", "007"), 2}}
	case 2:
		return []tk{{g.pick("'a'", "\"b\"", "''", "'1'", "' 2 '", "'and'", "\"'\""), 4}}
	case 3:
		return []tk{nameTok(g.pick("true", "false")), {"(", 0}, {")", 0}}
	case 4:
		if depth > 0 {
			f := g.pick("not", "number", "string", "boolean", "floor", "string-length", "count", "round", "ceiling", "normalize-space")
			out := []tk{nameTok(f), {"(", 0}}
			if f == "count" {
				out = append(out, g.path(depth-1)...)
			} else {
				out = append(out, g.expr(depth-1, 3)...)
			}
			return append(out, tk{")", 0})
		}
	case 5:
		if depth > 0 {
			f := g.pick("concat", "contains", "starts-with", "substring-before", "substring-after")
			out := []tk{nameTok(f), {"(", 0}}
			out = append(out, g.expr(depth-1, 2)...)
			out = append(out, tk{",", 0})
			out = append(out, g.expr(depth-1, 2)...)
			return append(out, tk{")", 0})
		}
	case 6:
		if depth > 0 {
			out := []tk{{"(", 0}}
			out = append(out, g.expr(depth-1, 3)...)
			return append(out, tk{")", 0})
		}
	}
	return g.path(depth)
}

// flat expression: sequence of items, rendered to tokens
func (g *gen) items(depth, maxOps int) []item {
	n := g.r.Intn(maxOps + 1)
	var its []item
	prevUnion := false
	for i := 0; i <= n; i++ {
		var op string
		nextUnion := false
		if i < n {
			op = binOps[g.r.Intn(len(binOps))]
			for prec(op) < g.minPrec {
				op = binOps[g.r.Intn(len(binOps))]
			}
			nextUnion = op == "|"
		}
		if !prevUnion {
			for g.r.Intn(6) == 0 {
				its = append(its, item{isNeg: true})
			}
		}
		its = append(its, item{toks: g.operand(depth, prevUnion || nextUnion)})
		if i < n {
			its = append(its, item{isOp: true, op: op})
		}
		prevUnion = nextUnion
	}
	return its
}

// nested expression: returns flat tokens, and records the parenthesised twin
// in g.twin keyed by a unique marker token.
func (g *gen) expr(depth, maxOps int) []tk {
	save := g.minPrec
	g.minPrec = 0
	its := g.items(depth, maxOps)
	g.minPrec = save
	return g.reg(its)
}

func (g *gen) reg(its []item) []tk {
	g.n++
	id := fmt.Sprintf("\x00%d\x00", g.n)
	if g.twinF == nil {
		g.twinF = map[string][]tk{}
		g.twinP = map[string][]tk{}
	}
	g.twinF[id] = flat(its)
	g.twinP[id] = parenthesise(its)
	return []tk{{id, 9}}
}

func (g *gen) expand(ts []tk, par bool) []tk {
	var out []tk
	for _, t := range ts {
		if t.kind == 9 {
			if par {
				out = append(out, g.expand(g.twinP[t.s], par)...)
			} else {
				out = append(out, g.expand(g.twinF[t.s], par)...)
			}
		} else {
			out = append(out, t)
		}
	}
	return out
}

func flat(its []item) []tk {
	var out []tk
	for _, it := range its {
		switch {
		case it.isNeg:
			out = append(out, tk{"-", 0})
		case it.isOp:
			out = append(out, opTok(it.op))
		default:
			out = append(out, it.toks...)
		}
	}
	return out
}

// oracle: fully parenthesise according to XPath 1.0 precedence.
type pp struct {
	its []item
	pos int
}

func (p *pp) peekOp() (string, bool) {
	if p.pos < len(p.its) && p.its[p.pos].isOp {
		return p.its[p.pos].op, true
	}
	return "", false
}

func wrap(t []tk) []tk {
	out := []tk{{"(", 0}}
	out = append(out, t...)
	return append(out, tk{")", 0})
}

// parse binary level with min precedence
func (p *pp) parseBin(minPrec int) []tk {
	lhs := p.parseUnary()
	for {
		op, ok := p.peekOp()
		if !ok || prec(op) < minPrec || op == "|" {
			return lhs
		}
		p.pos++
		rhs := p.parseBin(prec(op) + 1)
		n := append([]tk{}, lhs...)
		n = append(n, opTok(op))
		n = append(n, rhs...)
		lhs = wrap(n)
	}
}

func (p *pp) parseUnary() []tk {
	if p.pos < len(p.its) && p.its[p.pos].isNeg {
		p.pos++
		in := p.parseUnary()
		return wrap(append([]tk{{"-", 0}}, in...))
	}
	return p.parseUnion()
}

func (p *pp) parseUnion() []tk {
	lhs := p.its[p.pos].toks
	p.pos++
	first := true
	for {
		op, ok := p.peekOp()
		if !ok || op != "|" {
			return lhs
		}
		p.pos++
		rhs := p.its[p.pos].toks
		p.pos++
		n := append([]tk{}, lhs...)
		n = append(n, opTok(op))
		n = append(n, rhs...)
		lhs = wrap(n)
		_ = first
	}
}

func parenthesise(its []item) []tk {
	p := &pp{its: its}
	return p.parseBin(1)
}

// ---------- rendering ----------

func isNameCharStart(s string) bool {
	c := s[0]
	return c == '_' || c == '-' || c == '.' || (c >= '0' && c <= '9') || (c >= 'a' && c <= 'z') || (c >= 'A' && c <= 'Z')
}

func needSpace(l, r tk) bool {
	switch l.kind {
	case 1:
		return isNameCharStart(r.s)
	case 2, 3:
		c := r.s[0]
		if c == '.' || (c >= '0' && c <= '9') {
			return true
		}
		if l.kind == 2 && (c == 'e' || c == 'E') {
			return true
		}
	}
	if l.s == "/" && r.s[0] == '/' {
		return true
	}
	if (l.s == "<" || l.s == ">") && r.s[0] == '=' {
		return true
	}
	return false
}

func renderMin(ts []tk) string {
	var b strings.Builder
	for i, t := range ts {
		if i > 0 && needSpace(ts[i-1], t) {
			b.WriteByte(' ')
		}
		b.WriteString(t.s)
	}
	return b.String()
}

func renderOne(ts []tk) string {
	ss := make([]string, len(ts))
	for i, t := range ts {
		ss[i] = t.s
	}
	return strings.Join(ss, " ")
}

var wsChoices = []string{" ", "\t", "\n", "\r", "  ", " \n\t ", "\r\n"}

func renderWild(ts []tk, r *rand.Rand) string {
	var b strings.Builder
	b.WriteString(wsChoices[r.Intn(len(wsChoices))])
	for _, t := range ts {
		b.WriteString(t.s)
		b.WriteString(wsChoices[r.Intn(len(wsChoices))])
	}
	return b.String()
}

func renderRand(ts []tk, r *rand.Rand) string {
	var b strings.Builder
	for i, t := range ts {
		if i > 0 {
			if needSpace(ts[i-1], t) || r.Intn(2) == 0 {
				b.WriteString(wsChoices[r.Intn(len(wsChoices))])
			}
		}
		b.WriteString(t.s)
	}
	return b.String()
}

func TestHuntFuzz(t *testing.T) {
	r := rand.New(rand.NewSource(hSeed))
	g := &gen{r: r}
	fails := 0
	seen := map[string]bool{}
	compiled := 0
	for i := 0; i < 20000 && fails < 40; i++ {
		its := g.items(3, 5)
		base := g.expand(flat(its), false)
		par := g.expand(parenthesise(its), true)
		g.twinF, g.twinP = nil, nil
		ref := renderOne(base)
		o0 := hRun(ref)
		if o0.cerr == "" {
			compiled++
		}
		variants := map[string]string{
			"paren":     renderOne(par),
			"min":       renderMin(base),
			"wild":      renderWild(base, r),
			"rand":      renderRand(base, r),
			"parenmin":  renderMin(par),
			"parenrand": renderRand(par, r),
		}
		for k, v := range variants {
			o := hRun(v)
			if o != o0 {
				key := k + ":" + o0.cerr + "/" + o.cerr
				if seen[key] && fails > 10 {
					continue
				}
				seen[key] = true
				fails++
				t.Errorf("MISMATCH %s\n ref: %q\n var: %q\n ref out: %+v\n var out: %+v", k, ref, v, o0, o)
			}
		}
	}
	t.Logf("compiled %d", compiled)
}

func TestHuntTargeted(t *testing.T) {
	xpath.RegisterCustomFunctions([]xpath.CustomFunctionInfo{{
		Name:          "div",
		FnPtr:         func(a []xpath.Datum) xpath.Datum { return xpath.NewNumDatum(42) },
		Args:          []xpath.DatumTypeChecker{xpath.TypeIsNumber},
		RetType:       xpath.TypeIsNumber,
		DefaultRetVal: xpath.NewNumDatum(0),
	}, {
		Name:          "and",
		FnPtr:         func(a []xpath.Datum) xpath.Datum { return xpath.NewNumDatum(43) },
		Args:          []xpath.DatumTypeChecker{},
		RetType:       xpath.TypeIsNumber,
		DefaultRetVal: xpath.NewNumDatum(0),
	}})
	run := func(e string) hOut {
		defer func() { recover() }()
		m, err := NewExprMachineWithCustomFunctions(e, hMap)
		if err != nil {
			return hOut{cerr: err.Error()}
		}
		o := hOut{mach: m.PrintMachine()}
		res := xpath.NewCtxFromCurrent(gocontext.Background(), m, hTree()).Run()
		if res.GetError() != nil {
			o.res = "ERR " + res.GetError().Error()
		} else {
			o.res = res.PrintResult()
		}
		return o
	}
	groups := [][]string{
		{"4 div div(2) div 2", "4 div div (2) div 2", "(4 div div(2)) div 2", "4div div(2)div 2", "4 div\ndiv\t(\r2 ) div 2"},
		{"and() and and()", "and () and and ( )", "(and()) and (and())", "and()and and()"},
		{"div(1)div div(2)*div div div(3)", "div (1) div div (2) * div div div (3)", "(div(1) div div(2)) * (div) div div(3)"},
		{"substring('12345', 1 + 1, 2 * 1)", "substring ( '12345' , 1+1 , 2*1 )", "substring('12345',(1+1),(2*1))"},
		{"translate('abc','a' , 'b') = 'bbc' or 1 div 0 < 0", "(translate('abc','a','b')='bbc')or((1 div 0)<0)"},
		{"1 - 2 - 3", "(1-2)-3", "1-2-3", " 1 -2 -3 "},
		{"2 * 3 mod 4 div 5", "((2*3)mod 4)div 5", "2*3mod 4div 5"},
		{"- 2 * - 3", "(-2)*(-3)", "-2*-3"},
		{"-2 - -2", "(-2)-(-2)", "-2--2"},
		{"1 < 2 < 3", "(1<2)<3"},
		{"3 > 2 > 1", "(3>2)>1"},
		{"1 = 1 = 1", "(1=1)=1"},
		{"1 or 0 and 0", "1 or (0 and 0)"},
		{"0 and 0 or 1", "(0 and 0) or 1"},
		{"1 = 2 < 3", "1 = (2<3)"},
		{"1 < 2 = 2 > 1", "(1<2)=(2>1)"},
		{"1 != 2 = 0", "(1!=2)=0"},
		{"1 + 2 < 2 + 2", "(1+2)<(2+2)"},
		{"8 div 2 div 2", "(8 div 2) div 2"},
		{"7 mod 4 mod 2", "(7 mod 4) mod 2"},
		{"2 - 1 + 1", "(2-1)+1"},
		{"../a + ../b * ../div div ../mod mod 5", "../a+(((../b*../div)div ../mod)mod 5)", "../a+../b*../div div ../mod mod 5"},
		{"aé or éa", "aé  or\téa", "(aé)or(éa)"},
		{"中*中", "中 * 中"},
		{"* * *", "***", "(*)*(*)", "* *\n*"},
		{"* div *", "*div*", "* div*"},
		{"div div div", "div  div\tdiv"},
		{"mod mod mod mod mod", "(mod mod mod) mod mod"},
		{"or or or or or and and", "(or) or (or) or (or and and)", "((or or or) or (or and and))"},
		{"and and and or or", "(and and and) or or"},
		{"../p:* * 2", "../p:**2", "../p:* *2"},
		{"p:* * p:*", "p:**p:*"},
		{"p:div div p:div", "p:div\tdiv\np:div"},
		{". * .", ".*.", ". *."},
		{".. * ..", "..*..", "(..)*(..)"},
		{"../a - 1", "../a -1", "(../a)-1"},
		{"1 - ../a", "1-../a"},
		{"3. div .5", "3.div .5"},
		{"'a' = 'a' and \"b\" != 'b'", "'a'='a'and\"b\"!='b'"},
		{"/ = 1", "/=1", "(/)=1"},
		{"/ | /z", "/|/z"},
		{"- / z", "-/z"},
		{"/z div /z", "/z div/z"},
		{"deref(../a)/../b", "deref ( ../a ) / .. / b", "deref(\n../a\n)/../b"},
		{"current()/../a = deref(current()/../b)/../c", "current ( ) / .. / a=deref ( current ( ) / .. / b ) / .. / c"},
		{"count(../a) + count(../b) * 2", "count(../a)+(count(../b)*2)", "count (../a)+count (../b)*2"},
		{"p:a", "p :a", "p: a", "p : a"},
		{"../l[k='x']/v", "../l [ k = 'x' ] / v", "../l[k='x']\n/v"},
		{"../l[k='x'][j=2]/v", "../l [k='x'] [j=2] /v"},
		{"../l[k=1+2]/v", "../l[k=(1+2)]/v", "../l[k = 1 + 2]/v"},
		{"../l[k=../a]/v + 1", "(../l[k=../a]/v)+1"},
		{"../l[k=../a][j=../b - 1]/v", "../l[k=../a][j=(../b -1)]/v"},
		{"../l[k='x' and j=2]/v", "../l[(k='x') and (j=2)]/v"},
		{"../l[k='x' or j=2 and i=3]/v", "../l[k='x' or (j=2 and i=3)]/v"},
		{"(../a | ../b)/c", "( ../a|../b ) / c"},
		{"(../l)[k='x']", "( ../l ) [ k = 'x' ]"},
	}
	for _, g := range groups {
		o0 := run(g[0])
		for _, v := range g[1:] {
			o := run(v)
			if o.mach != o0.mach || o.res != o0.res || (o.cerr == "") != (o0.cerr == "") {
				t.Errorf("MISMATCH\n ref %q => cerr=%v res=%q\n var %q => cerr=%v res=%q\n%s\n%s", g[0], o0.cerr != "", o0.res, v, o.cerr != "", o.res, o0.mach, o.mach)
			}
		}
		t.Logf("%q => cerr=%v %q", g[0], o0.cerr != "", o0.res)
	}
}

func TestHuntDeep(t *testing.T) {
	for _, n := range []int{10, 1000, 100000} {
		a := strings.Repeat("(", n) + "1" + strings.Repeat(")", n)
		o := hRun(a)
		t.Logf("parens %d: cerr=%q res=%q", n, o.cerr, o.res)
		b := strings.Repeat("-", n) + "1"
		o = hRun(b)
		t.Logf("neg %d: cerr=%q res=%q", n, o.cerr, o.res)
		c := "1" + strings.Repeat("+1", n)
		c2 := strings.Repeat("(", n) + "1" + strings.Repeat("+1)", n)
		o, o2 := hRun(c), hRun(c2)
		t.Logf("chain %d: cerr=%q res=%q same=%v", n, o.cerr, o.res, o == o2)
		if o != o2 || o.cerr != "" {
			t.Errorf("left-nested chain of %d additions differs from its parenthesised form", n)
		}
		d := strings.Repeat("1-(", n) + "1" + strings.Repeat(")", n)
		o = hRun(d)
		t.Logf("right %d: cerr=%q res=%q", n, o.cerr, o.res)
	}
}

func TestHuntUnsupported(t *testing.T) {
	groups := [][]string{
		{"child::a", "child :: a", "child::\na", "child ::a"},
		{"//a", "// a", " //a"},
		{"a//b", "a // b"},
		{"@a", "@ a"},
		{"a/@b", "a / @ b"},
		{"node()", "node ( )", "node( )"},
		{"a/node()", "a / node ( )"},
		{"text()", "text ( )"},
		{"a/text()", "a / text ( )"},
		{"../c[text()='x']", "../c [ text ( ) = 'x' ]"},
		{"../c[.='x']", "../c [ . = 'x' ]"},
		{"comment()", "comment ( )"},
		{"processing-instruction('x')", "processing-instruction ( 'x' )"},
		{"self::node()", "self :: node ( )"},
		{"a[1]", "a [ 1 ]"},
		{"a[last()]", "a [ last ( ) ]"},
		{"a[position() = 1]", "a[position()=1]", "a [ position ( ) = 1 ]"},
		{"()", "( )"},
		{"1 + ()", "1+( )"},
		{"a()", "a ( )"},
		{"1 2", "1  2"},
		{"a b", "a  b"},
		{"1 +", "1+"},
		{"+ 1", "+1"},
		{"$x", "$ x"},
		{"..5", ".. 5"},
		{"...", ".. ."},
		{"1..", "1. ."},
		{"- -1", "--1"},
		{"a - -1", "a --1"},
	}
	for _, g := range groups {
		o0 := hRun(g[0])
		for _, v := range g[1:] {
			o := hRun(v)
			if o != o0 {
				t.Errorf("MISMATCH %q => %+v\n         %q => %+v", g[0], o0, v, o)
			}
		}
		t.Logf("%-40q cerr=%-5v res=%q", g[0], o0.cerr != "", o0.res)
	}
}

// Doubtful cases: logged only, never failing.
func TestHuntC03Doubtful(t *testing.T) {
	for _, g := range [][]string{
		{"1e1", "1 e1"},         // exponent notation is not XPath 1.0; "1" "e1" are two tokens there
		{"2E2 + 1", "2 E2 + 1"}, // same
		{"p:a", "p : a"},        // white space inside a QName is accepted
		{"1 div .5", "1 div.5"}, // div.5 is one NCName by longest match: error is right
	} {
		for _, v := range g {
			o := hRun(v)
			t.Logf("%-12q compiles=%-5v res=%q", v, o.cerr == "", o.res)
		}
	}
}

func TestHuntPathEval(t *testing.T) {
	r := rand.New(rand.NewSource(99))
	g := &gen{r: r}
	pe := func(e string) string {
		m, err := path_eval.NewPathEvalMachine(e, hMap, "loc")
		if err != nil {
			return "cerr"
		}
		return m.PrintMachine()
	}
	fails, ok := 0, 0
	for i := 0; i < 30000 && fails < 10; i++ {
		its := g.items(2, 4)
		base := g.expand(flat(its), false)
		par := g.expand(parenthesise(its), true)
		g.twinF, g.twinP = nil, nil
		ref := pe(renderOne(base))
		if ref != "cerr" {
			ok++
		}
		for _, v := range []string{renderOne(par), renderMin(base), renderWild(base, r), renderRand(par, r)} {
			if o := pe(v); o != ref {
				fails++
				t.Errorf("MISMATCH\n ref %q\n var %q\n%s\n%s", renderOne(base), v, ref, o)
			}
		}
	}
	t.Logf("ok %d", ok)
}

var hSeed int64 = 12345
