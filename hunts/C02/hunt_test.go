package expr

// Hunt for violations of property C02 (location paths resolve to exactly the
// designated data node).  Belongs in xpath/grammars/expr.

import (
	gocontext "context"
	"fmt"
	"sort"
	"strings"
	"testing"

	sdcpb "github.com/sdcio/sdc-protos/sdcpb"
	"github.com/sdcio/yang-parser/xpath"
)

// ---------------------------------------------------------------------------
// recording mock data tree
// ---------------------------------------------------------------------------

func c02PathString(p *sdcpb.Path) string {
	var b strings.Builder
	if p.GetIsRootBased() {
		b.WriteString("ROOT:")
	} else {
		b.WriteString("REL:")
	}
	for _, e := range p.GetElem() {
		b.WriteString("/" + e.GetName())
		keys := make([]string, 0, len(e.GetKey()))
		for k := range e.GetKey() {
			keys = append(keys, k)
		}
		sort.Strings(keys)
		for _, k := range keys {
			fmt.Fprintf(&b, "[%s=%s]", k, e.GetKey()[k])
		}
	}
	return b.String()
}

type c02Tree struct {
	calls  []string
	values map[string]xpath.Datum // node (canonical path) -> value; default "val(<path>)"
	// leafref leaf (canonical path) -> path object of the target node.  The
	// object is OWNED BY THE TREE: GetSdcpbPath hands it out as it is, the
	// way a tree that caches the path of each of its entries does.
	targets map[string]*sdcpb.Path
}

type c02Entry struct {
	t    *c02Tree
	path string
	sp   *sdcpb.Path
}

func (e *c02Entry) GetValue() (xpath.Datum, error) {
	e.t.calls = append(e.t.calls, "GetValue "+e.path)
	if v, ok := e.t.values[e.path]; ok {
		return v, nil
	}
	return xpath.NewLiteralDatum("val(" + e.path + ")"), nil
}

func (e *c02Entry) Navigate(p *sdcpb.Path) (xpath.Entry, error) {
	s := c02PathString(p)
	e.t.calls = append(e.t.calls, "Navigate "+s)
	return &c02Entry{t: e.t, path: s, sp: p.DeepCopy()}, nil
}

func (e *c02Entry) Copy() xpath.Entry { return e }

func (e *c02Entry) FollowLeafRef() (xpath.Entry, error) {
	e.t.calls = append(e.t.calls, "FollowLeafRef "+e.path)
	tp, ok := e.t.targets[e.path]
	if !ok {
		return nil, fmt.Errorf("%s is not a leafref", e.path)
	}
	return &c02Entry{t: e.t, path: "target-of(" + e.path + ")", sp: tp}, nil
}

func (e *c02Entry) GetSdcpbPath() *sdcpb.Path { return e.sp }

func (e *c02Entry) BreadthSearch(gocontext.Context, *sdcpb.Path) ([]xpath.Entry, error) {
	return nil, nil
}

func c02Run(t *testing.T, tree *c02Tree, expr string) *xpath.Result {
	t.Helper()
	mach, err := NewExprMachine(expr, nil)
	if err != nil {
		t.Fatalf("cannot compile %q: %v", expr, err)
	}
	tree.calls = nil
	cur := &c02Entry{t: tree, path: "<ctx>", sp: &sdcpb.Path{}}
	return xpath.NewCtxFromCurrent(gocontext.Background(), mach, cur).Run()
}

func c02Check(t *testing.T, expr string, got, want []string) {
	t.Helper()
	if strings.Join(got, "\n") != strings.Join(want, "\n") {
		t.Errorf("%s\n  the data tree was asked:\n    %s\n  XPath designates:\n    %s",
			expr, strings.Join(got, "\n    "), strings.Join(want, "\n    "))
	}
}

// ---------------------------------------------------------------------------
// control tests (pass)
// ---------------------------------------------------------------------------

func TestC02_Control_Basics(t *testing.T) {
	tree := &c02Tree{targets: map[string]*sdcpb.Path{
		"REL:/a": {IsRootBased: true, Elem: []*sdcpb.PathElem{
			sdcpb.NewPathElem("t", nil), sdcpb.NewPathElem("u", nil)}},
	}}
	for _, tc := range []struct {
		expr string
		want []string
	}{
		{"/p:a/q:b[q:j=2][p:k=current()/../x]/c", []string{
			"Navigate REL:/../x", "GetValue REL:/../x",
			"Navigate ROOT:/a/b[j=2][k=val(REL:/../x)]/c", "GetValue ROOT:/a/b[j=2][k=val(REL:/../x)]/c"}},
		{"a/b[k=/x][j=../y]/c", []string{
			"Navigate ROOT:/x", "GetValue ROOT:/x",
			"Navigate REL:/a/b/../y", "GetValue REL:/a/b/../y",
			"Navigate REL:/a/b[j=val(REL:/a/b/../y)][k=val(ROOT:/x)]/c",
			"GetValue REL:/a/b[j=val(REL:/a/b/../y)][k=val(ROOT:/x)]/c"}},
		{"deref(a)/../b", []string{
			"Navigate REL:/a", "FollowLeafRef REL:/a",
			"Navigate ROOT:/t/u/../b", "GetValue ROOT:/t/u/../b"}},
		// comparison operators other than '=' inside a function operand work
		{"/a/b[k=string(../x != 'a')]/c", []string{
			"Navigate ROOT:/a/b/../x", "GetValue ROOT:/a/b/../x",
			"Navigate ROOT:/a/b[k=true]/c", "GetValue ROOT:/a/b[k=true]/c"}},
	} {
		res := c02Run(t, tree, tc.expr)
		if res.GetError() != nil {
			t.Errorf("%s: %v", tc.expr, res.GetError())
		}
		c02Check(t, tc.expr, tree.calls, tc.want)
	}
}

// ---------------------------------------------------------------------------
// FINDING 1: deref()-rooted paths are built by appending to the path object
// the data tree returned from GetSdcpbPath().  The object of the tree is
// modified, so every later deref() that reaches the same target node starts
// from a path that already carries the steps of the earlier expression.
// ---------------------------------------------------------------------------

func TestC02_DerefRootedPathMustNotExtendTheTreesPathObject(t *testing.T) {
	target := &sdcpb.Path{IsRootBased: true, Elem: []*sdcpb.PathElem{
		sdcpb.NewPathElem("t", nil),
		sdcpb.NewPathElem("u", map[string]string{"n": "1"}),
		sdcpb.NewPathElem("name", nil),
	}}
	tree := &c02Tree{targets: map[string]*sdcpb.Path{"REL:/a": target}}

	// one expression, evaluated once: two deref()-rooted paths
	expr := "deref(a)/../b = 'x' or deref(a)/../c = 'y'"
	res := c02Run(t, tree, expr)
	if res.GetError() != nil {
		t.Fatalf("%s: %v", expr, res.GetError())
	}
	c02Check(t, expr, tree.calls, []string{
		"Navigate REL:/a", "FollowLeafRef REL:/a",
		"Navigate ROOT:/t/u[n=1]/name/../b", "GetValue ROOT:/t/u[n=1]/name/../b",
		"Navigate REL:/a", "FollowLeafRef REL:/a",
		"Navigate ROOT:/t/u[n=1]/name/../c", "GetValue ROOT:/t/u[n=1]/name/../c",
	})
	if got := c02PathString(target); got != "ROOT:/t/u[n=1]/name" {
		t.Errorf("the path object owned by the data tree was changed to %s", got)
	}
}

// the same defect seen over two evaluations of one compiled expression
func TestC02_DerefRootedPathSecondEvaluation(t *testing.T) {
	target := &sdcpb.Path{IsRootBased: true, Elem: []*sdcpb.PathElem{
		sdcpb.NewPathElem("t", nil), sdcpb.NewPathElem("u", nil)}}
	tree := &c02Tree{targets: map[string]*sdcpb.Path{"REL:/a": target}}
	expr := "deref(a)/../b"
	want := []string{"Navigate REL:/a", "FollowLeafRef REL:/a",
		"Navigate ROOT:/t/u/../b", "GetValue ROOT:/t/u/../b"}
	for i := 1; i <= 2; i++ {
		res := c02Run(t, tree, expr)
		if res.GetError() != nil {
			t.Fatalf("%s: %v", expr, res.GetError())
		}
		c02Check(t, fmt.Sprintf("%s (evaluation %d)", expr, i), tree.calls, want)
	}
}

// ---------------------------------------------------------------------------
// FINDING 2: an '=' inside the arguments of a function that is the operand
// of a key predicate is taken for a second "key = value" assignment.
// ---------------------------------------------------------------------------

func TestC02_EqualityInsideFunctionOperandOfPredicate(t *testing.T) {
	t.Run("leaf", func(t *testing.T) {
		tree := &c02Tree{values: map[string]xpath.Datum{
			"ROOT:/a/b/../x": xpath.NewLiteralDatum("a"),
		}}
		expr := "/a/b[k=string(../x = 'a')]/c"
		res := c02Run(t, tree, expr)
		if err := res.GetError(); err != nil {
			t.Errorf("%s: evaluation failed: %v", expr, err)
		}
		c02Check(t, expr, tree.calls, []string{
			"Navigate ROOT:/a/b/../x", "GetValue ROOT:/a/b/../x",
			"Navigate ROOT:/a/b[k=true]/c", "GetValue ROOT:/a/b[k=true]/c"})
		if lit, err := res.GetLiteralResult(); err == nil && lit != "val(ROOT:/a/b[k=true]/c)" {
			t.Errorf("%s: result %q, want the value of /a/b[k='true']/c", expr, lit)
		}
	})
	t.Run("leaf-list", func(t *testing.T) {
		// ../x is a leaf-list: no error at all, the path silently yields
		// boolean false and the designated node is never asked for
		tree := &c02Tree{values: map[string]xpath.Datum{
			"ROOT:/a/b/../x": xpath.NewDatumSliceDatum([]xpath.Datum{
				xpath.NewLiteralDatum("a"), xpath.NewLiteralDatum("z")}),
		}}
		expr := "/a/b[k=string(../x = 'a')]/c"
		res := c02Run(t, tree, expr)
		if err := res.GetError(); err != nil {
			t.Errorf("%s: evaluation failed: %v", expr, err)
		}
		c02Check(t, expr, tree.calls, []string{
			"Navigate ROOT:/a/b/../x", "GetValue ROOT:/a/b/../x",
			"Navigate ROOT:/a/b[k=true]/c", "GetValue ROOT:/a/b[k=true]/c"})
		if lit, err := res.GetLiteralResult(); err == nil && lit != "val(ROOT:/a/b[k=true]/c)" {
			t.Errorf("%s: result %q, want the value of /a/b[k='true']/c", expr, lit)
		}
	})
}
