package compile_test

// Property C16: type validation accepts exactly the YANG value space.
// Belongs in <worktree>/compile (package compile_test).
//
// Every TestC16_* function is one finding and FAILS on the unchanged library.
// TestC16Control_* functions are controls that pass.

import (
	"fmt"
	"testing"

	"github.com/sdcio/yang-parser/schema"
	"github.com/sdcio/yang-parser/testutils"
)

func c16Module(name, prefix, body string) []byte {
	return []byte(fmt.Sprintf("module %s {\n namespace \"urn:c16:%s\";\n prefix %s;\n %s\n}\n",
		name, name, prefix, body))
}

func c16Compile(mods ...[]byte) (ms schema.ModelSet, err error) {
	defer func() {
		if r := recover(); r != nil {
			err = fmt.Errorf("PANIC while compiling: %v", r)
		}
	}()
	return testutils.GetConfigSchema(mods...)
}

type c16Probe struct {
	val    string
	accept bool
}

// c16Leaf compiles the modules (t.Fatal when the - valid - YANG is refused)
// and returns the type of the top-level leaf.
func c16Leaf(t *testing.T, leaf string, mods ...[]byte) schema.Type {
	t.Helper()
	ms, err := c16Compile(mods...)
	if err != nil {
		t.Fatalf("valid YANG was refused: %v", err)
	}
	n := ms.Child(leaf)
	if n == nil {
		t.Fatalf("leaf %s not found", leaf)
	}
	return n.Type()
}

func c16Check(t *testing.T, typ schema.Type, probes []c16Probe) {
	t.Helper()
	for _, p := range probes {
		err := typ.Validate(nil, []string{"l", p.val}, p.val)
		if (err == nil) != p.accept {
			t.Errorf("Validate(%q): accepted=%v, want accepted=%v (err: %v)",
				p.val, err == nil, p.accept, err)
		}
	}
}

func c16Body(t *testing.T, body string, probes []c16Probe) {
	t.Helper()
	c16Check(t, c16Leaf(t, "l", c16Module("c16m", "c16m", body)), probes)
}

// ---------------------------------------------------------------- patterns

// XSD: \d = \p{Nd}, \w = [^\p{P}\p{Z}\p{C}], \s = [ \t\n\r]. The pattern is
// handed to Go's regexp unchanged, where \d \w \s are the ASCII Perl classes.
func TestC16_PatternMultiCharEscapesHaveXSDMeaning(t *testing.T) {
	c16Body(t, `leaf l { type string { pattern "\\d+"; } }`, []c16Probe{
		{"123", true}, {"٣", true} /* ARABIC-INDIC DIGIT THREE, Nd */, {"a", false}})
	c16Body(t, `leaf l { type string { pattern "\\w+"; } }`, []c16Probe{
		{"abc", true}, {"é", true} /* Ll */, {"a_b", false} /* '_' is Pc */})
	c16Body(t, `leaf l { type string { pattern "a\\sb"; } }`, []c16Probe{
		{"a b", true}, {"a\tb", true}, {"a\fb", false} /* FF is not in \s */})
	c16Body(t, `leaf l { type string { pattern "\\W"; } }`, []c16Probe{
		{"_", true}, {"é", false}})
}

// XSD: '.' is [^\n\r]; Go's '.' only excludes \n.
func TestC16_PatternDotDoesNotMatchCR(t *testing.T) {
	c16Body(t, `leaf l { type string { pattern "a.b"; } }`, []c16Probe{
		{"axb", true}, {"a\nb", false}, {"a\rb", false}})
}

// XSD: '^' (outside a class) and '$' are ordinary characters; patterns are
// implicitly anchored. Go treats them as anchors.
func TestC16_PatternCaretAndDollarAreLiterals(t *testing.T) {
	c16Body(t, `leaf l { type string { pattern "a$"; } }`, []c16Probe{{"a$", true}, {"a", false}})
	c16Body(t, `leaf l { type string { pattern "^a"; } }`, []c16Probe{{"^a", true}, {"a", false}})
}

// XSD character class subtraction [a-z-[aeiou]] is silently read by Go as
// the class [a-z\-\[aeiou] followed by a literal ']'.
func TestC16_PatternCharClassSubtraction(t *testing.T) {
	c16Body(t, `leaf l { type string { pattern "[a-z-[aeiou]]+"; } }`, []c16Probe{
		{"bcd", true}, {"abc", false}, {"b]", false}})
}

// The only translated block escape, \p{IsBasicLatin}, is replaced textually
// by a bracket expression, which is wrong inside a character class.
func TestC16_PatternBlockEscapeInsideClass(t *testing.T) {
	c16Body(t, `leaf l { type string { pattern "[\\p{IsBasicLatin}é]+"; } }`, []c16Probe{
		{"aé", true}, {"è", false}, {"a]", false}})
}

// Patterns that are valid XSD regular expressions make the whole module
// unloadable: \i \c (and \I \C), every block escape but IsBasicLatin,
// quantities above 1000.
func TestC16_ValidXSDPatternsRefused(t *testing.T) {
	t.Run("name escapes", func(t *testing.T) {
		c16Body(t, `leaf l { type string { pattern "\\i\\c*"; } }`, []c16Probe{{"ab-c", true}, {"1bc", false}})
	})
	t.Run("block escape", func(t *testing.T) {
		c16Body(t, `leaf l { type string { pattern "\\p{IsGreek}+"; } }`, []c16Probe{{"α", true}, {"a", false}})
	})
	t.Run("quantity", func(t *testing.T) {
		c16Body(t, `leaf l { type string { pattern "a{0,1001}"; } }`, []c16Probe{{"aaa", true}, {"b", false}})
	})
}

func TestC16Control_Patterns(t *testing.T) {
	c16Body(t, `leaf l { type string { pattern "a|bc"; } }`, []c16Probe{
		{"a", true}, {"bc", true}, {"ab", false}, {"abc", false}, {"a\n", false}, {"", false}})
	c16Body(t, `typedef s { type string { pattern "[a-z]+"; } } typedef s2 { type s { pattern ".{3}"; } }
		leaf l { type s2 { pattern "a.*"; length "1..5"; } }`, []c16Probe{
		{"abc", true}, {"ab", false}, {"bcd", false}, {"aB1", false}})
	c16Body(t, `leaf l { type string { pattern "\\p{IsBasicLatin}+"; } }`, []c16Probe{{"abc", true}, {"é", false}})
}

// ------------------------------------------------------ length and range

// length "max" (a single boundary, legal per length-part / length-boundary)
// must mean "exactly the maximum length"; it is compiled as 0..max.
func TestC16_LengthMaxAloneAcceptsEverything(t *testing.T) {
	c16Body(t, `leaf l { type string { length "max"; } }`, []c16Probe{{"abc", false}, {"", false}})
}

// The same single-boundary form inside a derived type's length is refused.
func TestC16_LengthMinMaxKeywordAsSinglePart(t *testing.T) {
	c16Body(t, `typedef s { type string { length "2..10"; } } leaf l { type s { length "min | 5 | max"; } }`,
		[]c16Probe{{"ab", true}, {"abc", false}, {"abcde", true}, {"abcdefghij", true}, {"abcdefghi", false}})
}

// range "max" / "min" / "1..5 | max": range-part = range-boundary alone, and
// range-boundary = min-keyword / max-keyword / ... - refused with
// 'strconv.ParseInt: parsing "": invalid syntax'.
func TestC16_RangeMinMaxKeywordAsSinglePart(t *testing.T) {
	t.Run("max", func(t *testing.T) {
		c16Body(t, `leaf l { type int8 { range "max"; } }`, []c16Probe{{"126", false}, {"127", true}})
	})
	t.Run("min", func(t *testing.T) {
		c16Body(t, `leaf l { type uint8 { range "min"; } }`, []c16Probe{{"0", true}, {"1", false}})
	})
	t.Run("parts", func(t *testing.T) {
		c16Body(t, `leaf l { type int8 { range "min | 5 | max"; } }`,
			[]c16Probe{{"-128", true}, {"-127", false}, {"5", true}, {"126", false}, {"127", true}})
	})
}

// optsep of range-arg / length-arg includes CRLF; only SP, TAB and LF are
// removed, so a range continued on the next line of a CRLF file is refused.
func TestC16_RangeAndLengthArgWithCRLF(t *testing.T) {
	t.Run("range", func(t *testing.T) {
		c16Body(t, "leaf l { type int8 { range \"1..5 |\r\n 7..9\"; } }", []c16Probe{{"1", true}, {"6", false}, {"7", true}})
	})
	t.Run("length", func(t *testing.T) {
		c16Body(t, "leaf l { type string { length \"1..2 |\r\n 4\"; } }", []c16Probe{{"a", true}, {"abc", false}, {"abcd", true}})
	})
}

func TestC16Control_RangesAndLengths(t *testing.T) {
	c16Body(t, `leaf l { type uint64 { range "1..10 | 9223372036854775807..9223372036854775809 | 18446744073709551614..max"; } }`, []c16Probe{
		{"0", false}, {"1", true}, {"10", true}, {"11", false}, {"9223372036854775806", false}, {"9223372036854775807", true},
		{"9223372036854775809", true}, {"9223372036854775810", false}, {"18446744073709551613", false},
		{"18446744073709551614", true}, {"18446744073709551615", true}, {"18446744073709551616", false}})
	c16Body(t, `leaf l { type int64 { range "min..-9223372036854775807 | 9223372036854775806..max"; } }`, []c16Probe{
		{"-9223372036854775808", true}, {"-9223372036854775809", false}, {"-9223372036854775806", false},
		{"9223372036854775805", false}, {"9223372036854775807", true}, {"9223372036854775808", false}})
	c16Body(t, `leaf l { type string { length "2..3 | 5"; } }`, []c16Probe{
		{"a", false}, {"éé", true}, {"abcd", false}, {"abcde", true}, {"\U0001F600\U0001F600\U0001F600\U0001F600", false}})
	c16Body(t, `leaf l { type decimal64 { fraction-digits 18; } }`, []c16Probe{
		{"9.223372036854775807", true}, {"9.223372036854775808", false}, {"-9.223372036854775808", true}, {"-9.223372036854775809", false}})
}

// ------------------------------------------- types that are not validated

// bits: Validate returns nil for every string.
func TestC16_BitsAcceptsAnything(t *testing.T) {
	c16Body(t, `leaf l { type bits { bit a { position 0; } bit b { position 1; } } }`, []c16Probe{
		{"a", true}, {"a b", true}, {"", true}, {"c", false}, {"a a", false}, {"a,b", false}})
}

// ... and a typedef of a bits type cannot be used at all ("cannot modify type").
func TestC16_BitsTypedefRefused(t *testing.T) {
	c16Body(t, `typedef bt { type bits { bit a { position 0; } } } leaf l { type bt; }`, []c16Probe{{"a", true}})
}

// instance-identifier: Validate returns nil for every string.
func TestC16_InstanceIdentifierAcceptsAnything(t *testing.T) {
	c16Body(t, `leaf l { type instance-identifier; }`, []c16Probe{
		{"/c16m:l", true}, {"][", false}, {"", false}, {"not a path", false}})
}

// binary: refused by the compiler; a directly constructed one does not check
// that the value is base64.
func TestC16_BinaryNotValidated(t *testing.T) {
	t.Run("direct", func(t *testing.T) {
		c16Check(t, schema.NewBinary(), []c16Probe{{"aGVsbG8=", true}, {"!!*", false}, {"a", false}})
	})
	t.Run("compiled", func(t *testing.T) {
		c16Body(t, `leaf l { type binary { length "5"; } }`, []c16Probe{{"aGVsbG8=", true}, {"aGVsbG8h", false}, {"!!*", false}})
	})
}

// ------------------------------------------------------------ identityref

// RFC 7951 6.8: the namespace-qualified form <module>:<identity> may always
// be used; the simple form only when identity and leaf are in the same
// module. The library accepts exactly one form per identity.
func TestC16_IdentityrefQualifiedNameOfSameModule(t *testing.T) {
	typ := c16Leaf(t, "l", c16Module("c16a", "pa",
		`identity base; identity b1 { base base; } leaf l { type identityref { base base; } }`))
	c16Check(t, typ, []c16Probe{{"b1", true}, {"c16a:b1", true}, {"pa:b1", false}, {"base", false}, {"c16a:base", false}})
}

// RFC 6020 9.10.3: the identity name in a default MAY have a prefix: the
// prefix of an import or the module's own prefix.
func TestC16_IdentityrefDefaultWithPrefix(t *testing.T) {
	a := c16Module("c16a", "pa", `identity base; identity b1 { base base; }`)
	t.Run("import prefix", func(t *testing.T) {
		typ := c16Leaf(t, "l", a, c16Module("c16b", "pb",
			`import c16a { prefix x; } leaf l { type identityref { base x:base; } default "x:b1"; }`))
		if d, ok := typ.Default(); !ok || typ.Validate(nil, nil, d) != nil {
			t.Errorf("default %q (%v) is not a value of the type", d, ok)
		}
	})
	t.Run("own prefix", func(t *testing.T) {
		c16Leaf(t, "l", c16Module("c16c", "pc",
			`identity base; identity b1 { base base; } leaf l { type identityref { base base; } default "pc:b1"; }`))
	})
}

// RFC 6020 9.10.3: without prefix the name refers to an identity of the
// module that contains the default statement - here the typedef's module,
// not the module of the leaf that uses the typedef.
func TestC16_IdentityrefTypedefDefaultUsedFromOtherModule(t *testing.T) {
	a := c16Module("c16a", "pa",
		`identity base; identity b1 { base base; } typedef idt { type identityref { base base; } default "b1"; }`)
	typ := c16Leaf(t, "l", a, c16Module("c16b", "pb", `import c16a { prefix x; } leaf l { type x:idt; }`))
	c16Check(t, typ, []c16Probe{{"c16a:b1", true}})
}

func c16Sub(mbody, sbody string) [][]byte {
	return [][]byte{
		[]byte(`module c16m { namespace "urn:c16m"; prefix pm; include c16s; ` + mbody + ` }`),
		[]byte(`submodule c16s { belongs-to c16m { prefix pm; } ` + sbody + ` }`),
	}
}

// An identity defined in a submodule and derived from an identity of the
// module is not in the value set of the identityref.
func TestC16_IdentityDefinedInSubmoduleMissing(t *testing.T) {
	typ := c16Leaf(t, "l", c16Sub(
		`identity mb; identity m1 { base mb; } leaf l { type identityref { base mb; } }`,
		`identity s1 { base pm:mb; }`)...)
	c16Check(t, typ, []c16Probe{{"m1", true}, {"s1", true}, {"mb", false}})
}

// An identityref whose base identity is defined in a submodule crashes the
// compiler (nil pointer dereference), also when everything is in the submodule.
func TestC16_IdentityrefBaseInSubmodule(t *testing.T) {
	typ := c16Leaf(t, "l", c16Sub(``,
		`identity sb; identity s1 { base sb; } leaf l { type identityref { base sb; } }`)...)
	c16Check(t, typ, []c16Probe{{"s1", true}, {"sb", false}})
}

func TestC16Control_Identityref(t *testing.T) {
	a := c16Module("c16a", "pa", `identity base; identity b1 { base base; } identity b2 { base b1; }
		typedef idt { type identityref { base base; } }`)
	b := c16Module("c16b", "pb", `import c16a { prefix x; } identity o1 { base x:base; } identity o2 { base x:b2; }
		identity o3 { base o2; } identity unrelated; leaf l { type x:idt; } leaf l3 { type identityref { base o2; } }`)
	c16Check(t, c16Leaf(t, "l", a, b), []c16Probe{
		{"c16a:b1", true}, {"c16a:b2", true}, {"o1", true}, {"o2", true}, {"o3", true},
		{"b1", false}, {"c16a:base", false}, {"unrelated", false}, {"c16b:unrelated", false}, {"x:b1", false}, {"", false}})
	c16Check(t, c16Leaf(t, "l3", a, b), []c16Probe{{"o3", true}, {"o2", false}, {"o1", false}, {"c16a:b2", false}})
}
