package main

import (
	"fmt"
	"os"
	"regexp"
	"runtime"
	"strings"
	"sync/atomic"
	"time"
)

// The blocked monitor: a case that never returns because the code under test waits for a lock or a channel
// that nothing will ever release burns no CPU, so the driver's CPU budget cannot see it, and the Go runtime
// reports a deadlock only when *every* goroutine is asleep (the worker has goroutines of its own).
//
// The verdict is not a time limit.  The monitor looks at the goroutines only after the case counter has stood
// still for a while, and it speaks only if what it sees cannot change any more: every goroutine that has a
// frame of the repository or of the property code on its stack is parked in a synchronisation wait (lock,
// channel, wait group, condition), at least one of them directly inside the repository, the set of goroutines
// and their wait states is the same in four samples, and the process has used no CPU in between.  Nothing that
// could release them is running.  It then prints the stacks and ends the process with VERIF-BLOCKED, which
// the driver attributes to the open case like any other death.

var casesDone atomic.Int64

var gorHdr = regexp.MustCompile(`^goroutine (\d+) \[([^\]]*)\]:`)

var parkedStates = map[string]bool{
	"semacquire": true, "sync.Mutex.Lock": true, "sync.RWMutex.RLock": true, "sync.RWMutex.Lock": true,
	"chan receive": true, "chan send": true, "chan receive (nil chan)": true, "chan send (nil chan)": true,
	"select": true, "select (no cases)": true, "sync.Cond.Wait": true, "sync.WaitGroup.Wait": true,
}

// parkedPicture returns a signature of the relevant goroutines when all of them are parked and one is parked
// directly in repository code; "" otherwise.
func parkedPicture() (sig, dump string) {
	buf := make([]byte, 1<<20)
	for {
		n := runtime.Stack(buf, true)
		if n < len(buf) {
			buf = buf[:n]
			break
		}
		buf = make([]byte, 2*len(buf))
	}
	dump = string(buf)
	inRepo := false
	var parts []string
	for _, g := range strings.Split(dump, "\n\n") {
		m := gorHdr.FindStringSubmatch(g)
		if m == nil || strings.Contains(g, "main.blockedMonitor") {
			continue
		}
		repo := strings.Contains(g, "github.com/sdcio/yang-parser/")
		if !repo && !strings.Contains(g, "verifharness/internal/props.") {
			continue
		}
		state := m[2]
		if i := strings.Index(state, ","); i >= 0 {
			state = state[:i]
		}
		if !parkedStates[state] {
			return "", dump
		}
		if repo {
			// the first frame that is not the runtime's or sync's own
			for _, ln := range strings.Split(g, "\n")[1:] {
				if strings.HasPrefix(ln, "\t") || strings.HasPrefix(ln, "runtime.") || strings.HasPrefix(ln, "sync.") || strings.HasPrefix(ln, "internal/") {
					continue
				}
				if strings.HasPrefix(ln, "github.com/sdcio/yang-parser/") {
					inRepo = true
				}
				break
			}
		}
		parts = append(parts, m[1]+":"+state)
	}
	if !inRepo {
		return "", dump
	}
	return strings.Join(parts, ","), dump
}

func blockedMonitor() {
	last, quiet := int64(-1), 0
	prev, same := "", 0
	var cpu0 int64
	for {
		time.Sleep(300 * time.Millisecond)
		if cur := casesDone.Load(); cur != last {
			last, quiet, prev, same = cur, 0, "", 0
			continue
		}
		quiet++
		if quiet < 7 {
			continue
		}
		sig, dump := parkedPicture()
		if sig == "" {
			prev, same = "", 0
			continue
		}
		if sig != prev {
			prev, same, cpu0 = sig, 1, cpuMs()
			continue
		}
		same++
		if same >= 4 {
			if cpuMs()-cpu0 > 50 {
				prev, same = "", 0
				continue
			}
			fmt.Fprintf(os.Stderr, "fatal error: VERIF-BLOCKED every goroutine that runs repository or property code is parked in a synchronisation wait (%s), unchanged over 4 samples without CPU use\n\n%s\n", sig, dump)
			os.Exit(95)
		}
	}
}
