// vworker links the code under test (/repo, built with -tags verif) and runs
// cases of one property.  It journals "BEGIN <idx>" before every block so that
// the driver can attribute a process death (stack overflow, fatal error,
// re-panicked runtime error, step-budget exit) to a case.
package main

import (
	"encoding/json"
	"flag"
	"fmt"
	"os"
	"runtime/debug"
	"strings"
	"syscall"

	"verifharness/internal/core"
	_ "verifharness/internal/props"
)

func cpuMs() int64 {
	var ru syscall.Rusage
	syscall.Getrusage(syscall.RUSAGE_SELF, &ru)
	return (ru.Utime.Sec+ru.Stime.Sec)*1000 + int64(ru.Utime.Usec+ru.Stime.Usec)/1000
}

func runCase(p core.Property, tier string, seed int64, idx int) (res core.CaseResult) {
	defer func() {
		if r := recover(); r != nil {
			st := string(debug.Stack())
			cls := "harness-panic"
			if fr := core.TopRepoFrame(st); fr != "" {
				cls = p.ID() + "/escaped-panic/" + fr
			}
			res.Fails = append(res.Fails, core.Failure{
				Class:  cls,
				Input:  p.Describe(tier, seed, idx),
				Detail: fmt.Sprintf("panic: %v\n%s", r, core.Trunc(st, 3000)),
			})
		}
	}()
	return p.Run(tier, seed, idx)
}

func main() {
	prop := flag.String("prop", "", "property id")
	tier := flag.String("tier", "quick", "quick|thorough")
	seed := flag.Int64("seed", 1, "VERIF_SEED")
	from := flag.Int("from", 0, "first case")
	to := flag.Int("to", -1, "one past last case")
	fine := flag.Bool("fine", false, "journal every case")
	out := flag.String("out", "", "result file (JSONL blocks)")
	journal := flag.String("journal", "", "journal file")
	describe := flag.Int("describe", -1, "print the input of this case and exit")
	count := flag.Bool("count", false, "print the number of cases and exit")
	witness := flag.String("witness", "", "JSON file with []core.Finding to run as pinned witnesses")
	metaFlag := flag.Bool("meta", false, "print property metadata as JSON and exit")
	shrink := flag.Int("shrink", -1, "developer: shrink case idx while the failure text still contains -match")
	match := flag.String("match", "", "substring for -shrink")
	flag.Parse()

	p := core.Lookup(*prop)
	if p == nil {
		fmt.Fprintf(os.Stderr, "unknown property %q (have %v)\n", *prop, core.IDs())
		os.Exit(2)
	}
	if *count {
		fmt.Println(p.NumCases(*tier, *seed))
		return
	}
	if *metaFlag {
		json.NewEncoder(os.Stdout).Encode(map[string]interface{}{
			"id": p.ID(), "level": p.Level(), "rule": p.Rule(), "block_size": p.BlockSize(),
			"assumptions": p.Assumptions(), "min_events": p.MinEvents(), "num_cases": p.NumCases(*tier, *seed),
		})
		return
	}
	if *shrink >= 0 {
		if sh, ok := p.(interface {
			Shrink(tier string, seed int64, idx int, match string) string
		}); ok {
			fmt.Println(sh.Shrink(*tier, *seed, *shrink, *match))
		} else {
			fmt.Println("property has no shrinker")
		}
		return
	}
	if *describe >= 0 {
		fmt.Println(p.Describe(*tier, *seed, *describe))
		return
	}
	if *witness != "" {
		raw, err := os.ReadFile(*witness)
		if err != nil {
			fmt.Fprintln(os.Stderr, err)
			os.Exit(2)
		}
		var fs []core.Finding
		if err := json.Unmarshal(raw, &fs); err != nil {
			fmt.Fprintln(os.Stderr, err)
			os.Exit(2)
		}
		// One witness per invocation is the driver's business (a witness may
		// kill the process); here we simply run what we were given.
		enc := json.NewEncoder(os.Stdout)
		for _, f := range fs {
			var wr core.WitnessResult
			wr.ID = f.ID
			func() {
				defer func() {
					if r := recover(); r != nil {
						st := string(debug.Stack())
						wr.Fails = append(wr.Fails, core.Failure{
							Class:  p.ID() + "/escaped-panic/" + core.TopRepoFrame(st),
							Detail: fmt.Sprintf("panic: %v", r)})
					}
				}()
				wr.Fails = p.Witness(f.Witness)
			}()
			for _, x := range wr.Fails {
				if x.Class == f.Class {
					wr.Matched = true
				}
			}
			enc.Encode(wr)
		}
		return
	}

	n := p.NumCases(*tier, *seed)
	if *to < 0 || *to > n {
		*to = n
	}
	jf, err := os.OpenFile(*journal, os.O_CREATE|os.O_WRONLY|os.O_APPEND, 0o644)
	if err != nil {
		fmt.Fprintln(os.Stderr, err)
		os.Exit(2)
	}
	of, err := os.OpenFile(*out, os.O_CREATE|os.O_WRONLY|os.O_APPEND, 0o644)
	if err != nil {
		fmt.Fprintln(os.Stderr, err)
		os.Exit(2)
	}
	bs := p.BlockSize()
	if *fine || bs < 1 {
		bs = 1
	}
	go blockedMonitor()
	for b := *from; b < *to; b += bs {
		e := b + bs
		if e > *to {
			e = *to
		}
		fmt.Fprintf(jf, "BEGIN %d %d\n", b, e)
		blk := core.Block{From: b, To: e, Events: map[string]int64{}}
		t0 := cpuMs()
		for i := b; i < e; i++ {
			r := runCase(p, *tier, *seed, i)
			casesDone.Add(1)
			blk.Keys = append(blk.Keys, r.Keys...)
			for _, f := range r.Fails {
				f.Idx = i
				f.Input = core.Trunc(f.Input, 20000)
				f.Detail = core.Trunc(f.Detail, 6000)
				if len(blk.Fails) < 200 {
					blk.Fails = append(blk.Fails, f)
				} else {
					blk.Events["fails_dropped_over_200_per_block"]++
				}
			}
			for k, v := range r.Events {
				blk.Events[k] += v
			}
			for k, vs := range r.Sets {
				if blk.Sets == nil {
					blk.Sets = map[string][]string{}
				}
				blk.Sets[k] = append(blk.Sets[k], vs...)
			}
			if r.Sample != nil && len(blk.Samples) < 1 {
				blk.Samples = append(blk.Samples, r.Sample)
			}
		}
		blk.CPUms = cpuMs() - t0
		line, err := json.Marshal(blk)
		if err != nil {
			// Non-UTF8 or unmarshalable sample: drop samples, keep going.
			blk.Samples = nil
			line, err = json.Marshal(blk)
			if err != nil {
				fmt.Fprintln(os.Stderr, "marshal:", err)
				os.Exit(2)
			}
		}
		of.Write(append(line, '\n'))
		fmt.Fprintf(jf, "END %d %d\n", b, e)
	}
	fmt.Fprintf(jf, "DONE %d %d\n", *from, *to)
	_ = strings.TrimSpace
}
