// vcheck is the driver: it rebuilds the worker from /repo's working tree (tag
// verif, generated leafref parser injected through -overlay), shards the case
// list over worker processes, attributes worker deaths to cases, applies
// known_findings.json, writes the evidence file and prints the verdict lines.
//
// It does not link the code under test.
package main

import (
	"sync/atomic"
	"bufio"
	"bytes"
	"encoding/json"
	"fmt"
	"os"
	"os/exec"
	"path/filepath"
	"regexp"
	"sort"
	"strconv"
	"strings"
	"sync"
	"syscall"
	"time"

	"verifharness/internal/core"
)

var (
	verifRoot = envOr("VERIF_ROOT", "/verif")
	repoRoot  = envOr("VERIF_REPO", "/repo")
	// VERIF_OUT redirects evidence/ and replays/ (used when running the checks against seeded changes,
	// so that the committed evidence keeps describing the unchanged tree)
	outRoot = envOr("VERIF_OUT", verifRoot)
	goBin     = findGo()
)

func envOr(k, d string) string {
	if v := os.Getenv(k); v != "" {
		return v
	}
	return d
}

func findGo() string {
	if v := os.Getenv("VERIF_GO"); v != "" {
		return v
	}
	p := "/root/go/pkg/mod/golang.org/toolchain@v0.0.1-go1.23.11.linux-amd64/bin/go"
	if _, err := os.Stat(p); err == nil {
		return p
	}
	return "go1.26"
}

func goEnv() []string {
	env := []string{}
	for _, e := range os.Environ() {
		if strings.HasPrefix(e, "GOFLAGS=") || strings.HasPrefix(e, "GOPROXY=") ||
			strings.HasPrefix(e, "GOTOOLCHAIN=") || strings.HasPrefix(e, "GOSUMDB=") {
			continue
		}
		env = append(env, e)
	}
	return append(env, "GOFLAGS=-mod=mod", "GOPROXY=off", "GOTOOLCHAIN=local", "GOSUMDB=off", "CGO_ENABLED=1")
}

type meta struct {
	ID          string   `json:"id"`
	Level       string   `json:"level"`
	Rule        string   `json:"rule"`
	BlockSize   int      `json:"block_size"`
	Assumptions []string `json:"assumptions"`
	MinEvents   []string `json:"min_events"`
	NumCases    int      `json:"num_cases"`
}

func inconclusive(format string, a ...interface{}) {
	fmt.Printf("INCONCLUSIVE "+format+"\n", a...)
	os.Exit(2)
}

// ---------------------------------------------------------------- build

type buildOut struct {
	dir    string
	worker string
	race   bool
	// regenWorker is set when the .y grammar of a committed generated parser
	// no longer produces the committed .go file: a second worker linked
	// against the regenerated parser (the next "go generate" would ship it).
	regenWorker string
	regenWhat   []string
}

var grammarProps = map[string]bool{"C02": true, "C03": true, "C04": true, "C05": true, "C15": true}

func normGenerated(raw []byte) string {
	var b strings.Builder
	for _, l := range strings.Split(string(raw), "\n") {
		if strings.HasPrefix(l, "//line") || strings.HasPrefix(l, "// Code generated") {
			continue
		}
		b.WriteString(l)
		b.WriteString("\n")
	}
	return b.String()
}

func build(id, tier string, race bool) buildOut {
	bo := buildOne(id, tier, race, nil, "")
	if !grammarProps[id] {
		return bo
	}
	regen := map[string]string{}
	for _, g := range [][3]string{{"xpath/grammars/expr", "xpath", "expr"}, {"xpath/grammars/path_eval", "path_eval", "pathEval"}} {
		y := filepath.Join(repoRoot, g[0], g[1]+".y")
		committed := filepath.Join(repoRoot, g[0], g[1]+".go")
		out := filepath.Join(bo.dir, "regen-"+g[1]+".go")
		cmd := exec.Command(filepath.Join(verifRoot, "bin", "goyacc"), "-o", out, "-p", g[2], "-v", filepath.Join(bo.dir, "y.output"), y)
		cmd.Dir = bo.dir
		if o, err := cmd.CombinedOutput(); err != nil {
			inconclusive("property=%s goyacc failed on %s: %v %s", id, y, err, core.Trunc(string(o), 400))
		}
		a, _ := os.ReadFile(out)
		b, _ := os.ReadFile(committed)
		if normGenerated(a) != normGenerated(b) {
			regen[committed] = out
			bo.regenWhat = append(bo.regenWhat, g[0]+"/"+g[1]+".y")
		}
	}
	if len(regen) > 0 {
		r := buildOne(id, tier, race, regen, "-regen")
		bo.regenWorker = r.worker
	}
	return bo
}

func buildOne(id, tier string, race bool, extraOverlay map[string]string, suffix string) buildOut {
	dir := filepath.Join(verifRoot, ".gen", fmt.Sprintf("%s-%s-%d", id, tier, os.Getpid()))
	os.MkdirAll(dir, 0o755)
	overlay := map[string]string{}
	for k, v := range extraOverlay {
		overlay[k] = v
	}
	// leafref.go is git-ignored goyacc output: the tracked source is leafref.y, so the parser is
	// always regenerated from the working tree's grammar (a stale leafref.go left in the tree by
	// an earlier "go generate" is overridden by the overlay)
	lr := filepath.Join(repoRoot, "xpath/grammars/leafref/leafref.go")
	{
		gen := filepath.Join(dir, "leafref.go")
		goyacc := filepath.Join(verifRoot, "bin", "goyacc")
		cmd := exec.Command(goyacc, "-o", gen, "-p", "leafref", "-v", filepath.Join(dir, "y.output"),
			filepath.Join(repoRoot, "xpath/grammars/leafref/leafref.y"))
		cmd.Dir = dir
		if out, err := cmd.CombinedOutput(); err != nil {
			// A grammar that goyacc rejects is a build failure of the tree, not a verdict.
			inconclusive("property=%s goyacc failed on leafref.y: %v %s", id, err, core.Trunc(string(out), 500))
		}
		overlay[lr] = gen
	}
	// developer-only: extra overlay entries for mutant self-tests
	if extra := os.Getenv("VERIF_OVERLAY"); extra != "" {
		raw, err := os.ReadFile(extra)
		if err == nil {
			var o struct{ Replace map[string]string }
			if json.Unmarshal(raw, &o) == nil {
				for k, v := range o.Replace {
					overlay[k] = v
				}
			}
		}
	}
	ov, _ := json.Marshal(map[string]interface{}{"Replace": overlay})
	ovPath := filepath.Join(dir, "overlay"+suffix+".json")
	os.WriteFile(ovPath, ov, 0o644)
	worker := filepath.Join(dir, "vworker"+suffix)
	args := []string{"build", "-tags", "verif", "-overlay", ovPath, "-o", worker}
	if repoRoot != "/repo" {
		// VERIF_REPO names another checkout of the repository (a scratch worktree holding a
		// seeded change): build against it through a private copy of go.mod
		hm, _ := os.ReadFile(filepath.Join(verifRoot, "harness", "go.mod"))
		hs, _ := os.ReadFile(filepath.Join(verifRoot, "harness", "go.sum"))
		mod := strings.Replace(string(hm), "=> /repo", "=> "+repoRoot, 1)
		os.WriteFile(filepath.Join(dir, "go.mod"), []byte(mod), 0o644)
		os.WriteFile(filepath.Join(dir, "go.sum"), hs, 0o644)
		args = append(args, "-modfile="+filepath.Join(dir, "go.mod"))
	}
	if race {
		args = append(args, "-race")
	}
	args = append(args, "./cmd/vworker")
	cmd := exec.Command(goBin, args...)
	cmd.Dir = filepath.Join(verifRoot, "harness")
	cmd.Env = goEnv()
	if out, err := cmd.CombinedOutput(); err != nil {
		inconclusive("property=%s worker build failed (tree does not compile with -tags verif?): %v\n%s", id, err, core.Trunc(string(out), 4000))
	}
	return buildOut{dir: dir, worker: worker, race: race}
}

// ---------------------------------------------------------------- running workers

type chunkResult struct {
	blocks  []core.Block
	crashes []core.Failure
	infra   []string
	races   []string
}

func readJournalOpen(path string) (b, e int, open bool) {
	raw, _ := os.ReadFile(path)
	lines := strings.Split(strings.TrimSpace(string(raw)), "\n")
	b, e = -1, -1
	for _, l := range lines {
		f := strings.Fields(l)
		if len(f) < 3 {
			continue
		}
		x, _ := strconv.Atoi(f[1])
		y, _ := strconv.Atoi(f[2])
		switch f[0] {
		case "BEGIN":
			b, e, open = x, y, true
		case "END":
			open = false
		}
	}
	return
}

func procCPU(pid int) float64 {
	raw, err := os.ReadFile(fmt.Sprintf("/proc/%d/stat", pid))
	if err != nil {
		return -1
	}
	s := string(raw)
	i := strings.LastIndex(s, ")")
	if i < 0 {
		return -1
	}
	f := strings.Fields(s[i+1:])
	if len(f) < 14 {
		return -1
	}
	ut, _ := strconv.ParseFloat(f[11], 64)
	st, _ := strconv.ParseFloat(f[12], 64)
	return (ut + st) / 100.0
}

var repoFrameRe = regexp.MustCompile(`(?m)^github\.com/sdcio/yang-parser/([^\s(]+(?:\([^)]*\))?[^\s(]*)\(`)

func crashSignature(stderr string, exitCode int, killedFor string) string {
	sig := "exit-" + strconv.Itoa(exitCode)
	switch {
	case killedFor != "":
		sig = killedFor
	case exitCode == 97 || strings.Contains(stderr, "STEP-BUDGET"):
		sig = "step-budget"
	case strings.Contains(stderr, "VERIF-BLOCKED"):
		sig = "blocked-forever"
	case strings.Contains(stderr, "stack overflow"):
		sig = "stack-overflow"
	case strings.Contains(stderr, "all goroutines are asleep"):
		sig = "deadlock"
	case strings.Contains(stderr, "fatal error: checkptr"):
		sig = "checkptr"
	case strings.Contains(stderr, "fatal error:"):
		sig = "fatal-error"
	case strings.Contains(stderr, "panic:"):
		sig = "panic"
	}
	frame := ""
	if m := repoFrameRe.FindStringSubmatch(stderr); m != nil {
		frame = m[1]
		// strip generic receiver noise like "(...)"
		frame = strings.ReplaceAll(frame, "(...)", "")
	}
	return sig + "/" + frame
}

// cpuBudgetDeaths counts, over all chunks of a run, the cases that were killed for using up the CPU budget.
var cpuBudgetDeaths atomic.Int64

// runRange runs cases [from,to) in worker processes, restarting after deaths.
func runRange(bo buildOut, m meta, tier string, seed int64, from, to int, tag string) chunkResult {
	var cr chunkResult
	cur := from
	fineUntil := -1
	attempt := 0
	for cur < to {
		if n := cpuBudgetDeaths.Load(); n >= 6 {
			// Cases that use up the CPU budget cost minutes each.  After six of them in one run the verdict is
			// settled (each is a reported violation); the rest of the range is left unexplored, and says so.
			cr.blocks = append(cr.blocks, core.Block{From: cur, To: cur, Events: map[string]int64{"cases_not_run_after_six_cpu_budget_deaths": int64(to - cur)}})
			return cr
		}
		attempt++
		if attempt > 400 {
			cr.infra = append(cr.infra, fmt.Sprintf("more than 400 worker restarts in chunk %s", tag))
			return cr
		}
		base := filepath.Join(bo.dir, fmt.Sprintf("w-%s-%d", tag, attempt))
		jpath, opath, epath := base+".journal", base+".out", base+".stderr"
		end := to
		fine := false
		if cur < fineUntil {
			fine = true
			end = fineUntil
		}
		args := []string{"-prop", m.ID, "-tier", tier, "-seed", strconv.FormatInt(seed, 10),
			"-from", strconv.Itoa(cur), "-to", strconv.Itoa(end), "-out", opath, "-journal", jpath}
		if fine {
			args = append(args, "-fine")
		}
		cmd := exec.Command(bo.worker, args...)
		ef, _ := os.Create(epath)
		cmd.Stderr = ef
		cmd.Stdout = ef
		cmd.Env = append(os.Environ(), "GOTRACEBACK=all", "GOMAXPROCS="+envOr("VERIF_WORKER_PROCS", "2"))
		if bo.race {
			cmd.Env = append(cmd.Env, "GORACE=halt_on_error=0 log_path="+base+".race")
			if m.ID == "C06" {
				cmd.Env = append(cmd.Env, "GOMAXPROCS=16")
			} else {
				cmd.Env = append(cmd.Env, "GOMAXPROCS=4")
			}
		}
		// pipe for the step-budget hook (fd 3)
		cmd.ExtraFiles = []*os.File{ef}
		if err := cmd.Start(); err != nil {
			cr.infra = append(cr.infra, "cannot start worker: "+err.Error())
			return cr
		}
		done := make(chan error, 1)
		go func() { done <- cmd.Wait() }()
		killedFor := ""
		var lastSize int64 = -1
		baseCPU := 0.0
		lastChange := time.Now()
		cpuBudget := 150.0
		if v := os.Getenv("VERIF_CPU_BUDGET"); v != "" {
			if f, err := strconv.ParseFloat(v, 64); err == nil {
				cpuBudget = f
			}
		}
		var werr error
	wait:
		for {
			select {
			case werr = <-done:
				break wait
			case <-time.After(300 * time.Millisecond):
				st, err := os.Stat(jpath)
				var sz int64
				if err == nil {
					sz = st.Size()
				}
				cpu := procCPU(cmd.Process.Pid)
				if sz != lastSize {
					lastSize = sz
					baseCPU = cpu
					lastChange = time.Now()
				} else if cpu >= 0 && cpu-baseCPU > cpuBudget {
					killedFor = "cpu-budget"
					cmd.Process.Signal(syscall.SIGQUIT)
					select {
					case werr = <-done:
					case <-time.After(5 * time.Second):
						cmd.Process.Kill()
						werr = <-done
					}
					break wait
				} else if time.Since(lastChange) > 20*time.Minute {
					killedFor = "wall-clock"
					cmd.Process.Kill()
					werr = <-done
					break wait
				}
			}
		}
		ef.Close()
		// collect blocks written so far
		if f, err := os.Open(opath); err == nil {
			sc := bufio.NewScanner(f)
			sc.Buffer(make([]byte, 1<<20), 1<<28)
			for sc.Scan() {
				var b core.Block
				if json.Unmarshal(sc.Bytes(), &b) == nil {
					cr.blocks = append(cr.blocks, b)
				}
			}
			f.Close()
		}
		if bo.race {
			matches, _ := filepath.Glob(base + ".race*")
			for _, mm := range matches {
				raw, _ := os.ReadFile(mm)
				for _, blk := range strings.Split(string(raw), "==================") {
					if strings.Contains(blk, "WARNING: DATA RACE") {
						cr.races = append(cr.races, blk)
					}
				}
			}
		}
		if werr == nil && killedFor == "" {
			// normal completion of [cur,end)
			os.Remove(jpath)
			os.Remove(opath)
			os.Remove(epath)
			cur = end
			continue
		}
		if killedFor == "wall-clock" {
			cr.infra = append(cr.infra, fmt.Sprintf("worker for chunk %s made no progress for 20 min wall-clock without consuming CPU", tag))
			return cr
		}
		// abnormal exit: find the open block
		b, e, open := readJournalOpen(jpath)
		stderrRaw, _ := os.ReadFile(epath)
		stderr := string(stderrRaw)
		exitCode := -1
		if ee, ok := werr.(*exec.ExitError); ok {
			exitCode = ee.ExitCode()
		}
		if !open || b < 0 {
			cr.infra = append(cr.infra, fmt.Sprintf("worker died outside a case (exit %d): %s", exitCode, core.Trunc(stderr, 1500)))
			return cr
		}
		if exitCode == 2 && !strings.Contains(stderr, "goroutine ") {
			cr.infra = append(cr.infra, fmt.Sprintf("worker reported an infrastructure error: %s", core.Trunc(stderr, 1500)))
			return cr
		}
		if e-b > 1 {
			// coarse block died: rerun it case by case
			cur = b
			fineUntil = e
			continue
		}
		// exactly case b killed the worker
		desc := ""
		if out, err := exec.Command(bo.worker, "-prop", m.ID, "-tier", tier, "-seed",
			strconv.FormatInt(seed, 10), "-describe", strconv.Itoa(b)).Output(); err == nil {
			desc = strings.TrimRight(string(out), "\n")
		}
		sig := crashSignature(stderr, exitCode, killedFor)
		if killedFor == "cpu-budget" {
			cpuBudgetDeaths.Add(1)
		}
		cr.crashes = append(cr.crashes, core.Failure{
			Class:  m.ID + "/crash/" + sig,
			Input:  desc,
			Detail: fmt.Sprintf("worker process died while running this case (exit %d, %s)\n%s", exitCode, sig, core.Trunc(stderr, 3000)),
			Idx:    b,
		})
		cr.blocks = append(cr.blocks, core.Block{From: b, To: b + 1, Events: map[string]int64{"worker_deaths": 1}})
		cur = b + 1
	}
	return cr
}

// ---------------------------------------------------------------- main

func loadFindings() core.FindingsFile {
	var ff core.FindingsFile
	raw, err := os.ReadFile(filepath.Join(verifRoot, "known_findings.json"))
	if err != nil {
		return ff
	}
	if err := json.Unmarshal(raw, &ff); err != nil {
		inconclusive("known_findings.json does not parse: %v", err)
	}
	return ff
}

func getMeta(worker, id, tier string, seed int64) meta {
	out, err := exec.Command(worker, "-prop", id, "-tier", tier, "-seed", strconv.FormatInt(seed, 10), "-meta").Output()
	if err != nil {
		inconclusive("property=%s worker -meta failed: %v", id, err)
	}
	var m meta
	if err := json.Unmarshal(out, &m); err != nil {
		inconclusive("property=%s worker -meta unparsable: %v", id, err)
	}
	return m
}

// C06 evaluates on 16 goroutines per worker.  C11's workers are sequential themselves: the detector is there for
// goroutines that the compiler might start (a compilation whose outcome depends on a schedule is not deterministic).
var raceProps = map[string]bool{"C06": true, "C11": true}

func needsRace(id, tier string) bool {
	return raceProps[id]
}

func main() {
	if len(os.Args) < 2 {
		fmt.Println("usage: vcheck run <id> <tier> | vcheck replay <id> <path> | vcheck baseline-off")
		os.Exit(2)
	}
	switch os.Args[1] {
	case "run":
		if len(os.Args) < 4 {
			os.Exit(2)
		}
		os.Exit(run(os.Args[2], os.Args[3]))
	case "replay":
		if len(os.Args) < 4 {
			os.Exit(2)
		}
		os.Exit(replay(os.Args[2], os.Args[3]))
	case "baseline-off":
		os.Exit(baselineOff())
	default:
		os.Exit(2)
	}
}

func seedFromEnv() int64 {
	if v := os.Getenv("VERIF_SEED"); v != "" {
		if n, err := strconv.ParseInt(v, 10, 64); err == nil {
			return n
		}
	}
	return 1
}

func run(id, tier string) int {
	t0 := time.Now()
	seed := seedFromEnv()
	if tier != "quick" && tier != "thorough" {
		inconclusive("bad tier %q", tier)
	}
	race := needsRace(id, tier)
	bo := build(id, tier, race)
	defer func() {
		if os.Getenv("VERIF_KEEP") == "" {
			os.RemoveAll(bo.dir)
		}
	}()
	m := getMeta(bo.worker, id, tier, seed)
	ff := loadFindings()
	known := map[string]core.Finding{}
	var mine []core.Finding
	for _, f := range ff.Findings {
		if f.Property == id {
			known[f.Class] = f
			mine = append(mine, f)
		}
	}

	// ---- shard
	nw := 16
	if v := os.Getenv("VERIF_WORKERS"); v != "" {
		if n, err := strconv.Atoi(v); err == nil && n > 0 {
			nw = n
		}
	}
	if race && id == "C06" {
		nw = 4 // each racing worker uses 16 goroutines itself
	}
	bs := m.BlockSize
	if bs < 1 {
		bs = 1
	}
	nblocks := (m.NumCases + bs - 1) / bs
	nchunks := nw * 4
	if nchunks > nblocks {
		nchunks = nblocks
	}
	if nchunks < 1 {
		nchunks = 1
	}
	type chunk struct{ from, to int }
	var chunks []chunk
	per := (nblocks + nchunks - 1) / nchunks
	for b := 0; b < nblocks; b += per {
		f := b * bs
		t := (b + per) * bs
		if t > m.NumCases {
			t = m.NumCases
		}
		if f < t {
			chunks = append(chunks, chunk{f, t})
		}
	}
	results := make([]chunkResult, len(chunks))
	var wg sync.WaitGroup
	sem := make(chan struct{}, nw)
	for i, c := range chunks {
		wg.Add(1)
		go func(i int, c chunk) {
			defer wg.Done()
			sem <- struct{}{}
			defer func() { <-sem }()
			results[i] = runRange(bo, m, tier, seed, c.from, c.to, fmt.Sprintf("c%d", i))
		}(i, c)
	}
	wg.Wait()
	// second pass against the regenerated parser(s), when a grammar file changed
	var regenFails []core.Failure
	var regenInfra []string
	if bo.regenWorker != "" {
		fmt.Printf("NOTE property=%s the grammar %v no longer generates the committed parser: running a second pass with the regenerated parser (variant=regenerated)\n", id, bo.regenWhat)
		bo2 := bo
		bo2.worker = bo.regenWorker
		res2 := make([]chunkResult, len(chunks))
		for i, c := range chunks {
			wg.Add(1)
			go func(i int, c chunk) {
				defer wg.Done()
				sem <- struct{}{}
				defer func() { <-sem }()
				res2[i] = runRange(bo2, m, tier, seed, c.from, c.to, fmt.Sprintf("r%d", i))
			}(i, c)
		}
		wg.Wait()
		for _, r := range res2 {
			regenInfra = append(regenInfra, r.infra...)
			for _, f := range r.crashes {
				f.Class += "@variant=regenerated"
				regenFails = append(regenFails, f)
			}
			for _, b := range r.blocks {
				for _, f := range b.Fails {
					f.Class += "@variant=regenerated"
					regenFails = append(regenFails, f)
				}
			}
		}
	}

	// ---- merge
	keys := map[uint64]struct{}{}
	events := map[string]int64{}
	sets := map[string]map[string]struct{}{}
	var samples []interface{}
	var fails []core.Failure
	var infra []string
	var races []string
	evals := 0
	planned := m.NumCases
	covered := map[int]bool{}
	var cpuMs int64
	for _, r := range results {
		infra = append(infra, r.infra...)
		races = append(races, r.races...)
		fails = append(fails, r.crashes...)
		for _, b := range r.blocks {
			if covered[b.From] {
				continue // block re-run after a crash restart
			}
			covered[b.From] = true
			if n := b.Events["inputs_evaluated"]; n > int64(b.To-b.From) {
				// a case of this property is a batch of inputs
				evals += int(n)
				planned += int(n) - (b.To - b.From)
			} else {
				evals += b.To - b.From
			}
			cpuMs += b.CPUms
			for _, k := range b.Keys {
				keys[k] = struct{}{}
			}
			for k, v := range b.Events {
				events[k] += v
			}
			for k, vs := range b.Sets {
				if sets[k] == nil {
					sets[k] = map[string]struct{}{}
				}
				for _, v := range vs {
					sets[k][v] = struct{}{}
				}
			}
			if len(samples) < 6 && len(b.Samples) > 0 {
				samples = append(samples, b.Samples[0])
			}
			fails = append(fails, b.Fails...)
		}
	}
	// failures of the regenerated-parser pass that the committed parser does not show
	{
		have := map[string]bool{}
		for _, f := range fails {
			have[f.Class] = true
		}
		for _, f := range regenFails {
			base := strings.TrimSuffix(f.Class, "@variant=regenerated")
			if _, isKnown := known[base]; isKnown || have[base] {
				continue
			}
			fails = append(fails, f)
		}
		infra = append(infra, regenInfra...)
	}
	// race reports → failures
	raceDistinct := map[string]string{}
	for _, blk := range races {
		sig, inRepo, inHarnessOnly := raceSignature(blk)
		if inHarnessOnly {
			infra = append(infra, "data race inside the harness itself: "+core.Trunc(blk, 1200))
			continue
		}
		if !inRepo {
			continue
		}
		raceDistinct[sig] = blk
	}
	for sig, blk := range raceDistinct {
		fails = append(fails, core.Failure{Class: id + "/data-race/" + sig, Input: "(schedule-dependent; see detail)", Detail: core.Trunc(blk, 5000)})
	}
	events["race_report_blocks"] = int64(len(races))
	events["race_reports_distinct_in_repo"] = int64(len(raceDistinct))
	if !race {
		delete(events, "race_report_blocks")
		delete(events, "race_reports_distinct_in_repo")
	}

	// ---- witnesses of known findings
	knownHits := map[string]int{}
	for _, f := range mine {
		wf := filepath.Join(bo.dir, "witness-"+f.ID+".json")
		raw, _ := json.Marshal([]core.Finding{f})
		os.WriteFile(wf, raw, 0o644)
		cmd := exec.Command(bo.worker, "-prop", id, "-tier", tier, "-seed", strconv.FormatInt(seed, 10), "-witness", wf)
		var so, se bytes.Buffer
		cmd.Stdout = &so
		cmd.Stderr = &se
		cmd.Env = append(os.Environ(), "GOTRACEBACK=all")
		done := make(chan error, 1)
		cmd.Start()
		go func() { done <- cmd.Wait() }()
		var werr error
		timedOut := false
		select {
		case werr = <-done:
		case <-time.After(120 * time.Second):
			cmd.Process.Kill()
			<-done
			timedOut = true
		}
		matched := false
		if werr == nil && !timedOut {
			var wr core.WitnessResult
			if json.Unmarshal(so.Bytes(), &wr) == nil {
				matched = wr.Matched
				if !matched {
					// a witness that fails in a *different* class is a new violation
					for _, x := range wr.Fails {
						if _, ok := known[x.Class]; !ok {
							x.Input = string(f.Witness)
							fails = append(fails, x)
						}
					}
				}
			}
		} else {
			exitCode := -1
			if ee, ok := werr.(*exec.ExitError); ok {
				exitCode = ee.ExitCode()
			}
			kf := ""
			if timedOut {
				kf = "cpu-budget"
			}
			cls := id + "/crash/" + crashSignature(se.String(), exitCode, kf)
			if cls == f.Class {
				matched = true
			} else if _, ok := known[cls]; !ok {
				fails = append(fails, core.Failure{Class: cls, Input: string(f.Witness), Detail: core.Trunc(se.String(), 3000)})
			}
		}
		if matched {
			fmt.Printf("KNOWN-FINDING: property=%s %s: %s\n", id, f.ID, f.What)
			knownHits[f.ID] = 1
		}
	}

	// ---- classify failures
	byClass := map[string][]core.Failure{}
	for _, f := range fails {
		byClass[f.Class] = append(byClass[f.Class], f)
	}
	var classes []string
	for c := range byClass {
		classes = append(classes, c)
	}
	sort.Strings(classes)
	violations := 0
	knownCounts := map[string]int{}
	if dump := os.Getenv("VERIF_DUMP_FAILS"); dump != "" {
		raw, _ := json.MarshalIndent(byClass, "", " ")
		os.WriteFile(dump, raw, 0o644)
	}
	os.MkdirAll(filepath.Join(outRoot, "replays", id), 0o755)
	for _, c := range classes {
		fs := byClass[c]
		if c == "harness-panic" {
			infra = append(infra, "harness panic: "+core.Trunc(fs[0].Detail, 2000))
			continue
		}
		if kf, ok := known[c]; ok {
			knownCounts[kf.ID] += len(fs)
			continue
		}
		violations += len(fs)
		sort.Slice(fs, func(i, j int) bool { return len(fs[i].Input) < len(fs[j].Input) })
		rp := filepath.Join(outRoot, "replays", id, fmt.Sprintf("%s-seed%d-%s.json", tier, seed, sanitize(c)))
		rep := map[string]interface{}{"property": id, "class": c, "tier": tier, "seed": seed,
			"count": len(fs), "case_index": fs[0].Idx, "input": fs[0].Input, "detail": fs[0].Detail}
		raw, _ := json.MarshalIndent(rep, "", " ")
		os.WriteFile(rp, raw, 0o644)
		fmt.Printf("VIOLATION property=%s replay=%s\n", id, rp)
		fmt.Printf("  class=%s count=%d\n  input=%s\n  detail=%s\n", c, len(fs), core.Trunc(fs[0].Input, 600), core.Trunc(fs[0].Detail, 900))
	}

	// ---- conclusiveness
	if evals < planned {
		infra = append(infra, fmt.Sprintf("only %d of %d cases were evaluated", evals, planned))
	}
	for _, k := range m.MinEvents {
		if events[k] == 0 {
			infra = append(infra, fmt.Sprintf("monitor observed nothing: event counter %q is 0", k))
		}
	}

	// ---- evidence
	setCounts := map[string]int{}
	setSamples := map[string][]string{}
	for k, s := range sets {
		setCounts[k] = len(s)
		var vs []string
		for v := range s {
			vs = append(vs, v)
		}
		sort.Strings(vs)
		if len(vs) > 8 {
			vs = vs[:8]
		}
		setSamples[k] = vs
	}
	if len(samples) == 0 {
		samples = append(samples, "no sample recorded")
	}
	cov := map[string]interface{}{
		"evaluations":         evals,
		"distinct_nontrivial": len(keys),
		"rule":                m.Rule,
		"samples":             samples,
		"events":              events,
		"distinct_sets":       setCounts,
		"distinct_set_values": setSamples,
		"worker_cpu_s":        float64(cpuMs) / 1000,
		"known_finding_cases": knownCounts,
		"known_finding_witnesses_still_failing": knownHits,
		"inconclusive_reasons": infra,
		"case_count_planned":   planned,
		"batches":              m.NumCases,
	}
	ev := map[string]interface{}{
		"property_id": id,
		"tier":        tier,
		"seed":        seed,
		"level":       m.Level,
		"coverage":    cov,
		"assumptions": m.Assumptions,
		"wall_s":      time.Since(t0).Seconds(),
		"violations":  violations,
	}
	os.MkdirAll(filepath.Join(outRoot, "evidence"), 0o755)
	raw, _ := json.MarshalIndent(ev, "", " ")
	os.WriteFile(filepath.Join(outRoot, "evidence", id+".json"), append(raw, '\n'), 0o644)

	if violations > 0 {
		fmt.Printf("property=%s tier=%s seed=%d evaluations=%d distinct=%d violations=%d\n", id, tier, seed, evals, len(keys), violations)
		return 1
	}
	if len(infra) > 0 {
		fmt.Printf("INCONCLUSIVE property=%s %s\n", id, core.Trunc(strings.Join(infra, " | "), 3000))
		return 2
	}
	fmt.Printf("HELD property=%s tier=%s seed=%d evaluations=%d distinct_nontrivial=%d known_finding_cases=%v wall=%.1fs\n",
		id, tier, seed, evals, len(keys), knownCounts, time.Since(t0).Seconds())
	return 0
}

func sanitize(s string) string {
	var b strings.Builder
	for _, c := range s {
		switch {
		case c >= 'a' && c <= 'z', c >= 'A' && c <= 'Z', c >= '0' && c <= '9', c == '-', c == '_', c == '.':
			b.WriteRune(c)
		default:
			b.WriteByte('_')
		}
	}
	r := b.String()
	if len(r) > 120 {
		r = r[:120]
	}
	return r
}

// raceSignature de-duplicates a race report by the innermost repo frames of
// its two stacks and says whether the accessing frames are in the repo.
func raceSignature(blk string) (sig string, inRepo bool, harnessOnly bool) {
	// Split into stack sections: lines after "Write at"/"Read at"/"Previous write at"/"Previous read at"
	lines := strings.Split(blk, "\n")
	var access []string // first function line of each access stack
	var firstRepo []string
	inAccess := false
	gotFirst := false
	gotRepo := false
	for _, l := range lines {
		t := strings.TrimSpace(l)
		if strings.HasPrefix(t, "Write at") || strings.HasPrefix(t, "Read at") ||
			strings.HasPrefix(t, "Previous write at") || strings.HasPrefix(t, "Previous read at") ||
			strings.HasPrefix(t, "Atomic") || strings.HasPrefix(t, "Previous atomic") {
			inAccess, gotFirst, gotRepo = true, false, false
			continue
		}
		if strings.HasPrefix(t, "Goroutine ") {
			inAccess = false
			continue
		}
		if !inAccess || t == "" || strings.HasPrefix(t, "/") {
			continue
		}
		if strings.Contains(t, "()") || strings.Contains(t, "(") {
			fn := t
			if i := strings.Index(fn, "("); i > 0 && !strings.HasPrefix(fn, "github.com/sdcio/yang-parser/") {
				fn = fn[:i]
			}
			if !gotFirst {
				gotFirst = true
				access = append(access, fn)
			}
			if !gotRepo && strings.HasPrefix(t, "github.com/sdcio/yang-parser/") {
				gotRepo = true
				f := strings.TrimPrefix(t, "github.com/sdcio/yang-parser/")
				if i := strings.LastIndex(f, "("); i > 0 {
					f = f[:i]
				}
				firstRepo = append(firstRepo, f)
			}
		}
	}
	for _, a := range access {
		if strings.HasPrefix(a, "github.com/sdcio/yang-parser/") || strings.HasPrefix(a, "runtime.") || !strings.HasPrefix(a, "verifharness/") {
			// a runtime.* access (map access) on behalf of a repo frame counts via firstRepo
		}
	}
	sort.Strings(firstRepo)
	sig = strings.Join(firstRepo, "+")
	// The accessing frame is "in the repo" when the innermost non-runtime frame of either stack is a repo frame.
	inRepo = false
	harnessOnly = len(access) > 0
	// Re-scan to find innermost non-runtime frame per access stack.
	inAccess = false
	found := false
	for _, l := range lines {
		t := strings.TrimSpace(l)
		if strings.HasPrefix(t, "Write at") || strings.HasPrefix(t, "Read at") ||
			strings.HasPrefix(t, "Previous write at") || strings.HasPrefix(t, "Previous read at") {
			inAccess, found = true, false
			continue
		}
		if strings.HasPrefix(t, "Goroutine ") {
			inAccess = false
		}
		if !inAccess || found || t == "" || strings.HasPrefix(t, "/") || !strings.Contains(t, "(") {
			continue
		}
		if strings.HasPrefix(t, "runtime.") || strings.HasPrefix(t, "sync.") || strings.HasPrefix(t, "internal/") {
			continue
		}
		found = true
		if strings.HasPrefix(t, "github.com/sdcio/yang-parser/") {
			inRepo = true
			harnessOnly = false
		} else if !strings.HasPrefix(t, "verifharness/") {
			harnessOnly = false
		}
	}
	if sig == "" {
		sig = "unknown"
	}
	return
}

// ---------------------------------------------------------------- replay

func replay(id, path string) int {
	raw, err := os.ReadFile(path)
	if err != nil {
		inconclusive("cannot read %s: %v", path, err)
	}
	var rep struct {
		Property string `json:"property"`
		Class    string `json:"class"`
		Tier     string `json:"tier"`
		Seed     int64  `json:"seed"`
		Idx      int    `json:"case_index"`
		Input    string `json:"input"`
	}
	if err := json.Unmarshal(raw, &rep); err != nil {
		inconclusive("replay file unparsable: %v", err)
	}
	bo := build(id, "replay", needsRace(id, rep.Tier))
	defer os.RemoveAll(bo.dir)
	m := getMeta(bo.worker, id, rep.Tier, rep.Seed)
	cr := runRange(bo, m, rep.Tier, rep.Seed, rep.Idx, rep.Idx+1, "replay")
	var fails []core.Failure
	fails = append(fails, cr.crashes...)
	for _, b := range cr.blocks {
		fails = append(fails, b.Fails...)
	}
	for _, f := range fails {
		if f.Class == rep.Class {
			fmt.Printf("VIOLATION property=%s replay=%s\n  reproduced class=%s\n  input=%s\n  detail=%s\n", id, path, f.Class, core.Trunc(f.Input, 800), core.Trunc(f.Detail, 1500))
			return 1
		}
	}
	fmt.Printf("replay of %s: class %s not reproduced (%d other failures)\n", path, rep.Class, len(fails))
	return 0
}

// ---------------------------------------------------------------- baseline with the guard off

func baselineOff() int {
	// The pinned suite: go test without the verif tag over ./... ; only the
	// xpath packages build at the pin (leafref.go is generated, see DESIGN §0).
	cmd := exec.Command(goBin, "test", "-json", "-vet=off", "-count=1", "-timeout", "25m", "./...")
	cmd.Dir = repoRoot
	cmd.Env = goEnv()
	out, _ := cmd.Output()
	pass := map[string]bool{}
	sc := bufio.NewScanner(bytes.NewReader(out))
	sc.Buffer(make([]byte, 1<<20), 1<<26)
	for sc.Scan() {
		var ev struct{ Action, Package, Test string }
		if json.Unmarshal(sc.Bytes(), &ev) != nil || ev.Test == "" || strings.Contains(ev.Test, "/") {
			continue
		}
		if ev.Action == "pass" {
			pass[ev.Package+"::"+ev.Test] = true
		}
	}
	raw, err := os.ReadFile("/root/.vp/BASELINE.json")
	if err != nil {
		fmt.Printf("passed=%d (no BASELINE.json to compare)\n", len(pass))
		return 0
	}
	var bl struct {
		Stable []string `json:"stable_pass"`
	}
	json.Unmarshal(raw, &bl)
	missing := 0
	for _, t := range bl.Stable {
		if !pass[t] {
			fmt.Println("MISSING", t)
			missing++
		}
	}
	fmt.Printf("baseline tests passing with guard off: %d of %d (total passing %d)\n", len(bl.Stable)-missing, len(bl.Stable), len(pass))
	if missing > 0 {
		return 1
	}
	return 0
}
