package props

import (
	"sync"
	"strings"
	"encoding/json"
	"fmt"

	"github.com/sdcio/yang-parser/compile"
	"github.com/sdcio/yang-parser/schema"

	"verifharness/internal/core"
	"verifharness/internal/dump"
	"verifharness/internal/yang"
)

// C20: schema filters prune top-down and change nothing else.
// Differential: dump(filtered compile) == prune(dump(unfiltered compile), filter).
type c20 struct{ base }

func init() {
	core.Register(&c20{base: base{
		id: "C20",
		rule: "cases = generated module sets (1-3 modules, groupings/uses/augments, config true/false mixed at every level, config false lists, choices with default cases whose members are state, " +
			"rpcs and notifications, a random subset of features enabled) x 23 filters {none, IsConfig, IsState, IsOpd, IsConfigOrState(), IncludeState(true/false) and Include / Exclude combinations of them, also of none and of nil} " +
			": the canonical dump of the filtered compilation must equal the dump of the unfiltered compilation from which every node failing the predicate " +
			"(the meaning of each filter is written out in the harness over the node's config flag and kind in the unfiltered schema; the exported predicate functions are not used for the reference) has been removed with its subtree; the filtered compilation must succeed whenever " +
			"the unfiltered one does; distinct_nontrivial = distinct (module texts, filter) pairs in which the filter removed at least one node and kept at least one",
		block: 8,
		assumptions: []string{
			"choices and cases are nodes for the purpose of pruning; the merged top-level view of the ModelSet is recomputed from the surviving module children",
			"operational command nodes (opd:command / opd:option / opd:argument) stand in a module of their own in every second set; the reference knows them by their kind",
		},
		minEvents: []string{"unfiltered_compilations", "filtered_compilations", "dumps_compared", "nodes_pruned_in_reference", "default_case_filtered_away"},
	}})
}

// A filter as handed to the compiler, and what it means: ref says whether a node is kept, given the node's
// config flag in the unfiltered schema and whether it is an operational command node (written out here
// from the documentation of the filters, not computed with them).
type c20Filter struct {
	name string
	f    compile.SchemaFilter
	ref  func(config, opd bool) bool
}

func c20State(config, opd bool) bool { return !config && !opd }

var c20Filters = []c20Filter{
	{"none", nil, nil},
	{"IsConfig", compile.IsConfig, func(c, o bool) bool { return c }},
	{"IsState", compile.IsState, c20State},
	{"IsOpd", compile.IsOpd, func(c, o bool) bool { return o }},
	{"IsConfigOrState()", compile.IsConfigOrState(), func(c, o bool) bool { return c || c20State(c, o) }},
	{"Include(IsConfig,IsOpd)", compile.Include(compile.IsConfig, compile.IsOpd), func(c, o bool) bool { return c || o }},
	{"Exclude(IsState)", compile.Exclude(compile.IsState), func(c, o bool) bool { return !c20State(c, o) }},
	{"IncludeState(true)", compile.IncludeState(true), c20State},
	{"IncludeState(false)", compile.IncludeState(false), func(c, o bool) bool { return !c20State(c, o) }},
	{"Exclude(IsOpd)", compile.Exclude(compile.IsOpd), func(c, o bool) bool { return !o }},
	{"Exclude(IsConfig)", compile.Exclude(compile.IsConfig), func(c, o bool) bool { return !c }},
	{"Include(IsConfig,IsState)", compile.Include(compile.IsConfig, compile.IsState), func(c, o bool) bool { return c || c20State(c, o) }},
	{"Include(IsConfig,IncludeState(true))", compile.Include(compile.IsConfig, compile.IncludeState(true)), func(c, o bool) bool { return c || c20State(c, o) }},
	{"Include(IsOpd,IsState)", compile.Include(compile.IsOpd, compile.IsState), func(c, o bool) bool { return o || c20State(c, o) }},
	{"Exclude(IsConfig,IsOpd)", compile.Exclude(compile.IsConfig, compile.IsOpd), func(c, o bool) bool { return !c && !o }},
	{"Include()", compile.Include(), func(c, o bool) bool { return false }},
	{"Exclude(nil)", compile.Exclude(nil), func(c, o bool) bool { return true }},
	// combinations of combinations: two results of the same combinator side by side
	{"Include(Exclude(IsState),Exclude(IsConfig))", compile.Include(compile.Exclude(compile.IsState), compile.Exclude(compile.IsConfig)), func(c, o bool) bool { return !c20State(c, o) || !c }},
	{"Include(IncludeState(false),Exclude(IsOpd))", compile.Include(compile.IncludeState(false), compile.Exclude(compile.IsOpd)), func(c, o bool) bool { return !c20State(c, o) || !o }},
	{"Exclude(Include(IsState),Include(IsOpd))", compile.Exclude(compile.Include(compile.IsState), compile.Include(compile.IsOpd)), func(c, o bool) bool { return !c20State(c, o) && !o }},
	{"Include(Include(IsConfig),Include(IsOpd))", compile.Include(compile.Include(compile.IsConfig), compile.Include(compile.IsOpd)), func(c, o bool) bool { return c || o }},
	{"Exclude(Exclude(IsState),Exclude(IsOpd))", compile.Exclude(compile.Exclude(compile.IsState), compile.Exclude(compile.IsOpd)), func(c, o bool) bool { return false }},
	{"Include(IsConfigOrState(),Include(IsOpd))", compile.Include(compile.IsConfigOrState(), compile.Include(compile.IsOpd)), func(c, o bool) bool { return true }},
}

func (p *c20) NumCases(tier string, seed int64) int { return tierN(tier, 1000, 40000) }

func c20Gen(seed int64, idx int) *yang.ModSet {
	r := core.CaseRng(seed, "C20", idx)
	cfg := yang.DefaultGenCfg()
	cfg.Modules = r.Range(1, 3)
	cfg.Rpc = true
	cfg.UsesExtras = r.Bool()
	cfg.NoPrefixedXPath = true
	ms := yang.GenSchemaSet(r, cfg)
	// a choice whose default case consists of state data, and a config false list
	m := ms.Mods[0]
	top := c14Top(m)
	top.Add(
		yang.S("choice", "c20-choice", yang.S("default", "st"),
			yang.S("case", "st", yang.S("leaf", "c20-state-leaf", yang.S("type", "string"), yang.S("config", "false"))),
			yang.S("case", "cf", yang.S("leaf", "c20-config-leaf", yang.S("type", "string")))),
		yang.S("list", "c20-state-list", yang.S("config", "false"), yang.S("key", "k"), yang.S("leaf", "k", yang.S("type", "string")),
			yang.S("container", "inner", yang.S("leaf", "v", yang.S("type", "int8")))),
		// unique sets over state leaves of a configuration list (directly, and through a state container): what a
		// filter removes cannot be demanded any more
		yang.S("list", "c20-uq", yang.S("key", "k"), yang.S("leaf", "k", yang.S("type", "string")), yang.S("unique", "st/a st/b"), yang.S("unique", "s1"),
			yang.S("leaf", "s1", yang.S("type", "string"), yang.S("config", "false")),
			yang.S("container", "st", yang.S("config", "false"), yang.S("leaf", "a", yang.S("type", "string")), yang.S("leaf", "b", yang.S("type", "int8")))),
		yang.S("list", "c20-uq-cfg", yang.S("key", "k"), yang.S("leaf", "k", yang.S("type", "string")), yang.S("unique", "cc/a"),
			yang.S("container", "cc", yang.S("leaf", "a", yang.S("type", "string")))),
		yang.S("container", "c20-mixed", yang.S("leaf", "cfg", yang.S("type", "string")), yang.S("leaf", "st", yang.S("type", "string"), yang.S("config", "false")),
			yang.S("choice", "mixch", yang.S("leaf", "m1", yang.S("type", "string"), yang.S("config", "false")), yang.S("leaf", "m2", yang.S("type", "string")))),
	)
	if idx%10 == 9 {
		// a second module augments a list with a configuration leaf named like a state leaf the list has already.
		// Whether such a set compiles is not this property's subject (it is refused: the names clash); if it
		// compiles, what a filter leaves must still be what pruning leaves.
		pa := m.Find("prefix").Arg
		top.Add(yang.S("list", "c20-if", yang.S("key", "name"), yang.S("leaf", "name", yang.S("type", "string")),
			yang.S("leaf", "mtu", yang.S("type", "uint16"), yang.S("config", "false")),
			yang.S("container", "stats", yang.S("config", "false"), yang.S("leaf", "in", yang.S("type", "uint32")))))
		ms.Mods = append(ms.Mods, yang.S("module", "c20-vendor", yang.S("namespace", "urn:verif:c20-vendor"), yang.S("prefix", "cv"),
			yang.S("import", m.Arg, yang.S("prefix", pa)),
			yang.S("augment", "/"+pa+":"+top.Arg+"/"+pa+":c20-if",
				yang.S("leaf", "mtu", yang.S("type", "uint16")),
				yang.S("container", "stats", yang.S("leaf", "reset-interval", yang.S("type", "uint32"))))))
	}
	if idx%2 == 1 {
		// operational command nodes (the third kind of node the filters tell apart)
		ms.Mods = append(ms.Mods, yang.S("module", "c20-opd", yang.S("namespace", "urn:verif:c20-opd"), yang.S("prefix", "co"),
			yang.S("container", "c20-sys", yang.S("leaf", "host", yang.S("type", "string")), yang.S("leaf", "up", yang.S("type", "uint32"), yang.S("config", "false"))),
			yang.S("opd:command", "c20-show",
				yang.S("opd:option", "detail", yang.S("type", "string")),
				yang.S("opd:command", "thing", yang.S("opd:argument", "name", yang.S("type", "string"))))))
		if idx%4 == 3 {
			// command nodes that a grouping brings below configuration and below state nodes: they are neither, wherever they stand
			om := ms.Mods[len(ms.Mods)-1]
			om.Add(yang.S("grouping", "c20-diag", yang.S("leaf", "note", yang.S("type", "string")),
				yang.S("opd:command", "show", yang.S("opd:option", "detail", yang.S("type", "string")))),
				yang.S("container", "c20-cfg-with-commands", yang.S("uses", "c20-diag"), yang.S("leaf", "y", yang.S("type", "string"), yang.S("config", "false"))),
				yang.S("container", "c20-state-with-commands", yang.S("config", "false"), yang.S("leaf", "resets", yang.S("type", "uint32")), yang.S("uses", "c20-diag")),
				yang.S("container", "c20-deeper", yang.S("leaf", "n", yang.S("type", "string")),
					yang.S("container", "status", yang.S("config", "false"), yang.S("uses", "c20-diag")),
					yang.S("list", "session", yang.S("config", "false"), yang.S("key", "id"), yang.S("leaf", "id", yang.S("type", "uint32")), yang.S("uses", "c20-diag"))))
		}
	}
	return ms
}

func (p *c20) Describe(tier string, seed int64, idx int) string {
	return textsString(c20Gen(seed, idx).Texts(nil))
}

// prune removes every schema node failing f, with its subtree.
func c20Prune(d *dump.DNode, f func(config, opd bool) bool, removed, kept *int) *dump.DNode {
	out := &dump.DNode{Kind: d.Kind, Name: d.Name, Attrs: d.Attrs, Ref: d.Ref}
	for _, k := range d.Kids {
		if k.Kind == "merged-top" {
			continue
		}
		if k.Ref != nil && f != nil {
			kind := k.Kind
			if strings.HasPrefix(kind, "other(*schema.opd") {
				kind = "opd" // operational command / option / argument nodes
			}
			switch kind {
			case "container", "list", "leaf", "leaf-list", "choice", "case", "opd":
				config := false
				for _, a := range k.Attrs {
					if strings.HasPrefix(a, "config=true ") {
						config = true
					}
				}
				if !f(config, kind == "opd") {
					*removed += k.Count()
					continue
				}
				*kept++
			}
		}
		out.Kids = append(out.Kids, c20Prune(k, f, removed, kept))
	}
	return out
}

func c20Strip(d *dump.DNode) *dump.DNode {
	n := 0
	return c20Prune(d, nil, &n, &n)
}

func (p *c20) Run(tier string, seed int64, idx int) core.CaseResult {
	var res core.CaseResult
	ms := c20Gen(seed, idx)
	r := core.CaseRng(seed, "C20f", idx)
	var feats []string
	for _, f := range ms.Features {
		if r.Chance(3, 4) {
			feats = append(feats, f)
		}
	}
	texts := ms.Texts(nil)
	input := fmt.Sprintf("features=%v\n%s", feats, textsString(texts))
	base := compileTexts(texts, nil, feats, nil, true)
	res.Ev("unfiltered_compilations", 1)
	if base.Panic != "" {
		res.Fail("C20/panic/"+core.TopRepoFrame(base.Stack), input, base.Panic)
		return res
	}
	if base.ParseErr != "" {
		res.Fail("harness-panic", input, base.ParseErr)
		return res
	}
	if !base.Accepted() {
		if ms.Mods[len(ms.Mods)-1].Arg == "c20-vendor" || (len(ms.Mods) > 1 && ms.Mods[len(ms.Mods)-2].Arg == "c20-vendor") {
			res.Ev("sets_with_a_cross_module_name_clash_refused", 1)
			return res
		}
		res.Fail("C20/valid-set-rejected", input, base.Err)
		return res
	}
	seqDump := map[string]string{}
	for _, fl := range c20Filters {
		fr := compileTexts(texts, nil, feats, fl.f, true)
		res.Ev("filtered_compilations", 1)
		if fr.Accepted() {
			seqDump[fl.name] = fr.Dump
		}
		in := "filter=" + fl.name + "\n" + input
		if fr.Panic != "" {
			res.Fail("C20/panic/"+fl.name+"/"+core.TopRepoFrame(fr.Stack), in, fr.Panic)
			continue
		}
		if !fr.Accepted() {
			res.Fail("C20/filtered-compile-fails/"+fl.name, in, "the unfiltered compilation succeeds, with the filter: "+fr.Err)
			continue
		}
		removed, kept := 0, 0
		want := c20Prune(base.DumpRoot, fl.ref, &removed, &kept).String()
		got := c20Strip(fr.DumpRoot).String()
		res.Ev("dumps_compared", 1)
		res.Ev("nodes_pruned_in_reference", int64(removed))
		if removed > 0 && kept > 0 {
			res.Key(fl.name + "|" + input)
		}
		// was the default case of c20-choice filtered away?
		if fl.f != nil {
			pan, _, _ := core.Guard(func() {
				ch := base.MS.Child(c14Top(ms.Mods[0]).Arg).Child("c20-state-leaf")
				if ch != nil && !fl.f(ch) {
					res.Ev("default_case_filtered_away", 1)
				}
			})
			_ = pan
		}
		if got != want {
			res.Fail("C20/filtered-schema-differs-from-pruned-schema/"+fl.name, in, firstDiff(want, got)+"\n(- pruned unfiltered schema, + filtered compilation)")
		}
	}
	// ---- the same compilations side by side, each on texts parsed for it alone: a filter belongs to the compilation it
	// was given to, whatever else is being compiled at the time
	if idx%4 == 1 {
		outs := make([]compileResult, len(c20Filters))
		var wg sync.WaitGroup
		start := make(chan struct{})
		for i := range c20Filters {
			wg.Add(1)
			go func(i int) {
				defer wg.Done()
				<-start
				outs[i] = compileTexts(texts, nil, feats, c20Filters[i].f, true)
			}(i)
		}
		close(start)
		wg.Wait()
		for i, fl := range c20Filters {
			res.Ev("filtered_compilations_run_side_by_side", 1)
			want, ok := seqDump[fl.name]
			if !ok {
				continue
			}
			if o := outs[i]; !o.Accepted() || o.Dump != want {
				res.Fail("C20/filtered-compilation-differs-when-others-run-beside-it/"+fl.name, "filter="+fl.name+"\n"+input,
					fmt.Sprintf("%d compilations of the same texts at the same time, each with its own filter: %s %s%s\n%s\n(- compiled alone, + compiled beside the others)", len(c20Filters), o.Verdict(), o.Err, o.Panic, firstDiff(want, o.Dump)))
			}
		}
	}
	// ---- one set of parsed trees compiled several times.  Where that works at all (two unfiltered compilations of
	// the same trees give the schema of a fresh parse), a filter used in one compilation says nothing about the next.
	if idx%3 == 0 {
		if trees, perr := parseTexts(texts); perr == "" {
			u1 := compileTrees(trees, feats, nil)
			u2 := compileTrees(trees, feats, nil)
			if u1.Accepted() && u2.Accepted() && u1.Dump == base.Dump && u2.Dump == base.Dump {
				res.Ev("sets_whose_trees_compile_twice_alike", 1)
				if t2, perr2 := parseTexts(texts); perr2 == "" {
					seq := []int{1 + idx/3%(len(c20Filters)-1), 1 + (idx/3+5)%(len(c20Filters)-1), 0, 1 + (idx/3+2)%(len(c20Filters)-1)}
					prev := ""
					for _, fi := range seq {
						fl := c20Filters[fi]
						got := compileTrees(t2, feats, fl.f)
						fresh := compileTexts(texts, nil, feats, fl.f, true)
						res.Ev("compilations_of_trees_compiled_before", 1)
						if got.Panic != "" {
							res.Fail("C20/panic/"+fl.name+"/"+core.TopRepoFrame(got.Stack), input, got.Panic)
							break
						}
						if got.Accepted() != fresh.Accepted() || got.Dump != fresh.Dump {
							res.Fail("C20/filter-of-an-earlier-compilation-shows-in-a-later-one", "filter="+fl.name+" after "+prev+"\n"+input,
								fmt.Sprintf("the same parse trees, compiled before with the filters %s: verdict %s %s\n%s\n(- trees parsed afresh, + trees compiled before)", prev, got.Verdict(), got.Err, firstDiff(fresh.Dump, got.Dump)))
							break
						}
						prev += fl.name + " "
					}
				}
			} else {
				res.Ev("sets_whose_trees_do_not_compile_twice_alike", 1)
			}
		}
	}
	if idx%41 == 0 {
		res.Sample = map[string]interface{}{"modules": len(ms.Mods), "dump_nodes": base.DumpRoot.Count(), "filters": len(c20Filters)}
	}
	return res
}

var _ schema.Node

func (p *c20) Witness(raw json.RawMessage) []core.Failure { return nil }
