package props

import (
	"strings"
	"path/filepath"
	"os"
	"fmt"
	"sort"

	"github.com/sdcio/yang-parser/compile"
	"github.com/sdcio/yang-parser/parse"
	"github.com/sdcio/yang-parser/schema"

	"verifharness/internal/core"
	"verifharness/internal/dump"
)

// compileResult of one compilation of a set of texts.
type compileResult struct {
	ParseErr string
	Err      string
	Panic    string
	Stack    string
	MS       schema.ModelSet
	Dump     string
	DumpRoot *dump.DNode
}

func (c compileResult) Accepted() bool { return c.ParseErr == "" && c.Err == "" && c.Panic == "" }

func (c compileResult) Verdict() string {
	switch {
	case c.Panic != "":
		return "panic"
	case c.ParseErr != "":
		return "parse-error"
	case c.Err != "":
		return "reject"
	}
	return "accept"
}

// compileTexts parses every text afresh (compilation mutates parse trees) and
// compiles the set.  order gives the insertion order of the trees map.
// compileSkipUnknown: compile with the option that tolerates imports of modules that are not supplied
// (set by C11 for the sets that need it; false everywhere else).
var compileSkipUnknown bool

// compileFeatureForm, compileAllFeatures: how the enabled features are handed to the compiler (set by C14;
// 0 = one checker that names the enabled features).
var compileFeatureForm int
var compileAllFeatures []string

func compileTexts(texts map[string]string, order []string, feats []string, filter compile.SchemaFilter, wantDump bool) (res compileResult) {
	if order == nil {
		for n := range texts {
			order = append(order, n)
		}
		sort.Strings(order)
	}
	trees := make(map[string]*parse.Tree)
	for _, n := range order {
		var t *parse.Tree
		var err error
		pan, msg, stack := core.Guard(func() { t, err = parse.Parse(n+".yang", texts[n], nil) })
		if pan {
			res.Panic, res.Stack = "parse: "+msg, stack
			return
		}
		if err != nil {
			res.ParseErr = err.Error()
			return
		}
		trees[n] = t
	}
	var fc compile.FeaturesChecker
	if feats != nil {
		fc = compile.FeaturesFromNames(true, feats...)
		if compileFeatureForm != 0 {
			// the same enabled set, said through a chain of checkers (the last one that knows a feature wins)
			on := map[string]bool{}
			for _, f := range feats {
				on[f] = true
			}
			var off []string
			for _, f := range compileAllFeatures {
				if !on[f] {
					off = append(off, f)
				}
			}
			switch compileFeatureForm {
			case 4:
				// a features directory: <dir>/<module>/<feature> exists for every enabled feature
				if dir, derr := os.MkdirTemp("", "verif-features-"); derr == nil {
					defer os.RemoveAll(dir)
					for _, f := range feats {
						if i := strings.Index(f, ":"); i > 0 {
							os.MkdirAll(filepath.Join(dir, f[:i]), 0o755)
							os.WriteFile(filepath.Join(dir, f[:i], f[i+1:]), nil, 0o644)
						}
					}
					fc = compile.FeaturesFromLocations(true, dir)
				}
			case 1:
				fc = compile.MultiFeatureCheckers(compile.FeaturesFromNames(true, compileAllFeatures...), compile.FeaturesFromNames(false, off...))
			case 2:
				fc = compile.MultiFeatureCheckers(compile.FeaturesFromNames(false, compileAllFeatures...), nil, compile.FeaturesFromNames(true, feats...))
			default:
				fc = compile.MultiFeatureCheckers(compile.FeaturesFromNames(false, feats...), compile.FeaturesFromNames(true, feats...), compile.FeaturesFromNames(false, off...), compile.FeaturesFromNames(true))
			}
		}
	}
	var ms schema.ModelSet
	var err error
	pan, msg, stack := core.Guard(func() { ms, err = compile.CompileParseTrees(nil, trees, fc, compileSkipUnknown, filter) })
	if pan {
		res.Panic, res.Stack = msg, stack
		return
	}
	if err != nil {
		res.Err = err.Error()
		return
	}
	if ms == nil {
		res.Err = "nil ModelSet without error"
		return
	}
	res.MS = ms
	if wantDump {
		pan, msg, stack = core.Guard(func() {
			res.DumpRoot = dump.ModelSet(ms)
			res.Dump = res.DumpRoot.String()
		})
		if pan {
			res.Panic, res.Stack = "dump: "+msg, stack
		}
	}
	return
}

// parseTexts parses a set once; compileTrees compiles parsed trees (the compiler works on the trees it is given:
// whoever compiles the same trees again compiles what the first compilation left of them).
func parseTexts(texts map[string]string) (map[string]*parse.Tree, string) {
	trees := make(map[string]*parse.Tree)
	names := make([]string, 0, len(texts))
	for n := range texts {
		names = append(names, n)
	}
	sort.Strings(names)
	for _, n := range names {
		var t *parse.Tree
		var err error
		pan, msg, _ := core.Guard(func() { t, err = parse.Parse(n+".yang", texts[n], nil) })
		if pan {
			return nil, "parse panic: " + msg
		}
		if err != nil {
			return nil, err.Error()
		}
		trees[n] = t
	}
	return trees, ""
}

func compileTrees(trees map[string]*parse.Tree, feats []string, filter compile.SchemaFilter) (res compileResult) {
	var fc compile.FeaturesChecker
	if feats != nil {
		fc = compile.FeaturesFromNames(true, feats...)
	}
	var ms schema.ModelSet
	var err error
	pan, msg, stack := core.Guard(func() { ms, err = compile.CompileParseTrees(nil, trees, fc, false, filter) })
	if pan {
		res.Panic, res.Stack = msg, stack
		return
	}
	if err != nil {
		res.Err = err.Error()
		return
	}
	if ms == nil {
		res.Err = "nil ModelSet without error"
		return
	}
	res.MS = ms
	pan, msg, stack = core.Guard(func() {
		res.DumpRoot = dump.ModelSet(ms)
		res.Dump = res.DumpRoot.String()
	})
	if pan {
		res.Panic, res.Stack = "dump: "+msg, stack
	}
	return
}

func firstDiff(a, b string) string {
	la, lb := splitLines(a), splitLines(b)
	for i := 0; i < len(la) || i < len(lb); i++ {
		var x, y string
		if i < len(la) {
			x = la[i]
		}
		if i < len(lb) {
			y = lb[i]
		}
		if x != y {
			ctx := ""
			for j := i - 3; j < i; j++ {
				if j >= 0 && j < len(la) {
					ctx += "   " + la[j] + "\n"
				}
			}
			return fmt.Sprintf("first difference at dump line %d:\n%s - %s\n + %s", i+1, ctx, x, y)
		}
	}
	return "no difference"
}

func splitLines(s string) []string {
	var out []string
	start := 0
	for i := 0; i < len(s); i++ {
		if s[i] == '\n' {
			out = append(out, s[start:i])
			start = i + 1
		}
	}
	if start < len(s) {
		out = append(out, s[start:])
	}
	return out
}
