package props

import (
	"encoding/json"
	"fmt"
	"regexp"
	"runtime"
	"strconv"
	"strings"
	"time"

	"github.com/sdcio/yang-parser/parse"

	"verifharness/internal/core"
	"verifharness/internal/yang"
)

// C07: YANG parsing is total and leaves nothing running.
//
// Monitors: (a) the lexer step-budget hook (tag verif) ends the worker with a
// STEP-BUDGET line when next() is called more often than 16*len+4096 times;
// the Go runtime's own deadlock detector and the driver's CPU watchdog cover
// the other ways of not returning; (b) panic monitor; (c) error-position
// checker; (d) goroutine monitor: ids of goroutines running parse.(*lexer).run
// before and after each call.
type c07 struct{ base }

func init() {
	core.Register(&c07{base: base{
		id: "C07",
		rule: "inputs = every byte-prefix of the seed texts (hand-written modules with every lexical form, generated statement trees rendered with random quoting/trivia), " +
			"single-byte deletions / insertions / replacements with structural bytes ({ } ; \" ' + / * \\ CR LF), random byte strings, deeply nested blocks (closed and unclosed, 10^4 levels), " +
			"a hostile list of texts ending inside a word, string, comment or block; each is parsed by parse.Parse under the step-budget hook; checked: returns, no panic, error names the input " +
			"and a line/column inside it, nil error comes with a root statement, no lexer goroutine started by the call survives it; distinct_nontrivial = distinct input texts",
		block: 64,
		assumptions: []string{
			"termination is decided by the lexer step budget (hook), the runtime's deadlock detector and a CPU-time watchdog in the driver, never by wall-clock",
			"a goroutine counts as leaked when it is still present after the call and sits in a blocking channel operation at three consecutive samples; a goroutine that is still runnable after 200 ms of yielding is counted as inconclusive, not as a leak",
			"inputs are at most 256 KiB",
		},
		minEvents: []string{"inputs_evaluated", "parse_errors_checked", "parses_accepted", "goroutine_snapshots", "prefix_inputs"},
	}})
}

var c07Hostile = []string{
	"", " ", "\n", "module", "module m", "module m ", "module m {", "module m { ", "module m { namespace", "module m { namespace \"urn:m", "module m { namespace \"urn:m\"",
	"module m { namespace \"urn:m\";", "module m { namespace 'urn:m", "module m { /* unclosed", "module m { // unclosed", "module m { // closed\n", "module m {}", "module m {} x", "module m {} }",
	"}", "{", ";", "+", "\"", "'", "\"\\", "\"\\\"", "a", "a b", "a b;", "a b; c", "a \"b\" +", "a \"b\" + ;", "a \"b\" \"c\";", "a 'b' + 'c", "a \"b\" + 'c';", "a + b;", "a;", "a{}", "a{b;}", "a{b{c{d;}}}",
	"a{b;}}", "a{{b;}}", "a b c;", "a \"b\" c;", "/", "/*", "/**/", "//", "//\n", "a/*c*/b;", "a /*c*/ b;", "a//c\nb;", "a // c\n b;", "\xff", "a \xff;", "a \"\xff\";", "module \xff { }", "\x00", "a\x00b;",
	"module m { namespace \"urn:m\"; prefix m; leaf l { type string; } }", "module m { namespace \"urn:m\"; prefix m; leaf l { type string; } } trailing",
	"module m { prefix m; namespace \"urn:m\"; }", "module m { namespace \"urn:m\"; prefix m; leaf l { type string; type string; } }", "module m { namespace \"urn:m\"; prefix m; bogus x; }",
	"module m { namespace \"urn:m\"; prefix m; leaf 1bad { type string; } }", "submodule s { belongs-to m { prefix m; } }", "submodule s { }", "container c { }",
}

// c07AfterLastToken: complete texts whose only fault is found after the last token has been read
// (symbol tables, name clashes, references checked by Parse): definitions named like the built-in
// types, definitions repeated or shadowed in an inner scope, clashing siblings, keys and uniques that
// name nothing, clashing prefixes.  Each must come back as a positioned error or as a tree.
func c07AfterLastToken() []string {
	hdr := "module m { namespace \"urn:m\"; prefix m; "
	var out []string
	add := func(body string) { out = append(out, hdr+body+" }") }
	for _, t := range []string{"binary", "bits", "boolean", "decimal64", "empty", "enumeration", "identityref", "instance-identifier", "int8", "int16", "int32", "int64",
		"leafref", "string", "uint8", "uint16", "uint32", "uint64", "union"} {
		add("typedef " + t + " { type int32; }")
		add("container c { typedef " + t + " { type string; } leaf l { type " + t + "; } }")
		add("grouping g { typedef " + t + " { type string; } }")
		add("grouping " + t + " { leaf l { type string; } } container c { uses " + t + "; }")
	}
	for _, kw := range []string{"typedef t { type string; }", "grouping g { leaf l { type string; } }", "identity i;", "feature f;", "extension e;",
		"leaf l { type string; }", "container c { }", "rpc r { }", "notification n { }"} {
		add(kw + " " + kw)                        // twice at top level
		add("container outer { " + kw + " " + kw + " }") // twice in one scope (where the keyword is allowed there)
		add(kw + " container outer { " + kw + " }") // inner scope shadows the outer definition
		add("container outer { container inner { " + kw + " } " + kw + " }")
	}
	add("list li { key k; leaf other { type string; } }")
	add("list li { key \"k k\"; leaf k { type string; } }")
	add("list li { key k; leaf k { type string; } unique \"nothing/there\"; }")
	add("list li { key k; leaf k { type empty; } }")
	add("list li { key k; container k { } }")
	add("import other { prefix m; }")
	add("import a { prefix p; } import b { prefix p; }")
	add("import m { prefix self; }")
	add("include m;")
	add("leaf l { type t; }")
	add("leaf l { type p:t; }")
	add("container c { uses nothing; }")
	add("leaf l { type string; if-feature nothing; }")
	add("identity i { base nothing; }")
	add("leaf l { type leafref { path \"../[\"; } }")
	add("leaf l { type string; must \"((\"; }")
	add("augment \"/nothing\" { leaf l { type string; } }")
	add("deviation \"/nothing\" { deviate not-supported; }")
	add("choice ch { default nothing; leaf a { type string; } }")
	add("leaf l { type enumeration { enum a; enum a; } }")
	add("leaf l { type enumeration { enum a { value 1; } enum b { value 1; } } }")
	add("leaf l { type bits { bit a { position 1; } bit b { position 1; } } }")
	add("leaf l { type union; }")
	add("leaf l { type enumeration; }")
	add("leaf l { type decimal64; }")
	add("leaf l { type identityref; }")
	add("leaf l { type leafref; }")
	// every keyword of YANG 1 and of YANG 1.1 (and the internal spellings of some), as a statement where it does
	// not belong, with and without an argument and a block: refused or kept as an unknown statement, never more
	for _, kw := range append(append([]string{}, yang.AllKeywords...), "action", "anydata", "modifier", "deviate-add", "deviate-delete", "deviate-replace", "deviate-not-supported",
		"opd:command", "opd:option", "opd:argument", "opd:augment", "unknown", "case-implicit", "tree", "root") {
		add(kw + " x;")
		add(kw + ";")
		add(kw + " x { }")
		add(kw + " invert-match { description d; }")
		add("leaf l { type string { pattern 'a' { " + kw + " invert-match; } } }")
		add("container c { " + kw + " x; " + kw + " y { " + kw + " z; } }")
		out = append(out, kw+" x;", kw+" x { "+kw+" y; }")
	}
	// revision dates: every field at and beyond its limits (the dates are compared with each other once the
	// module is complete), and texts that only look like dates
	for _, y := range []string{"0000", "1900", "2020", "2024", "9999"} {
		for _, mo := range []string{"00", "01", "02", "12", "13", "19", "20", "31", "99"} {
			for _, d := range []string{"00", "01", "28", "29", "30", "31", "32", "99"} {
				add("revision " + y + "-" + mo + "-" + d + ";")
			}
		}
	}
	for _, d := range []string{"2020-1-01", "20200101", "2020-01-01x", "-2020-01-01", "2020-01-01 ", "2020-01", "2020--01-01", "٢٠٢٠-٠١-٠١", "2020-0a-01", "2020-01-0b", "+020-01-01", "2020-+1-01", "2020-01--1", ""} {
		add("revision '" + d + "';")
		add("revision 2021-01-01; revision '" + d + "';")
	}
	add("revision 2020-01-01; revision 2021-01-01;")
	add("revision 2021-01-01; revision 2021-01-01;")
	add("revision 2021-01-01; revision 2020-13-01;")
	add("revision 2021-13-01; revision 2020-12-01;")
	add("import other { prefix o; revision-date 2020-13-41; }")
	// pattern arguments at and beyond the edge of what the regular expression compiler takes (the parser
	// wraps the pattern before compiling it: a text may be fine bare and broken wrapped, or the reverse)
	for _, pt := range []string{`\Qa.b`, `\Qa.b\E`, `a\`, `\`, `[`, `[a`, `(`, `)`, `a)(b`, `)(`, `(?P<n>`, `(?i`, `(?`, `x{2,1}`, `a{1001}`, `\pX`, `\p{`, `*`, `+?`, `a**`,
		`[[:foo:]]`, `\8`, `[z-a]`, `\xZZ`, `\x{110000}`, `a|`, `|`, `()`, `(|)`, `\E`, `\Q`, "a\x00b", "\xff"} {
		add("leaf l { type string { pattern '" + pt + "'; } }")
	}
	// arguments that the parser takes apart itself (names of a key or unique, parts of a range or length,
	// steps of a schema node identifier), with every kind of blank and near-blank between the parts
	for _, sep := range []string{" ", "  ", "\t", "\n", "\r", "\r\n", "\r\n   ", " \r", "\r ", "\r\r", "\n\r", "\f", "\v", "\u00a0", "\u2028", "\x00", ""} {
		q := func(a string) string { return "'" + a + "'" }
		add("list li { key " + q("a"+sep+"b") + "; leaf a { type string; } leaf b { type string; } }")
		add("list li { key " + q(sep+"a"+sep) + "; leaf a { type string; } }")
		add("list li { key a; leaf a { type string; } leaf b { type string; } leaf c { type string; } unique " + q("b"+sep+"c") + "; }")
		add("list li { key a; leaf a { type string; } container c { leaf d { type string; } } unique " + q("c/d"+sep) + "; }")
		add("leaf l { type int8 { range " + q("1"+sep+".."+sep+"2"+sep+"|"+sep+"5") + "; } }")
		add("leaf l { type string { length " + q("1"+sep+"|"+sep+"3..4") + "; } }")
		add("container c { leaf x { type string; } } augment " + q("/m:c"+sep) + " { leaf y { type string; } }")
		add("grouping g { container c { leaf x { type string; } } } container u { uses g { refine " + q("c"+sep+"/"+sep+"x") + " { default d; } } }")
		add("leaf l { type string; if-feature " + q("f"+sep) + "; } feature f;")
	}
	return out
}

type c07Plan struct {
	nPrefix, nEdit, nRandom int
}

func c07Seeds(seed int64, tier string) []string {
	seeds := append([]string{}, yang.SeedTexts...)
	n := tierN(tier, 8, 36)
	for i := 0; i < n; i++ {
		r := core.CaseRng(seed, "C07-seed", i)
		root := yang.GenGenericModule(r, r.Range(8, 40))
		lay := &yang.Layout{R: r, Quote: 1, Trivia: r.Intn(3), Boundary: -1, CRLF: r.Chance(1, 6)}
		if r.Chance(1, 4) {
			lay.Indent = "\t"
		}
		seeds = append(seeds, yang.Render(root, lay))
	}
	return seeds
}

type c07State struct {
	seeds   []string
	offsets []int // cumulative prefix counts
	total   int
}

var c07Cache = map[string]*c07State{}

func c07Get(seed int64, tier string) *c07State {
	k := fmt.Sprintf("%d/%s", seed, tier)
	if s, ok := c07Cache[k]; ok {
		return s
	}
	s := &c07State{seeds: c07Seeds(seed, tier)}
	for _, t := range s.seeds {
		s.offsets = append(s.offsets, s.total)
		s.total += len(t) + 1
	}
	c07Cache[k] = s
	return s
}

const c07PrefixBatch = 16

func (p *c07) layout(tier string, seed int64) (nPrefixBatches, nEdit, nRandom int) {
	s := c07Get(seed, tier)
	return (s.total + c07PrefixBatch - 1) / c07PrefixBatch, tierN(tier, 4000, 120000), tierN(tier, 2000, 60000)
}

func (p *c07) NumCases(tier string, seed int64) int {
	a, b, c := p.layout(tier, seed)
	return 1 + a + b + c
}

func (p *c07) inputs(tier string, seed int64, idx int) []string {
	if idx == 0 {
		ins := append([]string{}, c07Hostile...)
		// (a million open blocks: 5 MB that end inside the innermost block, and the same closed again)
		huge := strings.Repeat("x:a {", 1000000)
		ins = append(ins, huge, huge+strings.Repeat("}", 1000000))
		deep := strings.Repeat("x:a {", 10000)
		ins = append(ins, deep, deep+strings.Repeat("}", 10000), deep+strings.Repeat("}", 9999), deep+strings.Repeat("}", 10001),
			strings.Repeat("a ", 5000)+";", "a \""+strings.Repeat("x\n   ", 5000)+"\";", strings.Repeat("/* c */", 3000), strings.Repeat("a \"b\" + ", 2000)+"\"c\";")
		// (three million pieces of one concatenated argument: 9 MB, complete and cut off)
		chain := "x:a " + strings.Repeat("''+", 3000000)
		ins = append(ins, chain+"'';", chain, "x:a "+strings.Repeat("\"b\" + ", 10001)+"\"c\";", "x:a "+strings.Repeat("\"b\" + ", 9990)+"\"c\";")
		// multi-line strings whose opening quote stands far to the right, with continuation lines of every length
		// around that column (blanks, tabs, both)
		for _, col := range []int{7, 8, 9, 56, 62, 63, 64, 65, 66, 72, 100, 128, 255, 256, 257, 1000, 5000} {
			for _, ind := range []string{strings.Repeat(" ", col+8), strings.Repeat(" ", col), strings.Repeat(" ", col/2), strings.Repeat("\t", col/8+1), strings.Repeat("\t", col/8) + strings.Repeat(" ", col%8+1)} {
				ins = append(ins, strings.Repeat(" ", col)+"x:a \"first\n"+ind+"second\n"+ind+"\";", strings.Repeat(" ", col)+"x:a \"first\n"+ind+"second")
			}
		}
		// single tokens of sizes around powers of two up to a few megabytes: a quoted string, a single-quoted one, an
		// unquoted token, a run of blanks, a comment; in a complete text and in one that is cut off after the token
		for _, n := range []int{4095, 4096, 4097, 65535, 65536, 65537, 131072, 1<<20 + 1, 1<<22 + 3} {
			body := strings.Repeat("y", n)
			toks := []string{"\"" + body + "\"", "'" + body + "'", body, strings.Repeat(" ", n) + "v", "/*" + body + "*/ v"}
			if n <= 131072 {
				// (the time the parser takes for a quoted string grows faster than its number of lines)
				toks = append(toks, "\""+strings.Repeat("ab\n  ", n/5)+"\"")
			}
			for _, tok := range toks {
				ins = append(ins, "module m { namespace urn:m; prefix m; description "+tok+"; leaf l { type string; } }", "module m { description "+tok, "module m { description "+tok+"; leaf")
			}
		}
		// statements of 70 to 100 bytes that end in a character of two, three or four bytes, with what follows them
		// missing or wrong (messages quote the statement they are about)
		for n := 60; n <= 95; n++ {
			for _, ch := range []string{"é", "€", "😀", "x"} {
				arg := strings.Repeat("x", n) + ch
				ins = append(ins, "module m { reference "+arg+"\n}", "module m { must \""+arg+"\" { error-message e;", "module m { must \""+arg+"\" { error-message", "module m { description \""+arg+"\" description",
					"module m { container "+arg+" { leaf", "module m { x:e "+arg+" { y }")
			}
		}
		return append(ins, c07AfterLastToken()...)
	}
	idx--
	a, b, _ := p.layout(tier, seed)
	s := c07Get(seed, tier)
	if idx < a {
		var ins []string
		for k := idx * c07PrefixBatch; k < (idx+1)*c07PrefixBatch && k < s.total; k++ {
			// locate seed
			si := len(s.offsets) - 1
			for si > 0 && s.offsets[si] > k {
				si--
			}
			ins = append(ins, s.seeds[si][:k-s.offsets[si]])
		}
		return ins
	}
	idx -= a
	r := core.CaseRng(seed, "C07", idx)
	if idx < b {
		base := core.Pick(r, s.seeds)
		var ins []string
		for i := 0; i < 8; i++ {
			k := r.Intn(len(base) + 1)
			c := string(core.Pick(r, []byte("{};\"'+/*\\\r\n \t:")))
			switch r.Intn(4) {
			case 0:
				if k < len(base) {
					ins = append(ins, base[:k]+base[k+1:])
				}
			case 1:
				ins = append(ins, base[:k]+c+base[k:])
			case 2:
				if k < len(base) {
					ins = append(ins, base[:k]+c+base[k+1:])
				}
			default:
				// delete a structural byte: find the next one after k
				j := strings.IndexAny(base[k:], "{};\"'+")
				if j >= 0 {
					ins = append(ins, base[:k+j]+base[k+j+1:])
				}
			}
		}
		return ins
	}
	var ins []string
	for i := 0; i < 8; i++ {
		n := r.Intn(80)
		bs := make([]byte, n)
		for j := range bs {
			if r.Chance(1, 5) {
				bs[j] = byte(r.Intn(256))
			} else {
				bs[j] = core.Pick(r, []byte("ab m{};\"'+/*\\\n\t :x"))
			}
		}
		ins = append(ins, string(bs))
	}
	return ins
}

func (p *c07) Describe(tier string, seed int64, idx int) string {
	ins := p.inputs(tier, seed, idx)
	for i := range ins {
		ins[i] = core.Trunc(ins[i], 300)
	}
	return jsonStr(ins)
}

var gorHeader = regexp.MustCompile(`(?m)^goroutine (\d+) \[([^\]]*)\]:`)

// lexerGoroutines returns id -> state of the goroutines whose stack contains parse.(*lexer).run
func lexerGoroutines() map[int]string {
	buf := make([]byte, 1<<16)
	for {
		n := runtime.Stack(buf, true)
		if n < len(buf) {
			buf = buf[:n]
			break
		}
		buf = make([]byte, 2*len(buf))
	}
	out := map[int]string{}
	for _, g := range strings.Split(string(buf), "\n\n") {
		if !strings.Contains(g, "parse.(*lexer).run") {
			continue
		}
		if m := gorHeader.FindStringSubmatch(g); m != nil {
			id, _ := strconv.Atoi(m[1])
			out[id] = m[2]
		}
	}
	return out
}

var c07PosRe = regexp.MustCompile(`:(\d+):(\d+)`)

func c07CheckOne(name, text string, res *core.CaseResult) {
	res.Ev("inputs_evaluated", 1)
	res.Key(text)
	before := lexerGoroutines()
	res.Ev("goroutine_snapshots", 1)
	parse.VerifLexStepsReset()
	var tree *parse.Tree
	var err error
	pan, msg, stack := core.Guard(func() { tree, err = parse.Parse(name, text, nil) })
	steps := parse.VerifLexStepsReset()
	res.Ev("lexer_steps", steps)
	in := text
	if pan {
		res.Fail("C07/panic/"+core.TopRepoFrame(stack), in, "panic: "+msg)
	} else if err != nil {
		res.Ev("parse_errors_checked", 1)
		et := err.Error()
		i := strings.Index(et, name)
		if i < 0 {
			res.Fail("C07/error-does-not-name-the-input", in, et)
		} else {
			m := c07PosRe.FindStringSubmatch(et[i+len(name):])
			if m == nil || !strings.HasPrefix(et[i+len(name):], m[0]) {
				res.Fail("C07/error-without-line-and-column", in, et)
			} else {
				line, _ := strconv.Atoi(m[1])
				col, _ := strconv.Atoi(m[2])
				lines := strings.Split(text, "\n")
				if line < 1 || line > len(lines) {
					res.Fail("C07/error-line-outside-input", in, fmt.Sprintf("line %d of %d: %s", line, len(lines), et))
				} else if col < 0 || col > len(lines[line-1]) {
					res.Fail("C07/error-column-outside-line", in, fmt.Sprintf("column %d, line %d has %d bytes: %s", col, line, len(lines[line-1]), et))
				}
			}
		}
		if tree != nil && tree.Root != nil {
			res.Ev("errors_with_root_set", 1)
		}
	} else {
		res.Ev("parses_accepted", 1)
		if tree == nil || tree.Root == nil {
			res.Fail("C07/nil-error-without-root", in, "Parse returned a nil error and no root statement")
		}
	}
	// goroutine monitor
	stableBlocked := 0
	var leaked map[int]string
	deadline := time.Now().Add(200 * time.Millisecond)
	for attempt := 0; ; attempt++ {
		after := lexerGoroutines()
		res.Ev("goroutine_snapshots", 1)
		leaked = map[int]string{}
		allBlocked := true
		for id, st := range after {
			if _, old := before[id]; !old {
				leaked[id] = st
				if !strings.HasPrefix(st, "chan send") && !strings.HasPrefix(st, "chan receive") && !strings.HasPrefix(st, "select") {
					allBlocked = false
				}
			}
		}
		if len(leaked) == 0 {
			break
		}
		if allBlocked {
			stableBlocked++
			if stableBlocked >= 3 {
				break
			}
		} else {
			stableBlocked = 0
		}
		if time.Now().After(deadline) {
			break
		}
		runtime.Gosched()
		if attempt > 20 {
			time.Sleep(50 * time.Microsecond)
		}
	}
	if len(leaked) > 0 {
		if stableBlocked >= 3 {
			cls := "C07/goroutine-leak/after-error"
			if err == nil && !pan {
				cls = "C07/goroutine-leak/after-success"
			}
			res.Fail(cls, in, fmt.Sprintf("lexer goroutines started by this call and still blocked afterwards: %v (err=%v)", leaked, err))
		} else {
			res.Ev("goroutine_still_runnable_after_200ms_inconclusive", 1)
		}
	}
}

func (p *c07) Run(tier string, seed int64, idx int) core.CaseResult {
	var res core.CaseResult
	ins := p.inputs(tier, seed, idx)
	a, _, _ := p.layout(tier, seed)
	for i, s := range ins {
		if idx >= 1 && idx <= a {
			res.Ev("prefix_inputs", 1)
		}
		name := fmt.Sprintf("vf%d_%d.yang", idx, i)
		if (idx+i)%4 == 0 {
			// the name of the input is arbitrary text as well
			name = fmt.Sprintf("vf%d %%20_%%s%%d_%d.yang", idx, i)
		}
		c07CheckOne(name, s, &res)
	}
	if idx%211 == 0 && len(ins) > 0 {
		res.Sample = map[string]interface{}{"batch": idx, "inputs": len(ins), "one": core.Trunc(ins[len(ins)/2], 200)}
	}
	return res
}

func (p *c07) Witness(raw json.RawMessage) []core.Failure {
	var w struct {
		Text string `json:"text"`
	}
	json.Unmarshal(raw, &w)
	var res core.CaseResult
	c07CheckOne("witness.yang", w.Text, &res)
	return res.Fails
}
