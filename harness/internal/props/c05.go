package props

import (
	"context"
	"encoding/json"
	"fmt"
	"strings"

	"github.com/sdcio/yang-parser/xpath"
	"github.com/sdcio/yang-parser/xpath/grammars/expr"
	"github.com/sdcio/yang-parser/xpath/grammars/leafref"
	"github.com/sdcio/yang-parser/xpath/grammars/path_eval"

	"verifharness/internal/core"
	"verifharness/internal/xp"
	"verifharness/internal/xpmock"
)

// C05: XPath compilation and execution are total and report failures
// faithfully.  Monitors: panic/return monitor around the three compilers and
// around Run and every result accessor; error-text checker; fault-injecting
// mock tree failing the k-th callback for every k (exhaustive in k).
type c05 struct{ base }

func init() {
	core.Register(&c05{base: base{
		id:    "C05",
		level: "fault_enumeration",
		rule: "compile stream: hostile list, random byte strings (length 0..64), valid sentences with byte edits and truncations at every byte, each given to the expr, path_eval and leafref " +
			"compilers (no panic, exactly one of machine/error, error text quotes the expression and marks a position inside it); every machine obtained is run on a mock tree and on a context " +
			"without data tree (value or error, never neither, no panic from Run or any accessor). Fault stream: for each generated machine (scalar expressions over leaf operands, location " +
			"paths with predicates/current()/deref()) the fault-free run counts the data-tree callbacks n, then n runs fail callback k=1..n with a sentinel error (exhaustive in k): the result " +
			"must carry the sentinel, no accessor may return a value, and no further callback may be made after the failure; distinct_nontrivial = distinct (machine listing, fault position) pairs plus distinct compile inputs",
		block: 32,
		assumptions: []string{
			"only data-tree callbacks that return an error are injected; a tree that panics or blocks is outside the statement",
			"'carries that error' is decided as errors.Is(result error, sentinel) or the sentinel text being contained in the result error text",
			"BreadthSearch is not reachable through any of the three grammars at this commit (no lexer produces COUNTFUNC) and is therefore not injected",
		},
		minEvents: []string{"compile_calls", "compile_errors_checked", "machines_run", "faulted_runs", "faults_at_Navigate", "faults_at_GetValue", "faults_at_FollowLeafRef"},
	}})
}

type c05Layout struct{ nCompile, nFault int }

func c05GetLayout(tier string) c05Layout {
	if tier == "thorough" {
		return c05Layout{nCompile: 60000, nFault: 150000}
	}
	return c05Layout{nCompile: 2500, nFault: 6000}
}

func (p *c05) NumCases(tier string, seed int64) int {
	l := c05GetLayout(tier)
	return 1 + l.nCompile + l.nFault
}

func (p *c05) Describe(tier string, seed int64, idx int) string {
	l := c05GetLayout(tier)
	switch {
	case idx == 0:
		return "C05 hostile list through all three compilers"
	case idx <= l.nCompile:
		return jsonStr(c05CompileInputs(core.CaseRng(seed, "C05", idx)))
	default:
		e := c05FaultExpr(core.CaseRng(seed, "C05", idx))
		return xp.Render(e, xp.RenderFull)
	}
}

// ---------------------------------------------------------------- compile totality

type c05Compiler struct {
	name string
	fn   func(string) (*xpath.Machine, error)
}

var c05Compilers = []c05Compiler{
	{"expr", func(s string) (*xpath.Machine, error) { return expr.NewExprMachine(s, c04Pfx) }},
	{"path_eval", func(s string) (*xpath.Machine, error) { return path_eval.NewPathEvalMachine(s, c04Pfx, "mod:1") }},
	{"leafref", func(s string) (*xpath.Machine, error) { return leafref.NewLeafrefMachine(s, c04Pfx) }},
	{"expr-nil-map", func(s string) (*xpath.Machine, error) { return expr.NewExprMachine(s, nil) }},
	{"leafref-nil-map", func(s string) (*xpath.Machine, error) { return leafref.NewLeafrefMachine(s, nil) }},
	{"path_eval-nil-map", func(s string) (*xpath.Machine, error) { return path_eval.NewPathEvalMachine(s, nil, "mod:1") }},
	// functions outside the table: allowed through a checker the caller supplies (it knows names that start with
	// "site-"), or through the custom function table
	{"path_eval-fn-checker", func(s string) (*xpath.Machine, error) {
		return path_eval.NewPathEvalMachineWithCustomFns(s, c04Pfx, "mod:1", c05FnChecker)
	}},
	{"path_eval-nil-fn-checker", func(s string) (*xpath.Machine, error) {
		return path_eval.NewPathEvalMachineWithCustomFns(s, c04Pfx, "mod:1", nil)
	}},
	{"expr-custom-functions", func(s string) (*xpath.Machine, error) { return expr.NewExprMachineWithCustomFunctions(s, c04Pfx) }},
}

func c05FnChecker(name string) (*xpath.Symbol, bool) {
	if strings.HasPrefix(name, "site-") {
		return xpath.NewDummyFnSym(name), true
	}
	return nil, false
}

// errorTextOK: the text quotes the expression and contains "<left> [X] <right>" with left+right == expr.
func c05ErrorTextOK(text, src string) string {
	if !strings.Contains(text, src) {
		return "error text does not quote the expression"
	}
	const lead = "Got to approx [X] in '"
	i := strings.Index(text, lead)
	if i < 0 {
		return "error text has no position marker"
	}
	rest := text[i+len(lead):]
	j := strings.LastIndex(rest, "'")
	if j < 0 {
		return "error text position marker is not terminated"
	}
	body := rest[:j]
	// body = left + " [X] " + right
	for k := 0; k+5 <= len(body); k++ {
		if body[k:k+5] == " [X] " && body[:k]+body[k+5:] == src {
			return ""
		}
	}
	return "the parts left and right of the [X] marker do not concatenate to the expression: " + body
}

func c05Compile(s string, res *core.CaseResult) {
	for _, c := range c05Compilers {
		var m *xpath.Machine
		var err error
		res.Ev("compile_calls", 1)
		res.Ev("inputs_evaluated", 1)
		pan, msg, stack := core.Guard(func() { m, err = c.fn(s) })
		in := jsonStr(map[string]string{"grammar": c.name, "input": s})
		res.Key(c.name + ":" + s)
		if pan {
			res.Fail("C05/compile-panic/"+core.TopRepoFrame(stack), in, "panic: "+msg)
			continue
		}
		if (m == nil) == (err == nil) {
			res.Fail("C05/compile-returns-neither-or-both", in, fmt.Sprintf("machine nil=%v, err=%v", m == nil, err))
			continue
		}
		// the same text once more: what a compilation returns does not depend on earlier compilations
		var m2 *xpath.Machine
		var err2 error
		if pan2, msg2, _ := core.Guard(func() { m2, err2 = c.fn(s) }); pan2 {
			res.Fail("C05/compile-panic/second-compilation", in, "panic: "+msg2)
			continue
		}
		res.Ev("texts_compiled_a_second_time", 1)
		if (err == nil) != (err2 == nil) || (m2 == nil) == (err2 == nil) || (err != nil && err.Error() != err2.Error()) {
			res.Fail("C05/second-compilation-of-the-same-text-differs/"+c.name, in, fmt.Sprintf("first: machine nil=%v err=%v\nsecond: machine nil=%v err=%v", m == nil, err, m2 == nil, err2))
			continue
		}
		if err != nil {
			if s != "" {
				res.Ev("compile_errors_checked", 1)
				if why := c05ErrorTextOK(err.Error(), s); why != "" {
					res.Fail("C05/compile-error-text", in, why+"\n"+core.Trunc(err.Error(), 600))
				}
			}
			continue
		}
		// (d) every machine that compiles, however odd, must run to value-or-error
		c05RunTotal(m, in, c.name, res)
		if c.name == "expr" {
			c05RunCancelled(m, in, len(in)%len(c05Trees), res)
		}
	}
}

func c05Accessors(o xpmock.Outcome) (anyValue bool, allErr bool) {
	anyValue = o.NumErr == "" || o.StrErr == "" || o.BoolErr == ""
	allErr = o.NumErr != "" && o.StrErr != "" && o.BoolErr != ""
	return
}

// data trees every machine is run on: what a path denotes decides which operand shapes meet
// (single values, multi-valued leaf-lists on both sides of an operator, absent nodes, empty values)
var c05Trees = []struct {
	name      string
	answer    func(string) xp.Answer
	nilValues bool
}{
	{"leaf-per-path", c02Answer, false},
	{"nil-values-without-error", c02Answer, true},
	{"leaf-lists-everywhere", func(string) xp.Answer { return xp.Answer{Kind: xp.AnsLeafList, Vals: []string{"1", "x", "3"}} }, false},
	{"absent-or-leaf-list", c06Tables[2], false},
	{"nothing-exists", func(string) xp.Answer { return xp.Answer{Kind: xp.AnsAbsent} }, false},
	{"empty-values", func(p string) xp.Answer {
		if core.Hash(p)%2 == 0 {
			return xp.Answer{Kind: xp.AnsLeaf, Vals: []string{""}}
		}
		return xp.Answer{Kind: xp.AnsLeafList, Vals: []string{}}
	}, false},
}

func c05RunTotal(m *xpath.Machine, in, grammar string, res *core.CaseResult) {
	res.Ev("machines_run", 1)
	modes := []string{"no-tree"}
	for _, t := range c05Trees {
		modes = append(modes, "mock-tree/"+t.name)
	}
	for mi, mode := range modes {
		var o xpmock.Outcome
		pan, msg, stack := core.Guard(func() {
			if mi > 0 {
				res.Ev("runs_on_tree_"+c05Trees[mi-1].name, 1)
				o = xpmock.Run(m, &xpmock.Tree{Default: c05Trees[mi-1].answer, NilValues: c05Trees[mi-1].nilValues})
			} else {
				o = c05RunNoTree(m)
			}
		})
		if pan {
			res.Fail("C05/run-panic/"+core.TopRepoFrame(stack), in, mode+": panic: "+msg)
			continue
		}
		if o.Panic != "" {
			res.Fail("C05/run-panic/escaped-Run", in, mode+": "+o.Panic)
			continue
		}
		for _, e := range []string{o.NumErr, o.StrErr, o.BoolErr, o.NodeSetErr} {
			if strings.HasPrefix(e, "panic: ") {
				res.Fail("C05/accessor-panic", in, mode+": "+e)
			}
		}
		anyValue, allErr := c05Accessors(o)
		if o.Err == "" && !anyValue {
			res.Fail("C05/run-neither-value-nor-error", in, fmt.Sprintf("%s: GetError()==nil but every accessor fails: %q %q %q", mode, o.NumErr, o.StrErr, o.BoolErr))
		}
		if o.Err != "" && !allErr {
			res.Fail("C05/run-error-and-value", in, fmt.Sprintf("%s: GetError()=%q but an accessor returned a value", mode, o.Err))
		}
	}
}

// c05RunCancelled: the Go context given to the run is cancelled before the run or at its k-th data-tree
// callback.  Whatever the library makes of that, the run still ends with a value or an error.
func c05RunCancelled(m *xpath.Machine, in string, ti int, res *core.CaseResult) {
	clean := &xpmock.Tree{Default: c05Trees[ti].answer}
	xpmock.Run(m, clean)
	n := clean.NCalls
	for k := 0; k <= n && k <= 6; k++ {
		gctx, cancel := context.WithCancel(context.Background())
		t := &xpmock.Tree{Default: c05Trees[ti].answer}
		if k == 0 {
			cancel()
		} else {
			kk := k
			t.OnCall = func(i int) {
				if i == kk {
					cancel()
				}
			}
		}
		var o xpmock.Outcome
		pan, msg, stack := core.Guard(func() { o = xpmock.RunCtx(gctx, m, t) })
		cancel()
		res.Ev("runs_with_a_cancelled_go_context", 1)
		where := fmt.Sprintf("tree %s, Go context cancelled at callback %d of %d (0 = before the run)", c05Trees[ti].name, k, n)
		switch {
		case pan || o.Panic != "":
			res.Fail("C05/cancelled-context/panic/"+core.TopRepoFrame(stack), in, where+": "+msg+o.Panic)
		default:
			anyValue, allErr := c05Accessors(o)
			if o.Err == "" && !anyValue && o.NodeSetErr != "" {
				res.Fail("C05/cancelled-context/neither-value-nor-error", in, fmt.Sprintf("%s: GetError()==nil but every accessor fails: %q %q %q %q", where, o.NumErr, o.StrErr, o.BoolErr, o.NodeSetErr))
			}
			if o.Err != "" && !allErr {
				res.Fail("C05/cancelled-context/error-and-value", in, fmt.Sprintf("%s: GetError()=%q but an accessor returned a value", where, o.Err))
			}
		}
	}
}

func c05RunNoTree(m *xpath.Machine) (o xpmock.Outcome) {
	res := xpath.NewCtxFromMach(m, nil).Run()
	if e := res.GetError(); e != nil {
		o.Err = e.Error()
	}
	get := func(f func() error) string {
		var s string
		pan, msg, _ := core.Guard(func() {
			if err := f(); err != nil {
				s = err.Error()
			}
		})
		if pan {
			return "panic: " + msg
		}
		return s
	}
	o.NumErr = get(func() error { _, err := res.GetNumResult(); return err })
	o.StrErr = get(func() error { _, err := res.GetLiteralResult(); return err })
	o.BoolErr = get(func() error { _, err := res.GetBoolResult(); return err })
	return o
}

// c05Endings: texts that stop inside a token that needs a look-ahead, with and without blanks before it.
var c05Endings = func() []string {
	var out []string
	for _, head := range []string{"a", "../pfx", "a = b", "count(a)", "/a/b[k = 1]", "1", "'s'", "pfx:a"} {
		for _, sep := range []string{"", " ", "\t", "\n", "  "} {
			for _, tail := range []string{":", "::", ": ", ":a", ".", "..", "/", "//", "!", "!=", "<", "<=", ">", "o", "or", "an", "and", "di", "div", "mo", "mod", "*", "|", "[", "(", "@", "$", "-", "+", "=", ",", "'", "\""} {
				out = append(out, head+sep+tail)
			}
		}
	}
	return out
}()

func c05CompileInputs(r *core.Rng) []string {
	var out []string
	for i := 0; i < 3; i++ {
		out = append(out, core.Pick(r, c05Endings))
	}
	// calls of functions that are in no table
	out = append(out, core.Pick(r, []string{"site-fn(../a) = 1", "site-fn()", "other-fn(../a) = 1", "site-fn(1, 'x') and count(a) > 0", "count(site-x(a)) + nosuchfn(1)",
		"site-(1)", "site-fn(site-fn(site-fn(a)))", "text() and site-fn()", "/a[site-k(.) = 1]/b"}))
	// long texts that fail near their end, near their start or in the middle (messages quote the text around the position)
	{
		unit := core.Pick(r, []string{"../a + ", "count(../b) - ", "/r/l[k = 'v']/c * ", "../", "a/b/", "1 + "})
		long := strings.Repeat(unit, 1+r.Range(40, 400)/len(unit))
		bad := core.Pick(r, []string{"1 = 7 )", "'abc", "nosuch(", "= ", "1 1", "]", "a b", "$v", "1.2.3", "@", "\xff", "a[", ""})
		out = append(out, long+bad, bad+" "+long+"1", ") = "+long+"1", long+bad+" "+long+"1", long+"1 "+bad)
		res := long + "1"
		k := r.Intn(len(res) + 1)
		out = append(out, res[:k]+bad+res[k:])
	}
	// random bytes
	for i := 0; i < 4; i++ {
		n := r.Intn(65)
		b := make([]byte, n)
		for j := range b {
			switch r.Intn(4) {
			case 0:
				b[j] = byte(r.Intn(256))
			default:
				b[j] = core.Pick(r, []byte("ab1.'\"()[]/:*@,|=<>!+- \t$e\xff\xc3\xa9"))
			}
		}
		out = append(out, string(b))
	}
	// a valid sentence with byte edits
	var base string
	if r.Chance(1, 3) {
		base = joinToks(r, c04LrSentence(r))
	} else {
		base = joinToks(r, c04Sentence(r))
	}
	if len(base) > 60 {
		base = base[:60]
	}
	out = append(out, base)
	for i := 0; i <= len(base); i++ {
		out = append(out, base[:i])
	}
	for i := 0; i < 6 && len(base) > 0; i++ {
		k := r.Intn(len(base) + 1)
		out = append(out, base[:k]+string([]byte{byte(r.Intn(256))})+base[k:])
		if k < len(base) {
			out = append(out, base[:k]+"\xff"+base[k+1:])
			// look-ahead positions: operator characters followed by a bad byte
			out = append(out, base[:k]+string(core.Pick(r, []byte("<>!/.:*")))+"\xff"+base[k:])
		}
	}
	// an odd character put into the sentence, inside or beside a name
	for i := 0; i < 3 && len(base) > 0; i++ {
		k := r.Intn(len(base) + 1)
		out = append(out, base[:k]+core.Pick(r, c05OddRunes)+base[k:])
	}
	return out
}

// characters whose lower or upper case form has another length in UTF-8 (U+212A, U+212B,
// U+2126, U+1E9E, U+0130, U+0131, U+017F, U+023A, U+023E, U+FB00, U+00DF, U+0149), edges of
// the XML name classes, combining marks, format characters, non-characters, planes 1 and 14
var c05OddRunes = []string{"\u212a", "\u212b", "\u2126", "\u1e9e", "\u0130", "\u0131", "\u017f", "\u023a", "\u023e", "\ufb00", "\u00df", "\u0149",
	"\u00b7", "\u0387", "\u0300", "\u036f", "\u203f", "\u2040", "\u200c", "\u200d", "\u00c0", "\u00d7", "\u00f7", "\u037e", "\u2070", "\u218f", "\u2c00", "\u2fef",
	"\u3001", "\ud7ff", "\uf900", "\ufdcf", "\ufdd0", "\ufdf0", "\ufffd", "\ufffe", "\uffff", "\U00010000", "\U000effff", "\U000f0000", "\U0010ffff", "\u0085", "\u2028", "\ufeff"}

// ---------------------------------------------------------------- fault enumeration

func c05FaultExpr(r *core.Rng) *xp.Node {
	switch r.Intn(3) {
	case 0:
		cfg := &xp.GenCfg{LeafNames: c01LeafNames}
		return xp.GenExpr(r, xp.Type(r.Intn(3)), r.Range(1, 3), cfg)
	default:
		return c02GenExpr(r)
	}
}

func c05Fault(e *xp.Node, res *core.CaseResult) {
	src := xp.Render(e, xp.RenderFull)
	m, err := expr.NewExprMachine(src, c02PfxMap)
	if err != nil {
		return // acceptance is C04's subject
	}
	listing := m.PrintMachine()
	for ti := range c05Trees {
		c05FaultOnTree(m, src, listing, ti, res)
	}
}

func c05FaultOnTree(m *xpath.Machine, src, listing string, ti int, res *core.CaseResult) {
	mk := func() *xpmock.Tree { return &xpmock.Tree{Default: c05Trees[ti].answer} }
	clean := mk()
	o0 := xpmock.Run(m, clean)
	n := clean.NCalls
	res.Ev("fault_free_runs", 1)
	if o0.Err != "" {
		// A fault-free run that errors (type errors such as union of literals) is fine for C05.
		res.Ev("fault_free_runs_with_run_error", 1)
	}
	for k := 1; k <= n; k++ {
		t := mk()
		t.FailAt = k
		// (every other fault position with the debug trace on: it is built while the run fails)
		t.Debug = (k+ti)%2 == 0
		if t.Debug {
			res.Ev("faulted_runs_with_debug_trace", 1)
		}
		// The Go context the caller hands in is none of the tree's business: whether it is absent, already
		// done, or cancelled while the failing callback runs, the error the tree reported is what the run carries.
		var gctx context.Context
		cancel := func() {}
		gmode := "live"
		switch (k + 2*ti + len(src)) % 4 {
		case 0:
			gctx = context.Background()
		case 1:
			gmode = "nil"
		case 2:
			gmode = "cancelled-before-the-run"
			gctx, cancel = context.WithCancel(context.Background())
			cancel()
		case 3:
			gmode = "cancelled-inside-the-failing-callback"
			gctx, cancel = context.WithCancel(context.Background())
			kk, cc := k, cancel
			t.OnCall = func(i int) {
				if i == kk {
					cc()
				}
			}
		}
		res.Ev("faulted_runs_go_context_"+gmode, 1)
		var o xpmock.Outcome
		pan, msg, stack := core.Guard(func() { o = xpmock.RunCtx(gctx, m, t) })
		cancel()
		res.Ev("faulted_runs", 1)
		res.Ev("inputs_evaluated", 1)
		res.Key(fmt.Sprintf("%s#%d@%d", listing, k, ti))
		in := jsonStr(map[string]interface{}{"expr": src, "fail_callback": k, "of": n, "tree": c05Trees[ti].name, "go_context": gmode})
		if pan || o.Panic != "" {
			res.Fail("C05/fault/panic/"+core.TopRepoFrame(stack), in, msg+o.Panic)
			continue
		}
		failedCall := ""
		if k-1 < len(t.Calls) {
			// t.Calls also records GetSdcpbPath (never failing); find the k-th failing-capable call
			cnt := 0
			for _, c := range t.Calls {
				if !strings.HasPrefix(c, "GetSdcpbPath") {
					cnt++
					if cnt == k {
						failedCall = strings.Fields(c)[0]
					}
				}
			}
		}
		res.Ev("faults_at_"+failedCall, 1)
		carried := o.ErrIs || strings.Contains(o.Err, xpmock.ErrSentinel.Error())
		_, allErr := c05Accessors(o)
		switch {
		case o.Err == "":
			res.Fail("C05/fault/"+failedCall+"/error-lost-value-returned", in,
				fmt.Sprintf("callback %d (%s) failed but the run reports no error (result kind %s)", k, failedCall, o.Kind))
		case !carried:
			res.Fail("C05/fault/"+failedCall+"/error-replaced", in,
				fmt.Sprintf("callback %d (%s) failed with the sentinel, the result carries %q instead", k, failedCall, core.Trunc(o.Err, 200)))
		case !allErr:
			res.Fail("C05/fault/"+failedCall+"/value-with-error", in, "an accessor returned a value although the run failed")
		default:
			// every accessor reports the tree's error, not an unrelated internal one
			for _, a := range [][2]string{{"GetNumResult", o.NumErr}, {"GetLiteralResult", o.StrErr}, {"GetBoolResult", o.BoolErr}, {"GetNodeSetResult", o.NodeSetErr}} {
				res.Ev("accessor_errors_compared", 1)
				if !strings.Contains(a[1], xpmock.ErrSentinel.Error()) {
					res.Fail("C05/fault/"+failedCall+"/accessor-reports-another-error/"+a[0], in,
						fmt.Sprintf("callback %d (%s) failed with the sentinel, %s reports %q", k, failedCall, a[0], core.Trunc(a[1], 200)))
				}
			}
		}
		if t.CallsAfterFailure > 0 {
			res.Fail("C05/fault/"+failedCall+"/execution-continued-after-failure", in,
				fmt.Sprintf("%d further data-tree callbacks after the failing one: %v", t.CallsAfterFailure, t.Calls))
		}
	}
}

func (p *c05) Run(tier string, seed int64, idx int) core.CaseResult {
	var res core.CaseResult
	l := c05GetLayout(tier)
	r := core.CaseRng(seed, "C05", idx)
	switch {
	case idx == 0:
		for _, s := range c04Hostile {
			c05Compile(s, &res)
		}
		for _, s := range c04LrHostile {
			c05Compile(s, &res)
		}
		for _, s := range []string{"<\xff", ">\xff", "!\xff", "a\xff", "/\xff", ".\xff", ":\xff", "a:\xff", "*\xff", "1\xff", "'\xff", "(\xff", "a[\xff", "a \xff", "\xff\xff\xff", "\xef\x80\x81", "<\xef\x80\x81"} {
			c05Compile(s, &res)
		}
		// names made of characters whose case mappings change the length of the text, of
		// characters at the edges of the name classes and of non-characters, in every position
		// of a path a name can take
		for _, u := range c05OddRunes {
			for _, t := range []string{"", "a", "ab"} {
				n := u + t
				for _, s := range []string{n, t + u, "../" + n, "/a/" + n + "/b", "../p:" + n, n + ":a", "../" + n + ":" + n, "../if[n = current()/../" + n + "]/n",
					"/a[" + n + " = 1]/b", n + "(1)", "'" + n + "' = " + n, "deref(../" + n + ")/../x", "@" + n, "$" + n, n + "::a"} {
					c05Compile(s, &res)
				}
			}
		}
		res.Sample = map[string]interface{}{"stream": "hostile list x {expr, path_eval, leafref}"}
	case idx <= l.nCompile:
		ins := c05CompileInputs(r)
		for _, s := range ins {
			c05Compile(s, &res)
		}
		if idx%401 == 0 {
			res.Sample = map[string]interface{}{"stream": "compile totality", "inputs": len(ins), "one": ins[len(ins)/2]}
		}
	default:
		e := c05FaultExpr(r)
		c05Fault(e, &res)
		if idx%997 == 0 {
			res.Sample = map[string]interface{}{"stream": "fault enumeration", "expr": xp.Render(e, xp.RenderFull), "faulted_runs": res.Events["faulted_runs"]}
		}
	}
	return res
}

func (p *c05) Witness(raw json.RawMessage) []core.Failure {
	var w struct {
		Input string `json:"input"`
	}
	json.Unmarshal(raw, &w)
	var res core.CaseResult
	c05Compile(w.Input, &res)
	return res.Fails
}
