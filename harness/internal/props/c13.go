package props

import (
	"regexp"
	"encoding/json"
	"fmt"
	"math/big"
	"strings"

	"github.com/sdcio/yang-parser/schema"

	"verifharness/internal/core"
	"verifharness/internal/yang"
)

// C13: derived types narrow their base and inherit its default.
// Oracle: R-TYPE (exact value-space model) on the generator's typedef chain.
type c13 struct{ base }

func init() {
	core.Register(&c13{base: base{
		id: "C13",
		rule: "cases = typedef chains of length 0-4 ending in a leaf, over int8..uint64, decimal64 (fraction-digits 1-18), string (length and pattern lists), enumeration and boolean; " +
			"each level may restrict (ranges/lengths with 1-4 parts, min/max keywords, adjacent integer parts, single values) and may give a default; 40% of the cases inject one defect " +
			"(non-subset part incl. a part in a gap of the base, descending parts, touching parts, reversed bounds, restriction of a kind that does not apply, inherited or own default outside the final set); " +
			"checked: compile verdict; for accepted chains Type.Validate on probes (every bound and bound +/- 1 unit of every level, 64-bit extremes, random values, strings of length bound-1/bound/bound+1 " +
			"inside and outside the patterns) against the intersection of all levels, and the leaf's default against the nearest definition; distinct_nontrivial = distinct module texts",
		block: 32,
		assumptions: []string{
			"reference value-space model R-TYPE (harness/internal/yang/rtype.go, math/big); patterns restricted to a regex subset on which XSD and RE2 agree, evaluated with Go regexp under explicit anchors",
			"not generated: decimal64 derived ranges spanning two adjacent base parts (contiguity is not defined for decimal64), range bounds with more fraction digits than the type has, union members (C16)",
			"probe values are written in canonical form (no sign prefix '+', no leading zeros); lexical variants are C16's subject",
		},
		minEvents: []string{"chains_compiled", "chains_accepted", "chains_with_injected_defect", "probe_validations", "defaults_checked"},
	}})
}

func (p *c13) NumCases(tier string, seed int64) int { return len(c13Fixed) + tierN(tier, 20000, 2400000) }

// c13Fixed: hand-written chains for restriction kinds and defaults the chain generator does not produce.
var c13Fixed = []struct {
	what, body string
	accept     bool
}{
	{"empty leaf", `leaf l { type empty; }`, true},
	{"leaf of type bits", `leaf l { type bits { bit a; bit b; } }`, true},
	{"typedef over bits", `typedef flags { type bits { bit a; bit b; } } leaf l { type flags; }`, true},
	{"typedef over a typedef over bits", `typedef f0 { type bits { bit a; } } typedef f1 { type f0; } leaf l { type f1; }`, true},
	{"range on a typedef over bits", `typedef flags { type bits { bit a; bit b; } } leaf l { type flags { range "1..2"; } }`, false},
	{"default on a leaf of type empty", `leaf l { type empty; default ""; }`, false},
	{"default on a typedef of type empty", `typedef e { type empty; default ""; } leaf l { type e; }`, false},
	{"decimal64 typedef narrowed by range", `typedef d { type decimal64 { fraction-digits 2; } } leaf l { type d { range "1..2"; } }`, true},
	{"fraction-digits repeated on a type derived from a decimal64 typedef", `typedef d { type decimal64 { fraction-digits 2; } } leaf l { type d { fraction-digits 2; } }`, false},
	{"other fraction-digits on a type derived from a decimal64 typedef", `typedef d { type decimal64 { fraction-digits 2; } } leaf l { type d { fraction-digits 4; range "1..2"; } }`, false},
	// (the typedefs of these texts stand in a container: a name with the module's own prefix is looked up from the
	// scope of the type statement outwards, like a bare name — RFC 6020 section 5.5)
	{"local typedef named with the module's own prefix", `typedef t { type uint8 { range "1..10"; } default 7; } leaf l { type m:t; }`, true},
	{"chain of local typedefs named with the module's own prefix", `typedef t0 { type string { length "1..4"; } } typedef t1 { type m:t0 { pattern "[a-z]*"; } } leaf l { type m:t1; }`, true},
	{"leaf default outside every member of a union typedef that has a default of its own", `typedef level { type union { type uint8 { range "0..50"; } type enumeration { enum auto; } } default "auto"; } leaf l { type level; default "75"; }`, false},
	{"leaf default inside a member of a union typedef", `typedef level { type union { type uint8 { range "0..50"; } type enumeration { enum auto; } } default "auto"; } leaf l { type level; default "40"; }`, true},
	{"default of a typedef derived from a union typedef, outside every member", `typedef level { type union { type uint8 { range "0..50"; } type enumeration { enum auto; } } } typedef inner { type level; default "off"; } leaf l { type inner; }`, false},
	{"fraction-digits on a typedef derived from a decimal64 typedef", `typedef d { type decimal64 { fraction-digits 2; } } typedef d2 { type d { fraction-digits 1; } } leaf l { type d2; }`, false},
}

type c13Level struct {
	rangeArg  string
	lengthArg string
	patterns  []string
	def       *string
	wrongKind *yang.Stmt // restriction of a kind that does not apply
}

type c13Chain struct {
	kind      string
	bits, fd  int
	builtin   string
	enums     []string
	levels    []c13Level // last = the leaf's type statement
	final     *yang.RType
	defect    string
	expDef    *string
	probes    []string
	levelSets [][]yang.Interval
}

func bi(v int64) *big.Int { return big.NewInt(v) }

func add(v *big.Int, d int64) *big.Int { return new(big.Int).Add(v, big.NewInt(d)) }

// pick a random value inside [lo,hi]
func randIn(r *core.Rng, lo, hi *big.Int) *big.Int {
	span := new(big.Int).Sub(hi, lo)
	if span.Sign() <= 0 {
		return new(big.Int).Set(lo)
	}
	// favour small offsets and the ends
	switch r.Intn(5) {
	case 0:
		return new(big.Int).Set(lo)
	case 1:
		return new(big.Int).Set(hi)
	}
	max := new(big.Int).Set(span)
	if max.BitLen() > 20 && r.Chance(2, 3) {
		max = big.NewInt(1 << 16)
	}
	off := new(big.Int).SetUint64(r.U64())
	off.Mod(off, new(big.Int).Add(max, big.NewInt(1)))
	return new(big.Int).Add(lo, off)
}

// subParts derives 1-3 ascending disjoint parts inside the merged base set.
func subParts(r *core.Rng, base []yang.Interval, mergeAdjacent bool) []yang.Interval {
	n := r.Range(1, 3)
	var out []yang.Interval
	// candidate host intervals: base parts (and merged neighbours for integers)
	hosts := base
	if mergeAdjacent {
		var merged []yang.Interval
		for _, iv := range base {
			if k := len(merged); k > 0 && add(merged[k-1].Hi, 1).Cmp(iv.Lo) >= 0 {
				merged[k-1].Hi = iv.Hi
				continue
			}
			merged = append(merged, yang.Interval{Lo: iv.Lo, Hi: iv.Hi})
		}
		hosts = merged
	}
	var cursor *big.Int
	for _, h := range hosts {
		if len(out) >= n {
			break
		}
		if r.Chance(1, 4) && len(hosts) > 1 {
			continue
		}
		lo := h.Lo
		if cursor != nil && cursor.Cmp(lo) > 0 {
			lo = cursor
		}
		if lo.Cmp(h.Hi) > 0 {
			continue
		}
		a := randIn(r, lo, h.Hi)
		b := randIn(r, a, h.Hi)
		out = append(out, yang.Interval{Lo: a, Hi: b})
		// (the next part leaves a gap, or — whole numbers only — starts right behind this one: adjacent parts
		// are disjoint, and a later restriction may reach across the seam)
		gap := int64(2)
		if mergeAdjacent && r.Chance(1, 3) {
			gap = 1
		}
		cursor = add(b, gap)
		// maybe a second part inside the same host
		if len(out) < n && cursor.Cmp(h.Hi) <= 0 && r.Bool() {
			a2 := randIn(r, cursor, h.Hi)
			b2 := randIn(r, a2, h.Hi)
			out = append(out, yang.Interval{Lo: a2, Hi: b2})
			cursor = add(b2, 2)
		}
	}
	if len(out) == 0 {
		h := hosts[0]
		out = append(out, yang.Interval{Lo: h.Lo, Hi: h.Hi})
	}
	return out
}

var c13Patterns = []string{"[a-z]*", "[a-c]+", "a.*", ".*z", "[a-z0-9]{0,8}", "(ab|cd)*", "[^0-9]*", "(ab)|(cd)", "(a+)|(z+)", "a|cd"}
// c13GapIndex: index i such that there is at least one value between parts i and i+1, or -1.
func c13GapIndex(parts []yang.Interval) int {
	for i := 0; i+1 < len(parts); i++ {
		if add(parts[i].Hi, 1).Cmp(parts[i+1].Lo) < 0 {
			return i
		}
	}
	return -1
}

var c13NumTok = regexp.MustCompile(`-?[0-9]+(\.[0-9]+)?`)

// c13BadBoundary rewrites one boundary of a range / length argument into a spelling that Go's number
// parsers take but the YANG grammar (integer-value / decimal-value) does not.
func c13BadBoundary(r *core.Rng, arg, kind string) (string, bool) {
	locs := c13NumTok.FindAllStringIndex(arg, -1)
	if len(locs) == 0 {
		return "", false
	}
	loc := locs[r.Intn(len(locs))]
	t := arg[loc[0]:loc[1]]
	neg := strings.HasPrefix(t, "-")
	var alts []string
	if kind == "decimal64" {
		alts = []string{t + "e0", "NaN", "Inf", "0x1p2"}
		if !neg {
			alts = append(alts, "+"+t)
		}
		if !strings.Contains(t, ".") {
			alts = append(alts, t+".")
		} else if strings.HasPrefix(t, "0.") {
			alts = append(alts, t[1:])
		}
	} else {
		if !neg {
			alts = append(alts, "+"+t, "0"+t)
			if v, ok := new(big.Int).SetString(t, 10); ok {
				alts = append(alts, "0x"+v.Text(16), "0o"+v.Text(8), "0b"+v.Text(2))
			}
		} else {
			alts = append(alts, "-0"+t[1:])
		}
		if len(t) >= 2 && !neg {
			alts = append(alts, t[:1]+"_"+t[1:])
		}
	}
	return arg[:loc[0]] + core.Pick(r, alts) + arg[loc[1]:], true
}

var c13ProbeStrings = []string{"", "a", "z", "abc", "az", "a1", "ab", "abab", "cd", "ABC", "aaaaaaaaaaaa", "zzzz", "a z", "9", "abz", "q"}

func c13Gen(seed int64, idx int) *c13Chain {
	r := core.CaseRng(seed, "C13", idx)
	ch := &c13Chain{}
	switch r.Intn(8) {
	case 0, 1, 2:
		ch.kind = "int"
		if r.Bool() {
			ch.kind = "uint"
		}
		ch.bits = core.Pick(r, []int{8, 16, 32, 64})
		ch.builtin = fmt.Sprintf("%s%d", map[string]string{"int": "int", "uint": "uint"}[ch.kind], ch.bits)
	case 3, 4:
		ch.kind = "decimal64"
		ch.fd = core.Pick(r, []int{1, 2, 3, 6, 9, 12, 18})
		ch.builtin = "decimal64"
	case 5, 6:
		ch.kind = "string"
		ch.builtin = "string"
	default:
		if r.Bool() {
			ch.kind, ch.builtin = "enumeration", "enumeration"
			ch.enums = []string{"one", "two", "three"}[:r.Range(1, 3)]
		} else {
			ch.kind, ch.builtin = "boolean", "boolean"
		}
	}
	nlev := r.Range(1, 5)
	inject := ""
	if r.Chance(2, 5) {
		inject = core.Pick(r, []string{"not-subset", "unordered", "overlap", "reversed", "wrong-kind", "default-outside", "not-subset", "default-outside", "boundary-syntax"})
	}
	injectAt := r.Intn(nlev)
	numeric := ch.kind == "int" || ch.kind == "uint" || ch.kind == "decimal64"
	var cur []yang.Interval
	if numeric {
		cur = yang.BuiltinRange(ch.kind, ch.bits)
		if ch.kind == "decimal64" {
			ch.bits = 64
			// exactness beyond 15 significant digits is C16's subject: keep the
			// generated bounds within +/-(10^15-1) units
			lim := new(big.Int).Sub(new(big.Int).Exp(bi(10), bi(15), nil), bi(1))
			cur = []yang.Interval{{Lo: new(big.Int).Neg(lim), Hi: lim}}
		}
	}
	hostIsArtificial := ch.kind == "decimal64" // until the first explicit range restriction
	trueSet := cur
	if numeric {
		trueSet = yang.BuiltinRange(ch.kind, ch.bits)
	}
	var levelTypes []*yang.RType
	curLens := []yang.Interval{{Lo: bi(0), Hi: new(big.Int).SetUint64(^uint64(0))}}
	lensRestricted := false
	var pats []string
	kw := func() bool { return r.Chance(1, 2) }
	kwInDefect := false // the injected defect may be written with the min / max keywords
	for lv := 0; lv < nlev; lv++ {
		var L c13Level
		defectHere := inject != "" && lv == injectAt
		switch {
		case numeric:
			if r.Chance(2, 3) || (defectHere && inject != "wrong-kind" && inject != "default-outside") {
				// keep decimal parts non-adjacent and small numbers readable
				parts := subParts(r, cur, ch.kind != "decimal64")
				baseMin, baseMax := cur[0].Lo, cur[len(cur)-1].Hi
				artificial := hostIsArtificial
				if artificial {
					// the generation window is not the type's range: no min/max keywords,
					// and leaving the window is not a defect
					if defectHere && inject == "not-subset" {
						defectHere, inject = false, ""
					}
				}
				if defectHere {
					switch inject {
					case "not-subset":
						if gi := c13GapIndex(cur); gi >= 0 && r.Chance(1, 2) {
							// one part that spans a gap of the base, written with numbers or with min / max
							last := len(cur) - 1
							switch r.Intn(5) {
							case 3:
								// a part that lies in the gap altogether: its upper end is below the next base part
								g := add(cur[gi].Hi, 1)
								parts = []yang.Interval{{Lo: g, Hi: g}}
							case 4:
								// a part that starts inside a base part and ends in the gap behind it
								parts = []yang.Interval{{Lo: randIn(r, cur[gi].Lo, cur[gi].Hi), Hi: add(cur[gi].Hi, 1)}}
							case 0:
								parts = []yang.Interval{{Lo: cur[0].Lo, Hi: cur[last].Hi}}
							case 1:
								parts = []yang.Interval{{Lo: cur[0].Lo, Hi: randIn(r, cur[gi+1].Lo, cur[gi+1].Hi)}}
							default:
								parts = []yang.Interval{{Lo: randIn(r, cur[gi].Lo, cur[gi].Hi), Hi: cur[last].Hi}}
							}
							kwInDefect = true
						} else if r.Bool() && baseMax.Cmp(yang.BuiltinRange(ch.kind, ch.bits)[0].Hi) < 0 {
							parts[len(parts)-1].Hi = add(baseMax, 1)
						} else if baseMin.Cmp(yang.BuiltinRange(ch.kind, ch.bits)[0].Lo) > 0 {
							parts[0].Lo = add(baseMin, -1)
						} else if len(cur) > 1 && add(cur[0].Hi, 1).Cmp(cur[1].Lo) < 0 {
							// a value in the gap between two base parts
							g := add(cur[0].Hi, 1)
							parts = []yang.Interval{{Lo: g, Hi: g}}
						} else {
							inject, ch.defect = "", ""
							defectHere = false
						}
					case "unordered":
						if len(parts) >= 2 {
							parts[0], parts[1] = parts[1], parts[0]
						} else {
							v := parts[0]
							if v.Lo.Cmp(v.Hi) < 0 {
								parts = []yang.Interval{{Lo: v.Hi, Hi: v.Hi}, {Lo: v.Lo, Hi: v.Lo}}
							} else {
								defectHere = false
								inject = ""
							}
						}
					case "overlap":
						v := parts[0]
						parts = []yang.Interval{{Lo: v.Lo, Hi: v.Hi}, {Lo: v.Hi, Hi: v.Hi}}
					case "reversed":
						// one part written hi..lo: the only part, the first, or a later one
						ri := r.Intn(len(parts))
						v := parts[ri]
						if v.Lo.Cmp(v.Hi) < 0 {
							if r.Bool() {
								parts = []yang.Interval{{Lo: v.Hi, Hi: v.Lo}}
							} else {
								parts[ri] = yang.Interval{Lo: v.Hi, Hi: v.Lo}
							}
						} else if v0 := parts[0]; v0.Lo.Cmp(v0.Hi) < 0 {
							parts = []yang.Interval{{Lo: v0.Hi, Hi: v0.Lo}}
						} else {
							defectHere = false
							inject = ""
						}
					}
					if defectHere && (inject == "not-subset" || inject == "unordered" || inject == "overlap" || inject == "reversed") {
						ch.defect = inject
					}
				}
				if artificial {
					baseMin, baseMax = nil, nil
				}
				L.rangeArg = yang.RangeArg(parts, ch.fd, baseMin, baseMax, func() bool { return (ch.defect == "" || kwInDefect) && kw() })
				if defectHere && inject == "boundary-syntax" && ch.defect == "" {
					if a, ok := c13BadBoundary(r, L.rangeArg, ch.kind); ok {
						L.rangeArg, ch.defect = a, "boundary-syntax"
					}
				}
				if ch.defect == "" {
					cur = parts
					trueSet = parts
					hostIsArtificial = false
				}
			}
		case ch.kind == "string":
			if r.Chance(1, 2) || (defectHere && inject != "wrong-kind" && inject != "default-outside") {
				small := []yang.Interval{}
				for _, iv := range curLens {
					hi := iv.Hi
					if hi.Cmp(bi(12)) > 0 {
						hi = bi(12)
					}
					if iv.Lo.Cmp(hi) <= 0 {
						small = append(small, yang.Interval{Lo: iv.Lo, Hi: hi})
					}
				}
				if len(small) == 0 {
					small = curLens
				}
				parts := subParts(r, small, true)
				baseMin, baseMax := curLens[0].Lo, curLens[len(curLens)-1].Hi
				if !defectHere && r.Chance(1, 8) {
					// an upper boundary at and beyond 32 bits (RFC 6020 9.4.4: lengths go up to 18446744073709551615)
					bigv := core.Pick(r, []string{"4294967295", "4294967296", "9223372036854775808", "18446744073709551615"})
					if v, ok := new(big.Int).SetString(bigv, 10); ok && v.Cmp(baseMax) <= 0 && parts[len(parts)-1].Lo.Cmp(curLens[len(curLens)-1].Lo) >= 0 {
						parts[len(parts)-1].Hi = v
					}
				}
				if defectHere {
					switch inject {
					case "not-subset":
						if gi := c13GapIndex(curLens); gi >= 0 && lensRestricted && r.Chance(1, 2) {
							last := len(curLens) - 1
							switch r.Intn(3) {
							case 0:
								parts = []yang.Interval{{Lo: curLens[0].Lo, Hi: curLens[last].Hi}}
							case 1:
								parts = []yang.Interval{{Lo: curLens[0].Lo, Hi: curLens[gi+1].Lo}}
							default:
								parts = []yang.Interval{{Lo: curLens[gi].Hi, Hi: curLens[last].Hi}}
							}
							kwInDefect = true
						} else if lensRestricted {
							parts[len(parts)-1].Hi = add(baseMax, 1)
						} else {
							defectHere, inject = false, ""
						}
					case "unordered":
						v := parts[0]
						if v.Lo.Cmp(v.Hi) < 0 {
							parts = []yang.Interval{{Lo: v.Hi, Hi: v.Hi}, {Lo: v.Lo, Hi: v.Lo}}
						} else {
							defectHere, inject = false, ""
						}
					case "overlap":
						v := parts[0]
						parts = []yang.Interval{{Lo: v.Lo, Hi: v.Hi}, {Lo: v.Hi, Hi: v.Hi}}
					case "reversed":
						ri := r.Intn(len(parts))
						v := parts[ri]
						if v.Lo.Cmp(v.Hi) < 0 {
							if r.Bool() {
								parts = []yang.Interval{{Lo: v.Hi, Hi: v.Lo}}
							} else {
								parts[ri] = yang.Interval{Lo: v.Hi, Hi: v.Lo}
							}
						} else if v0 := parts[0]; v0.Lo.Cmp(v0.Hi) < 0 {
							parts = []yang.Interval{{Lo: v0.Hi, Hi: v0.Lo}}
						} else {
							defectHere, inject = false, ""
						}
					}
					if defectHere && (inject == "not-subset" || inject == "unordered" || inject == "overlap" || inject == "reversed") {
						ch.defect = inject
					}
				}
				L.lengthArg = yang.RangeArg(parts, 0, baseMin, baseMax, func() bool { return (ch.defect == "" || kwInDefect) && kw() })
				if defectHere && inject == "boundary-syntax" && ch.defect == "" {
					if a, ok := c13BadBoundary(r, L.lengthArg, "length"); ok {
						L.lengthArg, ch.defect = a, "boundary-syntax"
					}
				}
				if ch.defect == "" {
					curLens = parts
					lensRestricted = true
				}
			}
			if r.Chance(1, 3) {
				pt := core.Pick(r, c13Patterns)
				L.patterns = append(L.patterns, pt)
				pats = append(pats, pt)
				if r.Chance(1, 3) {
					// a second pattern statement at the same level: both must match
					if pt2 := core.Pick(r, c13Patterns); pt2 != pt {
						L.patterns = append(L.patterns, pt2)
						pats = append(pats, pt2)
					}
				}
			}
		}
		if defectHere && inject == "wrong-kind" {
			switch ch.kind {
			case "int", "uint", "decimal64":
				L.wrongKind = core.Pick(r, []*yang.Stmt{yang.S("length", "1..4"), yang.S("pattern", "[0-9]+"), yang.S("base", "idb"), yang.S("enum", "one"), yang.S("path", "../x")})
			case "string":
				L.wrongKind = core.Pick(r, []*yang.Stmt{yang.S("range", "1..4"), yang.S("base", "idb"), yang.S("fraction-digits", "2"), yang.S("bit", "b0")})
			default:
				L.wrongKind = core.Pick(r, []*yang.Stmt{yang.S("range", "1..4"), yang.S("length", "1..4"), yang.S("pattern", "a*"), yang.S("base", "idb"), yang.S("require-instance", "true")})
			}
			ch.defect = "wrong-kind"
		}
		ch.levels = append(ch.levels, L)
		if numeric {
			ch.levelSets = append(ch.levelSets, trueSet)
		}
		lt := &yang.RType{Kind: ch.kind, Bits: ch.bits, FD: ch.fd, Ints: trueSet, Pats: append([]string{}, pats...), Enums: ch.enums}
		if lensRestricted {
			lt.Lens = curLens
		}
		levelTypes = append(levelTypes, lt)
	}
	// final type
	ch.final = levelTypes[len(levelTypes)-1]
	// defaults: each level may give one, valid for the set of that level
	valueFor := func(set []yang.Interval, lens []yang.Interval) string {
		switch ch.kind {
		case "int", "uint":
			iv := core.Pick(r, set)
			return randIn(r, iv.Lo, iv.Hi).String()
		case "decimal64":
			iv := core.Pick(r, set)
			return yang.FormatScaled(randIn(r, iv.Lo, iv.Hi), ch.fd)
		case "string":
			for try := 0; try < 30; try++ {
				s := core.Pick(r, c13ProbeStrings)
				if ch.final.Accepts(s) {
					return s
				}
			}
			return ""
		case "enumeration":
			return core.Pick(r, ch.enums)
		default:
			return core.Pick(r, []string{"true", "false"})
		}
	}
	if ch.defect == "" || ch.defect == "default-outside" {
		for lv := range ch.levels {
			if r.Chance(1, 3) {
				var v string
				if numeric {
					set := ch.levelSets[lv]
					if ch.kind == "decimal64" && len(set) == 1 && set[0].Lo.Cmp(yang.BuiltinRange("decimal64", 64)[0].Lo) == 0 {
						lim := new(big.Int).Sub(new(big.Int).Exp(bi(10), bi(15), nil), bi(1))
						set = []yang.Interval{{Lo: new(big.Int).Neg(lim), Hi: lim}}
					}
					v = valueFor(set, nil)
				} else {
					v = valueFor(nil, nil)
				}
				if ch.kind == "string" && !ch.final.Accepts(v) {
					continue
				}
				ch.levels[lv].def = &v
			}
		}
	}
	// nearest default
	for lv := len(ch.levels) - 1; lv >= 0; lv-- {
		if ch.levels[lv].def != nil {
			ch.expDef = ch.levels[lv].def
			break
		}
	}
	if ch.defect == "" {
		// RFC 6020 7.3.4: a derived type without default inherits the base type's
		// default, which must be valid for the derived type as well
		var eff *string
		for lv := range ch.levels {
			if ch.levels[lv].def != nil {
				eff = ch.levels[lv].def
			}
			if eff != nil && !levelTypes[lv].Accepts(*eff) {
				ch.defect = "default-outside"
			}
		}
	}
	if inject == "default-outside" && ch.defect == "" {
		// make the nearest default violate the final type
		bad := ""
		switch ch.kind {
		case "int", "uint":
			c := add(cur[len(cur)-1].Hi, 1)
			full := yang.BuiltinRange(ch.kind, ch.bits)[0]
			if c.Cmp(full.Hi) > 0 {
				c = add(cur[0].Lo, -1)
				if c.Cmp(full.Lo) < 0 {
					c = nil
				}
			}
			if c != nil {
				bad = c.String()
			}
		case "decimal64":
			c := add(cur[len(cur)-1].Hi, 1)
			if c.Cmp(yang.BuiltinRange("decimal64", 64)[0].Hi) <= 0 {
				bad = yang.FormatScaled(c, ch.fd)
			}
		case "string":
			for _, s := range []string{"ABC", "aaaaaaaaaaaaaaaaaaaaaaaa", "9", ""} {
				if !ch.final.Accepts(s) {
					bad = s
					break
				}
			}
			if bad == "" && ch.final.Accepts("") {
				bad = ""
			}
			if ch.final.Accepts(bad) {
				bad = "\x00none"
			}
		case "enumeration":
			bad = "no-such-enum"
		case "boolean":
			bad = "maybe"
		}
		if bad != "" && bad != "\x00none" && !ch.final.Accepts(bad) {
			// place it at an outer level and remove nearer defaults, or at the leaf
			lv := r.Intn(len(ch.levels))
			for k := lv + 1; k < len(ch.levels); k++ {
				ch.levels[k].def = nil
			}
			b := bad
			ch.levels[lv].def = &b
			// is it already invalid at its own level? then still a defect (default must be valid)
			ch.defect = "default-outside"
			ch.expDef = &b
		}
	}
	// probes
	seen := map[string]bool{}
	addProbe := func(s string) {
		if !seen[s] {
			seen[s] = true
			ch.probes = append(ch.probes, s)
		}
	}
	switch {
	case numeric:
		sets := ch.levelSets
		if ch.kind != "decimal64" {
			sets = append(append([][]yang.Interval{}, sets...), yang.BuiltinRange(ch.kind, ch.bits))
		}
		for _, set := range sets {
			if ch.kind == "decimal64" && len(set) == 1 && set[0].Lo.Cmp(yang.BuiltinRange("decimal64", 64)[0].Lo) == 0 {
				continue
			}
			for _, iv := range set {
				for _, d := range []int64{-1, 0, 1} {
					addProbe(yang.FormatScaled(add(iv.Lo, d), ch.fd))
					addProbe(yang.FormatScaled(add(iv.Hi, d), ch.fd))
				}
			}
		}
		for i := 0; i < 12; i++ {
			iv := core.Pick(r, cur)
			addProbe(yang.FormatScaled(randIn(r, iv.Lo, iv.Hi), ch.fd))
		}
		addProbe("0")
		addProbe("abc")
		addProbe("")
	case ch.kind == "string":
		for _, s := range c13ProbeStrings {
			addProbe(s)
		}
		for _, iv := range curLens {
			for _, d := range []int64{-1, 0, 1} {
				for _, b := range []*big.Int{iv.Lo, iv.Hi} {
					n := add(b, d)
					if n.Sign() >= 0 && n.Cmp(bi(40)) <= 0 {
						addProbe(strings.Repeat("a", int(n.Int64())))
						addProbe(strings.Repeat("z", int(n.Int64())))
						addProbe(strings.Repeat("ab", int(n.Int64()))[:int(n.Int64())])
						// the same number of characters, some of them of several bytes and not at the end
						if k := int(n.Int64()); k >= 1 {
							addProbe("é" + strings.Repeat("a", k-1))
							addProbe(string([]rune(strings.Repeat("日a", k))[:k]))
							addProbe("😀" + strings.Repeat("z", k-1))
						}
					}
				}
			}
		}
	case ch.kind == "enumeration":
		for _, s := range []string{"one", "two", "three", "four", "", "One", "one "} {
			addProbe(s)
		}
	default:
		for _, s := range []string{"true", "false", "True", "1", "", "yes"} {
			addProbe(s)
		}
	}
	return ch
}

func (ch *c13Chain) text() string {
	m := yang.S("module", "m", yang.S("namespace", "urn:m"), yang.S("prefix", "m"), yang.S("identity", "idb"))
	prev := ch.builtin
	for i, L := range ch.levels {
		t := yang.S("type", prev)
		if i == 0 {
			if ch.kind == "decimal64" {
				t.Add(yang.S("fraction-digits", fmt.Sprint(ch.fd)))
			}
			for _, e := range ch.enums {
				t.Add(yang.S("enum", e))
			}
		}
		if L.rangeArg != "" {
			t.Add(yang.S("range", L.rangeArg))
		}
		if L.lengthArg != "" {
			t.Add(yang.S("length", L.lengthArg))
		}
		for _, p := range L.patterns {
			t.Add(yang.S("pattern", p))
		}
		if L.wrongKind != nil {
			t.Add(L.wrongKind.Clone())
		}
		if i == len(ch.levels)-1 {
			l := yang.S("leaf", "l", t)
			if L.def != nil {
				l.Add(yang.S("default", *L.def))
			}
			c := yang.S("container", "c", l)
			if ch.kind == "string" && i > 0 {
				// two more users of the same typedef, before and after the leaf, each with a pattern of its own
				// that rejects nothing: what one reference to a typedef adds is its own affair
				c.Kids = append([]*yang.Stmt{yang.S("leaf", "sib-before", yang.S("type", prev, yang.S("pattern", ".*")))}, c.Kids...)
				c.Add(yang.S("leaf", "sib-after", yang.S("type", prev, yang.S("pattern", "(.*)|(never)"), yang.S("pattern", ".*"))))
			}
			m.Add(c)
		} else {
			td := yang.S("typedef", fmt.Sprintf("t%d", i), t)
			if L.def != nil {
				td.Add(yang.S("default", *L.def))
			}
			m.Add(td)
			prev = td.Arg
		}
	}
	return yang.Render(m, nil)
}

func c13FixedText(i int) string {
	return "module m {\n  namespace urn:m;\n  prefix m;\n  container c {\n    " + strings.ReplaceAll(c13Fixed[i].body, "} leaf", "}\n    leaf") + "\n  }\n}\n"
}

func (p *c13) Describe(tier string, seed int64, idx int) string {
	if idx < len(c13Fixed) {
		return "// " + c13Fixed[idx].what + "\n" + c13FixedText(idx)
	}
	idx -= len(c13Fixed)
	ch := c13Gen(seed, idx)
	return fmt.Sprintf("// injected defect: %q\n%s", ch.defect, ch.text())
}

func (p *c13) Run(tier string, seed int64, idx int) core.CaseResult {
	var res core.CaseResult
	if idx < len(c13Fixed) {
		f := c13Fixed[idx]
		text := c13FixedText(idx)
		cr := compileTexts(map[string]string{"m": text}, nil, nil, nil, false)
		res.Ev("fixed_chains", 1)
		res.Key(text)
		switch {
		case cr.Panic != "" || cr.ParseErr != "":
			res.Fail("C13/fixed/panic-or-parse-error", text, cr.Panic+cr.ParseErr)
		case cr.Accepted() && !f.accept:
			res.Fail("C13/defect-accepted/fixed/"+strings.ReplaceAll(f.what, " ", "-"), text, "compiled although: "+f.what)
		case !cr.Accepted() && f.accept:
			res.Fail("C13/valid-chain-rejected/fixed/"+strings.ReplaceAll(f.what, " ", "-"), text, cr.Err)
		}
		return res
	}
	idx -= len(c13Fixed)
	ch := c13Gen(seed, idx)
	text := ch.text()
	input := fmt.Sprintf("// injected defect: %q\n%s", ch.defect, text)
	res.Key(text)
	res.Ev("chains_compiled", 1)
	cr := compileTexts(map[string]string{"m": text}, nil, nil, nil, false)
	if cr.Panic != "" {
		res.Fail("C13/panic/"+core.TopRepoFrame(cr.Stack), input, cr.Panic)
		return res
	}
	if cr.ParseErr != "" {
		// the parser refusing the restriction argument is a refusal of the chain
		res.Ev("chains_refused_by_the_parser", 1)
		if ch.defect == "" {
			res.Fail("C13/valid-chain-rejected/"+ch.kind, input, "parse: "+cr.ParseErr)
		}
		return res
	}
	if ch.defect != "" {
		res.Ev("chains_with_injected_defect", 1)
		if cr.Accepted() {
			res.Fail("C13/defect-accepted/"+ch.kind+"/"+ch.defect, input, "the chain compiled although it carries the defect: "+ch.defect)
		}
		return res
	}
	if !cr.Accepted() {
		res.Fail("C13/valid-chain-rejected/"+ch.kind, input, cr.Err)
		return res
	}
	res.Ev("chains_accepted", 1)
	var leaf schema.Node
	pan, msg, _ := core.Guard(func() { leaf = cr.MS.Child("c").Child("l") })
	if pan || leaf == nil {
		res.Fail("C13/leaf-not-found", input, msg)
		return res
	}
	typ := leaf.Type()
	for _, pr := range ch.probes {
		want := ch.final.Accepts(pr)
		var err error
		pan, msg, _ := core.Guard(func() { err = typ.Validate(nil, []string{"c", "l", pr}, pr) })
		res.Ev("probe_validations", 1)
		if pan {
			res.Fail("C13/validate-panic", input+"\nprobe: "+pr, msg)
			continue
		}
		if (err == nil) != want {
			cls := "accepted-outside-value-set"
			if want {
				cls = "rejected-inside-value-set"
			}
			res.Fail("C13/"+cls+"/"+ch.kind, input+"\nprobe: "+fmt.Sprintf("%q", pr), fmt.Sprintf("probe %q: model says accept=%v, Validate error=%v", pr, want, err))
		}
	}
	// default
	res.Ev("defaults_checked", 1)
	var gotDef string
	var has bool
	if l, ok := leaf.(schema.Leaf); ok {
		gotDef, has = l.Default()
	}
	if ch.expDef == nil {
		if has {
			res.Fail("C13/default-invented", input, fmt.Sprintf("no definition gives a default, the leaf reports %q", gotDef))
		}
	} else if !has || gotDef != *ch.expDef {
		res.Fail("C13/default-not-nearest", input, fmt.Sprintf("nearest default is %q, the leaf reports %q (has=%v)", *ch.expDef, gotDef, has))
	}
	if idx%797 == 0 {
		res.Sample = map[string]interface{}{"kind": ch.kind, "levels": len(ch.levels), "probes": len(ch.probes), "text": text}
	}
	return res
}

func (p *c13) Witness(raw json.RawMessage) []core.Failure {
	var w struct {
		Text   string `json:"text"`
		Expect string `json:"expect"`
		Class  string `json:"class"`
	}
	json.Unmarshal(raw, &w)
	cr := compileTexts(map[string]string{"m": w.Text}, nil, nil, nil, false)
	if cr.Panic != "" {
		return []core.Failure{{Class: "C13/panic/" + core.TopRepoFrame(cr.Stack), Detail: cr.Panic}}
	}
	if (w.Expect == "accept") != cr.Accepted() {
		return []core.Failure{{Class: w.Class, Input: w.Text, Detail: "verdict " + cr.Verdict() + " " + cr.Err}}
	}
	return nil
}
