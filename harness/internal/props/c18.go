package props

import (
	"encoding/json"
	"fmt"
	"regexp"
	"sort"
	"strconv"
	"strings"

	"github.com/sdcio/yang-parser/data/datanode"
	"github.com/sdcio/yang-parser/schema"

	"verifharness/internal/core"
	"verifharness/internal/yang"
)

// C18: structural data validation and default decoration are exact.
// Oracles: R-VAL (mandatory / min / max / unique) and R-DEF (default
// decoration) as recursive definitions over the generator's schema model.
type c18 struct{ base }

func init() {
	core.Register(&c18{base: base{
		id: "C18",
		rule: "cases = generated schemas without must/when/leafref: non-presence containers nested 1-4 deep, presence containers, choices with explicit and shorthand cases and choices " +
			"inside cases, mandatory leaves and choices, defaults (also in default cases and under absent non-presence containers), lists and leaf-lists with min/max-elements 0-3, unique sets over " +
			"direct and descendant leaves; per schema a valid data tree is built by construction and then every single deletion of a data node, duplication of a list entry under a new key (value " +
			"collision), and addition/removal of leaf-list values and list entries around the limits is derived (quick 500 schemas, thorough 12k); for every tree the multiset of (error path, kind) of " +
			"schema.ValidateSchema is compared with R-VAL, and the full walk of AddDefaults(tree) and AddDefaults(AddDefaults(tree)) with R-DEF; distinct_nontrivial = distinct (schema, data tree) pairs",
		block: 8,
		assumptions: []string{
			"error presence and location are compared (path + kind: missing mandatory node / choice, element count, unique), not wording",
			"schemas carry no must/when/leafref: their evaluation routes through the consumer's engine and is outside this property",
			"an empty non-presence container in the data is never generated (it is equivalent to its absence)",
		},
		minEvents: []string{"schemas_compiled", "trees_validated", "trees_with_expected_errors", "trees_valid", "decorations_compared", "defaults_expected"},
	}})
}

func (p *c18) NumCases(tier string, seed int64) int { return tierN(tier, 2500, 180000) }

// ---------------------------------------------------------------- schema model

type snode struct {
	kw        string
	name      string
	presence  bool
	mandatory bool
	def       *string
	min, max  int // max<0 = unbounded
	uniques   [][]string
	kids      []*snode
	defCase   string
	vals      []string // candidate values of a leaf
	rtype     *yang.RType
	ordUser   bool
	typeName  string
}

var c18StrVals = []string{"a", "b", "c", "x y", "", "z·w", "z", "w", "v1", "v2"}

func c18GenSchema(r *core.Rng) (*yang.Stmt, *snode) { return c18GenSchemaX(r, false) }

// rich: all leaf types (64-bit extremes, decimal64, empty, identityref from
// other modules, unions, strings needing escaping), user-ordered lists (C19)
func c18GenSchemaX(r *core.Rng, rich bool) (*yang.Stmt, *snode) {
	uniq := 0
	nm := func(p string) string { uniq++; return fmt.Sprintf("%s%d", p, uniq) }
	var genKids func(depth int, n int, inCase bool) ([]*yang.Stmt, []*snode)
	leaf := func(name string, allowMand bool) (*yang.Stmt, *snode) {
		s := yang.S("leaf", name)
		sn := &snode{kw: "leaf", name: name}
		if rich && r.Chance(3, 5) {
			switch r.Intn(8) {
			case 0:
				s.Add(yang.S("type", "uint64"))
				sn.vals, sn.typeName = []string{"0", "18446744073709551615", "9007199254740993", "9007199254740992", "4294967296", "7",
					// other spellings of the same numbers (a sign, leading zeros), also beyond 2^63
					"+18446744073709551615", "09223372036854775808", "+9223372036854775808", "+7", "007"}, "uint64"
			case 1:
				s.Add(yang.S("type", "int64"))
				sn.vals, sn.typeName = []string{"-9223372036854775808", "9223372036854775807", "-9007199254740993", "0", "-1"}, "int64"
			case 2:
				s.Add(yang.S("type", "decimal64", yang.S("fraction-digits", "3")))
				sn.vals, sn.typeName = []string{"0.5", "-1.125", "1000000.001", "3.0", "0.001"}, "decimal64"
			case 3:
				s.Add(yang.S("type", "empty"))
				sn.vals, sn.typeName = []string{""}, "empty"
			case 4:
				s.Add(yang.S("type", "identityref", yang.S("base", "ids:base-id")))
				sn.vals, sn.typeName = []string{"ids:near", "ids2:far", "ids2:near"}, "identityref"
			case 5:
				s.Add(yang.S("type", "union", yang.S("type", "int8"), yang.S("type", "enumeration", yang.S("enum", "auto")), yang.S("type", "string", yang.S("length", "2"))))
				sn.vals, sn.typeName = []string{"-5", "auto", "ab", "99"}, "union"
			case 6:
				s.Add(yang.S("type", "string"))
				sn.vals, sn.typeName = []string{"a\"b", "<tag> & 'x'", "back\\slash", "tab\there", "nl\nx", "é日😀", " lead", "trail ", "]]>", "{\"k\":1}", "", "null", "true", "12",
					// legal characters that Go regards as non-printable (a Go-syntax quoting of them is not JSON)
					"del\x7fx", "tag\U000E0001x", "nbsp\u00a0x", "zw\u200bx", "\ufeffbom", "c1\u0085x", "ls\u2028x",
					// the replacement character is a character like any other when it is spelt out in the text
					"caf\ufffd du nord", "\ufffd"}, "string"
			default:
				s.Add(yang.S("type", "int32"))
				sn.vals, sn.typeName = []string{"-2147483648", "2147483647", "0", "42", "+42", "-007", "-0"}, "int32"
			}
			sn.rtype = yang.RTypeFromStmt(s.Find("type"), nil)
			if sn.typeName == "identityref" {
				sn.rtype = &yang.RType{Kind: "identityref", Idents: map[string]bool{"ids:near": true, "ids2:far": true, "ids2:near": true}}
			}
			if sn.typeName != "empty" && r.Chance(1, 6) && allowMand {
				s.Add(yang.S("mandatory", "true"))
				sn.mandatory = true
			}
			return s, sn
		}
		var tdDef *string // default of the typedef the leaf's type names
		var baseType *yang.Stmt
		defer func() {
			t := s.Find("type")
			if baseType != nil {
				t = baseType
			}
			sn.rtype = yang.RTypeFromStmt(t, nil)
		}()
		switch r.Intn(6) {
		case 4:
			// a typedef that gives a default: the leaf has it unless it is mandatory or gives its own
			s.Add(yang.S("type", "td-str"))
			baseType = yang.S("type", "string")
			sn.vals = c18StrVals
			d := "from typedef"
			tdDef = &d
		case 5:
			s.Add(yang.S("type", "td-u8"))
			baseType = yang.S("type", "uint8")
			sn.vals = []string{"0", "1", "2", "7", "255"}
			d := "3"
			tdDef = &d
		case 0:
			s.Add(yang.S("type", "string"))
			sn.vals = c18StrVals
		case 1:
			s.Add(yang.S("type", "uint8"))
			sn.vals = []string{"0", "1", "2", "7", "255"}
			if rich {
				// other lexical forms of the same values
				sn.vals = append(sn.vals, "+7", "007", "+0")
			}
		case 2:
			s.Add(yang.S("type", "boolean"))
			sn.vals = []string{"true", "false"}
		default:
			s.Add(yang.S("type", "enumeration", yang.S("enum", "red"), yang.S("enum", "green")))
			sn.vals = []string{"red", "green"}
		}
		switch r.Intn(5) {
		case 0:
			if allowMand {
				s.Add(yang.S("mandatory", "true"))
				sn.mandatory = true
			}
		case 1, 2:
			d := core.Pick(r, sn.vals)
			s.Add(yang.S("default", d))
			sn.def = &d
		}
		if tdDef != nil && sn.def == nil && !sn.mandatory {
			sn.def = tdDef
		}
		if sn.def != nil && !sn.mandatory && name != "k" && name != "k2" && r.Chance(1, 4) {
			// a state leaf: its default is part of the decorated view like that of a configuration leaf
			s.Add(yang.S("config", "false"))
		}
		return s, sn
	}
	genKids = func(depth, n int, inCase bool) ([]*yang.Stmt, []*snode) {
		var ss []*yang.Stmt
		var sns []*snode
		for i := 0; i < n; i++ {
			kinds := []string{"leaf", "leaf", "leaf-list"}
			if depth < 4 {
				kinds = append(kinds, "container", "container", "list", "choice")
			}
			switch core.Pick(r, kinds) {
			case "leaf":
				lname := nm("l")
				if depth > 1 && !inCase && r.Chance(1, 4) {
					// names are unique among siblings only: the same leaf name at several levels
					taken := false
					for _, x := range sns {
						taken = taken || x.name == "same"
					}
					if !taken {
						lname = "same"
					}
				}
				s, sn := leaf(lname, true)
				ss, sns = append(ss, s), append(sns, sn)
			case "leaf-list":
				name := nm("ll")
				s := yang.S("leaf-list", name, yang.S("type", "string"))
				sn := &snode{kw: "leaf-list", name: name, max: -1, vals: []string{"p", "q", "r", "s", "t"}, rtype: &yang.RType{Kind: "string"}}
				if rich && r.Bool() {
					s.Add(yang.S("ordered-by", "user"))
					sn.ordUser = true
				}
				if r.Bool() {
					sn.min = r.Intn(3)
					sn.max = sn.min + r.Intn(3)
					if sn.max == 0 {
						sn.max = 1
					}
					s.Add(yang.S("min-elements", fmt.Sprint(sn.min)), yang.S("max-elements", fmt.Sprint(sn.max)))
				}
				ss, sns = append(ss, s), append(sns, sn)
			case "container":
				name := nm("c")
				s := yang.S("container", name)
				sn := &snode{kw: "container", name: name}
				if r.Chance(1, 3) {
					s.Add(yang.S("presence", "p"))
					sn.presence = true
				}
				ks, kn := genKids(depth+1, r.Range(1, 3), false)
				s.Add(ks...)
				sn.kids = kn
				ss, sns = append(ss, s), append(sns, sn)
			case "list":
				name := nm("li")
				s := yang.S("list", name, yang.S("key", "k"), yang.S("leaf", "k", yang.S("type", "string")))
				sn := &snode{kw: "list", name: name, max: -1}
				if rich && r.Bool() {
					s.Add(yang.S("ordered-by", "user"))
					sn.ordUser = true
				}
				sn.kids = append(sn.kids, &snode{kw: "leaf", name: "k", vals: []string{"k1", "k2", "k3", "k4", "k5"}, rtype: &yang.RType{Kind: "string"}})
				if rich && r.Chance(1, 3) {
					// a list with two keys: its entries are told apart by both values
					s.Find("key").Arg = "k k2"
					s.Add(yang.S("leaf", "k2", yang.S("type", "string")))
					sn.kids = append(sn.kids, &snode{kw: "leaf", name: "k2", vals: []string{"a", "b"}, rtype: &yang.RType{Kind: "string"}})
				}
				ks, kn := genKids(depth+1, r.Range(1, 3), false)
				s.Add(ks...)
				sn.kids = append(sn.kids, kn...)
				if r.Bool() {
					sn.min = r.Intn(3)
					sn.max = sn.min + r.Intn(3)
					if sn.max == 0 {
						sn.max = 1
					}
					s.Add(yang.S("min-elements", fmt.Sprint(sn.min)), yang.S("max-elements", fmt.Sprint(sn.max)))
				}
				// unique over leaves (direct, or inside a direct non-presence container)
				var cands []string
				for _, k := range kn {
					if k.kw == "leaf" && k.typeName != "empty" {
						cands = append(cands, k.name)
					}
					if k.kw == "container" && !k.presence {
						for _, kk := range k.kids {
							if kk.kw == "leaf" && kk.typeName != "empty" {
								cands = append(cands, k.name+"/"+kk.name)
							}
						}
					}
					// a leaf inside a case: the schema node identifier names the choice and the case
					// (marked with '~' here: they have no data node)
					if k.kw == "choice" {
						for _, cse := range k.kids {
							for _, kk := range cse.kids {
								if kk.kw == "leaf" && kk.typeName != "empty" {
									cands = append(cands, "~"+k.name+"/~"+cse.name+"/"+kk.name)
								}
								if kk.kw == "container" && !kk.presence {
									for _, k3 := range kk.kids {
										if k3.kw == "leaf" && k3.typeName != "empty" {
											cands = append(cands, "~"+k.name+"/~"+cse.name+"/"+kk.name+"/"+k3.name)
										}
									}
								}
							}
						}
					}
				}
				if len(cands) > 0 && !rich && r.Chance(2, 3) {
					n := 1
					if len(cands) > 1 && r.Bool() {
						n = 2
					}
					perm := r.Perm(len(cands))
					var u []string
					for _, pi := range perm[:n] {
						u = append(u, cands[pi])
					}
					s.Add(yang.S("unique", strings.ReplaceAll(strings.Join(u, " "), "~", "")))
					sn.uniques = append(sn.uniques, u)
					// a second, independent unique set of the same arity over other leaves: equal values in
					// different sets (ip of one entry = backup-ip of another) are no violation
					if len(cands) >= 2*n && r.Chance(1, 2) {
						var u2 []string
						for _, pi := range perm[n : 2*n] {
							u2 = append(u2, cands[pi])
						}
						s.Add(yang.S("unique", strings.ReplaceAll(strings.Join(u2, " "), "~", "")))
						sn.uniques = append(sn.uniques, u2)
					}
				}
				ss, sns = append(ss, s), append(sns, sn)
			case "choice":
				name := nm("ch")
				s := yang.S("choice", name)
				sn := &snode{kw: "choice", name: name}
				nc := r.Range(1, 3)
				for j := 0; j < nc; j++ {
					if r.Chance(1, 3) {
						ls, ln := leaf(nm("sl"), false)
						s.Add(ls)
						sn.kids = append(sn.kids, &snode{kw: "case", name: ln.name, kids: []*snode{ln}})
						continue
					}
					if depth < 4 && r.Chance(1, 4) {
						// shorthand case that is a container: the implicit case bears the container's name
						scn := nm("sc")
						sc := yang.S("container", scn)
						ks, kn := genKids(depth+2, r.Range(1, 2), false)
						sc.Add(ks...)
						s.Add(sc)
						sn.kids = append(sn.kids, &snode{kw: "case", name: scn, kids: []*snode{{kw: "container", name: scn, kids: kn}}})
						continue
					}
					cname := nm("ca")
					if r.Chance(1, 2) {
						// case names are scoped to their choice: cases of different choices may share a name, and
						// a case may be named like its choice
						for _, cand := range []string{"v4", "v6", name, "k"} {
							taken := false
							for _, k := range sn.kids {
								taken = taken || k.name == cand
							}
							if !taken && r.Bool() {
								cname = cand
								break
							}
						}
					}
					cs := yang.S("case", cname)
					ks, kn := genKids(depth+1, r.Range(1, 2), true)
					cs.Add(ks...)
					s.Add(cs)
					sn.kids = append(sn.kids, &snode{kw: "case", name: cname, kids: kn})
				}
				switch r.Intn(3) {
				case 0:
					// a default case must not contain mandatory nodes directly
					var ok []*snode
					for _, cse := range sn.kids {
						good := true
						for _, k := range cse.kids {
							if isMandatoryNode(k) {
								good = false
							}
						}
						if good {
							ok = append(ok, cse)
						}
					}
					if len(ok) > 0 {
						dc := core.Pick(r, ok)
						s.Add(yang.S("default", dc.name))
						sn.defCase = dc.name
					}
				case 1:
					s.Add(yang.S("mandatory", "true"))
					sn.mandatory = true
				}
				ss, sns = append(ss, s), append(sns, sn)
			}
		}
		return ss, sns
	}
	ks, kn := genKids(1, r.Range(2, 4), false)
	top := yang.S("container", "c18", ks...)
	m := yang.S("module", "m18", yang.S("namespace", "urn:verif:m18"), yang.S("prefix", "m"),
		yang.S("typedef", "td-str", yang.S("type", "string"), yang.S("default", "from typedef")),
		yang.S("typedef", "td-u8", yang.S("type", "uint8"), yang.S("default", "3")), top)
	if rich {
		m.Add(yang.S("import", "ids", yang.S("prefix", "ids")))
		yang.SortSections(m)
	}
	return m, &snode{kw: "container", name: "c18", kids: kn}
}

// isMandatoryNode: RFC 6020 section 3.1 "mandatory node" (a non-presence
// container is one when it has a mandatory node as a child).
func isMandatoryNode(k *snode) bool {
	switch k.kw {
	case "leaf", "choice":
		return k.mandatory
	case "list", "leaf-list":
		return k.min > 0
	case "container":
		if k.presence {
			return false
		}
		for _, c := range k.kids {
			if isMandatoryNode(c) {
				return true
			}
		}
	}
	return false
}

// ---------------------------------------------------------------- data model

type dnode struct {
	name string
	kids []*dnode
	vals []string
}

func (d *dnode) clone() *dnode {
	c := &dnode{name: d.name, vals: append([]string{}, d.vals...)}
	for _, k := range d.kids {
		c.kids = append(c.kids, k.clone())
	}
	return c
}

func (d *dnode) kid(name string) *dnode {
	for _, k := range d.kids {
		if k.name == name {
			return k
		}
	}
	return nil
}

func (d *dnode) toData() datanode.DataNode {
	var ch []datanode.DataNode
	for _, k := range d.kids {
		ch = append(ch, k.toData())
	}
	return datanode.CreateDataNode(d.name, ch, d.vals)
}

func (d *dnode) str() string {
	var b strings.Builder
	var w func(n *dnode, depth int)
	w = func(n *dnode, depth int) {
		fmt.Fprintf(&b, "%s%s", strings.Repeat("  ", depth), n.name)
		if len(n.vals) > 0 {
			fmt.Fprintf(&b, " = %q", n.vals)
		}
		b.WriteString("\n")
		ks := append([]*dnode{}, n.kids...)
		sort.SliceStable(ks, func(i, j int) bool { return ks[i].name < ks[j].name })
		for _, k := range ks {
			w(k, depth+1)
		}
	}
	w(d, 0)
	return b.String()
}

// genData builds the children of an existing container / list entry, valid by construction.
func c18GenKids(r *core.Rng, kids []*snode, fill int) []*dnode {
	var out []*dnode
	for _, k := range kids {
		switch k.kw {
		case "leaf":
			if k.name == "k" || k.name == "k2" {
				continue // key leaves are added by the list code
			}
			if k.mandatory || r.Chance(fill, 4) {
				out = append(out, &dnode{name: k.name, vals: []string{core.Pick(r, k.vals)}})
			}
		case "leaf-list":
			if k.min > 0 || r.Chance(fill, 4) {
				hi := k.max
				if hi < 0 {
					hi = 3
				}
				lo := k.min
				if lo == 0 {
					lo = 1
				}
				if hi < lo {
					hi = lo
				}
				n := r.Range(lo, hi)
				perm := r.Perm(len(k.vals))
				d := &dnode{name: k.name}
				for i := 0; i < n && i < len(perm); i++ {
					d.vals = append(d.vals, k.vals[perm[i]])
				}
				out = append(out, d)
			}
		case "container":
			if k.presence {
				if r.Chance(fill, 4) {
					out = append(out, &dnode{name: k.name, kids: c18GenKids(r, k.kids, fill)})
				}
				continue
			}
			ks := c18GenKids(r, k.kids, fill)
			if len(ks) > 0 {
				out = append(out, &dnode{name: k.name, kids: ks})
			}
		case "list":
			if k.min > 0 || r.Chance(fill, 4) {
				hi := k.max
				if hi < 0 {
					hi = 3
				}
				lo := k.min
				if lo == 0 {
					lo = 1
				}
				if hi < lo {
					hi = lo
				}
				n := r.Range(lo, hi)
				d := &dnode{name: k.name}
				// entries in an order that is not the sorted order of their keys ("k10" sorts before "k2")
				// ("k": an entry whose key value is the name of the key leaf itself)
				// (and one whose key value is the empty string: a value of type string like any other)
				keyPool := []string{"k3", "k10", "k", "k1", "", "k2", "k05", "K4"}
				off := r.Intn(len(keyPool))
				twoKeys := false
				for _, kk := range k.kids {
					twoKeys = twoKeys || (kk.kw == "leaf" && kk.name == "k2")
				}
				for i := 0; i < n; i++ {
					kv := keyPool[(off+i)%len(keyPool)]
					e := &dnode{name: kv, kids: []*dnode{{name: "k", vals: []string{kv}}}}
					if twoKeys {
						// pairs of entries that agree on the first key
						kv = keyPool[(off+i/2)%len(keyPool)]
						e = &dnode{name: kv, kids: []*dnode{{name: "k", vals: []string{kv}}, {name: "k2", vals: []string{[]string{"b", "a"}[i%2]}}}}
					}
					e.kids = append(e.kids, c18GenKids(r, k.kids, fill)...)
					d.kids = append(d.kids, e)
				}
				if twoKeys && len(d.kids) >= 2 && r.Bool() {
					// two entries whose key values run together to the same text: (k1, ab) and (k1a, b)
					for i, kv := range [][2]string{{"k1", "ab"}, {"k1a", "b"}} {
						e := d.kids[i]
						e.name = kv[0]
						e.kid("k").vals = []string{kv[0]}
						e.kid("k2").vals = []string{kv[1]}
					}
				}
				// make the unique tuples distinct: drop colliding entries' unique leaves
				for _, u := range k.uniques {
					seen := map[string]bool{}
					for _, e := range d.kids {
						key, ok := uniqueTuple(e, u)
						if ok && seen[key] {
							// remove the first unique leaf of this entry (entries lacking a leaf are exempt)
							removePath(e, u[0])
						}
						seen[key] = true
					}
				}
				out = append(out, d)
			}
		case "choice":
			if len(k.kids) == 0 {
				continue
			}
			if k.mandatory || r.Chance(fill, 4) {
				// select a case and make sure at least one of its nodes exists
				for try := 0; try < 6; try++ {
					cse := core.Pick(r, k.kids)
					ks := c18GenKids(r, cse.kids, 4)
					if len(ks) > 0 {
						out = append(out, ks...)
						break
					}
				}
			}
		}
	}
	return out
}

// c18DataPath: the data path of a unique path (choice and case names, marked '~', have no data node).
func c18DataPath(path string) []string {
	var out []string
	for _, p := range strings.Split(path, "/") {
		if !strings.HasPrefix(p, "~") {
			out = append(out, p)
		}
	}
	return out
}

func removePath(e *dnode, path string) {
	parts := c18DataPath(path)
	cur := e
	for i, p := range parts {
		if i == len(parts)-1 {
			var ks []*dnode
			for _, k := range cur.kids {
				if k.name != p {
					ks = append(ks, k)
				}
			}
			cur.kids = ks
			return
		}
		cur = cur.kid(p)
		if cur == nil {
			return
		}
	}
}

func lookupPath(e *dnode, path string) (string, bool) {
	cur := e
	for _, p := range c18DataPath(path) {
		cur = cur.kid(p)
		if cur == nil {
			return "", false
		}
	}
	if len(cur.vals) == 0 {
		return "", false
	}
	return cur.vals[0], true
}

func uniqueTuple(e *dnode, u []string) (string, bool) {
	var parts []string
	for _, p := range u {
		v, ok := lookupPath(e, p)
		if !ok {
			return "", false
		}
		parts = append(parts, strconv.Quote(v))
	}
	return strings.Join(parts, ","), true
}

// ---------------------------------------------------------------- R-VAL

type refErr struct{ path, kind, name string }

func (e refErr) String() string { return e.path + " :: " + e.kind + " " + e.name }

func pathStr(p []string) string { return "/" + strings.Join(p, "/") }

// caseActive: does any data node of the case (looking through nested choices) exist?
func caseActive(cse *snode, present map[string]*dnode) bool {
	for _, k := range cse.kids {
		if k.kw == "choice" {
			for _, c2 := range k.kids {
				if caseActive(c2, present) {
					return true
				}
			}
			continue
		}
		if present[k.name] != nil {
			return true
		}
	}
	return false
}

func rvalKids(kids []*snode, present map[string]*dnode, path []string, errs *[]refErr) {
	for _, k := range kids {
		switch k.kw {
		case "leaf":
			if k.mandatory && present[k.name] == nil {
				*errs = append(*errs, refErr{pathStr(path), "missing-mandatory", k.name})
			}
		case "leaf-list", "list":
			if k.min > 0 && present[k.name] == nil {
				*errs = append(*errs, refErr{pathStr(path), "missing-mandatory", k.name})
			}
		case "container":
			if present[k.name] == nil && !k.presence {
				rvalKids(k.kids, map[string]*dnode{}, append(append([]string{}, path...), k.name), errs)
			}
		case "choice":
			var active *snode
			for _, cse := range k.kids {
				if caseActive(cse, present) {
					active = cse
					break
				}
			}
			if active == nil {
				if k.mandatory {
					*errs = append(*errs, refErr{pathStr(path), "missing-mandatory-choice", ""})
				}
				continue
			}
			rvalKids(active.kids, present, path, errs)
		}
	}
}

// flatten the data-visible children of a schema node (looking through choices)
func dataKids(kids []*snode) []*snode {
	var out []*snode
	for _, k := range kids {
		if k.kw == "choice" {
			for _, c := range k.kids {
				out = append(out, dataKids(c.kids)...)
			}
			continue
		}
		out = append(out, k)
	}
	return out
}

// rvalNode: path carries list entry names (as the implementation's path());
// xp is the same location without them (as its XPath(), used for count errors).
func rvalNode(sn *snode, d *dnode, path []string, errs *[]refErr) {
	rvalNodeX(sn, d, path, path, errs)
}

func rvalNodeX(sn *snode, d *dnode, path, xp []string, errs *[]refErr) {
	present := map[string]*dnode{}
	for _, k := range d.kids {
		present[k.name] = k
	}
	rvalKids(sn.kids, present, path, errs)
	for _, k := range dataKids(sn.kids) {
		dn := present[k.name]
		if dn == nil {
			continue
		}
		kp := append(append([]string{}, path...), k.name)
		kx := append(append([]string{}, xp...), k.name)
		switch k.kw {
		case "container":
			rvalNodeX(k, dn, kp, kx, errs)
		case "leaf-list":
			n := len(dn.vals)
			if (k.min > 0 && n < k.min) || (k.max >= 0 && n > k.max) {
				*errs = append(*errs, refErr{pathStr(kx), "element-count", ""})
			}
		case "list":
			n := len(dn.kids)
			if (k.min > 0 && n < k.min) || (k.max >= 0 && n > k.max) {
				*errs = append(*errs, refErr{pathStr(kx), "element-count", ""})
				continue // the implementation stops at the count error for this list
			}
			for _, u := range k.uniques {
				groups := map[string]int{}
				for _, e := range dn.kids {
					if key, ok := uniqueTuple(e, u); ok {
						groups[key]++
					}
				}
				for _, cnt := range groups {
					if cnt > 1 {
						*errs = append(*errs, refErr{pathStr(kp), "unique", ""})
					}
				}
			}
			for _, e := range dn.kids {
				rvalNodeX(k, e, append(append([]string{}, kp...), e.name), kx, errs)
			}
		}
	}
}

// ---------------------------------------------------------------- R-DEF

// hasDefaults: would an absent non-presence container produce anything?
func defaultsOf(kids []*snode, present map[string]*dnode, existing bool) []*dnode {
	var out []*dnode
	for _, k := range kids {
		switch k.kw {
		case "leaf":
			if k.def != nil && present[k.name] == nil {
				out = append(out, &dnode{name: k.name, vals: []string{*k.def}})
			}
		case "container":
			if present[k.name] == nil && !k.presence {
				ks := defaultsOf(k.kids, map[string]*dnode{}, false)
				if len(ks) > 0 {
					out = append(out, &dnode{name: k.name, kids: ks})
				}
			}
		case "choice":
			var active *snode
			for _, cse := range k.kids {
				if caseActive(cse, present) {
					active = cse
					break
				}
			}
			if active == nil && k.defCase != "" {
				for _, cse := range k.kids {
					if cse.name == k.defCase {
						active = cse
					}
				}
			}
			if active != nil {
				out = append(out, defaultsOf(active.kids, present, existing)...)
			}
		}
	}
	return out
}

func rdefNode(sn *snode, d *dnode) *dnode {
	out := &dnode{name: d.name, vals: d.vals}
	present := map[string]*dnode{}
	for _, k := range d.kids {
		present[k.name] = k
	}
	bySchema := map[string]*snode{}
	for _, k := range dataKids(sn.kids) {
		bySchema[k.name] = k
	}
	for _, k := range d.kids {
		ks := bySchema[k.name]
		switch {
		case ks == nil:
			out.kids = append(out.kids, k.clone())
		case ks.kw == "container":
			out.kids = append(out.kids, rdefNode(ks, k))
		case ks.kw == "list":
			l := &dnode{name: k.name}
			for _, e := range k.kids {
				l.kids = append(l.kids, rdefNode(ks, e))
			}
			out.kids = append(out.kids, l)
		default:
			out.kids = append(out.kids, k.clone())
		}
	}
	out.kids = append(out.kids, defaultsOf(sn.kids, present, true)...)
	return out
}

func walkData(d datanode.DataNode) *dnode {
	out := &dnode{name: d.YangDataName(), vals: d.YangDataValues()}
	for _, k := range d.YangDataChildren() {
		out.kids = append(out.kids, walkData(k))
	}
	return out
}

// ---------------------------------------------------------------- run

var mandRe = regexp.MustCompile(`Missing mandatory node (.*)`)

func c18ImplErrs(errs []error) []refErr {
	var out []refErr
	for _, e := range errs {
		ep, em, _ := errFields(e)
		path := ep
		if path == "" {
			path = "/" // (an error about the top of the tree: the path of the root is printed as the empty string)
		}
		kind, name := "other:"+core.Trunc(em, 60), ""
		switch {
		case strings.Contains(em, "Missing mandatory node requires one of"):
			kind = "missing-mandatory-choice"
		case mandRe.MatchString(em):
			kind, name = "missing-mandatory", strings.TrimSpace(mandRe.FindStringSubmatch(em)[1])
		case strings.Contains(em, "Invalid number of nodes"):
			kind = "element-count"
		case strings.Contains(em, "must be unique"):
			kind = "unique"
		}
		out = append(out, refErr{path, kind, name})
	}
	return out
}

func sortErrs(es []refErr) []string {
	var out []string
	for _, e := range es {
		out = append(out, e.String())
	}
	sort.Strings(out)
	return out
}

type c18Case struct {
	mod    *yang.Stmt
	sn     *snode
	trees  []*dnode
	labels []string
	// flat: the nodes stand at the top of the module (and of the data tree), not in a container c18
	flat bool
}

func c18Gen(seed int64, idx int) *c18Case {
	r := core.CaseRng(seed, "C18", idx)
	m, sn := c18GenSchema(r)
	c := &c18Case{mod: m, sn: sn, flat: idx%4 == 3}
	if c.flat {
		var kids []*yang.Stmt
		for _, k := range m.Kids {
			if k.Kw == "container" && k.Arg == "c18" {
				kids = append(kids, k.Kids...)
			} else {
				kids = append(kids, k)
			}
		}
		m.Kids = kids
	}
	add := func(t *dnode, label string) {
		if c.flat {
			c.trees = append(c.trees, &dnode{name: "data", kids: t.kids})
		} else {
			c.trees = append(c.trees, &dnode{name: "data", kids: []*dnode{t}})
		}
		c.labels = append(c.labels, label)
	}
	for v := 0; v < 3; v++ {
		base := &dnode{name: "c18", kids: c18GenKids(r, sn.kids, 1+v)}
		add(base, "valid-by-construction")
		// every single deletion
		var paths [][]int
		var collect func(d *dnode, p []int)
		collect = func(d *dnode, p []int) {
			for i, k := range d.kids {
				pp := append(append([]int{}, p...), i)
				paths = append(paths, pp)
				collect(k, pp)
			}
		}
		collect(base, nil)
		if len(paths) > 14 {
			perm := r.Perm(len(paths))
			var sel [][]int
			for _, pi := range perm[:14] {
				sel = append(sel, paths[pi])
			}
			paths = sel
		}
		for _, pth := range paths {
			t := base.clone()
			cur := t
			for _, ix := range pth[:len(pth)-1] {
				cur = cur.kids[ix]
			}
			last := pth[len(pth)-1]
			victim := cur.kids[last]
			if victim.name == "k" {
				continue // deleting a key leaf makes the tree ill-formed rather than invalid
			}
			cur.kids = append(cur.kids[:last:last], cur.kids[last+1:]...)
			// an emptied non-presence container disappears with its last child (never generated empty)
			add(t, "deleted "+victim.name)
		}
		// duplications of list entries (value collision) and element-count changes
		var lists []*dnode
		var findLists func(d *dnode, sk []*snode)
		findLists = func(d *dnode, sk []*snode) {
			by := map[string]*snode{}
			for _, k := range dataKids(sk) {
				by[k.name] = k
			}
			for _, k := range d.kids {
				ks := by[k.name]
				if ks == nil {
					continue
				}
				switch ks.kw {
				case "list":
					lists = append(lists, k)
					for _, e := range k.kids {
						findLists(e, ks.kids)
					}
				case "container":
					findLists(k, ks.kids)
				}
			}
		}
		_ = lists
		// operate on clones by path: simpler — mutate via name search on a clone
		t := base.clone()
		var mutate func(d *dnode, sk []*snode) bool
		mutate = func(d *dnode, sk []*snode) bool {
			by := map[string]*snode{}
			for _, k := range dataKids(sk) {
				by[k.name] = k
			}
			for _, k := range d.kids {
				ks := by[k.name]
				if ks == nil {
					continue
				}
				switch ks.kw {
				case "list":
					if len(k.kids) > 0 && r.Bool() {
						e := k.kids[r.Intn(len(k.kids))].clone()
						e.name = "dup" + e.name
						e.kid("k").vals = []string{e.name}
						k.kids = append(k.kids, e)
						return true
					}
					for _, e := range k.kids {
						if mutate(e, ks.kids) {
							return true
						}
					}
				case "leaf-list":
					if r.Bool() {
						k.vals = append(k.vals, "extra1", "extra2")
						return true
					}
				case "container":
					if mutate(k, ks.kids) {
						return true
					}
				}
			}
			return false
		}
		if mutate(t, sn.kids) {
			add(t, "duplicated entry / extra values")
		}
	}
	add(&dnode{name: "c18"}, "empty top container")
	return c
}

func (p *c18) Describe(tier string, seed int64, idx int) string {
	c := c18Gen(seed, idx)
	var b strings.Builder
	b.WriteString(yang.Render(c.mod, nil))
	for i, t := range c.trees {
		fmt.Fprintf(&b, "---- tree %d (%s)\n%s", i, c.labels[i], t.str())
	}
	return b.String()
}

func (p *c18) Run(tier string, seed int64, idx int) core.CaseResult {
	var res core.CaseResult
	c := c18Gen(seed, idx)
	text := yang.Render(c.mod, nil)
	cr := compileTexts(map[string]string{"m18": text}, nil, nil, nil, false)
	res.Ev("schemas_compiled", 1)
	if cr.Panic != "" {
		res.Fail("C18/panic/"+core.TopRepoFrame(cr.Stack), text, cr.Panic)
		return res
	}
	if !cr.Accepted() {
		res.Fail("C18/valid-schema-rejected", text, cr.ParseErr+cr.Err)
		return res
	}
	root := &snode{kw: "container", name: "", kids: []*snode{c.sn}}
	if c.flat {
		root.kids = c.sn.kids
		res.Ev("schemas_with_nodes_at_module_level", 1)
	}
	for i, t := range c.trees {
		in := fmt.Sprintf("%s---- data tree (%s)\n%s", text, c.labels[i], t.str())
		res.Key(in)
		// ---- validation
		var want []refErr
		rvalNode(root, t, nil, &want)
		var errs []error
		pan, msg, stack := core.Guard(func() { _, errs, _ = schema.ValidateSchema(cr.MS, t.toData(), false) })
		res.Ev("trees_validated", 1)
		if pan {
			res.Fail("C18/validate-panic/"+core.TopRepoFrame(stack), in, msg)
			continue
		}
		got := c18ImplErrs(errs)
		ws, gs := sortErrs(want), sortErrs(got)
		if len(ws) > 0 {
			res.Ev("trees_with_expected_errors", 1)
		} else {
			res.Ev("trees_valid", 1)
		}
		if strings.Join(ws, "\n") != strings.Join(gs, "\n") {
			cls := "C18/validation-errors-differ"
			// classify by the first difference
			wm, gm := map[string]int{}, map[string]int{}
			for _, w := range want {
				wm[w.kind]++
			}
			for _, g := range got {
				gm[g.kind]++
			}
			for _, k := range []string{"missing-mandatory", "missing-mandatory-choice", "element-count", "unique"} {
				if wm[k] != gm[k] {
					cls += "/" + k
					if gm[k] > wm[k] {
						cls += "-spurious"
					} else {
						cls += "-missed"
					}
					break
				}
			}
			res.Fail(cls, in, fmt.Sprintf("expected errors:\n  %s\nreported errors:\n  %s", strings.Join(ws, "\n  "), strings.Join(gs, "\n  ")))
		}
		// ---- default decoration
		wantDec := rdefNode(root, t)
		res.Ev("defaults_expected", int64(strings.Count(wantDec.str(), "\n")-strings.Count(t.str(), "\n")))
		var once, twice *dnode
		pan, msg, stack = core.Guard(func() {
			d1 := schema.AddDefaults(cr.MS, t.toData())
			once = walkData(d1)
			twice = walkData(schema.AddDefaults(cr.MS, d1))
		})
		res.Ev("decorations_compared", 1)
		if pan {
			res.Fail("C18/decorate-panic/"+core.TopRepoFrame(stack), in, msg)
			continue
		}
		if once.str() != wantDec.str() {
			res.Fail("C18/default-decoration-differs", in, fmt.Sprintf("expected decorated tree:\n%s\nobserved:\n%s", wantDec.str(), once.str()))
		} else if twice.str() != once.str() {
			res.Fail("C18/decoration-not-idempotent", in, fmt.Sprintf("decorating twice:\n%s\nonce:\n%s", twice.str(), once.str()))
		}
	}
	if idx%67 == 0 {
		res.Sample = map[string]interface{}{"trees": len(c.trees), "schema": text, "one_tree": c.trees[0].str()}
	}
	return res
}

func (p *c18) Witness(raw json.RawMessage) []core.Failure { return nil }
