package props

import (
	"strings"

	"verifharness/internal/yang"
)

// shrinkSet greedily deletes statements from a module set while pred holds
// (developer tool for triage of generated cases).
func shrinkSet(ms *yang.ModSet, pred func(*yang.ModSet) bool) *yang.ModSet {
	cur := ms.Clone()
	if !pred(cur) {
		return cur
	}
	changed := true
	for changed {
		changed = false
		// drop whole modules
		for i := len(cur.Mods) - 1; i >= 0; i-- {
			if len(cur.Mods) == 1 {
				break
			}
			try := cur.Clone()
			try.Mods = append(try.Mods[:i:i], try.Mods[i+1:]...)
			if pred(try) {
				cur = try
				changed = true
			}
		}
		// drop statements
		for mi := range cur.Mods {
			var paths [][]int
			var collect func(s *yang.Stmt, path []int)
			collect = func(s *yang.Stmt, path []int) {
				for i, k := range s.Kids {
					p := append(append([]int{}, path...), i)
					collect(k, p)
					paths = append(paths, p)
				}
			}
			collect(cur.Mods[mi], nil)
			// delete deeper/later statements first
			for pi := len(paths) - 1; pi >= 0; pi-- {
				p := paths[pi]
				try := cur.Clone()
				s := try.Mods[mi]
				ok := true
				for _, ix := range p[:len(p)-1] {
					if ix >= len(s.Kids) {
						ok = false
						break
					}
					s = s.Kids[ix]
				}
				last := p[len(p)-1]
				if !ok || last >= len(s.Kids) {
					continue
				}
				kw := s.Kids[last].Kw
				if kw == "namespace" || kw == "prefix" {
					continue
				}
				s.Kids = append(s.Kids[:last:last], s.Kids[last+1:]...)
				if pred(try) {
					cur = try
					changed = true
				}
			}
		}
	}
	return cur
}

func errContains(texts map[string]string, feats []string, match string) bool {
	cr := compileTexts(texts, nil, feats, nil, false)
	return strings.Contains(cr.Err+cr.Panic, match)
}
