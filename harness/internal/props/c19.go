package props

import (
	"encoding/json"
	"fmt"
	"regexp"
	"sort"
	"strings"

	"github.com/sdcio/yang-parser/data/datanode"
	"github.com/sdcio/yang-parser/data/encoding"
	"github.com/sdcio/yang-parser/schema"

	"verifharness/internal/core"
	"verifharness/internal/yang"
)

// C19: encoders and decoders round-trip and decoding is total.
type c19 struct{ base }

func init() {
	core.Register(&c19{base: base{
		id: "C19",
		rule: "cases = generated schemas with every leaf type (64-bit extremes, values above 2^53, decimal64, empty, identityref into two other modules, unions, strings needing JSON and XML " +
			"escaping), user- and system-ordered lists and leaf-lists, choices, presence and non-presence containers, each with 3 valid data trees built by construction; per tree: " +
			"ToRFC7951 / ToJSON / ToXML followed by Unmarshal (validation on and off) must give back the same tree (container children as a set, order kept for user-ordered lists and leaf-lists); " +
			"fuzz: byte mutations and truncations of the three encodings plus random bytes must never panic and any returned tree must conform to the schema (every value accepted by its type); " +
			"scalar substitution: one scalar of a valid JSON document is replaced by a token its type rejects (fraction for an integer, out-of-range, wrong kind) and the decoder must fail, " +
			"a returned tree with a different accepted value is reported as silently altered; distinct_nontrivial = distinct (schema, tree, encoding) and distinct fuzz inputs",
		block: 8,
		assumptions: []string{
			"strings are restricted to characters legal in XML 1.0 (no control characters other than TAB/LF); empty leaves are in the decoder's canonical form (value \"\")",
			"the root data node is named 'data' for ToXML and compared below the root; JSON decoding yields container children in map order (compared as a set)",
			"a JSON number in exponent or '1.0' form for an integer leaf is not asserted either way",
		},
		minEvents: []string{"trees_encoded", "round_trips_compared", "fuzz_inputs", "fuzz_inputs_decoded_to_a_tree", "scalar_substitutions", "values_above_2_53", "deep_nesting_inputs", "structural_mutations"},
	}})
}

func (p *c19) NumCases(tier string, seed int64) int { return tierN(tier, 2500, 136000) }

var c19Ids = yang.S("module", "ids", yang.S("namespace", "urn:verif:ids"), yang.S("prefix", "ids"), yang.S("identity", "base-id"), yang.S("identity", "near", yang.S("base", "base-id")))
var c19Ids2 = yang.S("module", "ids2", yang.S("namespace", "urn:verif:ids2"), yang.S("prefix", "ids2"), yang.S("import", "ids", yang.S("prefix", "i")), yang.S("identity", "far", yang.S("base", "i:near")),
	// (an identity named like one of the other module: the two are told apart by their modules)
	yang.S("identity", "near", yang.S("base", "i:base-id")))

type c19Case struct {
	mod   *yang.Stmt
	sn    *snode
	trees []*dnode
}

func c19Gen(seed int64, idx int) *c19Case {
	r := core.CaseRng(seed, "C19", idx)
	m, sn := c18GenSchemaX(r, true)
	c := &c19Case{mod: m, sn: sn}
	for v := 0; v < 3; v++ {
		c.trees = append(c.trees, &dnode{name: "data", kids: []*dnode{{name: "c18", kids: c18GenKids(r, sn.kids, 2+v)}}})
	}
	return c
}

func (c *c19Case) texts() map[string]string {
	return map[string]string{"m18": yang.Render(c.mod, nil), "ids": yang.Render(c19Ids, nil), "ids2": yang.Render(c19Ids2, nil)}
}

func (p *c19) Describe(tier string, seed int64, idx int) string {
	c := c19Gen(seed, idx)
	var b strings.Builder
	b.WriteString(c.texts()["m18"])
	for i, t := range c.trees {
		fmt.Fprintf(&b, "---- tree %d\n%s", i, t.str())
	}
	return b.String()
}

// canonical rendering for comparison: children sorted unless user ordered
func c19Canon(sn *snode, d *dnode, b *strings.Builder, depth int, sortKids bool) {
	ind := strings.Repeat("  ", depth)
	fmt.Fprintf(b, "%s%s", ind, d.name)
	if len(d.vals) > 0 {
		fmt.Fprintf(b, " = %q", d.vals)
	}
	b.WriteString("\n")
	by := map[string]*snode{}
	if sn != nil {
		for _, k := range dataKids(sn.kids) {
			by[k.name] = k
		}
	}
	kids := append([]*dnode{}, d.kids...)
	if sortKids {
		sort.SliceStable(kids, func(i, j int) bool { return kids[i].name < kids[j].name })
	}
	for _, k := range kids {
		ks := by[k.name]
		switch {
		case ks != nil && ks.kw == "list":
			// entries: order matters only for ordered-by user
			l := &dnode{name: k.name, kids: append([]*dnode{}, k.kids...)}
			if !ks.ordUser {
				sort.SliceStable(l.kids, func(i, j int) bool { return c19EntryKey(l.kids[i]) < c19EntryKey(l.kids[j]) })
			}
			fmt.Fprintf(b, "%s  %s (list)\n", ind, l.name)
			for _, e := range l.kids {
				c19Canon(ks, e, b, depth+2, true)
			}
		case ks != nil && ks.kw == "leaf-list":
			vals := append([]string{}, k.vals...)
			if len(vals) == 0 {
				// a leaf-list without entries is the same tree as one without the leaf-list
				continue
			}
			if !ks.ordUser {
				sort.Strings(vals)
			}
			fmt.Fprintf(b, "%s  %s = %q\n", ind, k.name, vals)
		case ks != nil && ks.kw == "container":
			c19Canon(ks, k, b, depth+1, true)
		default:
			// integers are compared by value: "+7", "007" and "7" are one value
			if ks != nil && ks.rtype != nil && (ks.rtype.Kind == "int" || ks.rtype.Kind == "uint") && len(k.vals) == 1 {
				if v, ok := yang.ParseInteger(k.vals[0]); ok {
					k = &dnode{name: k.name, vals: []string{v.String()}, kids: k.kids}
				}
			}
			c19Canon(nil, k, b, depth+1, true)
		}
	}
}

// c19EntryKey: what tells the entries of a list apart (the first key names the entry; a second key k2, if
// the list has one, belongs to its identity as well).
func c19EntryKey(e *dnode) string {
	key := e.name
	if k2 := e.kid("k2"); k2 != nil && len(k2.vals) == 1 {
		key += "\x00" + k2.vals[0]
	}
	return key
}

func c19CanonStr(root *snode, d *dnode) string {
	var b strings.Builder
	// compare below the root (the decoded root is named "")
	top := &dnode{name: "<root>", kids: d.kids}
	c19Canon(root, top, &b, 0, true)
	return b.String()
}

var encNames = map[encoding.EncType]string{encoding.RFC7951: "rfc7951", encoding.JSON: "json", encoding.XML: "xml"}

func c19Encode(ms schema.ModelSet, enc encoding.EncType, t *dnode) (out []byte, panicMsg string) {
	pan, msg, _ := core.Guard(func() {
		switch enc {
		case encoding.RFC7951:
			out = encoding.ToRFC7951(ms, t.toData())
		case encoding.JSON:
			out = encoding.ToJSON(ms, t.toData())
		default:
			out = encoding.ToXML(ms, t.toData())
		}
	})
	if pan {
		return nil, msg
	}
	return out, ""
}

func c19Decode(ms schema.ModelSet, enc encoding.EncType, in []byte, validate bool) (tree datanode.DataNode, err error, panicMsg, stack string) {
	vt := schema.ValidateAll
	if !validate {
		vt = schema.DontValidate
	}
	pan, msg, st := core.Guard(func() { tree, err = encoding.NewUnmarshaller(enc).SetValidation(vt).Unmarshal(ms, in) })
	if pan {
		return nil, nil, msg, st
	}
	return tree, err, "", ""
}

// conforms: every leaf value of a decoded tree is accepted by its type
// c19CaseChains: data child name -> the (choice, case) pairs it lies in, outermost first.
func c19CaseChains(kids []*snode, chain [][2]string, out map[string][][2]string) {
	for _, k := range kids {
		if k.kw == "choice" {
			for _, cs := range k.kids {
				c19CaseChains(cs.kids, append(append([][2]string{}, chain...), [2]string{k.name, cs.name}), out)
			}
			continue
		}
		out[k.name] = chain
	}
}

func c19Conforms(root *snode, d *dnode, path string, bad *[]string) {
	by := map[string]*snode{}
	for _, k := range dataKids(root.kids) {
		by[k.name] = k
	}
	// at most one case of a choice has nodes
	chains := map[string][][2]string{}
	c19CaseChains(root.kids, nil, chains)
	active := map[string]string{} // choice (with its position in the nesting) -> case
	for _, k := range d.kids {
		prefix := ""
		for _, cc := range chains[k.name] {
			key := prefix + cc[0]
			if prev, ok := active[key]; ok && prev != cc[1] {
				*bad = append(*bad, fmt.Sprintf("%s/%s: nodes of two cases of choice %s are present (%s and %s)", path, k.name, cc[0], prev, cc[1]))
				break
			}
			active[key] = cc[1]
			prefix = key + "/" + cc[1] + "/"
		}
	}
	seen := map[string]bool{}
	for _, k := range d.kids {
		ks := by[k.name]
		kp := path + "/" + k.name
		if seen[k.name] {
			*bad = append(*bad, kp+": the node occurs twice below its parent")
		}
		seen[k.name] = true
		if ks == nil {
			*bad = append(*bad, kp+": node not in the schema")
			continue
		}
		switch ks.kw {
		case "container":
			c19Conforms(ks, k, kp, bad)
		case "list":
			keys := map[string]bool{}
			for _, e := range k.kids {
				if keys[c19EntryKey(e)] {
					*bad = append(*bad, kp+"/"+e.name+": two entries of the list have this key")
				}
				keys[c19EntryKey(e)] = true
				c19Conforms(ks, e, kp+"/"+e.name, bad)
			}
		default:
			for _, v := range k.vals {
				if ks.rtype != nil && !ks.rtype.Accepts(v) {
					*bad = append(*bad, fmt.Sprintf("%s: value %q is outside the type's value space", kp, v))
				}
			}
			if ks.kw == "leaf" && len(k.vals) != 1 {
				*bad = append(*bad, fmt.Sprintf("%s: leaf with %d values", kp, len(k.vals)))
			}
		}
	}
}

var jsonScalarRe = regexp.MustCompile(`"([A-Za-z0-9:_\-]+)":("(?:[^"\\]|\\.)*"|-?[0-9][0-9.]*|true|false)`)

func (p *c19) Run(tier string, seed int64, idx int) core.CaseResult {
	var res core.CaseResult
	c := c19Gen(seed, idx)
	texts := c.texts()
	schemaText := texts["m18"]
	cr := compileTexts(texts, nil, nil, nil, false)
	if cr.Panic != "" {
		res.Fail("C19/panic/"+core.TopRepoFrame(cr.Stack), schemaText, cr.Panic)
		return res
	}
	if !cr.Accepted() {
		res.Fail("C19/valid-schema-rejected", schemaText, cr.ParseErr+cr.Err)
		return res
	}
	ms := cr.MS
	root := &snode{kw: "container", kids: []*snode{c.sn}}
	r := core.CaseRng(seed, "C19fz", idx)
	var encodings [][]byte
	// what the encoders returned, kept as it was handed over (not copied) next to a copy made at once: the bytes
	// belong to the caller, whatever is encoded afterwards
	type c19Kept struct {
		enc        encoding.EncType
		tree       int
		out, taken []byte
	}
	var kept []c19Kept
	for ti, t := range c.trees {
		want := c19CanonStr(root, t)
		if strings.Contains(want, "9007199254740993") || strings.Contains(want, "18446744073709551615") || strings.Contains(want, "9223372036854775807") {
			res.Ev("values_above_2_53", 1)
		}
		for _, enc := range []encoding.EncType{encoding.RFC7951, encoding.JSON, encoding.XML} {
			in := fmt.Sprintf("%s---- tree %d, encoding %s\n%s", schemaText, ti, encNames[enc], t.str())
			bytes, pmsg := c19Encode(ms, enc, t)
			res.Ev("trees_encoded", 1)
			res.Key(in)
			if pmsg != "" {
				res.Fail("C19/encode-panic/"+encNames[enc], in, pmsg)
				continue
			}
			encodings = append(encodings, bytes)
			kept = append(kept, c19Kept{enc, ti, bytes, append([]byte{}, bytes...)})
			for _, validate := range []bool{true, false} {
				tree, err, pmsg, stack := c19Decode(ms, enc, bytes, validate)
				in2 := in + "---- encoded\n" + string(bytes) + fmt.Sprintf("\n(validation=%v)", validate)
				if pmsg != "" {
					res.Fail("C19/decode-panic/"+encNames[enc]+"/"+core.TopRepoFrame(stack), in2, pmsg)
					continue
				}
				if err != nil {
					res.Fail("C19/own-encoding-rejected/"+encNames[enc], in2, err.Error())
					continue
				}
				got := c19CanonStr(root, walkData(tree))
				res.Ev("round_trips_compared", 1)
				if got != want {
					res.Fail("C19/round-trip-differs/"+encNames[enc]+"/"+c19DiffClass(want, got), in2, firstDiff(want, got)+"\n(- original, + decoded)")
				}
			}
		}
	}
	for _, k := range kept {
		res.Ev("encodings_compared_after_later_encodings", 1)
		if string(k.out) != string(k.taken) {
			res.Fail("C19/encoding-changes-after-it-was-returned/"+encNames[k.enc], fmt.Sprintf("%s---- tree %d, encoding %s\n%s", schemaText, k.tree, encNames[k.enc], c.trees[k.tree].str()),
				fmt.Sprintf("as returned:\n%s\nafter the following encodings, the same slice:\n%s", core.Trunc(string(k.taken), 1500), core.Trunc(string(k.out), 1500)))
			break
		}
	}
	// ---- trees that do not conform (a mandatory node deleted, ...): every decoder, used as it comes, refuses
	// their encodings.  A decoding without validation comes first: what one unmarshaller was told says nothing
	// about the next one.
	{
		base := c.trees[idx%len(c.trees)]
		var paths [][]int
		var collect func(d *dnode, p []int)
		collect = func(d *dnode, p []int) {
			for i, k := range d.kids {
				pp := append(append([]int{}, p...), i)
				paths = append(paths, pp)
				collect(k, pp)
			}
		}
		collect(base, nil)
		tried := 0
		for _, pi := range r.Perm(len(paths)) {
			if tried >= 2 {
				break
			}
			pth := paths[pi]
			if len(pth) < 2 {
				continue
			}
			t := base.clone()
			cur := t
			for _, ix := range pth[:len(pth)-1] {
				cur = cur.kids[ix]
			}
			last := pth[len(pth)-1]
			victim := cur.kids[last]
			if victim.name == "k" || victim.name == "k2" {
				continue
			}
			cur.kids = append(cur.kids[:last:last], cur.kids[last+1:]...)
			if len(cur.kids) == 0 {
				continue // (a node emptied of its last child or entry is no state an encoding can carry)
			}
			var want []refErr
			rvalNode(root, t, nil, &want)
			if len(want) == 0 {
				continue
			}
			tried++
			for _, enc := range []encoding.EncType{encoding.RFC7951, encoding.JSON, encoding.XML} {
				bytes, pmsg := c19Encode(ms, enc, t)
				if pmsg != "" {
					continue
				}
				in := fmt.Sprintf("%s---- tree without %s (expected: %v), encoding %s\n%s---- encoded\n%s", schemaText, victim.name, sortErrs(want), encNames[enc], t.str(), string(bytes))
				res.Ev("non_conforming_trees_decoded", 1)
				tree, err, pmsg, stack := c19Decode(ms, enc, bytes, false)
				if pmsg != "" {
					res.Fail("C19/decode-panic/"+encNames[enc]+"/"+core.TopRepoFrame(stack), in, pmsg)
					continue
				}
				_, _ = tree, err // (either outcome is fine without validation; the XML decoder counts list entries even then)
				var derr error
				var dtree datanode.DataNode
				pan, msg, st := core.Guard(func() { dtree, derr = encoding.NewUnmarshaller(enc).Unmarshal(ms, bytes) })
				if pan {
					res.Fail("C19/decode-panic/"+encNames[enc]+"/"+core.TopRepoFrame(st), in, msg)
				} else if derr == nil && dtree != nil {
					res.Fail("C19/non-conforming-tree-returned/"+encNames[enc], in, "the decoder, used as it comes (validation on), returned a tree and no error")
				}
			}
		}
	}
	// ---- a leaf-list node without values: the encodings must at least be well-formed
	for _, t := range c.trees {
		var ll *dnode
		var find func(d *dnode)
		find = func(d *dnode) {
			for _, k := range d.kids {
				if len(k.vals) > 1 && ll == nil {
					ll = k
				}
				find(k)
			}
		}
		t2 := t.clone()
		find(t2)
		if ll == nil {
			continue
		}
		ll.vals = []string{}
		for _, enc := range []encoding.EncType{encoding.RFC7951, encoding.JSON} {
			b, pmsg := c19Encode(ms, enc, t2)
			res.Ev("empty_leaf_list_encodings", 1)
			in := fmt.Sprintf("%s---- tree with an empty leaf-list node %s, encoding %s\n%s---- encoded\n%s", schemaText, ll.name, encNames[enc], t2.str(), string(b))
			if pmsg != "" {
				res.Fail("C19/encode-panic/"+encNames[enc], in, pmsg)
			} else if !json.Valid(b) {
				res.Fail("C19/encoder-emits-malformed-json/"+encNames[enc], in, "the output is not a JSON document")
			}
		}
		break
	}
	// ---- fuzz
	encOf := func(i int) encoding.EncType {
		return []encoding.EncType{encoding.RFC7951, encoding.JSON, encoding.XML}[i%3]
	}
	fuzzOne := func(enc encoding.EncType, in []byte, kind string) {
		res.Ev("fuzz_inputs", 1)
		res.Key(fmt.Sprintf("%d|%s", enc, in))
		tree, err, pmsg, stack := c19Decode(ms, enc, in, true)
		desc := fmt.Sprintf("%s---- %s input for the %s decoder\n%s", schemaText, kind, encNames[enc], string(in))
		if pmsg != "" {
			res.Fail("C19/decode-panic/"+encNames[enc]+"/"+core.TopRepoFrame(stack), desc, pmsg)
			return
		}
		if err == nil && tree != nil {
			res.Ev("fuzz_inputs_decoded_to_a_tree", 1)
			var bad []string
			pan, msg, _ := core.Guard(func() { c19Conforms(root, walkData(tree), "", &bad) })
			if pan {
				res.Fail("C19/decoded-tree-cannot-be-walked/"+encNames[enc], desc, msg)
			} else if len(bad) > 0 {
				cls := "C19/decoded-tree-does-not-conform/" + encNames[enc]
				only := true
				for _, b := range bad {
					only = only && strings.Contains(b, "nodes of two cases of choice")
				}
				if only {
					cls = "C19/decoded-tree-does-not-conform/two-cases-of-a-choice"
				}
				res.Fail(cls, desc, strings.Join(bad, "\n"))
			} else {
				// the decoder returned this tree as valid under the schema: its three encodings decode to it again
				dt := walkData(tree)
				dt.name = "data"
				want := c19CanonStr(root, dt)
				for _, e2 := range []encoding.EncType{encoding.RFC7951, encoding.JSON, encoding.XML} {
					b2, pm := c19Encode(ms, e2, dt)
					d2 := desc + "\n---- the tree it decoded to, encoded as " + encNames[e2] + "\n" + string(b2)
					if pm != "" {
						res.Fail("C19/decoded-tree/encode-panic/"+encNames[e2], d2, pm)
						continue
					}
					t2, err2, pm2, st2 := c19Decode(ms, e2, b2, true)
					res.Ev("decoded_trees_round_tripped", 1)
					switch {
					case pm2 != "":
						res.Fail("C19/decode-panic/"+encNames[e2]+"/"+core.TopRepoFrame(st2), d2, pm2)
					case err2 != nil:
						res.Fail("C19/decoded-tree/own-encoding-rejected/"+encNames[e2], d2, err2.Error())
					default:
						if got := c19CanonStr(root, walkData(t2)); got != want {
							res.Fail("C19/decoded-tree/round-trip-differs/"+encNames[e2]+"/"+c19DiffClass(want, got), d2, firstDiff(want, got)+"\n(- decoded tree, + after a round trip)")
						}
					}
				}
			}
		}
	}
	for i, e := range encodings {
		enc := encOf(i)
		for k := 0; k < 6; k++ {
			b := append([]byte{}, e...)
			if len(b) == 0 {
				continue
			}
			pos := r.Intn(len(b))
			switch r.Intn(5) {
			case 0:
				b = b[:pos]
			case 1:
				b[pos] = core.Pick(r, []byte("{}[]\",:<>/&0 n\\"))
			case 2:
				b = append(b[:pos], b[pos+1:]...)
			case 3:
				b = append(b[:pos], append([]byte{core.Pick(r, []byte("{}[]\",:<>/&0 n\\"))}, b[pos:]...)...)
			default:
				b[pos] = byte(r.Intn(256))
			}
			fuzzOne(enc, b, "mutated")
		}
	}
	for _, s := range []string{"", "{}", "[]", "null", "{\"m18:c18\":null}", "{\"m18:c18\":[]}", "{\"m18:c18\":{}}", "{\"c18\":{}}", "{\"c18\":1}", "<data/>", "<data><c18/></data>",
		"<data><c18 xmlns=\"urn:verif:m18\"></c18></data>", "<a><b></a>", "{\"m18:c18\":{\"nosuch\":1}}"} {
		for _, enc := range []encoding.EncType{encoding.RFC7951, encoding.JSON, encoding.XML} {
			fuzzOne(enc, []byte(s), "fixed hostile")
		}
	}
	// nesting far beyond anything a decoder may recurse into (once per run: 10 MB per document)
	if idx == 0 {
		for oi, open := range []string{"[", "{\"a\":", "<a>"} {
			closer := []string{"]", "}", "</a>"}[oi]
			// a well-formed document: the nesting is closed again
			deep := strings.Repeat(open, 5000000) + []string{"", "1", ""}[oi] + strings.Repeat(closer, 5000000)
			docs := []string{deep}
			if oi == 0 {
				// the nesting stands behind strings that end in an escaped backslash or hold escaped quotes and
				// brackets: whoever measures the depth must read strings as JSON does
				docs = append(docs, `["C:\\",`+deep+`]`, `["a\\\"[[[", "]]]\\",`+deep+`]`, `{"k\\":"v\\","d":`+deep+`}`)
			}
			for _, deep := range docs {
				for _, enc := range []encoding.EncType{encoding.RFC7951, encoding.JSON, encoding.XML} {
					res.Ev("fuzz_inputs", 1)
					res.Ev("deep_nesting_inputs", 1)
					tree, err, pmsg, stack := c19Decode(ms, enc, []byte(deep), true)
					if pmsg != "" {
						res.Fail("C19/decode-panic/"+encNames[enc]+"/"+core.TopRepoFrame(stack), "5,000,000 x "+open+" for the "+encNames[enc]+" decoder", pmsg)
					} else if err == nil && tree != nil {
						res.Fail("C19/decoded-tree-does-not-conform/"+encNames[enc], "5,000,000 x "+open, "a document that is nothing but nesting decoded to a tree")
					}
				}
			}
		}
	}
	// list keys of the wrong JSON kind
	c.mod.Walk(func(s *yang.Stmt, _ int) {
		if s.Kw == "list" {
			for _, kv := range []string{"[]", "{}", "null", "[[]]", "true", "1.5"} {
				doc := fmt.Sprintf("{\"m18:c18\":{\"%s\":[{\"k\":%s}]}}", s.Arg, kv)
				fuzzOne(encoding.RFC7951, []byte(doc), "list key of wrong kind")
				fuzzOne(encoding.JSON, []byte(strings.ReplaceAll(doc, "m18:", "")), "list key of wrong kind")
			}
		}
	}, 0)
	// ---- structural mutations of valid JSON documents: a member given as an array of two values or of none,
	// a member given twice (plain and module-qualified), a list entry given twice
	for i, e := range encodings {
		enc := encOf(i)
		if enc == encoding.XML {
			continue
		}
		doc := string(e)
		for _, loc := range jsonScalarRe.FindAllStringSubmatchIndex(doc, 6) {
			name, val := doc[loc[2]:loc[3]], doc[loc[4]:loc[5]]
			plain := name
			if j := strings.Index(name, ":"); j >= 0 {
				plain = name[j+1:]
			}
			for _, m := range []string{
				doc[:loc[4]] + "[" + val + "," + val + "]" + doc[loc[5]:],
				doc[:loc[4]] + "[]" + doc[loc[5]:],
				doc[:loc[0]] + "\"" + plain + "\":" + val + ",\"m18:" + plain + "\":" + val + doc[loc[1]:],
			} {
				res.Ev("structural_mutations", 1)
				fuzzOne(enc, []byte(m), "structurally mutated")
			}
		}
	}
	for ti, t := range c.trees {
		dup := t.clone()
		done := false
		var walk func(d *dnode, sk []*snode)
		walk = func(d *dnode, sk []*snode) {
			for _, k := range d.kids {
				for _, ks := range dataKids(sk) {
					if ks.name != k.name || done {
						continue
					}
					if ks.kw == "list" && len(k.kids) > 0 {
						k.kids = append(k.kids, k.kids[0].clone())
						done = true
					} else if ks.kw == "container" {
						walk(k, ks.kids)
					}
				}
			}
		}
		walk(dup, root.kids)
		if !done {
			continue
		}
		for _, enc := range []encoding.EncType{encoding.RFC7951, encoding.JSON, encoding.XML} {
			if b, pmsg := c19Encode(ms, enc, dup); pmsg == "" {
				res.Ev("structural_mutations", 1)
				fuzzOne(enc, b, fmt.Sprintf("tree %d with its first list entry given twice, encoded as", ti))
			}
		}
	}
	// ---- a node of another case added next to the nodes of the active case
	for ti, t := range c.trees {
		mut := t.clone()
		done := false
		var walk func(d *dnode, sk []*snode)
		walk = func(d *dnode, sk []*snode) {
			if done {
				return
			}
			chains := map[string][][2]string{}
			c19CaseChains(sk, nil, chains)
			for _, k := range d.kids {
				ch := chains[k.name]
				if len(ch) != 1 || done {
					continue
				}
				// a leaf of a sibling case of the same (outermost) choice
				for _, cand := range dataKids(sk) {
					cc := chains[cand.name]
					if cand.kw == "leaf" && len(cand.vals) > 0 && len(cc) == 1 && cc[0][0] == ch[0][0] && cc[0][1] != ch[0][1] {
						d.kids = append(d.kids, &dnode{name: cand.name, vals: []string{cand.vals[0]}})
						done = true
						break
					}
				}
			}
			for _, k := range d.kids {
				for _, ks := range dataKids(sk) {
					if ks.name == k.name && ks.kw == "container" {
						walk(k, ks.kids)
					}
				}
			}
		}
		walk(mut, root.kids)
		if !done {
			continue
		}
		for _, enc := range []encoding.EncType{encoding.RFC7951, encoding.JSON, encoding.XML} {
			if b, pmsg := c19Encode(ms, enc, mut); pmsg == "" {
				res.Ev("structural_mutations", 1)
				res.Ev("second_case_mutations", 1)
				fuzzOne(enc, b, fmt.Sprintf("tree %d with a leaf of a second case of a choice added, encoded as", ti))
			}
		}
	}
	// ---- scalar substitution in JSON documents
	leafTypes := map[string]*snode{}
	var collect func(kids []*snode)
	ambiguous := map[string]bool{}
	collect = func(kids []*snode) {
		for _, k := range dataKids(kids) {
			if k.kw == "leaf" || k.kw == "leaf-list" {
				if _, twice := leafTypes[k.name]; twice {
					// the same leaf name at several levels: a member name in the document does not
					// tell which leaf (and type) it is
					ambiguous[k.name] = true
				}
				leafTypes[k.name] = k
			}
			collect(k.kids)
		}
	}
	collect(c.sn.kids)
	for n := range ambiguous {
		delete(leafTypes, n)
	}
	for i, e := range encodings {
		enc := encOf(i)
		if enc == encoding.XML {
			continue
		}
		doc := string(e)
		ms2 := jsonScalarRe.FindAllStringSubmatchIndex(doc, -1)
		for _, loc := range ms2 {
			name := doc[loc[2]:loc[3]]
			if j := strings.Index(name, ":"); j >= 0 {
				name = name[j+1:]
			}
			lt := leafTypes[name]
			if lt == nil || lt.rtype == nil || lt.name == "k" {
				continue
			}
			var toks []string
			switch lt.rtype.Kind {
			case "int", "uint":
				toks = []string{"1.5", "0.5", "99999999999999999999999", "-99999999999999999999999"}
				if lt.rtype.Kind == "uint" {
					toks = append(toks, "-1")
				}
				if lt.rtype.Bits <= 32 {
					toks = append(toks, "4294967296", "-4294967297")
				}
			case "boolean":
				toks = []string{"2", "\"maybe\""}
			case "enumeration":
				toks = []string{"\"no-such-enum\"", "7"}
			case "decimal64":
				toks = []string{"\"0.12345\"", "\"abc\""}
			case "union":
				toks = []string{"\"no-member-takes-this\"", "1000"}
			}
			// a valid value behind the name of the leaf's own module (the form RFC 7951 reserves for
			// identityrefs): not a value of any other type, and not an identity of that module either
			if lt.rtype.Kind != "string" && lt.rtype.Kind != "empty" && len(lt.vals) > 0 {
				for _, v := range lt.vals[:min(2, len(lt.vals))] {
					if j := strings.Index(v, ":"); j >= 0 {
						// (a qualified value behind one more module name is no value either)
						toks = append(toks, "\"m18:"+v+"\"")
						v = v[j+1:]
					}
					toks = append(toks, "\"m18:"+v+"\"")
				}
			}
			for _, tk := range toks {
				mut := doc[:loc[4]] + tk + doc[loc[5]:]
				res.Ev("scalar_substitutions", 1)
				tree, err, pmsg, stack := c19Decode(ms, enc, []byte(mut), true)
				desc := fmt.Sprintf("%s---- leaf %s: scalar replaced by %s (%s decoder)\n%s", schemaText, name, tk, encNames[enc], mut)
				if pmsg != "" {
					res.Fail("C19/decode-panic/"+encNames[enc]+"/"+core.TopRepoFrame(stack), desc, pmsg)
					continue
				}
				if err == nil && tree != nil {
					txt := strings.Trim(tk, "\"")
					if lt.rtype.Accepts(txt) {
						continue // the token happens to be valid for this type
					}
					res.Fail("C19/rejected-value-silently-altered/"+encNames[enc]+"/"+lt.rtype.Kind, desc,
						fmt.Sprintf("token %s is not a value of the leaf's type, but the document decoded:\n%s", tk, walkData(tree).str()))
				}
			}
		}
	}
	// ---- a leaf of type empty has one value: the same member with two or three nulls is no document of the schema
	for i, e := range encodings {
		enc := encOf(i)
		if enc == encoding.XML {
			continue
		}
		doc := string(e)
		for _, loc := range c19EmptyRe.FindAllStringSubmatchIndex(doc, -1) {
			name := doc[loc[2]:loc[3]]
			if j := strings.Index(name, ":"); j >= 0 {
				name = name[j+1:]
			}
			lt := leafTypes[name]
			if lt == nil || lt.rtype == nil || lt.kw != "leaf" || lt.rtype.Kind != "empty" {
				continue
			}
			for _, tk := range []string{"[null,null]", "[null, null, null]"} {
				mut := doc[:loc[4]] + tk + doc[loc[5]:]
				res.Ev("empty_leaf_cardinality_substitutions", 1)
				tree, err, pmsg, stack := c19Decode(ms, enc, []byte(mut), true)
				desc := fmt.Sprintf("%s---- leaf %s of type empty: [null] replaced by %s (%s decoder)\n%s", schemaText, name, tk, encNames[enc], mut)
				if pmsg != "" {
					res.Fail("C19/decode-panic/"+encNames[enc]+"/"+core.TopRepoFrame(stack), desc, pmsg)
					continue
				}
				if err == nil && tree != nil {
					res.Fail("C19/accepted-but-invalid/"+encNames[enc]+"/empty-leaf-with-several-values", desc, "the document decoded:\n"+walkData(tree).str())
				}
			}
		}
	}
	if idx%71 == 0 && len(encodings) > 0 {
		res.Sample = map[string]interface{}{"trees": len(c.trees), "rfc7951": core.Trunc(string(encodings[0]), 300)}
	}
	return res
}

var c19EmptyRe = regexp.MustCompile(`"([A-Za-z0-9_.:-]+)":\s*(\[\s*null\s*\])`)

func c19DiffClass(want, got string) string {
	d := firstDiff(want, got)
	switch {
	case strings.Contains(d, "9007199254740993") || strings.Contains(d, "18446744073709551615") || strings.Contains(d, "922337203685477580") || strings.Contains(d, "9007199254740992"):
		return "integer-beyond-2-53-altered"
	}
	return "other"
}

func (p *c19) Witness(raw json.RawMessage) []core.Failure { return nil }
