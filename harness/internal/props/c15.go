package props

import (
	"encoding/json"
	"fmt"
	"regexp"
	"strings"

	"github.com/sdcio/yang-parser/schema"

	"verifharness/internal/core"
	"verifharness/internal/xp"
	"verifharness/internal/yang"
)

// C15: embedded XPath is checked at compile time in the right prefix scope.
type c15 struct{ base }

func init() {
	core.Register(&c15{base: base{
		id: "C15",
		rule: "exhaustive matrix: placement of the statement {directly in the module, in a grouping used in the same module, in a grouping used from another module, in a grouping used inside an " +
			"augment of a third module, under an augment into another module, (leafref only) in a typedef used from another module, a when on a uses of another module's grouping, " +
			"a must added by refine to another module's grouping, a when on an augment of another module, a must added by deviate add from another module} x statement {must, when, leafref path} x prefix usage " +
			"{none, own prefix of the defining module, prefix imported only by the defining module, prefix imported only by the using module, the same prefix bound to different modules in the " +
			"defining and the using module, undeclared prefix} x expression {valid, and one representative per rejection class of C04: unbalanced bracket, dangling operator, unknown function, " +
			"attribute axis, '//', variable, two operands without operator, node-type test, unterminated literal, malformed number}; thorough adds seeded expressions from the C02/C04 generators; " +
			"checked: verdict; on reject the error quotes the expression and carries a file:line:col location; on accept every prefixed step of the compiled machine " +
			"(Name-Push lines of PrintMachine) carries the namespace the prefix denotes in the module where the statement is textually written; distinct_nontrivial = distinct module-set texts",
		block: 16,
		assumptions: []string{
			"the namespace of unprefixed steps is not asserted (RFC 6020 6.4.1 makes it depend on the current node), only that of prefixed steps",
			"the acceptance oracle for the expression itself is the reference recogniser of C04 (known C04 findings are not used as expressions here)",
		},
		minEvents: []string{"sets_compiled", "accepted_sets_with_namespace_check", "prefixed_steps_checked", "rejected_sets_with_error_check"},
	}})
}

var c15Placements = []string{"in-a-submodule", "direct", "grouping-local", "grouping-other-module", "grouping-in-augment", "augment-other-module", "typedef-other-module",
	// statements written in one module that land on a node defined in another one
	"when-on-uses-of-foreign-grouping", "must-by-refine-of-foreign-grouping", "when-on-augment-of-other-module", "must-by-deviate-add-from-other-module",
	// the same expression text written twice: in a grouping of the defining module and directly in the module that uses that grouping
	"grouping-other-module-plus-own-copy",
	// copied twice: the grouping is used by a grouping of a second module, which a third module uses
	"grouping-through-grouping-of-a-third-module",
	// a refine in the using module adds a must whose text the refined leaf of the grouping carries already: two
	// statements, each read in the module in which it is written
	"must-by-refine-repeating-the-must-of-the-grouping",
	// a when on a uses that stands directly in an augment with a when of its own: the nodes carry both
	"when-on-uses-inside-an-augment-with-a-when",
	// the statement stands on the key leaf of a list, directly or through a uses of another module's grouping
	"on-a-list-key", "on-a-list-key-from-a-grouping"}
var c15Stmts = []string{"must", "when", "path"}
var c15PrefixUses = []string{"none", "own", "imported-by-definer-only", "imported-by-user-only", "same-prefix-different-modules", "undeclared", "same-prefix-in-included-submodule",
	// (in-a-submodule only) the prefix the including module gives itself is nothing to the submodule, whose
	// belongs-to prefix is another one: unknown there, or whatever the submodule's own import binds it to
	"module-prefix-unbound-in-the-submodule", "module-prefix-bound-by-the-submodule-to-another-module"}

type c15Expr struct {
	name  string
	valid bool
	must  func(p string) string // p = "" or "pfx:"
	path  func(p string) string
}

var c15Exprs = []c15Expr{
	{"valid", true, func(p string) string { return "../" + p + "name = 'a' and count(" + p + "name) > 0" }, func(p string) string { return "/" + p + "tgt/" + p + "name" }},
	{"valid-current", true, func(p string) string { return "current()/../" + p + "name != /" + p + "tgt/" + p + "name" }, func(p string) string { return "../../" + p + "tgt/" + p + "name" }},
	{"unbalanced-bracket", false, func(p string) string { return "../" + p + "name[" }, func(p string) string { return "/" + p + "tgt[" + p + "name" }},
	{"dangling-operator", false, func(p string) string { return "../" + p + "name = " }, func(p string) string { return "/" + p + "tgt/" }},
	{"unknown-function", false, func(p string) string { return "nosuchfn(../" + p + "name)" }, func(p string) string { return "deref(/" + p + "tgt)" }},
	{"attribute-axis", false, func(p string) string { return "../@" + p + "name = 'a'" }, func(p string) string { return "/" + p + "tgt/@" + p + "name" }},
	{"double-slash", false, func(p string) string { return "//" + p + "name = 'a'" }, func(p string) string { return "//" + p + "name" }},
	{"variable", false, func(p string) string { return "$v = ../" + p + "name" }, func(p string) string { return "/" + p + "tgt/$v" }},
	{"two-operands", false, func(p string) string { return "../" + p + "name 'a'" }, func(p string) string { return "/" + p + "tgt " + p + "name" }},
	{"node-type-test", false, func(p string) string { return "../" + p + "name/text() = 'a'" }, func(p string) string { return "/" + p + "tgt/text()" }},
	{"unterminated-literal", false, func(p string) string { return "../" + p + "name = 'a" }, func(p string) string { return "/" + p + "tgt[" + p + "name='a]" }},
	{"malformed-number", false, func(p string) string { return "../" + p + "name = 1.2.3" }, func(p string) string { return "/" + p + "tgt/1" }},
	// XPath 1.0 knows four blanks (space, tab, CR, LF); other characters that look like one are not tokens
	{"form-feed-between-tokens", false, func(p string) string { return "../" + p + "name =\f'a'" }, func(p string) string { return "/" + p + "tgt/\f" + p + "name" }},
	{"vertical-tab-between-tokens", false, func(p string) string { return "../" + p + "name\v= 'a'" }, func(p string) string { return "/" + p + "tgt\v/" + p + "name" }},
	{"no-break-space-between-tokens", false, func(p string) string { return "../" + p + "name =\u00a0'a'" }, func(p string) string { return "/" + p + "tgt/\u00a0" + p + "name" }},
	{"next-line-character-between-tokens", false, func(p string) string { return "../" + p + "name = 'a'\u0085" }, func(p string) string { return "\u0085/" + p + "tgt/" + p + "name" }},
	{"relative-descendant-path", true, func(p string) string { return p + "name" }, nil},
	// NameTest ::= '*' | NCName ':' '*' | QName: the prefix of a wildcard is a prefix like any other
	{"prefixed-wildcard", true, func(p string) string { return "count(../" + p + "*) > 0" }, nil},
	{"prefixed-wildcard-step", true, func(p string) string { return "../" + p + "*/" + p + "name = 'a'" }, nil},
	// leafref only: RFC 6020 path-arg shapes around the key predicate
	{"leafref-key-predicate", true, nil, func(p string) string { return "/" + p + "tgt[" + p + "name = current()/../" + p + "name]/" + p + "name" }},
	// only the key name of the predicate carries the prefix (the steps are unprefixed): it is resolved like any other
	{"leafref-key-name-alone-prefixed", true, nil, func(p string) string { return "/tgt[" + p + "name = current()/../name]/name" }},
	{"leafref-key-operand-alone-prefixed", true, nil, func(p string) string { return "/tgt[name = current()/../" + p + "name]/name" }},
	{"leafref-keyexpr-without-up-step", false, nil, func(p string) string { return "/" + p + "tgt[" + p + "name = current()/" + p + "name]/" + p + "name" }},
	{"leafref-keyexpr-without-current", false, nil, func(p string) string { return "/" + p + "tgt[" + p + "name = ../" + p + "name]/" + p + "name" }},
	{"leafref-relative-path-ending-in-predicate", false, nil, func(p string) string { return "../" + p + "tgt[" + p + "name = current()/../" + p + "name]" }},
}

type c15Case struct {
	mustCount                  int // if > 0: the carrier has this many musts, and the one under test may be any of them
	placement, stmt, prefixUse string
	ex                         c15Expr
	exprText                   string
	ms                         *yang.ModSet
	expectAccept               bool
	expectNS                   string // namespace every prefixed step must carry ("" = no prefixed step)
	prefix                     string
	unasserted                 bool
	leafPath                   []string // schema path to the carrying leaf in the compiled tree
	writerMods                 []string // modules in which the expression text is written (an error must point into one of them)
	twoCopies                  bool     // a second carrier ("carrier2") holds the same text, written in the using module
	expectNS2                  string   // namespace the prefix denotes there
}

const (
	nsDef = "urn:verif:c15-def"
	nsUse = "urn:verif:c15-use"
	nsX   = "urn:verif:c15-x"
	nsY   = "urn:verif:c15-y"
	nsAug = "urn:verif:c15-aug"
)

func c15Build(placement, stmt, pu string, ex c15Expr, custom string) *c15Case {
	c := &c15Case{placement: placement, stmt: stmt, prefixUse: pu, ex: ex}
	if stmt == "path" && ex.path == nil && custom == "" {
		return nil
	}
	if stmt != "path" && ex.must == nil && custom == "" {
		return nil
	}
	if placement == "typedef-other-module" && stmt != "path" {
		return nil
	}
	if placement == "in-a-submodule" && pu == "same-prefix-in-included-submodule" {
		return nil // (the writer is a submodule itself)
	}
	if placement != "in-a-submodule" && strings.HasPrefix(pu, "module-prefix-") {
		return nil
	}
	switch placement {
	case "when-on-uses-of-foreign-grouping", "when-on-augment-of-other-module", "when-on-uses-inside-an-augment-with-a-when":
		if stmt != "when" {
			return nil
		}
	case "must-by-refine-of-foreign-grouping", "must-by-deviate-add-from-other-module":
		if stmt != "must" {
			return nil
		}
	case "must-by-refine-repeating-the-must-of-the-grouping":
		// (the text must be valid in the defining module too: prefix uses in which that module knows the prefix)
		if stmt != "must" || !ex.valid || (pu != "none" && pu != "imported-by-user-only" && pu != "same-prefix-different-modules") {
			return nil
		}
	}
	// modules: def (where the statement is written), use (where it ends up), x, y
	def := yang.S("module", "c15-def", yang.S("namespace", nsDef), yang.S("prefix", "d"))
	use := yang.S("module", "c15-use", yang.S("namespace", nsUse), yang.S("prefix", "u"))
	mx := yang.S("module", "c15-x", yang.S("namespace", nsX), yang.S("prefix", "x"), yang.S("container", "tgt-x", yang.S("leaf", "name", yang.S("type", "string"))))
	my := yang.S("module", "c15-y", yang.S("namespace", nsY), yang.S("prefix", "y"), yang.S("container", "tgt-y", yang.S("leaf", "name", yang.S("type", "string"))))
	direct := placement == "direct" || placement == "on-a-list-key"
	// the module in which the statement is textually written
	writer := def
	writerNS := nsDef
	if direct {
		writer = use
		writerNS = nsUse
	}
	// the other module involved (where the statement ends up / where the carrying node is defined)
	other := use
	switch placement {
	case "direct", "on-a-list-key":
		other = nil
	case "augment-other-module":
		writer = yang.S("module", "c15-aug", yang.S("namespace", nsAug), yang.S("prefix", "a"))
		writerNS = nsAug
		other = nil
	case "when-on-augment-of-other-module", "must-by-deviate-add-from-other-module", "when-on-uses-inside-an-augment-with-a-when":
		writer = yang.S("module", "c15-aug", yang.S("namespace", nsAug), yang.S("prefix", "a"))
		writerNS = nsAug
		other = use
	case "when-on-uses-of-foreign-grouping", "must-by-refine-of-foreign-grouping", "must-by-refine-repeating-the-must-of-the-grouping":
		writer, writerNS = use, nsUse
		other = def
	case "in-a-submodule":
		// the statement is written in a submodule of the using module: prefixes are those of the submodule's
		// own imports (and its belongs-to prefix), not those of the module that includes it
		writer = yang.S("submodule", "c15-usub", yang.S("belongs-to", "c15-use", yang.S("prefix", "us")))
		writerNS = nsUse
		other = use
	}
	writerPrefix := "us"
	if writer.Kw == "module" {
		writerPrefix = writer.Find("prefix").Arg
	}
	c.writerMods = []string{writer.Arg}
	if placement == "grouping-other-module-plus-own-copy" {
		c.writerMods = append(c.writerMods, "c15-use") // the second copy is written there
	}
	imp := func(m *yang.Stmt, mod, pfx string) {
		m.Add(yang.S("import", mod, yang.S("prefix", pfx)))
	}
	// prefix usage
	var p string
	c.expectAccept = ex.valid
	switch pu {
	case "none":
		p = ""
	case "own":
		p = writerPrefix + ":"
		c.expectNS = writerNS
	case "imported-by-definer-only":
		imp(writer, "c15-x", "x")
		p = "x:"
		c.expectNS = nsX
	case "imported-by-user-only":
		if other == nil {
			return nil // there is no separate using module
		}
		imp(other, "c15-x", "x")
		p = "x:"
		c.expectAccept = false
	case "same-prefix-different-modules":
		if other == nil {
			return nil
		}
		imp(writer, "c15-x", "x")
		imp(other, "c15-y", "x")
		p = "x:"
		c.expectNS = nsX
	case "undeclared":
		p = "zz:"
		c.expectAccept = false
	case "module-prefix-unbound-in-the-submodule":
		p = "u:"
		c.expectAccept = false
	case "module-prefix-bound-by-the-submodule-to-another-module":
		imp(writer, "c15-x", "u")
		p = "u:"
		c.expectNS = nsX
	case "same-prefix-in-included-submodule":
		// the writing module includes a submodule that binds the same prefix to another module:
		// prefixes are scoped per module / submodule text
		imp(writer, "c15-x", "x")
		p = "x:"
		c.expectNS = nsX
	}
	c.prefix = strings.TrimSuffix(p, ":")
	if placement == "grouping-other-module-plus-own-copy" {
		// the copy written in the using module resolves the prefix through that module's imports
		switch pu {
		case "own":
			c.expectNS2 = nsDef // "d" is also the prefix under which the using module imports the defining one
		case "imported-by-definer-only", "same-prefix-in-included-submodule":
			c.expectAccept = false // the using module does not know the prefix
		case "same-prefix-different-modules":
			c.expectNS2 = nsY
		}
	}
	if custom != "" {
		c.exprText = strings.ReplaceAll(custom, "§", p)
	} else if stmt == "path" {
		c.exprText = ex.path(p)
	} else {
		c.exprText = ex.must(p)
	}
	// the carrying leaf
	leaf := yang.S("leaf", "carrier")
	switch stmt {
	case "must":
		leaf.Add(yang.S("type", "string"), yang.S("must", c.exprText, yang.S("error-message", "c15 must")))
	case "when":
		leaf.Add(yang.S("type", "string"), yang.S("when", c.exprText))
	case "path":
		if len(c.exprText)%3 == 1 {
			// the leafref is a member of a union, behind a member that takes every value: its path is an expression
			// of the module all the same
			leaf.Add(yang.S("type", "union", yang.S("type", "string"), yang.S("type", "leafref", yang.S("path", c.exprText))))
		} else {
			leaf.Add(yang.S("type", "leafref", yang.S("path", c.exprText)))
		}
	}
	useTop := yang.S("container", "top-use", yang.S("leaf", "name", yang.S("type", "string")))
	use.Add(useTop)
	c.leafPath = []string{"top-use", "carrier"}
	mods := []*yang.Stmt{def, use, mx, my}
	switch placement {
	case "in-a-submodule":
		writer.Add(yang.S("container", "top-sub", yang.S("leaf", "name", yang.S("type", "string")), leaf))
		use.Add(yang.S("include", "c15-usub"))
		mods = append(mods, writer)
		c.leafPath = []string{"top-sub", "carrier"}
	case "direct":
		useTop.Add(leaf)
	case "on-a-list-key":
		useTop.Add(yang.S("list", "items", yang.S("key", "carrier"), leaf, yang.S("leaf", "other", yang.S("type", "string"))))
		c.leafPath = []string{"top-use", "items", "some-entry", "carrier"} // (the child of a list node is an entry, named by its key value)
	case "on-a-list-key-from-a-grouping":
		def.Add(yang.S("grouping", "g", leaf))
		imp(use, "c15-def", "d")
		useTop.Add(yang.S("list", "items", yang.S("key", "carrier"), yang.S("uses", "d:g"), yang.S("leaf", "other", yang.S("type", "string"))))
		c.leafPath = []string{"top-use", "items", "some-entry", "carrier"} // (the child of a list node is an entry, named by its key value)
	case "grouping-local":
		// grouping and uses both in the defining module
		def.Add(yang.S("grouping", "g", leaf), yang.S("container", "top-def", yang.S("leaf", "name", yang.S("type", "string")), yang.S("uses", "g")))
		c.leafPath = []string{"top-def", "carrier"}
	case "grouping-other-module":
		def.Add(yang.S("grouping", "g", leaf))
		imp(use, "c15-def", "d")
		useTop.Add(yang.S("uses", "d:g"))
	case "grouping-through-grouping-of-a-third-module":
		// the module in the middle binds the prefixes of the case in its own way (or not at all): that says
		// nothing about the statement, which is written in the defining module
		def.Add(yang.S("grouping", "g", leaf))
		mid := yang.S("module", "c15-mid", yang.S("namespace", "urn:verif:c15-mid"), yang.S("prefix", "m"), yang.S("import", "c15-def", yang.S("prefix", "dd")),
			yang.S("grouping", "outer", yang.S("leaf", "mid-leaf", yang.S("type", "string")), yang.S("uses", "dd:g")))
		switch pu {
		case "imported-by-user-only":
			imp(mid, "c15-x", "x")
		case "same-prefix-different-modules":
			imp(mid, "c15-y", "x")
		}
		imp(use, "c15-mid", "mm")
		useTop.Add(yang.S("uses", "mm:outer"))
		mods = append(mods, mid)
	case "grouping-other-module-plus-own-copy":
		def.Add(yang.S("grouping", "g", leaf))
		imp(use, "c15-def", "d")
		own := leaf.Clone()
		own.Arg = "carrier2"
		// either order: the copy before or after the uses
		if len(c.exprText)%2 == 0 {
			useTop.Add(yang.S("uses", "d:g"), own)
		} else {
			useTop.Add(own, yang.S("uses", "d:g"))
		}
		c.twoCopies = true
	case "grouping-in-augment":
		def.Add(yang.S("grouping", "g", leaf))
		aug := yang.S("module", "c15-aug", yang.S("namespace", nsAug), yang.S("prefix", "a"), yang.S("import", "c15-def", yang.S("prefix", "dd")),
			yang.S("import", "c15-use", yang.S("prefix", "uu")), yang.S("augment", "/uu:top-use", yang.S("container", "augc", yang.S("uses", "dd:g"))))
		mods = append(mods, aug)
		c.leafPath = []string{"top-use", "augc", "carrier"}
	case "augment-other-module":
		imp(writer, "c15-use", "uu")
		writer.Add(yang.S("augment", "/uu:top-use", leaf))
		mods = append(mods, writer)
	case "when-on-uses-of-foreign-grouping":
		// the grouping's leaf is plain; the when is written on the uses in the using module
		def.Add(yang.S("grouping", "g", yang.S("leaf", "carrier", yang.S("type", "string"))))
		imp(use, "c15-def", "d")
		useTop.Add(yang.S("uses", "d:g", yang.S("when", c.exprText)))
	case "must-by-refine-of-foreign-grouping":
		def.Add(yang.S("grouping", "g", yang.S("leaf", "carrier", yang.S("type", "string"))))
		imp(use, "c15-def", "d")
		useTop.Add(yang.S("uses", "d:g", yang.S("refine", "carrier", yang.S("must", c.exprText, yang.S("error-message", "c15 must")))))
	case "must-by-refine-repeating-the-must-of-the-grouping":
		def.Add(yang.S("grouping", "g", yang.S("leaf", "carrier", yang.S("type", "string"), yang.S("must", c.exprText, yang.S("error-message", "c15 must of the grouping")))))
		imp(use, "c15-def", "d")
		useTop.Add(yang.S("uses", "d:g", yang.S("refine", "carrier", yang.S("must", c.exprText, yang.S("error-message", "c15 must")))))
		c.mustCount = 2
	case "when-on-uses-inside-an-augment-with-a-when":
		def.Add(yang.S("grouping", "g", yang.S("leaf", "carrier", yang.S("type", "string"))))
		imp(writer, "c15-use", "uu")
		imp(writer, "c15-def", "dd")
		writer.Add(yang.S("augment", "/uu:top-use", yang.S("when", "uu:name != 'off'"), yang.S("uses", "dd:g", yang.S("when", c.exprText))))
		mods = append(mods, writer)
		c.mustCount = 2
	case "when-on-augment-of-other-module":
		imp(writer, "c15-use", "uu")
		writer.Add(yang.S("augment", "/uu:top-use", yang.S("when", c.exprText), yang.S("leaf", "carrier", yang.S("type", "string"))))
		mods = append(mods, writer)
	case "must-by-deviate-add-from-other-module":
		imp(writer, "c15-use", "uu")
		useTop.Add(yang.S("leaf", "carrier", yang.S("type", "string")))
		writer.Add(yang.S("deviation", "/uu:top-use/uu:carrier", yang.S("deviate", "add", yang.S("must", c.exprText, yang.S("error-message", "c15 must")))))
		mods = append(mods, writer)
	case "typedef-other-module":
		td := yang.S("typedef", "lr", leaf.Find("type").Clone())
		def.Add(td)
		imp(use, "c15-def", "d")
		useTop.Add(yang.S("leaf", "carrier", yang.S("type", "d:lr")))
	}
	if pu == "same-prefix-in-included-submodule" {
		writer.Add(yang.S("include", "c15-wsub"))
		mods = append(mods, yang.S("submodule", "c15-wsub", yang.S("belongs-to", writer.Arg, yang.S("prefix", "w")), yang.S("import", "c15-y", yang.S("prefix", "x")),
			yang.S("container", "in-sub", yang.S("leaf", "name", yang.S("type", "string")))))
	}
	for _, m := range mods {
		yang.SortSections(m)
	}
	c.ms = &yang.ModSet{Mods: mods}
	return c
}

func c15Matrix() []*c15Case {
	var out []*c15Case
	for _, pl := range c15Placements {
		for _, st := range c15Stmts {
			for _, pu := range c15PrefixUses {
				for _, ex := range c15Exprs {
					if c := c15Build(pl, st, pu, ex, ""); c != nil {
						out = append(out, c)
					}
				}
			}
		}
	}
	return out
}

var c15List = c15Matrix()

func (p *c15) NumCases(tier string, seed int64) int { return len(c15List) + tierN(tier, 2000, 150000) }

func (p *c15) gen(tier string, seed int64, idx int) *c15Case {
	if idx < len(c15List) {
		return c15List[idx]
	}
	// seeded expressions: valid sentences and single edits of them, with prefix placeholder on names
	r := core.CaseRng(seed, "C15", idx)
	for {
		pl := core.Pick(r, c15Placements)
		st := core.Pick(r, []string{"must", "when"})
		pu := core.Pick(r, c15PrefixUses)
		toks := c04Sentence(r)
		for i, t := range toks {
			// replace generator prefixes by the placeholder
			if strings.HasPrefix(t, "p:") || strings.HasPrefix(t, "q:") {
				toks[i] = "§" + t[2:]
			}
		}
		if r.Chance(1, 3) && len(toks) > 1 {
			k := r.Intn(len(toks))
			toks = append(toks[:k], toks[k+1:]...)
		}
		txt := joinToks(r, toks)
		if strings.ContainsAny(txt, "\"") || !yang.ValueInAssertedDomain(txt) {
			// (a tab or line break next to a blank: how the YANG string is decoded is C08's unasserted corner)
			continue
		}
		ex := c15Expr{name: "seeded"}
		c := c15Build(pl, st, pu, ex, txt)
		if c == nil {
			continue
		}
		// expectation from the reference recogniser on the concrete text
		v := xp.RecogniseExpr(c.exprText, func(string) bool { return true })
		if v == xp.Unasserted {
			c.unasserted = true
		}
		valid := v == xp.Accept
		hasPrefixed := strings.Contains(txt, "§")
		c.expectAccept = valid
		if hasPrefixed && (pu == "imported-by-user-only" || pu == "undeclared" || pu == "module-prefix-unbound-in-the-submodule") {
			c.expectAccept = false
		}
		if hasPrefixed && pl == "grouping-other-module-plus-own-copy" && (pu == "imported-by-definer-only" || pu == "same-prefix-in-included-submodule") {
			c.expectAccept = false // the copy written in the using module cannot resolve the prefix
		}
		if !hasPrefixed {
			c.expectNS = ""
		}
		// known C04 findings are not valid test expressions here
		if regexp.MustCompile(`\(\s*\)`).MatchString(c.exprText) && !valid || regexp.MustCompile(`[0-9.][eE][0-9]`).MatchString(c.exprText) || regexp.MustCompile(`(current|deref)\s*\([^)]*\)\s*\[`).MatchString(c.exprText) ||
			regexp.MustCompile(`[ \t\r\n]:[^:]|[^:]:[ \t\r\n]`).MatchString(c.exprText) || strings.ContainsRune(c.exprText, 0xF001) {
			c.unasserted = true
		}
		return c
	}
}

func (p *c15) Describe(tier string, seed int64, idx int) string {
	c := p.gen(tier, seed, idx)
	return fmt.Sprintf("placement=%s stmt=%s prefix-use=%s expr-class=%s expr=%q expect-accept=%v expect-ns=%s\n%s",
		c.placement, c.stmt, c.prefixUse, c.ex.name, c.exprText, c.expectAccept, c.expectNS, textsString(c.ms.Texts(nil)))
}

var namePushRe = regexp.MustCompile(`(?m)^\s*Name-Push\t\{(\S*) ([^}]*)\}`)
var locRe = regexp.MustCompile(`c15-[a-z]+\.yang:\d+:\d+`)

// c15Elsewhere: a set whose modules and submodules carry the names of the sets under test but belong to another
// namespace; it is compiled before every case (what a compilation has learnt about names ends with it).
func c15Elsewhere(res *core.CaseResult) {
	const ns = "urn:verif:c15-elsewhere"
	sub := func(name, pfx string) *yang.Stmt {
		return yang.S("submodule", name, yang.S("belongs-to", "c15-use", yang.S("prefix", pfx)),
			yang.S("container", "el-"+name, yang.S("leaf", "name", yang.S("type", "string"), yang.S("must", "../"+pfx+":name = /"+pfx+":el-top/"+pfx+":name"))))
	}
	mods := []*yang.Stmt{
		yang.S("module", "c15-use", yang.S("namespace", ns), yang.S("prefix", "uu"), yang.S("include", "c15-usub"), yang.S("include", "c15-wsub"),
			yang.S("container", "el-top", yang.S("leaf", "name", yang.S("type", "string")))),
		sub("c15-usub", "us"), sub("c15-wsub", "w")}
	for _, m := range mods {
		yang.SortSections(m)
	}
	ms := &yang.ModSet{Mods: mods}
	cr := compileTexts(ms.Texts(nil), nil, nil, nil, false)
	res.Ev("sets_of_another_namespace_compiled_first", 1)
	in := textsString(ms.Texts(nil))
	if !cr.Accepted() {
		res.Fail("C15/rejected-but-valid/set-of-another-namespace", in, cr.Err+cr.Panic+cr.ParseErr)
		return
	}
	for _, name := range []string{"el-c15-usub", "el-c15-wsub"} {
		pan, msg, _ := core.Guard(func() {
			for _, m := range cr.MS.Child(name).Child("name").Musts() {
				l := m.Mach.PrintMachine()
				for _, other := range []string{nsUse, nsDef, nsX, nsY, nsAug} {
					if strings.Contains(l, other) {
						res.Fail("C15/prefix-resolved-in-wrong-scope/set-of-another-namespace", in, fmt.Sprintf("the must of %s names %s; its module is in %s\n%s", name, other, ns, l))
					}
				}
				if !strings.Contains(l, ns) {
					res.Fail("C15/prefix-resolved-in-wrong-scope/set-of-another-namespace", in, fmt.Sprintf("the must of %s does not name %s\n%s", name, ns, l))
				}
			}
		})
		if pan {
			res.Fail("harness-panic", in, "set of another namespace: "+msg)
		}
	}
}

// c15Leafref: the leafref type of a node, also where it is a member of a union.
func c15Leafref(t schema.Type) schema.Leafref {
	if lr, ok := t.(schema.Leafref); ok {
		return lr
	}
	if u, ok := t.(schema.Union); ok {
		for _, m := range u.Typs() {
			if lr := c15Leafref(m); lr != nil {
				return lr
			}
		}
	}
	return nil
}

func (p *c15) Run(tier string, seed int64, idx int) core.CaseResult {
	var res core.CaseResult
	c := p.gen(tier, seed, idx)
	if idx%2 == 0 {
		c15Elsewhere(&res)
	}
	if c.unasserted {
		res.Ev("unasserted_cases", 1)
		return res
	}
	input := p.Describe(tier, seed, idx)
	res.Key(input)
	cr := compileTexts(c.ms.Texts(nil), nil, nil, nil, false)
	res.Ev("sets_compiled", 1)
	cls := fmt.Sprintf("%s/%s/%s", c.stmt, c.placement, c.prefixUse)
	if cr.Panic != "" {
		res.Fail("C15/panic/"+core.TopRepoFrame(cr.Stack), input, cr.Panic)
		return res
	}
	if cr.ParseErr != "" {
		res.Fail("harness-panic", input, "parse: "+cr.ParseErr)
		return res
	}
	if cr.Accepted() != c.expectAccept {
		if cr.Accepted() {
			res.Fail("C15/accepted-but-invalid/"+cls+"/"+c.ex.name, input, "the set compiled")
		} else {
			res.Fail("C15/rejected-but-valid/"+cls+"/"+c.ex.name, input, cr.Err)
		}
		return res
	}
	if !cr.Accepted() {
		res.Ev("rejected_sets_with_error_check", 1)
		if !strings.Contains(cr.Err, c.exprText) && !(c.prefixUse == "undeclared" || c.prefixUse == "imported-by-user-only") {
			res.Fail("C15/error-does-not-quote-expression/"+c.stmt, input, cr.Err)
		} else if !locRe.MatchString(cr.Err) {
			res.Fail("C15/error-without-statement-location/"+c.stmt, input, cr.Err)
		} else if c.stmt != "path" {
			// the statement named is one that carries the expression: it lies in a module where the text is written
			loc := locRe.FindString(cr.Err)
			ok := false
			for _, w := range c.writerMods {
				if strings.HasPrefix(loc, w+".yang:") {
					ok = true
				}
			}
			res.Ev("error_locations_checked_for_module", 1)
			if !ok {
				res.Fail("C15/error-names-a-statement-of-another-module/"+c.stmt+"/"+c.placement, input, fmt.Sprintf("the expression is written in %v, the error points to %s\n%s", c.writerMods, loc, cr.Err))
			}
		}
		return res
	}
	// accepted: inspect the compiled machine(s)
	p.checkMachine(c, cr, c.leafPath, c.expectNS, cls, input, &res)
	if c.twoCopies {
		p2 := append(append([]string{}, c.leafPath[:len(c.leafPath)-1]...), "carrier2")
		p.checkMachine(c, cr, p2, c.expectNS2, cls+"/own-copy", input, &res)
	}
	if idx%97 == 0 {
		res.Sample = map[string]interface{}{"placement": c.placement, "stmt": c.stmt, "prefix_use": c.prefixUse, "expr": c.exprText, "accepted": cr.Accepted()}
	}
	return res
}

func (p *c15) checkMachine(c *c15Case, cr compileResult, leafPath []string, expectNS, cls, input string, resp *core.CaseResult) {
	if c.mustCount > 0 {
		// every must is looked at in turn: one of them has to be the statement under test, read in its own module
		n := -1
		core.Guard(func() {
			var node schema.Node = cr.MS
			for _, step := range leafPath {
				node = node.Child(step)
			}
			n = len(node.Musts())
			if c.stmt == "when" {
				n = len(node.Whens())
			}
		})
		resp.Ev("carriers_with_several_musts", 1)
		if n != c.mustCount {
			resp.Fail("C15/must-lost-or-duplicated/"+cls, input, fmt.Sprintf("the carrier has %d %s statements, %d were written for it", n, c.stmt, c.mustCount))
			return
		}
		var firstFail *core.CaseResult
		for k := 0; k < n; k++ {
			var one core.CaseResult
			p.checkMachineAt(c, cr, leafPath, expectNS, cls, input, &one, k)
			if len(one.Fails) == 0 {
				for ev, v := range one.Events {
					resp.Ev(ev, v)
				}
				return
			}
			if firstFail == nil {
				firstFail = &one
			}
		}
		resp.Fails = append(resp.Fails, firstFail.Fails...)
		return
	}
	p.checkMachineAt(c, cr, leafPath, expectNS, cls, input, resp, 0)
}

func (p *c15) checkMachineAt(c *c15Case, cr compileResult, leafPath []string, expectNS, cls, input string, resp *core.CaseResult, which int) {
	res := resp
	var node schema.Node = cr.MS
	pan, msg, _ := core.Guard(func() {
		for _, step := range leafPath {
			node = node.Child(step)
		}
	})
	if pan || node == nil {
		res.Fail("C15/carrier-not-found", input, msg)
		return
	}
	listing, gotExpr := "", ""
	pan, msg, _ = core.Guard(func() {
		switch c.stmt {
		case "must":
			m := node.Musts()[which]
			listing, gotExpr = m.Mach.PrintMachine(), m.Mach.GetExpr()
		case "when":
			w := node.Whens()[which]
			listing, gotExpr = w.Mach.PrintMachine(), w.Mach.GetExpr()
		case "path":
			lr := c15Leafref(node.Type())
			listing, gotExpr = lr.Mach().PrintMachine(), lr.Mach().GetExpr()
		}
	})
	if pan {
		res.Fail("C15/machine-missing/"+cls, input, "no compiled machine on the node: "+msg)
		return
	}
	if gotExpr != c.exprText {
		res.Fail("C15/machine-has-other-expression/"+cls, input, fmt.Sprintf("GetExpr()=%q", gotExpr))
	}
	res.Ev("accepted_sets_with_namespace_check", 1)
	if c.prefix != "" && expectNS != "" {
		// every step written with the prefix must carry the namespace it denotes where the statement is written
		// (the same local name may also occur unprefixed, so compare per name how many steps carry which namespace)
		prefixed := map[string]int{}
		for _, m := range regexp.MustCompile(regexp.QuoteMeta(c.prefix)+`:([A-Za-z_][A-Za-z0-9_.\-]*)`).FindAllStringSubmatch(c.exprText, -1) {
			prefixed[m[1]]++
		}
		unprefixed := map[string]int{}
		for _, m := range regexp.MustCompile(`(^|[^A-Za-z0-9_.\-:])([A-Za-z_][A-Za-z0-9_.\-]*)`).FindAllStringSubmatch(c.exprText, -1) {
			unprefixed[m[2]]++
		}
		withNS, otherNS := map[string]int{}, map[string]int{}
		for _, m := range namePushRe.FindAllStringSubmatch(listing, -1) {
			if m[1] == expectNS {
				withNS[m[2]]++
			} else {
				otherNS[m[2]]++
			}
		}
		for local, n := range prefixed {
			res.Ev("prefixed_steps_checked", int64(n))
			if withNS[local] < n || otherNS[local] > unprefixed[local] {
				res.Fail("C15/prefix-resolved-in-wrong-scope/"+cls, input, fmt.Sprintf("%d step(s) written %s:%s, %d carry the namespace %q the prefix denotes in the module where the statement is written and %d another one (%d unprefixed occurrences of the name)\n%s",
					n, c.prefix, local, withNS[local], expectNS, otherNS[local], unprefixed[local], listing))
				break
			}
		}
	}
}

func (p *c15) Witness(raw json.RawMessage) []core.Failure { return nil }
