package props

import (
	"encoding/json"
	"fmt"
	"regexp"
	"strings"

	"github.com/sdcio/yang-parser/parse"

	"verifharness/internal/core"
	"verifharness/internal/yang"
)

// C09: statement grammar — cardinality, ordering and argument syntax.
// Oracle: R-SUB (RFC 6020 substatement tables, section order, ABNF recognisers).
type c09 struct{ base }

func init() {
	core.Register(&c09{base: base{
		id: "C09",
		rule: "cases = (1) exhaustive (parent keyword, child keyword, multiplicity 0/1/2) over all 65 RFC 6020 keywords as parent and as child plus a prefixed extension and an unprefixed unknown " +
			"keyword as child: the parent stands in a minimal valid context with its required substatements, then m minimal valid copies of the child are added; (2) all 120 orders of the five " +
			"module sections for module and submodule, header statements out of place, revision dates descending/equal/ascending; (3) per argument kind (identifier, identifier-ref, date, boolean, " +
			"non-negative integer, integer, max-elements, status, ordered-by, deviate, range, length, key, unique, absolute/descendant schema node id, fraction-digits, yang-version, pattern) the " +
			"valid shapes of the ABNF and every single-character deletion, insertion and replacement of them (thorough: plus seeded strings); parse.Parse's verdict is compared with the reference " +
			"tables/recognisers and a rejection must carry the input name, a line:column and the offending keyword; distinct_nontrivial = distinct texts parsed with an asserted expectation",
		block: 64,
		assumptions: []string{
			"R-SUB (harness/internal/yang/rsub.go) transcribes the RFC 6020 substatement tables; where table and ABNF disagree (uses/refine, uses/augment, type/base, type/fraction-digits) the cell is not asserted; children of refine and deviate are deferred to the compiler by design and not asserted here",
			"the ABNF's 'at least one data definition' under list/input/output/augment, calendar validity of dates and integers beyond 64 bits are not asserted",
			"pattern arguments: only rejection of syntactically broken expressions and acceptance of a regex subset on which XSD and RE2 agree",
		},
		minEvents: []string{"triples", "section_orders", "argument_strings", "accepted_by_both", "rejected_by_both"},
	}})
}

// ---------------------------------------------------------------- (1) triples

var c09Children = append(append([]string{}, yang.AllKeywords...), "x:ext", "bogus")

type c09Triple struct {
	P, C string
	M    int
}

func c09Triples() []c09Triple {
	var out []c09Triple
	for _, p := range yang.AllKeywords {
		for _, c := range c09Children {
			for m := 0; m <= 2; m++ {
				out = append(out, c09Triple{p, c, m})
			}
		}
	}
	return out
}

var c09TripleList = c09Triples()

var c09NameTaking = map[string]bool{"container": true, "leaf": true, "leaf-list": true, "list": true, "choice": true, "case": true, "anyxml": true, "grouping": true,
	"typedef": true, "feature": true, "identity": true, "extension": true, "rpc": true, "notification": true}
var c09KeywordNames = []string{"list", "leaf", "version", "to", "feature", "message", "elements", "by", "date", "instance", "digits", "element", "tag", "add", "delete", "replace",
	"supported", "not-supported", "module", "type", "config", "min", "max", "true", "current"}

func c09MinimalChild(c string, i int) *yang.Stmt {
	switch c {
	case "x:ext":
		return yang.S("x:ext", fmt.Sprintf("any argument %d", i), yang.S("x:inner", "v"))
	case "bogus":
		return yang.S("bogus", fmt.Sprintf("arg%d", i))
	}
	return yang.Minimal(c, i)
}

var dataDefKw = map[string]bool{"anyxml": true, "choice": true, "container": true, "leaf": true, "leaf-list": true, "list": true, "uses": true, "case": true}

func c09BuildTriple(t c09Triple) (root *yang.Stmt, expect string) {
	root, p := yang.Context(t.P)
	var kids []*yang.Stmt
	for _, k := range p.Kids {
		if k.Kw != t.C {
			kids = append(kids, k)
		}
	}
	for i := 0; i < t.M; i++ {
		kids = append(kids, c09MinimalChild(t.C, i+1))
	}
	p.Kids = kids
	if t.P == "module" || t.P == "submodule" {
		yang.SortSections(p)
	}
	if len(p.Kids) == 0 && p.Block == false {
		// rendered as "kw arg;"
	}
	if yang.UnassertedParents[t.P] {
		return root, "unasserted"
	}
	if t.C == "x:ext" {
		return root, "accept"
	}
	// ABNF-only requirement of at least one data definition: not asserted
	if t.P == "list" || t.P == "input" || t.P == "output" || t.P == "augment" {
		n := 0
		for _, k := range p.Kids {
			if dataDefKw[k.Kw] {
				n++
			}
		}
		if n == 0 {
			return root, "unasserted"
		}
	}
	tab := yang.SubTable[t.P]
	card, ok := tab[t.C]
	if t.C == "bogus" {
		ok = false
	}
	switch {
	case !ok:
		if t.M == 0 {
			return root, "accept"
		}
		return root, "reject"
	case card == yang.Either:
		return root, "unasserted"
	case card == yang.C01:
		if t.M <= 1 {
			return root, "accept"
		}
		return root, "reject"
	case card == yang.C1:
		if t.M == 1 {
			return root, "accept"
		}
		return root, "reject"
	case card == yang.C1n:
		if t.M >= 1 {
			return root, "accept"
		}
		return root, "reject"
	}
	return root, "accept"
}

// ---------------------------------------------------------------- (2) sections

type c09Section struct {
	text   string
	expect string
	desc   string
}

func permutations(n int) [][]int {
	var out [][]int
	var rec func(cur []int, used int)
	rec = func(cur []int, used int) {
		if len(cur) == n {
			out = append(out, append([]int{}, cur...))
			return
		}
		for i := 0; i < n; i++ {
			if used&(1<<uint(i)) == 0 {
				rec(append(cur, i), used|1<<uint(i))
			}
		}
	}
	rec(nil, 0)
	return out
}

func c09Sections() []c09Section {
	var out []c09Section
	for _, sub := range []bool{false, true} {
		secs := [][]*yang.Stmt{
			{yang.S("namespace", "urn:m"), yang.S("prefix", "m")},
			{yang.S("import", "other", yang.S("prefix", "o"))},
			{yang.S("organization", "org")},
			{yang.S("revision", "2020-01-01")},
			{yang.S("container", "c")},
		}
		kw, name := "module", "m"
		if sub {
			kw, name = "submodule", "s"
			secs[0] = []*yang.Stmt{yang.S("belongs-to", "m", yang.S("prefix", "m"))}
		}
		// withExt: a prefixed extension statement (accepted anywhere, belonging to no section) stands
		// between any two sections; it must not change the verdict on the order
		for _, withExt := range []bool{false, true} {
			for _, perm := range permutations(5) {
				root := yang.S(kw, name)
				sorted := true
				for i, s := range perm {
					if i > 0 && perm[i-1] > s {
						sorted = false
					}
					if withExt && i > 0 {
						root.Add(yang.S("ext:note", fmt.Sprintf("between %d and %d", perm[i-1], s)))
					}
					for _, st := range secs[s] {
						root.Add(st.Clone())
					}
				}
				exp := "reject"
				if sorted {
					exp = "accept"
				}
				what := fmt.Sprintf("%s sections in order %v", kw, perm)
				if withExt {
					what += " with extension statements in between"
				}
				out = append(out, c09Section{yang.Render(root, nil), exp, what})
			}
		}
		// a second statement of an earlier section after a later one (interleavings)
		extra := [][2]*yang.Stmt{
			{yang.S("yang-version", "1"), nil}, {yang.S("include", "sub2"), nil}, {yang.S("contact", "c"), nil},
			{yang.S("description", "d"), nil}, {yang.S("reference", "r"), nil}, {yang.S("revision", "2019-01-01"), nil}, {yang.S("leaf", "l", yang.S("type", "string")), nil},
		}
		for _, ex := range extra {
			for pos := 0; pos <= 5; pos++ {
				root := yang.S(kw, name)
				n := 0
				okOrder := true
				lastSec := 0
				lastRev := "9999-99-99"
				add := func(st *yang.Stmt) {
					sec := yang.Section(st.Kw)
					if st.Kw == "revision" {
						if !(st.Arg < lastRev) {
							okOrder = false
						}
						lastRev = st.Arg
					}
					if sec < lastSec {
						okOrder = false
					}
					if sec > lastSec {
						lastSec = sec
					}
					root.Add(st.Clone())
				}
				for s := 0; s < 5; s++ {
					if n == pos {
						add(ex[0])
					}
					n++
					for _, st := range secs[s] {
						add(st)
					}
				}
				if pos == 5 {
					add(ex[0])
				}
				exp := "reject"
				if okOrder {
					exp = "accept"
				}
				out = append(out, c09Section{yang.Render(root, nil), exp, fmt.Sprintf("%s with %s inserted before section %d", kw, ex[0].Kw, pos)})
			}
		}
	}
	// revision dates
	for _, d := range [][]string{{"2021-01-01", "2020-01-01"}, {"2020-01-01", "2020-01-01"}, {"2020-01-01", "2021-01-01"},
		{"2021-03-01", "2021-02-28", "2020-12-31"}, {"2021-03-01", "2020-12-31", "2021-02-28"}, {"2020-01-02", "2020-01-01", "2020-01-01"}, {"2020-01-01"}} {
		root := yang.S("module", "m", yang.S("namespace", "urn:m"), yang.S("prefix", "m"))
		desc := true
		for i, x := range d {
			root.Add(yang.S("revision", x))
			if i > 0 && !(d[i-1] > x) {
				desc = false
			}
		}
		exp := "reject"
		if desc {
			exp = "accept"
		}
		out = append(out, c09Section{yang.Render(root, nil), exp, fmt.Sprintf("revision dates %v", d)})
	}
	// keyword shapes: a keyword is a YANG statement name or prefix ":" identifier (an extension statement).
	// The four names the parser uses internally for the kinds of deviate are not keywords.
	head := "module m {\n  namespace urn:m;\n  prefix m;\n  container c { leaf x { type string; } }\n"
	for _, d := range []string{"add", "delete", "replace", "not-supported"} {
		out = append(out, c09Section{head + "  deviation /m:c/m:x { deviate-" + d + " " + d + "; }\n}\n", "reject", "keyword internal-name deviate-" + d})
		out = append(out, c09Section{head + "  deviation /m:c/m:x { deviate " + d + "; }\n}\n", "accept", "keyword control deviate-" + d})
	}
	for _, kw := range []string{"a:b:c", ":c", "c:", "1:2", "a:-b", "a::b", "a:b:", ":", "::", "a:.b", "-a:b", ".a:b"} {
		out = append(out, c09Section{head + "  leaf l { type string; " + kw + " \"x\"; }\n}\n", "reject", "keyword malformed-prefixed " + kw})
	}
	for _, kw := range []string{"a:b", "m:ext", "a-1:b.2", "_a:_b", "A:B"} {
		out = append(out, c09Section{head + "  leaf l { type string; " + kw + " \"x\"; }\n}\n", "accept", "keyword prefixed-extension " + kw})
	}
	// an argument is checked for the statement it belongs to, whatever was parsed before it: a keyword that
	// is the beginning of another keyword, with an argument that supplies the rest of that keyword
	for _, o := range []struct{ first, second, what string }{
		{"leaf-list foo { type string; }", "leaf \"-listfoo\" { type string; }", "leaf after-leaf-list"},
		{"leaf-list foo { type string; }", "leaf -listfoo { type string; }", "leaf after-leaf-list-unquoted"},
		{"import other { prefix o; revision-date 2015-01-01; }", "revision \"-date2015-01-01\";", "revision after-revision-date"},
		{"typedef t1 { type string; }", "leaf l { type \"deft1\" { length \"x\"; } }", "type after-typedef"},
		{"container c1 { leaf-list 'a.b' { type string; } }", "container c2 { leaf '-lista.b' { type string; } }", "leaf after-leaf-list-in-another-container"},
	} {
		out = append(out, c09Section{"module m {\n  namespace urn:m;\n  prefix m;\n  " + o.first + "\n  " + o.second + "\n}\n", "reject", "keyword prefix-confusion " + o.what})
		if !strings.HasPrefix(o.first, "import") {
			out = append(out, c09Section{"module m {\n  namespace urn:m;\n  prefix m;\n  " + o.second + "\n  " + o.first + "\n}\n", "reject", "keyword prefix-confusion-reversed " + o.what})
		}
	}
	return out
}

var c09SectionList = c09Sections()

// ---------------------------------------------------------------- (3) arguments

type c09ArgKind struct {
	name   string
	kw     []string // statements taking this kind of argument
	valid  []string
	accept func(string) string // "accept" "reject" "unasserted"
}

func verdict(ok bool) string {
	if ok {
		return "accept"
	}
	return "reject"
}

var hugeDigits = regexp.MustCompile(`[0-9]{19,}`)

func intVerdict(rec func(string) bool, bits int, signed bool) func(string) string {
	return func(s string) string {
		if !rec(s) {
			return "reject"
		}
		if hugeDigits.MatchString(s) {
			return "unasserted"
		}
		return verdict(fitsWidth(s, bits, signed))
	}
}

func fitsWidth(s string, bits int, signed bool) bool {
	neg := strings.HasPrefix(s, "-")
	d := strings.TrimPrefix(s, "-")
	var v uint64
	for i := 0; i < len(d); i++ {
		v = v*10 + uint64(d[i]-'0')
	}
	if signed {
		if neg {
			return v <= 1<<uint(bits-1)
		}
		return v <= 1<<uint(bits-1)-1
	}
	if neg {
		return v == 0
	}
	return bits == 64 || v <= 1<<uint(bits)-1
}

var c09ArgKinds = []c09ArgKind{
	{"identifier", []string{"container", "leaf", "feature", "identity", "typedef", "grouping", "enum-skip"},
		[]string{"a", "abc", "_x", "a1", "a-b.c_d", "A9", "x", "Xm", "ml"}, func(s string) string { return verdict(yang.IsIdentifier(s)) }},
	{"prefix", []string{"prefix"}, []string{"p", "my-pfx", "_p1"}, func(s string) string { return verdict(yang.IsIdentifier(s)) }},
	{"identifier-ref", []string{"if-feature", "base", "type", "uses"},
		[]string{"f", "p:f", "a-b:c.d", "_a:_b", "string"}, func(s string) string { return verdict(yang.IsIdentifierRef(s)) }},
	// the date of a revision is a day of the (Gregorian) calendar; for a revision-date only the shape is asserted
	{"date", []string{"revision"}, []string{"2020-01-01", "1999-12-31", "2024-02-29", "2000-02-29"}, func(s string) string {
		lex, cal := yang.IsDate(s)
		return verdict(lex && cal)
	}},
	{"date-shape", []string{"revision-date"}, []string{"2020-01-01", "1999-12-31", "2024-02-29"}, func(s string) string {
		lex, cal := yang.IsDate(s)
		if !lex {
			return "reject"
		}
		if !cal {
			return "unasserted"
		}
		return "accept"
	}},
	{"boolean", []string{"config", "mandatory", "require-instance", "yin-element"}, []string{"true", "false"},
		func(s string) string { return verdict(s == "true" || s == "false") }},
	{"non-negative-integer", []string{"min-elements", "position"}, []string{"0", "1", "10", "4294967295", "255"}, intVerdict(yang.IsNonNegInt, 32, false)},
	{"integer", []string{"value"}, []string{"0", "1", "-1", "2147483647", "-2147483648", "42"}, intVerdict(yang.IsInteger, 32, true)},
	{"max-elements", []string{"max-elements"}, []string{"unbounded", "1", "10", "4294967295"}, func(s string) string {
		if s == "unbounded" {
			return "accept"
		}
		if !yang.IsNonNegInt(s) || s == "0" {
			return "reject"
		}
		return intVerdict(yang.IsNonNegInt, 32, false)(s)
	}},
	{"status", []string{"status"}, []string{"current", "obsolete", "deprecated"},
		func(s string) string { return verdict(s == "current" || s == "obsolete" || s == "deprecated") }},
	{"ordered-by", []string{"ordered-by"}, []string{"user", "system"}, func(s string) string { return verdict(s == "user" || s == "system") }},
	{"deviate", []string{"deviate"}, []string{"add", "delete", "replace", "not-supported"},
		func(s string) string { return verdict(s == "add" || s == "delete" || s == "replace" || s == "not-supported") }},
	{"range", []string{"range"}, []string{"1..2", "1", "min..max", "1..5|7|9..max", "-5..5", "0.5..1.5", "1 .. 2 | 4", "min..0", "1..5 |\r\n 7", "1..2\r\n| 4..5\n| 9"},
		func(s string) string { return rangeVerdict(s, yang.IsRangeArg(s)) }},
	{"length", []string{"length"}, []string{"1..2", "0", "min..max", "1..5|7|9..max", "1 .. 2 | 4", "1..5 |\r\n 7", "1 |\r\n\t2"},
		func(s string) string {
			if hugeDigits.MatchString(s) {
				return "unasserted"
			}
			return rangeVerdict(s, yang.IsLengthArg(s))
		}},
	{"key", []string{"key"}, []string{"k", "a b", "a  b\tc", "p:k", "k1 k-2 k.3"}, func(s string) string {
		if s != strings.Trim(s, " \t\r\n") {
			return "unasserted" // leading/trailing separators: too pedantic to assert
		}
		return verdict(yang.IsKeyArg(s))
	}},
	{"unique", []string{"unique"}, []string{"a", "a b", "a/b c/d/e", "p:a/q:b"}, func(s string) string {
		if s != strings.Trim(s, " \t\r\n") {
			return "unasserted"
		}
		return verdict(yang.IsUniqueArg(s))
	}},
	{"absolute-schema-nodeid", []string{"deviation"}, []string{"/a", "/p:a/p:b", "/a/b/c", "/m0:c1"},
		func(s string) string { return verdict(yang.IsAbsoluteNodeid(s)) }},
	// augment takes an absolute id at module level and a descendant id inside uses: lexically either
	{"schema-nodeid", []string{"augment"}, []string{"/a", "/p:a/p:b", "a/b", "/m0:c1"},
		func(s string) string { return verdict(yang.IsAbsoluteNodeid(s) || yang.IsDescendantNodeid(s)) }},
	{"descendant-schema-nodeid", []string{"refine"}, []string{"a", "a/b", "p:a/q:b"}, func(s string) string { return verdict(yang.IsDescendantNodeid(s)) }},
	{"fraction-digits", []string{"fraction-digits"}, []string{"1", "2", "9", "10", "18"}, func(s string) string { return verdict(yang.IsFractionDigits(s)) }},
	{"yang-version", []string{"yang-version"}, []string{"1"}, func(s string) string { return verdict(s == "1") }},
	{"pattern", []string{"pattern"}, []string{"a*", "[a-z]+", "(ab|cd)?", "[0-9]{1,3}", "\\d+", "a.b", "a", "ab\\", "x+y"}, func(s string) string {
		// only clearly broken expressions are asserted to be rejected, and a safe subset to be accepted
		if n := len(s) - len(strings.TrimRight(s, "\\")); n%2 == 1 {
			return "reject" // a backslash at the very end escapes nothing
		}
		if strings.ContainsAny(s, "\\") {
			return "unasserted"
		}
		// a quantifier with nothing in front of it to repeat
		for i := 0; i < len(s); i++ {
			if c := s[i]; c == '[' {
				break // (inside a class these are ordinary characters: left to the scan below)
			} else if c == '?' && i > 0 && s[i-1] == '(' {
				return "unasserted" // "(?" opens a group with flags in the regular expression library used: not a subject here
			} else if (c == '*' || c == '+' || c == '?') && (i == 0 || s[i-1] == '(' || s[i-1] == '|') {
				return "reject"
			}
		}
		depth := 0
		inClass := false
		for i := 0; i < len(s); i++ {
			c := s[i]
			switch {
			case inClass:
				if c == ']' {
					inClass = false
				}
			case c == '[':
				inClass = true
			case c == '(':
				depth++
			case c == ')':
				depth--
				if depth < 0 {
					return "reject"
				}
			}
		}
		if depth != 0 || inClass {
			return "reject"
		}
		for i := 0; i < len(s); i++ {
			c := s[i]
			if !(c >= 'a' && c <= 'z' || c >= '0' && c <= '9') {
				return "unasserted"
			}
		}
		return "accept"
	}},
}

// "max" as a lower or "min" as an upper boundary is lexically valid but
// meaningless: not asserted.
func rangeVerdict(s string, ok bool) string {
	if ok {
		for _, part := range strings.Split(s, "|") {
			bs := strings.Split(part, "..")
			if len(bs) == 2 && (strings.TrimSpace(bs[0]) == "max" || strings.TrimSpace(bs[1]) == "min") {
				return "unasserted"
			}
		}
	}
	return verdict(ok)
}

// (with control characters whose codes differ from those of a letter, a digit, '-' and '.' in one bit)
var c09MutChars = []byte("0a-_.:/ +x1Z|\t\r\x10\x0e\x19\x7f\x00@")

func c09Mutations(valid []string) []string {
	seen := map[string]bool{}
	var out []string
	add := func(s string) {
		if !seen[s] && !strings.ContainsAny(s, "\"\\") {
			seen[s] = true
			out = append(out, s)
		}
	}
	for _, v := range valid {
		add(v)
		for i := 0; i <= len(v); i++ {
			if i < len(v) {
				add(v[:i] + v[i+1:])
			}
			for _, c := range c09MutChars {
				add(v[:i] + string(c) + v[i:])
				if i < len(v) {
					add(v[:i] + string(c) + v[i+1:])
				}
			}
		}
	}
	hostile := []string{"", " ", "TRUE", "True", "t", "T", "f", "F", "FALSE", "1", "0", "yes", "no", "+1", "+0", "-0", "00", "01", "007", "0x10", "0X1f", "0b1", "0o7", "1_0", "1e1", "1.0",
		"4294967296", "2147483648", "-2147483649", "18446744073709551615", "99999999999999999999", "é", "aé", "日", "\u00aa", "a\u00ba", "\u00c0\u00c1", "a\u00b5", "Ω", "a b", "xml", "XMLa", "xMl-b", "x ml", "a:b:c", ":a", "a:", "/", "//a", "/a/", "a/",
		"/a//b", "..", "1..", "..2", "1...2", "1..2..3", "|", "1|", "|1", "1||2", "min", "max", "max..min", "a..b", "1..a", "0x1..2", "+1..2", "1.5", ".5", "5.", "-", "19", "0", "20", "1a", "unbounded ", "Unbounded",
		"current ", "Current", "user\n", "2020-1-01", "2020-01-1", "20200101", "2020/01/01", "+020-01-01", "2020-13-01", "2020-02-30", "0000-00-00", "2100-02-29", "1900-02-29", "2200-02-29", "2400-02-29", "2023-02-29", "2024-02-30", "2020-04-31", "2020-06-31", "2020-00-10", "2020-12-00", "2020-12-32", "2020-01-01 ", "abcd-ef-gh"}
	for _, h := range hostile {
		add(h)
	}
	return out
}

// c09Joins: ordered pairs of the first six valid arguments joined by a blank, by nothing,
// by '|' and by ',', and all of them joined by a blank, in both directions.
func c09Joins(valid, have []string) []string {
	seen := map[string]bool{}
	for _, h := range have {
		seen[h] = true
	}
	var out []string
	add := func(s string) {
		if !seen[s] {
			seen[s] = true
			out = append(out, s)
		}
	}
	v := valid
	if len(v) > 6 {
		v = v[:6]
	}
	for i := range v {
		for j := range v {
			if i != j {
				for _, sep := range []string{" ", "", "|", ","} {
					add(v[i] + sep + v[j])
				}
			}
		}
	}
	add(strings.Join(v, " "))
	rev := make([]string, len(v))
	for i := range v {
		rev[len(v)-1-i] = v[i]
	}
	add(strings.Join(rev, " "))
	return out
}

type c09ArgCase struct {
	kind, kw, arg string
}

func c09ArgCases() []c09ArgCase {
	var out []c09ArgCase
	for _, k := range c09ArgKinds {
		muts := c09Mutations(k.valid)
		switch k.name {
		case "boolean", "status", "ordered-by", "deviate", "max-elements", "non-negative-integer", "integer", "prefix", "identifier", "identifier-ref", "date":
			// two or more valid arguments in one string: a membership test written as a
			// search in the list of the valid ones finds them
			muts = append(muts, c09Joins(k.valid, muts)...)
		}
		if k.name == "pattern" {
			// (the mutations leave out every string with a backslash in it)
			muts = append(muts, "a\\", "[0-9]+\\", "\\", "a\\\\\\", "*a", "+", "?abc", "(*a)", "a|*b", "a|+", "(?)", "\\d+\\")
		}
		for _, kw := range k.kw {
			if kw == "enum-skip" {
				continue
			}
			for _, m := range muts {
				out = append(out, c09ArgCase{k.name, kw, m})
			}
		}
	}
	return out
}

var c09ArgList = c09ArgCases()

func c09KindByName(n string) *c09ArgKind {
	for i := range c09ArgKinds {
		if c09ArgKinds[i].name == n {
			return &c09ArgKinds[i]
		}
	}
	return nil
}

func c09BuildArg(c c09ArgCase) *yang.Stmt {
	root, p := yang.Context(c.kw)
	p.Arg = c.arg
	p.HasArg = true
	if c.kw == "deviate" {
		// children depend on the deviate kind; keep none (not-supported style)
		p.Kids = nil
	}
	if c.kw == "revision" || c.kw == "revision-date" {
		// single revision: no ordering interplay
	}
	return root
}

// ---------------------------------------------------------------- run

const c09ArgBatch = 16

func (p *c09) NumCases(tier string, seed int64) int {
	return len(c09TripleList) + len(c09SectionList) + (len(c09ArgList)+c09ArgBatch-1)/c09ArgBatch + tierN(tier, 2000, 200000)
}

var c09LocRe = regexp.MustCompile(`c09\.yang:(\d+):(\d+)`)

func c09Parse(text string) (accepted bool, errText string, panicked string) {
	var err error
	pan, msg, _ := core.Guard(func() { _, err = parse.Parse("c09.yang", text, nil) })
	if pan {
		return false, "", msg
	}
	if err != nil {
		return false, err.Error(), ""
	}
	return true, "", ""
}

func c09Check(text, expect, class, offending string, res *core.CaseResult) {
	if expect == "unasserted" {
		res.Ev("unasserted_cases", 1)
		return
	}
	res.Ev("inputs_evaluated", 1)
	res.Key(text)
	acc, et, pan := c09Parse(text)
	if pan != "" {
		res.Fail("C09/panic", text, pan)
		return
	}
	if acc == (expect == "accept") {
		if acc {
			res.Ev("accepted_by_both", 1)
		} else {
			res.Ev("rejected_by_both", 1)
			// the rejection must name the offending statement and its location
			if !c09LocRe.MatchString(et) {
				res.Fail("C09/error-without-location/"+class, text, et)
			} else if offending != "" && !strings.Contains(et, offending) {
				res.Fail("C09/error-does-not-name-statement/"+class, text, fmt.Sprintf("expected the text to mention %q: %s", offending, et))
			} else {
				c09CheckLocation(text, et, class, offending, res)
			}
		}
		return
	}
	if acc {
		res.Fail("C09/accepted-but-invalid/"+class, text, "RFC 6020 says reject")
	} else {
		res.Fail("C09/rejected-but-valid/"+class, text, "RFC 6020 says accept; error: "+et)
	}
}

// c09Kw is a statement of a text: where its keyword starts (line from 1, byte column from 0), and how deep it is nested.
type c09Kw struct {
	line, col, depth int
	kw               string
}

// c09Keywords lists the statements of a text in order.  multiLine: a quoted string spans lines (its value
// depends on the layout).
func c09Keywords(text string) (kws []c09Kw, multiLine bool) {
	line, ls, depth := 1, 0, 0
	expectKw := true
	for i := 0; i < len(text); {
		c := text[i]
		switch {
		case c == '\n':
			line++
			ls = i + 1
			i++
		case c == ' ' || c == '\t' || c == '\r':
			i++
		case c == '/' && i+1 < len(text) && text[i+1] == '/':
			for i < len(text) && text[i] != '\n' {
				i++
			}
		case c == '/' && i+1 < len(text) && text[i+1] == '*':
			e := strings.Index(text[i+2:], "*/")
			if e < 0 {
				return kws, multiLine
			}
			for _, b := range []byte(text[i : i+2+e+2]) {
				if b == '\n' {
					line++
				}
			}
			i += 2 + e + 2
			if k := strings.LastIndexByte(text[:i], '\n'); k >= ls {
				ls = k + 1
			}
		case c == '{':
			depth++
			expectKw = true
			i++
		case c == '}':
			depth--
			expectKw = true
			i++
		case c == ';':
			expectKw = true
			i++
		case c == '"' || c == '\'':
			j := i + 1
			for j < len(text) && text[j] != c {
				if c == '"' && text[j] == '\\' {
					j++
				}
				if j < len(text) && text[j] == '\n' {
					multiLine = true
					line++
					ls = j + 1
				}
				j++
			}
			i = j + 1
			expectKw = false
		default:
			j := i
			for j < len(text) && !strings.ContainsRune(" \t\r\n;{}\"", rune(text[j])) {
				j++
			}
			if expectKw {
				kws = append(kws, c09Kw{line: line, col: i - ls, depth: depth, kw: text[i:j]})
			}
			expectKw = false
			i = j
		}
	}
	return kws, multiLine
}

// c09CheckLocation: the line and column of a rejection are those of a statement of the text - the offending
// one or the one it stands in (cardinality is reported on the parent) - and they follow the statement when the
// layout of the text changes.
func c09CheckLocation(text, et, class, offending string, res *core.CaseResult) {
	loc := func(et string) (l, c int) {
		m := c09LocRe.FindStringSubmatch(et)
		if m == nil {
			return -1, -1
		}
		fmt.Sscan(m[1], &l)
		fmt.Sscan(m[2], &c)
		return
	}
	L, C := loc(et)
	kws, multi := c09Keywords(text)
	at := -1
	present := false
	for i, k := range kws {
		if k.line == L && k.col == C {
			at = i
		}
		if k.kw == offending {
			present = true
		}
	}
	res.Ev("locations_checked", 1)
	if at < 0 {
		res.Fail("C09/error-location-is-not-a-statement/"+class, text, et)
		return
	}
	missing := strings.HasPrefix(class, "card/") && strings.HasSuffix(class, "/0") // (a required statement is not there: reported on the parent)
	if offending != "" && present && !missing && kws[at].kw != offending {
		child := false
		for _, k := range kws[at+1:] {
			if k.depth <= kws[at].depth {
				break
			}
			if k.depth == kws[at].depth+1 && k.kw == offending {
				child = true
			}
		}
		if !child {
			res.Fail("C09/error-location-is-another-statement/"+class, text, fmt.Sprintf("the location is that of %q, which is neither the %q statement nor its parent: %s", kws[at].kw, offending, et))
			return
		}
	}
	if multi {
		return
	}
	// the same statements, every line starting in column 0, behind a comment header
	lines := strings.Split(text, "\n")
	ind := 0
	for i, ln := range lines {
		t := strings.TrimLeft(ln, " \t")
		if i == L-1 {
			ind = len(ln) - len(t)
		}
		lines[i] = t
	}
	const header = "// relaid\n\n"
	t2 := header + strings.Join(lines, "\n")
	acc2, et2, pan2 := c09Parse(t2)
	res.Ev("locations_checked_after_relayout", 1)
	switch L2, C2 := loc(et2); {
	case pan2 != "":
		res.Fail("C09/panic", t2, pan2)
	case acc2:
		res.Fail("C09/verdict-depends-on-layout/"+class, t2, "rejected as laid out first, accepted without indentation: "+et)
	case L2 != L+2 || C2 != C-ind:
		res.Fail("C09/error-location-does-not-follow-the-statement/"+class, t2, fmt.Sprintf("indented text: %s\nwithout indentation, two lines further down (expected %d:%d): %s", et, L+2, C-ind, et2))
	}
}

// classification of invalid-but-accepted argument strings by the lenient
// construct involved (reference side: properties of the string only)
func c09ArgClass(kind, arg string) string {
	switch kind {
	case "boolean":
		switch arg {
		case "1", "0", "t", "f", "T", "F", "TRUE", "FALSE", "True", "False":
			return "boolean/strconv.ParseBool-forms"
		}
	case "length", "range":
		collapsed := strings.NewReplacer(" ", "", "\t", "", "\n", "", "\r", "").Replace(arg)
		if collapsed != arg && ((kind == "length" && yang.IsLengthArg(collapsed)) || (kind == "range" && yang.IsRangeArg(collapsed))) {
			return kind + "/blanks-inside-tokens"
		}
	case "non-negative-integer", "integer", "max-elements":
		t := strings.TrimLeft(arg, "+-")
		if strings.HasPrefix(arg, "+") {
			return kind + "/explicit-plus-sign"
		}
		if len(t) > 1 && t[0] == '0' || strings.Contains(t, "_") || strings.ContainsAny(t, "xXbBoO") {
			return kind + "/base-prefix-leading-zero-or-underscore"
		}
	case "identifier", "prefix", "identifier-ref", "unique", "absolute-schema-nodeid", "descendant-schema-nodeid":
		for i := 0; i < len(arg); i++ {
			if arg[i] >= 0x80 {
				return kind + "/non-ascii-letter"
			}
		}
	}
	return kind
}

func (p *c09) Describe(tier string, seed int64, idx int) string {
	if idx < len(c09TripleList) {
		t := c09TripleList[idx]
		root, exp := c09BuildTriple(t)
		return fmt.Sprintf("(%s, %s, %d) expect %s\n%s", t.P, t.C, t.M, exp, yang.Render(root, nil))
	}
	return fmt.Sprintf("C09 case %d", idx)
}

// c09OtherConfiguration: a parse under another configuration of extension cardinalities (every list has to carry a
// configd:help, a container may carry a configd:priority), made before the texts of every case.  What Parse
// says about a text depends on the text and on the configuration handed to that call, not on earlier calls.
func c09OtherConfiguration(res *core.CaseResult) {
	card := func(nt parse.NodeType) map[parse.NodeType]parse.Cardinality {
		switch nt {
		case parse.NodeList:
			return map[parse.NodeType]parse.Cardinality{parse.NodeConfigdHelp: {Start: '1', End: '1'}}
		case parse.NodeContainer, parse.NodeLeaf:
			return map[parse.NodeType]parse.Cardinality{parse.NodeConfigdPriority: {Start: '0', End: '1'}}
		}
		return nil
	}
	const head = "module m {\n  namespace urn:m;\n  prefix m;\n"
	texts := []struct {
		text string
		ok   bool
	}{
		{head + "  container c { configd:priority 300; leaf x { type string; configd:priority 2; } }\n}\n", true},
		{head + "  list l { key k; leaf k { type string; } configd:help \"h\"; }\n}\n", true},
		{head + "  list l { key k; leaf k { type string; } }\n}\n", false},
	}
	for _, t := range texts {
		var err error
		pan, msg, _ := core.Guard(func() { _, err = parse.Parse("c09-other.yang", t.text, card) })
		res.Ev("parses_under_another_extension_configuration", 1)
		switch {
		case pan:
			res.Fail("C09/panic", t.text, msg)
		case (err == nil) != t.ok:
			res.Fail("C09/extension-configuration-not-honoured", t.text, fmt.Sprintf("expected accepted=%v under the configuration of this call; error: %v", t.ok, err))
		}
	}
}

// c09LargeCounts: multiplicities far beyond 2 (255, 256, 257, 512, 513 statements of one kind under one parent):
// "at most one" and "not permitted" hold for any number, and a list may have any number of leaves.
func c09LargeCounts(res *core.CaseResult) {
	const head = "module m {\n  namespace urn:m;\n  prefix m;\n"
	rep := func(s string, n int) string { return strings.Repeat(s, n) }
	for _, n := range []int{255, 256, 257, 512, 513} {
		var leaves strings.Builder
		for i := 0; i < n; i++ {
			fmt.Fprintf(&leaves, "    leaf l%d { type string; }\n", i)
		}
		cases := []struct{ text, expect, cls, off string }{
			{head + "  leaf x {\n    type string;\n" + rep("    description d;\n", n) + "  }\n}\n", "reject", fmt.Sprintf("card/leaf/description/%d", n), "description"},
			{head + "  leaf x {\n" + rep("    type string;\n", n) + "  }\n}\n", "reject", fmt.Sprintf("card/leaf/type/%d", n), "type"},
			{head + "  leaf x {\n    type string;\n" + rep("    key k;\n", n) + "  }\n}\n", "reject", fmt.Sprintf("card/leaf/key/%d", n), "key"},
			{head + "  container c {\n" + rep("    presence p;\n", n) + "  }\n}\n", "reject", fmt.Sprintf("card/container/presence/%d", n), "presence"},
			{head + "  list li {\n    key l0;\n" + leaves.String() + "  }\n}\n", "accept", fmt.Sprintf("card/list/leaf/%d", n), ""},
			{head + "  container c {\n" + leaves.String() + "  }\n}\n", "accept", fmt.Sprintf("card/container/leaf/%d", n), ""},
			{head + "  leaf x {\n    type string;\n" + rep("    must \"1 = 1\";\n", n) + "  }\n}\n", "accept", fmt.Sprintf("card/leaf/must/%d", n), ""},
		}
		for _, c := range cases {
			res.Ev("large_multiplicities", 1)
			c09Check(c.text, c.expect, c.cls, c.off, res)
		}
	}
}

func (p *c09) Run(tier string, seed int64, idx int) core.CaseResult {
	var res core.CaseResult
	c09OtherConfiguration(&res)
	if idx == 0 {
		c09LargeCounts(&res)
	}
	if idx < len(c09TripleList) {
		t := c09TripleList[idx]
		root, exp := c09BuildTriple(t)
		text := yang.Render(root, nil)
		res.Ev("triples", 1)
		off := t.C
		if exp == "reject" && t.M == 0 {
			off = t.C // "missing required 'x' statement" still names the child keyword
		}
		cls := fmt.Sprintf("card/%s/%s/%d", t.P, t.C, t.M)
		if t.C == "bogus" && t.M > 0 {
			cls = "unprefixed-unknown-keyword"
		}
		c09Check(text, exp, cls, off, &res)
		if c09NameTaking[t.P] {
			// the same triple with the parent statement named like (the second half of) a keyword: a name is a name
			for _, nm := range c09KeywordNames {
				root, exp := c09BuildTriple(t)
				_, ps := yang.Context(t.P)
				var ren func(s *yang.Stmt) bool
				ren = func(s *yang.Stmt) bool {
					if s.Kw == ps.Kw && s.Arg == ps.Arg {
						s.Arg = nm
						return true
					}
					for _, k := range s.Kids {
						if ren(k) {
							return true
						}
					}
					return false
				}
				if !ren(root) {
					continue
				}
				res.Ev("triples_with_a_keyword_as_the_name", 1)
				c09Check(yang.Render(root, nil), exp, cls, off, &res)
			}
		}
		if idx%1009 == 0 {
			res.Sample = map[string]interface{}{"triple": []interface{}{t.P, t.C, t.M}, "expect": exp, "text": text}
		}
		return res
	}
	idx -= len(c09TripleList)
	if idx < len(c09SectionList) {
		s := c09SectionList[idx]
		res.Ev("section_orders", 1)
		cls := "order/" + strings.Fields(s.desc)[0] + "/" + strings.Join(strings.Fields(s.desc)[1:3], "-")
		if strings.HasPrefix(s.desc, "keyword ") {
			cls = strings.Join(strings.Fields(s.desc)[:3], "/")
		}
		c09Check(s.text, s.expect, cls, "", &res)
		if idx%97 == 0 {
			res.Sample = map[string]interface{}{"order_case": s.desc, "expect": s.expect}
		}
		return res
	}
	idx -= len(c09SectionList)
	nb := (len(c09ArgList) + c09ArgBatch - 1) / c09ArgBatch
	if idx < nb {
		for k := idx * c09ArgBatch; k < (idx+1)*c09ArgBatch && k < len(c09ArgList); k++ {
			c := c09ArgList[k]
			kind := c09KindByName(c.kind)
			exp := kind.accept(c.arg)
			root := c09BuildArg(c)
			text := yang.Render(root, &yang.Layout{Quote: 2, Boundary: -1})
			res.Ev("argument_strings", 1)
			c09Check(text, exp, "arg/"+c09ArgClass(c.kind, c.arg), c.kw, &res)
		}
		if idx%251 == 0 {
			c := c09ArgList[idx*c09ArgBatch]
			res.Sample = map[string]interface{}{"argument_kind": c.kind, "statement": c.kw, "argument": c.arg}
		}
		return res
	}
	idx -= nb
	// thorough: seeded random argument strings
	r := core.CaseRng(seed, "C09", idx)
	for k := 0; k < 16; k++ {
		kind := &c09ArgKinds[r.Intn(len(c09ArgKinds))]
		kw := core.Pick(r, kind.kw)
		if kw == "enum-skip" {
			continue
		}
		base := core.Pick(r, kind.valid)
		bs := []byte(base)
		for e := r.Range(1, 3); e > 0; e-- {
			pos := r.Intn(len(bs) + 1)
			c := core.Pick(r, c09MutChars)
			switch r.Intn(3) {
			case 0:
				bs = append(bs[:pos], append([]byte{c}, bs[pos:]...)...)
			case 1:
				if pos < len(bs) {
					bs[pos] = c
				}
			default:
				if pos < len(bs) {
					bs = append(bs[:pos], bs[pos+1:]...)
				}
			}
		}
		arg := string(bs)
		root := c09BuildArg(c09ArgCase{kind.name, kw, arg})
		text := yang.Render(root, &yang.Layout{Quote: 2, Boundary: -1})
		res.Ev("argument_strings", 1)
		c09Check(text, kind.accept(arg), "arg/"+c09ArgClass(kind.name, arg), kw, &res)
	}
	return res
}

func (p *c09) Witness(raw json.RawMessage) []core.Failure {
	var w struct {
		Text   string `json:"text"`
		Expect string `json:"expect"`
		Class  string `json:"class"`
	}
	json.Unmarshal(raw, &w)
	var res core.CaseResult
	c09Check(w.Text, w.Expect, w.Class, "", &res)
	return res.Fails
}
