package props

import (
	"encoding/json"
	"fmt"
	"regexp"
	"strings"

	"github.com/sdcio/yang-parser/xpath"
	"github.com/sdcio/yang-parser/xpath/grammars/expr"
	"github.com/sdcio/yang-parser/xpath/grammars/leafref"

	"verifharness/internal/core"
	"verifharness/internal/xp"
)

// C04: exactly the supported XPath and leafref path syntax is accepted.
// Oracle: accept/reject verdict of independent reference recognisers.
type c04 struct{ base }

func init() {
	core.Register(&c04{base: base{
		id: "C04",
		rule: "inputs = (1) every tuple of length 1..3 (quick; 1..4 thorough) over a 64-symbol XPath token alphabet (all punctuation/operators, number forms, " +
			"literals, plain/prefixed/wildcard names, names colliding with operator, function, axis and node-type names, stray characters), each joined with and without blanks, " +
			"plus seeded tuples of length 4..8; (2) the same over a 22-symbol path-arg alphabet for the leafref compiler (length 1..4 quick, 1..5 thorough); (3) valid sentences from the " +
			"expression/path generators with every single-token deletion, duplication, replacement and adjacent swap; (4) every byte-prefix of those sentences, an invalid UTF-8 byte at " +
			"every position, every registered function with 0..4 arguments, a fixed hostile list; verdicts (error or not) of expr.NewExprMachine / leafref.NewLeafrefMachine are compared " +
			"with the reference recognisers; distinct_nontrivial = distinct input strings on which both recognisers gave an asserted verdict",
		block: 16,
		assumptions: []string{
			"reference recognisers (harness/internal/xp/refgr.go) transcribe XPath 1.0 section 3.7 tokenisation and the grammar restricted to the supported subset, and the RFC 6020 path-arg ABNF with optional blanks between tokens",
			"not asserted: blanks inside a QName ('p : a'), deref() with an argument that is not a plain location path, digit strings that overflow to infinity",
		},
		minEvents: []string{"expr_inputs", "leafref_inputs", "expr_accepted_by_both", "leafref_accepted_by_both", "rejected_by_both"},
	}})
}

var c04Alpha = []string{
	"(", ")", "[", "]", ".", "..", "@", ",", "::", "/", "//", "|", "+", "-", "=", "!=", "<", "<=", ">", ">=", "*", "$x",
	"1", "1.", ".5", "1.5", "'a'", "\"b\"", "a", "p:a", "p:*", "x:a", "é",
	"and", "or", "div", "mod", "not", "count", "concat", "current", "deref", "text", "true", "last", "string", "substring",
	"child", "parent", "self", "ancestor", "node", "comment", "processing-instruction",
	"#", "!", "{", "\\", "1e5", "a-b", "''", ":", "$", "nosuchfn",
	// names that are operator names only in lower case
	"AND", "Or", "DIV", "Mod",
	// letters of Unicode that are no name characters of XML (feminine / masculine ordinal, micro sign)
	"µ", "aº",
}

var c04LrAlpha = []string{
	"/", "..", "[", "]", "=", "(", ")", "current", "a", "b", "p:a", "x:a", "xmlfoo", "a-1.b", "*", ".", ",", "1", "'s'", "|", "deref", " ",
}

func c04Pfx(pfx string) (string, error) {
	switch pfx {
	case "", "p", "q":
		return "urn:" + pfx, nil
	}
	return "", fmt.Errorf("unknown prefix %q", pfx)
}

func c04Known(p string) bool { return p == "p" || p == "q" }

// a second prefix environment: the verdict on a text depends on the prefixes known to *this* compilation
func c04PfxB(pfx string) (string, error) {
	switch pfx {
	case "", "q", "zz":
		return "urn:b:" + pfx, nil
	}
	return "", fmt.Errorf("unknown prefix %q", pfx)
}

func c04KnownB(p string) bool { return p == "q" || p == "zz" }

// c04OtherEnv: the same text compiled again where other prefixes are known (after the first compilation).
func c04OtherEnv(s string, leafrefGrammar bool, res *core.CaseResult) {
	if !strings.Contains(s, ":") {
		return
	}
	var want xp.Verdict
	var got bool
	pan, msg, _ := core.Guard(func() {
		if leafrefGrammar {
			want = xp.RecognisePathArg(s, c04KnownB)
			m, err := leafref.NewLeafrefMachine(s, c04PfxB)
			got = err == nil && m != nil
		} else {
			want = xp.RecogniseExpr(s, c04KnownB)
			m, err := expr.NewExprMachine(s, c04PfxB)
			got = err == nil && m != nil
		}
	})
	g := map[bool]string{false: "expr", true: "leafref"}[leafrefGrammar]
	res.Ev("texts_compiled_again_under_other_prefixes", 1)
	switch {
	case pan:
		res.Fail("C04/"+g+"/other-prefix-environment/panic", s, msg)
	case want == xp.Unasserted:
	case got != (want == xp.Accept):
		res.Fail("C04/"+g+"/other-prefix-environment/verdict-differs", s,
			fmt.Sprintf("compiled first with p, q known (verdict as the reference), then with q, zz known: accepted=%v, reference verdict=%s", got, want))
	}
}

// ---------------------------------------------------------------- case layout

type c04Layout struct {
	exprTupleLen, lrTupleLen int
	nExprTuple, nLrTuple     int // batches
	nSampled                 int
	nSentences               int
	nBytes                   int
}

func ipow(b, e int) int {
	r := 1
	for i := 0; i < e; i++ {
		r *= b
	}
	return r
}

// batches for tuples up to length L over alphabet size A: one batch per
// (length, prefix of length-1): sum_{l=1..L} A^(l-1)
func tupleBatches(a, l int) int {
	n := 0
	for i := 1; i <= l; i++ {
		n += ipow(a, i-1)
	}
	return n
}

func c04GetLayout(tier string) c04Layout {
	l := c04Layout{exprTupleLen: 3, lrTupleLen: 4, nSampled: 600, nSentences: 1500, nBytes: 600}
	if tier == "thorough" {
		l = c04Layout{exprTupleLen: 4, lrTupleLen: 5, nSampled: 20000, nSentences: 40000, nBytes: 15000}
	}
	l.nExprTuple = tupleBatches(len(c04Alpha), l.exprTupleLen)
	l.nLrTuple = tupleBatches(len(c04LrAlpha), l.lrTupleLen)
	return l
}

func (p *c04) NumCases(tier string, seed int64) int {
	l := c04GetLayout(tier)
	return 1 + l.nExprTuple + l.nLrTuple + l.nSampled + l.nSentences + l.nBytes + 1
}

// c04Collision is the last case of a run, and so the last thing its worker process does: a plugin registers a
// function under the name of a core function, with another number of arguments.  From then on that name is the
// plugin's function: not available to the plain compiler, and taking the declared number of arguments where
// custom functions are allowed.  Other names are what they were.
func c04Collision(res *core.CaseResult) {
	try := func(s string, custom bool) bool {
		var err error
		pan, msg, _ := core.Guard(func() {
			if custom {
				_, err = expr.NewExprMachineWithCustomFunctions(s, c04Pfx)
			} else {
				_, err = expr.NewExprMachine(s, c04Pfx)
			}
		})
		if pan {
			res.Fail("C04/panic", s, msg)
			return false
		}
		return err == nil
	}
	check := func(when, s string, custom, want bool) {
		res.Ev("expressions_around_a_function_name_collision", 1)
		if got := try(s, custom); got != want {
			cls := "accepted-but-not-in-supported-subset"
			if want {
				cls = "rejected-but-in-supported-subset"
			}
			res.Fail("C04/expr/"+cls+"/function-name-collision", s, fmt.Sprintf("%s, custom functions allowed=%v: accepted=%v, the declared functions say %v", when, custom, got, want))
		}
	}
	for _, c := range []bool{false, true} {
		check("before the registration", "re-match(../a, 'x')", c, true)
		check("before the registration", "re-match(../a, 'x', 'i')", c, false)
	}
	xpath.RegisterCustomFunctions([]xpath.CustomFunctionInfo{{Name: "re-match",
		FnPtr:   func(args []xpath.Datum) xpath.Datum { return xpath.NewBoolDatum(true) },
		Args:    []xpath.DatumTypeChecker{xpath.TypeIsLiteral, xpath.TypeIsLiteral, xpath.TypeIsLiteral},
		RetType: xpath.TypeIsBool, DefaultRetVal: xpath.NewBoolDatum(false)}})
	const after = "after a plugin registered re-match with three arguments"
	check(after, "re-match(../a, 'x')", false, false)
	check(after, "re-match(../a, 'x', 'i')", false, false)
	check(after, "re-match(../a, 'x')", true, false)
	check(after, "re-match(../a, 'x', 'i')", true, true)
	check(after, "count(../a[re-match(., 'x', 'i')]) > 0", true, true)
	check(after, "count(../a[re-match(., 'x')]) > 0", true, false)
	for _, c := range []bool{false, true} {
		check(after, "contains(../a, 'x')", c, true)
		check(after, "contains(../a, 'x', 'i')", c, false)
		check(after, "substring(../a, 1, 2) = 'x'", c, true)
	}
}

// decodeTupleBatch: batch index -> fixed prefix (indices)
func decodeTupleBatch(b, a int) []int {
	l := 1
	for {
		n := ipow(a, l-1)
		if b < n {
			break
		}
		b -= n
		l++
	}
	pre := make([]int, l-1)
	for i := l - 2; i >= 0; i-- {
		pre[i] = b % a
		b /= a
	}
	return pre
}

// ---------------------------------------------------------------- verdicts

func implExpr(s string) (accepted bool, panicked string) {
	pan, msg, _ := core.Guard(func() {
		m, err := expr.NewExprMachine(s, c04Pfx)
		accepted = err == nil && m != nil
	})
	if pan {
		return false, msg
	}
	return accepted, ""
}

func implLeafref(s string) (accepted bool, panicked string) {
	pan, msg, _ := core.Guard(func() {
		m, err := leafref.NewLeafrefMachine(s, c04Pfx)
		accepted = err == nil && m != nil
	})
	if pan {
		return false, msg
	}
	return accepted, ""
}

var hugeNumRe = regexp.MustCompile(`[0-9]{300,}`)

// repairs: each rewrites one known-defect construct into its nearest
// conforming form; ok=false when the construct does not occur.
type c04Repair struct {
	class string
	apply func(s string) (string, bool)
}

// blanks around the ':' of a QName (not '::'): removed by the repair
var c04QNameBlanks = regexp.MustCompile(`([\pL\pN_.\-])[ \t\r\n]*:[ \t\r\n]*([\pL_*])`)

func c04RepairQNameBlanks(s string) (string, bool) {
	if !regexp.MustCompile(`[ \t\r\n]:|:[ \t\r\n]`).MatchString(s) {
		return s, false
	}
	ns := c04QNameBlanks.ReplaceAllString(s, "$1:$2")
	return ns, ns != s
}

var c04ExprRepairs = []c04Repair{
	{"C04/expr/blanks-inside-qname-accepted", c04RepairQNameBlanks},
	{"C04/expr/character-U+F001-rejected", func(s string) (string, bool) {
		if !strings.ContainsRune(s, 0xF001) {
			return s, false
		}
		return strings.ReplaceAll(s, "\uf001", "\uf000"), true
	}},
	{"C04/expr/empty-parentheses-accepted", func(s string) (string, bool) {
		toks, _ := xp.LexExpr(s)
		rs := []rune(s)
		var b strings.Builder
		last := 0
		found := false
		for i := 0; i+1 < len(toks); i++ {
			if toks[i].Kind == "(" && toks[i+1].Kind == ")" && (i == 0 || toks[i-1].Kind != "func") {
				b.WriteString(string(rs[last:toks[i].End]))
				b.WriteString("1")
				last = toks[i].End
				found = true
			}
		}
		b.WriteString(string(rs[last:]))
		return b.String(), found
	}},
	{"C04/expr/exponent-number-accepted", func(s string) (string, bool) {
		// scan like a lexer: skip names and literals, find number tokens
		// whose maximal [0-9.eE] run contains an exponent
		var b strings.Builder
		found := false
		i := 0
		isDigit := func(c byte) bool { return c >= '0' && c <= '9' }
		nameByte := func(c byte) bool {
			return c >= 0x80 || c == '_' || (c >= 'a' && c <= 'z') || (c >= 'A' && c <= 'Z')
		}
		for i < len(s) {
			c := s[i]
			switch {
			case c == '\'' || c == '"':
				j := i + 1
				for j < len(s) && s[j] != c {
					j++
				}
				if j < len(s) {
					j++
				}
				b.WriteString(s[i:j])
				i = j
			case nameByte(c):
				j := i
				for j < len(s) && (nameByte(s[j]) || isDigit(s[j]) || s[j] == '-' || s[j] == '.') {
					j++
				}
				b.WriteString(s[i:j])
				i = j
			case isDigit(c) || (c == '.' && i+1 < len(s) && isDigit(s[i+1])):
				j := i
				hasE := false
				for j < len(s) && (isDigit(s[j]) || s[j] == '.' || s[j] == 'e' || s[j] == 'E') {
					if s[j] == 'e' || s[j] == 'E' {
						hasE = true
					}
					j++
				}
				if hasE {
					found = true
					b.WriteString("1")
				} else {
					b.WriteString(s[i:j])
				}
				i = j
			default:
				b.WriteByte(c)
				i++
			}
		}
		return b.String(), found
	}},
	{"C04/expr/predicate-directly-after-current-or-deref-rejected", func(s string) (string, bool) {
		toks, ok := xp.LexExpr(s)
		if !ok {
			return s, false
		}
		rs := []rune(s)
		type span struct{ a, b int }
		var spans []span
		for i := 0; i < len(toks); i++ {
			if toks[i].Kind == "func" && (toks[i].Text == "current" || toks[i].Text == "deref") && i+1 < len(toks) && toks[i+1].Kind == "(" {
				depth := 0
				j := i + 1
				for ; j < len(toks); j++ {
					if toks[j].Kind == "(" {
						depth++
					}
					if toks[j].Kind == ")" {
						depth--
						if depth == 0 {
							break
						}
					}
				}
				if j+1 < len(toks) && toks[j+1].Kind == "[" {
					spans = append(spans, span{toks[i].Start, toks[j].End})
				}
			}
		}
		if len(spans) == 0 {
			return s, false
		}
		var b strings.Builder
		last := 0
		for _, sp := range spans {
			if sp.a < last {
				continue
			}
			b.WriteString(string(rs[last:sp.a]))
			b.WriteString("(")
			b.WriteString(string(rs[sp.a:sp.b]))
			b.WriteString(")")
			last = sp.b
		}
		b.WriteString(string(rs[last:]))
		return b.String(), true
	}},
}

type c04Stats struct{ res *core.CaseResult }

func c04CheckExpr(s string, res *core.CaseResult) {
	res.Ev("expr_inputs", 1)
	res.Ev("inputs_evaluated", 1)
	want := xp.RecogniseExpr(s, c04Known)
	if want == xp.Unasserted || hugeNumRe.MatchString(s) {
		res.Ev("unasserted_inputs", 1)
		return
	}
	got, _ := implExpr(s)
	res.Key("e:" + s)
	if got == (want == xp.Accept) {
		if got {
			res.Ev("expr_accepted_by_both", 1)
		} else {
			res.Ev("rejected_by_both", 1)
		}
		c04OtherEnv(s, false, res)
		return
	}
	// disagreement: explained by known constructs?
	class := "C04/expr/accepted-but-not-in-supported-subset"
	if !got {
		class = "C04/expr/rejected-but-in-supported-subset"
	}
	cur := s
	var applied []string
	done := false
	// several known constructs may occur together (and one may hide another from
	// the reference lexer): apply the repairs round by round until both sides agree
	for round := 0; round < 4 && !done; round++ {
		progressed := false
		for _, rp := range c04ExprRepairs {
			if ns, ok := rp.apply(cur); ok && ns != cur {
				progressed = true
				w2 := xp.RecogniseExpr(ns, c04Known)
				g2, _ := implExpr(ns)
				applied = append(applied, rp.class)
				cur = ns
				if w2 != xp.Unasserted && g2 == (w2 == xp.Accept) {
					// the repaired sentence agrees: the disagreement is due to the
					// repaired construct(s); attribute it to the last one needed
					class = applied[len(applied)-1]
					if len(applied) > 1 {
						// several known constructs at once: attribute to each
						for _, c := range applied[:len(applied)-1] {
							res.Ev("multi_construct_"+c, 1)
						}
					}
					done = true
					break
				}
			}
		}
		if !progressed {
			break
		}
	}
	res.Fail(class, s, fmt.Sprintf("implementation accepted=%v, reference verdict=%s", got, want))
}

func c04CheckLeafref(s string, res *core.CaseResult) {
	res.Ev("leafref_inputs", 1)
	res.Ev("inputs_evaluated", 1)
	want := xp.RecognisePathArg(s, c04Known)
	if want == xp.Unasserted {
		res.Ev("unasserted_inputs", 1)
		return
	}
	got, _ := implLeafref(s)
	res.Key("l:" + s)
	if got == (want == xp.Accept) {
		if got {
			res.Ev("leafref_accepted_by_both", 1)
		} else {
			res.Ev("rejected_by_both", 1)
		}
		c04OtherEnv(s, true, res)
		return
	}
	class := "C04/leafref/accepted-but-not-path-arg"
	if !got {
		class = "C04/leafref/rejected-but-valid-path-arg"
	} else if ns, ok := c04RepairQNameBlanks(s); ok {
		// fully explained by blanks inside node identifiers? then the repaired path agrees
		if w2 := xp.RecognisePathArg(ns, c04Known); w2 != xp.Unasserted {
			if g2, _ := implLeafref(ns); g2 == (w2 == xp.Accept) {
				class = "C04/leafref/blanks-inside-node-identifier-accepted"
			}
		}
	}
	res.Fail(class, s, fmt.Sprintf("implementation accepted=%v, reference verdict=%s", got, want))
}

// ---------------------------------------------------------------- sentence sources

func c04Sentence(r *core.Rng) []string {
	var e *xp.Node
	switch r.Intn(4) {
	case 0:
		cfg := &xp.GenCfg{LeafNames: []string{"a", "b", "p:c"}}
		e = xp.GenExpr(r, xp.Type(r.Intn(3)), r.Range(1, 3), cfg)
	case 1:
		e = c02GenExpr(r)
	case 2:
		e = c03Random(r, r.Range(1, 6))
	default:
		e = c02GenPath(r)
	}
	return xp.RenderTokens(e, xp.RenderMin)
}

func c04LrSentence(r *core.Rng) []string {
	var t []string
	id := func() string {
		n := core.Pick(r, []string{"a", "b", "c", "if", "name", "x-1", "y.z", "_u"})
		if r.Chance(1, 4) {
			return core.Pick(r, []string{"p", "q"}) + ":" + n
		}
		return n
	}
	pred := func() {
		t = append(t, "[", id(), "=", "current", "(", ")", "/")
		for i := r.Range(1, 3); i > 0; i-- {
			t = append(t, "..", "/")
		}
		for i := r.Range(0, 2); i > 0; i-- {
			t = append(t, id(), "/")
		}
		t = append(t, id(), "]")
	}
	abs := func(n int) {
		for i := 0; i < n; i++ {
			t = append(t, "/", id())
			for j := r.Intn(3) - 1; j > 0; j-- {
				pred()
			}
		}
	}
	if r.Bool() {
		abs(r.Range(1, 5))
	} else {
		for i := r.Range(1, 4); i > 0; i-- {
			t = append(t, "..", "/")
		}
		t = append(t, id())
		if r.Bool() {
			if r.Bool() {
				pred()
			}
			abs(r.Range(1, 3))
		}
	}
	return t
}

func joinToks(r *core.Rng, ts []string) string {
	var b strings.Builder
	for i, t := range ts {
		if i > 0 && (xp.NeedsSeparator(ts[i-1], t) || r.Chance(1, 3)) {
			b.WriteString(" ")
		}
		b.WriteString(t)
	}
	return b.String()
}

// characters a careless whitespace table would skip (form feed, vertical tab, NUL, other controls,
// Unicode spaces) next to the four that really are XPath / path-arg whitespace
var c04SpaceLike = []string{"\f", "\v", "\x00", "\x1f", "\x7f", "\u00a0", "\u0085", "\u1680", "\u2028", "\u3000", "\u200b", "\ufeff", " ", "\t", "\r", "\n", " \t\r\n "}

var c04Hostile = []string{
	"µ", "ª", "º", "../delay-µs > 5", "p:µ = 'x'", "a[º = 1]/b", "aµ", "a/ªb", "count(µ)",
	"p : a", "p :a", "p: a", "p : *", "/p : a/ q :b", "a[p : k = 1]", "p\t:\na", "'\uf001'", "a = '\uf001'", "'\uf000\uf002'",
	"", " ", "()", "( )", "(())", "1e5", "1E5", "1.5e3", ".5e1", "1e", "1e+5", "1.2.3", "1..2", "1.", ".", "..", "...", "....",
	"'abc", "\"abc", "'a\"", "a'b'", "a[", "a]", "a[]", "a[[1]]", "a[1]]", "a/", "/", "//", "/a//b", "a//b", "//a", "@a", "a/@b",
	"child::a", "parent::*", "self::node()", "foo::a", "a::b", "text()", "node()", "comment()", "processing-instruction('x')",
	"a/text()", "$v", "$p:v", "nosuchfn()", "p:f()", "x:a", "p:a", "p:*", "*:a", "*", "* * *", "a * b", "a*b", "*/*", "4 * * ", "div", "div div div",
	"and and and", "or or or", "mod mod mod", "a and", "and b", "not(1)", "not()", "not(1,2)", "concat('a')", "concat('a','b','c')", "substring('a',1)",
	"current()", "current(1)", "current()/a", "current()[1]", "current()/a[k=1]", "(current())[1]", "deref(a)", "deref()", "deref(a,b)", "deref(a)/b", "deref(a)[1]",
	"deref(current()/a)", "deref(deref(a)/b)/c", "count(a)", "count(a/b)", "count()", "sum(a)", "local-name(a)", "last()", "position()", "true()", "false()",
	"true", "false", "1 2", "'a' 'b'", "a b", "+1", "- 1", "--1", "1 - -1", "1 +", "= 1", "1 = = 1", "a != b", "a ! = b", "a !b", "a < = b", "a <= b", "a =< b",
	"a | b", "1 | 2", "a | -b", "-a | b", "(a)/b", "(a)[1]", "'x'[1]", "1[1]", "(1)(2)", "a (b)", "a:b:c", "a:", ":a", "a::", "::a", "a.b", "a..b", "a-b", "a - b",
	"a -b", "-a", "a/..", "/..", "/.", "./.", "../..", "a/./b", ".a", "..a", "a..", "\xff", "a\xff", "<\xff", ">\xff", "!\xff", "\xc3", "a\xc3(", "é", "日本",
	"#", "a#b", "{", "}", "\\", "a\\b", ";", "a;b", "?", "a?", "~", "`", "^", "&", "%", "re-match('a','b')", "re-match('a')", "boolean(a)", "string(1,2)",
	"a[b]", "a[b=1]", "a[1][2]", "a[b][c]/d", "a[.='x']", "a[../b = 1]", "a [ k = 1 ] / b", "\ta\n/\rb ", "concat ( 'a' , 'b' )", "string-length('x')",
	"string-length()", "normalize-space()", "number()", "string()", "local-name()", "round(1.5)", "floor(1)", "ceiling(1)", "starts-with('a','b')",
	"contains('a','b')", "substring-before('a','b')", "substring-after('a','b')", "translate('a','b','c')", "translate('a','b')",
}

var c04LrHostile = []string{
	"/p : a/p:b", "/p :a", "/p: a", "../a[p : k = current()/../x]/c", "/a/p\t:\nb",
	"", "/", "/a", "/a/b", "a", "a/b", "../a", "../../a/b", "..", "../", "../..", "/..", "/a/..", "/a/../b", "./a", "/a/*", "/*", "../*", "/a[b=current()/../c]",
	"/a[b=current()/../c]/d", "/a[b=current()/../c][e=current()/../../f/g]/d", "../a[b=current()/../c]", "../a[b=current()/../c]/d", "/a[b=current()/c]",
	"/a[b=current()]", "/a[b='x']", "/a[b=1]", "/a[b=../c]", "/a[1]", "/a[]", "/a[b]", "/a[b=current()/../c", "/a[b=current ( ) / .. / c]", " / a / b ", "/a[ b = current()/../c ]",
	"/p:a/q:b", "/x:a", "/p:a/b", "/xmla", "/XMLa", "/xMl:a", "/p:xmlb", "/a-b.c_d", "/-a", "/1a", "/a//b", "//a", "/a/", "/a|/b", "deref(/a)", "current()/a", "current()/../a",
	"/a[b=deref(../c)]", "/a,b", "/a.", "/.a", "/a[b=current()/../c]]", "/a[[b=current()/../c]]", "/a\xff", "a\xff", "\xff", "/é", "/a b", "/a[b=current()/../p:c]", "/a[p:b=current()/../c]",
	"/a[b=current()/../c/d/e]", "/a[b=current()/../../../c]", "/a[b=current()/../c/..]", "/a[b=current()/../c/../d]", "../a/b[c=current()/../d]/e[f=current()/../g]/h",
}

// ---------------------------------------------------------------- run

func (p *c04) Describe(tier string, seed int64, idx int) string {
	return fmt.Sprintf("C04 batch %d (tier %s, seed %d); rerun with vcheck replay", idx, tier, seed)
}

func (p *c04) Run(tier string, seed int64, idx int) core.CaseResult {
	var res core.CaseResult
	l := c04GetLayout(tier)
	r := core.CaseRng(seed, "C04", idx)
	switch {
	case idx == p.NumCases(tier, seed)-1:
		c04Collision(&res)
		return res
	case idx == 0:
		for _, s := range c04Hostile {
			c04CheckExpr(s, &res)
		}
		for _, s := range c04LrHostile {
			c04CheckLeafref(s, &res)
			c04CheckExpr(s, &res)
		}
		for fn := range xp.RegisteredArity {
			for n := 0; n <= 4; n++ {
				args := make([]string, n)
				for i := range args {
					args[i] = []string{"1", "'a'", "a", "true()"}[i%4]
				}
				c04CheckExpr(fn+"("+strings.Join(args, ", ")+")", &res)
			}
		}
		res.Sample = map[string]interface{}{"stream": "hostile list + arity matrix", "inputs": len(c04Hostile) + 2*len(c04LrHostile) + 5*len(xp.RegisteredArity)}
		return res
	}
	idx--
	if idx < l.nExprTuple {
		pre := decodeTupleBatch(idx, len(c04Alpha))
		ts := make([]string, len(pre)+1)
		for i, x := range pre {
			ts[i] = c04Alpha[x]
		}
		for _, last := range c04Alpha {
			ts[len(pre)] = last
			c04CheckExpr(strings.Join(ts, " "), &res)
			if len(ts) > 1 {
				c04CheckExpr(strings.Join(ts, ""), &res)
			}
		}
		if idx%997 == 0 {
			res.Sample = map[string]interface{}{"stream": "expr token tuples", "last_input": strings.Join(ts, " ")}
		}
		return res
	}
	idx -= l.nExprTuple
	if idx < l.nLrTuple {
		pre := decodeTupleBatch(idx, len(c04LrAlpha))
		ts := make([]string, len(pre)+1)
		for i, x := range pre {
			ts[i] = c04LrAlpha[x]
		}
		for _, last := range c04LrAlpha {
			ts[len(pre)] = last
			c04CheckLeafref(strings.Join(ts, ""), &res)
		}
		if idx%997 == 0 {
			res.Sample = map[string]interface{}{"stream": "leafref token tuples", "last_input": strings.Join(ts, "")}
		}
		return res
	}
	idx -= l.nLrTuple
	if idx < l.nSampled {
		for k := 0; k < 100; k++ {
			n := r.Range(4, 8)
			ts := make([]string, n)
			for i := range ts {
				ts[i] = core.Pick(r, c04Alpha)
			}
			if r.Bool() {
				c04CheckExpr(strings.Join(ts, " "), &res)
			} else {
				c04CheckExpr(strings.Join(ts, ""), &res)
			}
			n = r.Range(5, 9)
			ts = make([]string, n)
			for i := range ts {
				ts[i] = core.Pick(r, c04LrAlpha)
			}
			c04CheckLeafref(strings.Join(ts, ""), &res)
		}
		return res
	}
	idx -= l.nSampled
	if idx < l.nSentences {
		// one valid sentence and all its single-token edits
		isLr := idx%3 == 2
		var ts []string
		alpha := c04Alpha
		check := c04CheckExpr
		if isLr {
			ts = c04LrSentence(r)
			alpha = c04LrAlpha
			check = c04CheckLeafref
		} else {
			ts = c04Sentence(r)
		}
		base := joinToks(r, ts)
		check(base, &res)
		if v := map[bool]xp.Verdict{false: xp.RecogniseExpr(base, c04Known), true: xp.RecognisePathArg(base, c04Known)}[isLr]; v == xp.Accept {
			res.Ev("generated_sentences_valid_by_reference", 1)
		} else {
			res.Ev("generated_sentences_not_valid_by_reference", 1)
		}
		if len(ts) > 40 {
			ts = ts[:40]
		}
		for i := range ts {
			// deletion
			check(joinToks(r, append(append([]string{}, ts[:i]...), ts[i+1:]...)), &res)
			// duplication
			d := append(append([]string{}, ts[:i+1]...), ts[i:]...)
			check(joinToks(r, d), &res)
			// replacement
			rp := append([]string{}, ts...)
			rp[i] = core.Pick(r, alpha)
			check(joinToks(r, rp), &res)
			// insertion
			ins := append(append(append([]string{}, ts[:i]...), core.Pick(r, alpha)), ts[i:]...)
			check(joinToks(r, ins), &res)
			// swap
			if i+1 < len(ts) {
				sw := append([]string{}, ts...)
				sw[i], sw[i+1] = sw[i+1], sw[i]
				check(joinToks(r, sw), &res)
			}
			// a character that looks like a blank, in front of token i: only space, tab, CR and LF separate tokens
			sp := c04SpaceLike[(i+idx)%len(c04SpaceLike)]
			check(joinToks(r, ts[:i])+sp+joinToks(r, ts[i:]), &res)
			res.Ev("space_like_characters_between_tokens", 1)
		}
		check(base+core.Pick(r, c04SpaceLike), &res)
		if idx%499 == 0 {
			res.Sample = map[string]interface{}{"stream": "sentence + single-token edits", "sentence": base}
		}
		return res
	}
	idx -= l.nSentences
	// byte level
	isLr := idx%3 == 2
	var base string
	check := c04CheckExpr
	if isLr {
		base = joinToks(r, c04LrSentence(r))
		check = c04CheckLeafref
	} else {
		base = joinToks(r, c04Sentence(r))
	}
	if len(base) > 80 {
		base = base[:80]
	}
	for i := 0; i <= len(base); i++ {
		check(base[:i], &res)
		check(base[:i]+"\xff"+base[i:], &res)
		if i < len(base) {
			check(base[:i]+base[i+1:], &res)
			check(base[:i]+string(core.Pick(r, []byte("$#!{}\\'\"()[]/.:*@,|=<>+- \t\f\v\x00\x7f\r\n")))+base[i:], &res)
		}
	}
	if idx%499 == 0 {
		res.Sample = map[string]interface{}{"stream": "byte-level edits", "sentence": base}
	}
	return res
}

func (p *c04) Witness(raw json.RawMessage) []core.Failure {
	var w struct {
		Grammar string `json:"grammar"`
		Input   string `json:"input"`
	}
	if err := json.Unmarshal(raw, &w); err != nil {
		return []core.Failure{{Class: "harness-panic", Detail: err.Error()}}
	}
	var res core.CaseResult
	if w.Grammar == "leafref" {
		c04CheckLeafref(w.Input, &res)
	} else {
		c04CheckExpr(w.Input, &res)
	}
	return res.Fails
}
