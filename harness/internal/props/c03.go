package props

import (
	"regexp"
	"encoding/json"
	"fmt"
	"strings"

	"github.com/sdcio/yang-parser/xpath/grammars/expr"

	"verifharness/internal/core"
	"verifharness/internal/xp"
	"verifharness/internal/xpmock"
)

// C03: precedence, associativity and whitespace.  Metamorphic: the same AST
// rendered with minimum parentheses, fully parenthesised, and with whitespace
// inserted / removed at token boundaries must compile to the same program
// listing and produce the same result; the fully parenthesised form is also
// tied to the reference evaluator's value.
type c03 struct{ base }

func init() {
	core.Register(&c03{base: base{
		id: "C03",
		rule: "cases = exhaustive ordered pairs (2 tree shapes) and triples (5 tree shapes) of the 13 binary operators plus '|' and unary minus over rotating operand kinds " +
			"(number, literal, function call, path, negated, parenthesised), then seeded random operator trees with up to 12 operators; each case compiles the minimum-parentheses " +
			"rendering, the fully parenthesised rendering, a rendering with random whitespace (SP TAB CR LF) at every token boundary, one with all removable whitespace removed and " +
			"one rendering per single token boundary (all boundaries up to 24 tokens, 8 sampled beyond); listings and results must be identical and the result must equal the reference value; " +
			"distinct_nontrivial = distinct compiled program listings with at least two operators",
		block: 64,
		assumptions: []string{
			"the fully parenthesised rendering is the ground truth for the tree shape; its value is additionally compared with the reference evaluator",
			"whitespace inside a QName and removal of blanks between a function name and '(' are not varied; the needs-separator predicate is conservative (keeps a blank whenever both neighbouring characters could be part of a name or number)",
		},
		minEvents: []string{"variants_compiled", "whitespace_variants", "reference_value_checks"},
	}})
}

var c03Ops = []string{"or", "and", "=", "!=", "<", "<=", ">", ">=", "+", "-", "*", "div", "mod"}

var c03Table = xp.Table{
	"n1": {Kind: xp.AnsLeaf, Vals: []string{"3"}},
	"n2": {Kind: xp.AnsLeaf, Vals: []string{"12"}},
	"s1": {Kind: xp.AnsLeaf, Vals: []string{"abc"}},
	"a/b": {Kind: xp.AnsLeaf, Vals: []string{"5"}},
	"gone": {Kind: xp.AnsAbsent},
}

func c03Dots(kinds ...xp.StepKind) *xp.Node {
	p := &xp.Path{Root: xp.RootRel}
	for _, k := range kinds {
		p.Steps = append(p.Steps, xp.Step{Kind: k})
	}
	return xp.PathNode(p)
}

// c03Abs: an absolute path as a whole operand (what stands before it must be read as an operator: 2 * /a/b)
func c03Abs(names ...string) *xp.Node {
	p := xp.RelName(names...)
	p.Path.Root = xp.RootAbs
	return p
}

func c03HasAbsPath(e *xp.Node) bool {
	a := false
	xp.Walk(e, false, func(n *xp.Node) {
		if n.Kind == xp.KPath && n.Path.Root == xp.RootAbs {
			a = true
		}
	})
	return a
}

func c03Operand(i int) *xp.Node {
	if i%13 == 12 {
		return [](*xp.Node){c03Abs("n1"), c03Abs("a", "b")}[(i/13)%2]
	}
	switch i % 11 {
	case 8:
		// abbreviated steps as whole operands: what follows them must still be read as an operator
		return c03Dots(xp.SDot)
	case 9:
		return c03Dots(xp.SDotDot)
	case 10:
		p := xp.RelName("n1")
		p.Path.Steps = append(p.Path.Steps, xp.Step{Kind: xp.SDotDot})
		return p
	case 0:
		return xp.Num([]string{"1", "2", "3", "7", "0.5", "10"}[(i/11)%6])
	case 1:
		return xp.Lit([]string{"abc", "4", "", "x y"}[(i/11)%4])
	case 2:
		return xp.Fn("string-length", xp.Lit("hello"))
	case 3:
		return xp.RelName([]string{"n1", "n2", "s1", "gone"}[(i/11)%4])
	case 4:
		return xp.Neg(xp.Num("4"))
	case 5:
		return xp.Paren(xp.Num("6"))
	case 6:
		return xp.RelName("a", "b")
	default:
		return xp.Fn("true")
	}
}

func c03PathOperand(i int) *xp.Node {
	return xp.RelName([]string{"n1", "n2", "s1", "gone"}[i%4])
}

// mk builds op(a,b) honouring that operands of '|' must be path expressions:
// returns nil when impossible.
func c03Bin(op string, a, b *xp.Node) *xp.Node {
	if a == nil || b == nil {
		return nil
	}
	if op == "|" {
		okL := a.Kind == xp.KPath || (a.Kind == xp.KBin && a.Op == "|")
		okR := b.Kind == xp.KPath
		if !okL || !okR {
			return nil
		}
	}
	return xp.Bin(op, a, b)
}

func c03Leaf(op string, i int) *xp.Node {
	if op == "|" {
		return c03PathOperand(i)
	}
	return c03Operand(i)
}

func c03Enum() []*xp.Node {
	ops := append(append([]string{}, c03Ops...), "|")
	var out []*xp.Node
	add := func(n *xp.Node) {
		if n != nil {
			out = append(out, n)
		}
	}
	k := 0
	for _, o1 := range ops {
		for _, o2 := range ops {
			k++
			// (x o1 y) o2 z   and   x o1 (y o2 z)
			add(c03Bin(o2, c03Bin(o1, c03Leaf(o1, k), c03Leaf(o1, k+1)), c03Leaf(o2, k+2)))
			add(c03Bin(o1, c03Leaf(o1, k), c03Bin(o2, c03Leaf(o2, k+1), c03Leaf(o2, k+2))))
			// unary minus in both positions
			add(xp.Neg(c03Bin(o1, c03Leaf(o1, k), c03Leaf(o1, k+1))))
			add(c03Bin(o1, xp.Neg(c03Leaf(o1, k)), c03Leaf(o1, k+1)))
			add(c03Bin(o1, c03Leaf(o1, k), xp.Neg(c03Leaf(o1, k+3))))
		}
	}
	// every operand kind on either side of every operator (token disambiguation depends on the
	// token before an operator name or '*'), alone and followed by a second operator
	for _, o1 := range c03Ops {
		for i := 0; i < 11; i++ {
			for j := 0; j < 11; j++ {
				add(xp.Bin(o1, c03Operand(i), c03Operand(j)))
				add(xp.Bin("*", xp.Bin(o1, c03Operand(i), c03Operand(j)), c03Operand(i+3)))
			}
		}
	}
	for _, o1 := range c03Ops {
		for _, o2 := range c03Ops {
			for _, o3 := range c03Ops {
				k++
				x, y, z, w := c03Operand(k), c03Operand(k+1), c03Operand(k+2), c03Operand(k+3)
				add(xp.Bin(o3, xp.Bin(o2, xp.Bin(o1, x, y), z), w)) // ((x y) z) w
				add(xp.Bin(o3, xp.Bin(o1, x, xp.Bin(o2, y, z)), w)) // (x (y z)) w
				add(xp.Bin(o2, xp.Bin(o1, x, y), xp.Bin(o3, z, w))) // (x y) (z w)
				add(xp.Bin(o1, x, xp.Bin(o3, xp.Bin(o2, y, z), w))) // x ((y z) w)
				add(xp.Bin(o1, x, xp.Bin(o2, y, xp.Bin(o3, z, w)))) // x (y (z w))
			}
		}
	}
	// long chains ("every depth"): n operands joined by one operator, nested to the left, to the right, and
	// as a balanced tree; the fully parenthesised form of a chain nests n-1 deep
	for _, op := range []string{"-", "+", "*", "div", "mod", "and", "or", "=", "!=", "<", ">="} {
		for _, n := range []int{20, 33, 34, 40, 65, 130} {
			ops := make([]*xp.Node, n)
			for i := range ops {
				ops[i] = xp.Num(fmt.Sprint(i%9 + 1))
			}
			left := ops[0]
			for _, o := range ops[1:] {
				left = xp.Bin(op, left, o)
			}
			right := ops[n-1]
			for i := n - 2; i >= 0; i-- {
				right = xp.Bin(op, ops[i], right)
			}
			var bal func(lo, hi int) *xp.Node
			bal = func(lo, hi int) *xp.Node {
				if hi-lo == 1 {
					return ops[lo]
				}
				mid := (lo + hi) / 2
				return xp.Bin(op, bal(lo, mid), bal(mid, hi))
			}
			add(left)
			add(right)
			add(bal(0, n))
			add(xp.Fn("string", xp.Fn("number", xp.Fn("string", xp.Fn("number", left))))) // function calls add nesting too
		}
	}
	return out
}

var c03EnumList = c03Enum()

func c03Random(r *core.Rng, budget int) *xp.Node {
	if budget <= 0 {
		return c03Operand(r.Intn(143))
	}
	switch r.Intn(12) {
	case 0:
		return xp.Neg(c03Random(r, budget-1))
	case 1:
		// union of paths
		n := c03PathOperand(r.Intn(4))
		for i := r.Range(1, 2); i > 0; i-- {
			n = xp.Bin("|", n, c03PathOperand(r.Intn(4)))
		}
		return n
	case 2:
		// (string() is left to C01: string(1 div 0) is "Infinity", which the implementation's
		// number() then reads back as a number — the known C01 finding would show up here)
		return xp.Fn(core.Pick(r, []string{"not", "number", "boolean", "floor", "ceiling"}), c03Random(r, budget-1))
	default:
		l := r.Intn(budget)
		return xp.Bin(core.Pick(r, c03Ops), c03Random(r, l), c03Random(r, budget-1-l))
	}
}

func (p *c03) NumCases(tier string, seed int64) int {
	return len(c03EnumList) + tierN(tier, 40000, 2400000)
}

func (p *c03) gen(tier string, seed int64, idx int) *xp.Node {
	if idx < len(c03EnumList) {
		return c03EnumList[idx]
	}
	r := core.CaseRng(seed, "C03", idx)
	return c03Random(r, r.Range(2, 12))
}

func (p *c03) Describe(tier string, seed int64, idx int) string {
	return xp.Render(p.gen(tier, seed, idx), xp.RenderMin)
}

type c03Variant struct {
	name, src string
}

var c03WS = []string{" ", "\t", "\n", "\r", "  ", " \t\n", "\r\n", ""}

// c03NeedsSep: in the expressions generated here "and", "or", "div" and "mod" only occur as operators, and an
// operator name needs no blank before an opening parenthesis (XPath 1.0 section 3.7: after an operand an
// NCName is an operator name, whatever follows it).
var c03NumTok = regexp.MustCompile(`^([0-9]+(\.[0-9]*)?|\.[0-9]+)$`)

func c03NeedsSep(a, b string) bool {
	if b == "(" && (a == "and" || a == "or" || a == "div" || a == "mod") {
		return false
	}
	// a number ends where its digits end: an operator name may follow it directly (6div 2, 1=1and 2=2)
	if (b == "and" || b == "or" || b == "div" || b == "mod") && c03NumTok.MatchString(a) {
		return false
	}
	// the abbreviated steps are tokens of their own: '.' not followed by a digit and '..' end
	// where they stand, and an operator name may follow them directly (.div 2, ..and a)
	if (b == "and" || b == "or" || b == "div" || b == "mod") && (a == "." || a == "..") {
		return false
	}
	return xp.NeedsSeparator(a, b)
}

func c03Variants(r *core.Rng, e *xp.Node) []c03Variant {
	tm := xp.RenderTokens(e, xp.RenderMin)
	tf := xp.RenderTokens(e, xp.RenderFull)
	vs := []c03Variant{
		{"min-parens", strings.Join(tm, " ")},
		{"full-parens", strings.Join(tf, " ")},
	}
	// random whitespace at every boundary (never the empty string where a separator is needed)
	var b strings.Builder
	b.WriteString(core.Pick(r, c03WS))
	for i, t := range tm {
		if i > 0 {
			ws := core.Pick(r, c03WS)
			if ws == "" && c03NeedsSep(tm[i-1], t) {
				ws = "\t"
			}
			b.WriteString(ws)
		}
		b.WriteString(t)
	}
	b.WriteString(core.Pick(r, c03WS))
	vs = append(vs, c03Variant{"random-whitespace", b.String()})
	// all removable whitespace removed
	b.Reset()
	for i, t := range tm {
		if i > 0 && c03NeedsSep(tm[i-1], t) {
			b.WriteString(" ")
		}
		b.WriteString(t)
	}
	vs = append(vs, c03Variant{"no-whitespace", b.String()})
	// single boundaries
	var bounds []int
	if len(tm) <= 24 {
		for i := 0; i <= len(tm); i++ {
			bounds = append(bounds, i)
		}
	} else {
		for i := 0; i < 8; i++ {
			bounds = append(bounds, r.Intn(len(tm)+1))
		}
	}
	for _, bd := range bounds {
		b.Reset()
		for i, t := range tm {
			if i == bd {
				b.WriteString(" \n\t ")
			} else if i > 0 && c03NeedsSep(tm[i-1], t) {
				b.WriteString(" ")
			}
			b.WriteString(t)
		}
		if bd == len(tm) {
			b.WriteString(" \n\t ")
		}
		vs = append(vs, c03Variant{fmt.Sprintf("boundary-%d", bd), b.String()})
	}
	return vs
}

type c03Obs struct {
	listing string
	out     xpmock.Outcome
	cerr    string
}

// c03Spoilers: texts that are refused, each cut off in another state of the lexer.  One of them is compiled
// before every second observation: what a compilation makes of a text does not depend on what was compiled
// before it, least of all on a text that was refused.
var c03Spoilers = []string{"1 2-3", "a b*c", "1 )(", "a a/b", "1 2<3", "x y|z", "1 2.5e", "a 'b'", "( 1", "1 +", "a[1", "f(1,", "1 2", "a..b", "a::b", "$x", "a b-c", "1 2!=3"}

func c03Observe(src string) c03Obs {
	var o c03Obs
	if h := core.Hash(src); h%2 == 0 {
		core.Guard(func() { expr.NewExprMachine(c03Spoilers[int(h/2%uint64(len(c03Spoilers)))], nil) })
	}
	m, err := expr.NewExprMachine(src, nil)
	if err != nil {
		o.cerr = err.Error()
		return o
	}
	o.listing = m.PrintMachine()
	o.out = xpmock.Run(m, &xpmock.Tree{Table: c03Table})
	return o
}

func sameOutcome(a, b xpmock.Outcome) bool {
	if a.Panic != b.Panic || a.Err != b.Err || a.Kind != b.Kind {
		return false
	}
	if a.Err != "" {
		return true
	}
	va, oka := a.ScalarVal()
	vb, okb := b.ScalarVal()
	if oka != okb {
		return false
	}
	if !oka {
		return a.Str == b.Str
	}
	return xp.SameVal(va, vb)
}

// c03HasDotStep: '.' and '..' are checked for shape (program and result equal across the variants);
// their value depends on the consumer's Navigate and is not tied to the reference.
func c03HasDotStep(e *xp.Node) bool {
	d := false
	xp.Walk(e, false, func(n *xp.Node) {
		if n.Kind == xp.KPath {
			for _, st := range n.Path.Steps {
				if st.Kind != xp.SName {
					d = true
				}
			}
		}
	})
	return d
}

func hasUnion(e *xp.Node) bool {
	u := false
	xp.Walk(e, false, func(n *xp.Node) {
		if n.Kind == xp.KBin && n.Op == "|" {
			u = true
		}
	})
	return u
}

func (p *c03) check(e *xp.Node, r *core.Rng, res *core.CaseResult) {
	vs := c03Variants(r, e)
	ref := c03Observe(vs[1].src) // fully parenthesised = ground truth of the shape
	res.Ev("variants_compiled", 1)
	if ref.cerr != "" {
		res.Fail("C03/full-parens-rejected", vs[1].src, core.Trunc(ref.cerr, 400))
		return
	}
	if xp.CountOps(e) >= 2 {
		res.Key(ref.listing)
	}
	for i, v := range vs {
		if i == 1 {
			continue
		}
		o := c03Observe(v.src)
		res.Ev("variants_compiled", 1)
		if i >= 2 {
			res.Ev("whitespace_variants", 1)
		}
		kind := "whitespace"
		if i == 0 {
			kind = "precedence"
		}
		in := jsonStr(map[string]string{"variant": v.name, "src": v.src, "full_parens": vs[1].src})
		switch {
		case o.cerr != "":
			res.Fail("C03/"+kind+"/variant-rejected", in, core.Trunc(o.cerr, 400))
		case o.listing != ref.listing:
			res.Fail("C03/"+kind+"/different-program", in, "listing of variant:\n"+o.listing+"listing of fully parenthesised form:\n"+ref.listing)
		case !sameOutcome(o.out, ref.out):
			res.Fail("C03/"+kind+"/different-result", in, fmt.Sprintf("variant %+v vs %+v", o.out, ref.out))
		}
	}
	// the same expression as the content of a predicate: inside the brackets it is an expression like any other
	// (an equality at its start is not a key selector that swallows the rest)
	if xp.CountOps(e) >= 1 && core.Hash(vs[0].src)%3 == 0 {
		wrap := func(s string) string { return "gone[" + s + "]" }
		refP := c03Observe(wrap(vs[1].src))
		res.Ev("variants_compiled", 1)
		res.Ev("expressions_also_compiled_inside_a_predicate", 1)
		if refP.cerr == "" {
			for i, v := range vs[:4] {
				if i == 1 {
					continue
				}
				o := c03Observe(wrap(v.src))
				res.Ev("variants_compiled", 1)
				in := jsonStr(map[string]string{"variant": v.name + " inside a predicate", "src": wrap(v.src), "full_parens": wrap(vs[1].src)})
				switch {
				case o.cerr != "":
					res.Fail("C03/in-predicate/variant-rejected", in, core.Trunc(o.cerr, 400))
				case o.listing != refP.listing:
					res.Fail("C03/in-predicate/different-program", in, "listing of variant:\n"+o.listing+"listing of fully parenthesised form:\n"+refP.listing)
				}
			}
		}
	}
	// tie the shape to the right value
	if !hasUnion(e) && !c03HasDotStep(e) && !c03HasAbsPath(e) && ref.out.Err == "" && ref.out.Panic == "" {
		want := xp.Eval(e, func(pn *xp.Node) xp.Val {
			var names []string
			for _, s := range pn.Path.Steps {
				names = append(names, s.Name)
			}
			return c03Table[strings.Join(names, "/")].Val()
		})
		res.Ev("reference_value_checks", 1)
		if got, ok := ref.out.ScalarVal(); !ok || !xp.SameVal(got, want) {
			// node-set vs boolean comparisons are outside C01's asserted domain
			excluded := false
			xp.Walk(e, false, func(n *xp.Node) {
				if n.Kind == xp.KBin && len(n.Args) == 2 {
					a, b := n.Args[0].Type(), n.Args[1].Type()
					if (a == xp.TNS && b == xp.TBool) || (b == xp.TNS && a == xp.TBool) {
						excluded = true
					}
				}
			})
			if !excluded {
				res.Fail("C03/value-of-fully-parenthesised-form", vs[1].src, fmt.Sprintf("reference value %s, observed %+v", want, ref.out))
			}
		}
	}
}

func (p *c03) Run(tier string, seed int64, idx int) core.CaseResult {
	var res core.CaseResult
	e := p.gen(tier, seed, idx)
	p.check(e, core.CaseRng(seed, "C03ws", idx), &res)
	if idx%3001 == 0 {
		res.Sample = map[string]string{"min_parens": xp.Render(e, xp.RenderMin), "full_parens": xp.Render(e, xp.RenderFull)}
	}
	return res
}

func (p *c03) Witness(raw json.RawMessage) []core.Failure { return nil }
