package props

import (
	"sync"
	"encoding/json"
	"fmt"
	"strings"

	"github.com/danos/utils/pathutil"

	"verifharness/internal/core"
	"verifharness/internal/yang"
)

// C17: schema path validation walks the tree exactly.
// Oracle: R-PATH, a recursive walker over the generator's own schema model.
type c17 struct{ base }

func init() {
	core.Register(&c17{base: base{
		id: "C17",
		rule: "cases = generated schemas (containers with and without presence, lists with one or two key leaves (string or integer keys), leaves of modelled types incl. empty, leaf-lists, " +
			"nested choices and cases, typedef'd and union types); for each schema every root-to-node walk with valid key and leaf values is enumerated (bounded at 60 walks), and for each walk: " +
			"the walk itself, every proper prefix, every one-token corruption (unknown name, a value the type rejects, a choice or case name used as a token) and over-long paths (+1, +2 tokens), " +
			"each validated with AllowIncompletePaths false and true through ModelSet.Validate; verdict, index of the first offending token (error-path) and its name in the error are compared " +
			"with the reference walker; distinct_nontrivial = distinct (schema text, path, mode) triples",
		block: 8,
		assumptions: []string{
			"the reference walker R-PATH works on the generator's statement tree: choices and cases are transparent, the token after a list name is validated against the key leaf's type, the token after a leaf or leaf-list name against its type and must be last",
			"a third of the lists have two key leaves: the property speaks of 'the token after a list name', so exactly one token is taken as key value (validated against the first key leaf) and the next token names a child; leaf types are limited to those the value-space model covers (no leafref / identityref)",
		},
		minEvents: []string{"schemas_compiled", "paths_validated", "accepted_by_both", "rejected_by_both", "incomplete_paths", "corrupted_paths"},
	}})
}

func (p *c17) NumCases(tier string, seed int64) int { return tierN(tier, 1200, 30000) }

type c17Ctx struct{ allow bool }

func (c c17Ctx) ErrorHelpText() []string    { return nil }
func (c c17Ctx) AllowIncompletePaths() bool { return c.allow }

func c17GenSet(seed int64, idx int, tag string) *yang.ModSet {
	r := core.CaseRng(seed, tag, idx)
	cfg := yang.DefaultGenCfg()
	cfg.Modules = r.Range(1, 2)
	cfg.Features, cfg.Identities, cfg.Groupings = 0, 0, 0
	cfg.Uses, cfg.Refine, cfg.Augment, cfg.MustWhen, cfg.Status = false, false, false, false, false
	cfg.NoRefTypes = true
	cfg.MaxDepth = 3
	ms := yang.GenSchemaSet(r, cfg)
	// some lists get a second key leaf (key "name id2"): the walker still takes exactly one token
	// after the list name — the value of the first key — and the next token names a child
	var walk func(s *yang.Stmt)
	walk = func(s *yang.Stmt) {
		for _, k := range s.Kids {
			walk(k)
		}
		if p := s.Find("presence"); p != nil && s.Kw == "container" && len(s.Arg)%2 == 0 {
			// (the argument says what the presence means, to a reader; it may say nothing)
			p.Arg = ""
		}
		if s.Kw == "list" && s.Find("key") != nil && s.FindArg("leaf", "id2") == nil && r.Chance(1, 3) {
			s.Find("key").Arg += " id2"
			id2 := yang.S("leaf", "id2", yang.S("type", core.Pick(r, []string{"uint8", "string", "int16"})))
			var kids []*yang.Stmt
			for _, k := range s.Kids {
				kids = append(kids, k)
				if k.Kw == "leaf" && k.Arg == "name" {
					kids = append(kids, id2)
				}
			}
			s.Kids = kids
		}
	}
	for _, m := range ms.Mods {
		walk(m)
	}
	// an identityref typedef of an imported module, used for a leaf and a list key of this module: an identity of
	// this module is named bare, one of another module with its module's name
	if top := c14Top(ms.Mods[0]); top != nil && idx%2 == 0 {
		m0 := ms.Mods[0]
		m0.Add(yang.S("import", "c17-idt", yang.S("prefix", "cidt")), yang.S("identity", "sctp", yang.S("base", "cidt:proto")))
		top.Add(yang.S("leaf", "c17-kind", yang.S("type", "cidt:proto-ref")),
			yang.S("list", "c17-kinds", yang.S("key", "k"), yang.S("leaf", "k", yang.S("type", "cidt:proto-ref")), yang.S("leaf", "weight", yang.S("type", "uint8"))))
		yang.SortSections(m0)
		ms.Mods = append(ms.Mods, yang.S("module", "c17-idt", yang.S("namespace", "urn:verif:c17-idt"), yang.S("prefix", "it"),
			yang.S("identity", "proto"), yang.S("identity", "tcp", yang.S("base", "proto")), yang.S("identity", "udp", yang.S("base", "proto")),
			yang.S("typedef", "proto-ref", yang.S("type", "identityref", yang.S("base", "proto")))))
	}
	// string types with two pattern statements in one type statement (a value must match both), as a leaf
	// and as a list key
	if top := c14Top(ms.Mods[0]); top != nil {
		top.Add(yang.S("leaf", "two-pat", yang.S("type", "string", yang.S("pattern", "t.*"), yang.S("pattern", ".*e"))),
			yang.S("list", "two-pat-list", yang.S("key", "name"),
				yang.S("leaf", "name", yang.S("type", "string", yang.S("pattern", "[a-z]+"), yang.S("pattern", "a.*"))),
				yang.S("leaf", "weight", yang.S("type", "uint8"))),
			// enums with a status of their own: the value space is the declared names, whatever their status
			yang.S("leaf", "st-enum", yang.S("type", "enumeration", yang.S("enum", "legacy", yang.S("status", "obsolete")), yang.S("enum", "older", yang.S("status", "deprecated")), yang.S("enum", "fast"))),
			yang.S("list", "st-enum-list", yang.S("key", "name"),
				yang.S("leaf", "name", yang.S("type", "enumeration", yang.S("enum", "half", yang.S("status", "obsolete")), yang.S("enum", "full"))),
				yang.S("leaf", "weight", yang.S("type", "uint8"))),
			// decimal64 with many fraction digits and a range in parts: a value is inside or outside, however close
			yang.S("leaf", "ratio", yang.S("type", "decimal64", yang.S("fraction-digits", "12"), yang.S("range", "0 .. 1 | 2.5 .. 3.5"))),
			yang.S("list", "ratio-list", yang.S("key", "r"),
				yang.S("leaf", "r", yang.S("type", "decimal64", yang.S("fraction-digits", "10"), yang.S("range", "-1.5 .. 2.5"))),
				yang.S("leaf", "weight", yang.S("type", "uint8"))),
			// unions with two members of the same built-in type that differ in their restrictions
			yang.S("leaf", "two-u", yang.S("type", "union", yang.S("type", "uint8", yang.S("range", "1..5")), yang.S("type", "uint8", yang.S("range", "10..20")))),
			yang.S("list", "two-u-list", yang.S("key", "name"),
				yang.S("leaf", "name", yang.S("type", "union", yang.S("type", "string", yang.S("pattern", "e.*")), yang.S("type", "string", yang.S("pattern", "a.*")))),
				yang.S("leaf", "weight", yang.S("type", "uint8"))))
	}
	// key words written with the prefix of the list's own module (node-identifier = [prefix ":"] identifier)
	for _, m := range ms.Mods {
		pf := m.Find("prefix").Arg
		m.Walk(func(s *yang.Stmt, _ int) {
			if s.Kw == "key" && r.Chance(1, 4) {
				ws := strings.Fields(s.Arg)
				for i := range ws {
					if i == 0 || r.Bool() {
						ws[i] = pf + ":" + ws[i]
					}
				}
				s.Arg = strings.Join(ws, " ")
			}
		}, 0)
	}
	// containers without any child (with and without presence), at the top of a module, inside
	// containers and inside list entries: a path that ends on one is judged like any other container
	n := 0
	var hollow func(s *yang.Stmt, depth int)
	hollow = func(s *yang.Stmt, depth int) {
		for _, k := range s.Kids {
			if k.Kw == "container" || k.Kw == "list" {
				hollow(k, depth+1)
			}
		}
		if (s.Kw == "container" || s.Kw == "list" || s.Kw == "module") && r.Chance(1, 3) {
			n++
			h := yang.S("container", fmt.Sprintf("hollow-%s-%d", strings.ReplaceAll(ms.Mods[0].Arg, "_", "-"), n))
			h.Block = true
			if r.Chance(1, 3) {
				h.Add(yang.S("presence", []string{"p", ""}[n%2]))
			}
			if r.Chance(1, 4) {
				// only a choice without any data node inside
				h.Add(yang.S("choice", "void", yang.S("case", "nothing")))
			}
			s.Add(h)
		}
	}
	for _, m := range ms.Mods {
		hollow(m, 0)
		yang.SortSections(m)
	}
	return ms
}

// ---- reference model of the data tree shape

type rnode struct {
	s    *yang.Stmt
	mod  *yang.Stmt
	kids []*rnode // data children (choices/cases looked through)
	typ  *yang.RType
	key  *rnode
}

var dataKw = map[string]bool{"container": true, "list": true, "leaf": true, "leaf-list": true}

func buildRnodes(ms *yang.ModSet, mod *yang.Stmt, parent *yang.Stmt) []*rnode {
	var out []*rnode
	for _, k := range parent.Kids {
		switch k.Kw {
		case "choice", "case":
			out = append(out, buildRnodes(ms, mod, k)...)
		case "container", "list":
			n := &rnode{s: k, mod: mod}
			n.kids = buildRnodes(ms, mod, k)
			if k.Kw == "list" {
				kn := strings.Fields(k.Find("key").Arg)[0] // (the walker validates the token after the list name as the first key's value)
				if i := strings.Index(kn, ":"); i >= 0 {
					kn = kn[i+1:] // key-arg = node-identifier ...: the module's own prefix may be written
				}
				for _, c := range n.kids {
					if c.s.Arg == kn {
						n.key = c
					}
				}
			}
			out = append(out, n)
		case "leaf", "leaf-list":
			n := &rnode{s: k, mod: mod}
			n.typ = yang.RTypeFromStmt(k.Find("type"), yang.ResolverFor(ms, mod))
			if t := k.Find("type"); t != nil && t.Arg == "cidt:proto-ref" {
				// (the value space of the fixed identityref nodes, written out: identities derived from c17-idt:proto)
				n.typ = &yang.RType{Kind: "identityref", Idents: map[string]bool{"sctp": true, "c17-idt:tcp": true, "c17-idt:udp": true}}
			}
			out = append(out, n)
		}
	}
	return out
}

func rootRnodes(ms *yang.ModSet) []*rnode {
	var out []*rnode
	for _, m := range ms.Mods {
		out = append(out, buildRnodes(ms, m, m)...)
	}
	return out
}

func findKid(kids []*rnode, name string) *rnode {
	for _, k := range kids {
		if k.s.Arg == name {
			return k
		}
	}
	return nil
}

// refValidate: ok, or index of the first offending token (len(p) when the path is too short).
func refValidate(roots []*rnode, p []string, allow bool) (ok bool, bad int, why string) {
	kids := roots
	var cur *rnode
	i := 0
	for {
		if cur == nil || cur.s.Kw == "container" {
			if i == len(p) {
				if cur == nil {
					return true, 0, "" // empty path: the root
				}
				if cur.s.Find("presence") != nil || allow {
					return true, 0, ""
				}
				return false, i, "requires a child"
			}
			n := findKid(kids, p[i])
			if n == nil {
				return false, i, "unknown element"
			}
			cur, kids = n, n.kids
			i++
			continue
		}
		switch cur.s.Kw {
		case "list":
			if i == len(p) {
				if allow {
					return true, 0, ""
				}
				return false, i, "requires a value"
			}
			if cur.key.typ != nil && !cur.key.typ.Accepts(p[i]) {
				return false, i, "invalid key value"
			}
			i++
			if i == len(p) {
				return true, 0, ""
			}
			n := findKid(cur.kids, p[i])
			if n == nil {
				return false, i, "unknown element"
			}
			cur, kids = n, n.kids
			i++
		case "leaf", "leaf-list":
			if i == len(p) {
				if (cur.s.Kw == "leaf" && cur.typ != nil && cur.typ.Kind == "empty") || allow {
					return true, 0, ""
				}
				return false, i, "requires a value"
			}
			if i+1 < len(p) {
				// nothing may follow the value
				if cur.typ != nil && cur.typ.Kind == "empty" {
					// an empty leaf takes no value at all: the value itself is the offender
					return false, i, "value for empty leaf"
				}
				// (a value the type rejects comes first in the path and is the first offending element)
				if cur.typ != nil && !cur.typ.Accepts(p[i]) {
					return false, i, "invalid value"
				}
				return false, i + 1, "trailing element"
			}
			if cur.typ != nil && !cur.typ.Accepts(p[i]) {
				return false, i, "invalid value"
			}
			return true, 0, ""
		}
	}
}

// sample values of a type
func sampleValue(r *core.Rng, t *yang.RType) (good string, bad string) {
	if t == nil {
		return "x", ""
	}
	cands := []string{"1", "5", "0", "7", "10", "100", "2.5", "abc", "ab", "a", "x", "true", "false", "e0", "e1", "-1", "50", "20", "9", "3", "abcdefgh", "",
		// other spellings of numbers: decimal with sign or leading zeros is YANG, a base prefix or an underscore is not
		"007", "08", "+5", "0100", "0x7", "0b11", "0o17", "1_0", "1e1",
		// characters that are legal in a YANG string though a program may think otherwise (DEL, C1 controls, the
		// replacement character, letters of several bytes), and two that are not
		"sctp", "c17-idt:tcp", "c17-idt:udp", "tcp", "udp", "c17-idt:sctp", "cidt:tcp", "it:tcp", "c17-idt:proto", "proto",
		"1.000000000001", "2.499999999999", "3.5000000001", "-0.000000000001", "2.5000000001", "-1.5000000001", "0.999999999999", "3.5", "-1.5",
		"a\u007fb", "k\u0085", "\u009f", "é日", "caf\ufffd", "a\x01b", "\ufffe",
		// a line break is a character of a string, and not one that the wildcard of a pattern stands for
		"t\ne", "a\nb", "e\n", "tre\ne"}
	var goods, bads []string
	for _, c := range cands {
		if t.Accepts(c) {
			goods = append(goods, c)
		} else {
			bads = append(bads, c)
		}
	}
	for _, e := range t.Enums {
		goods = append(goods, e)
	}
	if len(goods) > 0 {
		good = core.Pick(r, goods)
	}
	if len(bads) > 0 {
		bad = core.Pick(r, bads)
	}
	if bad == "" {
		bad = "\x00"
	}
	return
}

// walks enumerates root-to-node token paths with valid values.
func c17Walks(r *core.Rng, roots []*rnode, limit int) [][]string {
	var out [][]string
	var rec func(kids []*rnode, prefix []string)
	rec = func(kids []*rnode, prefix []string) {
		for _, k := range kids {
			if len(out) >= limit {
				return
			}
			p := append(append([]string{}, prefix...), k.s.Arg)
			switch k.s.Kw {
			case "container":
				out = append(out, p)
				rec(k.kids, p)
			case "list":
				g, _ := sampleValue(r, k.key.typ)
				if g == "" {
					continue
				}
				pk := append(append([]string{}, p...), g)
				out = append(out, pk)
				rec(k.kids, pk)
			default:
				g, _ := sampleValue(r, k.typ)
				if k.typ != nil && k.typ.Kind == "empty" {
					out = append(out, p)
				} else if g != "" || (k.typ != nil && k.typ.Accepts("")) {
					out = append(out, append(append([]string{}, p...), g))
				}
			}
		}
	}
	rec(roots, nil)
	return out
}

// c17BadElement: the bad-element info of an unknown-element error ("" if the error carries none).
func c17BadElement(err error) string {
	raw, e := json.Marshal(err)
	if e != nil {
		return ""
	}
	var m struct {
		Info []map[string]string `json:"error-info"`
	}
	if json.Unmarshal(raw, &m) != nil {
		return ""
	}
	for _, i := range m.Info {
		if v, ok := i["bad-element"]; ok {
			return v
		}
	}
	return ""
}

func (p *c17) Describe(tier string, seed int64, idx int) string {
	return textsString(c17GenSet(seed, idx, "C17").Texts(nil))
}

func (p *c17) Run(tier string, seed int64, idx int) core.CaseResult {
	var res core.CaseResult
	ms := c17GenSet(seed, idx, "C17")
	texts := ms.Texts(nil)
	input := textsString(texts)
	cr := compileTexts(texts, nil, nil, nil, false)
	res.Ev("schemas_compiled", 1)
	if cr.Panic != "" {
		res.Fail("C17/panic/"+core.TopRepoFrame(cr.Stack), input, cr.Panic)
		return res
	}
	if !cr.Accepted() {
		res.Fail("C17/valid-set-rejected", input, cr.ParseErr+cr.Err)
		return res
	}
	r := core.CaseRng(seed, "C17p", idx)
	roots := rootRnodes(ms)
	walks := c17Walks(r, roots, 60)
	// choice / case names for the "transparent" corruption
	var ccNames []string
	for _, m := range ms.Mods {
		m.Walk(func(s *yang.Stmt, _ int) {
			if s.Kw == "choice" || s.Kw == "case" {
				ccNames = append(ccNames, s.Arg)
			}
		}, 0)
	}
	seen := map[string]bool{}
	// what the sequential validations returned, for the concurrent phase below
	type c17Seq struct {
		path    []string
		allow   bool
		outcome string
	}
	var seqs []c17Seq
	outcomeOf := func(err error) string {
		if err == nil {
			return "accepted"
		}
		return fmt.Sprintf("%v %s", err, jsonStr(err))
	}
	try := func(path []string, kind string) {
		for _, allow := range []bool{false, true} {
			key := fmt.Sprintf("%v|%q", allow, path)
			if seen[key] {
				continue
			}
			seen[key] = true
			wantOK, bad, why := refValidate(roots, path, allow)
			var err error
			pan, msg, _ := core.Guard(func() { err = cr.MS.Validate(c17Ctx{allow}, nil, path) })
			res.Ev("paths_validated", 1)
			res.Ev(kind, 1)
			res.Key(input + key)
			in := fmt.Sprintf("%s\npath=%q allowIncomplete=%v", input, path, allow)
			if pan {
				res.Fail("C17/panic-in-validate", in, msg)
				continue
			}
			if len(seqs) < 96 && (len(path) > 2 || err != nil) {
				seqs = append(seqs, c17Seq{append([]string{}, path...), allow, outcomeOf(err)})
			}
			if (err == nil) != wantOK {
				if err == nil {
					res.Fail("C17/accepted-but-invalid/"+strings.ReplaceAll(why, " ", "-"), in, fmt.Sprintf("reference: token %d is the first offending element (%s)", bad, why))
				} else {
					res.Fail("C17/rejected-but-valid", in, err.Error())
				}
				continue
			}
			if err == nil {
				res.Ev("accepted_by_both", 1)
				continue
			}
			res.Ev("rejected_by_both", 1)
			ep, _, _ := errFields(err)
			// the error identifies the first offending element: its path is the tokens before it
			// (a rejected value is reported with the value as last path element)
			wantA := pathutil.Pathstr(path[:bad])
			wantB := ""
			if bad < len(path) {
				wantB = pathutil.Pathstr(path[:bad+1])
			}
			if len(path[:bad]) == 0 {
				wantA = ""
			}
			// an unknown-element error names its offending element explicitly: it must be the first offending token
			badElem := c17BadElement(err)
			if badElem != "" && bad < len(path) && badElem != path[bad] {
				res.Fail("C17/error-does-not-identify-first-offending-element/"+strings.ReplaceAll(why, " ", "-"), in,
					fmt.Sprintf("reference: first offending token is %q at index %d (%s); the error names the element %q: %v", path[bad], bad, why, badElem, err))
			} else if ep != wantA && ep != wantB {
				res.Fail("C17/error-does-not-identify-first-offending-element/"+strings.ReplaceAll(why, " ", "-"), in,
					fmt.Sprintf("reference: first offending token index %d (%s); error-path %q; error: %v", bad, why, ep, err))
			} else if all := fmt.Sprintf("%v %s", err, jsonStr(err)); bad < len(path) && path[bad] != "" && !strings.Contains(all, path[bad]) &&
				!strings.Contains(all, strings.TrimPrefix(pathutil.Pathstr([]string{path[bad]}), "/")) {
				// (the token as it is, or as an element of the percent-encoded error path)
				res.Fail("C17/error-does-not-name-offending-element", in, fmt.Sprintf("token %q not mentioned: %v", path[bad], err))
			}
		}
	}
	for _, w := range walks {
		try(w, "complete_walks")
		for k := 0; k < len(w); k++ {
			try(w[:k], "incomplete_paths")
		}
		// one-token corruptions
		for k := range w {
			c := append([]string{}, w...)
			c[k] = "no-such-node"
			try(c, "corrupted_paths")
			if len(ccNames) > 0 {
				c2 := append([]string{}, w...)
				c2[k] = core.Pick(r, ccNames)
				try(c2, "corrupted_paths")
			}
			// the token with something and a colon in front: a name selects a child only as it is
			for _, q := range []string{"x:", ms.Mods[0].Arg + ":", ":", "a:b:"} {
				c3 := append([]string{}, w...)
				c3[k] = q + w[k]
				try(c3, "corrupted_paths")
				res.Ev("paths_with_a_qualified_token", 1)
			}
		}
		// a token repeated: the offending element is then string-equal to the element before it
		for k := range w {
			c := append(append(append([]string{}, w[:k+1]...), w[k]), w[k+1:]...)
			try(c, "corrupted_paths")
			res.Ev("paths_with_a_repeated_token", 1)
		}
		// bad values: replace value tokens by values the type rejects
		try(append(append([]string{}, w...), "extra"), "corrupted_paths")
		try(append(append([]string{}, w...), "extra", "more"), "corrupted_paths")
	}
	// value corruption: walk again choosing a bad value for the last token
	var rec func(kids []*rnode, prefix []string)
	rec = func(kids []*rnode, prefix []string) {
		for _, k := range kids {
			p2 := append(append([]string{}, prefix...), k.s.Arg)
			switch k.s.Kw {
			case "container":
				rec(k.kids, p2)
			case "list":
				g, b := sampleValue(r, k.key.typ)
				if b != "\x00" {
					try(append(append([]string{}, p2...), b), "corrupted_paths")
					try(append(append([]string{}, p2...), b, k.key.s.Arg), "corrupted_paths")
				}
				if g != "" {
					rec(k.kids, append(append([]string{}, p2...), g))
				}
			default:
				_, b := sampleValue(r, k.typ)
				if b != "\x00" {
					try(append(append([]string{}, p2...), b), "corrupted_paths")
					// two faults: the rejected value, then a surplus token (the value is the first one)
					try(append(append([]string{}, p2...), b, "extra"), "corrupted_paths")
					res.Ev("paths_with_a_bad_value_followed_by_a_surplus_token", 1)
				}
			}
		}
	}
	rec(roots, nil)
	// ---- the same validations from six goroutines at once, on the one compiled schema: each returns what it
	// returned alone (a compiled schema is read, not written, by a validation)
	if len(seqs) > 0 && len(res.Fails) == 0 {
		const G = 6
		diffs := make([]string, G)
		var wg sync.WaitGroup
		for g := 0; g < G; g++ {
			wg.Add(1)
			go func(g int) {
				defer wg.Done()
				for round := 0; round < 3; round++ {
					for k := range seqs {
						q := seqs[(k*7+g*13+round)%len(seqs)]
						var err error
						pan, msg, _ := core.Guard(func() { err = cr.MS.Validate(c17Ctx{q.allow}, nil, q.path) })
						got := outcomeOf(err)
						if pan {
							got = "panic: " + msg
						}
						if got != q.outcome && diffs[g] == "" {
							diffs[g] = fmt.Sprintf("path=%q allowIncomplete=%v\nalone:      %s\nconcurrent: %s", q.path, q.allow, q.outcome, got)
						}
					}
				}
			}(g)
		}
		wg.Wait()
		res.Ev("concurrent_validations", int64(G*3*len(seqs)))
		for _, d := range diffs {
			if d != "" {
				res.Fail("C17/concurrent-validation-differs", input, d)
				break
			}
		}
	}
	if idx%53 == 0 {
		res.Sample = map[string]interface{}{"walks": len(walks), "one_walk": func() []string {
			if len(walks) > 0 {
				return walks[len(walks)/2]
			}
			return nil
		}()}
	}
	return res
}

func (p *c17) Witness(raw json.RawMessage) []core.Failure { return nil }
