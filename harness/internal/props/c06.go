package props

import (
	"time"
	"context"
	"runtime"
	"encoding/json"
	"fmt"
	"strconv"
	"strings"
	"sync"
	"sync/atomic"

	"github.com/sdcio/yang-parser/xpath"
	"github.com/sdcio/yang-parser/xpath/grammars/expr"
	"github.com/sdcio/yang-parser/xpath/grammars/leafref"
	"github.com/sdcio/yang-parser/xpath/grammars/path_eval"

	"verifharness/internal/core"
	"verifharness/internal/xp"
	"verifharness/internal/xpmock"
)

// C06: compiled machines are immutable and safe under concurrency.
//
// The worker is built with -race (driver) and the yield hooks (tag verif).
// One case = one round: 16 goroutines behind a start barrier perform a seeded
// mix of compilations (three grammars) and runs of few shared machines on
// private contexts (also runs that fail at a data-tree callback).  Oracle 1:
// the race detector's log (read by the driver).  Oracle 2: every concurrent
// operation's outcome equals the outcome of the same operation performed
// sequentially before the round (stateless sequential specification).
type c06 struct{ base }

func init() {
	core.Register(&c06{base: base{
		id: "C06",
		rule: "one case = one round of 16 goroutines x 50 operations released by a barrier; operations: compile one of ~200 expression strings with the expr/path_eval/leafref compiler, " +
			"run one of ~58 process-wide shared pre-compiled machines (48 generated, ~10 over node-set functions and re-match with patterns taken from the data) on a private mock tree/context " +
			"(3 fixed table variants and a nonce table whose values no earlier run has seen), run it with the k-th data-tree callback failing; " +
			"the lazy plugin load is re-armed before every round and three yield profiles (off, Gosched, Gosched+sleep) rotate; every outcome (value/error, data-tree call log, " +
			"program listing) is compared with the same operation's outcome obtained sequentially — before the round in even rounds, after it in odd rounds, so that the concurrent runs are then the first " +
			"ever to perform their operations — and the sequential pass itself re-runs every machine (history independence); " +
			"the shared machines are compiled in list order or in reverse order (per worker process), and in three of four processes every machine is run right after its compilation and again when all " +
			"are compiled (a result does not depend on what is compiled later); " +
			"the worker is built with -race and the driver reads the race log; distinct_nontrivial = distinct (operation, outcome) pairs observed concurrently",
		block: 4,
		assumptions: []string{
			"default contexts only (EnableValidation writes a global test-bookkeeping map and is a unit-test facility); one custom function is registered once before the first round (registration itself is not raced against compilation) and is then called by shared machines like any built-in",
			"absence of race reports only covers executed paths and the detector's bounded history; rounds are short and many for that reason",
			"the race detector build (-race) of the worker is part of every run; a report whose accessing frames lie only in the harness makes the run inconclusive",
		},
		minEvents: []string{"rounds", "concurrent_operations", "concurrent_runs_of_shared_machines", "concurrent_compiles", "rounds_with_same_machine_overlap", "faulted_concurrent_runs", "rounds_with_oracle_after_the_concurrent_phase", "concurrent_runs_on_never_seen_data", "concurrent_runs_calling_a_custom_function"},
	}})
}

func (p *c06) NumCases(tier string, seed int64) int { return tierN(tier, 200, 10000) }

func (p *c06) Describe(tier string, seed int64, idx int) string {
	return fmt.Sprintf("C06 round %d seed %d (schedule dependent)", idx, seed)
}

type c06Machine struct {
	src      string
	m        *xpath.Machine
	listing  string // PrintMachine() taken when the machine is first used in a round
	listed   bool
	inflight int32
	maxSeen  int32
	uses     int64
	firstRun string // (setup modes 1-3) its outcome on table 0 right after it was compiled, before the next compilation
}

var (
	c06Once     sync.Once
	c06Machines []*c06Machine
	c06Sources  []string // strings to compile concurrently (valid and invalid)
	c06Extra    int
	c06Custom   int // machines over the registered custom function
)

var c06Tables = []func(string) xp.Answer{
	c02Answer,
	func(p string) xp.Answer { return xp.Answer{Kind: xp.AnsLeaf, Vals: []string{"7"}} },
	func(p string) xp.Answer {
		if core.Hash(p)%3 == 0 {
			return xp.Answer{Kind: xp.AnsAbsent}
		}
		return xp.Answer{Kind: xp.AnsLeafList, Vals: []string{"1", "x", "3"}}
	},
}

// c06JoinInfo: the registration of the custom function verif-join (registered before anything runs, and again —
// the same function under the same name — by a goroutine of its own during every concurrent phase).
func c06JoinInfo() []xpath.CustomFunctionInfo {
	return []xpath.CustomFunctionInfo{{
		Name: "verif-join",
		FnPtr: func(args []xpath.Datum) xpath.Datum {
			a := args[0].Literal("verif-join")
			runtime.Gosched()
			// a plugin may fail: for one operand in eight this one panics (the machine then sees the default
			// value of the function; later calls are calls like any other)
			if core.Hash(a)%8 == 0 {
				panic("verif-join: operand refused")
			}
			return xpath.NewLiteralDatum(a + "|" + args[1].Literal("verif-join"))
		},
		Args:          []xpath.DatumTypeChecker{xpath.TypeIsLiteral, xpath.TypeIsLiteral},
		RetType:       xpath.TypeIsLiteral,
		DefaultRetVal: xpath.NewLiteralDatum("verif-join-default"),
	}}
}

// c06SetupFails: what the setup itself observed (reported by the case that triggered it)
var c06SetupFails [][2]string
var c06SetupMode int

func c06FirstRun(cm *c06Machine) string {
	t := &xpmock.Tree{Default: c06Tables[0]}
	out := xpmock.Run(cm.m, t)
	v, _ := out.ScalarVal()
	return fmt.Sprintf("err=%q panic=%q kind=%s val=%s str=%q calls=%s", out.Err, out.Panic, out.Kind, v, out.Str, strings.Join(t.Calls, ";"))
}

// c06Setup compiles the shared machines.  The list of sources is the same in every worker process; the order in
// which they are compiled is not: mode 0 (a quarter of the processes) compiles them in list order and runs
// nothing (so that the rounds' runs are the first ever); modes 1 and 3 compile in reverse order, mode 2 in list
// order, and these three run every machine once right after it is compiled and once more when all are
// compiled: what a machine gives does not depend on what is compiled after it.
func c06Setup(seed int64, firstIdx int) {
	r := core.CaseRng(seed, "C06-setup", 0)
	c06SetupMode = core.CaseRng(seed, "C06-setup-order", firstIdx).Intn(4)
	// a custom (plugin-style) function, registered once before anything runs: a pure function of its
	// two operands, so every run must see exactly its own operands
	xpath.RegisterCustomFunctions(c06JoinInfo())
	type cand struct {
		src           string
		extra, custom bool
	}
	var cands []cand
	for _, src := range c06ExtraSources {
		cands = append(cands, cand{src, true, false})
	}
	for _, src := range []string{"verif-join(a, b)", "verif-join(../x, concat(a, 'k')) = verif-join(b, 'z')", "string-length(verif-join(/r/s[k = current()/../a]/t, a)) > 3"} {
		cands = append(cands, cand{src, true, true})
	}
	for i := 0; i < 48; i++ {
		var e *xp.Node
		if (len(cands))%2 == 0 {
			e = c02GenExpr(r)
		} else {
			e = xp.GenExpr(r, xp.Type(r.Intn(3)), r.Range(1, 3), &xp.GenCfg{LeafNames: c01LeafNames})
		}
		cands = append(cands, cand{xp.Render(e, xp.RenderFull), false, false})
	}
	order := make([]int, len(cands))
	for i := range order {
		order[i] = i
		if c06SetupMode%2 == 1 {
			order[i] = len(cands) - 1 - i
		}
	}
	slots := make([]*c06Machine, len(cands))
	for _, i := range order {
		var m *xpath.Machine
		var err error
		if cands[i].custom {
			m, err = expr.NewExprMachineWithCustomFunctions(cands[i].src, c02PfxMap)
		} else {
			m, err = expr.NewExprMachine(cands[i].src, c02PfxMap)
		}
		if err != nil {
			continue
		}
		slots[i] = &c06Machine{src: cands[i].src, m: m}
		if c06SetupMode != 0 {
			slots[i].firstRun = c06FirstRun(slots[i])
		}
	}
	for i, cm := range slots {
		if cm == nil {
			continue
		}
		if c06SetupMode != 0 {
			if now := c06FirstRun(cm); now != cm.firstRun {
				c06SetupFails = append(c06SetupFails, [2]string{cm.src, "right after its compilation: " + cm.firstRun + "\nafter the other machines were compiled: " + now})
			}
		}
		c06Machines = append(c06Machines, cm)
		if cands[i].extra {
			c06Extra++
		}
		if cands[i].custom {
			c06Custom++
		}
	}
	for len(c06Sources) < 200 {
		switch r.Intn(5) {
		case 0:
			c06Sources = append(c06Sources, core.Pick(r, c04Hostile))
		case 1:
			c06Sources = append(c06Sources, "L:"+joinToks(r, c04LrSentence(r)))
		case 2:
			c06Sources = append(c06Sources, "P:"+joinToks(r, c04Sentence(r)))
		default:
			c06Sources = append(c06Sources, joinToks(r, c04Sentence(r)))
		}
	}
}

type c06Op struct {
	kind   int // 0 compile, 1 run, 2 faulted run
	src    int
	mach   int
	table  int // index into c06Tables, or c06NonceTable
	failAt int
	nonce  int // c06NonceTable: part of every value, so that this run sees data no earlier run has seen
}

const c06NonceTable = 3

func (o c06Op) key() string {
	return fmt.Sprintf("%d/%d/%d/%d/%d/%d", o.kind, o.src, o.mach, o.table, o.failAt, o.nonce)
}

func c06Table(o c06Op) func(string) xp.Answer {
	if o.table == c06NonceTable {
		return func(p string) xp.Answer {
			return xp.Answer{Kind: xp.AnsLeaf, Vals: []string{fmt.Sprintf("n%d-%x", o.nonce, core.Hash(p)&0xff)}}
		}
	}
	return c06Tables[o.table]
}

// expressions over the registered functions that the scalar generators do not produce
// (node-set functions, re-match with patterns taken from the data)
var c06ExtraSources = []string{
	"re-match(a, b)", "re-match('n1-ab', ../pat)", "re-match(concat(a, 'x'), concat('^', b, '.*$'))",
	"re-match(/a/b[k = current()/../x]/c, '[a-z0-9-]+')", "re-match('abc', 'a.c') and re-match(a, a)",
	"count(a)", "sum(a)", "count(/x/y) + sum(../z)", "local-name(a)", "string-length(a) + count(../b)",
	// a leaf-list (the trees hand out the slice they store) compared as numbers by one machine and read as
	// strings by others
	"a > 2", "2 != a", "a < b", "a = 'x'", "concat(a, '')", "a = b", "string-length(a)", "a >= 1 and a = 'x'",
	// paths that go on behind deref(): the target's path comes from the tree (one object per node, handed to every run)
	"deref(../ifref)/../mtu", "deref(../ifref)/../descr", "deref(../ifref)/../peer[id = current()/../sel]/name", "count(deref(a)/../b) + 1",
	"deref(../ifref)/../mtu > 1400 and deref(../ifref)/../descr = 'x'", "string(deref(a)/../../c/d)",
}

// c06FreshSources: calls whose operands need a conversion at run time (compiled anew in every round)
var c06FreshSources = []string{"not(../name)", "string-length(a) > 2", "contains(a, b)", "concat(a, 1, b)", "number(a) + count(b)", "starts-with(../x, 'v')",
	"substring(a, 2) = b", "not(a) or boolean(b)", "translate(a, 'v', 'w')", "sum(a) + 1 > string-length(b)"}

func c06Compile(s string) string {
	var m *xpath.Machine
	var err error
	pan, msg, _ := core.Guard(func() {
		switch {
		case strings.HasPrefix(s, "L:"):
			m, err = leafref.NewLeafrefMachine(s[2:], c04Pfx)
		case strings.HasPrefix(s, "P:"):
			m, err = path_eval.NewPathEvalMachine(s[2:], c04Pfx, "m:1")
		default:
			m, err = expr.NewExprMachine(s, c04Pfx)
		}
	})
	switch {
	case pan:
		return "PANIC " + msg
	case err != nil:
		return "ERR " + err.Error()
	}
	return "OK " + m.PrintMachine()
}

var c06ReadTwice int64

func c06Exec(o c06Op, concurrent bool) string {
	switch o.kind {
	case 0:
		return c06Compile(c06Sources[o.src])
	default:
		cm := c06Machines[o.mach]
		// (one run in four has the library's debug trace switched on: a traced run is a run like any other)
		t := &xpmock.Tree{Default: c06Table(o), FailAt: o.failAt, Debug: (o.failAt+o.nonce+o.table+o.mach)%4 == 1}
		if concurrent {
			n := atomic.AddInt32(&cm.inflight, 1)
			for {
				mx := atomic.LoadInt32(&cm.maxSeen)
				if n <= mx || atomic.CompareAndSwapInt32(&cm.maxSeen, mx, n) {
					break
				}
			}
			atomic.AddInt64(&cm.uses, 1)
		}
		// one run in three is given a Go context of its own that is cancelled once the result is in the caller's hands
		// (the usual "defer cancel()"): the result is read before and after that, and is the same
		var out xpmock.Outcome
		if (o.failAt+o.nonce+o.table+o.mach+o.kind)%3 == 0 {
			gctx, cancel := context.WithCancel(context.Background())
			read := xpmock.RunKeep(gctx, cm.m, t)
			out = read()
			cancel()
			for i := 0; i < 4; i++ {
				runtime.Gosched()
			}
			if i := (o.failAt + o.nonce) % 4; i == 0 {
				time.Sleep(20 * time.Microsecond) // (lets whatever the cancellation started get its turn)
			}
			again := read()
			atomic.AddInt64(&c06ReadTwice, 1)
			if fmt.Sprintf("%+v", again) != fmt.Sprintf("%+v", out) {
				if concurrent {
					atomic.AddInt32(&cm.inflight, -1)
				}
				return fmt.Sprintf("RESULT-CHANGED-AFTER-ITS-RUN first read: %+v; read again after the caller cancelled its Go context: %+v", out, again)
			}
		} else {
			out = xpmock.Run(cm.m, t)
		}
		if concurrent {
			atomic.AddInt32(&cm.inflight, -1)
		}
		v, _ := out.ScalarVal()
		return fmt.Sprintf("err=%q panic=%q kind=%s val=%s str=%q calls=%s", out.Err, out.Panic, out.Kind, v, out.Str, strings.Join(t.Calls, ";"))
	}
}

func (p *c06) Run(tier string, seed int64, idx int) core.CaseResult {
	var res core.CaseResult
	c06Once.Do(func() {
		c06Setup(seed, idx)
		res.Ev("setups", 1)
		res.AddSet("setup_modes_seen", strconv.Itoa(c06SetupMode))
		if c06SetupMode != 0 {
			res.Ev("machines_run_right_after_their_compilation_and_again_after_all_compilations", int64(len(c06Machines)))
		}
		if c06SetupMode%2 == 1 {
			res.Ev("setups_compiling_in_reverse_order", 1)
		}
		for _, f := range c06SetupFails {
			res.Fail("C06/result-changed-by-later-compilations", jsonStr(map[string]interface{}{"expr": f[0], "setup_mode": c06SetupMode}), f[1])
		}
	})
	r := core.CaseRng(seed, "C06", idx)
	const G, K = 16, 50
	// few machines per round, many goroutines
	hot := []int{r.Intn(len(c06Machines)), r.Intn(len(c06Machines)), r.Intn(len(c06Machines))}
	plan := make([][]c06Op, G)
	distinct := map[string]c06Op{}
	for g := 0; g < G; g++ {
		for k := 0; k < K; k++ {
			var o c06Op
			switch r.Intn(10) {
			case 0, 1, 2:
				o = c06Op{kind: 0, src: r.Intn(len(c06Sources))}
			case 3:
				o = c06Op{kind: 2, mach: core.Pick(r, hot), table: r.Intn(len(c06Tables)), failAt: r.Range(1, 4)}
			default:
				mi := core.Pick(r, hot)
				if r.Chance(1, 5) {
					mi = r.Intn(len(c06Machines))
				}
				o = c06Op{kind: 1, mach: mi, table: r.Intn(len(c06Tables) + 1)}
				if o.table == c06NonceTable {
					o.nonce = idx*1000 + g*K + k
				}
			}
			plan[g] = append(plan[g], o)
			distinct[o.key()] = o
		}
	}
	// sequential pass (quiescent): expected outcomes; twice, to check history independence.
	// In even rounds it runs before the concurrent round, in odd rounds after it: then the
	// concurrent runs are the first ever to see their operations (nothing process-wide has
	// been warmed by the oracle), and the oracle runs on machines with a concurrent history.
	expected := map[string]string{}
	sequential := func() {
		xpath.VerifSetYield(0)
		for k, o := range distinct {
			a := c06Exec(o, false)
			b := c06Exec(o, false)
			res.Ev("sequential_operations", 2)
			if strings.HasPrefix(a, "RESULT-CHANGED") || strings.HasPrefix(b, "RESULT-CHANGED") {
				res.Fail("C06/result-changes-after-it-was-returned/sequential", jsonStr(map[string]interface{}{"op": c06Describe(o)}), a+"\n"+b)
			}
			if a != b {
				res.Fail("C06/sequential-rerun-differs", jsonStr(map[string]interface{}{"op": c06Describe(o)}), "first: "+a+"\nsecond: "+b)
			}
			expected[k] = a
		}
	}
	if idx%2 == 0 {
		sequential()
		res.Ev("rounds_with_oracle_before_the_concurrent_phase", 1)
	} else {
		res.Ev("rounds_with_oracle_after_the_concurrent_phase", 1)
	}
	for _, mi := range hot {
		if cm := c06Machines[mi]; !cm.listed {
			cm.listing, cm.listed = cm.m.PrintMachine(), true
		}
	}
	// concurrent round
	xpath.VerifSetYield(idx % 3)
	for _, mi := range hot {
		atomic.StoreInt32(&c06Machines[mi].maxSeen, 0)
	}
	got := make([][]string, G)
	start := make(chan struct{})
	var wg sync.WaitGroup
	// a machine compiled just now: its very first evaluations happen on all goroutines at once
	freshSrc := c06FreshSources[idx%len(c06FreshSources)]
	fresh, freshErr := expr.NewExprMachine(freshSrc, c02PfxMap)
	freshGot := make([]string, G)
	runFresh := func() string {
		out := xpmock.Run(fresh, &xpmock.Tree{Default: c06Tables[idx%len(c06Tables)]})
		v, _ := out.ScalarVal()
		return fmt.Sprintf("err=%q panic=%q kind=%s val=%s str=%q", out.Err, out.Panic, out.Kind, v, out.Str)
	}
	// (re-armed after the last compilation on this goroutine: the lazy plugin load is to happen in the concurrent phase)
	xpath.VerifResetPlugins()
	for g := 0; g < G; g++ {
		wg.Add(1)
		go func(g int) {
			defer wg.Done()
			out := make([]string, 0, K)
			<-start
			if freshErr == nil {
				freshGot[g] = runFresh()
			}
			for _, o := range plan[g] {
				out = append(out, c06Exec(o, true))
			}
			got[g] = out
		}(g)
	}
	// a plugin loader at work while machines are compiled and run: it registers the same function again
	wg.Add(1)
	go func() {
		defer wg.Done()
		<-start
		for i := 0; i < 12; i++ {
			xpath.RegisterCustomFunctions(c06JoinInfo())
			runtime.Gosched()
		}
	}()
	res.Ev("registrations_during_the_concurrent_phase", 12)
	close(start)
	wg.Wait()
	xpath.VerifSetYield(0)
	if freshErr == nil {
		want := runFresh()
		res.Ev("first_evaluations_of_a_fresh_machine_on_all_goroutines", 1)
		for g := 0; g < G; g++ {
			if freshGot[g] != want {
				res.Fail("C06/concurrent-result-differs-from-isolated/first-runs-of-a-fresh-machine",
					jsonStr(map[string]interface{}{"round": idx, "goroutine": g, "expr": freshSrc}), "isolated (afterwards): "+want+"\nconcurrent first run: "+freshGot[g])
				break
			}
		}
	}
	if idx%2 == 1 {
		sequential()
	}
	// a compiled machine is immutable: its listing after the round is its listing before it
	for _, mi := range hot {
		cm := c06Machines[mi]
		if now := cm.m.PrintMachine(); cm.listed && now != cm.listing {
			res.Fail("C06/machine-changed-by-its-runs", jsonStr(map[string]interface{}{"round": idx, "expr": cm.src}), "listing before the round:\n"+cm.listing+"\nafter it:\n"+now)
		}
		res.Ev("machine_listings_compared", 1)
	}
	res.Ev("rounds", 1)
	res.Ev("results_read_again_after_the_go_context_was_cancelled", atomic.SwapInt64(&c06ReadTwice, 0))
	overlap := int32(0)
	for _, mi := range hot {
		if m := atomic.LoadInt32(&c06Machines[mi].maxSeen); m > overlap {
			overlap = m
		}
	}
	if overlap >= 2 {
		res.Ev("rounds_with_same_machine_overlap", 1)
	}
	res.AddSet("max_simultaneous_runs_of_one_machine", strconv.Itoa(int(overlap)))
	res.AddSet("yield_profile", strconv.Itoa(idx%3))
	for g := 0; g < G; g++ {
		for k, o := range plan[g] {
			res.Ev("concurrent_operations", 1)
			switch o.kind {
			case 0:
				res.Ev("concurrent_compiles", 1)
			case 1:
				res.Ev("concurrent_runs_of_shared_machines", 1)
				if strings.Contains(c06Machines[o.mach].src, "verif-join") {
					res.Ev("concurrent_runs_calling_a_custom_function", 1)
				}
				if o.table == c06NonceTable {
					res.Ev("concurrent_runs_on_never_seen_data", 1)
				}
			case 2:
				res.Ev("faulted_concurrent_runs", 1)
			}
			res.Key(o.key() + "=>" + got[g][k])
			if strings.HasPrefix(got[g][k], "RESULT-CHANGED") {
				res.Fail("C06/result-changes-after-it-was-returned/concurrent", jsonStr(map[string]interface{}{"round": idx, "goroutine": g, "op": c06Describe(o)}), core.Trunc(got[g][k], 1500))
				continue
			}
			if got[g][k] != expected[o.key()] {
				res.Fail("C06/concurrent-result-differs-from-isolated/"+[]string{"compile", "run", "faulted-run"}[o.kind],
					jsonStr(map[string]interface{}{"round": idx, "goroutine": g, "op": c06Describe(o)}),
					"isolated: "+core.Trunc(expected[o.key()], 1500)+"\nconcurrent: "+core.Trunc(got[g][k], 1500))
			}
		}
	}
	if idx%50 == 0 {
		res.Sample = map[string]interface{}{"round": idx, "hot_machines": []string{c06Machines[hot[0]].src, c06Machines[hot[1]].src, c06Machines[hot[2]].src},
			"max_simultaneous_runs_of_one_machine": overlap, "distinct_operations": len(distinct)}
	}
	return res
}

func c06Describe(o c06Op) map[string]interface{} {
	switch o.kind {
	case 0:
		return map[string]interface{}{"compile": c06Sources[o.src]}
	default:
		return map[string]interface{}{"run": c06Machines[o.mach].src, "table": o.table, "fail_callback": o.failAt, "nonce": o.nonce}
	}
}

func (p *c06) Witness(raw json.RawMessage) []core.Failure { return nil }
