package props

import (
	"encoding/json"
	"fmt"
	"sort"
	"strings"

	"github.com/sdcio/yang-parser/compile"

	"verifharness/internal/core"
	"verifharness/internal/dump"
	"verifharness/internal/yang"
)

// C11: schema compilation is total and deterministic.
//
// Monitors: process-death attribution by the driver (stack overflow, fatal
// error, re-panicked runtime error), in-process panic monitor, verdict and
// canonical-dump equality over repetitions with different insertion orders of
// the module map, and the iteration-order hook (which map orders were seen).
type c11 struct{ base }

func init() {
	core.Register(&c11{base: base{
		id: "C11",
		rule: "cases = generated module sets (1-4 modules; every third case 9-12 modules, identities and features so that Go map iteration permutes) compiled R=8 (quick) / R=24 (thorough) times " +
			"from fresh parses with the trees map filled in a different order each time: all repetitions must give the same verdict and, when accepted, byte-identical canonical dumps; " +
			"a third of the cases carry one injected reference cycle (import, include, grouping: self / nested in a container / mutual / through uses-augment / in a submodule; typedef: self / mutual / " +
			"unused; identity: self / mutual / across modules; feature: self / mutual) which must be rejected with an error, and a sixth carry a dangling or ill-kinded reference (unknown prefix, type, " +
			"grouping, feature, identity base, augment / refine / deviation / unique target, key leaf, absolute id where a descendant id is required and vice versa) for which only 'no crash, same verdict " +
			"every time' is asserted; a worker death is attributed to the case by the journal; distinct_nontrivial = distinct module-set texts compiled",
		block: 8,
		assumptions: []string{
			"only the verdict (error or not) and the dump are compared across repetitions; error messages may legitimately differ (which of two errors is found first)",
			"full permutation coverage of Go map iteration orders is not claimed; the evidence lists how many distinct orders the hook observed per site",
			"generated sets that are supposed to be valid but are rejected are reported (class valid-set-rejected) and triaged as generator or implementation defects",
		},
		minEvents: []string{"compilations", "sets_accepted", "cycle_sets", "dangling_sets", "repetition_groups", "sets_with_homonymous_definitions_in_other_modules"},
	}})
}

func (p *c11) NumCases(tier string, seed int64) int { return tierN(tier, 900, 6000) } // (the worker runs under the race detector)

type c11Injector struct {
	name  string
	cycle bool
	apply func(r *core.Rng, ms *yang.ModSet) bool
}

func modA(ms *yang.ModSet) *yang.Stmt { return ms.Mods[0] }

func addBody(m *yang.Stmt, kids ...*yang.Stmt) {
	m.Add(kids...)
	yang.SortSections(m)
}

func pfx(m *yang.Stmt) string { return m.Find("prefix").Arg }

// topOf: name of the generated main container of module m ("top-<letter>")
func topOf(m *yang.Stmt) string {
	for _, k := range m.FindAll("container") {
		if strings.HasPrefix(k.Arg, "top-") {
			return k.Arg
		}
	}
	return "top"
}

var c11Injectors = []c11Injector{
	// ---- cycles
	{"import-self", true, func(r *core.Rng, ms *yang.ModSet) bool {
		m := modA(ms)
		addBody(m, yang.S("import", m.Arg, yang.S("prefix", "selfp")))
		return true
	}},
	{"import-mutual", true, func(r *core.Rng, ms *yang.ModSet) bool {
		if len(ms.Mods) < 2 {
			return false
		}
		a, b := ms.Mods[0], ms.Mods[len(ms.Mods)-1]
		if b.FindArg("import", a.Arg) == nil {
			addBody(b, yang.S("import", a.Arg, yang.S("prefix", "cyc1")))
		}
		addBody(a, yang.S("import", b.Arg, yang.S("prefix", "cyc2")))
		return true
	}},
	{"include-cycle", true, func(r *core.Rng, ms *yang.ModSet) bool {
		m := modA(ms)
		bt := func() *yang.Stmt { return yang.S("belongs-to", m.Arg, yang.S("prefix", pfx(m))) }
		s1 := yang.S("submodule", "sub-x", bt(), yang.S("include", "sub-y"), yang.S("leaf", "sx", yang.S("type", "string")))
		s2 := yang.S("submodule", "sub-y", bt(), yang.S("include", "sub-x"), yang.S("leaf", "sy", yang.S("type", "string")))
		yang.SortSections(s1)
		yang.SortSections(s2)
		addBody(m, yang.S("include", "sub-x"))
		ms.Mods = append(ms.Mods, s1, s2)
		return true
	}},
	// import cycles that pass through a submodule: the import that closes the cycle is written in a
	// submodule of the first module, under a fresh prefix or under a prefix the module itself binds
	// to another module (prefixes are scoped per module / submodule)
	{"import-cycle-through-submodule", true, func(r *core.Rng, ms *yang.ModSet) bool {
		return c11SubmoduleImportCycle(ms, "cycsub", false)
	}},
	{"import-cycle-through-submodule-prefix-reused", true, func(r *core.Rng, ms *yang.ModSet) bool {
		return c11SubmoduleImportCycle(ms, "", false)
	}},
	{"grouping-cycle-across-modules-behind-submodule-import", true, func(r *core.Rng, ms *yang.ModSet) bool {
		return c11SubmoduleImportCycle(ms, "", true)
	}},
	{"grouping-self-direct", true, func(r *core.Rng, ms *yang.ModSet) bool {
		addBody(modA(ms), yang.S("grouping", "cyg", yang.S("leaf", "gl", yang.S("type", "string")), yang.S("uses", "cyg")), yang.S("container", "cyuse", yang.S("uses", "cyg")))
		return true
	}},
	{"grouping-self-nested-in-container", true, func(r *core.Rng, ms *yang.ModSet) bool {
		addBody(modA(ms), yang.S("grouping", "cyg", yang.S("container", "gc", yang.S("uses", "cyg"))), yang.S("container", "cyuse", yang.S("uses", "cyg")))
		return true
	}},
	{"grouping-self-nested-unused", true, func(r *core.Rng, ms *yang.ModSet) bool {
		addBody(modA(ms), yang.S("grouping", "cyg", yang.S("list", "gli", yang.S("key", "k"), yang.S("leaf", "k", yang.S("type", "string")), yang.S("uses", "cyg"))))
		return true
	}},
	// (two same-named groupings in sibling scopes are refused by the repository's parser
	// — "cannot shadow grouping" — so homonyms are placed in different modules instead, see c11AddHomonyms)
	{"grouping-mutual", true, func(r *core.Rng, ms *yang.ModSet) bool {
		addBody(modA(ms), yang.S("grouping", "cya", yang.S("uses", "cyb")), yang.S("grouping", "cyb", yang.S("container", "bc", yang.S("uses", "cya"))), yang.S("container", "cyuse", yang.S("uses", "cya")))
		return true
	}},
	{"grouping-mutual-in-choice", true, func(r *core.Rng, ms *yang.ModSet) bool {
		addBody(modA(ms), yang.S("grouping", "cya", yang.S("choice", "ch", yang.S("case", "c1", yang.S("uses", "cyb")))), yang.S("grouping", "cyb", yang.S("uses", "cya")), yang.S("container", "cyuse", yang.S("uses", "cyb")))
		return true
	}},
	{"grouping-cycle-through-uses-augment", true, func(r *core.Rng, ms *yang.ModSet) bool {
		addBody(modA(ms),
			yang.S("grouping", "cya", yang.S("container", "ac")),
			yang.S("grouping", "cyb", yang.S("uses", "cya", yang.S("augment", "ac", yang.S("uses", "cyb")))),
			yang.S("container", "cyuse", yang.S("uses", "cyb")))
		return true
	}},
	{"grouping-cycle-across-modules", true, func(r *core.Rng, ms *yang.ModSet) bool {
		// a grouping in a submodule using a grouping of the module that uses it back
		m := modA(ms)
		sub := yang.S("submodule", "sub-g", yang.S("belongs-to", m.Arg, yang.S("prefix", pfx(m))),
			yang.S("grouping", "sg", yang.S("container", "sgc", yang.S("uses", pfx(m)+":mg"))))
		addBody(m, yang.S("include", "sub-g"), yang.S("grouping", "mg", yang.S("uses", "sg")), yang.S("container", "cyuse", yang.S("uses", "mg")))
		ms.Mods = append(ms.Mods, sub)
		return true
	}},
	{"grouping-cycle-inside-a-submodule-through-the-belongs-to-prefix", true, func(r *core.Rng, ms *yang.ModSet) bool {
		// both groupings live in the submodule; the uses statements name them with the belongs-to prefix,
		// which may or may not be the module's own prefix
		m := modA(ms)
		bt := core.Pick(r, []string{pfx(m), "own"})
		sub := yang.S("submodule", "sub-cyc", yang.S("belongs-to", m.Arg, yang.S("prefix", bt)),
			yang.S("grouping", "sga", yang.S("container", "sac", yang.S("uses", bt+":sgb"))),
			yang.S("grouping", "sgb", yang.S("uses", bt+":sga")))
		if r.Bool() {
			sub.Add(yang.S("container", "sub-cyc-use", yang.S("uses", core.Pick(r, []string{"sga", bt + ":sgb"}))))
		}
		addBody(m, yang.S("include", "sub-cyc"))
		ms.Mods = append(ms.Mods, sub)
		return true
	}},
	{"grouping-cycle-inside-a-submodule-used-by-a-grouping-defined-elsewhere", true, func(r *core.Rng, ms *yang.ModSet) bool {
		// the cycle gs -> gt -> gs lies in one submodule; a grouping of the module (or of a second
		// submodule) uses a grouping on it, so the cycle is first met from outside its own text
		m := modA(ms)
		sub := yang.S("submodule", "sub-cy2", yang.S("belongs-to", m.Arg, yang.S("prefix", pfx(m))),
			yang.S("grouping", "gs", yang.S("container", "cs", yang.S("uses", "gt"))),
			yang.S("grouping", "gt", yang.S("container", "ct", yang.S("uses", core.Pick(r, []string{"gs", pfx(m) + ":gs"})))))
		user := yang.S("grouping", "gm", yang.S("container", "cm", yang.S("uses", core.Pick(r, []string{"gs", "gt", pfx(m) + ":gs"}))))
		addBody(m, yang.S("include", "sub-cy2"))
		ms.Mods = append(ms.Mods, sub)
		switch r.Intn(3) {
		case 0:
			addBody(m, user)
		case 1:
			addBody(m, user, yang.S("container", "cy2use", yang.S("uses", "gm")))
		default:
			sub2 := yang.S("submodule", "sub-cy3", yang.S("belongs-to", m.Arg, yang.S("prefix", pfx(m))), yang.S("include", "sub-cy2"), user)
			addBody(m, yang.S("include", "sub-cy3"))
			ms.Mods = append(ms.Mods, sub2)
		}
		return true
	}},
	{"typedef-self", true, func(r *core.Rng, ms *yang.ModSet) bool {
		addBody(modA(ms), yang.S("typedef", "cyt", yang.S("type", "cyt")), yang.S("leaf", "cyl", yang.S("type", "cyt")))
		return true
	}},
	{"typedef-mutual", true, func(r *core.Rng, ms *yang.ModSet) bool {
		addBody(modA(ms), yang.S("typedef", "cyt1", yang.S("type", "cyt2")), yang.S("typedef", "cyt2", yang.S("type", "cyt1")), yang.S("leaf", "cyl", yang.S("type", "cyt1")))
		return true
	}},
	{"typedef-mutual-unused", true, func(r *core.Rng, ms *yang.ModSet) bool {
		addBody(modA(ms), yang.S("typedef", "cyt1", yang.S("type", "cyt2")), yang.S("typedef", "cyt2", yang.S("type", "cyt1")))
		return true
	}},
	{"typedef-cycle-in-union", true, func(r *core.Rng, ms *yang.ModSet) bool {
		addBody(modA(ms), yang.S("typedef", "cyt1", yang.S("type", "union", yang.S("type", "int8"), yang.S("type", "cyt1"))), yang.S("leaf", "cyl", yang.S("type", "cyt1")))
		return true
	}},
	// the same cycles declared in a local scope: typedefs may stand in a container, list, grouping, rpc,
	// input / output, notification, and those may in turn be written inside a choice / case or an augment
	{"typedef-cycle-in-a-local-scope", true, func(r *core.Rng, ms *yang.ModSet) bool {
		m := modA(ms)
		var cyc []*yang.Stmt
		switch r.Intn(5) {
		case 0:
			cyc = []*yang.Stmt{yang.S("typedef", "cyt", yang.S("type", "cyt"))}
		case 1:
			cyc = []*yang.Stmt{yang.S("typedef", "cyt", yang.S("type", "cyt2")), yang.S("typedef", "cyt2", yang.S("type", "cyt"))}
		case 2:
			// one link of the cycle written with the module's own prefix
			cyc = []*yang.Stmt{yang.S("typedef", "cyt", yang.S("type", pfx(m)+":cyt2")), yang.S("typedef", "cyt2", yang.S("type", "cyt"))}
		case 3:
			cyc = []*yang.Stmt{yang.S("typedef", "cyt", yang.S("type", "cyt2")), yang.S("typedef", "cyt2", yang.S("type", "union", yang.S("type", "string"), yang.S("type", pfx(m)+":cyt")))}
		default:
			cyc = []*yang.Stmt{yang.S("typedef", "cyt", yang.S("type", "union", yang.S("type", "int8"), yang.S("type", "cyt")))}
		}
		if r.Bool() {
			cyc = append(cyc, yang.S("leaf", "cyl", yang.S("type", "cyt")))
		} else {
			cyc = append(cyc, yang.S("leaf", "cyl", yang.S("type", "string")))
		}
		box := func(kw, name string) *yang.Stmt { return yang.S(kw, name, cyc...) }
		keyed := func() *yang.Stmt {
			l := yang.S("list", "cy-list", yang.S("key", "cyk"), yang.S("leaf", "cyk", yang.S("type", "string")))
			l.Add(cyc...)
			return l
		}
		switch r.Intn(10) {
		case 0:
			addBody(m, box("container", "cy-box"))
		case 1:
			addBody(m, keyed())
		case 2:
			addBody(m, box("grouping", "cy-grp"))
		case 3:
			addBody(m, yang.S("rpc", "cy-rpc", yang.S0("input", cyc...)))
		case 4:
			addBody(m, yang.S("rpc", "cy-rpc", yang.S0("output", cyc...)))
		case 5:
			addBody(m, box("notification", "cy-note"))
		case 6:
			addBody(m, yang.S("container", "cy-outer", yang.S("choice", "cy-ch", yang.S("case", "cy-case", box("container", "cy-box")))))
		case 7:
			addBody(m, yang.S("container", "cy-target"), yang.S("augment", "/"+pfx(m)+":cy-target", box("container", "cy-box")))
		case 8:
			addBody(m, yang.S("grouping", "cy-g", yang.S("container", "cy-gc")),
				yang.S("container", "cy-use", yang.S("uses", "cy-g", yang.S("augment", "cy-gc", keyed()))))
		default:
			addBody(m, yang.S("container", "cy-outer", yang.S("container", "cy-mid", box("container", "cy-box"))))
		}
		return true
	}},
	{"identity-cycle-with-identities-derived-from-its-members", true, func(r *core.Rng, ms *yang.ModSet) bool {
		// a cycle of two or three identities, and identities that are derived from a member without being on the cycle
		m := modA(ms)
		if r.Bool() {
			addBody(m, yang.S("identity", "cyi1", yang.S("base", "cyi2")), yang.S("identity", "cyi2", yang.S("base", "cyi1")))
		} else {
			addBody(m, yang.S("identity", "cyi1", yang.S("base", "cyi2")), yang.S("identity", "cyi2", yang.S("base", "cyi3")), yang.S("identity", "cyi3", yang.S("base", "cyi1")))
		}
		addBody(m, yang.S("identity", "cy-tail1", yang.S("base", "cyi1")), yang.S("identity", "cy-tail2", yang.S("base", "cy-tail1")), yang.S("identity", "cy-tail3", yang.S("base", "cyi2")),
			yang.S("identity", "a-first", yang.S("base", "cy-tail2")), yang.S("identity", "z-last", yang.S("base", "cy-tail3")))
		if r.Bool() {
			addBody(m, yang.S("container", "cy-idref", yang.S("leaf", "i", yang.S("type", "identityref", yang.S("base", "cy-tail2")))))
		}
		return true
	}},
	{"identity-self", true, func(r *core.Rng, ms *yang.ModSet) bool {
		addBody(modA(ms), yang.S("identity", "cyi", yang.S("base", "cyi")))
		return true
	}},
	{"identity-mutual", true, func(r *core.Rng, ms *yang.ModSet) bool {
		addBody(modA(ms), yang.S("identity", "cyi1", yang.S("base", "cyi2")), yang.S("identity", "cyi2", yang.S("base", "cyi3")), yang.S("identity", "cyi3", yang.S("base", "cyi1")),
			yang.S("leaf", "cyl", yang.S("type", "identityref", yang.S("base", "cyi1"))))
		return true
	}},
	{"feature-self", true, func(r *core.Rng, ms *yang.ModSet) bool {
		addBody(modA(ms), yang.S("feature", "cyf", yang.S("if-feature", "cyf")))
		return true
	}},
	{"feature-mutual", true, func(r *core.Rng, ms *yang.ModSet) bool {
		addBody(modA(ms), yang.S("feature", "cyf1", yang.S("if-feature", "cyf2")), yang.S("feature", "cyf2", yang.S("if-feature", "cyf1")))
		return true
	}},
	// cycles that are only reached after an if-feature on a feature that is not enabled (the injected
	// features are never in the enabled set)
	{"feature-cycle-behind-a-disabled-feature", true, func(r *core.Rng, ms *yang.ModSet) bool {
		addBody(modA(ms), yang.S("feature", "cy-plain"), yang.S("feature", "cy-one", yang.S("if-feature", "cy-two")),
			yang.S("feature", "cy-two", yang.S("if-feature", "cy-plain"), yang.S("if-feature", "cy-one")))
		return true
	}},
	{"feature-self-cycle-behind-two-disabled-features", true, func(r *core.Rng, ms *yang.ModSet) bool {
		addBody(modA(ms), yang.S("feature", "cy-p1"), yang.S("feature", "cy-p2"),
			yang.S("feature", "cy-self", yang.S("if-feature", "cy-p1"), yang.S("if-feature", "cy-p2"), yang.S("if-feature", "cy-self")),
			yang.S("leaf", "cy-guarded", yang.S("type", "string"), yang.S("if-feature", "cy-self")))
		return true
	}},
	// ---- dangling / ill-kinded references: no crash, same verdict
	// a chain of includes in which only the last submodule imports a module that the first one uses:
	// whatever the verdict, it must not depend on the order in which the submodules are met
	{"include-chain-with-import-in-the-last-submodule", false, func(r *core.Rng, ms *yang.ModSet) bool {
		c11IncludeChain(ms, false)
		return true
	}},
	{"import-cycle-closed-by-the-last-submodule-of-an-include-chain", true, func(r *core.Rng, ms *yang.ModSet) bool {
		c11IncludeChain(ms, true)
		return true
	}},
	{"submodule-including-itself", true, func(r *core.Rng, ms *yang.ModSet) bool {
		m := modA(ms)
		sub := yang.S("submodule", "sub-self", yang.S("belongs-to", m.Arg, yang.S("prefix", pfx(m))), yang.S("include", "sub-self"), yang.S("leaf", "sub-self-leaf", yang.S("type", "string")))
		addBody(m, yang.S("include", "sub-self"))
		ms.Mods = append(ms.Mods, sub)
		return true
	}},
	{"identityref-with-base-defined-in-a-submodule", false, func(r *core.Rng, ms *yang.ModSet) bool {
		m := modA(ms)
		sub := yang.S("submodule", "sub-id", yang.S("belongs-to", m.Arg, yang.S("prefix", pfx(m))),
			yang.S("identity", "sub-base"), yang.S("identity", "sub-derived", yang.S("base", "sub-base")),
			yang.S("leaf", "sub-idref", yang.S("type", "identityref", yang.S("base", "sub-base"))))
		addBody(m, yang.S("include", "sub-id"))
		ms.Mods = append(ms.Mods, sub)
		return true
	}},
	{"identity-of-the-module-derived-from-one-in-its-submodule", false, func(r *core.Rng, ms *yang.ModSet) bool {
		m := modA(ms)
		sub := yang.S("submodule", "sub-id2", yang.S("belongs-to", m.Arg, yang.S("prefix", pfx(m))), yang.S("identity", "sub-base2"), yang.S("feature", "sub-feat"))
		addBody(m, yang.S("include", "sub-id2"), yang.S("identity", "mod-derived", yang.S("base", "sub-base2")),
			yang.S("leaf", "mod-idref", yang.S("type", "identityref", yang.S("base", "mod-derived")), yang.S("if-feature", "sub-feat")))
		ms.Mods = append(ms.Mods, sub)
		return true
	}},
	{"unknown-feature-behind-a-disabled-feature", false, func(r *core.Rng, ms *yang.ModSet) bool {
		addBody(modA(ms), yang.S("feature", "dg-plain"), yang.S("feature", "dg-f", yang.S("if-feature", "dg-plain"), yang.S("if-feature", "no-such-feature")))
		return true
	}},
	// two modules define a top-level node with the same local name (the repository keeps all top-level
	// nodes of a model set in one name space): whatever the verdict, it must be the same every time, and
	// if the set is accepted the merged tree must be the same every time
	{"same-top-level-name-in-two-modules", false, func(r *core.Rng, ms *yang.ModSet) bool {
		n := 0
		for _, m := range ms.Mods {
			if m.Kw != "module" {
				continue
			}
			addBody(m, yang.S("container", "shared-top", yang.S("leaf", fmt.Sprintf("only-in-%d", n), yang.S("type", "string")),
				yang.S("leaf", "common", yang.S("type", []string{"string", "uint8", "boolean"}[n%3]))))
			n++
		}
		if n < 2 {
			x := yang.S("module", "dup-x", yang.S("namespace", "urn:verif:dup-x"), yang.S("prefix", "dx"),
				yang.S("container", "shared-top", yang.S("leaf", "only-in-x", yang.S("type", "int8"))))
			ms.Mods = append(ms.Mods, x)
		}
		return true
	}},
	{"same-top-level-leaf-in-two-modules", false, func(r *core.Rng, ms *yang.ModSet) bool {
		addBody(modA(ms), yang.S("leaf", "shared-leaf", yang.S("type", "string"), yang.S("default", "from-a")))
		x := yang.S("module", "dup-y", yang.S("namespace", "urn:verif:dup-y"), yang.S("prefix", "dy"),
			yang.S("leaf", "shared-leaf", yang.S("type", "uint16"), yang.S("default", "7")))
		ms.Mods = append(ms.Mods, x)
		return true
	}},
	// two submodules of one module that share groupings: the groupings of the submodules are expanded one
	// submodule after the other, and the first visitor of a shared grouping must not decide its meaning
	{"groupings-shared-by-two-submodules-nested-scope", false, func(r *core.Rng, ms *yang.ModSet) bool {
		m := modA(ms)
		bt := func() *yang.Stmt { return yang.S("belongs-to", m.Arg, yang.S("prefix", pfx(m))) }
		s1 := yang.S("submodule", "shs-1", bt(), yang.S("include", "shs-2"), yang.S("grouping", "shs-user", yang.S("uses", "shs-mid")))
		s2 := yang.S("submodule", "shs-2", bt(),
			yang.S("grouping", "shs-outer", yang.S("grouping", "shs-inner", yang.S("leaf", "x", yang.S("type", "string"))), yang.S("uses", "shs-inner")),
			yang.S("grouping", "shs-mid", yang.S("uses", "shs-outer")))
		addBody(m, yang.S("include", "shs-1"), yang.S("include", "shs-2"))
		ms.Mods = append(ms.Mods, s1, s2)
		return true
	}},
	{"groupings-shared-by-two-submodules-status", false, func(r *core.Rng, ms *yang.ModSet) bool {
		m := modA(ms)
		bt := func() *yang.Stmt { return yang.S("belongs-to", m.Arg, yang.S("prefix", pfx(m))) }
		s1 := yang.S("submodule", "shs-1", bt(), yang.S("include", "shs-2"), yang.S("grouping", "shs-user", yang.S("status", "deprecated"), yang.S("uses", "shs-mid")))
		s2 := yang.S("submodule", "shs-2", bt(),
			yang.S("grouping", "shs-mid", yang.S("uses", "shs-outer")),
			yang.S("grouping", "shs-outer", yang.S("status", "deprecated"), yang.S("leaf", "x", yang.S("type", "string"))))
		addBody(m, yang.S("include", "shs-1"), yang.S("include", "shs-2"))
		ms.Mods = append(ms.Mods, s1, s2)
		return true
	}},
	// the same with submodules that the module does not include itself: it includes one submodule, which includes
	// the others (the order in which those are met must not matter either)
	{"groupings-shared-by-submodules-reached-through-another-submodule", false, func(r *core.Rng, ms *yang.ModSet) bool {
		m := modA(ms)
		bt := func() *yang.Stmt { return yang.S("belongs-to", m.Arg, yang.S("prefix", pfx(m))) }
		s0 := yang.S("submodule", "shn-0", bt(), yang.S("include", "shn-1"), yang.S("include", "shn-3"), yang.S("include", "shn-2"), yang.S("leaf", "shn-leaf", yang.S("type", "string")))
		s1 := yang.S("submodule", "shn-1", bt(), yang.S("include", "shn-3"),
			yang.S("grouping", "wrapper", yang.S("container", "a", yang.S("status", "deprecated"), yang.S("uses", "shared"))))
		s2 := yang.S("submodule", "shn-2", bt(), yang.S("include", "shn-3"),
			yang.S("grouping", "wrapper2", yang.S("container", "b", yang.S("uses", "shared"))))
		s3 := yang.S("submodule", "shn-3", bt(),
			yang.S("grouping", "shared", yang.S("uses", "dep")),
			yang.S("grouping", "dep", yang.S("status", "deprecated"), yang.S("leaf", "x", yang.S("type", "string"))))
		addBody(m, yang.S("include", "shn-0"))
		ms.Mods = append(ms.Mods, s0, s1, s2, s3)
		return true
	}},
	// a submodule that belongs to a module of the set but that no include statement leads to, importing a module
	// that is not supplied (and one that is): whatever is made of it, the same every time and without a panic
	{"submodule-that-nothing-includes-imports-a-missing-module", false, func(r *core.Rng, ms *yang.ModSet) bool {
		m := modA(ms)
		sub := yang.S("submodule", "sub-orphan", yang.S("belongs-to", m.Arg, yang.S("prefix", pfx(m))),
			yang.S("import", "no-such-module", yang.S("prefix", "nsm")),
			yang.S("leaf", "orphan-leaf", yang.S("type", "nsm:t")),
			yang.S("augment", "/nsm:top", yang.S("leaf", "orphan-aug", yang.S("type", "string"))))
		if r.Bool() {
			sub2 := yang.S("submodule", "sub-orphan2", yang.S("belongs-to", m.Arg, yang.S("prefix", pfx(m))), yang.S("include", "sub-orphan"),
				yang.S("import", "no-such-module-2", yang.S("prefix", "nsm2")))
			ms.Mods = append(ms.Mods, sub2)
		}
		ms.Mods = append(ms.Mods, sub)
		return true
	}},
	{"list-key-names-no-leaf", false, func(r *core.Rng, ms *yang.ModSet) bool {
		switch r.Intn(3) {
		case 0:
			addBody(modA(ms), yang.S("list", "nokey-list", yang.S("key", "zz"), yang.S("leaf", "x", yang.S("type", "string"))))
		case 1:
			addBody(modA(ms), yang.S("list", "nokey-list", yang.S("key", "x zz"), yang.S("leaf", "x", yang.S("type", "string"))))
		default:
			addBody(modA(ms), yang.S("list", "nokey-list", yang.S("key", "c"), yang.S("container", "c", yang.S("leaf", "x", yang.S("type", "string")))))
		}
		return true
	}},
	// compiled with the skip-unknown option: an import of a module that is not supplied, and an augment into it.
	// Every compilation of the set in this process must come out the same (the stand-in the compiler makes up
	// for the missing module is per compilation).
	{"skip-unknown/augment-into-a-module-that-is-not-supplied", false, func(r *core.Rng, ms *yang.ModSet) bool {
		m := modA(ms)
		addBody(m, yang.S("import", "gone-mod", yang.S("prefix", "gone")),
			yang.S("augment", "/gone:one/gone:two", yang.S("leaf", "added-"+pfx(m), yang.S("type", "string"))))
		yang.SortSections(m)
		if len(ms.Mods) > 1 && ms.Mods[1].Kw == "module" {
			b := ms.Mods[1]
			addBody(b, yang.S("import", "gone-mod", yang.S("prefix", "gone")),
				yang.S("augment", "/gone:three", yang.S("leaf", "added-"+pfx(b), yang.S("type", "uint8"))))
			yang.SortSections(b)
		}
		return true
	}},
	// the same option, the missing module met for the first time while the modules are built: every module of the
	// set has a leaf of a type of the missing module, a must that uses its prefix and an if-feature on one of its features
	{"skip-unknown/definitions-of-a-module-that-is-not-supplied", false, func(r *core.Rng, ms *yang.ModSet) bool {
		n := 0
		for _, m := range ms.Mods {
			if m.Kw != "module" {
				continue
			}
			n++
			addBody(m, yang.S("import", "gone-mod", yang.S("prefix", "gone")),
				yang.S("container", "gone-user-"+pfx(m),
					yang.S("leaf", "typed", yang.S("type", "gone:t")),
					yang.S("leaf-list", "typed-too", yang.S("type", "gone:t2")),
					yang.S("leaf", "guarded", yang.S("type", "string"), yang.S("must", "../gone:x = 1")),
					yang.S("leaf", "featured", yang.S("type", "string"), yang.S("if-feature", "gone:f"))))
			yang.SortSections(m)
		}
		return n > 0
	}},
	// what is wrong stands on a node that a short module copies out of a grouping far down in a long library module
	// (and out of a grouping of a long submodule of its own): the error is reported, with whatever location
	{"fault-on-a-node-copied-from-a-long-library-into-a-short-module", false, func(r *core.Rng, ms *yang.ModSet) bool {
		lib := yang.S("module", "long-lib", yang.S("namespace", "urn:verif:long-lib"), yang.S("prefix", "ll"))
		if r.Bool() {
			lib = yang.S("submodule", "long-sub", yang.S("belongs-to", "short-user", yang.S("prefix", "su")))
		}
		for i := 0; i < 40+r.Intn(40); i++ {
			lib.Add(yang.S("typedef", fmt.Sprintf("filler-%d", i), yang.S("type", "string", yang.S("length", "1..64")), yang.S("description", "one of many definitions that stand in front of the grouping")))
		}
		var g, use *yang.Stmt
		use = yang.S("uses", "ll:far-down")
		switch r.Intn(8) {
		case 0:
			g = yang.S("grouping", "far-down", yang.S("leaf", "gl", yang.S("type", "no-such-type")))
		case 1:
			g = yang.S("grouping", "far-down", yang.S("leaf", "gl", yang.S("type", "string"), yang.S("if-feature", "no-such-feature")))
		case 2:
			g = yang.S("grouping", "far-down", yang.S("leaf", "gl", yang.S("type", "identityref", yang.S("base", "no-such-identity"))))
		case 3:
			g = yang.S("grouping", "far-down", yang.S("leaf", "gl", yang.S("type", "string"), yang.S("default", "d")))
			use.Add(yang.S("refine", "gl", yang.S("mandatory", "true")))
		case 4:
			g = yang.S("grouping", "far-down", yang.S("container", "gc", yang.S("config", "false"), yang.S("leaf", "gl", yang.S("type", "string"), yang.S("config", "true"))))
		case 5:
			g = yang.S("grouping", "far-down", yang.S("container", "gc", yang.S("status", "obsolete"), yang.S("leaf", "gl", yang.S("type", "string"), yang.S("status", "current"))))
		case 6:
			g = yang.S("grouping", "far-down", yang.S("leaf", "gl", yang.S("type", "uint8"), yang.S("default", "300")))
		default:
			g = yang.S("grouping", "far-down", yang.S("list", "gli", yang.S("key", "nope"), yang.S("leaf", "k", yang.S("type", "string"))))
		}
		lib.Add(g)
		user := yang.S("module", "short-user", yang.S("namespace", "urn:verif:short-user"), yang.S("prefix", "su"))
		if lib.Kw == "submodule" {
			user.Add(yang.S("include", "long-sub"))
			use.Arg = "far-down"
		} else {
			user.Add(yang.S("import", "long-lib", yang.S("prefix", "ll")))
		}
		user.Add(yang.S("container", "u", use))
		ms.Mods = append(ms.Mods, lib, user)
		return true
	}},
	{"unknown-prefix-in-type", false, func(r *core.Rng, ms *yang.ModSet) bool {
		addBody(modA(ms), yang.S("leaf", "dl", yang.S("type", "nopfx:t")))
		return true
	}},
	{"unknown-type", false, func(r *core.Rng, ms *yang.ModSet) bool {
		addBody(modA(ms), yang.S("leaf", "dl", yang.S("type", "no-such-type")))
		return true
	}},
	{"unknown-grouping", false, func(r *core.Rng, ms *yang.ModSet) bool {
		addBody(modA(ms), yang.S("container", "dc", yang.S("uses", "no-such-grouping")))
		return true
	}},
	{"unknown-feature", false, func(r *core.Rng, ms *yang.ModSet) bool {
		addBody(modA(ms), yang.S("leaf", "dl", yang.S("type", "string"), yang.S("if-feature", "no-such-feature")))
		return true
	}},
	{"unknown-identity-base", false, func(r *core.Rng, ms *yang.ModSet) bool {
		addBody(modA(ms), yang.S("identity", "di", yang.S("base", "no-such-identity")))
		return true
	}},
	{"unknown-identityref-base", false, func(r *core.Rng, ms *yang.ModSet) bool {
		addBody(modA(ms), yang.S("leaf", "dl", yang.S("type", "identityref", yang.S("base", "no-such-identity"))))
		return true
	}},
	{"unknown-import", false, func(r *core.Rng, ms *yang.ModSet) bool {
		addBody(modA(ms), yang.S("import", "no-such-module", yang.S("prefix", "nsm")))
		return true
	}},
	{"unknown-include", false, func(r *core.Rng, ms *yang.ModSet) bool {
		addBody(modA(ms), yang.S("include", "no-such-submodule"))
		return true
	}},
	{"submodule-of-unknown-module", false, func(r *core.Rng, ms *yang.ModSet) bool {
		ms.Mods = append(ms.Mods, yang.S("submodule", "orphan", yang.S("belongs-to", "no-such-module", yang.S("prefix", "x")), yang.S("leaf", "ol", yang.S("type", "string"))))
		return true
	}},
	{"augment-unknown-target", false, func(r *core.Rng, ms *yang.ModSet) bool {
		m := modA(ms)
		addBody(m, yang.S("augment", "/"+pfx(m)+":"+topOf(m)+"/"+pfx(m)+":no-such-node", yang.S("leaf", "al", yang.S("type", "string"))))
		return true
	}},
	{"augment-leaf-target", false, func(r *core.Rng, ms *yang.ModSet) bool {
		m := modA(ms)
		addBody(m, yang.S("augment", "/"+pfx(m)+":"+topOf(m)+"/"+pfx(m)+":name", yang.S("leaf", "al", yang.S("type", "string"))))
		return true
	}},
	{"augment-descendant-id-at-module-level", false, func(r *core.Rng, ms *yang.ModSet) bool {
		addBody(modA(ms), yang.S("augment", topOf(modA(ms)), yang.S("leaf", "al", yang.S("type", "string"))))
		return true
	}},
	{"uses-augment-absolute-id", false, func(r *core.Rng, ms *yang.ModSet) bool {
		addBody(modA(ms), yang.S("grouping", "dg", yang.S("container", "gc")), yang.S("container", "dc", yang.S("uses", "dg", yang.S("augment", "/gc", yang.S("leaf", "al", yang.S("type", "string"))))))
		return true
	}},
	{"uses-augment-unknown-target", false, func(r *core.Rng, ms *yang.ModSet) bool {
		addBody(modA(ms), yang.S("grouping", "dg", yang.S("container", "gc")), yang.S("container", "dc", yang.S("uses", "dg", yang.S("augment", "nope", yang.S("leaf", "al", yang.S("type", "string"))))))
		return true
	}},
	{"refine-unknown-target", false, func(r *core.Rng, ms *yang.ModSet) bool {
		addBody(modA(ms), yang.S("grouping", "dg", yang.S("leaf", "gl", yang.S("type", "string"))), yang.S("container", "dc", yang.S("uses", "dg", yang.S("refine", "nope", yang.S("description", "x")))))
		return true
	}},
	{"deviation-unknown-target", false, func(r *core.Rng, ms *yang.ModSet) bool {
		m := modA(ms)
		addBody(m, yang.S("deviation", "/"+pfx(m)+":no-such-node", yang.S("deviate", "not-supported")))
		return true
	}},
	{"unique-unknown-leaf", false, func(r *core.Rng, ms *yang.ModSet) bool {
		addBody(modA(ms), yang.S("list", "dli", yang.S("key", "k"), yang.S("leaf", "k", yang.S("type", "string")), yang.S("unique", "nope")))
		return true
	}},
	{"key-unknown-leaf", false, func(r *core.Rng, ms *yang.ModSet) bool {
		addBody(modA(ms), yang.S("list", "dli", yang.S("key", "nope"), yang.S("leaf", "k", yang.S("type", "string"))))
		return true
	}},
	{"key-is-a-container", false, func(r *core.Rng, ms *yang.ModSet) bool {
		addBody(modA(ms), yang.S("list", "dli", yang.S("key", "kc"), yang.S("container", "kc"), yang.S("leaf", "k", yang.S("type", "string"))))
		return true
	}},
	{"choice-default-unknown-case", false, func(r *core.Rng, ms *yang.ModSet) bool {
		addBody(modA(ms), yang.S("choice", "dch", yang.S("default", "nope"), yang.S("leaf", "dl1", yang.S("type", "string"))))
		return true
	}},
	{"leafref-without-path", false, func(r *core.Rng, ms *yang.ModSet) bool {
		addBody(modA(ms), yang.S("leaf", "dl", yang.S("type", "leafref")))
		return true
	}},
	{"identityref-without-base", false, func(r *core.Rng, ms *yang.ModSet) bool {
		addBody(modA(ms), yang.S("leaf", "dl", yang.S("type", "identityref")))
		return true
	}},
	{"enumeration-without-enum", false, func(r *core.Rng, ms *yang.ModSet) bool {
		addBody(modA(ms), yang.S("leaf", "dl", yang.S("type", "enumeration")))
		return true
	}},
	{"union-without-members", false, func(r *core.Rng, ms *yang.ModSet) bool {
		addBody(modA(ms), yang.S("leaf", "dl", yang.S("type", "union")))
		return true
	}},
	{"decimal64-without-fraction-digits", false, func(r *core.Rng, ms *yang.ModSet) bool {
		addBody(modA(ms), yang.S("leaf", "dl", yang.S("type", "decimal64")))
		return true
	}},
	{"duplicate-sibling", false, func(r *core.Rng, ms *yang.ModSet) bool {
		addBody(modA(ms), yang.S("container", "dup", yang.S("leaf", "x", yang.S("type", "string")), yang.S("container", "x")))
		return true
	}},
	{"rpc-without-input-output", false, func(r *core.Rng, ms *yang.ModSet) bool {
		addBody(modA(ms), yang.S("rpc", "bare"))
		return true
	}},
	{"two-modules-same-namespace", false, func(r *core.Rng, ms *yang.ModSet) bool {
		m := modA(ms)
		ms.Mods = append(ms.Mods, yang.S("module", "twin", yang.S("namespace", m.Find("namespace").Arg), yang.S("prefix", "tw"), yang.S("container", "twin-top")))
		return true
	}},
}

type c11Case struct {
	ms       *yang.ModSet
	injector string
	kind     string // valid | cycle | dangling
	homonyms bool
}

func c11Gen(seed int64, idx int) c11Case {
	r := core.CaseRng(seed, "C11", idx)
	cfg := yang.DefaultGenCfg()
	cfg.Modules = r.Range(1, 4)
	cfg.Rpc = true
	cfg.Submodule = false
	if idx%3 == 0 {
		cfg.Modules = r.Range(9, 12)
		cfg.Identities = r.Range(3, 6)
		cfg.Features = r.Range(2, 4)
		cfg.MaxKids = 2
		cfg.MaxDepth = 2
	}
	ms := yang.GenSchemaSet(r, cfg)
	c := c11Case{ms: ms, kind: "valid"}
	var cycles, danglings []c11Injector
	for _, in := range c11Injectors {
		if in.cycle {
			cycles = append(cycles, in)
		} else {
			danglings = append(danglings, in)
		}
	}
	switch idx % 6 {
	case 1, 4:
		in := cycles[(idx/6)%len(cycles)]
		if in.apply(r, ms) {
			c.injector, c.kind = in.name, "cycle"
		}
	case 2:
		in := danglings[(idx/6)%len(danglings)]
		if in.apply(r, ms) {
			c.injector, c.kind = in.name, "dangling"
		}
	}
	if c.kind == "valid" && idx%6 == 0 {
		// a grouping whose nodes have no substatements, used with an augment that uses the same grouping again below
		// one of them (a finite nest: /nest-top/shelf/shelf/shelf), next to a plain use of it
		a := modA(ms)
		addBody(a, yang.S("grouping", "nest-box", yang.S("container", "shelf"), yang.S("anyxml", "lid"), yang.S("choice", "side")),
			yang.S("container", "nest-top", yang.S("uses", "nest-box",
				yang.S("augment", "shelf", yang.S("uses", "nest-box", yang.S("augment", "shelf", yang.S("uses", "nest-box")))),
				yang.S("augment", "side", yang.S("leaf", "left", yang.S("type", "string"))))),
			yang.S("container", "nest-plain", yang.S("uses", "nest-box", yang.S("when", "../nest-top")), yang.S("leaf", "own", yang.S("type", "string"))))
		yang.SortSections(a)
	}
	if c.kind == "valid" && idx%2 == 1 {
		// lists whose order comes out of maps inside the compiler: five identities derived from one base,
		// five features, four modules deviating the first module
		a := modA(ms)
		pa := pfx(a)
		var kids []*yang.Stmt
		kids = append(kids, yang.S("identity", "ord-base"))
		for i := 1; i <= 5; i++ {
			kids = append(kids, yang.S("identity", fmt.Sprintf("ord-d%d", i), yang.S("base", "ord-base")), yang.S("feature", fmt.Sprintf("ord-f%d", i)))
			ms.Features = append(ms.Features, fmt.Sprintf("%s:ord-f%d", a.Arg, i))
		}
		kids = append(kids, yang.S("container", "ord-c", yang.S("leaf", "idr", yang.S("type", "identityref", yang.S("base", "ord-base"))),
			yang.S("leaf", "w", yang.S("type", "string")), yang.S("leaf", "x", yang.S("type", "string")), yang.S("leaf", "y", yang.S("type", "string")), yang.S("leaf", "z", yang.S("type", "string")),
			yang.S("leaf", "v", yang.S("type", "string"), yang.S("default", "0"))))
		addBody(a, kids...)
		for i, lf := range []string{"w", "x", "y", "z"} {
			d := yang.S("module", fmt.Sprintf("ord-dev%d", i+1), yang.S("namespace", fmt.Sprintf("urn:verif:ord-dev%d", i+1)), yang.S("prefix", "od"),
				yang.S("import", a.Arg, yang.S("prefix", "oa")),
				yang.S("deviation", "/oa:ord-c/oa:"+lf, yang.S("deviate", "add", yang.S("units", "u"))),
				// all four modules also replace the default of one and the same leaf: what comes out depends
				// on the order in which the deviating modules are applied, which must be a fixed one
				yang.S("deviation", "/oa:ord-c/oa:v", yang.S("deviate", "replace", yang.S("default", fmt.Sprintf("from-dev%d", i+1)))))
			_ = pa
			ms.Mods = append(ms.Mods, d)
		}
	}
	// homonyms: well-formed definitions carrying the names the injectors use, in the other
	// modules (for valid sets: in every module).  Names are scoped per module, so a verdict
	// must not depend on which of two same-named definitions the compiler meets first.
	if len(ms.Mods) >= 2 && r.Chance(1, 2) {
		n := 0
		for i, m := range ms.Mods {
			if m.Kw != "module" || (i == 0 && c.kind != "valid") {
				continue
			}
			c11AddHomonyms(m, n)
			n++
		}
		if n > 0 {
			c.homonyms = true
		}
	}
	return c
}

// c11SubmoduleImportCycle: module A includes submodule sub-ic; sub-ic imports a new module cyc-b,
// cyc-b imports A.  pfx == "": the submodule reuses a prefix that A binds to a different module
// (a helper module cyc-x is added and imported by A when A has no import).  withGroupings: the
// cycle is also one of groupings (A's grouping uses cyc-b's, which uses A's).
func c11SubmoduleImportCycle(ms *yang.ModSet, pfx string, withGroupings bool) bool {
	a := modA(ms)
	if pfx == "" {
		if imp := a.Find("import"); imp != nil {
			pfx = imp.Find("prefix").Arg
		} else {
			x := yang.S("module", "cyc-x", yang.S("namespace", "urn:verif:cyc-x"), yang.S("prefix", "cx"), yang.S("leaf", "cyc-x-leaf", yang.S("type", "string")))
			ms.Mods = append(ms.Mods, x)
			addBody(a, yang.S("import", "cyc-x", yang.S("prefix", "shared")))
			pfx = "shared"
		}
	}
	sub := yang.S("submodule", "sub-ic", yang.S("belongs-to", a.Arg, yang.S("prefix", pfx+"own")),
		yang.S("import", "cyc-b", yang.S("prefix", pfx)))
	b := yang.S("module", "cyc-b", yang.S("namespace", "urn:verif:cyc-b"), yang.S("prefix", "cb"), yang.S("import", a.Arg, yang.S("prefix", "backa")),
		yang.S("leaf", "cyc-b-leaf", yang.S("type", "string")))
	if withGroupings {
		sub.Add(yang.S("grouping", "ga", yang.S("container", "gac", yang.S("uses", pfx+":gb"))), yang.S("container", "cyc-sub-use", yang.S("uses", "ga")))
		b.Add(yang.S("grouping", "gb", yang.S("container", "gbc", yang.S("uses", "backa:ga"))))
	} else {
		sub.Add(yang.S("leaf", "sub-ic-leaf", yang.S("type", "string")))
	}
	yang.SortSections(sub)
	yang.SortSections(b)
	addBody(a, yang.S("include", "sub-ic"))
	ms.Mods = append(ms.Mods, sub, b)
	return true
}

// c11IncludeChain: module A includes ch-1, ch-1 includes ch-2, ch-2 includes ch-3; only ch-3 imports the
// new module ch-b, whose typedef ch-1 uses.  closeCycle: ch-b imports A.
func c11IncludeChain(ms *yang.ModSet, closeCycle bool) {
	a := modA(ms)
	bt := func() *yang.Stmt { return yang.S("belongs-to", a.Arg, yang.S("prefix", pfx(a))) }
	s1 := yang.S("submodule", "ch-1", bt(), yang.S("include", "ch-2"), yang.S("leaf", "ch-1-leaf", yang.S("type", "chb:chb-t")))
	s2 := yang.S("submodule", "ch-2", bt(), yang.S("include", "ch-3"), yang.S("leaf", "ch-2-leaf", yang.S("type", "string")))
	s3 := yang.S("submodule", "ch-3", bt(), yang.S("import", "ch-b", yang.S("prefix", "chb")), yang.S("leaf", "ch-3-leaf", yang.S("type", "chb:chb-t")))
	b := yang.S("module", "ch-b", yang.S("namespace", "urn:verif:ch-b"), yang.S("prefix", "chb"), yang.S("typedef", "chb-t", yang.S("type", "uint8")))
	if closeCycle {
		b.Add(yang.S("import", a.Arg, yang.S("prefix", "back")))
	}
	for _, x := range []*yang.Stmt{s1, s2, s3, b} {
		yang.SortSections(x)
	}
	addBody(a, yang.S("include", "ch-1"))
	ms.Mods = append(ms.Mods, s1, s2, s3, b)
}

func c11AddHomonyms(m *yang.Stmt, n int) {
	tag := strings.ReplaceAll(m.Arg, "_", "-")
	var kids []*yang.Stmt
	for _, g := range []string{"cyg", "cya", "cyb", "sg", "mg", "no-such-grouping"} {
		kids = append(kids, yang.S("grouping", g, yang.S("leaf", "hom-"+g+"-leaf", yang.S("type", "string"))))
	}
	for _, t := range []string{"cyt", "cyt1", "cyt2", "no-such-type"} {
		kids = append(kids, yang.S("typedef", t, yang.S("type", "int16")))
	}
	for _, t := range []string{"cyi", "cyi1", "cyi2", "cyi3", "no-such-identity"} {
		kids = append(kids, yang.S("identity", t))
	}
	for _, t := range []string{"cyf", "cyf1", "cyf2", "no-such-feature"} {
		kids = append(kids, yang.S("feature", t))
	}
	kids = append(kids, yang.S("container", "hom-"+tag,
		yang.S("uses", "cyg"), yang.S("container", "ha", yang.S("uses", "cya")), yang.S("container", "hb", yang.S("uses", "cyb")),
		yang.S("container", "hs", yang.S("uses", "sg")), yang.S("container", "hm", yang.S("uses", "mg")), yang.S("container", "hn", yang.S("uses", "no-such-grouping")),
		yang.S("leaf", "ht", yang.S("type", "cyt")), yang.S("leaf", "ht1", yang.S("type", "cyt1")), yang.S("leaf", "ht2", yang.S("type", "cyt2")), yang.S("leaf", "htn", yang.S("type", "no-such-type")),
		yang.S("leaf", "hi", yang.S("type", "identityref", yang.S("base", "cyi1"))),
		yang.S("leaf", "hf", yang.S("type", "string"), yang.S("if-feature", "cyf1"))))
	addBody(m, kids...)
}

func (p *c11) Describe(tier string, seed int64, idx int) string {
	c := c11Gen(seed, idx)
	texts := c.ms.Texts(nil)
	var names []string
	for n := range texts {
		names = append(names, n)
	}
	sort.Strings(names)
	var b strings.Builder
	fmt.Fprintf(&b, "kind=%s injector=%s homonyms=%v features=%v\n", c.kind, c.injector, c.homonyms, c.ms.Features)
	for _, n := range names {
		fmt.Fprintf(&b, "---- %s\n%s", n, texts[n])
	}
	return b.String()
}

func (p *c11) Run(tier string, seed int64, idx int) core.CaseResult {
	var res core.CaseResult
	dump.KeepListOrder = true // the order of returned lists is part of the outcome that must not change between runs
	c := c11Gen(seed, idx)
	texts := c.ms.Texts(nil)
	var names []string
	for n := range texts {
		names = append(names, n)
	}
	sort.Strings(names)
	r := core.CaseRng(seed, "C11rep", idx)
	// enabled features: a random subset (the same for all repetitions)
	var feats []string
	for _, f := range c.ms.Features {
		if r.Bool() {
			feats = append(feats, f)
		}
	}
	input := p.Describe(tier, seed, idx)
	res.Key(input)
	R := tierN(tier, 8, 24)
	var first compileResult
	res.Ev("repetition_groups", 1)
	if c.homonyms {
		res.Ev("sets_with_homonymous_definitions_in_other_modules", 1)
	}
	switch c.kind {
	case "cycle":
		res.Ev("cycle_sets", 1)
	case "dangling":
		res.Ev("dangling_sets", 1)
	}
	compileSkipUnknown = strings.HasPrefix(c.injector, "skip-unknown/")
	defer func() { compileSkipUnknown = false }()
	for rep := 0; rep < R; rep++ {
		order := make([]string, len(names))
		for i, pi := range r.Perm(len(names)) {
			order[i] = names[pi]
		}
		compile.VerifOrderTraceReset()
		cr := compileTexts(texts, order, feats, nil, true)
		for site, keys := range compile.VerifOrderTraceReset() {
			if len(keys) >= 3 {
				res.AddSet(fmt.Sprintf("iteration_orders_site_%d", site), fmt.Sprintf("%x", core.Hash(strings.Join(keys, ","))))
			}
		}
		res.Ev("compilations", 1)
		if cr.Panic != "" {
			res.Fail("C11/panic/"+c.kind+"/"+c.injector+"/"+core.TopRepoFrame(cr.Stack), input, "panic: "+cr.Panic)
			return res
		}
		if cr.ParseErr != "" {
			res.Fail("harness-panic", input, "generated text does not parse: "+cr.ParseErr)
			return res
		}
		if rep == 0 {
			first = cr
			switch {
			case c.kind == "cycle" && cr.Accepted():
				res.Fail("C11/cycle-accepted/"+c.injector, input, "a set with a reference cycle compiled without error")
			case c.kind == "valid" && !cr.Accepted():
				res.Fail("C11/valid-set-rejected", input, cr.Err)
			}
			if cr.Accepted() {
				res.Ev("sets_accepted", 1)
			} else {
				res.Ev("sets_rejected", 1)
			}
			continue
		}
		if cr.Accepted() != first.Accepted() {
			res.Fail("C11/verdict-differs-between-runs/"+c.kind+"/"+c.injector, input,
				fmt.Sprintf("repetition 0: %s (%s); repetition %d with insertion order %v: %s (%s)", first.Verdict(), first.Err, rep, order, cr.Verdict(), cr.Err))
			return res
		}
		if cr.Accepted() && cr.Dump != first.Dump {
			res.Fail("C11/schema-differs-between-runs", input, fmt.Sprintf("repetition %d (insertion order %v): %s", rep, order, firstDiff(first.Dump, cr.Dump)))
			return res
		}
	}
	if idx%61 == 0 {
		res.Sample = map[string]interface{}{"kind": c.kind, "injector": c.injector, "modules": names, "verdict": first.Verdict(), "dump_nodes": func() int {
			if first.DumpRoot != nil {
				return first.DumpRoot.Count()
			}
			return 0
		}()}
	}
	return res
}

func (p *c11) Witness(raw json.RawMessage) []core.Failure {
	var w struct {
		Texts map[string]string `json:"texts"`
		Kind  string            `json:"kind"`
		Class string            `json:"class"`
	}
	json.Unmarshal(raw, &w)
	cr := compileTexts(w.Texts, nil, nil, nil, true)
	if cr.Panic != "" {
		return []core.Failure{{Class: w.Class, Detail: cr.Panic}}
	}
	if w.Kind == "cycle" && cr.Accepted() {
		return []core.Failure{{Class: w.Class, Detail: "cycle accepted"}}
	}
	if w.Kind == "valid" && !cr.Accepted() {
		return []core.Failure{{Class: w.Class, Detail: cr.Err}}
	}
	return nil
}

// Shrink: developer tool.
func (p *c11) Shrink(tier string, seed int64, idx int, match string) string {
	c := c11Gen(seed, idx)
	small := shrinkSet(c.ms, func(ms *yang.ModSet) bool {
		return errContains(ms.Texts(nil), c.ms.Features, match)
	})
	return textsString(small.Texts(nil))
}
