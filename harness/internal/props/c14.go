package props

import (
	"encoding/json"
	"fmt"
	"regexp"
	"sort"
	"strings"

	"verifharness/internal/core"
	"verifharness/internal/dump"
	"verifharness/internal/yang"
)

type dumpNode = dump.DNode

// C14: config, status, if-feature and deviations shape the tree as specified.
//
// Oracles (all by "source edit": the statement under test must have the same
// effect as editing the source accordingly, decided by comparing canonical
// dumps of two real compilations):
//   (A) injected config/status violations must be rejected, their legal
//       counterparts accepted;
//   (B) for every one of the 2^n feature sets: compile(source, F) ==
//       compile(source with every node removed whose if-features are not all
//       transitively enabled, F); and compile(source) == compile(source with
//       the inherited config/status written explicitly on every node);
//   (C) deviate add/replace/delete/not-supported == the edited target source;
//       deviations the RFC forbids are rejected.
type c14 struct{ base }

func init() {
	core.Register(&c14{base: base{
		id: "C14",
		rule: "cases rotate over three families on generated trees (<= ~40 nodes, config false subtrees, status at every level, if-feature on nodes and between features, choices, lists): " +
			"(A) one injected violation (config true under config false; status less restrictive than the parent's; current/deprecated definition referencing a deprecated/obsolete " +
			"typedef, grouping, feature or identity of its own module) or its legal counterpart; (B) ALL 2^n enabled-feature sets (n<=5, random dependency DAG among the features) each compared " +
			"with the compilation of the source from which the absent nodes were deleted, plus the explicit-inheritance rewrite; (C) one deviation (not-supported; add/replace/delete of units, " +
			"default, config, mandatory, min/max-elements, must, unique, type) compared with the edited source, or one forbidden deviation (add of an existing single property, delete/replace of a " +
			"missing one, not-supported combined with another deviate, property not allowed for the deviate kind) that must be rejected; distinct_nontrivial = distinct (module texts, feature set) pairs compiled",
		block: 8,
		assumptions: []string{
			"the reference for presence is the source with the node deleted; the feature closure (a feature is enabled iff it is in the set and all features it depends on are enabled) is computed by the harness",
			"if-feature is not put on list keys, on nodes named by unique or by a choice default, nor on augment targets (deleting them would make the edited source invalid for unrelated reasons)",
			"family (B)/(C) trees use no groupings (C12 covers their expansion); deviation targets have only containers and lists as ancestors",
		},
		minEvents: []string{"compilations", "feature_sets_compared", "violation_cases", "counterpart_cases", "deviation_cases", "forbidden_deviation_cases", "explicit_inheritance_compared"},
	}})
}

func (p *c14) NumCases(tier string, seed int64) int { return tierN(tier, 1080, 72000) }

// ---------------------------------------------------------------- helpers on statement trees

var c14DataKw = map[string]bool{"container": true, "leaf": true, "leaf-list": true, "list": true, "choice": true, "case": true, "anyxml": true}

type c14Node struct {
	s      *yang.Stmt
	parent *yang.Stmt
	path   string // schema path with the module prefix on every step
	plain  bool   // only containers/lists above
}

func c14Collect(m *yang.Stmt) []c14Node {
	pfx := c14ModPrefix(m)
	var out []c14Node
	var walk func(parent *yang.Stmt, path string, plain bool)
	walk = func(parent *yang.Stmt, path string, plain bool) {
		for _, k := range parent.Kids {
			if !c14DataKw[k.Kw] {
				continue
			}
			p := path + "/" + pfx + ":" + k.Arg
			out = append(out, c14Node{s: k, parent: parent, path: p, plain: plain})
			walk(k, p, plain && (k.Kw == "container" || k.Kw == "list"))
		}
	}
	walk(m, "", true)
	return out
}

func c14GenCfg(r *core.Rng, groupings bool) yang.GenCfg {
	cfg := yang.DefaultGenCfg()
	cfg.Modules = r.Range(1, 2)
	cfg.Features = 2
	cfg.Uses, cfg.Refine, cfg.Augment = groupings, false, false
	cfg.Groupings = 0
	if groupings {
		cfg.Groupings = 2
	}
	cfg.NoPrefixedXPath = false
	cfg.MaxDepth = 3
	cfg.MaxKids = 3
	return cfg
}

// c14ModName, c14ModPrefix: the module a module or submodule text belongs to, and the prefix it has there.
func c14ModName(m *yang.Stmt) string {
	if m.Kw == "submodule" {
		return m.Find("belongs-to").Arg
	}
	return m.Arg
}

func c14ModPrefix(m *yang.Stmt) string {
	if m.Kw == "submodule" {
		return m.Find("belongs-to").Find("prefix").Arg
	}
	return m.Find("prefix").Arg
}

var depRe = regexp.MustCompile(`^(?:([^:]+):)?(.+)$`)

// featureClosure: which "<module>:<feature>" are really enabled.
func featureClosure(ms *yang.ModSet, enabled map[string]bool) map[string]bool {
	type fdef struct {
		mod  *yang.Stmt
		deps []string
	}
	defs := map[string]fdef{}
	resolve := func(m *yang.Stmt, ref string) string {
		mm := depRe.FindStringSubmatch(ref)
		pf, name := mm[1], mm[2]
		if pf == "" || pf == c14ModPrefix(m) {
			return c14ModName(m) + ":" + name
		}
		for _, imp := range m.FindAll("import") {
			if imp.Find("prefix").Arg == pf {
				return imp.Arg + ":" + name
			}
		}
		return "?:" + name
	}
	for _, m := range ms.Mods {
		for _, f := range m.FindAll("feature") {
			d := fdef{mod: m}
			for _, iff := range f.FindAll("if-feature") {
				d.deps = append(d.deps, resolve(m, iff.Arg))
			}
			defs[c14ModName(m)+":"+f.Arg] = d
		}
	}
	memo := map[string]int{}
	var on func(f string) bool
	on = func(f string) bool {
		if v, ok := memo[f]; ok {
			return v == 1
		}
		memo[f] = 0
		ok := enabled[f]
		for _, d := range defs[f].deps {
			if !on(d) {
				ok = false
			}
		}
		if ok {
			memo[f] = 1
		}
		return ok
	}
	out := map[string]bool{}
	for f := range defs {
		out[f] = on(f)
	}
	return out
}

// pruneAbsent deletes every data node with a disabled if-feature and takes
// the (enabled) if-features off the nodes that stay.
// keepEmptyCase mimics a known finding: the implicit case of an absent
// shorthand node stays behind as an empty case (used only to classify).
func pruneAbsent(ms *yang.ModSet, on map[string]bool, keepEmptyCase bool) (*yang.ModSet, int) {
	out := ms.Clone()
	removed := 0
	for _, m := range out.Mods {
		pf := c14ModPrefix(m)
		imports := map[string]string{pf: c14ModName(m)}
		for _, imp := range m.FindAll("import") {
			imports[imp.Find("prefix").Arg] = imp.Arg
		}
		enabledRef := func(ref string) bool {
			mm := depRe.FindStringSubmatch(ref)
			mod := c14ModName(m)
			if mm[1] != "" {
				mod = imports[mm[1]]
			}
			return on[mod+":"+mm[2]]
		}
		var walk func(s *yang.Stmt)
		walk = func(s *yang.Stmt) {
			var kids []*yang.Stmt
			for _, k := range s.Kids {
				// (a uses or augment whose if-feature is off introduces nothing: it is deleted whole)
				if c14DataKw[k.Kw] || k.Kw == "uses" || k.Kw == "augment" || k.Kw == "rpc" || k.Kw == "notification" {
					absent := false
					for _, iff := range k.FindAll("if-feature") {
						if !enabledRef(iff.Arg) {
							absent = true
						}
					}
					if absent {
						removed++
						if keepEmptyCase && s.Kw == "choice" && k.Kw != "case" {
							kids = append(kids, &yang.Stmt{Kw: "case", HasArg: true, Arg: k.Arg, Block: true})
						}
						continue
					}
					// (present: the reference says so without any if-feature, or a feature
					// wrongly taken as off would remove the node on both sides)
					for _, iff := range k.FindAll("if-feature") {
						k.Remove(iff)
					}
				}
				walk(k)
				kids = append(kids, k)
			}
			s.Kids = kids
		}
		walk(m)
		// an emptied choice/case/list body is still valid for the compiler? keep as is.
	}
	// statements whose target lies in what a deleted module-level augment would have added have nothing to reach
	norm := func(m *yang.Stmt, path string) string {
		imports := map[string]string{c14ModPrefix(m): c14ModName(m)}
		for _, imp := range m.FindAll("import") {
			imports[imp.Find("prefix").Arg] = imp.Arg
		}
		var steps []string
		for _, st := range strings.Split(strings.Trim(path, "/"), "/") {
			if i := strings.Index(st, ":"); i >= 0 {
				st = imports[st[:i]] + ":" + st[i+1:]
			} else {
				st = c14ModName(m) + ":" + st
			}
			steps = append(steps, st)
		}
		return "/" + strings.Join(steps, "/")
	}
	var gone []string
	for i, m := range ms.Mods {
		for _, a := range m.FindAll("augment") {
			kept := false
			for _, b := range out.Mods[i].FindAll("augment") {
				kept = kept || b.Arg == a.Arg && len(b.Kids) > 0 && len(a.Kids) > 0 && b.Kids[len(b.Kids)-1].Arg == a.Kids[len(a.Kids)-1].Arg
			}
			if !kept {
				for _, k := range a.Kids {
					if c14DataKw[k.Kw] {
						gone = append(gone, norm(m, a.Arg)+"/"+c14ModName(m)+":"+k.Arg)
					}
				}
			}
		}
	}
	if len(gone) > 0 {
		for _, m := range out.Mods {
			var kids []*yang.Stmt
			for _, k := range m.Kids {
				drop := false
				if k.Kw == "augment" || k.Kw == "deviation" {
					t := norm(m, k.Arg)
					for _, g := range gone {
						drop = drop || t == g || strings.HasPrefix(t, g+"/")
					}
				}
				if drop {
					removed++
					continue
				}
				kids = append(kids, k)
			}
			m.Kids = kids
		}
	}
	return out, removed
}

var statusRank = map[string]int{"current": 0, "deprecated": 1, "obsolete": 2}

// explicitInheritance writes the effective config and status on every data node.
func explicitInheritance(ms *yang.ModSet) *yang.ModSet {
	out := ms.Clone()
	for _, m := range out.Mods {
		var walk func(s *yang.Stmt, config bool, status string, inList bool)
		walk = func(s *yang.Stmt, config bool, status string, inList bool) {
			for _, k := range s.Kids {
				if !c14DataKw[k.Kw] {
					continue
				}
				cfgv, st := config, status
				if c := k.Find("config"); c != nil {
					cfgv = c.Arg == "true"
				} else if k.Kw != "case" {
					k.Add(yang.S("config", fmt.Sprint(cfgv)))
				}
				if x := k.Find("status"); x != nil {
					st = x.Arg
				} else {
					k.Add(yang.S("status", st))
				}
				walk(k, cfgv, st, k.Kw == "list")
			}
		}
		walk(m, true, "current", false)
	}
	return out
}

// ---------------------------------------------------------------- families

type c14Case struct {
	family string
	ms     *yang.ModSet
	feats  []string
	// family A
	expect string
	what   string
	// family C
	edited *yang.ModSet
}

func c14Top(m *yang.Stmt) *yang.Stmt {
	for _, k := range m.FindAll("container") {
		if strings.HasPrefix(k.Arg, "top-") {
			return k
		}
	}
	return nil
}

func c14GenA(r *core.Rng, idx int) c14Case {
	ms := yang.GenSchemaSet(r, c14GenCfg(r, false))
	m := ms.Mods[0]
	top := c14Top(m)
	c := c14Case{family: "A", ms: ms, feats: ms.Features}
	leaf := func(n string, extra ...*yang.Stmt) *yang.Stmt {
		return yang.S("leaf", n, append([]*yang.Stmt{yang.S("type", "string")}, extra...)...)
	}
	variant := (idx / 3) % 27
	bad := (idx/3/27)%2 == 0 // (both polarities of every variant: the polarity changes once per cycle over the variants)
	c.expect = "accept"
	if bad {
		c.expect = "reject"
	}
	switch variant {
	case 0: // config true under config false (direct)
		v := "false"
		if bad {
			v = "true"
		}
		top.Add(yang.S("container", "cf", yang.S("config", "false"), leaf("x", yang.S("config", v))))
		c.what = "config " + v + " leaf under a config false container"
	case 1: // config true two levels below config false
		v := yang.S("container", "mid", leaf("x"))
		if bad {
			v.Find("leaf").Add(yang.S("config", "true"))
		}
		top.Add(yang.S("container", "cf", yang.S("config", "false"), v))
		c.what = "config true leaf two levels under config false"
	case 2: // config true in a case of a config false choice
		k := leaf("x")
		if bad {
			k.Add(yang.S("config", "true"))
		}
		top.Add(yang.S("choice", "cfch", yang.S("config", "false"), yang.S("case", "ca", k)))
		c.what = "config true under a config false choice"
	case 3: // config true list under config false
		li := yang.S("list", "cfl", yang.S("key", "k"), leaf("k"))
		if bad {
			li.Add(yang.S("config", "true"))
		}
		top.Add(yang.S("container", "cf", yang.S("config", "false"), li))
		c.what = "config true list under config false"
	case 22, 23: // the rule holds for a grouping's own module also when the grouping is used from another module only
		st := "current"
		if bad {
			st = core.Pick(r, []string{"deprecated", "obsolete"})
		}
		lib := yang.S("module", "st-lib", yang.S("namespace", "urn:verif:st-lib"), yang.S("prefix", "sl"))
		if variant == 22 {
			lib.Add(yang.S("typedef", "old-t", yang.S("type", "string"), yang.S("status", st)),
				yang.S("grouping", "g", yang.S("leaf", "x", yang.S("type", "old-t"))))
			c.what = "leaf of a grouping used from another module whose type is a " + st + " typedef of the grouping's module"
		} else {
			lib.Add(yang.S("feature", "old-f", yang.S("status", st)),
				yang.S("grouping", "g", yang.S("leaf", "x", yang.S("type", "string"), yang.S("if-feature", "old-f"))))
			ms.Features = append(ms.Features, "st-lib:old-f")
			c.feats = ms.Features
			c.what = "leaf of a grouping used from another module with an if-feature on a " + st + " feature of the grouping's module"
		}
		ms.Mods = append(ms.Mods, lib)
		m.Add(yang.S("import", "st-lib", yang.S("prefix", "sl")))
		top.Add(yang.S("container", "st-use", yang.S("uses", "sl:g")))
		yang.SortSections(m)
	case 20: // a refine names its target: a current uses may not refine a deprecated node of a grouping of its module
		st := "current"
		if bad {
			st = core.Pick(r, []string{"deprecated", "obsolete"})
		}
		m.Add(yang.S("grouping", "rfg", yang.S("container", "rc", leaf("x", yang.S("status", st)), leaf("y"))))
		top.Add(yang.S("container", "rfu", yang.S("uses", "rfg", yang.S("refine", "rc/x", yang.S("description", "refined")))))
		yang.SortSections(m)
		c.what = "refine of a " + st + " leaf of a grouping of the same module from a current uses"
	case 21: // ... and so does an augment inside the uses
		st := "current"
		if bad {
			st = core.Pick(r, []string{"deprecated", "obsolete"})
		}
		m.Add(yang.S("grouping", "rfg", yang.S("container", "rc", yang.S("status", st), leaf("y"))))
		top.Add(yang.S("container", "rfu", yang.S("uses", "rfg", yang.S("augment", "rc", leaf("added", yang.S("status", st))))))
		yang.SortSections(m)
		c.what = "augment into a " + st + " container of a grouping of the same module from a current uses"
	case 18: // the key leaf of a config false list is a descendant like any other
		v := "false"
		if bad {
			v = "true"
		}
		top.Add(yang.S("list", "cfkl", yang.S("config", "false"), yang.S("key", "k"), leaf("k", yang.S("config", v)), leaf("x")))
		c.what = "config " + v + " on the key leaf of a config false list"
	case 19: // ... also when the list inherits config false from above
		k := leaf("k")
		if bad {
			k.Add(yang.S("config", "true"))
		}
		top.Add(yang.S("container", "cf", yang.S("config", "false"), yang.S("list", "cfkl", yang.S("key", "k"), k, leaf("x"))))
		c.what = "config true on the key leaf of a list under a config false container"
	case 4: // status weaker than parent
		st := "obsolete"
		if bad {
			st = "current"
		}
		top.Add(yang.S("container", "sp", yang.S("status", "deprecated"), leaf("x", yang.S("status", st))))
		c.what = "status " + st + " under a deprecated container"
	case 5:
		st := "obsolete"
		if bad {
			st = "deprecated"
		}
		top.Add(yang.S("container", "sp", yang.S("status", "obsolete"), yang.S("container", "mid", leaf("x", yang.S("status", st)))))
		c.what = "status " + st + " two levels under an obsolete container"
	case 6: // reference to a more obsolete typedef
		st := "deprecated"
		if bad {
			st = "current"
		}
		m.Add(yang.S("typedef", "old-t", yang.S("type", "string"), yang.S("status", "deprecated")))
		top.Add(leaf("x", yang.S("status", st)))
		top.FindArg("leaf", "x").Find("type").Arg = "old-t"
		c.what = st + " leaf using a deprecated typedef of its own module"
	case 7:
		st := "obsolete"
		if bad {
			st = "deprecated"
		}
		m.Add(yang.S("typedef", "old-t", yang.S("type", "string"), yang.S("status", "obsolete")))
		top.Add(leaf("x", yang.S("status", st)))
		top.FindArg("leaf", "x").Find("type").Arg = "old-t"
		c.what = st + " leaf using an obsolete typedef of its own module"
	case 8: // uses of a more obsolete grouping
		st := "deprecated"
		if bad {
			st = "current"
		}
		m.Add(yang.S("grouping", "old-g", yang.S("status", "deprecated"), leaf("gl")))
		top.Add(yang.S("container", "ug", yang.S("status", st), yang.S("uses", "old-g")))
		c.what = "uses of a deprecated grouping inside a " + st + " container"
	case 9: // if-feature referencing an obsolete feature
		st := "obsolete"
		if bad {
			st = "current"
		}
		m.Add(yang.S("feature", "old-f", yang.S("status", "obsolete")))
		top.Add(leaf("x", yang.S("status", st), yang.S("if-feature", "old-f")))
		ms.Features = append(ms.Features, m.Arg+":old-f")
		c.feats = ms.Features
		c.what = st + " leaf with if-feature on an obsolete feature"
	case 10: // identityref base more obsolete
		st := "deprecated"
		if bad {
			st = "current"
		}
		m.Add(yang.S("identity", "old-i", yang.S("status", "deprecated")))
		top.Add(yang.S("leaf", "x", yang.S("type", "identityref", yang.S("base", "old-i")), yang.S("status", st)))
		c.what = st + " leaf with identityref to a deprecated identity"
	case 11: // typedef referencing a more obsolete typedef
		st := "deprecated"
		if bad {
			st = "current"
		}
		m.Add(yang.S("typedef", "old-t", yang.S("type", "string"), yang.S("status", "deprecated")),
			yang.S("typedef", "new-t", yang.S("type", "old-t"), yang.S("status", st)))
		top.Add(yang.S("leaf", "x", yang.S("type", "new-t"), yang.S("status", "deprecated")))
		c.what = st + " typedef derived from a deprecated typedef"
	case 12: // feature depending on a more obsolete feature
		st := "deprecated"
		if bad {
			st = "current"
		}
		m.Add(yang.S("feature", "old-f", yang.S("status", "deprecated")), yang.S("feature", "new-f", yang.S("status", st), yang.S("if-feature", "old-f")))
		c.what = st + " feature depending on a deprecated feature"
	case 14, 15, 16, 17: // a reference to a deprecated definition two or more levels below the node that carries the status
		st := "deprecated"
		if bad {
			st = "current"
		}
		var ref *yang.Stmt
		switch variant {
		case 14:
			m.Add(yang.S("grouping", "old-g", yang.S("status", "deprecated"), leaf("gl")))
			ref = yang.S("container", "mid", yang.S("uses", "old-g"))
			c.what = "uses of a deprecated grouping two levels inside a " + st + " container"
		case 15:
			m.Add(yang.S("grouping", "old-g", yang.S("status", "deprecated"), leaf("gl")))
			ref = yang.S("list", "mid", yang.S("key", "k"), leaf("k"), yang.S("choice", "ch", yang.S("case", "ca", yang.S("uses", "old-g"))))
			c.what = "uses of a deprecated grouping behind a list and a case inside a " + st + " container"
		case 16:
			m.Add(yang.S("typedef", "old-t", yang.S("type", "string"), yang.S("status", "deprecated")))
			ref = yang.S("container", "mid", yang.S("container", "mid2", yang.S("leaf", "x", yang.S("type", "old-t"))))
			c.what = "leaf using a deprecated typedef three levels inside a " + st + " container"
		default:
			m.Add(yang.S("feature", "old-f", yang.S("status", "deprecated")))
			ref = yang.S("container", "mid", leaf("x", yang.S("if-feature", "old-f")))
			c.what = "leaf with if-feature on a deprecated feature two levels inside a " + st + " container"
			ms.Features = append(ms.Features, m.Arg+":old-f")
			c.feats = ms.Features
		}
		sp := yang.S("container", "sp", ref)
		if st != "current" || variant%2 == 0 {
			sp.Add(yang.S("status", st))
		}
		top.Add(sp)
	case 24, 25, 26: // feature statements written in a submodule are checked like those of the module
		sub := yang.S("submodule", m.Arg+"-sf", yang.S("belongs-to", m.Arg, yang.S("prefix", m.Find("prefix").Arg)))
		switch variant {
		case 24:
			sb := yang.S("feature", "sb")
			if bad {
				sb.Add(yang.S("if-feature", "sa"))
			}
			sub.Add(yang.S("feature", "sa", yang.S("if-feature", "sb")), sb)
			c.what = "features of a submodule that depend on each other in a cycle"
			if !bad {
				c.what = "features of a submodule that depend on each other in a chain"
			}
		case 25:
			dep := "sb"
			if bad {
				dep = "nope"
			}
			sub.Add(yang.S("feature", "sa", yang.S("if-feature", dep)), yang.S("feature", "sb"))
			c.what = "feature of a submodule with an if-feature on the feature " + dep + " (sa and sb are defined)"
		default:
			name := "other-f"
			if bad {
				name = "dup-f"
			}
			m.Add(yang.S("feature", "dup-f"))
			sub.Add(yang.S("feature", name))
			c.what = "module with feature dup-f and a submodule with feature " + name
		}
		m.Add(yang.S("include", sub.Arg))
		ms.Mods = append(ms.Mods, sub)
	default: // identity based on a more obsolete identity
		st := "obsolete"
		if bad {
			st = "current"
		}
		m.Add(yang.S("identity", "old-i", yang.S("status", "obsolete")), yang.S("identity", "new-i", yang.S("status", st), yang.S("base", "old-i")))
		c.what = st + " identity based on an obsolete identity"
	}
	yang.SortSections(m)
	return c
}

func c14GenB(r *core.Rng) c14Case {
	// in half of the cases with groupings: if-feature on uses statements (also of another module's
	// grouping, whose nodes carry if-features of that module: the features of two modules have the same names)
	withGroupings := r.Bool()
	cfg := c14GenCfg(r, withGroupings)
	cfg.Features = r.Range(1, 2)
	if cfg.Modules == 1 {
		cfg.Features = r.Range(2, 5)
	}
	if withGroupings {
		cfg.UsesExtras = true
		cfg.Modules = 2
	}
	ms := yang.GenSchemaSet(r, cfg)
	if withGroupings {
		// (refine / augment inside a uses name nodes that the reference deletes: only if-feature, when and status stay;
		// inside grouping bodies, as below for the data tree: no if-feature on unique targets and default cases)
		for _, m := range ms.Mods {
			m.Walk(func(s *yang.Stmt, _ int) {
				strip := func(t *yang.Stmt) {
					if t == nil {
						return
					}
					for _, iff := range t.FindAll("if-feature") {
						t.Remove(iff)
					}
				}
				if s.Kw == "list" {
					for _, u := range s.FindAll("unique") {
						for _, w := range strings.Fields(u.Arg) {
							strip(s.FindArg("leaf", strings.Split(w, "/")[0]))
							strip(s.FindArg("container", strings.Split(w, "/")[0]))
						}
					}
					if k := s.Find("key"); k != nil {
						strip(s.FindArg("leaf", k.Arg))
					}
				}
				if d := s.Find("default"); s.Kw == "choice" && d != nil {
					for _, k := range s.Kids {
						if k.Arg == d.Arg && k.Kw != "default" {
							strip(k)
						}
					}
				}
			}, 0)
			m.Walk(func(s *yang.Stmt, _ int) {
				if s.Kw == "uses" {
					var keep []*yang.Stmt
					for _, k := range s.Kids {
						if k.Kw != "refine" && k.Kw != "augment" {
							keep = append(keep, k)
						}
					}
					s.Kids = keep
				}
			}, 0)
		}
	}
	if withGroupings && len(ms.Mods) >= 2 {
		// the same if-feature text on a uses and on a node of the grouping it names, written in two
		// modules that each have a feature of that name: two different features
		a, b := ms.Mods[0], ms.Mods[1]
		var ipa string
		for _, imp := range b.FindAll("import") {
			if imp.Arg == a.Arg {
				ipa = imp.Find("prefix").Arg
			}
		}
		if ipa != "" && a.FindArg("feature", "f0") != nil && b.FindArg("feature", "f0") != nil {
			a.Add(yang.S("grouping", "hom-g", yang.S("leaf", "hom-guarded", yang.S("type", "string"), yang.S("if-feature", "f0")), yang.S("leaf", "hom-plain", yang.S("type", "string"))))
			b.Add(yang.S("container", "hom-use", yang.S("uses", ipa+":hom-g", yang.S("if-feature", "f0"))))
			yang.SortSections(a)
			yang.SortSections(b)
		}
	}
	// an augment inside a uses that carries an if-feature (or a status) and holds a uses of its own: everything it
	// introduces, also through that uses, is there iff the feature is on
	if m0 := ms.Mods[0]; withGroupings && m0.FindArg("feature", "f0") != nil {
		str := func(n string) *yang.Stmt { return yang.S("leaf", n, yang.S("type", "string")) }
		m0.Add(yang.S("grouping", "ag-g", yang.S("container", "ag-top", str("base"))),
			yang.S("grouping", "ag-h", str("from-grouping"), yang.S("container", "box", str("in-box"))),
			yang.S("container", "ag-use", yang.S("uses", "ag-g", yang.S("augment", "ag-top", yang.S("if-feature", "f0"), str("direct"), yang.S("uses", "ag-h")))),
			yang.S("container", "ag-use2", yang.S("status", "deprecated"), yang.S("uses", "ag-g", yang.S("augment", "ag-top", yang.S("status", "deprecated"), str("direct2"), yang.S("uses", "ag-h")))))
		yang.SortSections(m0)
	}
	// an rpc and a notification that depend on a feature
	if m0 := ms.Mods[0]; m0.FindArg("feature", "f0") != nil {
		m0.Add(yang.S("rpc", "feat-rpc", yang.S("if-feature", "f0"), c14Input(yang.S("leaf", "x", yang.S("type", "string")))),
			yang.S("notification", "feat-notif", yang.S("if-feature", "f0"), yang.S("leaf", "y", yang.S("type", "string"))))
		yang.SortSections(m0)
	}
	// features defined in a submodule: they are features of the module (RFC 6020 sec. 6.2.1: one feature
	// namespace for a module and its submodules), referenced from the submodule, the module and an importing module
	if m0 := ms.Mods[0]; m0.Kw == "module" && m0.Find("include") == nil && r.Chance(1, 3) {
		pf := m0.Find("prefix").Arg
		sub := yang.S("submodule", m0.Arg+"-feat", yang.S("belongs-to", m0.Arg, yang.S("prefix", pf)),
			yang.S("feature", "sf0"),
			yang.S("feature", "sf1", yang.S("if-feature", "sf0")),
			yang.S("container", "sub-feat",
				yang.S("leaf", "in-sub-plain", yang.S("type", "string")),
				yang.S("leaf", "in-sub-sf0", yang.S("type", "string"), yang.S("if-feature", "sf0")),
				yang.S("leaf", "in-sub-sf1", yang.S("type", "string"), yang.S("if-feature", pf+":sf1"))))
		m0.Add(yang.S("include", sub.Arg))
		m0.Add(yang.S("container", "sub-feat-user",
			yang.S("leaf", "in-mod-plain", yang.S("type", "string")),
			yang.S("leaf", "in-mod-sf0", yang.S("type", "string"), yang.S("if-feature", "sf0")),
			yang.S("leaf", "in-mod-sf1", yang.S("type", "string"), yang.S("if-feature", "sf1"))))
		yang.SortSections(m0)
		if len(ms.Mods) >= 2 {
			b := ms.Mods[1]
			for _, imp := range b.FindAll("import") {
				if imp.Arg == m0.Arg {
					b.Add(yang.S("container", "sub-feat-importer", yang.S("leaf", "in-imp-plain", yang.S("type", "string")),
						yang.S("leaf", "in-imp-sf1", yang.S("type", "string"), yang.S("if-feature", imp.Find("prefix").Arg+":sf1"))))
					yang.SortSections(b)
					break
				}
			}
		}
		ms.Mods = append(ms.Mods, sub)
		ms.Features = append([]string{m0.Arg + ":sf0", m0.Arg + ":sf1"}, ms.Features...)
	}
	// a feature name with a period in it (a legal identifier), in every second set
	if r.Bool() {
		for _, m := range ms.Mods {
			m.Walk(func(st *yang.Stmt, _ int) {
				switch {
				case st.Kw == "feature" && st.Arg == "f1":
					st.Arg = "f1.v2"
				case st.Kw == "if-feature" && (st.Arg == "f1" || strings.HasSuffix(st.Arg, ":f1")):
					st.Arg += ".v2"
				}
			}, 0)
		}
		for i, f := range ms.Features {
			if strings.HasSuffix(f, ":f1") {
				ms.Features[i] = f + ".v2"
			}
		}
	}
	// a denser feature dependency DAG (only on earlier features)
	var all []*yang.Stmt
	for _, m := range ms.Mods {
		all = append(all, m.FindAll("feature")...)
	}
	m0 := ms.Mods[0]
	fs := m0.FindAll("feature")
	for i := 1; i < len(fs); i++ {
		for j := 0; j < i; j++ {
			if r.Chance(1, 3) && fs[i].FindArg("if-feature", fs[j].Arg) == nil {
				fs[i].Add(yang.S("if-feature", fs[j].Arg))
			}
		}
	}
	// sprinkle more if-features on data nodes (not on keys / unique / default targets)
	for _, m := range ms.Mods {
		for _, n := range c14Collect(m) {
			protected := n.s.Arg == "name" || n.s.Arg == "flag"
			if n.parent.Kw == "list" {
				for _, u := range n.parent.FindAll("unique") {
					if strings.Contains(" "+u.Arg+" ", " "+n.s.Arg+" ") {
						protected = true
					}
				}
			}
			if n.parent.Kw == "choice" {
				if d := n.parent.Find("default"); d != nil && d.Arg == n.s.Arg {
					protected = true
				}
			}
			if d := n.s.Find("default"); n.s.Kw == "choice" && d != nil {
				// keep the if-features of the default case's content untouched: remove instead
			}
			if protected {
				for _, iff := range n.s.FindAll("if-feature") {
					n.s.Remove(iff)
				}
				continue
			}
			if r.Chance(1, 4) && len(m.FindAll("feature")) > 0 {
				f := core.Pick(r, m.FindAll("feature")).Arg
				if n.s.FindArg("if-feature", f) == nil {
					n.s.Add(yang.S("if-feature", f))
				}
			}
		}
	}
	if r.Chance(1, 3) {
		// a module-level augment under an if-feature, and statements that go to, or through, a node only it adds: with
		// the feature off there is nothing for them to reach, and nothing wrong with that
		m := ms.Mods[0]
		if fs := m.FindAll("feature"); len(fs) > 0 && m.Kw == "module" {
			pf, top := c14ModPrefix(m), c14Top(m).Arg
			f := core.Pick(r, fs).Arg
			str := func(n string) *yang.Stmt { return yang.S("leaf", n, yang.S("type", "string")) }
			for _, iff := range c14Top(m).FindAll("if-feature") {
				c14Top(m).Remove(iff) // (the target of the first augment is there whatever the features)
			}
			m.Add(yang.S("augment", "/"+pf+":"+top, yang.S("if-feature", f), yang.S("container", "aug-box", str("in-box"), yang.S("container", "aug-inner", str("deep")))),
				yang.S("augment", "/"+pf+":"+top+"/"+pf+":aug-box", str("more")),
				yang.S("augment", "/"+pf+":"+top+"/"+pf+":aug-box/"+pf+":aug-inner", str("deeper")))
			yang.SortSections(m)
		}
	}
	return c14Case{family: "B", ms: ms}
}

func c14GenC(r *core.Rng, idx int) c14Case {
	cfg := c14GenCfg(r, false)
	cfg.Modules = 1
	cfg.Features = 0
	cfg.MustWhen = false
	ms := yang.GenSchemaSet(r, cfg)
	m := ms.Mods[0]
	pf := m.Find("prefix").Arg
	top := c14Top(m)
	// fixed, well-known targets
	top.Add(
		yang.S("leaf", "dv-leaf", yang.S("type", "int32"), yang.S("units", "ms"), yang.S("default", "5"), yang.S("must", "1 = 1"),
			yang.S("must", "3 = 3", yang.S("error-message", "third is third")), yang.S("must", "4 = 4")),
		yang.S("leaf", "dv-bare", yang.S("type", "string")),
		yang.S("leaf-list", "dv-ll", yang.S("type", "string"), yang.S("min-elements", "1"), yang.S("max-elements", "4")),
		yang.S("list", "dv-list", yang.S("key", "k"), yang.S("leaf", "k", yang.S("type", "string")), yang.S("leaf", "a", yang.S("type", "string")),
			yang.S("leaf", "b", yang.S("type", "string")), yang.S("leaf", "c", yang.S("type", "string")), yang.S("unique", "a"), yang.S("unique", "b"), yang.S("unique", "b c")),
		yang.S("container", "dv-cont", yang.S("leaf", "inner", yang.S("type", "string"), yang.S("mandatory", "true"))),
	)
	m.Add(yang.S("rpc", "dv-rpc", c14Input(yang.S("leaf", "x", yang.S("type", "string")))),
		yang.S("notification", "dv-notif", yang.S("leaf", "y", yang.S("type", "string")), yang.S("leaf", "y2", yang.S("type", "string"))))
	base := "/" + pf + ":" + top.Arg + "/" + pf + ":"
	type dev struct {
		target  string
		kind    string
		props   []*yang.Stmt
		edit    func(t *yang.Stmt, parent *yang.Stmt)
		forbid  bool
		what    string
		extraDv *yang.Stmt // a second deviate in the same deviation
		abs     bool       // the target is a top-level statement of the module (rpc, notification), not a child of the top container
	}
	repl := func(t *yang.Stmt, st *yang.Stmt) {
		for i, k := range t.Kids {
			if k.Kw == st.Kw {
				t.Kids[i] = st.Clone()
				return
			}
		}
	}
	del := func(t *yang.Stmt, kw, arg string) {
		if x := t.FindArg(kw, arg); x != nil {
			t.Remove(x)
		}
	}
	devs := []dev{
		{target: "dv-leaf", kind: "not-supported", what: "not-supported leaf", edit: func(t, p *yang.Stmt) { p.Remove(t) }},
		{target: "dv-cont", kind: "not-supported", what: "not-supported container", edit: func(t, p *yang.Stmt) { p.Remove(t) }},
		{target: "dv-list", kind: "not-supported", what: "not-supported list", edit: func(t, p *yang.Stmt) { p.Remove(t) }},
		{target: "dv-bare", kind: "add", props: []*yang.Stmt{yang.S("units", "kg")}, what: "add units", edit: func(t, p *yang.Stmt) { t.Add(yang.S("units", "kg")) }},
		{target: "dv-bare", kind: "add", props: []*yang.Stmt{yang.S("default", "dflt")}, what: "add default", edit: func(t, p *yang.Stmt) { t.Add(yang.S("default", "dflt")) }},
		{target: "dv-bare", kind: "add", props: []*yang.Stmt{yang.S("config", "false")}, what: "add config false", edit: func(t, p *yang.Stmt) { t.Add(yang.S("config", "false")) }},
		{target: "dv-bare", kind: "add", props: []*yang.Stmt{yang.S("mandatory", "true")}, what: "add mandatory", edit: func(t, p *yang.Stmt) { t.Add(yang.S("mandatory", "true")) }},
		{target: "dv-leaf", kind: "add", props: []*yang.Stmt{yang.S("must", "2 = 2", yang.S("error-message", "added"))}, what: "add a second must",
			edit: func(t, p *yang.Stmt) { t.Add(yang.S("must", "2 = 2", yang.S("error-message", "added"))) }},
		{target: "dv-list", kind: "add", props: []*yang.Stmt{yang.S("unique", "b")}, what: "add a second unique", edit: func(t, p *yang.Stmt) { t.Add(yang.S("unique", "b")) }},
		{target: "dv-list", kind: "add", props: []*yang.Stmt{yang.S("max-elements", "9"), yang.S("min-elements", "1")}, what: "add min/max-elements",
			edit: func(t, p *yang.Stmt) { t.Add(yang.S("max-elements", "9"), yang.S("min-elements", "1")) }},
		{target: "dv-leaf", kind: "replace", props: []*yang.Stmt{yang.S("units", "s")}, what: "replace units", edit: func(t, p *yang.Stmt) { repl(t, yang.S("units", "s")) }},
		{target: "dv-leaf", kind: "replace", props: []*yang.Stmt{yang.S("default", "7")}, what: "replace default", edit: func(t, p *yang.Stmt) { repl(t, yang.S("default", "7")) }},
		{target: "dv-leaf", kind: "replace", props: []*yang.Stmt{yang.S("type", "uint8", yang.S("range", "0..9"))}, what: "replace type",
			edit: func(t, p *yang.Stmt) { repl(t, yang.S("type", "uint8", yang.S("range", "0..9"))) }},
		{target: "dv-ll", kind: "replace", props: []*yang.Stmt{yang.S("max-elements", "2"), yang.S("min-elements", "0")}, what: "replace min/max-elements",
			edit: func(t, p *yang.Stmt) { repl(t, yang.S("max-elements", "2")); repl(t, yang.S("min-elements", "0")) }},
		{target: "dv-cont/" + pf + ":inner", kind: "replace", props: []*yang.Stmt{yang.S("mandatory", "false")}, what: "replace mandatory",
			edit: func(t, p *yang.Stmt) { repl(t.Find("leaf"), yang.S("mandatory", "false")) }},
		{target: "dv-leaf", kind: "delete", props: []*yang.Stmt{yang.S("units", "ms")}, what: "delete units", edit: func(t, p *yang.Stmt) { del(t, "units", "ms") }},
		{target: "dv-leaf", kind: "delete", props: []*yang.Stmt{yang.S("default", "5")}, what: "delete default", edit: func(t, p *yang.Stmt) { del(t, "default", "5") }},
		{target: "dv-leaf", kind: "delete", props: []*yang.Stmt{yang.S("must", "1 = 1")}, what: "delete must", edit: func(t, p *yang.Stmt) { del(t, "must", "1 = 1") }},
		{target: "dv-list", kind: "delete", props: []*yang.Stmt{yang.S("unique", "a")}, what: "delete unique", edit: func(t, p *yang.Stmt) { del(t, "unique", "a") }},
		// the statement named is the one that goes, wherever it stands among its like
		{target: "dv-leaf", kind: "delete", props: []*yang.Stmt{yang.S("must", "3 = 3")}, what: "delete the second of three musts", edit: func(t, p *yang.Stmt) { del(t, "must", "3 = 3") }},
		{target: "dv-leaf", kind: "delete", props: []*yang.Stmt{yang.S("must", "4 = 4")}, what: "delete the last of three musts", edit: func(t, p *yang.Stmt) { del(t, "must", "4 = 4") }},
		{target: "dv-leaf", kind: "delete", props: []*yang.Stmt{yang.S("must", "4 = 4"), yang.S("must", "1 = 1")}, what: "delete the last and the first of three musts",
			edit: func(t, p *yang.Stmt) { del(t, "must", "4 = 4"); del(t, "must", "1 = 1") }},
		{target: "dv-list", kind: "delete", props: []*yang.Stmt{yang.S("unique", "b")}, what: "delete the second of three uniques", edit: func(t, p *yang.Stmt) { del(t, "unique", "b") }},
		{target: "dv-list", kind: "delete", props: []*yang.Stmt{yang.S("unique", "b c")}, what: "delete the last of three uniques", edit: func(t, p *yang.Stmt) { del(t, "unique", "b c") }},
		// rpcs and notifications, and nodes inside them, are targets like any other
		{target: "dv-rpc", abs: true, kind: "not-supported", what: "not-supported rpc", edit: func(t, p *yang.Stmt) { p.Remove(t) }},
		{target: "dv-notif", abs: true, kind: "not-supported", what: "not-supported notification", edit: func(t, p *yang.Stmt) { p.Remove(t) }},
		{target: "dv-notif/" + pf + ":y", abs: true, kind: "not-supported", what: "not-supported leaf of a notification", edit: func(t, p *yang.Stmt) { t.Remove(t.FindArg("leaf", "y")) }},
		{target: "dv-notif/" + pf + ":y2", abs: true, kind: "replace", props: []*yang.Stmt{yang.S("type", "uint8")}, what: "replace type of a leaf of a notification",
			edit: func(t, p *yang.Stmt) { repl(t.FindArg("leaf", "y2"), yang.S("type", "uint8")) }},
		{target: "dv-rpc/" + pf + ":input/" + pf + ":x", abs: true, kind: "add", props: []*yang.Stmt{yang.S("default", "dflt")}, what: "add default to an rpc input leaf",
			edit: func(t, p *yang.Stmt) { t.Find("input").FindArg("leaf", "x").Add(yang.S("default", "dflt")) }},
		// forbidden
		{target: "dv-leaf", kind: "add", props: []*yang.Stmt{yang.S("units", "kg")}, forbid: true, what: "add units although the leaf has units"},
		{target: "dv-leaf", kind: "add", props: []*yang.Stmt{yang.S("default", "9")}, forbid: true, what: "add default although the leaf has one"},
		{target: "dv-ll", kind: "add", props: []*yang.Stmt{yang.S("max-elements", "9")}, forbid: true, what: "add max-elements although present"},
		{target: "dv-bare", kind: "delete", props: []*yang.Stmt{yang.S("units", "ms")}, forbid: true, what: "delete units that are not there"},
		{target: "dv-leaf", kind: "delete", props: []*yang.Stmt{yang.S("units", "other")}, forbid: true, what: "delete units with a different argument"},
		{target: "dv-leaf", kind: "delete", props: []*yang.Stmt{yang.S("must", "9 = 9")}, forbid: true, what: "delete a must that is not there"},
		{target: "dv-bare", kind: "replace", props: []*yang.Stmt{yang.S("units", "s")}, forbid: true, what: "replace units that are not there"},
		{target: "dv-bare", kind: "replace", props: []*yang.Stmt{yang.S("default", "s")}, forbid: true, what: "replace a default that is not there"},
		{target: "dv-leaf", kind: "delete", props: []*yang.Stmt{yang.S("config", "true")}, forbid: true, what: "delete config (not deletable)"},
		{target: "dv-leaf", kind: "delete", props: []*yang.Stmt{yang.S("type", "int32")}, forbid: true, what: "delete type (not deletable)"},
		{target: "dv-leaf", kind: "add", props: []*yang.Stmt{yang.S("type", "string")}, forbid: true, what: "add type (not addable)"},
		{target: "dv-leaf", kind: "replace", props: []*yang.Stmt{yang.S("must", "3 = 3")}, forbid: true, what: "replace must (not replaceable)"},
		{target: "dv-leaf", kind: "not-supported", props: []*yang.Stmt{yang.S("units", "x")}, forbid: true, what: "not-supported with a substatement"},
		{target: "dv-leaf", kind: "not-supported", forbid: true, what: "not-supported combined with deviate add", extraDv: yang.S("deviate", "add", yang.S("must", "4 = 4"))},
		{target: "dv-cont", kind: "add", props: []*yang.Stmt{yang.S("default", "x")}, forbid: true, what: "add default to a container"},
		{target: "dv-bare", kind: "add", props: []*yang.Stmt{yang.S("min-elements", "1")}, forbid: true, what: "add min-elements to a leaf"},
	}
	devs = append(devs, dev{target: "dv-bare", kind: "add", props: []*yang.Stmt{yang.S("units", "u2"), yang.S("default", "dd"), yang.S("must", "5 = 5")}, what: "add units, default and a must",
		edit: func(t, p *yang.Stmt) { t.Add(yang.S("units", "u2"), yang.S("default", "dd"), yang.S("must", "5 = 5")) }})
	d := devs[(idx/3)%len(devs)]
	dv := yang.S("deviate", d.kind)
	for _, pr := range d.props {
		dv.Add(pr.Clone())
	}
	var dv2 *yang.Stmt
	if len(d.props) >= 2 && d.extraDv == nil && r.Bool() {
		// the same properties in two deviate statements of the same kind within the one deviation
		dv = yang.S("deviate", d.kind, d.props[0].Clone())
		dv2 = yang.S("deviate", d.kind)
		for _, pr := range d.props[1:] {
			dv2.Add(pr.Clone())
		}
	}
	dpath := base + d.target
	if d.abs {
		dpath = "/" + pf + ":" + d.target
	}
	deviation := yang.S("deviation", dpath, dv)
	if dv2 != nil {
		deviation.Add(dv2)
	}
	if d.extraDv != nil {
		deviation.Add(d.extraDv)
	}
	c := c14Case{family: "C", what: d.what}
	if !d.forbid {
		edited := ms.Clone()
		et := c14Top(edited.Mods[0])
		tname := d.target
		if i := strings.Index(tname, "/"); i >= 0 {
			tname = tname[:i]
		}
		var t *yang.Stmt
		if d.abs {
			et = edited.Mods[0]
		}
		for _, k := range et.Kids {
			if k.Arg == tname && (c14DataKw[k.Kw] || k.Kw == "rpc" || k.Kw == "notification") {
				t = k
			}
		}
		d.edit(t, et)
		c.edited = edited
		c.expect = "accept"
	} else {
		c.expect = "reject"
	}
	// the deviation lives in the same module, in a submodule of it, or in a module of its own
	switch where := r.Intn(3); {
	case where == 0:
		m.Add(deviation)
		yang.SortSections(m)
	case where == 1:
		mkSub := func(withDev bool) *yang.Stmt {
			sub := yang.S("submodule", "dev-sub", yang.S("belongs-to", m.Arg, yang.S("prefix", pf)))
			if withDev {
				sub.Add(deviation)
			} else {
				sub.Add(yang.S("description", "nothing here"))
			}
			return sub
		}
		m.Add(yang.S("include", "dev-sub"))
		yang.SortSections(m)
		ms.Mods = append(ms.Mods, mkSub(true))
		if c.edited != nil {
			em := c.edited.Mods[0]
			em.Add(yang.S("include", "dev-sub"))
			yang.SortSections(em)
			c.edited.Mods = append(c.edited.Mods, mkSub(false))
		}
	default:
		dm := yang.S("module", "dev-mod", yang.S("namespace", "urn:verif:dev-mod"), yang.S("prefix", "dvm"), yang.S("import", m.Arg, yang.S("prefix", pf)), deviation)
		ms.Mods = append(ms.Mods, dm)
		if c.edited != nil {
			c.edited.Mods = append(c.edited.Mods, yang.S("module", "dev-mod", yang.S("namespace", "urn:verif:dev-mod"), yang.S("prefix", "dvm"), yang.S("import", m.Arg, yang.S("prefix", pf))))
		}
	}
	c.ms = ms
	return c
}

func c14Input(kids ...*yang.Stmt) *yang.Stmt {
	in := yang.S0("input")
	in.Block = true
	in.Add(kids...)
	return in
}

func c14Gen(seed int64, idx int) c14Case {
	r := core.CaseRng(seed, "C14", idx)
	switch idx % 3 {
	case 0:
		return c14GenA(r, idx)
	case 1:
		return c14GenB(r)
	default:
		return c14GenC(r, idx)
	}
}

func (p *c14) Describe(tier string, seed int64, idx int) string {
	c := c14Gen(seed, idx)
	return fmt.Sprintf("family=%s what=%s expect=%s\n%s", c.family, c.what, c.expect, textsString(c.ms.Texts(nil)))
}

var deviationsAttrRe = regexp.MustCompile(`^deviations=`)

func normDeviations(cr compileResult) string {
	if cr.DumpRoot == nil {
		return ""
	}
	return cr.DumpRoot.StringWith(func(n *dumpNode, a string) string {
		if deviationsAttrRe.MatchString(a) {
			return "deviations=*"
		}
		// the namespace context of a must added by a deviation of another module is not asserted
		if strings.HasPrefix(a, "must ") {
			if i := strings.LastIndex(a, " ns="); i > 0 {
				return a[:i]
			}
		}
		return a
	})
}

func (p *c14) Run(tier string, seed int64, idx int) core.CaseResult {
	var res core.CaseResult
	c := c14Gen(seed, idx)
	texts := c.ms.Texts(nil)
	input := fmt.Sprintf("family=%s what=%s expect=%s\n%s", c.family, c.what, c.expect, textsString(texts))
	fail := func(cls, detail string) { res.Fail(cls, input, detail) }
	check := func(cr compileResult, what string) bool {
		res.Ev("compilations", 1)
		if cr.Panic != "" {
			fail("C14/panic/"+core.TopRepoFrame(cr.Stack), what+": "+cr.Panic)
			return false
		}
		if cr.ParseErr != "" {
			res.Fail("harness-panic", input, what+": generated text does not parse: "+cr.ParseErr)
			return false
		}
		return true
	}
	switch c.family {
	case "A":
		cr := compileTexts(texts, nil, c.feats, nil, false)
		res.Key(input)
		if !check(cr, "compile") {
			return res
		}
		if c.expect == "reject" {
			res.Ev("violation_cases", 1)
			if cr.Accepted() {
				fail("C14/violation-accepted/"+sanitizeClass(c.what), "compiled although: "+c.what)
			}
		} else {
			res.Ev("counterpart_cases", 1)
			if !cr.Accepted() {
				fail("C14/legal-counterpart-rejected/"+sanitizeClass(c.what), cr.Err)
			}
		}
	case "B":
		feats := c.ms.Features
		n := len(feats)
		if n > 5 {
			feats = feats[:5]
			n = 5
		}
		// explicit inheritance rewrite (all features on)
		full := compileTexts(texts, nil, c.ms.Features, nil, true)
		if !check(full, "compile(all features)") {
			return res
		}
		if !full.Accepted() {
			fail("C14/valid-set-rejected", full.Err)
			return res
		}
		// with every feature on, every data node written in the source is in the schema (sets without uses and
		// augment: there a node of the source is a node of the schema, by kind and name)
		{
			plain := true
			want := map[string]int{}
			for _, m := range c.ms.Mods {
				m.Walk(func(st *yang.Stmt, _ int) {
					if st.Kw == "uses" || st.Kw == "augment" || st.Kw == "grouping" || st.Kw == "deviation" {
						plain = false
					}
				}, 0)
				for _, n := range c14Collect(m) {
					switch n.s.Kw {
					case "leaf", "leaf-list", "container", "list":
						want[n.s.Kw+" "+n.s.Arg]++
					}
				}
			}
			if plain {
				got := map[string]int{}
				full.DumpRoot.Walk(func(n *dump.DNode, path []string) {
					for _, p := range path {
						if strings.HasPrefix(p, "merged-top") || strings.HasPrefix(p, "rpc") || strings.HasPrefix(p, "notification") {
							return
						}
					}
					switch n.Kind {
					case "leaf", "leaf-list", "container", "list":
						got[n.Kind+" "+n.Name]++
					}
				})
				res.Ev("sets_with_every_source_node_looked_up", 1)
				var missing []string
				for k, w := range want {
					if got[k] < w {
						missing = append(missing, k)
					}
				}
				sort.Strings(missing)
				if len(missing) > 0 {
					fail("C14/node-absent-without-a-reason", fmt.Sprintf("all features are on and nothing is deviated, yet the schema lacks: %v", missing))
				}
			}
		}
		ex := compileTexts(explicitInheritance(c.ms).Texts(nil), nil, c.ms.Features, nil, true)
		if check(ex, "compile(explicit inheritance)") {
			res.Ev("explicit_inheritance_compared", 1)
			if !ex.Accepted() {
				fail("C14/explicit-inheritance-rejected", "writing the inherited config/status explicitly makes the module invalid: "+ex.Err)
			} else if ex.Dump != full.Dump {
				fail("C14/inheritance-differs-from-explicit-statement", firstDiff(ex.Dump, full.Dump)+"\n(- explicit, + inherited)")
			}
		}
		for mask := 0; mask < 1<<uint(n); mask++ {
			enabled := map[string]bool{}
			var fl []string
			for i, f := range feats {
				if mask&(1<<uint(i)) != 0 {
					enabled[f] = true
					fl = append(fl, f)
				}
			}
			if fl == nil {
				fl = []string{}
			}
			on := featureClosure(c.ms, enabled)
			pruned, removed := pruneAbsent(c.ms, on, false)
			compileFeatureForm, compileAllFeatures = mask%5, c.ms.Features
			a := compileTexts(texts, nil, fl, nil, true)
			compileFeatureForm, compileAllFeatures = 0, nil
			b := compileTexts(pruned.Texts(nil), nil, fl, nil, true)
			res.Key(fmt.Sprintf("%v|%s", fl, input))
			if !check(a, "compile(F)") || !check(b, "compile(pruned source, F)") {
				return res
			}
			res.Ev("feature_sets_compared", 1)
			res.Ev("nodes_absent_by_feature", int64(removed))
			where := fmt.Sprintf("enabled features %v (closure %v), %d nodes deleted in the reference source", fl, sortedTrue(on), removed)
			switch {
			case a.Accepted() != b.Accepted():
				fail("C14/feature-set-verdict-differs", where+fmt.Sprintf(": with if-feature: %s %s; source with absent nodes deleted: %s %s", a.Verdict(), a.Err, b.Verdict(), b.Err))
				return res
			case a.Accepted() && a.Dump != b.Dump:
				cls := "C14/presence-differs-from-deleted-source"
				// fully explained by the empty implicit case of an absent shorthand node?
				p2, _ := pruneAbsent(c.ms, on, true)
				if b2 := compileTexts(p2.Texts(nil), nil, fl, nil, true); b2.Accepted() && b2.Dump == a.Dump {
					cls = "C14/presence/empty-implicit-case-of-absent-shorthand-node-remains"
				}
				fail(cls, where+"\n"+firstDiff(b.Dump, a.Dump)+"\n(- deleted source, + if-feature)")
				return res
			}
		}
	case "C":
		cr := compileTexts(texts, nil, nil, nil, true)
		res.Key(input)
		if !check(cr, "compile") {
			return res
		}
		if c.expect == "reject" {
			res.Ev("forbidden_deviation_cases", 1)
			if cr.Accepted() {
				fail("C14/forbidden-deviation-accepted/"+sanitizeClass(c.what), "compiled although the deviation is not allowed: "+c.what)
			}
			return res
		}
		res.Ev("deviation_cases", 1)
		if !cr.Accepted() {
			fail("C14/legal-deviation-rejected/"+sanitizeClass(c.what), cr.Err)
			return res
		}
		er := compileTexts(c.edited.Texts(nil), nil, nil, nil, true)
		if !check(er, "compile(edited source)") {
			return res
		}
		if !er.Accepted() {
			res.Fail("harness-panic", input, "edited source rejected: "+er.Err)
			return res
		}
		if normDeviations(cr) != normDeviations(er) {
			fail("C14/deviation-differs-from-edited-source/"+sanitizeClass(c.what), firstDiff(normDeviations(er), normDeviations(cr))+"\n(- edited source, + deviation)")
		}
	}
	if idx%37 == 0 {
		res.Sample = map[string]interface{}{"family": c.family, "what": c.what, "expect": c.expect, "modules": len(c.ms.Mods), "features": c.ms.Features}
	}
	return res
}

func sortedTrue(m map[string]bool) []string {
	var out []string
	for k, v := range m {
		if v {
			out = append(out, k)
		}
	}
	sort.Strings(out)
	return out
}

func sanitizeClass(s string) string {
	s = strings.ToLower(s)
	var b strings.Builder
	for _, c := range s {
		switch {
		case c >= 'a' && c <= 'z', c >= '0' && c <= '9':
			b.WriteRune(c)
		default:
			b.WriteByte('-')
		}
	}
	return strings.Trim(b.String(), "-")
}

func (p *c14) Witness(raw json.RawMessage) []core.Failure {
	var w struct {
		Texts  map[string]string `json:"texts"`
		Feats  []string          `json:"features"`
		Expect string            `json:"expect"`
		Class  string            `json:"class"`
		// presence witnesses: the source with the absent nodes deleted
		Deleted map[string]string `json:"deleted_source"`
	}
	json.Unmarshal(raw, &w)
	if w.Deleted != nil {
		a := compileTexts(w.Texts, nil, w.Feats, nil, true)
		b := compileTexts(w.Deleted, nil, w.Feats, nil, true)
		if a.Accepted() && b.Accepted() && a.Dump != b.Dump {
			return []core.Failure{{Class: w.Class, Detail: firstDiff(b.Dump, a.Dump)}}
		}
		return nil
	}
	cr := compileTexts(w.Texts, nil, w.Feats, nil, false)
	if cr.Panic != "" {
		return []core.Failure{{Class: "C14/panic/" + core.TopRepoFrame(cr.Stack), Detail: cr.Panic}}
	}
	if (w.Expect == "accept") != cr.Accepted() {
		return []core.Failure{{Class: w.Class, Detail: cr.Verdict() + " " + cr.Err}}
	}
	return nil
}

// Shrink: developer tool.
func (p *c14) Shrink(tier string, seed int64, idx int, match string) string {
	c := c14Gen(seed, idx)
	return "full:\n" + textsString(c.ms.Texts(nil))
}
