// Package props implements one checker per property (C01..C20).
package props

import (
	"encoding/json"

	"verifharness/internal/core"
)

// base supplies defaults for core.Property.
type base struct {
	id          string
	level       string
	rule        string
	block       int
	assumptions []string
	minEvents   []string
}

func (b base) ID() string             { return b.id }
func (b base) Rule() string           { return b.rule }
func (b base) Assumptions() []string  { return b.assumptions }
func (b base) MinEvents() []string    { return b.minEvents }
func (b base) Level() string {
	if b.level == "" {
		return "exploration"
	}
	return b.level
}
func (b base) BlockSize() int {
	if b.block == 0 {
		return 64
	}
	return b.block
}

// tierN picks a count by tier.
func tierN(tier string, quick, thorough int) int {
	if tier == "thorough" {
		return thorough
	}
	return quick
}

func jsonStr(v interface{}) string {
	b, err := json.Marshal(v)
	if err != nil {
		return "{}"
	}
	return string(b)
}

var _ = core.Hash
