package props

import (
	"encoding/json"
	"fmt"
	"strings"
	"sync"

	"github.com/sdcio/yang-parser/xpath/grammars/expr"

	"verifharness/internal/core"
	"verifharness/internal/xp"
	"verifharness/internal/xpmock"
)

// C01: XPath scalar evaluation follows XPath 1.0.
//
// Every node of every generated expression is checked on its own: the
// implementation's value of the node must equal the reference operator applied
// to the values the implementation itself produced for the node's operands
// (each sub-expression is compiled and run separately).  This localises a
// disagreement to the smallest sub-expression and keeps a known defect in one
// operator from masking a different defect further up the tree.
type c01 struct {
	base
	once sync.Once
	enum []*xp.Node
}

func init() {
	core.Register(&c01{base: base{
		id: "C01",
		rule: "cases = exhaustive (binary operator | core function) x one representative per operand value class " +
			"(NaN, +-0, +-Inf, negative halves, >=1e21, <1e-6, >15 digits; empty/ASCII/non-ASCII/whitespace/numeric-looking/" +
			"Go-float-but-not-XPath strings; booleans; absent node, single leaf, multi-valued leaf-list), then seeded random " +
			"type-correct expressions (depth<=3 quick, <=6 thorough) over the same pools with leaf operands answered by the mock tree; " +
			"every sub-expression is compiled and run separately and compared with the reference operator applied to the " +
			"implementation's own operand values; distinct_nontrivial = distinct rendered (sub)expressions containing at least one operator or function that were checked",
		block: 128,
		assumptions: []string{
			"reference evaluator R-XP (harness/internal/xp/ref.go) transcribes XPath 1.0 sections 3.4, 3.5, 4.1-4.4; trusted base: Go strconv for shortest round-trip digits and correctly rounded parsing",
			"a present leaf is reported by the data tree as a literal datum (its string-value), an absent node as an empty node-set, a leaf-list as a datum slice of literals",
			"comparisons between a node-set and a boolean are not asserted (property text says 'false in every comparison' for absent nodes, XPath 1.0 converts the node-set with boolean())",
			"re-match (fork extension) and the node-set functions count/sum/local-name are outside the property's scalar domain",
		},
		minEvents: []string{"machine_runs", "node_checks", "path_operand_checks"},
	}})
}

var c01FixedTable = xp.Table{
	"ab":       {Kind: xp.AnsAbsent},
	"lf_empty": {Kind: xp.AnsLeaf, Vals: []string{""}},
	"lf_num":   {Kind: xp.AnsLeaf, Vals: []string{"12"}},
	"lf_pad":   {Kind: xp.AnsLeaf, Vals: []string{" 12 "}},
	"lf_exp":   {Kind: xp.AnsLeaf, Vals: []string{"1e3"}},
	"lf_abc":   {Kind: xp.AnsLeaf, Vals: []string{"abc"}},
	"lf_uni":   {Kind: xp.AnsLeaf, Vals: []string{"日本語"}},
	"lf_neg":   {Kind: xp.AnsLeaf, Vals: []string{"-2.5"}},
	"ll_num":   {Kind: xp.AnsLeafList, Vals: []string{"1", "2", "3"}},
	"ll_mix":   {Kind: xp.AnsLeafList, Vals: []string{"abc", "2", ""}},
	"ll_same":  {Kind: xp.AnsLeafList, Vals: []string{"7", "7"}},
}

func c01Reps() (nums, strs, bools, nss []*xp.Node) {
	for _, t := range []string{"0", "1", "3", "0.5", "1.5", "2.5", "0.1", "1000000000000000000000",
		"0.0000001", "9007199254740993", "0.12345678901234567", "12", "100000000000000000000", "0.0001", "0.00001"} {
		nums = append(nums, xp.Num(t))
	}
	nums = append(nums, xp.SpecialNums()...)
	for _, s := range []string{"", "abc", "日本語", " \t\n", "12", " 12 ", "1e3", "+1", "0x10", "Infinity", "NaN",
		"-5", "a b", "é", " 5", "true", "false", "ab", "b", "5.", ".5"} {
		strs = append(strs, xp.Lit(s))
	}
	bools = []*xp.Node{xp.Fn("true"), xp.Fn("false")}
	for _, n := range []string{"ab", "lf_empty", "lf_num", "lf_pad", "lf_exp", "lf_abc", "lf_uni", "lf_neg", "ll_num", "ll_mix", "ll_same"} {
		nss = append(nss, xp.RelName(n))
	}
	return
}

func (p *c01) build() {
	nums, strs, bools, nss := c01Reps()
	var all []*xp.Node
	all = append(all, nums...)
	all = append(all, strs...)
	all = append(all, bools...)
	all = append(all, nss...)
	strish := append(append([]*xp.Node{}, strs...), nss...)
	strish = append(strish, nums[0], nums[3], bools[0])
	numish := append(append([]*xp.Node{}, nums...), strs[4], strs[6], strs[0], nss[0], nss[2], nss[8], bools[0])
	for _, op := range []string{"or", "and", "=", "!=", "<", "<=", ">", ">=", "+", "-", "*", "div", "mod"} {
		for _, a := range all {
			for _, b := range all {
				p.enum = append(p.enum, xp.Bin(op, a, b))
			}
		}
	}
	for _, a := range all {
		p.enum = append(p.enum, xp.Neg(a))
		for _, fn := range []string{"boolean", "number", "string", "floor", "ceiling", "round", "not", "string-length", "normalize-space"} {
			p.enum = append(p.enum, xp.Fn(fn, a))
		}
	}
	for _, fn := range []string{"concat", "contains", "starts-with", "substring-before", "substring-after"} {
		for _, a := range strish {
			for _, b := range strish {
				p.enum = append(p.enum, xp.Fn(fn, a, b))
			}
		}
	}
	subStrs := []*xp.Node{xp.Lit(""), xp.Lit("12345"), xp.Lit("aé日😀b"), xp.Lit("日本語"), xp.RelName("lf_uni"), xp.RelName("ab"), xp.RelName("ll_mix"), xp.Num("12345")}
	for _, s := range subStrs {
		for _, a := range numish {
			for _, b := range numish {
				p.enum = append(p.enum, xp.Fn("substring", s, a, b))
			}
		}
	}
	trs := []*xp.Node{xp.Lit(""), xp.Lit("abc"), xp.Lit("ab"), xp.Lit("ba"), xp.Lit("aabbcc"), xp.Lit("日本語"), xp.Lit("本é"), xp.Lit("éa"),
		xp.Lit("abca"), xp.Lit("-"), xp.Lit("bar"), xp.Lit("BAR"), xp.Lit("--aaa--"), xp.Lit("abcdefghijklmnopqrstuvwxyz"), xp.RelName("lf_abc"), xp.RelName("ab")}
	for _, a := range trs {
		for _, b := range trs {
			for _, c := range trs {
				p.enum = append(p.enum, xp.Fn("translate", a, b, c))
			}
		}
	}
	p.enum = append(p.enum, xp.Fn("last"), xp.Fn("position"), xp.Fn("true"), xp.Fn("false"))
	for _, t := range xp.NumTexts {
		p.enum = append(p.enum, xp.Num(t))
	}
	for _, s := range xp.StrPool {
		p.enum = append(p.enum, xp.Lit(s))
	}
}

func (p *c01) NumCases(tier string, seed int64) int {
	p.once.Do(p.build)
	return len(p.enum) + tierN(tier, 100000, 9000000)
}

var c01LeafNames = []string{"l0", "l1", "l2", "l3", "l4", "l5", "a0", "a1", "ll0", "ll1", "ll2"}

func c01GenTable(r *core.Rng) xp.Table {
	t := xp.Table{}
	for _, n := range c01LeafNames {
		switch {
		case strings.HasPrefix(n, "ll"):
			k := r.Range(2, 4)
			vals := make([]string, k)
			for i := range vals {
				if r.Chance(2, 3) {
					vals[i] = core.Pick(r, []string{"1", "2", "3", "10", "2.5", "-1", "0", " 7 ", "abc", "", "12", "a"})
				} else {
					vals[i] = core.Pick(r, xp.StrPool)
				}
			}
			t[n] = xp.Answer{Kind: xp.AnsLeafList, Vals: vals}
		case strings.HasPrefix(n, "a"):
			t[n] = xp.Answer{Kind: xp.AnsAbsent}
		default:
			t[n] = xp.Answer{Kind: xp.AnsLeaf, Vals: []string{core.Pick(r, xp.StrPool)}}
		}
	}
	return t
}

func (p *c01) gen(tier string, seed int64, idx int) (*xp.Node, xp.Table) {
	p.once.Do(p.build)
	if idx < len(p.enum) {
		return p.enum[idx], c01FixedTable
	}
	r := core.CaseRng(seed, "C01", idx)
	tab := c01GenTable(r)
	depth := r.Range(1, tierN(tier, 3, 6))
	cfg := &xp.GenCfg{MaxDepth: depth, LeafNames: c01LeafNames}
	t := xp.Type(r.Intn(3))
	return xp.GenExpr(r, t, depth, cfg), tab
}

type c01Input struct {
	Expr  string   `json:"expr"`
	Table xp.Table `json:"table"`
}

func (p *c01) Describe(tier string, seed int64, idx int) string {
	e, t := p.gen(tier, seed, idx)
	return jsonStr(c01Input{Expr: xp.Render(e, xp.RenderFull), Table: t})
}

// c01Class computes the finding class of a disagreeing node from the operator
// and the value classes of the operand values the implementation produced.
func c01Class(n *xp.Node, kids []xp.Val) string {
	name := ""
	switch n.Kind {
	case xp.KBin:
		name = n.Op
	case xp.KNeg:
		name = "neg"
	case xp.KFunc:
		name = n.Fn + "()"
	case xp.KNum:
		return "C01/number-token"
	case xp.KLit:
		return "C01/string-literal"
	}
	cls := make([]string, len(kids))
	for i, k := range kids {
		cls[i] = xp.ValClass(k)
	}
	if n.Kind == xp.KFunc && n.Fn == "number" && len(kids) == 1 &&
		(cls[0] == "str:go-float-not-xpath" || cls[0] == "ns:leaf:go-float-not-xpath") {
		// one defect: the string is parsed with Go's float syntax
		return "C01/number()/string-in-go-float-syntax-but-not-xpath-number"
	}
	return "C01/" + name + "/" + strings.Join(cls, ",")
}

type c01Runner struct {
	table xp.Table
	cache map[string]xpmock.Outcome
	res   *core.CaseResult
}

func (c *c01Runner) run(src string) xpmock.Outcome {
	if o, ok := c.cache[src]; ok {
		return o
	}
	var o xpmock.Outcome
	m, err := expr.NewExprMachine(src, nil)
	if err != nil {
		o.Err = "COMPILE: " + err.Error()
	} else {
		tree := &xpmock.Tree{Table: c.table}
		o = xpmock.Run(m, tree)
		c.res.Ev("tree_calls", int64(tree.NCalls))
	}
	c.res.Ev("machine_runs", 1)
	c.cache[src] = o
	return o
}

// implVal: the value the implementation produces for a node.
func (c *c01Runner) implVal(n *xp.Node) (xp.Val, string) {
	if n.Kind == xp.KPath {
		return c.table[n.Path.Steps[0].Name].Val(), ""
	}
	if n.Kind == xp.KParen {
		return c.implVal(n.Args[0])
	}
	o := c.run(xp.Render(n, xp.RenderFull))
	if o.Panic != "" {
		return xp.Val{}, "panic: " + o.Panic
	}
	if o.Err != "" {
		return xp.Val{}, "error: " + o.Err
	}
	v, ok := o.ScalarVal()
	if !ok {
		return xp.Val{}, "no scalar result (kind " + o.Kind + ")"
	}
	return v, ""
}

func c01Apply(cv *xp.Conv, n *xp.Node, kids []xp.Val) xp.Val {
	switch n.Kind {
	case xp.KNum:
		return xp.VNum(n.NumValue())
	case xp.KLit:
		return xp.VStr(n.Lit)
	case xp.KNeg:
		return xp.VNum(-cv.Num(kids[0]))
	case xp.KBin:
		return xp.ApplyBin(cv, n.Op, kids[0], kids[1])
	case xp.KFunc:
		return xp.ApplyFn(cv, n.Fn, kids)
	}
	panic("c01Apply")
}

// implConv returns conversions measured on the implementation: number(x),
// string(x), boolean(x) are compiled and run for the operand expressions
// (and for the string-values of node-set members).  The conversion nodes are
// also checked on their own through visit, which reports their defects.
func (c *c01Runner) implConv(n *xp.Node, kids []xp.Val, visit func(*xp.Node)) *xp.Conv {
	exprFor := func(v xp.Val) *xp.Node {
		for i, k := range kids {
			if k.T == v.T && xp.SameVal(k, v) {
				return n.Args[i]
			}
		}
		switch v.T {
		case xp.TStr:
			if strings.Contains(v.S, "'") && strings.Contains(v.S, "\"") {
				return nil
			}
			return xp.Lit(v.S)
		case xp.TBool:
			if v.B {
				return xp.Fn("true")
			}
			return xp.Fn("false")
		}
		return nil
	}
	measure := func(fn string, v xp.Val) (xp.Val, bool) {
		e := exprFor(v)
		if e == nil {
			return xp.Val{}, false
		}
		cn := xp.Fn(fn, e)
		visit(cn)
		got, bad := c.implVal(cn)
		return got, bad == ""
	}
	return &xp.Conv{
		Num: func(v xp.Val) float64 {
			if v.T == xp.TNum {
				return v.N
			}
			if g, ok := measure("number", v); ok && g.T == xp.TNum {
				return g.N
			}
			return xp.ToNumber(v)
		},
		Str: func(v xp.Val) string {
			if v.T == xp.TStr {
				return v.S
			}
			if g, ok := measure("string", v); ok && g.T == xp.TStr {
				return g.S
			}
			return xp.ToString(v)
		},
		Bool: func(v xp.Val) bool {
			if v.T == xp.TBool {
				return v.B
			}
			if g, ok := measure("boolean", v); ok && g.T == xp.TBool {
				return g.B
			}
			return xp.ToBool(v)
		},
		StrNum: func(s string) float64 {
			if g, ok := measure("number", xp.VStr(s)); ok && g.T == xp.TNum {
				return g.N
			}
			return xp.StringToNumber(s)
		},
	}
}

func c01Excluded(n *xp.Node, kids []xp.Val) bool {
	if n.Kind == xp.KBin {
		switch n.Op {
		case "=", "!=", "<", "<=", ">", ">=":
			// node-set vs boolean: not asserted (see assumptions)
			if (kids[0].T == xp.TNS && kids[1].T == xp.TBool) || (kids[1].T == xp.TNS && kids[0].T == xp.TBool) {
				return true
			}
		}
	}
	return false
}

func (p *c01) check(e *xp.Node, table xp.Table, res *core.CaseResult) {
	c := &c01Runner{table: table, cache: map[string]xpmock.Outcome{}, res: res}
	seen := map[string]bool{}
	var visit func(n *xp.Node)
	visit = func(n *xp.Node) {
		for _, a := range n.Args {
			visit(a)
		}
		if n.Kind == xp.KPath || n.Kind == xp.KParen {
			return
		}
		src := xp.Render(n, xp.RenderFull)
		if seen[src] {
			return
		}
		seen[src] = true
		kids := make([]xp.Val, len(n.Args))
		for i, a := range n.Args {
			v, bad := c.implVal(a)
			if bad != "" {
				return // the child is reported on its own
			}
			kids[i] = v
			if a.Kind == xp.KPath {
				res.Ev("path_operand_checks", 1)
			}
		}
		if c01Excluded(n, kids) {
			res.Ev("nodes_skipped_domain_exclusion", 1)
			return
		}
		want := c01Apply(xp.Ref, n, kids)
		res.Ev("node_checks", 1)
		if n.Kind != xp.KNum && n.Kind != xp.KLit {
			res.Key(src)
		}
		got, bad := c.implVal(n)
		if bad == "" && xp.SameVal(got, want) {
			return
		}
		// Disagreement.  Is it fully explained by implicit conversions that
		// the implementation gets wrong (each reported on its own as a
		// failure of number()/string()/boolean())?
		if n.Kind == xp.KBin || n.Kind == xp.KNeg || (n.Kind == xp.KFunc && n.Fn != "number" && n.Fn != "string" && n.Fn != "boolean") {
			cv := c.implConv(n, kids, visit)
			want2 := c01Apply(cv, n, kids)
			if bad == "" && xp.SameVal(got, want2) {
				res.Ev("disagreements_explained_by_a_conversion_defect", 1)
				return
			}
		}
		input := jsonStr(c01Input{Expr: src, Table: usedTable(n, table)})
		if bad != "" {
			res.Fail(c01Class(n, kids), input, fmt.Sprintf("XPath 1.0 value %s, implementation gives %s (operands as the implementation evaluated them: %v)", want, core.Trunc(bad, 300), kids))
			return
		}
		res.Fail(c01Class(n, kids), input, fmt.Sprintf("XPath 1.0 value %s, implementation value %s (operands as the implementation evaluated them: %v)", want, got, kids))
	}
	visit(e)
	// the same expression with only the parentheses XPath 1.0 needs: the value of an expression does not
	// depend on how much of its structure is spelled out (operator precedence is C03's subject; here it is
	// the values that must agree)
	if full, min := xp.Render(e, xp.RenderFull), xp.Render(e, xp.RenderMin); min != full && e.Kind != xp.KPath {
		of, om := c.run(full), c.run(min)
		res.Ev("unparenthesised_forms_evaluated", 1)
		vf, okf := of.ScalarVal()
		vm, okm := om.ScalarVal()
		if okf != okm || (okf && !xp.SameVal(vf, vm)) || (of.Err == "") != (om.Err == "") {
			res.Fail("C01/value-depends-on-optional-parentheses", jsonStr(c01Input{Expr: min, Table: usedTable(e, table)}),
				fmt.Sprintf("fully parenthesised %s gives %v (err %q); with only the needed parentheses %s gives %v (err %q)", full, vf, of.Err, min, vm, om.Err))
		}
	}
}

func usedTable(n *xp.Node, t xp.Table) xp.Table {
	out := xp.Table{}
	xp.Walk(n, true, func(x *xp.Node) {
		if x.Kind == xp.KPath && len(x.Path.Steps) == 1 {
			if a, ok := t[x.Path.Steps[0].Name]; ok {
				out[x.Path.Steps[0].Name] = a
			}
		}
	})
	return out
}

func (p *c01) Run(tier string, seed int64, idx int) core.CaseResult {
	var res core.CaseResult
	e, t := p.gen(tier, seed, idx)
	p.check(e, t, &res)
	if idx%4099 == 0 {
		res.Sample = map[string]interface{}{"expr": xp.Render(e, xp.RenderFull), "node_checks": res.Events["node_checks"]}
	}
	return res
}

// Witness: {"expr": "...", "table": {...}} — parsed by the implementation only
// (no AST), so the witness check is: run it, compare with "want".
type c01Witness struct {
	Expr  string   `json:"expr"`
	Table xp.Table `json:"table"`
	// Ast rebuilds the node: op/fn applied to operand witnesses
	Op   string       `json:"op,omitempty"`
	Fn   string       `json:"fn,omitempty"`
	Args []c01WitArg  `json:"args,omitempty"`
}

type c01WitArg struct {
	Num  string `json:"num,omitempty"`
	Str  *string `json:"str,omitempty"`
	Path string `json:"path,omitempty"`
	Neg  bool   `json:"neg,omitempty"`
	Expr *c01Witness `json:"expr,omitempty"`
}

func (w *c01Witness) node() *xp.Node {
	var args []*xp.Node
	for _, a := range w.Args {
		var n *xp.Node
		switch {
		case a.Expr != nil:
			n = a.Expr.node()
		case a.Str != nil:
			n = xp.Lit(*a.Str)
		case a.Path != "":
			n = xp.RelName(a.Path)
		default:
			n = xp.Num(a.Num)
		}
		if a.Neg {
			n = xp.Neg(n)
		}
		args = append(args, n)
	}
	switch {
	case w.Fn != "":
		return xp.Fn(w.Fn, args...)
	case w.Op == "neg":
		return xp.Neg(args[0])
	default:
		return xp.Bin(w.Op, args[0], args[1])
	}
}

func (p *c01) Witness(raw json.RawMessage) []core.Failure {
	var w c01Witness
	if err := json.Unmarshal(raw, &w); err != nil {
		return []core.Failure{{Class: "harness-panic", Detail: "bad witness: " + err.Error()}}
	}
	var res core.CaseResult
	t := w.Table
	if t == nil {
		t = c01FixedTable
	}
	p.check(w.node(), t, &res)
	return res.Fails
}
