package props

import (
	"sync"
	"encoding/json"
	"fmt"
	"sort"
	"strconv"
	"strings"

	"github.com/sdcio/yang-parser/xpath"
	"github.com/sdcio/yang-parser/xpath/grammars/expr"

	"verifharness/internal/core"
	"verifharness/internal/xp"
	"verifharness/internal/xpmock"
)

// C02: location paths resolve to exactly the designated data node.
//
// Oracle: a reference navigator walks the generator's path AST and predicts
// the exact, ordered list of data-tree callbacks (Navigate with root flag,
// elements and keys; GetValue; FollowLeafRef; GetSdcpbPath) and the value of
// the expression.  The recorded call log of the real run must be equal.
type c02 struct{ base }

func init() {
	core.Register(&c02{base: base{
		id: "C02",
		rule: "cases = seeded random location paths (1-6 steps, up-steps, 0-3 predicates per step in any order, operands: literal, number, " +
			"arithmetic, functions of scalars, functions with a path argument, absolute / current()-rooted / '..'-rooted paths; optional prefixes; " +
			"roots: relative, absolute, current(), deref()) standing alone or embedded as operands of comparisons, arithmetic, boolean operators and " +
			"functions (2-3 paths per expression), plus a small enumerated family (every root x 1-3 steps x every operand kind); each case compiles the expression once and evaluates the machine three times " +
			"against trees holding different values, and every time compares the complete ordered call log of the recording mock tree and the result with the reference navigator; distinct_nontrivial = distinct expected call logs with at least one Navigate",
		block: 128,
		assumptions: []string{
			"the mock tree answers every path with a leaf whose value is a function of the canonical path, so a wrong path shows up both in the call log and in the value",
			"operand forms outside the property's stated domain (nested predicates in operands, [.=x], positional predicates, relative operands not starting with '..', deref() operands) are not generated",
			"that the consumer's Navigate resolves '..' elements correctly is outside the repository",
		},
		minEvents: []string{"navigate_calls_observed", "paths_with_predicates", "deref_paths", "operand_paths", "re_evaluations_of_a_compiled_machine"},
	}})
}

// ---------------------------------------------------------------- reference navigator

type refElem struct {
	name string
	keys map[string]string
}

type refPathState struct {
	root  bool
	elems []refElem
}

func (s refPathState) clone() refPathState {
	out := refPathState{root: s.root}
	for _, e := range s.elems {
		ne := refElem{name: e.name}
		if e.keys != nil {
			ne.keys = map[string]string{}
			for k, v := range e.keys {
				ne.keys[k] = v
			}
		}
		out.elems = append(out.elems, ne)
	}
	return out
}

func (s refPathState) canon() string {
	var b strings.Builder
	if s.root {
		b.WriteString("/")
	}
	for i, e := range s.elems {
		if i > 0 {
			b.WriteString("/")
		}
		b.WriteString(e.name)
		ks := make([]string, 0, len(e.keys))
		for k := range e.keys {
			ks = append(ks, k)
		}
		sort.Strings(ks)
		for _, k := range ks {
			b.WriteString("[" + k + "=" + strconv.Quote(e.keys[k]) + "]")
		}
	}
	return b.String()
}

type refNav struct {
	calls  []string
	answer func(path string) xp.Answer
	// statistics
	nPredPaths, nDeref, nOperandPaths, nTwoPathOperand int
	twoPathOperand                                     bool
	eqInFnOperand, predInFnOperand                     bool // shapes of the known findings
	lastNavigated                                      string
}

// defaultAnswer: every path is a leaf whose value identifies the path.
// (every third value has the shape of a qualified name, "vrf:blue": a value is a string, whatever it looks like)
func c02Answer(path string) xp.Answer {
	h := core.Hash(path)
	if h%3 == 0 {
		return xp.Answer{Kind: xp.AnsLeaf, Vals: []string{fmt.Sprintf("br:v%x", h&0xffffff)}}
	}
	return xp.Answer{Kind: xp.AnsLeaf, Vals: []string{fmt.Sprintf("v%x", h&0xffffff)}}
}

// parseDerefTarget mirrors xpmock.DefaultDerefTarget on the reference side.
func refDerefTarget(src string) refPathState {
	last := src
	if i := strings.LastIndex(last, "/"); i >= 0 {
		last = last[i+1:]
	}
	if i := strings.Index(last, "["); i >= 0 {
		last = last[:i]
	}
	if last == "" || last == "." || last == ".." {
		last = "x"
	}
	return refPathState{root: true, elems: []refElem{{name: "dt"}, {name: last, keys: map[string]string{"id": "fe80::7:1"}}, {name: "tgt"}}}
}

func (r *refNav) eval(n *xp.Node, outer *refPathState) xp.Val {
	return xp.Eval(n, func(pn *xp.Node) xp.Val {
		return r.path(pn.Path, outer, false)
	})
}

// path walks one location path.  outer is the state of the enclosing path at
// the filtered step when this path is (part of) a predicate operand.
func (r *refNav) path(p *xp.Path, outer *refPathState, derefArg bool) xp.Val {
	var st refPathState
	switch p.Root {
	case xp.RootAbs:
		st = refPathState{root: true}
	case xp.RootCurrent:
		st = refPathState{}
	case xp.RootDeref:
		r.nDeref++
		r.path(p.DerefArg, outer, true)
		// the entry reached by the deref argument
		// (calls logged by the recursive call: Navigate only)
		src := r.lastNavigated
		r.calls = append(r.calls, "FollowLeafRef "+src, "GetSdcpbPath "+src)
		st = refDerefTarget(src)
	default:
		if outer != nil {
			st = outer.clone()
		} else {
			st = refPathState{}
		}
	}
	for _, s := range p.Steps {
		switch s.Kind {
		case xp.SDot:
		case xp.SDotDot:
			st.elems = append(st.elems, refElem{name: ".."})
		case xp.SName:
			st.elems = append(st.elems, refElem{name: s.Name})
		}
		if len(s.Preds) > 0 {
			r.nPredPaths++
			keys := map[string]string{}
			for _, pr := range s.Preds {
				snapshot := st.clone()
				npaths := 0
				xp.Walk(pr.Operand, false, func(x *xp.Node) {
					if x.Kind == xp.KPath {
						npaths++
					}
				})
				r.nOperandPaths += npaths
				if npaths > 1 {
					r.twoPathOperand = true
				}
				xp.Walk(pr.Operand, false, func(x *xp.Node) {
					if x.Kind != xp.KFunc {
						return
					}
					xp.Walk(x, false, func(y *xp.Node) {
						if y.Kind == xp.KBin && y.Op == "=" {
							r.eqInFnOperand = true
						}
						if y.Kind == xp.KPath {
							for _, st := range y.Path.Steps {
								if len(st.Preds) > 0 {
									r.predInFnOperand = true
								}
							}
						}
					})
				})
				v := r.eval(pr.Operand, &snapshot)
				keys[pr.Key] = xp.ToString(v)
			}
			st.elems[len(st.elems)-1].keys = keys
		}
	}
	c := st.canon()
	r.calls = append(r.calls, "Navigate "+c)
	r.lastNavigated = c
	if derefArg {
		return xp.Val{}
	}
	r.calls = append(r.calls, "GetValue "+c)
	return r.answer(c).Val()
}

// ---------------------------------------------------------------- generator

var c02Names = []string{"a", "b", "c", "if", "interface", "x", "y", "z", "name", "entry", "leaf-1", "n_2", "div", "and", "mod", "or"}
var c02Keys = []string{"k", "id", "name", "key2", "z"}
var c02Prefixes = []string{"", "", "", "", "p", "q"}

func c02PfxMap(pfx string) (string, error) {
	switch pfx {
	case "":
		return "", nil
	case "p":
		return "urn:p", nil
	case "q":
		return "urn:q", nil
	}
	return "", fmt.Errorf("unknown prefix %q", pfx)
}

func c02GenSteps(r *core.Rng, n int, allowPreds bool, upFirst bool, operandDepth int) []xp.Step {
	var steps []xp.Step
	for i := 0; i < n; i++ {
		var s xp.Step
		switch {
		case upFirst && i == 0:
			s.Kind = xp.SDotDot
		case r.Chance(1, 5) && (i == 0 || steps[i-1].Kind != xp.SName || r.Chance(1, 3)):
			s.Kind = xp.SDotDot
		case r.Chance(1, 25):
			s.Kind = xp.SDot
		default:
			s.Kind = xp.SName
			s.Name = core.Pick(r, c02Names)
			// names that collide with operator names are only safe where no
			// operator can be expected (after '/' or at the start); keep them
			// off the first step of a relative path inside expressions.
			if i == 0 && (s.Name == "div" || s.Name == "and" || s.Name == "mod" || s.Name == "or") {
				s.Name = "a"
			}
			s.Prefix = core.Pick(r, c02Prefixes)
			if allowPreds && r.Chance(2, 5) {
				np := r.Range(1, 3)
				perm := r.Perm(len(c02Keys))
				for j := 0; j < np; j++ {
					s.Preds = append(s.Preds, xp.Pred{
						Key:       c02Keys[perm[j]],
						KeyPrefix: core.Pick(r, c02Prefixes),
						Operand:   c02GenOperand(r, operandDepth),
					})
				}
			}
		}
		steps = append(steps, s)
	}
	return steps
}

var c02SafeStr = []string{"x", "abc", "eth0", "a b", "1", "", "é日", "it's", "v[1]", "a/b", "k=v", "Slot 1", " lead"}
var c02SafeNum = []string{"0", "1", "7", "42", "1.5", "0.25", "100", "123456789012345", "3.0", ".5", "5."}

func c02OperandPath(r *core.Rng) *xp.Node {
	p := &xp.Path{}
	switch r.Intn(3) {
	case 0:
		p.Root = xp.RootAbs
		p.Steps = c02GenSteps(r, r.Range(1, 3), false, false, 0)
		if p.Steps[0].Kind != xp.SName {
			p.Steps[0] = xp.Step{Kind: xp.SName, Name: "r"}
		}
	case 1:
		p.Root = xp.RootCurrent
		p.Steps = c02GenSteps(r, r.Range(1, 4), false, r.Chance(3, 4), 0)
	default:
		p.Root = xp.RootRel
		p.Steps = c02GenSteps(r, r.Range(2, 4), false, true, 0)
	}
	return xp.PathNode(p)
}

func c02GenOperand(r *core.Rng, depth int) *xp.Node {
	switch r.Intn(10) {
	case 0, 1:
		return xp.Lit(core.Pick(r, c02SafeStr))
	case 2:
		return xp.Num(core.Pick(r, c02SafeNum))
	case 3:
		return xp.Bin(core.Pick(r, []string{"+", "-", "*"}), xp.Num(core.Pick(r, c02SafeNum)), xp.Num(core.Pick(r, c02SafeNum)))
	case 4:
		switch r.Intn(4) {
		case 0:
			return xp.Fn("concat", xp.Lit(core.Pick(r, c02SafeStr)), xp.Lit(core.Pick(r, c02SafeStr)))
		case 1:
			return xp.Fn("string", xp.Num(core.Pick(r, c02SafeNum)))
		case 2:
			return xp.Fn("substring-before", xp.Lit("eth0/1"), xp.Lit("/"))
		default:
			return xp.Fn("not", xp.Fn("false"))
		}
	case 5:
		if r.Chance(1, 5) {
			if r.Bool() {
				// a comparison inside the argument of a function: its '=' is an ordinary operator
				return xp.Fn("string", xp.Bin("=", c02OperandPath(r), xp.Lit(core.Pick(r, c02SafeStr))))
			}
			// a path with a predicate of its own inside the argument of a function
			ap := &xp.Path{Root: xp.RootAbs, Steps: []xp.Step{{Kind: xp.SName, Name: core.Pick(r, c02Names),
				Preds: []xp.Pred{{Key: core.Pick(r, c02Keys), Operand: xp.Lit(core.Pick(r, c02SafeStr))}}}, {Kind: xp.SName, Name: core.Pick(r, c02Names)}}}
			return xp.Fn("string", xp.PathNode(ap))
		}
		// function with one path argument
		switch r.Intn(3) {
		case 0:
			return xp.Fn("string", c02OperandPath(r))
		case 1:
			return xp.Fn("concat", c02OperandPath(r), xp.Lit("-s"))
		default:
			return xp.Fn("concat", xp.Lit("p-"), c02OperandPath(r))
		}
	case 6:
		if r.Chance(1, 6) {
			// two paths in one operand
			return xp.Fn("concat", c02OperandPath(r), c02OperandPath(r))
		}
		return c02OperandPath(r)
	default:
		return c02OperandPath(r)
	}
}

func c02GenPath(r *core.Rng) *xp.Node {
	p := &xp.Path{}
	switch r.Intn(20) {
	case 0, 1, 2, 3, 4:
		p.Root = xp.RootAbs
	case 5, 6, 7:
		p.Root = xp.RootCurrent
	case 8, 9:
		p.Root = xp.RootDeref
		d := &xp.Path{Root: core.Pick(r, []string{xp.RootRel, xp.RootRel, xp.RootAbs, xp.RootCurrent})}
		d.Steps = c02GenSteps(r, r.Range(1, 3), r.Chance(1, 3), d.Root != xp.RootAbs && r.Bool(), 1)
		if d.Root == xp.RootAbs && d.Steps[0].Kind != xp.SName {
			d.Steps[0] = xp.Step{Kind: xp.SName, Name: "r"}
		}
		p.DerefArg = d
	default:
		p.Root = xp.RootRel
	}
	n := r.Range(1, 6)
	if p.Root == xp.RootCurrent || p.Root == xp.RootDeref {
		n = r.Range(0, 4)
	}
	p.Steps = c02GenSteps(r, n, true, (p.Root == xp.RootRel || p.Root == xp.RootCurrent) && r.Chance(1, 3), 1)
	if p.Root == xp.RootAbs && len(p.Steps) > 0 && p.Steps[0].Kind != xp.SName {
		p.Steps[0] = xp.Step{Kind: xp.SName, Name: "top"}
	}
	return xp.PathNode(p)
}

// c02TagsPath: a path without predicates whose last step is the leaf-list "tags" (the mock trees answer
// any node of that name with two values).
func c02TagsPath(r *core.Rng) *xp.Node {
	p := &xp.Path{Root: core.Pick(r, []string{xp.RootRel, xp.RootRel, xp.RootAbs, xp.RootCurrent})}
	p.Steps = c02GenSteps(r, r.Range(0, 2), false, p.Root != xp.RootAbs && r.Bool(), 1)
	if p.Root == xp.RootAbs && len(p.Steps) > 0 && p.Steps[0].Kind != xp.SName {
		p.Steps[0] = xp.Step{Kind: xp.SName, Name: "top"}
	}
	p.Steps = append(p.Steps, xp.Step{Kind: xp.SName, Name: "tags"})
	return xp.PathNode(p)
}

func c02GenExpr(r *core.Rng) *xp.Node {
	p1 := c02GenPath(r)
	switch r.Intn(12) {
	case 10, 11:
		// a comparison with a leaf-list, then paths with predicates: what the comparison did to the
		// evaluation context must not reach the predicates
		cmp := xp.Bin(core.Pick(r, []string{"=", "=", "!="}), c02TagsPath(r), xp.Lit(core.Pick(r, []string{"blue", "red", "green"})))
		if r.Chance(1, 4) {
			cmp = xp.Bin("=", xp.Lit("blue"), c02TagsPath(r))
		}
		rest := xp.Bin(core.Pick(r, []string{"=", "!="}), p1, core.Pick(r, []*xp.Node{xp.Lit("x"), c02GenPath(r)}))
		if r.Bool() {
			return xp.Bin(core.Pick(r, []string{"and", "or"}), cmp, rest)
		}
		return xp.Bin(core.Pick(r, []string{"and", "or"}), rest, xp.Bin("and", cmp, xp.Bin("=", c02GenPath(r), xp.Lit("y"))))
	case 0, 1, 2, 3, 4:
		return p1
	case 5:
		return xp.Bin(core.Pick(r, []string{"=", "!=", "<", ">="}), p1, c02GenPath(r))
	case 6:
		return xp.Bin(core.Pick(r, []string{"=", "!="}), p1, xp.Lit(core.Pick(r, c02SafeStr)))
	case 7:
		return xp.Fn("concat", p1, c02GenPath(r))
	case 8:
		return xp.Bin(core.Pick(r, []string{"and", "or"}),
			xp.Bin("=", p1, xp.Lit("x")),
			xp.Bin("!=", c02GenPath(r), c02GenPath(r)))
	default:
		return xp.Bin(core.Pick(r, []string{"+", "*"}), xp.Fn("string-length", p1), xp.Fn("number", c02GenPath(r)))
	}
}

// enumerated family: every root x 1..3 steps x every operand kind on the last/first step
func c02Enum() []*xp.Node {
	var out []*xp.Node
	operands := []*xp.Node{
		xp.Lit("v"), xp.Num("5"), xp.Bin("+", xp.Num("1"), xp.Num("2")), xp.Fn("concat", xp.Lit("a"), xp.Lit("b")),
		xp.PathNode(&xp.Path{Root: xp.RootAbs, Steps: []xp.Step{{Kind: xp.SName, Name: "r"}, {Kind: xp.SName, Name: "s"}}}),
		xp.PathNode(&xp.Path{Root: xp.RootCurrent, Steps: []xp.Step{{Kind: xp.SDotDot}, {Kind: xp.SName, Name: "x"}}}),
		xp.PathNode(&xp.Path{Root: xp.RootCurrent, Steps: []xp.Step{{Kind: xp.SName, Name: "x"}}}),
		xp.PathNode(&xp.Path{Root: xp.RootRel, Steps: []xp.Step{{Kind: xp.SDotDot}, {Kind: xp.SName, Name: "y"}}}),
		xp.PathNode(&xp.Path{Root: xp.RootRel, Steps: []xp.Step{{Kind: xp.SDotDot}, {Kind: xp.SDotDot}, {Kind: xp.SName, Name: "y"}, {Kind: xp.SName, Name: "z"}}}),
		xp.Fn("string", xp.PathNode(&xp.Path{Root: xp.RootRel, Steps: []xp.Step{{Kind: xp.SDotDot}, {Kind: xp.SName, Name: "y"}}})),
	}
	roots := []string{xp.RootRel, xp.RootAbs, xp.RootCurrent, xp.RootDeref}
	for _, root := range roots {
		for nsteps := 1; nsteps <= 3; nsteps++ {
			for predStep := 0; predStep < nsteps; predStep++ {
				for _, op1 := range operands {
					for _, op2 := range append([]*xp.Node{nil}, operands[:6]...) {
						p := &xp.Path{Root: root}
						if root == xp.RootDeref {
							p.DerefArg = &xp.Path{Root: xp.RootRel, Steps: []xp.Step{{Kind: xp.SDotDot}, {Kind: xp.SName, Name: "ref"}}}
						}
						for i := 0; i < nsteps; i++ {
							s := xp.Step{Kind: xp.SName, Name: string(rune('a' + i))}
							if i == predStep {
								s.Preds = append(s.Preds, xp.Pred{Key: "k", Operand: op1})
								if op2 != nil {
									s.Preds = append(s.Preds, xp.Pred{Key: "b", Operand: op2})
								}
							}
							p.Steps = append(p.Steps, s)
						}
						out = append(out, xp.PathNode(p))
					}
				}
			}
		}
	}
	return out
}

var c02EnumList = c02Enum()

func (p *c02) NumCases(tier string, seed int64) int {
	return len(c02EnumList) + tierN(tier, 50000, 4800000)
}

func (p *c02) gen(tier string, seed int64, idx int) *xp.Node {
	if idx < len(c02EnumList) {
		return c02EnumList[idx]
	}
	return c02GenExpr(core.CaseRng(seed, "C02", idx))
}

func (p *c02) Describe(tier string, seed int64, idx int) string {
	return xp.Render(p.gen(tier, seed, idx), xp.RenderFull)
}

// c02AnswerSalted: the same shape of tree with different leaf values, for the
// second and third evaluation of one compiled machine.
func c02IsTags(path string) bool {
	last := path
	if i := strings.LastIndex(last, "/"); i >= 0 {
		last = last[i+1:]
	}
	return last == "tags"
}

func c02AnswerSalted(salt int) func(string) xp.Answer {
	if salt == 0 {
		return func(path string) xp.Answer {
			if c02IsTags(path) {
				return xp.Answer{Kind: xp.AnsLeafList, Vals: []string{"red", "blue"}}
			}
			return c02Answer(path)
		}
	}
	return func(path string) xp.Answer {
		if c02IsTags(path) {
			return xp.Answer{Kind: xp.AnsLeafList, Vals: []string{"red", fmt.Sprintf("t%d", salt), "blue"}}
		}
		h := core.Hash(fmt.Sprintf("%d|%s", salt, path))
		if h%3 == 0 {
			return xp.Answer{Kind: xp.AnsLeaf, Vals: []string{fmt.Sprintf("rack-%d:w%x", salt, h&0xffffff)}}
		}
		return xp.Answer{Kind: xp.AnsLeaf, Vals: []string{fmt.Sprintf("w%d%x", salt, h&0xffffff)}}
	}
}

// c02Check compiles src once and evaluates the machine three times, against trees
// with different values: every evaluation must ask for exactly the paths the
// expression denotes on that tree (a compiled machine carries no path state from
// one evaluation to the next).
// c02PfxMapOwn: the map a schema compiler supplies — the empty prefix is the module the expression is written in.
func c02PfxMapOwn(pfx string) (string, error) {
	if pfx == "" {
		return "urn:own", nil
	}
	return c02PfxMap(pfx)
}

func c02Check(e *xp.Node, src string, res *core.CaseResult) {
	pm := c02PfxMap
	if len(src)%2 == 1 {
		// (a prefix never changes which node is asked for, whatever the prefixes stand for)
		pm = c02PfxMapOwn
		res.Ev("expressions_compiled_with_a_namespace_for_the_empty_prefix", 1)
	}
	m, err := expr.NewExprMachine(src, pm)
	if err != nil {
		res.Fail("C02/compile-error", src, "supported location path rejected: "+core.Trunc(err.Error(), 400))
		return
	}
	for run := 0; run < 3; run++ {
		if !c02CheckRun(m, run, e, src, res) {
			return
		}
	}
	// the same expression with one more blank inside one of its string literals: another expression, compiled in
	// the same process right after its twin (a literal is its characters, blanks included)
	var lits []*xp.Node
	xp.Walk(e, true, func(n *xp.Node) {
		if n.Kind == xp.KLit && strings.Contains(n.Lit, " ") {
			lits = append(lits, n)
		}
	})
	if len(lits) > 0 {
		n := lits[len(src)%len(lits)]
		old := n.Lit
		n.Lit = strings.Replace(old, " ", "  ", 1)
		src2 := xp.Render(e, xp.RenderFull)
		res.Ev("twins_differing_in_a_blank_inside_a_literal", 1)
		if m2, err2 := expr.NewExprMachine(src2, c02PfxMap); err2 != nil {
			res.Fail("C02/compile-error", src2, "supported location path rejected: "+core.Trunc(err2.Error(), 400))
		} else {
			c02CheckRun(m2, 0, e, src2, res)
		}
		n.Lit = old
	}
	// ... and four evaluations at once, each on a context and a tree of its own: what an evaluation asks its
	// tree for is its own affair (races as such are C06's subject; here it is the paths that must be right)
	if len(src)%4 == 0 {
		const G = 4
		part := make([]core.CaseResult, G)
		var wg sync.WaitGroup
		for g := 0; g < G; g++ {
			wg.Add(1)
			go func(g int) {
				defer wg.Done()
				c02CheckRun(m, 3+g, e, src, &part[g])
			}(g)
		}
		wg.Wait()
		res.Ev("concurrent_evaluation_groups", 1)
		for g := range part {
			for _, f := range part[g].Fails {
				f.Class = strings.Replace(f.Class, "C02/", "C02/concurrent-evaluations/", 1)
				res.Fails = append(res.Fails, f)
			}
			for k, v := range part[g].Events {
				res.Ev(k, v)
			}
		}
	}
}

func c02CheckRun(m *xpath.Machine, run int, e *xp.Node, src string, res *core.CaseResult) bool {
	answer := c02AnswerSalted(run)
	ref := &refNav{answer: answer}
	want := ref.eval(e, nil)
	if run == 0 {
		res.Ev("paths_with_predicates", int64(ref.nPredPaths))
		res.Ev("deref_paths", int64(ref.nDeref))
		res.Ev("operand_paths", int64(ref.nOperandPaths))
	} else {
		res.Ev("re_evaluations_of_a_compiled_machine", 1)
	}
	tree := &xpmock.Tree{Default: answer}
	o := xpmock.Run(m, tree)
	for _, c := range tree.Calls {
		if strings.HasPrefix(c, "Navigate ") {
			res.Ev("navigate_calls_observed", 1)
		}
	}
	if run == 0 {
		res.Key(strings.Join(ref.calls, "\n"))
	}
	class := func(kind string) string {
		if run > 0 {
			kind = "re-evaluation/" + kind
		}
		if ref.eqInFnOperand {
			return "C02/equality-inside-a-function-operand-of-a-predicate"
		}
		if ref.predInFnOperand {
			return "C02/predicate-inside-a-function-operand-of-a-predicate"
		}
		if ref.twoPathOperand {
			return "C02/two-paths-in-one-predicate-operand"
		}
		return "C02/" + kind
	}
	in := src
	if run > 0 {
		in = fmt.Sprintf("%s   (evaluation %d of the same compiled machine)", src, run+1)
	}
	if strings.Join(tree.Calls, "\n") != strings.Join(ref.calls, "\n") {
		res.Fail(class("call-log"), in, fmt.Sprintf("data-tree calls differ\n expected: %s\n observed: %s\n result: err=%q",
			strings.Join(ref.calls, " ; "), strings.Join(tree.Calls, " ; "), o.Err))
		return false
	}
	if o.Panic != "" || o.Err != "" {
		res.Fail(class("run-error"), in, "calls as expected but the run failed: "+o.Panic+o.Err)
		return false
	}
	var got xp.Val
	if e.Kind == xp.KPath {
		// the value of a path is the datum reported for the node
		if o.Kind != "LITERAL" {
			res.Fail(class("value"), in, "path value is not the literal datum the tree reported: kind "+o.Kind)
			return false
		}
		got = xp.VNS([]string{o.Str})
	} else {
		v, ok := o.ScalarVal()
		if !ok {
			res.Fail(class("value"), in, "no scalar result, kind "+o.Kind)
			return false
		}
		got = v
	}
	if !xp.SameVal(got, want) {
		res.Fail(class("value"), in, fmt.Sprintf("value: expected %s, observed %s", want, got))
		return false
	}
	return true
}

func (p *c02) Run(tier string, seed int64, idx int) core.CaseResult {
	var res core.CaseResult
	e := p.gen(tier, seed, idx)
	src := xp.Render(e, xp.RenderFull)
	c02Check(e, src, &res)
	if idx%2500 == 0 {
		res.Sample = map[string]interface{}{"expr": src}
	}
	return res
}

// Witness: {"expr": "<source>", "calls": ["Navigate ...", ...]} — the expected
// call log is part of the witness (the source is not re-parsed by the harness).
func (p *c02) Witness(raw json.RawMessage) []core.Failure {
	var w struct {
		Expr  string   `json:"expr"`
		Calls []string `json:"calls"`
		Class string   `json:"class"`
	}
	if err := json.Unmarshal(raw, &w); err != nil {
		return []core.Failure{{Class: "harness-panic", Detail: err.Error()}}
	}
	m, err := expr.NewExprMachine(w.Expr, c02PfxMap)
	if err != nil {
		return []core.Failure{{Class: "C02/compile-error", Input: w.Expr, Detail: err.Error()}}
	}
	tree := &xpmock.Tree{Default: c02Answer}
	xpmock.Run(m, tree)
	if strings.Join(tree.Calls, "\n") != strings.Join(w.Calls, "\n") {
		return []core.Failure{{Class: w.Class, Input: w.Expr, Detail: "observed: " + strings.Join(tree.Calls, " ; ")}}
	}
	return nil
}
