package props

import (
	"encoding/json"
	"fmt"
	"strings"

	"github.com/sdcio/yang-parser/parse"

	"verifharness/internal/core"
	"verifharness/internal/yang"
)

// C08: YANG string arguments are decoded as RFC 6020 section 6.1.3 prescribes.
// Source-form-first generation; oracle R-YSTR applied to the generated source.
type c08 struct{ base }

func init() {
	core.Register(&c08{base: base{
		id: "C08",
		rule: "cases = an extension statement 'x:s <argument>;' inside a minimal module; the argument is generated in source form: 1-4 pieces joined by '+' with blanks, line breaks " +
			"and comments around the '+', each piece unquoted / single-quoted / double-quoted; double-quoted content drawn from an alphabet weighted towards \\n \\t \\\" \\\\ escapes, " +
			"'//' and '/*' inside quotes, blanks and tabs before line breaks, LF and CRLF, blank and blank-only continuation lines, continuation indents of 0..col+10 columns built from " +
			"spaces, tabs and mixtures (tabs straddling the quote column), multi-byte characters before the opening quote; the opening-quote column is reached by spaces, tabs or a preceding " +
			"statement; plus an exhaustive small space (quote column 0..12 x indent strings over {SP,TAB}^<=3 x 7 line shapes); the decoded Argument().String() is compared with the " +
			"reference decoder; distinct_nontrivial = distinct (source form, quote column) pairs inside the asserted domain",
		block: 128,
		assumptions: []string{
			"reference decoder R-YSTR (harness/internal/yang/ystr.go) transcribes RFC 6020 section 6.1.3: tab = 8 columns, strip up to and including the column of the opening quote, strip blanks before a line break",
			"a backslash followed by any other character stays, with that character (only the four escapes are substituted); not asserted: \\r (read as a carriage return by the implementation; RFC 6020 is silent), a backslash before a blank or a line break, and values that depend on whether escapes are substituted before or after whitespace trimming (RFC 6020 does not fix the order)",
		},
		minEvents: []string{"arguments_checked", "double_quoted_multi_line", "concatenations", "tab_in_indent"},
	}})
}

type c08Case struct {
	Lead   string // text between line start and the keyword (sets the column)
	Pieces []yang.Piece
	Joins  []string // trivia around each '+', len = len(Pieces)-1, each "<before>+<after>"
	Bare   bool     // the statement is the whole text: it starts on the first line, behind Lead
	Sep    string   // what separates the keyword from the argument ("" = one blank)
	Tail   string   // what stands between the argument and the ';'
}

// c08Seps, c08Tails: separators after the (unquoted) keyword and after the argument; a line break, LF or CRLF,
// may follow an unquoted token directly.
var c08Seps = []string{"\t", "\n", "\r\n", "\r\n  ", " \r\n\t", "\n\n    ", " /* c */ ", "\t// lc\r\n", "\r\n\r\n"}
var c08Tails = []string{" ", "\t", "\n", "\r\n", "\r\n  ", " \r\n", "\n  ", " // lc\n", "\r\n// lc\r\n", " /* c */ "}

func (c *c08Case) text() (string, []int) {
	var b strings.Builder
	if !c.Bare {
		b.WriteString("module m {\n  namespace \"urn:m\";\n  prefix m;\n")
	}
	b.WriteString(c.Lead)
	b.WriteString("x:s")
	if c.Sep == "" {
		b.WriteString(" ")
	} else {
		b.WriteString(c.Sep)
	}
	cols := make([]int, len(c.Pieces))
	for i, p := range c.Pieces {
		if i > 0 {
			b.WriteString(c.Joins[i-1])
		}
		// quote column = columns (tab=8, rune=1) of the current line so far
		cur := b.String()
		ls := strings.LastIndex(cur, "\n") + 1
		cols[i] = quoteCols(cur[ls:])
		switch p.Kind {
		case yang.Unquoted:
			b.WriteString(p.Raw)
		case yang.Single:
			b.WriteString("'" + p.Raw + "'")
		default:
			b.WriteString("\"" + p.Raw + "\"")
		}
	}
	b.WriteString(c.Tail)
	if c.Bare {
		b.WriteString(";\n")
		return b.String(), cols
	}
	b.WriteString(";\n}\n")
	return b.String(), cols
}

func quoteCols(s string) int {
	n := 0
	for _, c := range s {
		if c == '\t' {
			n += 8
		} else {
			n++
		}
	}
	return n
}

var c08Words = []string{"a", "abc", "hello world", "x", "é", "日本語", "it's", "//not a comment", "/* neither */", "a;b", "{ }", "+", "  two  blanks", "tab\there", "'", "''", "q=\"", "*/", "#", "caf\ufffd", "\ufffd"}

func c08IndentStr(r *core.Rng, maxCols int) string {
	var b strings.Builder
	n := r.Intn(4)
	if r.Chance(1, 3) {
		n = r.Intn(maxCols + 1)
	}
	for i := 0; i < n; i++ {
		if r.Chance(1, 6) {
			b.WriteString("\t")
		} else {
			b.WriteString(" ")
		}
	}
	return b.String()
}

func c08Double(r *core.Rng, approxCol int) string {
	var b strings.Builder
	n := r.Range(0, 8)
	for i := 0; i < n; i++ {
		switch r.Intn(15) {
		case 14:
			// a backslash in front of any other character: both stay (only four escapes are substituted)
			b.WriteString(core.Pick(r, []string{`\'`, `\d`, `\.`, `\/`, `\x41`, `\+`, `\0`, `\N`, `\T`, `\é`, `\;`, `\{`, `\*`}))
		case 0:
			b.WriteString(`\n`)
		case 1:
			b.WriteString(`\t`)
		case 2:
			b.WriteString(`\"`)
		case 3:
			b.WriteString(`\\`)
		case 4, 5, 6:
			// literal line break with optional trailing blanks before and indent after
			if r.Chance(1, 3) {
				b.WriteString(core.Pick(r, []string{" ", "  ", "\t", " \t "}))
			}
			if r.Chance(1, 5) {
				b.WriteString("\r\n")
			} else {
				b.WriteString("\n")
			}
			if r.Chance(1, 6) {
				// blank or blank-only line
				b.WriteString(core.Pick(r, []string{"", " ", "   ", "\t", strings.Repeat(" ", approxCol+3)}))
				b.WriteString("\n")
			}
			// indent: around the quote column
			switch r.Intn(6) {
			case 0:
				b.WriteString(c08IndentStr(r, approxCol+10))
			case 1:
				b.WriteString(strings.Repeat(" ", approxCol+1))
			case 2:
				b.WriteString(strings.Repeat(" ", approxCol+1+r.Intn(4)))
			case 3:
				b.WriteString(strings.Repeat(" ", r.Intn(approxCol+2)))
			case 4:
				b.WriteString("\t" + strings.Repeat(" ", r.Intn(4)))
			default:
				b.WriteString(strings.Repeat(" ", r.Intn(5)) + "\t" + strings.Repeat(" ", r.Intn(3)))
			}
		case 7:
			b.WriteString(" ")
		default:
			w := core.Pick(r, c08Words)
			w = strings.ReplaceAll(w, `"`, `\"`)
			b.WriteString(w)
		}
	}
	return b.String()
}

func c08Single(r *core.Rng) string {
	var b strings.Builder
	for i := r.Range(0, 5); i > 0; i-- {
		switch r.Intn(8) {
		case 0:
			b.WriteString(`\n`)
		case 1:
			b.WriteString("\n   ")
		case 2:
			b.WriteString(`\`)
		case 3:
			b.WriteString(`"`)
		default:
			b.WriteString(strings.ReplaceAll(core.Pick(r, c08Words), "'", ""))
		}
	}
	return b.String()
}

var c08Trivia = []string{"", " ", "\n", "  \n\t", " /* c */ ", " // lc\n ", "\t", "\n\n  ", "/* \" */", " /* ' + */ ",
	// comments whose text starts or ends with the characters of the comment markers
	" /*/ x */ ", "/*/*/", " /*//////\n * banner\n //////*/ ", "/***/", " //*/ lc\n", " /*/ \"q\" + */ ", "/* // */",
	// the replacement character, written out, is a character like any other
	" /* \ufffd */ ", " // \ufffd\n",
	// a carriage return on its own does not end a line comment (a line ends with LF or CRLF)
	" // first\r + \"not part of it\" second\n", " // a\rb\r\n "}

func c08Gen(r *core.Rng) *c08Case {
	c := &c08Case{}
	switch r.Intn(6) {
	case 0:
		c.Lead = ""
	case 1:
		c.Lead = strings.Repeat(" ", r.Intn(61))
		if r.Chance(1, 6) {
			// far to the right
			c.Lead = strings.Repeat(" ", 56+r.Intn(260))
		}
	case 2:
		c.Lead = strings.Repeat("\t", r.Range(1, 4))
	case 3:
		c.Lead = strings.Repeat(" ", r.Intn(4)) + "\t" + strings.Repeat(" ", r.Intn(8))
	case 4:
		c.Lead = "  x:p " + core.Pick(r, []string{"q", "\"日本語\"", "'é'", "\"a\tb\""}) + "; "
	default:
		c.Lead = "  "
	}
	approx := quoteCols(c.Lead) + 4
	n := 1
	if r.Chance(1, 2) {
		n = r.Range(2, 4)
	}
	for i := 0; i < n; i++ {
		var p yang.Piece
		switch {
		case n == 1 && r.Chance(1, 5):
			p = yang.Piece{Kind: yang.Unquoted, Raw: core.Pick(r, []string{"word", "a.b-c_d", "http://x/y", "a/*b", "é日", "1..5|7", "x:y", "a\\nb", "x'y", "a=b",
				// blanks of Unicode that are no separators in YANG: part of the token
				"a\ufffdb", "10\u00a0km", "km\u00a0", "\u00a0km", "全角\u3000空白", "a\u2009b", "x\u0085y", "z\u2028"})}
		case r.Chance(1, 4):
			p = yang.Piece{Kind: yang.Single, Raw: c08Single(r)}
		default:
			p = yang.Piece{Kind: yang.Double, Raw: c08Double(r, approx)}
		}
		c.Pieces = append(c.Pieces, p)
		if i > 0 {
			c.Joins = append(c.Joins, core.Pick(r, c08Trivia)+"+"+core.Pick(r, c08Trivia))
		}
	}
	if r.Chance(1, 4) {
		c.Sep = core.Pick(r, c08Seps)
	}
	// the statement alone, from the first byte of the text (indented or not; not behind another statement)
	if !strings.Contains(c.Lead, ";") && r.Chance(1, 5) {
		c.Bare = true
	}
	if r.Chance(1, 3) {
		c.Tail = core.Pick(r, c08Tails)
	}
	if n >= 2 && r.Chance(1, 5) {
		// the same source text twice in one argument (each occurrence is decoded at its own column)
		k := r.Range(1, n-1)
		c.Pieces[k] = c.Pieces[r.Intn(k)]
	}
	return c
}

// exhaustive small space
func c08Enum() []*c08Case {
	var indents []string
	indents = append(indents, "")
	alpha := []string{" ", "\t"}
	var rec func(prefix string, n int)
	rec = func(prefix string, n int) {
		if n == 0 {
			return
		}
		for _, a := range alpha {
			indents = append(indents, prefix+a)
			rec(prefix+a, n-1)
		}
	}
	rec("", 3)
	for _, k := range []int{4, 5, 8, 9, 12, 13, 14, 16, 17} {
		indents = append(indents, strings.Repeat(" ", k))
	}
	shapes := []string{
		"a\n%sb", "a \t\n%sb", "a\n\n%sb", "a\n%s\n%sb", "a\r\n%sb", "\n%sb\n%s", "a\n%s b \n%s\tc",
	}
	var out []*c08Case
	for col := 0; col <= 12; col++ {
		for _, ind := range indents {
			for _, sh := range shapes {
				raw := strings.ReplaceAll(sh, "%s", ind)
				out = append(out, &c08Case{Lead: strings.Repeat(" ", col), Pieces: []yang.Piece{{Kind: yang.Double, Raw: raw}}})
			}
		}
	}
	// tab-built columns
	for _, lead := range []string{"\t", "\t\t", " \t", "  \t  "} {
		for _, ind := range indents {
			out = append(out, &c08Case{Lead: lead, Pieces: []yang.Piece{{Kind: yang.Double, Raw: "a\n" + ind + "b"}}})
		}
	}
	return out
}

var c08EnumList = c08Enum()

func (p *c08) NumCases(tier string, seed int64) int {
	return len(c08EnumList) + tierN(tier, 150000, 15000000)
}

func (p *c08) gen(tier string, seed int64, idx int) *c08Case {
	if idx < len(c08EnumList) {
		return c08EnumList[idx]
	}
	return c08Gen(core.CaseRng(seed, "C08", idx))
}

func (p *c08) Describe(tier string, seed int64, idx int) string {
	t, _ := p.gen(tier, seed, idx).text()
	return t
}

func findStmt(n parse.Node, stmt string) parse.Node {
	if n.Statement() == stmt {
		return n
	}
	for _, c := range n.Children() {
		if f := findStmt(c, stmt); f != nil {
			return f
		}
	}
	return nil
}

func c08Features(c *c08Case) string {
	var f []string
	for _, p := range c.Pieces {
		if p.Kind != yang.Double {
			continue
		}
		if strings.Contains(p.Raw, "\n\n") || strings.Contains(p.Raw, "\n\r\n") {
			f = append(f, "blank-line")
		} else if strings.Contains(p.Raw, "\n") {
			lines := strings.Split(p.Raw, "\n")
			for _, l := range lines[1 : len(lines)-1] {
				if strings.Trim(l, " \t\r") == "" {
					f = append(f, "blank-only-line")
					break
				}
			}
		}
	}
	if len(f) == 0 {
		return "other"
	}
	return f[0]
}

func c08Check(c *c08Case, res *core.CaseResult) {
	text, cols := c.text()
	want, asserted := yang.Decode(c.Pieces, cols)
	if !asserted {
		res.Ev("unasserted_cases", 1)
		return
	}
	var tree *parse.Tree
	var err error
	pan, msg, _ := core.Guard(func() { tree, err = parse.Parse("c08.yang", text, nil) })
	res.Ev("arguments_checked", 1)
	res.Key(fmt.Sprintf("%v|%s", cols, text))
	multi := false
	for _, p := range c.Pieces {
		if p.Kind == yang.Double && strings.Contains(p.Raw, "\n") {
			multi = true
			if strings.Contains(p.Raw, "\n\t") || strings.Contains(p.Raw, " \t") {
				res.Ev("tab_in_indent", 1)
			}
		}
	}
	if multi {
		res.Ev("double_quoted_multi_line", 1)
	}
	if len(c.Pieces) > 1 {
		res.Ev("concatenations", 1)
	}
	if pan {
		res.Fail("C08/parse-panic", text, msg)
		return
	}
	if err != nil {
		res.Fail("C08/valid-argument-rejected", text, err.Error())
		return
	}
	n := findStmt(tree.Root, "x:s")
	if n == nil {
		res.Fail("C08/statement-missing", text, "x:s not found in the tree")
		return
	}
	got := n.Argument().String()
	if got != want {
		res.Fail("C08/decoded-argument/"+c08Features(c), text, fmt.Sprintf("RFC 6020 value %q, parser gives %q (quote columns %v)", want, got, cols))
	}
}

// c08TypedArguments: statements of the core language whose argument the parser also takes apart (key, unique,
// range, length, must, pattern, augment, if-feature), written over several lines, with more than one blank,
// with tabs and as concatenations: the argument reported is still the RFC 6020 value of what was written.
func c08TypedArguments(res *core.CaseResult) {
	type ta struct{ kw, raw, want string } // raw: source form of the argument
	args := []ta{
		{"key", "\"a b\"", "a b"}, {"key", "\"a  b\"", "a  b"}, {"key", "'a\tb'", "a\tb"}, {"key", "\"a\n         b\"", "a\nb"},
		{"key", "\"a \" + 'b'", "a b"}, {"key", "'a' + \"  \" + 'b'", "a  b"},
		{"unique", "\"a  b\"", "a  b"}, {"unique", "\"a\n            b\"", "a\nb"}, {"unique", "'a\tb'", "a\tb"},
	}
	for i, a := range args {
		body := "    leaf a { type string; }\n    leaf b { type string; }\n    leaf k { type string; }\n"
		stmt := "    " + a.kw + " " + a.raw + ";\n"
		if a.kw == "unique" {
			stmt = "    key k;\n" + stmt
		}
		text := "module m {\n  namespace \"urn:m\";\n  prefix m;\n  list l {\n" + stmt + body + "  }\n}\n"
		var tree *parse.Tree
		var err error
		pan, msg, _ := core.Guard(func() { tree, err = parse.Parse("c08-typed.yang", text, nil) })
		res.Ev("typed_arguments_checked", 1)
		res.Key(text)
		switch {
		case pan:
			res.Fail("C08/parse-panic", text, msg)
		case err != nil:
			res.Fail("C08/valid-argument-rejected/typed", text, err.Error())
		default:
			n := findStmt(tree.Root, a.kw)
			if n == nil {
				res.Fail("C08/statement-missing", text, a.kw+" not found in the tree")
			} else if got := n.Argument().String(); got != a.want {
				res.Fail("C08/decoded-argument/typed-statement", text, fmt.Sprintf("case %d: RFC 6020 value %q, parser gives %q", i, a.want, got))
			}
		}
	}
}

// c08ManyStatements: one module with 6000 statements whose arguments are concatenations of three short pieces
// (18000 pieces in all): each argument is a value of its own, whatever was decoded before it.
func c08ManyStatements(res *core.CaseResult) {
	var b strings.Builder
	b.WriteString("module m {\n  namespace \"urn:m\";\n  prefix m;\n")
	const n = 6000
	want := make([]string, n)
	for i := 0; i < n; i++ {
		fmt.Fprintf(&b, "  x:s \"a%d\" + ' b' +\n      \"\\tc\n       d\";\n", i)
		want[i] = fmt.Sprintf("a%d b\tc\nd", i)
	}
	b.WriteString("}\n")
	text := b.String()
	var tree *parse.Tree
	var err error
	pan, msg, _ := core.Guard(func() { tree, err = parse.Parse("c08-many.yang", text, nil) })
	res.Ev("many_statement_modules", 1)
	short := core.Trunc(text, 400)
	if pan {
		res.Fail("C08/parse-panic", short, msg)
		return
	}
	if err != nil {
		res.Fail("C08/valid-argument-rejected/many-statements", short, err.Error())
		return
	}
	i := 0
	for _, ch := range tree.Root.Children() {
		if ch.Statement() != "x:s" {
			continue
		}
		if i < n && ch.Argument().String() != want[i] {
			res.Fail("C08/decoded-argument/many-statements", short, fmt.Sprintf("statement %d: RFC 6020 value %q, parser gives %q", i, want[i], ch.Argument().String()))
			return
		}
		i++
	}
	if i != n {
		res.Fail("C08/statement-missing", short, fmt.Sprintf("%d of %d x:s statements in the tree", i, n))
	}
	res.Ev("arguments_checked", n)
}

func (p *c08) Run(tier string, seed int64, idx int) core.CaseResult {
	var res core.CaseResult
	if idx == 0 {
		c08ManyStatements(&res)
	}
	if idx == 1 {
		c08TypedArguments(&res)
	}
	c := p.gen(tier, seed, idx)
	c08Check(c, &res)
	if idx%5003 == 0 {
		t, _ := c.text()
		res.Sample = map[string]string{"source": t}
	}
	return res
}

func (p *c08) Witness(raw json.RawMessage) []core.Failure {
	var c c08Case
	if err := json.Unmarshal(raw, &c); err != nil {
		return []core.Failure{{Class: "harness-panic", Detail: err.Error()}}
	}
	var res core.CaseResult
	c08Check(&c, &res)
	return res.Fails
}
