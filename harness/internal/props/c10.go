package props

import (
	"encoding/json"
	"fmt"
	"regexp"
	"strconv"
	"strings"

	"github.com/sdcio/yang-parser/parse"

	"verifharness/internal/core"
	"verifharness/internal/yang"
)

// C10: the parse tree mirrors the source and ignores trivia.
// Differential (generator's statement tree vs walk of Tree.Root) and
// metamorphic (re-layout, re-quoting) monitors.
type c10 struct{ base }

func init() {
	core.Register(&c10{base: base{
		id: "C10",
		rule: "cases = generated statement trees (modules densely filled with prefixed extension statements of any argument, nesting <= 8 and body shape, plus core containers), " +
			"each rendered in the canonical layout, in 3 (quick) / 7 (thorough) random layouts (quoting form per argument: unquoted, single, double with literal or escaped line breaks, " +
			"'+' concatenations; comments, blanks and line breaks at random token boundaries; tabs or spaces; CRLF) and once per single token boundary (all boundaries for trees up to 60 boundaries, " +
			"12 sampled beyond); the walk of Tree.Root (keyword, decoded argument, order, nesting, line and column of the keyword) must equal the generator's tree and the renderer's recorded " +
			"positions, hence all renderings agree except in positions; distinct_nontrivial = distinct rendered texts that were parsed and compared",
		block: 32,
		assumptions: []string{
			"argument values are drawn from the domain on which all quoting forms are unambiguously equivalent under RFC 6020 6.1.3 (C08 covers the decoding itself)",
			"positions are checked for keyword tokens only (line 1-based, column = byte offset in the line), as the property states",
		},
		minEvents: []string{"texts_parsed", "statements_compared", "single_boundary_renderings", "requoted_renderings"},
	}})
}

func (p *c10) NumCases(tier string, seed int64) int { return tierN(tier, 4000, 160000) }

func (p *c10) gen(seed int64, idx int) *yang.Stmt {
	r := core.CaseRng(seed, "C10", idx)
	return yang.GenGenericModule(r, r.Range(3, 60))
}

func (p *c10) Describe(tier string, seed int64, idx int) string {
	return yang.Render(p.gen(seed, idx), yang.CanonicalLayout())
}

var c10LocRe = regexp.MustCompile(`^(.*?):(\d+):(\d+)`)

type c10Flat struct {
	depth     int
	kw, arg   string
	line, col int
}

func c10FlattenModel(s *yang.Stmt) []c10Flat {
	var out []c10Flat
	s.Walk(func(x *yang.Stmt, d int) {
		out = append(out, c10Flat{depth: d, kw: x.Kw, arg: x.Arg, line: x.Line, col: x.Col})
	}, 0)
	return out
}

func c10FlattenTree(n parse.Node, depth int, out *[]c10Flat) {
	f := c10Flat{depth: depth, kw: n.Statement(), line: -1, col: -1}
	if a := n.Argument(); a != nil {
		f.arg = a.String()
	}
	loc, _ := n.ErrorContext()
	if m := c10LocRe.FindStringSubmatch(loc); m != nil {
		f.line, _ = strconv.Atoi(m[2])
		f.col, _ = strconv.Atoi(m[3])
	}
	// The parser wraps a data node written directly under a choice in a case of the same name at the
	// same position (RFC 6020 7.9.2 shorthand): that wrapper is not a source statement and is looked through.
	if f.kw == "case" && len(n.Children()) == 1 {
		c := n.Children()[0]
		cloc, _ := c.ErrorContext()
		cm, m := c10LocRe.FindStringSubmatch(cloc), c10LocRe.FindStringSubmatch(loc)
		if c.Statement() != "case" && cm != nil && m != nil && cm[2] == m[2] && cm[3] == m[3] && c.Argument() != nil && c.Argument().String() == f.arg {
			c10FlattenTree(c, depth, out)
			return
		}
	}
	*out = append(*out, f)
	for _, c := range n.Children() {
		c10FlattenTree(c, depth+1, out)
	}
}

func c10Compare(root *yang.Stmt, text, variant string, res *core.CaseResult) {
	res.Ev("texts_parsed", 1)
	res.Key(text)
	var tree *parse.Tree
	var err error
	pan, msg, _ := core.Guard(func() { tree, err = parse.Parse("c10.yang", text, nil) })
	in := jsonStr(map[string]string{"variant": variant, "text": text})
	if pan {
		res.Fail("C10/panic", in, msg)
		return
	}
	if err != nil {
		res.Fail("C10/accepted-text-rejected/"+variantKind(variant), in, err.Error())
		return
	}
	want := c10FlattenModel(root)
	var got []c10Flat
	c10FlattenTree(tree.Root, 0, &got)
	if len(got) != len(want) {
		res.Fail("C10/statement-count/"+variantKind(variant), in, fmt.Sprintf("source has %d statements, tree has %d", len(want), len(got)))
		return
	}
	for i := range want {
		w, g := want[i], got[i]
		res.Ev("statements_compared", 1)
		switch {
		case w.depth != g.depth || w.kw != g.kw:
			res.Fail("C10/structure/"+variantKind(variant), in, fmt.Sprintf("statement %d: source %q at depth %d, tree %q at depth %d", i, w.kw, w.depth, g.kw, g.depth))
			return
		case w.arg != g.arg:
			res.Fail("C10/argument/"+variantKind(variant), in, fmt.Sprintf("statement %d (%s): source argument %q, tree %q", i, w.kw, w.arg, g.arg))
			return
		case w.line != g.line || w.col != g.col:
			res.Fail("C10/position/"+variantKind(variant), in, fmt.Sprintf("statement %d (%s %s): keyword at %d:%d in the source, tree reports %d:%d", i, w.kw, core.Trunc(w.arg, 20), w.line, w.col, g.line, g.col))
			return
		}
	}
}

func variantKind(v string) string {
	if i := strings.Index(v, "-"); i > 0 {
		return v[:i]
	}
	return v
}

func (p *c10) Run(tier string, seed int64, idx int) core.CaseResult {
	var res core.CaseResult
	root := p.gen(seed, idx)
	r := core.CaseRng(seed, "C10lay", idx)
	if idx == 0 {
		// one text with 8000 statements, every argument written as a concatenation (about 12000 '+' signs in
		// all): each argument is another quoting form of a plain value, however many came before it
		big := yang.S("module", "gm", yang.S("namespace", "urn:gm"), yang.S("prefix", "gm"))
		for i := 0; i < 8000; i++ {
			big.Add(yang.S("gm:n", fmt.Sprintf("value %d of many, it's one", i)))
		}
		res.Ev("many_statement_texts", 1)
		c10Compare(big, yang.Render(big, &yang.Layout{R: r, Quote: 4, Boundary: -1}), "random-many", &res)
	}
	if idx == 1 {
		// the same name, and the name followed by one or two digits, as the argument of every kind of statement
		// that takes a name: each statement keeps the argument written on it, whatever other statements say
		nm := yang.S("module", "b5", yang.S("namespace", "urn:b5"), yang.S("prefix", "b"))
		var sfx []string
		sfx = append(sfx, "")
		for i := 0; i < 20; i++ {
			sfx = append(sfx, fmt.Sprint(i))
		}
		str := func() *yang.Stmt { return yang.S("type", "string") }
		for _, x := range sfx {
			n := "b" + x
			nm.Add(yang.S("import", n, yang.S("prefix", n)))
		}
		for _, x := range sfx {
			n := "b" + x
			nm.Add(yang.S("b:ext", n),
				yang.S("typedef", n, str()), yang.S("feature", n), yang.S("identity", n, yang.S("base", n)), yang.S("extension", n, yang.S("argument", n)),
				yang.S("grouping", n, yang.S("leaf", n, str())),
				yang.S("container", n, yang.S("presence", n), yang.S("must", n), yang.S("when", n), yang.S("if-feature", n), yang.S("uses", n),
					yang.S("leaf", n, yang.S("type", n), yang.S("default", n), yang.S("units", n), yang.S("b:ext", n)),
					yang.S("leaf-list", n, str()),
					yang.S("list", n, yang.S("key", n), yang.S("unique", n), yang.S("leaf", n, str())),
					yang.S("choice", n, yang.S("case", n, yang.S("anyxml", n)))),
				yang.S("rpc", n), yang.S("notification", n, yang.S("leaf", n, str())))
		}
		res.Ev("texts_with_one_name_on_every_kind_of_statement", 1)
		c10Compare(nm, yang.Render(nm, yang.CanonicalLayout()), "names-canonical", &res)
		c10Compare(nm, yang.Render(nm, &yang.Layout{R: r, Quote: 1, Trivia: 1, Boundary: -1}), "random-names", &res)
	}
	if idx == 2 {
		// the same quoted text with a line break, written at eight depths without re-indenting its continuation lines:
		// how much of their indentation belongs to the value depends on the column of the opening quote of each
		var b strings.Builder
		line := 1
		put := func(txt string) {
			b.WriteString(txt)
			line += strings.Count(txt, "\n")
		}
		mk := func(kw, arg string, col int) *yang.Stmt {
			st := yang.S(kw, arg)
			st.Line, st.Col = line, col
			return st
		}
		for _, raw := range []string{"Line one\n" + strings.Repeat(" ", 19) + "indented\n    x", "a\n" + strings.Repeat(" ", 30) + "b\n" + strings.Repeat(" ", 16) + "c"} {
			b.Reset()
			line = 1
			root := mk("module", "m", 0)
			put("module m {\n")
			root.Add(mk("namespace", "urn:m", 2))
			put("  namespace \"urn:m\";\n")
			root.Add(mk("prefix", "m", 2))
			put("  prefix m;\n")
			cur := root
			for d := 1; d <= 8; d++ {
				ind := strings.Repeat(" ", 2*d)
				c := mk("container", fmt.Sprintf("c%d", d), 2*d)
				put(ind + fmt.Sprintf("container c%d {\n", d))
				cur.Add(c)
				cur = c
				q := 2*(d+1) + len("description ") // column of the opening quote
				var val []string
				for i, l := range strings.Split(raw, "\n") {
					if i > 0 {
						n := 0
						for n < len(l) && n <= q && l[n] == ' ' {
							n++
						}
						l = l[n:]
					}
					val = append(val, l)
				}
				c.Add(mk("description", strings.Join(val, "\n"), 2*(d+1)))
				put(ind + "  description \"" + raw + "\";\n")
			}
			for d := 8; d >= 1; d-- {
				put(strings.Repeat(" ", 2*d) + "}\n")
			}
			put("}\n")
			res.Ev("texts_with_one_quoted_text_at_several_depths", 1)
			c10Compare(root, b.String(), "depths-same-text", &res)
		}
	}
	// canonical
	lay := yang.CanonicalLayout()
	text := yang.Render(root, lay)
	nb := lay.NBoundaries
	c10Compare(root, text, "canonical", &res)
	// trivia after the last token, ending the text without a line break
	for k, tail := range []string{"// the end", "//", " /* the end */", "\n// x\n// y", "\t"} {
		res.Ev("trailing_trivia_renderings", 1)
		c10Compare(root, strings.TrimRight(text, "\n")+tail, fmt.Sprintf("tail-%d", k), &res)
	}
	// random layouts
	for k := 0; k < tierN(tier, 3, 7); k++ {
		l := &yang.Layout{R: r, Quote: 1, Trivia: r.Intn(3), Boundary: -1, CRLF: r.Chance(1, 6)}
		if r.Chance(1, 3) {
			l.Indent = core.Pick(r, []string{"\t", "none", "    ", " ", "none"})
		}
		t := yang.Render(root, l)
		res.Ev("requoted_renderings", 1)
		c10Compare(root, t, fmt.Sprintf("random-%d", k), &res)
	}
	// forced quoting forms
	for _, q := range []int{2, 3} {
		t := yang.Render(root, &yang.Layout{Quote: q, Boundary: -1})
		res.Ev("requoted_renderings", 1)
		c10Compare(root, t, fmt.Sprintf("quote-%d", q), &res)
	}
	// one boundary at a time
	var bounds []int
	if nb <= 60 {
		for i := 0; i < nb; i++ {
			bounds = append(bounds, i)
		}
	} else {
		for i := 0; i < 12; i++ {
			bounds = append(bounds, r.Intn(nb))
		}
	}
	for _, b := range bounds {
		t := yang.Render(root, &yang.Layout{Boundary: b})
		res.Ev("single_boundary_renderings", 1)
		c10Compare(root, t, fmt.Sprintf("boundary-%d", b), &res)
	}
	if idx%307 == 0 {
		res.Sample = map[string]interface{}{"statements": root.Count(), "token_boundaries": nb, "canonical_text": core.Trunc(text, 400)}
	}
	return res
}

func (p *c10) Witness(raw json.RawMessage) []core.Failure { return nil }
